#!/bin/bash
# Build /repo's current working tree (out of tree) as static libs for a variant.
#   kit/build.sh asan|tsan|plain|nohooks
# Serialised with flock so concurrent checks share one incremental build.
set -euo pipefail
V=${1:-asan}
ROOT=$(cd "$(dirname "$0")/.." && pwd)
REPO=${VERIF_REPO:-/repo}
B=$ROOT/build/$V
# a scratch copy of the repository (mutation experiments) gets its own build dir
if [ "$REPO" != "/repo" ]; then B=$ROOT/build/$V-$(echo "$REPO" | md5sum | cut -c1-8); fi
mkdir -p "$B"
case $V in
  asan)    CF="-g -O1 -fno-omit-frame-pointer -fsanitize=address -DLIBEVENT_VERIF" ;;
  tsan)    CF="-g -O1 -fno-omit-frame-pointer -fsanitize=thread -DLIBEVENT_VERIF" ;;
  plain)   CF="-g -O1 -DLIBEVENT_VERIF" ;;
  nohooks) CF="-g -O2" ;;
  *) echo "unknown variant $V" >&2; exit 2 ;;
esac
exec 9>"$B/.lock"
flock 9
if [ ! -f "$B/build.ninja" ]; then
  cmake -G Ninja -S "$REPO" -B "$B" \
    -DCMAKE_BUILD_TYPE=None -DCMAKE_C_FLAGS="$CF" \
    -DEVENT__LIBRARY_TYPE=STATIC -DEVENT__DISABLE_TESTS=ON -DEVENT__DISABLE_REGRESS=ON \
    -DEVENT__DISABLE_SAMPLES=ON -DEVENT__DISABLE_BENCHMARK=ON \
    -DEVENT__DISABLE_MBEDTLS=ON -DEVENT__DISABLE_OPENSSL=ON >"$B/cmake.log" 2>&1 || { cat "$B/cmake.log" >&2; exit 2; }
fi
ninja -C "$B" >"$B/ninja.log" 2>&1 || { tail -50 "$B/ninja.log" >&2; exit 2; }
echo "$B"
