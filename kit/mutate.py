#!/usr/bin/env python3
"""Apply a textual mutation to a scratch worktree of /repo and run checks against it.
usage: kit/mutate.py <name> <file> <old-text> <new-text> <check-id>...   (old/new may be @path to read from a file)
Prints one line per check: MUT <name> <check> rc=<rc> (rc=1 means the mutation was detected)."""
import os, subprocess, sys, shutil, hashlib
name, fname, old, new = sys.argv[1:5]
checks = sys.argv[5:]
rd = lambda s: open(s[1:]).read() if s.startswith("@") else s.encode().decode("unicode_escape")
old, new = rd(old), rd(new)
wt = "/tmp/mut_" + name
subprocess.run(["git", "-C", "/repo", "worktree", "remove", "--force", wt], capture_output=True)
subprocess.run(["git", "-C", "/repo", "worktree", "add", "--detach", wt, "HEAD"], check=True, capture_output=True)
try:
    p = os.path.join(wt, fname)
    s = open(p).read()
    if s.count(old) < 1:
        print("MUT %s: pattern not found" % name); sys.exit(3)
    open(p, "w").write(s.replace(old, new, 1))
    env = dict(os.environ, VERIF_REPO=wt)
    for c in checks:
        r = subprocess.run(["/verif/check", c, "--tier", "quick"], cwd="/verif", env=env, capture_output=True, text=True)
        viol = [l for l in r.stdout.split("\n") if l.startswith("VIOLATION")]
        print("MUT %s %s rc=%d violations=%d %s" % (name, c, r.returncode, len(viol), (r.stderr.strip().split("\n")[-1][:300] if r.returncode not in (0, 1) else "")), flush=True)
finally:
    subprocess.run(["git", "-C", "/repo", "worktree", "remove", "--force", wt], capture_output=True)
    h = hashlib.md5((wt + "\n").encode()).hexdigest()[:8]
    for v in ("asan", "tsan", "plain"):
        shutil.rmtree("/verif/build/%s-%s" % (v, h), ignore_errors=True)
