#!/usr/bin/env python3
import json, glob, os
rows = []
for f in sorted(glob.glob("/verif/seeded/*/meta.json")):
    m = json.load(open(f)); n = os.path.basename(os.path.dirname(f))
    c = m.get("confirmed", {})
    rows.append("| %s | %s | %s | %s | with=%s without=%s | %s | %s |" % (
        n, m["breaks_property"], m["needs_to_manifest"], c.get("ctest_with_change", "?"),
        c.get("demo_rc_with_change", "?"), c.get("demo_rc_without_change", "?"),
        ", ".join("%s:rc=%s" % (k, v["rc"]) for k, v in m.get("check_results", {}).items()),
        ", ".join(m.get("detected_by", [])) or "NOT DETECTED"))
open("/verif/seeded/SUMMARY.md", "w").write(
    "# Seeded changes\n\n| seed | property | needs | baseline with change | demo rc | check results (quick tier) | detected by |\n|---|---|---|---|---|---|---|\n" + "\n".join(rows) + "\n")
print(len(rows), "seeds")
