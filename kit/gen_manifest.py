#!/usr/bin/env python3
"""Regenerate MANIFEST.json from the table below (one source of truth)."""
import json, os
ROOT = os.path.dirname(os.path.dirname(os.path.abspath(__file__)))
G = "TLA+ spec + TLC; TLC-generated histories replayed into the real library with every observation compared (binding G)"
CLAIMED = {
 # id: (engine, level category, text, note, technique, design_ref)
 "C01": ("EventCore", "model_checking",
         "NotLate/NoEarly/CommonQueueOK decided by TLC on the bounded reactor model; exhaustive and random timer histories (exact/early/late wake-ups, clock jumps, zero/equal/huge durations, common timeouts) replayed under a virtual clock with callbacks, flags and reported expiries compared after every call.",
         "trusts the link-time clock/wait wrappers and the abstraction tick->timeval; bounds: <=3-4 timer events, depth 3-4 exhaustive, depth 30-50 random", G, "6/C01"),
 "C02": ("EventCore", "model_checking",
         "The documented event state machine is the TLA+ model; its consistency invariants (event_base_assert_ok restated) are decided by TLC; every API history of depth 3 and long random histories are replayed and event_pending/expiry/priorities/num+max events/callbacks compared after every call, with event_base_assert_ok_ run each step.",
         "pool of 5 events (2 I/O on pipes, 2 timers, 1 signal), 3 priorities; equal-deadline order left open", G, "6/C02"),
 "C03": ("EventCore", "model_checking",
         "PrioOrderInv, BreakStops, LaterPromoted decided by TLC; histories with callback scripts (break/continue/exit/activate/later/del/add from inside callbacks), all loop flag combinations and max_dispatch_callbacks x limit_callbacks_after_prio configurations replayed with exact callback order and loop return value compared.",
         "max_dispatch_interval: intervals of 0..3 ticks with callbacks that take 1-2 ticks of virtual time (cached loop time modelled); equal heap deadlines excluded when callbacks have side effects", G, "6/C03"),
 "C10": ("EventCore", "model_checking",
         "Finalizer/once-event life-cycle in the TLA+ model; histories with event_finalize/event_free_finalize/event_free/event_base_once and event_base_free (with and without finalizers) at every point, incl. from inside callbacks, replayed on the ASan build with every finalizer/callback invocation compared.",
         "events and once-events only (bufferevents: C19, listeners: C44); memory / descriptor balance measured per scenario through the allocator hooks and the fd table", G, "6/C10"),
 "C45": ("EventCore", "model_checking",
         "Watcher phases are actions of the loop model; histories creating/freeing watchers (self/next/previous/new from inside watcher callbacks; watchers that add a timer, activate or delete an event in the prepare/check phase - the loop must still wait with the timeout the prepare watchers were told) replayed on the ASan build: which watcher ran, order relative to wait and callbacks, and the timeout reported to prepare watchers are compared.",
         "3 watcher slots; a watcher created inside a same-kind watcher callback runs in that iteration (code behaviour)", G, "6/C45"),
}
# properties not (yet) claimed: id -> reason
NOT_APPLICABLE = {}

def main():
    props = [json.loads(l) for l in open(os.path.join(ROOT, "properties.jsonl"))]
    import glob
    claimed = dict(CLAIMED)
    na = dict(NOT_APPLICABLE)
    # fragments: kit/manifest.d/<ID>.json = {"engine","category","text","note","technique","design_ref"} or {"not_applicable": reason}
    for f in sorted(glob.glob(os.path.join(ROOT, "kit", "manifest.d", "*.json"))):
        pid = os.path.basename(f)[:-5]
        x = json.load(open(f))
        if "not_applicable" in x:
            na[pid] = x["not_applicable"]; claimed.pop(pid, None)
        else:
            claimed[pid] = (x["engine"], x["category"], x["text"], x["note"], x["technique"], x.get("design_ref", "6/" + pid))
    checks = []
    for p in props:
        pid = p["id"]
        if pid not in claimed:
            na.setdefault(pid, "check not built yet in this session (see DESIGN.md section 6 for the planned TLA+ module)")
            continue
        eng, cat, text, note, tech, ref = claimed[pid]
        checks.append({
            "property_id": pid,
            "quick_cmd": "./check %s --tier quick" % pid,
            "thorough_cmd": "./check %s --tier thorough" % pid,
            "evidence_file": "evidence/%s.json" % pid,
            "replay_cmd_template": "./check %s --replay {path}" % pid,
            "engine": eng,
            "level_claimed": {"category": cat, "text": text, "design_ref": "DESIGN.md " + ref},
            "level_note": note,
            "technique": tech,
        })
    engines = {}
    for c in checks:
        engines.setdefault(c["engine"], []).append(c["property_id"])
    m = {
        "version": 1,
        "setup_cmd": "kit/setup.sh",
        "hooks": {"guard": "LIBEVENT_VERIF",
                  "enable": "kit/build.sh passes -DLIBEVENT_VERIF in CMAKE_C_FLAGS for the out-of-tree builds under /verif/build/<variant>",
                  "baseline_off_cmd": "kit/baseline_off.sh",
                  "source_commits": json.load(open(os.path.join(ROOT, "kit", "hook_commits.json"))) if os.path.exists(os.path.join(ROOT, "kit", "hook_commits.json")) else [],
                  "add_only": True},
        "engines": [{"name": e, "path": "specs/%s.tla" % e, "serves_properties": ps,
                     "kind_free_text": "TLA+ specification checked with TLC; bound to the code by a C driver under harness/"}
                    for e, ps in sorted(engines.items())],
        "checks": checks,
        "not_applicable": [{"property_id": k, "reason": v} for k, v in sorted(na.items()) if k not in claimed],
        "notes": "Single entry point ./check <ID> --tier quick|thorough. exit 0 held / 1 VIOLATION / 2 infrastructure error. known_findings.json lists genuine defects (fixed ones suppress nothing).",
    }
    json.dump(m, open(os.path.join(ROOT, "MANIFEST.json"), "w"), indent=1)
    print("claimed:", len(checks), "not_applicable:", len(m["not_applicable"]))

if __name__ == "__main__":
    main()
