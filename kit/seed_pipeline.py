#!/usr/bin/env python3
"""Seed bookkeeping: for each seeded change, (1) confirm it in the adversary's worktree (builds without
new warnings, baseline passes with it, demo fails with it and passes without), (2) run our checks against it in a
scratch worktree, (3) write seeded/<name>/meta.json.
usage: kit/seed_pipeline.py <name> ...   (names from the TABLE below; 'all' = every entry without meta.json)"""
import json, os, subprocess, sys, shutil
T = {
 # name: (property, adversary worktree, patch in worktree, demo run command, checks to run, what it needs)
 "C09-del-waits-before-dequeue": ("C09", "/tmp/adv_C09", "demo/patch.diff", "demo/run.sh", ["C09"],
    "cross-thread event_del during the event's callback, with the event re-activated before the callback returns (interleaving)"),
 "C09-add-notify-clobbered": ("C09", "/tmp/adv_C09", "demo/patch2.diff", "demo/run2.sh", ["C09"],
    "cross-thread event_add of an I/O event with a timeout that is not the heap minimum, on poll/select/epoll-changelist"),
 "C01-heap-erase-no-siftup": ("C01", "/tmp/adv_C01", "demo/patch.diff", "demo/run.sh", ["C01"],
    ">=6 pending heap timers, removal of a non-top timer whose replacement (the heap's last element) must move up, then further adds"),
 "C01-common-timeout-lifo": ("C01", "/tmp/adv_C01", "demo/patch2.diff", "demo/run.sh", ["C01"],
    "two or more adds with identical deadlines on one common-timeout queue"),
 "C02-readd-keeps-active-timeout-result": ("C02", "/tmp/adv_C02", "demo/patch.diff", "demo/run.sh", ["C02"],
    "event active with EV_TIMEOUT plus another result bit, then event_add with a timeout before the callback runs"),
 "C02-timeout-process-drops-pending-result": ("C02", "/tmp/adv_C02", "demo/patch2.diff", "demo/run.sh demo2.c", ["C02", "C01"],
    "event already active (I/O ready or event_active) whose timeout has expired when timeout_process runs"),
 "C03-break-ignored-in-signal-ncalls": ("C03", "/tmp/adv_C03", "demo/patch.diff", "demo/run.sh", ["C03"],
    "signal event active with ncalls >= 2 and event_base_loopbreak called from a non-final invocation"),
 "C03-once-returns-after-internal-only": ("C03", "/tmp/adv_C03", "demo/patch2.diff", "demo/run.sh demo2", ["C01", "C03"],
    "EVLOOP_ONCE and a wake-up in which only internal callbacks ran (common-timeout internal timer with head not due, or a cross-thread notify)"),
 "C07-reinit-loses-prior-handler": ("C07", "/tmp/adv_C07", "demo/patch.diff", "demo/run.sh demo", ["C07"],
    "self-pipe mechanism, event_reinit while a signal event is added, then delete of the last event / base free and inspection of the disposition"),
 "C07-selfdel-nonpersistent-ncalls": ("C07", "/tmp/adv_C07", "demo/patch2.diff", "demo/run.sh demo2", ["C07"],
    "non-persistent signal event, >=2 coalesced deliveries, event_del(self) from a non-final invocation"),
 "C05-changelist-add-after-del-cancelled": ("C05", "/tmp/adv_C05", "demo/patch.diff", "demo/run.sh", ["C05"],
    "epoll changelist; between two waits: del the last event of a condition, close the fd, reopen the same fd number, add the same condition"),
 "C05-poll-del-forgets-rdhup": ("C05", "/tmp/adv_C05", "demo/patch2.diff", "demo/run.sh", ["C05", "C04"],
    "poll backend; two events on one fd, one EV_CLOSED-only; delete the last EV_READ/EV_WRITE event"),
 "C10-base-free-finalizer-twice": ("C10", "/tmp/adv_C10", "demo/patch.diff", "demo/run.sh", ["C10", "C19"],
    "deferred-callback bufferevent freed from inside its own callback + loopbreak in that callback + event_base_free"),
 "C10-pair-flush-leaks-ref": ("C10", "/tmp/adv_C10", "demo/patch2.diff", "demo/run2.sh", ["C10", "C19", "C17"],
    "pair whose partner is already freed, bufferevent_flush on the survivor, then bufferevent_free"),
 "C42-decode-int-short-pullup": ("C42", "/tmp/adv_C42", "demo/patch.diff", "demo/run.sh", ["C42"],
    "maximum-length integer encoding (>=0x10000000 / >=2^60) with a chain boundary inside the encoded integer"),
 "C42-unmarshal-int-drains-result": ("C42", "/tmp/adv_C42", "demo/patch2.diff", "demo/run.sh demo2.c", ["C42"],
    "non-canonical item whose length field exceeds the integer's own encoding"),
 "C35-label-table-full-truncates": ("C35", "/tmp/adv_C35", "demo/patch.diff", "demo/run.sh demo", ["C35"],
    "more than 128 distinct name suffixes in one response (EDNS/TCP sized reply)"),
 "C35-truncation-off-by-one": ("C35", "/tmp/adv_C35", "demo/patch2.diff", "demo/run.sh demo2", ["C35"],
    "UDP reply exactly as long as the client's limit"),
 "C45-evwatch-free-test-order": ("C45", "/tmp/adv_C45", "demo/patch.diff", "demo/run.sh", ["C45"],
    "two neighbouring watchers of one list that both free themselves in the same iteration"),
 "C17-pair-finished-flush-skips-transfer": ("C17", "/tmp/adv_C17", "demo/patch.diff", "demo/run.sh", ["C17"],
    "pair (or filter over pair) whose receiving end is not pulling (EV_READ disabled / suspended), bytes queued, sender calls bufferevent_flush(EV_WRITE, BEV_FINISHED)"),
 "C17-sock-zero-length-read-eof": ("C17", "/tmp/adv_C17", "demo/patch2.diff", "demo/run.sh demo2", ["C17", "C18"],
    "socket bufferevent with exactly N bytes buffered, bufferevent_setwatermark(EV_READ, low, N), then more data arrives (two cooperating sites)"),
 "C08-file-segment-materialize-error-keeps-lock": ("C08", "/tmp/adv_C08", "demo/patch.diff", "demo/run.sh 1", ["C08"],
    "locking enabled; lazily materialised file segment added to a plain evbuffer; materialisation fails (unreadable/closed fd, ENOMEM)"),
 "C08-select-dispatch-error-returns-unlocked": ("C08", "/tmp/adv_C08", "demo/patch2.diff", "demo/run.sh 2", ["C08"],
    "locking enabled, select backend, select() failing with an error other than EINTR (fd closed while its event is added)"),
 "C16-write-sendfile-dispatch-wrong-flag": ("C16", "/tmp/adv_C16", "demo/patch.diff", "demo/run.sh", ["C16", "C15"],
    "first chain a non-sendfile file segment starting at a non-zero file offset, written with evbuffer_write"),
 "C16-read-exact-fill-last-with-datap": ("C16", "/tmp/adv_C16", "demo/patch2.diff", "demo/run.sh", ["C16", "C12"],
    "evbuffer_read that exactly fills the last iovec's chain, then a drain of more than half of the previous chain, then a small add"),
 "C44-disable-and-free-in-callback": ("C44", "/tmp/adv_C44", "demo/patch.diff", "demo/run.sh", ["C44"],
    "accept callback calls both evconnlistener_disable and evconnlistener_free (LEV_OPT_CLOSE_ON_FREE)"),
 "C44-cb-read-once-per-pass": ("C44", "/tmp/adv_C44", "demo/patch2.diff", "demo/run.sh demo2", ["C44"],
    ">=2 connections queued in one wake-up and evconnlistener_set_cb called from the callback of an earlier one"),
 "C12-add-printf-exact-fit": ("C12", "/tmp/adv_C12", "demo/patch.diff", "demo/run.sh demo", ["C12"],
    "evbuffer_add_printf whose formatted length equals the free space of the chain exactly"),
 "C12-prepend-buffer-last-with-datap": ("C12", "/tmp/adv_C12", "demo/patch2.diff", "demo/run.sh demo2", ["C12"],
    "prepend_buffer of a multi-chain source onto a single-chain destination, then an add"),
 "C13-counters-cleared-after-callbacks": ("C13", "/tmp/adv_C13", "demo/patch.diff", "demo/run.sh", ["C13"],
    "a callback that modifies the evbuffer it is registered on (immediate: change reported twice; deferred: change lost)"),
 "C13-remove-buffer-relinked-not-reported": ("C13", "/tmp/adv_C13", "demo/patch2.diff", "demo/run.sh", ["C13", "C12"],
    "remove_buffer from a multi-chain source covering at least its first chain but not all of it, with a callback on the destination"),
 "C23-obsfold-rejected-across-read-boundary": ("C23", "/tmp/adv_C23", "demo/patch.diff", "demo/run.sh", ["C23"],
    "obs-fold header with a read boundary between the folded field line and the end of its continuation line"),
 "C23-empty-line-tolerance-per-read": ("C23", "/tmp/adv_C23", "demo/patch2.diff", "demo/run.sh demo2.c", ["C23"],
    "two stray CRLFs before a request line with a read boundary between or inside them"),
 "C11-reinit-deletes-parent-notify-registration": ("C11", "/tmp/adv_C11", "demo/patch.diff", "demo/run.sh demo", ["C11"],
    "threading enabled (base owns a wake-up fd), default epoll, child calls event_reinit; the parent later depends on a cross-thread wake-up"),
 "C11-reinit-drops-ev-closed": ("C11", "/tmp/adv_C11", "demo/patch2.diff", "demo/run.sh demo2", ["C11", "C05", "C04"],
    "EV_CLOSED event added before fork on a backend with early-close support, event_reinit in the child, then the peer closes"),
 "C18-watermark-toggle-leaves-cb-disabled": ("C18", "/tmp/adv_C18", "demo/patch.diff", "demo/run.sh", ["C18"],
    "read high watermark set, cleared to 0, set again; then more than `high` bytes arrive and the application drains outside the read callback"),
 "C18-filter-stale-limit": ("C18", "/tmp/adv_C18", "demo/patch2.diff", "demo/run.sh", ["C18"],
    "filter over an underlying bufferevent with a non-draining output and a write high watermark; output filter moving less than the limit per call"),
 "C20-read-timeout-set-while-suspended": ("C20", "/tmp/adv_C20", "demo/patch.diff", "demo/run.sh", ["C20"],
    "pair/filter bufferevent read-suspended at its high watermark; bufferevent_set_timeouts with a read timeout called during the suspension"),
 "C20-sock-outbuf-add-restarts-write-timeout": ("C20", "/tmp/adv_C20", "demo/patch2.diff", "demo/run.sh demo2", ["C20"],
    "socket bufferevent with a write timeout, output pending against a stalled peer, application appends to the output more often than the timeout"),
 "C24-truncated-chunked-accepted": ("C24", "/tmp/adv_C24", "demo/patch.diff", "demo/run.sh", ["C24"],
    "chunked response with the peer closing between chunks (after the headers, after a chunk's data, inside a chunk-size line)"),
 "C24-trailer-state-not-entered": ("C24", "/tmp/adv_C24", "demo/patch2.diff", "demo/run.sh demo2.c", ["C24"],
    "chunked response with a read boundary between the last-chunk line and the end of the trailer section"),
 "C26-default-content-type-unvalidated": ("C26", "/tmp/adv_C26", "demo/patch.diff", "demo/run.sh", ["C26"],
    "evhttp_set_default_content_type with CR/LF in it, a response needing a body, handler not setting Content-Type"),
 "C26-header-value-only-first-linebreak-checked": ("C26", "/tmp/adv_C26", "demo/patch2.diff", "demo/run.sh", ["C26"],
    "header value whose first line break is a legal continuation and which has a later CR/LF followed by a field"),
 "C31-masked-frame-complete-too-early": ("C31", "/tmp/adv_C31", "demo/patch.diff", "demo/run.sh", ["C31"],
    "masked frame with a read boundary leaving the last 1-4 payload bytes outstanding"),
 "C19-deferred-eventcb-overwrites-pending": ("C19", "/tmp/adv_C19", "demo/patch.diff", "demo/run.sh", ["C19"],
    "BEV_OPT_DEFER_CALLBACKS and two event conditions coalesced into one deferred run (connect completes while the peer already hung up)"),
 "C19-connecting-flag-stale-after-refusal": ("C19", "/tmp/adv_C19", "demo/patch2.diff", "demo/run.sh 2", ["C19"],
    "asynchronous connect refusal, then the application re-arms write on the same bufferevent"),
 "C39-hosts-comment-glued-to-name": ("C39", "/tmp/adv_C39", "demo/patch.diff", "demo/run.sh", ["C39"],
    "hosts line with '#' glued to a hostname followed by more words"),
 "C39-option-name-prefix-match": ("C39", "/tmp/adv_C39", "demo/patch2.diff", "demo/run.sh", ["C39"],
    "option token with a known option name as strict prefix followed by something other than ':'"),
 "C22-group-set-cfg-clips-against-old-cfg": ("C22", "/tmp/adv_C22", "demo/patch.diff", "demo/run.sh", ["C22"],
    "bufferevent_rate_limit_group_set_cfg on a live group with a new burst smaller than the bucket's current level"),
 "C22-refill-not-rearmed-for-write-debt": ("C22", "/tmp/adv_C22", "demo/patch2.diff", "demo/run.sh", ["C22"],
    "per-bufferevent write bucket more than one tick's rate in debt (large bufferevent_decrement_write_limit) when the refill timer fires"),
 "C30-wildcard-cannot-match-empty": ("C30", "/tmp/adv_C30", "demo/patch.diff", "demo/run.sh", ["C30"],
    "vhost pattern whose '*' must match the empty string (www*.example.com vs Host: www.example.com)"),
 "C30-allowed-methods-of-vhost-used": ("C30", "/tmp/adv_C30", "demo/patch2.diff", "demo/run.sh demo2", ["C30"],
    "non-default allowed methods on the root server, a vhost, request routed to the vhost with a method in exactly one of the two masks"),
 "C33-reply-buffer-sized-by-ancount": ("C33", "/tmp/adv_C33", "demo/patch.diff", "demo/run.sh", ["C33"],
    "reply with one A/AAAA record whose RDLENGTH exceeds max(16*ANCOUNT, 255) (multiple of 4/16)"),
 "C33-qdcount-zero-accepted": ("C33", "/tmp/adv_C33", "demo/patch2.diff", "demo/run2.sh", ["C33"],
    "reply with the right ID, QR set, rcode 0 and QDCOUNT=0 followed by an answer of the queried type"),
 "C28-join-drops-port-zero": ("C28", "/tmp/adv_C28", "demo/patch.diff", "demo/run.sh", ["C28"],
    "explicit port whose value is zero (parsed or set with evhttp_uri_set_port)"),
 "C28-strip-brackets-ipvfuture": ("C28", "/tmp/adv_C28", "demo/patch2.diff", "demo/run.sh demo2.c", ["C28"],
    "EVHTTP_URI_HOST_STRIP_BRACKETS with an IPvFuture literal host"),
 "C14-add-fills-room-before-alloc": ("C14", "/tmp/adv_C14", "demo/patch.diff", "demo/run.sh", ["C14"],
    "evbuffer_add where the last chain has 0 < free room < datlen and exactly the new-chain allocation fails"),
 "C14-file-segment-early-ref-leak": ("C14", "/tmp/adv_C14", "demo/patch2.diff", "demo/run.sh", ["C14", "C15"],
    "chain allocation inside evbuffer_add_file_segment fails (or another late error exit): segment reference leaked, cleanup never runs"),
 "C37-tcp-length-prefix-one-byte": ("C37", "/tmp/adv_C37", "demo/patch.diff", "demo/run.sh", ["C37"],
    "two pipelined TCP queries with a read ending between the two bytes of the second length prefix"),
 "C21-refill-guard-le": ("C21", "/tmp/adv_C21", "demo/patch.diff", "demo/run.sh", ["C21"],
    "single refill spanning >= 2 ticks with floor((burst-level)/n) == rate and a non-zero remainder"),
 "C21-signed-headroom": ("C21", "/tmp/adv_C21", "demo/patch2.diff", "demo/run.sh demo2.c", ["C21"],
    "deficit level combined with burst = EV_RATE_LIMIT_MAX (burst - level > INT64_MAX)"),
 "C25-folded-lines-not-counted": ("C25", "/tmp/adv_C25", "demo/patch.diff", "demo/run.sh", ["C25"],
    "finite max_headers_size and a header section whose bulk is many short folded continuation lines"),
 "C25-chunk-limit-per-chunk-only": ("C25", "/tmp/adv_C25", "demo/patch2.diff", "demo/run.sh", ["C25"],
    "chunked body with every chunk <= limit, sum above it, and the limit-crossing chunk through the final 0 chunk arriving in one read"),
 "C27-retry-count-reset-moved": ("C27", "/tmp/adv_C27", "demo/patch.diff", "demo/run.sh demo", ["C27"],
    "retries enabled, first connect refused, retry connects, the request then fails at network level, then a new request on the same connection"),
 "C27-autofree-without-recheck": ("C27", "/tmp/adv_C27", "demo/patch2.diff", "demo/run.sh demo2", ["C27"],
    "evhttp_connection_free_on_completion, response with Connection: close, completion callback issues a follow-up request on the same connection"),
 "C15-multicast-buffer-len-off": ("C15", "/tmp/adv_C15", "demo/patch.diff", "demo/run.sh", ["C15", "C12"],
    "add_buffer_reference of a source chain with misalign > off, more data after the referencing chain, pullup spanning past it"),
 "C15-multicast-single-incref": ("C15", "/tmp/adv_C15", "demo/patch2.diff", "demo/run2.sh", ["C15"],
    "source with >= 2 non-empty chains at add_buffer_reference time, destination drained/freed before the source"),
 "C38-cache-ttl-max": ("C38", "/tmp/adv_C38", "demo/patch.diff", "demo/run.sh demo", ["C38"],
    "PF_UNSPEC, one family answers first, the other NODATA with an SOA whose ttl exceeds the positive TTL; second lookup between the two TTLs"),
 "C38-cache-hit-keeps-first-port": ("C38", "/tmp/adv_C38", "demo/patch2.diff", "demo/run.sh demo2", ["C38"],
    "second lookup of the same name within its TTL with a different service"),
 "C34-getaddrinfo-callback-twice": ("C34", "/tmp/adv_C34", "demo/patch.diff", "demo/run.sh", ["C34", "C38"],
    "PF_UNSPEC getaddrinfo, one family answered first, the other family's reply read in the same loop iteration in which the skew timer expires"),
 "C34-base-free-order-skips-promoted": ("C34", "/tmp/adv_C34", "demo/patch2.diff", "demo/run2.sh", ["C34"],
    "evdns_base_free(base,1) with more requests outstanding than max-inflight (>5) allows"),
 "C45-prepare-timeout-recomputed": ("C45", "/tmp/adv_C45", "demo/patch2.diff", "demo/run.sh", ["C45"],
    "a prepare watcher that adds/removes a timer or activates an event"),
}
def sh(cmd, **kw):
    return subprocess.run(cmd, shell=True, capture_output=True, text=True, **kw)
def main():
    names = sys.argv[1:]
    if names == ["all"]:
        names = [n for n in T if not os.path.exists("/verif/seeded/%s/meta.json" % n)]
    for n in names:
        prop, wt, patch, run, checks, needs = T[n]
        d = "/verif/seeded/" + n
        os.makedirs(d, exist_ok=True)
        demo_dir = os.path.join(wt, "demo")
        # copy deliverables
        if os.path.isdir(demo_dir):
            shutil.copy(os.path.join(wt, patch), os.path.join(d, "patch.diff"))
            for f in os.listdir(demo_dir):
                if f.endswith((".c", ".sh", ".md", ".h")):
                    shutil.copy(os.path.join(demo_dir, f), os.path.join(d, f))
        if not os.path.exists(os.path.join(d, "confirm.json")):      # confirmation is done once per seed
            r = sh("cd %s && git checkout -q -- . ; /verif/kit/confirm_seed.sh %s %s '%s' %s" % (wt, wt, patch, run, d))
            print(r.stdout.strip(), flush=True)
        conf = json.load(open(os.path.join(d, "confirm.json"))) if os.path.exists(os.path.join(d, "confirm.json")) else {}
        res = {}
        r = sh("/verif/kit/trypatch.py %s %s %s" % (n.replace("-", "_")[:24], os.path.join(d, "patch.diff"), " ".join(checks)))
        print(r.stdout.strip(), flush=True)
        for line in r.stdout.split("\n"):
            p = line.split()
            if len(p) >= 5 and p[0] == "PATCH":
                res[p[2]] = {"rc": int(p[3].split("=")[1]), "violations": int(p[4].split("=")[1])}
        meta = {"breaks_property": prop, "needs_to_manifest": needs, "source": "independent sub-agent given only the property text and a scratch worktree",
                "confirmed": conf,
                "what_i_ran": ["kit/confirm_seed.sh %s %s '%s'  (build, ctest -E ^regress, demo with / without the change)" % (wt, patch, run)] +
                              ["VERIF_REPO=<scratch worktree with patch.diff> ./check %s --tier quick" % c for c in checks],
                "check_results": res,
                "detected_by": [c for c, v in res.items() if v["rc"] == 1]}
        json.dump(meta, open(os.path.join(d, "meta.json"), "w"), indent=1)
if __name__ == "__main__":
    main()
