#!/bin/bash
# Confirm a seeded change in the adversary's scratch worktree:
#   with the change: builds, baseline tests pass, demo FAILS; without it: demo PASSES.
# usage: kit/confirm_seed.sh <worktree> <patch-file (relative to worktree or absolute)> <demo run script> [seeded-dir]
set -u
WT=$1; PATCH=$2; RUN=$3; OUTD=${4:-}
cd "$WT" || exit 2
git checkout -q -- . 2>/dev/null
git apply "$PATCH" || { echo "CONFIRM: patch does not apply"; exit 2; }
cmake --build _build > /tmp/confirm_build.log 2>&1 || { echo "CONFIRM: build failed"; tail -5 /tmp/confirm_build.log; exit 2; }
warn=$(grep -c "warning:" /tmp/confirm_build.log)
ct=$(ctest --test-dir _build -j4 --timeout 900 -E '^regress' 2>&1 | grep -E "tests passed|tests failed" | tail -1)
bash $RUN > /tmp/confirm_demo_with.log 2>&1; rc_with=$?
git apply -R "$PATCH"
cmake --build _build > /tmp/confirm_build2.log 2>&1
bash $RUN > /tmp/confirm_demo_without.log 2>&1; rc_without=$?
git apply "$PATCH"; cmake --build _build > /dev/null 2>&1
echo "CONFIRM wt=$WT patch=$PATCH warnings=$warn ctest='$ct' demo_with_rc=$rc_with demo_without_rc=$rc_without"
if [ -n "$OUTD" ]; then
  printf '{"worktree":"%s","patch":"%s","new_warnings":%s,"ctest_with_change":"%s","demo_rc_with_change":%s,"demo_rc_without_change":%s}\n' "$WT" "$PATCH" "$warn" "$ct" "$rc_with" "$rc_without" > "$OUTD/confirm.json"
fi
