#!/bin/bash
# Build /repo's working tree with the hook guard OFF (no -DLIBEVENT_VERIF) exactly as
# the baseline does and run the repository's stable baseline tests (regress excluded:
# it fails offline and is not part of BASELINE.json's stable set).
set -uo pipefail
ROOT=$(cd "$(dirname "$0")/.." && pwd)
B=$ROOT/build/baseline
REPO=${VERIF_REPO:-/repo}
mkdir -p "$B"
if [ ! -f "$B/build.ninja" ]; then
  cmake -G Ninja -S "$REPO" -B "$B" -DCMAKE_BUILD_TYPE=RelWithDebInfo > "$B/cmake.log" 2>&1 || { tail -30 "$B/cmake.log"; exit 2; }
fi
cmake --build "$B" > "$B/build.log" 2>&1 || { tail -50 "$B/build.log"; exit 2; }
ctest --test-dir "$B" -j8 --timeout 900 -E '^regress' --output-junit "$B/junit.xml" 2>&1 | tail -15
exit ${PIPESTATUS[0]}
