#!/bin/bash
# One-time offline setup after a fresh restore: build /repo (ASan, hooks on) out of tree.
set -e
cd "$(dirname "$0")/.."
mkdir -p out evidence
kit/build.sh asan
