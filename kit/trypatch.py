#!/usr/bin/env python3
"""Apply a patch file to a scratch worktree of /repo and run checks against it.
usage: kit/trypatch.py <name> <patch.diff> <check-id>...     prints: PATCH <name> <check> rc=<rc> violations=<n>"""
import os, subprocess, sys, shutil, hashlib
name, patch = sys.argv[1:3]
checks = sys.argv[3:]
wt = "/tmp/try_" + name
subprocess.run(["git", "-C", "/repo", "worktree", "remove", "--force", wt], capture_output=True)
subprocess.run(["git", "-C", "/repo", "worktree", "add", "--detach", wt, "HEAD"], check=True, capture_output=True)
try:
    r = subprocess.run(["git", "-C", wt, "apply", "--3way", os.path.abspath(patch)], capture_output=True, text=True)
    if r.returncode != 0:
        r = subprocess.run(["patch", "-p1", "-d", wt, "-i", os.path.abspath(patch)], capture_output=True, text=True)
        if r.returncode != 0:
            print("PATCH %s: does not apply: %s" % (name, (r.stdout + r.stderr)[-400:])); sys.exit(3)
    env = dict(os.environ, VERIF_REPO=wt)
    for c in checks:
        r = subprocess.run(["/verif/check", c, "--tier", os.environ.get("TIER", "quick")], cwd="/verif", env=env, capture_output=True, text=True)
        viol = [l for l in r.stdout.split("\n") if l.startswith("VIOLATION")]
        first = ""
        if viol:
            i = r.stderr.find("  ")
        print("PATCH %s %s rc=%d violations=%d" % (name, c, r.returncode, len(viol)), flush=True)
        open("/verif/out/try_%s_%s.log" % (name, c), "w").write(r.stdout + "\n----\n" + r.stderr)
finally:
    subprocess.run(["git", "-C", "/repo", "worktree", "remove", "--force", wt], capture_output=True)
    h = hashlib.md5((wt + "\n").encode()).hexdigest()[:8]
    for v in ("asan", "tsan", "plain"):
        shutil.rmtree("/verif/build/%s-%s" % (v, h), ignore_errors=True)
