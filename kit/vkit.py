"""Common kit for the libevent TLA+ model-based checks.

  build(variant)            incremental out-of-tree build of /repo's working tree
  cc(name, srcs, ...)       compile+link a C driver against that build
  tlc(...)                  run TLC (BFS or -simulate), parse counts / prints / coverage
  apalache(...)             run apalache-mc check
  run_driver(...)           shard scenarios over driver processes, survive crashes
  Check                     evidence / violation / known-finding bookkeeping
"""
import json, os, re, subprocess, sys, time, hashlib, shutil, tempfile, glob
from concurrent.futures import ThreadPoolExecutor

ROOT = os.path.dirname(os.path.dirname(os.path.abspath(__file__)))
REPO = os.environ.get("VERIF_REPO", "/repo")
OUT = os.path.join(ROOT, "out")
SPECS = os.path.join(ROOT, "specs")
HARNESS = os.path.join(ROOT, "harness")
JAR = "/opt/veriftools/tla/tla2tools.jar:/opt/veriftools/tla/CommunityModules-deps.jar"
NCPU = os.cpu_count() or 8


class InfraError(Exception):
    """Machinery failure (exit 2) - never a VIOLATION."""


def log(*a):
    print(*a, file=sys.stderr, flush=True)


# ---------------------------------------------------------------- build
def build(variant="asan"):
    t = time.time()
    r = subprocess.run([os.path.join(ROOT, "kit", "build.sh"), variant],
                       capture_output=True, text=True)
    if r.returncode != 0:
        raise InfraError("build of %s (%s) failed:\n%s" % (REPO, variant, r.stderr[-4000:]))
    log("[build] %s ok in %.1fs" % (variant, time.time() - t))
    return r.stdout.strip().split("\n")[-1]


VT_WRAP = "-Wl,--wrap=clock_gettime,--wrap=gettimeofday,--wrap=epoll_pwait2,--wrap=epoll_wait,--wrap=poll,--wrap=select"


def cc(name, srcs, variant="asan", vclock=False, extra=(), libs=("event_extra", "event_core", "event_pthreads")):
    """Compile a driver.  Always relinks (the library may have changed)."""
    b = build(variant)
    outdir = os.path.join(b, "drv")
    os.makedirs(outdir, exist_ok=True)
    exe = os.path.join(outdir, name)
    flags = {"asan": ["-fsanitize=address", "-fno-omit-frame-pointer"],
             "tsan": ["-fsanitize=thread"], "plain": [], "nohooks": []}[variant]
    srcs = [s if os.path.isabs(s) else os.path.join(HARNESS, s) for s in srcs]
    if vclock:
        srcs.append(os.path.join(HARNESS, "vclock.c"))
    cmd = ["cc", "-g", "-O1", "-D_GNU_SOURCE", "-DLIBEVENT_VERIF", "-Wall", "-Wno-unused-function"] + flags + \
          ["-I", os.path.join(b, "include"), "-I", os.path.join(REPO, "include"), "-I", REPO, "-I", HARNESS,
           "-I", os.path.join(REPO, "compat")] + \
          srcs + ["-o", exe + ".tmp%d" % os.getpid(), "-L", os.path.join(b, "lib")] + ["-l" + l for l in libs] + \
          ["-lpthread", "-lm"] + ([VT_WRAP] if vclock else []) + list(extra)
    r = subprocess.run(cmd, capture_output=True, text=True)
    if r.returncode != 0:
        raise InfraError("driver compile failed: %s\n%s" % (" ".join(cmd), r.stderr[-6000:]))
    os.replace(exe + ".tmp%d" % os.getpid(), exe)
    return exe


# ---------------------------------------------------------------- TLC
class TLCResult:
    def __init__(self):
        self.generated = 0; self.distinct = 0; self.prints = []; self.raw = ""
        self.rc = None; self.violation = None; self.coverage = {}; self.wall = 0.0
        self.depth = 0; self.error = None

    def __repr__(self):
        return "TLC(rc=%s gen=%d distinct=%d prints=%d viol=%s)" % (
            self.rc, self.generated, self.distinct, len(self.prints), self.violation)


def _parse_print_line(line):
    # PrintT(ToJson(x)) prints a TLA+ string literal: "...." with \" escapes
    line = line.strip()
    if len(line) >= 2 and line[0] == '"' and line[-1] == '"':
        try:
            s = json.loads(line)
            return json.loads(s)
        except Exception:
            return None
    return None


def tlc(spec, cfg=None, *, simulate=None, depth=None, seed=None, workers=None, coverage=False,
        env=None, timeout=1500, xmx="8g", deadlock=True, want_prints=True, dfs_queue=False,
        print_sink=None, extra=()):
    """Run TLC on specs/<spec>.tla with specs/<cfg>.cfg.
    simulate=N -> `-simulate num=N` (N is per worker). Returns TLCResult.
    print_sink: optional callable receiving each parsed PrintT JSON value (saves memory)."""
    spec_path = spec if os.path.isabs(spec) else os.path.join(SPECS, spec)
    if not spec_path.endswith(".tla"):
        spec_path += ".tla"
    cfg_path = cfg or os.path.splitext(spec_path)[0] + ".cfg"
    if not os.path.isabs(cfg_path):
        cfg_path = os.path.join(SPECS, cfg_path)
    if not cfg_path.endswith(".cfg"):
        cfg_path += ".cfg"
    meta = tempfile.mkdtemp(prefix="tlc_", dir=_scratch())
    workers = workers or NCPU
    jopts = ["-XX:+UseParallelGC", "-Xmx" + xmx]
    if dfs_queue:
        jopts.append("-Dtlc2.tool.queue.IStateQueue=StateDeque")
    cmd = ["java"] + jopts + ["-cp", JAR, "tlc2.TLC", "-workers", str(workers), "-metadir", meta,
                              "-config", cfg_path, "-noGenerateSpecTE"]
    if simulate:
        cmd += ["-simulate", "num=%d" % simulate]
        if depth:
            cmd += ["-depth", str(depth)]
    if seed is not None:
        cmd += ["-seed", str(seed)]
    if coverage:
        cmd += ["-coverage", "1"]
    if not deadlock:
        cmd += ["-deadlock"]
    cmd += list(extra) + [spec_path]
    e = dict(os.environ)
    e.pop("JAVA_TOOL_OPTIONS", None)
    if env:
        e.update({k: str(v) for k, v in env.items()})
    res = TLCResult()
    t0 = time.time()
    raw = []
    try:
        p = subprocess.Popen(cmd, stdout=subprocess.PIPE, stderr=subprocess.STDOUT, text=True, env=e,
                             cwd=os.path.dirname(spec_path), errors="replace")
        import threading
        timer = threading.Timer(timeout, p.kill)
        timer.start()
        for line in p.stdout:
            if want_prints and line.startswith('"'):
                v = _parse_print_line(line)
                if v is not None:
                    if print_sink:
                        print_sink(v)
                    else:
                        res.prints.append(v)
                    continue
            raw.append(line)
            if len(raw) > 20000:
                del raw[2000:12000]
        p.wait()
        timer.cancel()
        res.rc = p.returncode
    finally:
        shutil.rmtree(meta, ignore_errors=True)
    res.wall = time.time() - t0
    res.raw = "".join(raw)
    m = re.findall(r"(\d+) states generated, (\d+) distinct states found", res.raw)
    if m:
        res.generated, res.distinct = int(m[-1][0]), int(m[-1][1])
    m = re.findall(r"The number of states generated: (\d+)", res.raw)
    if m and not res.generated:
        res.generated = int(m[-1]); res.distinct = res.generated
    m = re.search(r"The depth of the complete state graph search is (\d+)", res.raw)
    if m:
        res.depth = int(m.group(1))
    m = re.search(r"Invariant (\S+) is violated", res.raw)
    if m:
        res.violation = m.group(1)
    elif "Temporal properties were violated" in res.raw:
        res.violation = "temporal"
    elif "Deadlock reached" in res.raw:
        res.violation = "deadlock"
    elif re.search(r"Action property \S+ .*is violated|action property", res.raw, re.I) and res.rc == 12:
        res.violation = "action-property"
    if coverage:
        for mm in re.finditer(r"<(\w+) line \d+, col \d+ to line \d+, col \d+ of module (\w+)>: (\d+):(\d+)", res.raw):
            res.coverage[mm.group(1)] = (int(mm.group(3)), int(mm.group(4)))
    if res.rc not in (0, 12, 13, 11) or (res.rc != 0 and res.violation is None):
        if res.rc == -9:
            res.error = "timeout after %ds" % timeout
        else:
            res.error = "TLC rc=%s" % res.rc
    return res


def tlc_ok(res, what):
    """Raise InfraError unless TLC finished cleanly without violation."""
    if res.error:
        raise InfraError("%s: %s\n%s" % (what, res.error, res.raw[-3000:]))
    return res.violation is None


def apalache(spec, *, inv=None, length=1, cinit=None, init=None, next_=None, cfg=None, timeout=900, extra=()):
    spec_path = spec if os.path.isabs(spec) else os.path.join(SPECS, spec)
    if not spec_path.endswith(".tla"):
        spec_path += ".tla"
    run_dir = tempfile.mkdtemp(prefix="apa_", dir=_scratch())
    cmd = ["apalache-mc", "check", "--out-dir=" + run_dir, "--length=%d" % length]
    if inv: cmd.append("--inv=" + inv)
    if cinit: cmd.append("--cinit=" + cinit)
    if init: cmd.append("--init=" + init)
    if next_: cmd.append("--next=" + next_)
    if cfg: cmd.append("--config=" + cfg)
    cmd += list(extra) + [spec_path]
    t0 = time.time()
    try:
        r = subprocess.run(cmd, capture_output=True, text=True, timeout=timeout, cwd=os.path.dirname(spec_path))
        out = r.stdout + r.stderr
        rc = r.returncode
    except subprocess.TimeoutExpired as ex:
        out = (ex.stdout or b"").decode(errors="replace") if isinstance(ex.stdout, bytes) else (ex.stdout or "")
        rc = -9
    finally:
        shutil.rmtree(run_dir, ignore_errors=True)
    ok = rc == 0 and "The outcome is: NoError" in out
    cex = "The outcome is: Error" in out or rc == 12
    return {"ok": ok, "cex": cex, "rc": rc, "out": out, "wall": time.time() - t0}


def _scratch():
    d = os.path.join(OUT, "tmp")
    os.makedirs(d, exist_ok=True)
    return d


# ---------------------------------------------------------------- drivers
def _run_shard(exe, lines, env, timeout, args):
    """Feed scenario lines to a driver on stdin; one output line per scenario.
    Restarts after a crash.  Returns list aligned with `lines`; crashed scenarios
    yield {"crash": stderr-tail}."""
    outs = [None] * len(lines)
    i = 0
    e = dict(os.environ)
    e.setdefault("ASAN_OPTIONS", "detect_leaks=0:abort_on_error=0:exitcode=97")
    if env:
        e.update({k: str(v) for k, v in env.items()})
    while i < len(lines):
        data = "".join(l if l.endswith("\n") else l + "\n" for l in lines[i:])
        try:
            r = subprocess.run([exe] + list(args), input=data, capture_output=True, text=True, env=e,
                               timeout=timeout, errors="replace")
            so, se, rc = r.stdout, r.stderr, r.returncode
        except subprocess.TimeoutExpired as ex:
            so = ex.stdout.decode(errors="replace") if isinstance(ex.stdout, bytes) else (ex.stdout or "")
            se = "TIMEOUT after %ss" % timeout
            rc = -100
        got = [l for l in so.split("\n") if l.startswith("{") or l.startswith("[")]
        k = 0
        for k, l in enumerate(got):
            if i + k >= len(lines):
                break
            try:
                outs[i + k] = json.loads(l)
            except Exception:
                outs[i + k] = {"crash": "unparseable driver output: " + l[:300]}
        n = min(len(got), len(lines) - i)
        i += n
        if i < len(lines):
            if rc == -100:
                # wall-clock timeout of the whole shard: machine too slow, not evidence about the code.
                # (Drivers detect a genuinely hanging scenario themselves with a CPU-time watchdog.)
                raise InfraError("driver shard timed out after %ss (%d/%d scenarios done)" % (timeout, i, len(lines)))
            # the driver died on scenario i
            outs[i] = {"crash": "driver rc=%s: %s" % (rc, se[-3000:]), "hang": rc == 98}
            i += 1
    return outs


def run_driver(exe, scenarios, *, shards=None, env=None, timeout=1800, args=()):
    """scenarios: list of JSON-able values (one line each). Returns list of outputs."""
    lines = [json.dumps(s, separators=(",", ":")) for s in scenarios]
    if not lines:
        return []
    shards = min(shards or NCPU, max(1, len(lines) // 8 + 1))
    chunks = [list(range(k, len(lines), shards)) for k in range(shards)]
    outs = [None] * len(lines)
    with ThreadPoolExecutor(max_workers=shards) as ex:
        futs = [ex.submit(_run_shard, exe, [lines[j] for j in c], env, timeout, args) for c in chunks]
        for c, f in zip(chunks, futs):
            for j, o in zip(c, f.result()):
                outs[j] = o
    return outs


# ---------------------------------------------------------------- comparison
def deep_diff(exp, act, path=""):
    """First difference between expected (spec) and actual (driver) observation, or None.
    Special forms in `exp`:
      {"_any": true}                       matches anything
      {"_oneof": [v1, v2, ...]}            matches if any alternative matches
      {"_range": [lo, hi]}                 numeric range
      {"_perm": [...]}                     list equal up to permutation
    Lists of records carrying a non-zero "g" key may be permuted within maximal
    runs of equal g (unordered tie groups)."""
    if isinstance(exp, dict):
        if exp.get("_any"):
            return None
        if "_oneof" in exp:
            for alt in exp["_oneof"]:
                if deep_diff(alt, act, path) is None:
                    return None
            return "%s: %r not one of %r" % (path, act, exp["_oneof"])
        if "_range" in exp:
            lo, hi = exp["_range"]
            if isinstance(act, (int, float)) and lo <= act <= hi:
                return None
            return "%s: %r not in [%r,%r]" % (path, act, lo, hi)
        if "_perm" in exp:
            if not isinstance(act, list) or len(act) != len(exp["_perm"]):
                return "%s: expected permutation of %r got %r" % (path, exp["_perm"], act)
            rest = list(act)
            for x in exp["_perm"]:
                for k, y in enumerate(rest):
                    if deep_diff(x, y) is None:
                        del rest[k]
                        break
                else:
                    return "%s: expected permutation of %r got %r" % (path, exp["_perm"], act)
            return None
        if not isinstance(act, dict):
            return "%s: expected %r got %r" % (path, exp, act)
        for k, v in exp.items():
            if k in ("g", "amb"):
                continue
            if k not in act:
                return "%s.%s: missing in driver output (expected %r)" % (path, k, v)
            d = deep_diff(v, act[k], path + "." + k)
            if d:
                return d
        return None
    if isinstance(exp, list):
        if not isinstance(act, list) or len(exp) != len(act):
            return "%s: expected %s got %s" % (path, json.dumps(exp), json.dumps(act))
        # tie groups
        if exp and all(isinstance(x, dict) for x in exp) and any(x.get("g") for x in exp):
            i = 0
            while i < len(exp):
                j = i + 1
                g = exp[i].get("g")
                if g:
                    while j < len(exp) and exp[j].get("g") == g:
                        j += 1
                if j - i > 1:
                    d = deep_diff({"_perm": exp[i:j]}, act[i:j], "%s[%d:%d]" % (path, i, j))
                else:
                    d = deep_diff(exp[i], act[i], "%s[%d]" % (path, i))
                if d:
                    return d
                i = j
            return None
        for k, (x, y) in enumerate(zip(exp, act)):
            d = deep_diff(x, y, "%s[%d]" % (path, k))
            if d:
                return d
        return None
    if isinstance(exp, bool) or isinstance(act, bool):
        if bool(exp) != bool(act) or (not isinstance(exp, (bool, int)) or not isinstance(act, (bool, int))):
            if exp != act:
                return "%s: expected %r got %r" % (path, exp, act)
        return None
    if exp != act:
        return "%s: expected %r got %r" % (path, exp, act)
    return None


def compare_histories(hists, outs, obs_key="o"):
    """hists[i] = list of steps each with obs under obs_key; outs[i] = list of actual
    observations (one per step) or {"crash":..}.  Returns list of failures
    (index, step, message)."""
    fails = []
    for i, (h, o) in enumerate(zip(hists, outs)):
        if o is None:
            fails.append((i, -1, "no driver output")); continue
        if isinstance(o, dict) and "crash" in o:
            fails.append((i, o.get("step", -1), "driver crashed: " + o["crash"])); continue
        steps = o["obs"] if isinstance(o, dict) else o
        err = o.get("err") if isinstance(o, dict) else None
        for k, st in enumerate(h):
            if isinstance(st.get(obs_key), dict) and st[obs_key].get("amb") == 1:
                break   # the specification declares the outcome order-dependent from here on
            if k >= len(steps):
                fails.append((i, k, "driver stopped early" + (": " + str(err) if err else ""))); break
            d = deep_diff(st.get(obs_key), steps[k], "step%d(%s)" % (k, st.get("a")))
            if d:
                fails.append((i, k, d)); break
    return fails


# ---------------------------------------------------------------- findings
def load_findings(pid):
    out = []
    for p in sorted(glob.glob(os.path.join(ROOT, "known_findings.d", "*.json"))):
        try:
            f = json.load(open(p))
        except Exception as e:
            raise InfraError("bad known-findings file %s: %s" % (p, e))
        if f.get("property") == pid:
            out.append(f)
    return out


# ---------------------------------------------------------------- check bookkeeping
class Check:
    def __init__(self, pid, tier, seed, level="model_checking"):
        self.pid, self.tier, self.seed, self.level = pid, tier, seed, level
        self.t0 = time.time()
        self.cov = {"states": 0, "transitions": 0, "traces_validated_against_impl": 0,
                    "evaluations": 0, "distinct_nontrivial": 0, "samples": [], "rule": "",
                    "tlc_runs": [], "exhaustive": False}
        self.assumptions = []
        self.violations = []   # (message, replay_path)
        self.known_hits = []
        self._distinct = set()
        self.findings = load_findings(pid)

    # --- TLC accounting
    def add_tlc(self, name, res, *, expect_ok=True):
        self.cov["states"] += res.distinct
        self.cov["transitions"] += res.generated
        self.cov["tlc_runs"].append({"name": name, "distinct": res.distinct, "generated": res.generated,
                                     "depth": res.depth, "wall_s": round(res.wall, 1),
                                     "violation": res.violation})
        if res.error:
            raise InfraError("TLC %s: %s\n%s" % (name, res.error, res.raw[-3000:]))
        if expect_ok and res.violation:
            raise InfraError("TLC %s: the specification itself violates %s (spec bug)\n%s" %
                             (name, res.violation, res.raw[-4000:]))

    def check_coverage(self, res, required, name=""):
        """Vacuity guard: every action in `required` must have been taken."""
        missing = [a for a in required if res.coverage.get(a, (0, 0))[0] == 0]
        if missing:
            raise InfraError("vacuous model run %s: actions never taken: %s" % (name, missing))
        self.cov.setdefault("action_coverage", {}).update({a: res.coverage[a][0] for a in required})

    # --- scenario accounting
    def count_case(self, case, nontrivial=True):
        self.cov["evaluations"] += 1
        if nontrivial:
            h = hashlib.sha1(json.dumps(case, sort_keys=True, separators=(",", ":")).encode()).digest()[:10]
            self._distinct.add(h)

    def sample(self, s, limit=4):
        if len(self.cov["samples"]) < limit:
            self.cov["samples"].append(s)

    def replay_file(self, name, content):
        d = os.path.join(OUT, "replay", self.pid)
        os.makedirs(d, exist_ok=True)
        p = os.path.join(d, name)
        with open(p, "w") as f:
            json.dump(content, f)
            f.write("\n")
        return p

    def violation(self, msg, replay_content, key=None):
        """Report a violation unless it matches an open known finding (by key)."""
        for f in self.findings:
            if f.get("status") == "open" and key is not None and f.get("key") == key:
                if f["key"] not in [k["key"] for k in self.known_hits]:
                    self.known_hits.append(f)
                return
        n = len(self.violations)
        p = self.replay_file("violation_%d.json" % n, {"property": self.pid, "message": msg, "key": key,
                                                        "case": replay_content})
        self.violations.append((msg, p))

    def finish(self):
        self.cov["distinct_nontrivial"] = len(self._distinct)
        wall = time.time() - self.t0
        ev = {"property_id": self.pid, "tier": self.tier, "seed": int(self.seed), "level": self.level,
              "coverage": self.cov, "assumptions": self.assumptions, "wall_s": round(wall, 2),
              "violations": len(self.violations),
              "known_findings_hit": [f["key"] for f in self.known_hits]}
        # evidence/ describes runs against /repo itself; a run against a scratch copy (VERIF_REPO) writes elsewhere
        evdir = os.path.join(ROOT, "evidence") if REPO == "/repo" else os.path.join(ROOT, "out", "scratch_evidence")
        os.makedirs(evdir, exist_ok=True)
        with open(os.path.join(evdir, self.pid + ".json"), "w") as f:
            json.dump(ev, f, indent=1)
            f.write("\n")
        for f in self.known_hits:
            print("KNOWN-FINDING: property=%s %s" % (self.pid, f["what"]))
        for msg, p in self.violations[:10]:
            print("VIOLATION property=%s replay=%s" % (self.pid, p))
            log("  " + msg[:2000])
        sys.stdout.flush()
        return 1 if self.violations else 0


# ---------------------------------------------------------------- cfg generation
def tla_val(v):
    if isinstance(v, bool):
        return "TRUE" if v else "FALSE"
    if isinstance(v, int):
        return str(v)
    if isinstance(v, str):
        return '"%s"' % v
    if isinstance(v, (set, frozenset)):
        return "{" + ", ".join(sorted(tla_val(x) for x in v)) + "}"
    if isinstance(v, (list, tuple)):
        return "<<" + ", ".join(tla_val(x) for x in v) + ">>"
    raise ValueError(v)


def write_cfg(name, constants, *, invariants=(), properties=(), constraint=None, view=None,
              init="Init", next_="Next", spec=None, deadlock=False, postcondition=None):
    """Write out/cfg/<name>.cfg and return its path."""
    d = os.path.join(OUT, "cfg")
    os.makedirs(d, exist_ok=True)
    p = os.path.join(d, name + ".cfg")
    L = []
    if constants:
        L.append("CONSTANTS")
        for k, v in constants.items():
            L.append("  %s = %s" % (k, tla_val(v)))
    if spec:
        L.append("SPECIFICATION " + spec)
    else:
        L += ["INIT " + init, "NEXT " + next_]
    if constraint:
        L.append("CONSTRAINT " + constraint)
    if view:
        L.append("VIEW " + view)
    for i in invariants:
        L.append("INVARIANT " + i)
    for i in properties:
        L.append("PROPERTY " + i)
    if postcondition:
        L.append("POSTCONDITION " + postcondition)
    L.append("CHECK_DEADLOCK " + ("TRUE" if deadlock else "FALSE"))
    with open(p, "w") as f:
        f.write("\n".join(L) + "\n")
    return p
