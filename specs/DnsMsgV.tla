----------------------------- MODULE DnsMsgV -----------------------------
(* Binding V for C35 / C36: bytes produced by the real library (server responses, resolver
   queries) are read from a JSON vector file and judged by the reference of DnsMsg
   (Decode, EncodeOK, QueryOK).  One TLC state per vector; a failing vector is printed
   as {"fail": index, "why": ...} (the invariant itself never stops the run, so that every
   failure is reported). *)
EXTENDS DnsMsg, IOUtils

V == JsonDeserialize(IOEnv.DNSVEC)
VARIABLE i
Init == i \in 1..Len(V)
Next == UNCHANGED i

Good(v) ==
  IF v.kind = "encode" THEN EncodeOK(v.b, v.qs, v.exp, v.limit) /\ (v.boundary = 1 => BoundaryOK(v.b, v.qs, v.exp, v.limit))
  ELSE IF v.kind = "query" THEN \E k \in 1..Len(v.names) : QueryOK(v.b, v.names[k], v.type, v.randcase = 1, v.edns)
  ELSE FALSE
Why(v) ==
  IF v.kind = "encode" THEN
       (IF EncodeOK(v.b, v.qs, v.exp, v.limit)
        THEN (IF ~Incompressible(v.qs, v.exp) THEN "boundary scenario with compressible names (generator error)"
              ELSE "size boundary: incompressible response of " \o ToString(PlainTotal(v.qs, v.exp)) \o " bytes, limit "
                   \o ToString(v.limit) \o ": TC / length wrong (TC iff it exceeds the limit)")
        ELSE IF v.boundary = 1 /\ Decode(v.b).hdr /\ Decode(v.b).tc = 1 /\ PlainTotal(v.qs, v.exp) <= v.limit
        THEN "size boundary: response of " \o ToString(PlainTotal(v.qs, v.exp)) \o " bytes truncated although the limit is " \o ToString(v.limit)
        ELSE EncodeWhy(v.b, v.qs, v.exp, v.limit))
  ELSE LET d == Decode(v.b) IN
       IF ~d.hdr \/ ~d.ok THEN "not a well-formed message"
       ELSE IF ~d.exact THEN "trailing bytes after the announced records (malformed question section)"
       ELSE IF d.cnt[1] # 1 THEN "not exactly one question"
       ELSE IF ~\E k \in 1..Len(v.names) : NameEq(d.q[1].n, v.names[k], v.randcase = 1) THEN "question name differs from the requested name"
       ELSE "header / type / class / OPT differ"
Report == Good(V[i]) \/ PrintT(ToJson([fail |-> i, why |-> Why(V[i])]))
(* vacuity guard: the file really contains vectors of the expected kinds *)
NonEmpty == Len(V) >= 1
=============================================================================
