------------------------------- MODULE Inet -------------------------------
(* Textual address conversion of evutil.c (property C40):
     evutil_inet_pton / evutil_inet_ntop (AF_INET, AF_INET6),
     evutil_parse_sockaddr_port / evutil_format_sockaddr_port_.

   Reference parser (strict, as the platform's inet_pton; IPv4 components may
   additionally carry leading zeros, read as decimal) and reference formatter
   (longest run of >= 2 zero groups compressed, leftmost on ties, embedded IPv4
   forms as glibc prints them) over *structured* texts:

     IPv4 text  = 4 component tokens joined by '.'   (plus 3- and 5-component forms)
     IPv6 text  = [":"] groups with "::" markers, optional IPv4 tail, [":"]
   every token with its bytes, its validity and its value.  The state is one
   structured text or one address (all enumerated as initial states).

   Mode "p4"  IPv4 texts: the base 10.0.255.1 with at most K components replaced
   Mode "p6"  IPv6 texts: every group count 0..9 x gap position x tail x at most one replaced group
   Mode "n4"  IPv4 addresses over component values {0 1 9 10 99 100 255}
   Mode "n6"  IPv6 addresses: every zero-run pattern of 8 groups (256) and special forms
   Mode "sp"  socket address texts: addr, addr:port, [addr], [addr]:port

   Laws (TLC): PtonNtop  Pton(Ntop(a)) = a for every enumerated address,
               Canonical distinct addresses have distinct texts (by PtonNtop) and
                         the text of an address is what Ntop prints again after parsing.
   The check compares three ways: reference / platform inet_pton, inet_ntop / libevent.
   reference # platform is an error of this specification, never a finding.
   "open": texts whose acceptance the property does not fix (embedded IPv4
   tails with leading zeros) are not compared.
   The IPv4 tails include hex groups glued to the dotted quad ("::a1.2.3.4"):
   strict parsers reject them; a parser that reads the group past the start of
   the quad's first number would consume the digits twice.
*)
EXTENDS Integers, Sequences, FiniteSets, TLC, Json

CONSTANTS Mode, K

VARIABLE x
vars == <<x>>

-----------------------------------------------------------------------------
RECURSIVE Flatten(_)
Flatten(ss) == IF ss = <<>> THEN <<>> ELSE Head(ss) \o Flatten(Tail(ss))
RECURSIVE JoinWith(_, _)
JoinWith(ss, sep) == IF ss = <<>> THEN <<>> ELSE IF Len(ss) = 1 THEN ss[1] ELSE ss[1] \o sep \o JoinWith(Tail(ss), sep)
RECURSIVE Dec(_)
Dec(n) == IF n < 10 THEN <<48 + n>> ELSE Dec(n \div 10) \o <<48 + (n % 10)>>
HexDigit(n) == IF n < 10 THEN 48 + n ELSE 87 + n        \* lower case
RECURSIVE Hex(_)
Hex(n) == IF n < 16 THEN <<HexDigit(n)>> ELSE Hex(n \div 16) \o <<HexDigit(n % 16)>>
DOT == <<46>>   COLON == <<58>>

-----------------------------------------------------------------------------
(* IPv4 component tokens: bytes, validity, value, leading zero *)
C4(b, ok, v, lz) == [b |-> b, ok |-> ok, v |-> v, lz |-> lz]
Comp4 == << C4(<<48>>, TRUE, 0, FALSE), C4(<<49>>, TRUE, 1, FALSE), C4(<<57>>, TRUE, 9, FALSE),
            C4(<<49, 48>>, TRUE, 10, FALSE), C4(<<57, 57>>, TRUE, 99, FALSE), C4(<<49, 48, 48>>, TRUE, 100, FALSE),
            C4(<<50, 53, 53>>, TRUE, 255, FALSE), C4(<<50, 53, 54>>, FALSE, 0, FALSE),        \* 256
            C4(<<48, 48, 55>>, TRUE, 7, TRUE),                                              \* 007
            C4(<<>>, FALSE, 0, FALSE),                                                      \* ""
            C4(<<49, 101, 49>>, FALSE, 0, FALSE),                                           \* 1e1
            C4(<<48, 120, 49>>, FALSE, 0, FALSE),                                           \* 0x1
            C4(<<45, 49>>, FALSE, 0, FALSE),                                                \* -1
            C4(<<43, 49>>, FALSE, 0, FALSE),                                                \* +1
            C4(<<45, 48>>, FALSE, 0, FALSE),                                                \* -0
            C4(<<32, 49>>, FALSE, 0, FALSE),                                                \* " 1"
            C4(<<49, 32>>, FALSE, 0, FALSE),                                                \* "1 "
            C4(<<48, 48, 48, 48, 48, 48, 48, 48, 48, 48, 48, 50, 53, 53>>, TRUE, 255, TRUE),\* 00000000000255
            C4(<<52, 50, 57, 52, 57, 54, 55, 50, 57, 55>>, FALSE, 0, FALSE) >>              \* 4294967297 (wraps to 1)
Text4(cs) == JoinWith([i \in 1..Len(cs) |-> Comp4[cs[i]].b], DOT)
Pton4(cs) == IF Len(cs) = 4 /\ \A i \in 1..4 : Comp4[cs[i]].ok
             THEN [ok |-> TRUE, a |-> [i \in 1..4 |-> Comp4[cs[i]].v]] ELSE [ok |-> FALSE]
Ntop4(a) == JoinWith([i \in 1..4 |-> Dec(a[i])], DOT)

-----------------------------------------------------------------------------
(* IPv6 group tokens *)
G6(b, ok, v) == [b |-> b, ok |-> ok, v |-> v]
Grp6 == << G6(<<48>>, TRUE, 0), G6(<<49>>, TRUE, 1), G6(<<102, 102>>, TRUE, 255), G6(<<102, 102, 102, 102>>, TRUE, 65535),
           G6(<<70, 48, 97, 66>>, TRUE, 61611),                       \* F0aB
           G6(<<48, 48, 48, 49>>, TRUE, 1),                           \* 0001
           G6(<<48, 48, 48, 48, 49>>, FALSE, 0),                      \* 00001
           G6(<<103>>, FALSE, 0),                                     \* g
           G6(<<48, 120, 49>>, FALSE, 0),                             \* 0x1
           G6(<<49, 48, 48, 48, 48>>, FALSE, 0) >>                    \* 10000
(* IPv4 tails: none, valid, and broken ones; "open" = acceptance not fixed by the property *)
T6(b, st, v) == [b |-> b, st |-> st, v |-> v]
Tail6 == << T6(<<>>, "none", <<>>),
            T6(<<49, 46, 50, 46, 51, 46, 52>>, "ok", <<258, 772>>),                       \* 1.2.3.4
            T6(<<50, 53, 53, 46, 48, 46, 48, 46, 49, 48>>, "ok", <<65280, 10>>),          \* 255.0.0.10
            T6(<<49, 46, 50, 46, 51>>, "bad", <<>>),                                      \* 1.2.3
            T6(<<49, 46, 50, 46, 51, 46, 50, 53, 54>>, "bad", <<>>),                      \* 1.2.3.256
            T6(<<49, 46, 50, 46, 51, 46, 43, 52>>, "bad", <<>>),                          \* 1.2.3.+4
            T6(<<49, 46, 50, 46, 51, 46, 52, 46, 53>>, "bad", <<>>),                      \* 1.2.3.4.5
            T6(<<48, 49, 46, 50, 46, 51, 46, 52>>, "open", <<>>),                         \* 01.2.3.4
            (* a hex group glued to the dotted quad (its ':' lost): the last piece is then not an IPv4 text *)
            T6(<<97, 49, 46, 50, 46, 51, 46, 52>>, "bad", <<>>),                          \* a1.2.3.4
            T6(<<98, 49, 48, 46, 48, 46, 48, 46, 49>>, "bad", <<>>),                      \* b10.0.0.1
            T6(<<102, 49, 57, 50, 46, 48, 46, 50, 46, 51, 51>>, "bad", <<>>),             \* f192.0.2.33
            T6(<<70, 70, 49, 46, 50, 46, 51, 46, 52>>, "bad", <<>>),                      \* FF1.2.3.4
            T6(<<49, 97, 49, 46, 50, 46, 51, 46, 52>>, "bad", <<>>),                      \* 1a1.2.3.4
            (* a digit glued to the quad is simply another quad *)
            T6(<<49, 49, 46, 50, 46, 51, 46, 52>>, "ok", <<2818, 772>>) >>                \* 11.2.3.4
(* a structured IPv6 text: n group slots (default token of slot i: the digit i, value i),
   gaps = set of positions 0..n where "::" stands (before slot p+1), dev = <<slot, token>> or <<0, 0>>,
   tail index, lead/trail = a stray single ':' *)
SlotTok(s, i) == IF s.dev[1] = i THEN Grp6[s.dev[2]] ELSE G6(<<48 + i>>, TRUE, i)
(* elements in order: a "::" marker wherever a gap stands, the groups, then the tail *)
RECURSIVE Elems(_, _)
Elems(s, p) ==      \* from position p (0..n): marker before slot p+1, then slot p+1
  (IF p \in s.gaps THEN <<[gap |-> TRUE, b |-> <<58, 58>>]>> ELSE <<>>)
  \o (IF p < s.n THEN <<[gap |-> FALSE, b |-> SlotTok(s, p + 1).b]>> \o Elems(s, p + 1) ELSE <<>>)
RECURSIVE Glue(_)
Glue(es) == IF es = <<>> THEN <<>>
            ELSE IF Len(es) = 1 THEN es[1].b
            ELSE es[1].b \o (IF es[1].gap \/ es[2].gap THEN <<>> ELSE COLON) \o Glue(Tail(es))
Text6(s) ==
  LET tl == Tail6[s.tail]
      es == Elems(s, 0) \o (IF tl.st = "none" THEN <<>> ELSE <<[gap |-> FALSE, b |-> tl.b]>>)
  IN (IF s.lead THEN COLON ELSE <<>>) \o Glue(es) \o (IF s.trail THEN COLON ELSE <<>>)
(* reference parser on the structure *)
Pton6(s) ==
  LET tl == Tail6[s.tail]
      nw == s.n + (IF tl.st = "none" THEN 0 ELSE 2)
      gp == IF s.gaps = {} THEN -1 ELSE CHOOSE p \in s.gaps : TRUE
      wordsOf(lo, hi) == [i \in 1..(hi - lo + 1) |-> SlotTok(s, lo + i - 1).v]
  IN IF tl.st = "open" THEN [st |-> "open"]
     ELSE IF \/ s.lead \/ s.trail \/ Cardinality(s.gaps) > 1 \/ tl.st = "bad"
             \/ \E i \in 1..s.n : ~SlotTok(s, i).ok
             \/ (s.gaps = {} /\ nw # 8) \/ (s.gaps # {} /\ nw > 7)
          THEN [st |-> "reject"]
     ELSE [st |-> "ok",
           w |-> IF gp = -1 THEN wordsOf(1, s.n) \o tl.v
                 ELSE wordsOf(1, gp) \o [i \in 1..(8 - nw) |-> 0] \o wordsOf(gp + 1, s.n) \o tl.v]

(* reference formatter: words -> text (glibc inet_ntop) *)
RunLen(w, i) == LET z == {j \in i..8 : \A k \in i..j : w[k] = 0} IN Cardinality(z)
BestRun(w) ==      \* <<start, len>> of the longest zero run of length >= 2 (leftmost), or <<0, 0>>
  LET best == CHOOSE i \in 1..8 : \A j \in 1..8 : RunLen(w, i) > RunLen(w, j) \/ (RunLen(w, i) = RunLen(w, j) /\ i <= j)
  IN IF RunLen(w, best) >= 2 THEN <<best, RunLen(w, best)>> ELSE <<0, 0>>
V4Text(hi, lo) == JoinWith(<<Dec(hi \div 256), Dec(hi % 256), Dec(lo \div 256), Dec(lo % 256)>>, DOT)
Ntop6(w) ==
  LET br == BestRun(w)
      st == br[1]
      ln == br[2]
      v4 == st = 1 /\ (ln = 6 \/ (ln = 5 /\ w[6] = 65535))
      upto == IF v4 THEN 6 ELSE 8
      left == [i \in 1..(IF st = 0 THEN upto ELSE st - 1) |-> Hex(w[i])]
      right == IF st = 0 THEN <<>> ELSE [i \in 1..(upto - (st + ln - 1)) |-> Hex(w[st + ln - 1 + i])]
      hexpart == IF st = 0 THEN JoinWith(left, COLON)
                 ELSE JoinWith(left, COLON) \o <<58, 58>> \o JoinWith(right, COLON)
  IN IF v4 THEN hexpart \o (IF right = <<>> THEN <<>> ELSE COLON) \o V4Text(w[7], w[8]) ELSE hexpart
(* the structure of the text Ntop6 prints (for the law PtonNtop) *)
NtopStruct(w) ==
  LET br == BestRun(w) IN [w |-> w, run |-> br]
Expand(ns) == ns.w       \* parsing the printed structure gives back the words: groups kept, the run re-inserted as zeros
WordsBytes(w) == Flatten([i \in 1..8 |-> <<w[i] \div 256, w[i] % 256>>])

-----------------------------------------------------------------------------
(* enumerations *)
Base4 == <<4, 1, 7, 2>>             \* 10.0.255.1
P4States ==
  {cs \in [1..4 -> 1..Len(Comp4)] : Cardinality({i \in 1..4 : cs[i] # Base4[i]}) <= K}
  \cup {<<2, 2, 2>>, <<2, 2, 2, 2, 2>>, <<2>>, <<>>}
Vals4 == {0, 1, 9, 10, 99, 100, 255}
GapChoices(n) == {{}} \cup {{p} : p \in 0..n} \cup (IF n >= 2 THEN {{0, n}, {1, n}} ELSE {})
P6States ==
  LET plain == {[n |-> n, gaps |-> g, dev |-> dv, tail |-> tl, lead |-> FALSE, trail |-> FALSE] :
                  n \in 0..9, g \in {{}} \cup {{p} : p \in 0..9}, tl \in {1, 2},
                  dv \in {<<0, 0>>} \cup ((1..9) \X (1..Len(Grp6)))}
      odd == {[n |-> n, gaps |-> g, dev |-> <<0, 0>>, tail |-> tl, lead |-> ld, trail |-> tr] :
                  n \in 0..9, g \in {{}} \cup {{p} : p \in 0..9} \cup {{0, 2}, {1, 3}}, tl \in 1..Len(Tail6),
                  ld \in BOOLEAN, tr \in BOOLEAN}
  IN {s \in plain \cup odd : /\ \A p \in s.gaps : p <= s.n
                             /\ s.dev[1] <= s.n
                             /\ (K = 0 => s.dev = <<0, 0>>)
                             (* ":" + ":" alone would be the valid text "::" *)
                             /\ ~(s.lead /\ s.trail /\ s.n = 0 /\ s.gaps = {} /\ Tail6[s.tail].st = "none")}
WordVal(i, kind) == CASE kind = 0 -> 0 [] kind = 1 -> i [] kind = 2 -> 65535 [] kind = 3 -> 256 * i
N6States ==
  {[i \in 1..8 |-> IF (m \div (2 ^ (i - 1))) % 2 = 1 THEN WordVal(i, kd) ELSE 0] : m \in 0..255, kd \in 1..3}
  \cup {<<0, 0, 0, 0, 0, 65535, 258, 772>>, <<0, 0, 0, 0, 0, 0, 258, 772>>, <<0, 0, 0, 0, 0, 0, 0, 2>>,
        <<0, 0, 0, 0, 0, 0, 0, 1>>, <<0, 0, 0, 0, 0, 0, 1, 0>>, <<0, 0, 0, 0, 0, 65535, 0, 0>>,
        <<0, 0, 0, 0, 0, 65534, 258, 772>>, <<0, 0, 0, 0, 1, 65535, 258, 772>>,
        <<65535, 65535, 65535, 65535, 65535, 65535, 65535, 65535>>, <<4096, 256, 16, 1, 43981, 2748, 171, 10>>}
(* socket address texts: kind, address text token, port token *)
Port6 == << [b |-> <<>>, k |-> "none", v |-> 0], [b |-> <<49>>, k |-> "ok", v |-> 1], [b |-> <<56, 48>>, k |-> "ok", v |-> 80],
            [b |-> <<54, 53, 53, 51, 53>>, k |-> "ok", v |-> 65535], [b |-> <<48>>, k |-> "bad", v |-> 0],
            [b |-> <<54, 53, 53, 51, 54>>, k |-> "bad", v |-> 0], [b |-> <<>>, k |-> "empty", v |-> 0] >>
SpAddr == << [f |-> 4, b |-> <<49, 46, 50, 46, 51, 46, 52>>, ok |-> TRUE, a |-> <<1, 2, 3, 4>>],
             [f |-> 4, b |-> <<50, 53, 53, 46, 48, 46, 48, 46, 50, 53, 54>>, ok |-> FALSE, a |-> <<>>],
             [f |-> 6, b |-> <<58, 58, 49>>, ok |-> TRUE, a |-> <<0, 0, 0, 0, 0, 0, 0, 0, 0, 0, 0, 0, 0, 0, 0, 1>>],
             [f |-> 6, b |-> <<49, 58, 58, 102, 102, 58, 50>>, ok |-> TRUE, a |-> <<0, 1, 0, 0, 0, 0, 0, 0, 0, 0, 0, 0, 0, 255, 0, 2>>],
             [f |-> 6, b |-> <<49, 58, 58, 103>>, ok |-> FALSE, a |-> <<>>],
             [f |-> 6, b |-> <<58, 58, 97, 49, 46, 50, 46, 51, 46, 52>>, ok |-> FALSE, a |-> <<>>],            \* ::a1.2.3.4
             [f |-> 6, b |-> <<58, 58, 102, 102, 102, 102, 58, 98, 49, 48, 46, 48, 46, 48, 46, 49>>, ok |-> FALSE, a |-> <<>>],   \* ::ffff:b10.0.0.1
             [f |-> 6, b |-> <<54, 52, 58, 102, 102, 57, 98, 58, 58, 102, 49, 57, 50, 46, 48, 46, 50, 46, 51, 51>>, ok |-> FALSE, a |-> <<>>],   \* 64:ff9b::f192.0.2.33
             [f |-> 6, b |-> <<58, 58, 49, 49, 46, 50, 46, 51, 46, 52>>, ok |-> TRUE,
              a |-> <<0, 0, 0, 0, 0, 0, 0, 0, 0, 0, 0, 0, 11, 2, 3, 4>>] >>                                    \* ::11.2.3.4
SpStates == {[a |-> ai, p |-> pi, br |-> br] : ai \in 1..Len(SpAddr), pi \in 1..Len(Port6), br \in BOOLEAN}
(* text: addr | addr:port | [addr] | [addr]:port ; an unbracketed IPv6 address cannot carry a port *)
SpText(s) == LET ad == SpAddr[s.a].b
                 pt == Port6[s.p]
                 core == IF s.br THEN <<91>> \o ad \o <<93>> ELSE ad
             IN IF pt.k = "none" THEN core ELSE core \o COLON \o pt.b
SpParse(s) ==
  LET ad == SpAddr[s.a]
      pt == Port6[s.p]
  IN IF ad.f = 6 /\ ~s.br /\ pt.k # "none" THEN [st |-> "open"]              \* "::1:80" is itself an IPv6 text
     ELSE IF ad.f = 4 /\ s.br THEN [st |-> "open"]                            \* "[1.2.3.4]" form: not fixed
     ELSE IF ~ad.ok \/ pt.k \in {"bad", "empty"} THEN [st |-> "reject"]
     ELSE [st |-> "ok", f |-> ad.f, a |-> ad.a, port |-> pt.v]

States == CASE Mode = "p4" -> P4States [] Mode = "p6" -> P6States
            [] Mode = "n4" -> [1..4 -> Vals4] [] Mode = "n6" -> N6States [] Mode = "sp" -> SpStates

Init == x \in States
Next == UNCHANGED x
Spec == Init /\ [][Next]_vars

-----------------------------------------------------------------------------
(* laws *)
PtonNtop ==
  /\ (Mode = "n4" => LET cs == [i \in 1..4 |-> CHOOSE k \in 1..7 : Comp4[k].v = x[i]]
                      IN Text4(cs) = Ntop4(x) /\ Pton4(cs).a = x)
  /\ (Mode = "n6" => LET br == BestRun(x) IN
        /\ (br[2] > 0 => \A i \in br[1]..(br[1] + br[2] - 1) : x[i] = 0)
        /\ (br[2] > 0 => (br[1] = 1 \/ x[br[1] - 1] # 0) /\ (br[1] + br[2] = 9 \/ x[br[1] + br[2]] # 0))
        /\ \A i \in 1..8 : RunLen(x, i) <= (IF br[2] = 0 THEN 1 ELSE br[2])
        /\ Expand(NtopStruct(x)) = x)
Canonical ==
  /\ (Mode = "p4" => LET r == Pton4(x) IN
         (r.ok /\ \A i \in 1..Len(x) : ~Comp4[x[i]].lz) => Ntop4(r.a) = Text4(x))
  /\ (Mode = "p6" => LET r == Pton6(x) IN
         r.st = "ok" => (Len(r.w) = 8 /\ \A i \in 1..8 : r.w[i] \in 0..65535))

-----------------------------------------------------------------------------
(* generation *)
Rec ==
  CASE Mode = "p4" -> LET r == Pton4(x) IN
         [t |-> Text4(x), st |-> IF r.ok THEN "ok" ELSE "reject", a |-> IF r.ok THEN r.a ELSE <<>>,
          lz |-> IF \E i \in 1..Len(x) : Comp4[x[i]].lz THEN 1 ELSE 0]
    [] Mode = "p6" -> LET r == Pton6(x) IN
         [t |-> Text6(x), st |-> r.st, a |-> IF r.st = "ok" THEN WordsBytes(r.w) ELSE <<>>, lz |-> 0]
    [] Mode = "n4" -> [a |-> x, t |-> Ntop4(x)]
    [] Mode = "n6" -> [a |-> WordsBytes(x), t |-> Ntop6(x)]
    [] Mode = "sp" -> [t |-> SpText(x), r |-> SpParse(x)]
Emit == PrintT(ToJson(Rec))
=============================================================================
