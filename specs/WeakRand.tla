----------------------------- MODULE WeakRand -----------------------------
(***************************************************************************)
(* C46 - bounded random choices (evutil.c: evutil_weakrand_,               *)
(* evutil_weakrand_range_), used for the start index of a poll/select      *)
(* dispatch and for the first member served in a rate-limit group.         *)
(*                                                                         *)
(*   state->seed = ((state->seed) * 1103515245 + 12345) & 0x7fffffff;      *)
(*   divisor = EVUTIL_WEAKRAND_MAX / top;                                   *)
(*   do { result = evutil_weakrand_(state) / divisor; } while (result >= top); *)
(*                                                                         *)
(* Parameters: MOD = 2^31 (LCG modulus), SMOD = 2^32 (the ev_uint32_t seed *)
(* register: evutil_weakrand_seed_ may store any 32-bit value), MULT, INC. *)
(* Apalache decides the theorems for the real constants (WeakRand_A31.tla),*)
(* TLC decides them - and termination within the bound - exhaustively for  *)
(* a small analogue (MOD = 2^8 with MULT, INC reduced modulo 2^9).         *)
(***************************************************************************)
EXTENDS Integers, Sequences

CONSTANTS
    \* @type: Int;
    MOD,
    \* @type: Int;
    SMOD,
    \* @type: Int;
    MULT,
    \* @type: Int;
    INC

VARIABLES
    \* @type: Int;
    seed,     \* state->seed
    \* @type: Int;
    top,      \* argument of evutil_weakrand_range_
    \* @type: Int;
    res,      \* result of the last division
    \* @type: Int;
    steps,    \* iterations of the do-while loop so far
    \* @type: Int;
    pc        \* 0 = in the loop, 1 = returned

\* @type: <<Int, Int, Int, Int, Int>>;
vars == <<seed, top, res, steps, pc>>

MAXR == MOD - 1                      \* EVUTIL_WEAKRAND_MAX = EV_INT32_MAX
\* only applied to non-negative operands (see TokenBucket.tla: Apalache's constant folder)
Step(s) == ((s * MULT + INC) % SMOD) % MOD     \* 32-bit unsigned arithmetic, then & 0x7fffffff
Divisor(t) == MAXR \div t
Quot(s, t) == s \div Divisor(t)
Accepted(s, t) == Quot(s, t) < t     \* the loop exits

TopOK(t) == 1 <= t /\ t <= MAXR      \* "top must be no more than EVUTIL_WEAKRAND_MAX"; callers pass top >= 1

(* one iteration of the do-while loop *)
Iter ==
    /\ pc = 0
    /\ seed' = Step(seed)
    /\ res' = Quot(Step(seed), top)
    /\ steps' = steps + 1
    /\ pc' = (IF Accepted(Step(seed), top) THEN 1 ELSE 0)
    /\ UNCHANGED top
Done == pc = 1 /\ UNCHANGED vars
Next == Iter \/ Done

InitSym ==
    /\ seed \in Int /\ 0 <= seed /\ seed < SMOD
    /\ top \in Int /\ TopOK(top)
    /\ res = 0 /\ steps = 0 /\ pc = 0
InitEnum ==
    /\ seed \in 0..(SMOD - 1)
    /\ top \in 1..MAXR
    /\ res = 0 /\ steps = 0 /\ pc = 0
Spec == InitEnum /\ [][Next]_vars /\ WF_vars(Iter)

(* ---- theorems ---------------------------------------------------------- *)
\* the value returned lies inside the range chosen from; the generator state stays a 31-bit value
InRange == (pc = 1) => (0 <= res /\ res < top /\ res = Quot(seed, top))
SeedOK  == (steps >= 1) => (0 <= seed /\ seed < MOD)
\* no division by zero, no intermediate outside the C types
DivisorOK == Divisor(top) >= 1 /\ Divisor(top) <= MAXR
(* bounded time.  The accepted generator states are exactly [0, top*divisor) *)
(* and that region is more than half of the state space; the LCG            *)
(* x -> (MULT*x + INC) mod 2^k has full period when INC is odd and          *)
(* MULT = 1 (mod 4) (Hull-Dobell), so from every state an accepted state is *)
(* reached after at most MOD - top*divisor + 1 <= MOD/2 iterations          *)
(* (expected: fewer than 2).                                                *)
AcceptRegion == \A x \in {seed} : (0 <= x /\ x < MOD) => (Accepted(x, top) <=> x < top * Divisor(top))
AcceptHalf  == 2 * (top * Divisor(top)) > MAXR
HullDobell  == INC % 2 = 1 /\ MULT % 4 = 1
StepBound   == steps <= MOD \div 2                   \* TLC, small analogue: decided exhaustively
Terminates  == <>(pc = 1)                            \* TLC, small analogue, under WF(Iter)

(* ---- vector predicates (checks/C46.py) --------------------------------- *)
\* one call of evutil_weakrand_: new seed and return value
VecStep(s, o_ret, o_seed) == o_seed = Step(s) /\ o_ret = Step(s)
\* evutil_weakrand_range_(seed s, top t) returned r leaving the seed at f after k generator steps,
\* c = the k seeds produced by the real evutil_weakrand_ from s (k <= 8 is unrolled here)
\* @type: (Int, Int) => Seq(Int);
Chain(s, k) ==
    LET s1 == Step(s) s2 == Step(s1) s3 == Step(s2) s4 == Step(s3)
        s5 == Step(s4) s6 == Step(s5) s7 == Step(s6) s8 == Step(s7)
    IN <<s1, s2, s3, s4, s5, s6, s7, s8>>
VecRange(s, t, r, f, k) ==
    /\ 0 <= r /\ r < t                                  \* the property itself
    /\ (1 <= k /\ k <= 8) =>
          LET c == Chain(s, k) IN
          /\ f = c[k] /\ r = Quot(c[k], t) /\ Accepted(c[k], t)
          /\ \A j \in 1..8 : (j < k) => ~Accepted(c[j], t)   \* every earlier value was (rightly) rejected
\* poll/select dispatch with generator state s chooses i in [0, n) and examines the indices
\* i+1, i+2, ... (mod n): the callbacks of the ready indices ord (a sequence, callback order) must be
\* sorted by their cyclic distance from i+1, where i is the value the specification computes.
\* @type: (Int, Int, Int, Int, Seq(Int)) => Bool;
VecDisp(s, n, f, k, ord) ==
    (1 <= k /\ k <= 8) =>
        LET i == Quot(Chain(s, k)[k], n) IN
        /\ VecRange(s, n, i, f, k)
        /\ \A a \in DOMAIN ord : 0 <= ord[a] /\ ord[a] < n
        /\ \A a, b \in DOMAIN ord : (a < b) => ((ord[a] + n - i - 1) % n) < ((ord[b] + n - i - 1) % n)

InitFree ==
    /\ seed \in Int /\ top \in Int
    /\ res = 0 /\ steps = 0 /\ pc = 0
Stutter == UNCHANGED vars
=============================================================================
