------------------------------ MODULE HttpRoute ------------------------------
(* Routing of an evhttp server (property C30): which registration receives a
   request.

   A configuration is a tree of evhttp objects (node 1 = the listening server,
   the others virtual hosts with a pattern), each with server aliases,
   callbacks registered for paths (evhttp_set_cb) and possibly a general
   callback (evhttp_set_gencb); the listening server has an allowed-method set.
   A request is (method, target, Host value).

   The reference matcher (Route):
     1. method outside the allowed set of the listening server     -> 501
     2. host   = host of an absolute-form target, else the Host value without
                 its ":port"; compared case-insensitively
        object = the object owning an alias equal to host, anywhere in the tree;
                 else descend from the listening server, at each level into the
                 first child whose pattern ('*' = any, possibly empty, sequence)
                 matches host, until no child matches
     3. path   = target without scheme://authority, query and fragment,
                 percent-decoded ONCE (%XX -> the octet, malformed escapes kept)
        the callback of `object` registered for exactly that octet string,
        else the general callback of `object`, else 404.
   The octet NUL (from %00) is an octet like any other: "/admin%00x" decodes to
   an 8-octet path that is not equal to "/admin".
*)
EXTENDS Integers, Sequences, FiniteSets, TLC, Json

CONSTANTS Configs, Targets, Hosts, Methods, Masks

VARIABLES sc
vars == <<sc>>

(* ---- strings *)
Ch(s, i) == SubSeq(s, i, i)
From(s, i) == SubSeq(s, i, Len(s))
Min(I) == CHOOSE i \in I : \A j \in I : i <= j
IndexOf(s, c) == LET I == {i \in 1..Len(s) : Ch(s, i) = c} IN IF I = {} THEN 0 ELSE Min(I)
IndexOf2(s, cc) == LET I == {i \in 1..(Len(s) - 1) : SubSeq(s, i, i + 1) = cc} IN IF I = {} THEN 0 ELSE Min(I)
Upper == <<"A","B","C","D","E","F","G","H","I","J","K","L","M","N","O","P","Q","R","S","T","U","V","W","X","Y","Z">>
Lower == <<"a","b","c","d","e","f","g","h","i","j","k","l","m","n","o","p","q","r","s","t","u","v","w","x","y","z">>
LowCh(c) == LET I == {i \in 1..26 : Upper[i] = c} IN IF I = {} THEN c ELSE Lower[CHOOSE i \in I : TRUE]
RECURSIVE Low(_)
Low(s) == IF s = "" THEN "" ELSE LowCh(Ch(s, 1)) \o Low(From(s, 2))
Digits == {"0", "1", "2", "3", "4", "5", "6", "7", "8", "9"}
HexChars == Digits \cup {"a", "b", "c", "d", "e", "f", "A", "B", "C", "D", "E", "F"}

(* ---- percent-decoding: an octet string is a sequence of one-octet strings; NUL is the token "<0>" *)
Octet(hh) == LET h == Low(hh) IN
  CASE h = "2f" -> "/" [] h = "3f" -> "?" [] h = "61" -> "a" [] h = "41" -> "A" [] h = "25" -> "%" [] h = "2e" -> "."
    [] h = "00" -> "<0>" [] h = "23" -> "#" [] OTHER -> "<" \o h \o ">"
RECURSIVE Decode(_)
Decode(s) ==
  IF s = "" THEN <<>>
  ELSE IF Ch(s, 1) = "%" /\ Len(s) >= 3 /\ Ch(s, 2) \in HexChars /\ Ch(s, 3) \in HexChars
       THEN <<Octet(SubSeq(s, 2, 3))>> \o Decode(From(s, 4))
       ELSE <<Ch(s, 1)>> \o Decode(From(s, 2))
Octets(s) == [i \in 1..Len(s) |-> Ch(s, i)]       \* a registered path, octet by octet (no decoding)

(* ---- target -> (host of an absolute form, path) *)
Cut(s, c) == LET i == IndexOf(s, c) IN IF i = 0 THEN s ELSE SubSeq(s, 1, i - 1)
IsAbsolute(t) == Len(t) >= 7 /\ Low(SubSeq(t, 1, 7)) = "http://"
AuthPath(t) == LET r == From(t, 8) i == IndexOf(r, "/") IN
  IF i = 0 THEN [auth |-> Cut(Cut(r, "?"), "#"), path |-> ""] ELSE [auth |-> SubSeq(r, 1, i - 1), path |-> From(r, i)]
PathOf(t) == Cut(Cut(IF IsAbsolute(t) THEN AuthPath(t).path ELSE t, "?"), "#")
StripPort(h) ==     \* remove a trailing ":" *DIGIT
  LET I == {i \in 1..Len(h) : Ch(h, i) = ":" /\ \A j \in (i + 1)..Len(h) : Ch(h, j) \in Digits} IN
  IF I = {} \/ Min(I) = 1 THEN h ELSE SubSeq(h, 1, Min(I) - 1)
HostOf(req) == Low(IF IsAbsolute(req.t) THEN StripPort(AuthPath(req.t).auth) ELSE StripPort(req.host))

(* ---- wildcard patterns *)
RECURSIVE Glob(_, _)
Glob(p, n) ==
  IF p = "" THEN n = ""
  ELSE IF Ch(p, 1) = "*" THEN \E k \in 0..Len(n) : Glob(From(p, 2), From(n, k + 1))
  ELSE n # "" /\ LowCh(Ch(p, 1)) = LowCh(Ch(n, 1)) /\ Glob(From(p, 2), From(n, 2))
(* independent formulation for patterns with exactly one '*': prefix and suffix *)
OneStar(p) == Cardinality({i \in 1..Len(p) : Ch(p, i) = "*"}) = 1
PrefixSuffix(p, n) == LET i == IndexOf(p, "*") pre == SubSeq(p, 1, i - 1) suf == From(p, i + 1) IN
  Len(n) >= Len(pre) + Len(suf) /\ Low(SubSeq(n, 1, Len(pre))) = Low(pre)
  /\ Low(From(n, Len(n) - Len(suf) + 1)) = Low(suf)

(* ---- configurations: node = [parent, pattern, aliases, paths, gen]; node 1 is the listening server *)
Config(c) ==
  CASE c = "flat"  -> <<[parent |-> 0, pattern |-> "", aliases |-> <<>>, paths |-> <<"/a", "/a/b", "/admin">>, gen |-> TRUE]>>
    [] c = "nogen" -> <<[parent |-> 0, pattern |-> "", aliases |-> <<>>, paths |-> <<"/a">>, gen |-> FALSE]>>
    [] c = "vhosts" ->
       <<[parent |-> 0, pattern |-> "", aliases |-> <<"root.test">>, paths |-> <<"/a", "/admin">>, gen |-> TRUE],
         [parent |-> 1, pattern |-> "*.example.com", aliases |-> <<"alias.test">>, paths |-> <<"/a", "/a/b">>, gen |-> FALSE],
         [parent |-> 2, pattern |-> "www.*", aliases |-> <<>>, paths |-> <<"/a">>, gen |-> TRUE],
         [parent |-> 1, pattern |-> "exact.test", aliases |-> <<>>, paths |-> <<"/admin">>, gen |-> TRUE],
         [parent |-> 1, pattern |-> "*.example.*", aliases |-> <<"www.deep.example.com">>, paths |-> <<"/a">>, gen |-> TRUE]>>
    [] c = "stars" ->    \* '*' in the middle / at the start of a pattern: it matches ANY string, the empty one included
       <<[parent |-> 0, pattern |-> "", aliases |-> <<>>, paths |-> <<"/a">>, gen |-> TRUE],
         [parent |-> 1, pattern |-> "www*.example.com", aliases |-> <<>>, paths |-> <<"/a">>, gen |-> TRUE],
         [parent |-> 1, pattern |-> "*a.test", aliases |-> <<>>, paths |-> <<>>, gen |-> TRUE],
         [parent |-> 1, pattern |-> "x*y*.org", aliases |-> <<>>, paths |-> <<"/a">>, gen |-> TRUE]>>
    [] c = "shadow" ->   \* a later sibling that would also match is never chosen; alias beats pattern
       <<[parent |-> 0, pattern |-> "", aliases |-> <<>>, paths |-> <<>>, gen |-> FALSE],
         [parent |-> 1, pattern |-> "*", aliases |-> <<>>, paths |-> <<"/a">>, gen |-> FALSE],
         [parent |-> 1, pattern |-> "*.example.com", aliases |-> <<"V.example.com">>, paths |-> <<"/a", "/admin">>, gen |-> TRUE]>>

HasAlias(nd, h) == \E i \in 1..Len(nd.aliases) : Low(nd.aliases[i]) = h
(* depth-first search order of evhttp_find_alias: the object itself, then its children in order *)
RECURSIVE AliasOwner(_, _, _)
AliasOwner(cfg, n, h) ==
  IF HasAlias(cfg[n], h) THEN n
  ELSE LET kids == {k \in 1..Len(cfg) : cfg[k].parent = n}
           hit == {k \in kids : AliasOwner(cfg, k, h) # 0}
       IN IF hit = {} THEN 0 ELSE AliasOwner(cfg, Min(hit), h)
RECURSIVE Descend(_, _, _)
Descend(cfg, n, h) ==
  LET hit == {k \in 1..Len(cfg) : cfg[k].parent = n /\ Glob(cfg[k].pattern, h)} IN
  IF hit = {} THEN n ELSE Descend(cfg, Min(hit), h)
(* (without any host information libevent skips virtual-host selection) *)
ObjectFor(cfg, req) ==
  IF ~IsAbsolute(req.t) /\ req.host = "" THEN 1
  ELSE LET h == HostOf(req) a == AliasOwner(cfg, 1, h) IN IF a # 0 THEN a ELSE Descend(cfg, 1, h)

Route(cfg, mask, req) ==
  IF req.m \notin mask THEN [k |-> "501", node |-> 0, path |-> ""]
  ELSE LET n == ObjectFor(cfg, req)
           p == Decode(PathOf(req.t))
           hit == {i \in 1..Len(cfg[n].paths) : Octets(cfg[n].paths[i]) = p}
       IN IF hit # {} THEN [k |-> "cb", node |-> n, path |-> cfg[n].paths[Min(hit)]]
          ELSE IF cfg[n].gen THEN [k |-> "gen", node |-> n, path |-> ""]
          ELSE [k |-> "404", node |-> 0, path |-> ""]

(* ---- state machine: one scenario per initial state *)
Scen == [cfg : Configs, mask : Masks, m : Methods, t : Targets, host : Hosts]
Init == sc \in Scen
Next == UNCHANGED sc

R == Route(Config(sc.cfg), sc.mask, sc)
(* properties of the reference *)
ExactPath == R.k = "cb" => Decode(PathOf(sc.t)) = Octets(R.path) /\ ~\E i \in 1..Len(Decode(PathOf(sc.t))) : Decode(PathOf(sc.t))[i] = "<0>"
MaskFirst == (sc.m \notin sc.mask) <=> R.k = "501"
GlobAgrees == \A k \in 1..Len(Config(sc.cfg)) :
  LET p == Config(sc.cfg)[k].pattern IN OneStar(p) => (Glob(p, HostOf(sc)) <=> PrefixSuffix(p, HostOf(sc)))
AliasWins == (R.k # "501" /\ AliasOwner(Config(sc.cfg), 1, HostOf(sc)) # 0 /\ (IsAbsolute(sc.t) \/ sc.host # ""))
             => ObjectFor(Config(sc.cfg), sc) = AliasOwner(Config(sc.cfg), 1, HostOf(sc))
ChosenMatches == LET n == ObjectFor(Config(sc.cfg), sc) c == Config(sc.cfg) IN
  (n # 1 /\ AliasOwner(c, 1, HostOf(sc)) = 0) => Glob(c[n].pattern, HostOf(sc))

Bytes == sc.m \o " " \o sc.t \o " HTTP/1.1\r\n" \o (IF sc.host = "" THEN "" ELSE "Host: " \o sc.host \o "\r\n") \o "\r\n"
NodesJ(c) == [i \in 1..Len(c) |-> [parent |-> c[i].parent - 1, pattern |-> c[i].pattern, aliases |-> c[i].aliases,
                                   paths |-> c[i].paths, gen |-> IF c[i].gen THEN 1 ELSE 0]]
Emit == PrintT(ToJson([sc |-> [cfg |-> sc.cfg, m |-> sc.m, t |-> sc.t, host |-> sc.host],
                       masks |-> [g |-> "GET" \in sc.mask, p |-> "POST" \in sc.mask, u |-> "PUT" \in sc.mask],
                       bytes |-> Bytes, nodes |-> NodesJ(Config(sc.cfg)),
                       expect |-> [k |-> R.k, node |-> R.node - 1, path |-> R.path]]))
=============================================================================
