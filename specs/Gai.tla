------------------------------- MODULE Gai -------------------------------
(* Reference model of evdns_getaddrinfo (property C38).

   A lookup is [node, serv, fam, st, pr, passive, canon, numhost, numserv].  Sources are a hosts
   table and, per zone version, per DNS name the answer to the A and to the AAAA question
   ([k |-> "ok" | "nodata" | "nx" | "drop", addrs, ttl, cname]).  Expected(l, z) is what the
   sources provide:
     [k |-> "err"]                         some EVUTIL_EAI_* error
     [k |-> "ok", ents, canon, q4, q6]     ents = SET of <<family, address, port, socktype, protocol>>,
                                           canon = admissible canonical names of the first entry ("" = none),
                                           q4 / q6 = whether an A / AAAA question may (and, for DNS names, must) be asked
   A scenario is one lookup, or two lookups of the same name separated by `age` seconds with the
   zone switched to version 2 in between: the second result must be the fresh one, or -- only while
   every record of the first answer is within its TTL and the first lookup covered the families now
   asked for -- the cached one (equal to the original answers). *)
EXTENDS Integers, Sequences, FiniteSets, TLC, Json

CONSTANTS HttpTcp, HttpUdp, HttpAny,        \* what the machine's services database says for "http" (99999 = unknown)
          NodeIdx, ServIdx, FamSet, SockIdx, FlagIdx, \* selection of the single-lookup product
          CacheOn,                           \* TRUE: generate the two-lookup (cache) scenarios instead
          AgeSet, Fam2Set
VARIABLES cur, gstep

INET == 2
INET6 == 10
STREAM == 1
DGRAM == 2
TCP == 6
UDP == 17
Skew == 3           \* getaddrinfo-allow-skew (seconds)

Hosts == << [n |-> "hostv4", a4 |-> <<"10.9.9.9">>, a6 |-> <<>>],
            [n |-> "hostboth", a4 |-> <<"10.9.9.8">>, a6 |-> <<"2001:db8::8">>] >>
HostsText == "10.9.9.9 hostv4\n10.9.9.8 hostboth\n2001:db8::8 hostboth\n"
Ans(k, addrs, ttl, cname) == [k |-> k, addrs |-> addrs, ttl |-> ttl, cname |-> cname, soa |-> 0]
Neg(k, soa) == [k |-> k, addrs |-> <<>>, ttl |-> 0, cname |-> "", soa |-> soa]    \* negative answer with an SOA (ttl = minimum = soa) in the authority section
None == Ans("nx", <<>>, 0, "")
(* zone version v: name -> [a, aaaa] *)
Zone(v) == <<
  [n |-> "dual.test", a |-> Ans("ok", IF v = 1 THEN <<"10.0.0.1", "10.0.0.2">> ELSE <<"10.2.0.1">>, 300, ""),
                      aaaa |-> Ans("ok", IF v = 1 THEN <<"2001:db8::1">> ELSE <<"2001:db8:2::1">>, 10, "")],
  [n |-> "v4only.test", a |-> Ans("ok", <<"10.0.1.1">>, 60, ""), aaaa |-> Ans("nodata", <<>>, 0, "")],
  [n |-> "cn.test", a |-> Ans("ok", IF v = 1 THEN <<"10.0.2.1", "10.0.2.2">> ELSE <<"10.2.2.1">>, 120, "real.test"),
                    aaaa |-> Ans("ok", IF v = 1 THEN <<"2001:db8::21">> ELSE <<"2001:db8:2::21">>, 120, "real.test")],
  [n |-> "nx.test", a |-> None, aaaa |-> None],
  [n |-> "slow6.test", a |-> Ans("ok", <<"10.0.3.1">>, 60, ""), aaaa |-> Ans("drop", <<>>, 0, "")],
  [n |-> "slow4.test", a |-> Ans("drop", <<>>, 0, ""), aaaa |-> Ans("ok", <<"2001:db8::31">>, 60, "")],
  [n |-> "v6only.test", a |-> Ans("nx", <<>>, 0, ""), aaaa |-> Ans("ok", <<"2001:db8::41">>, 60, "")],
  [n |-> "hostv4", a |-> Ans("ok", <<"10.66.66.66">>, 60, ""), aaaa |-> Ans("ok", <<"2001:db8::66">>, 60, "")],  \* also in hosts: hosts win
  (* one family exists with a short TTL, the other is answered negatively with a long-lived SOA: the negative answer's
     lifetime says nothing about the positive records *)
  [n |-> "neg6.test", a |-> Ans("ok", IF v = 1 THEN <<"10.0.4.1">> ELSE <<"10.2.4.1">>, 20, ""), aaaa |-> Neg("nodata", 600)],
  [n |-> "neg4.test", a |-> Neg("nx", 600), aaaa |-> Ans("ok", IF v = 1 THEN <<"2001:db8::51">> ELSE <<"2001:db8:2::51">>, 20, "")]
>>

Nodes == << [k |-> "null", n |-> ""], [k |-> "num4", n |-> "1.2.3.4"], [k |-> "num6", n |-> "2001:db8::9"],
            [k |-> "name", n |-> "hostv4"], [k |-> "name", n |-> "hostboth"], [k |-> "name", n |-> "dual.test"],
            [k |-> "name", n |-> "v4only.test"], [k |-> "name", n |-> "cn.test"], [k |-> "name", n |-> "nx.test"],
            [k |-> "name", n |-> "slow6.test"], [k |-> "name", n |-> "slow4.test"], [k |-> "name", n |-> "v6only.test"],
            [k |-> "name", n |-> "unknown.test"], [k |-> "name", n |-> "neg6.test"], [k |-> "name", n |-> "neg4.test"] >>
Servs == << [k |-> "null", s |-> ""], [k |-> "num", s |-> "80"], [k |-> "name", s |-> "http"], [k |-> "bad", s |-> "no such service!"],
            [k |-> "num", s |-> "65535"], [k |-> "bad", s |-> "65536"] >>
Socks == << <<0, 0>>, <<STREAM, 0>>, <<DGRAM, 0>>, <<STREAM, TCP>>, <<0, UDP>>, <<0, TCP>> >>
F(p, c, nh, nsv) == [passive |-> p, canon |-> c, numhost |-> nh, numserv |-> nsv]
FlagSets == << F(FALSE, FALSE, FALSE, FALSE), F(TRUE, FALSE, FALSE, FALSE), F(FALSE, TRUE, FALSE, FALSE),
               F(FALSE, FALSE, TRUE, FALSE), F(FALSE, FALSE, FALSE, TRUE), F(TRUE, TRUE, TRUE, TRUE) >>

Lookup(ni, si, fam, ki, fi) == [node |-> Nodes[ni], serv |-> Servs[si], fam |-> fam, st |-> Socks[ki][1], pr |-> Socks[ki][2], fl |-> FlagSets[fi]]

----------------------------------------------------------------------------
Range(s) == {s[i] : i \in 1..Len(s)}
(* socket type / protocol implied by the hints *)
Infer(st, pr) == LET pr1 == IF pr = 0 /\ st = DGRAM THEN UDP ELSE IF pr = 0 /\ st = STREAM THEN TCP ELSE pr
                     st1 == IF st = 0 /\ pr1 = UDP THEN DGRAM ELSE IF st = 0 /\ pr1 = TCP THEN STREAM ELSE st
                 IN <<st1, pr1>>
SockSet(st, pr) == IF st = 0 /\ pr = 0 THEN {<<STREAM, TCP>>, <<DGRAM, UDP>>} ELSE {Infer(st, pr)}
(* port of the service, -1 = the service cannot be resolved *)
NumPort(s) == CASE s = "80" -> 80 [] s = "65535" -> 65535 [] OTHER -> -1
Port(l) ==
  CASE l.serv.k = "null" -> 0
    [] l.serv.k = "num" -> NumPort(l.serv.s)
    [] l.serv.k = "bad" -> -1
    [] OTHER -> IF l.fl.numserv THEN -1
                ELSE LET pr == Infer(l.st, l.pr)[2]
                         p == IF pr = TCP THEN HttpTcp ELSE IF pr = UDP THEN HttpUdp ELSE HttpAny
                     IN IF p > 65535 THEN -1 ELSE p
FamOk(l, f) == l.fam = 0 \/ l.fam = f
Ents(l, a4, a6) ==
  {<<INET, a, Port(l), sp[1], sp[2]>> : a \in (IF FamOk(l, INET) THEN a4 ELSE {}), sp \in SockSet(l.st, l.pr)} \cup
  {<<INET6, a, Port(l), sp[1], sp[2]>> : a \in (IF FamOk(l, INET6) THEN a6 ELSE {}), sp \in SockSet(l.st, l.pr)}

InHosts(nm) == \E i \in 1..Len(Hosts) : Hosts[i].n = nm
HostOf(nm) == Hosts[CHOOSE i \in 1..Len(Hosts) : Hosts[i].n = nm]
InZone(z, nm) == \E i \in 1..Len(Zone(z)) : Zone(z)[i].n = nm
ZoneOf(z, nm) == IF InZone(z, nm) THEN Zone(z)[CHOOSE i \in 1..Len(Zone(z)) : Zone(z)[i].n = nm] ELSE [n |-> nm, a |-> None, aaaa |-> None]

Err == [k |-> "err", q4 |-> FALSE, q6 |-> FALSE]
Ok(ents, canon, q4, q6) == IF ents = {} THEN [k |-> "err", q4 |-> q4, q6 |-> q6]
                           ELSE [k |-> "ok", ents |-> ents, canon |-> canon, q4 |-> q4, q6 |-> q6, mayerr |-> FALSE]
AnyCanon(l) == IF l.fl.canon THEN {"", l.node.n} ELSE {""}     \* no CNAME record: the standard says the node name, libevent says none

Expected(l, z) ==
  IF l.node.k = "null" /\ l.serv.k = "null" THEN Err
  ELSE IF Port(l) < 0 THEN Err
  ELSE IF l.node.k = "null" THEN
         \* AI_CANONNAME without a node name is an error for some resolvers (EAI_BADFLAGS): admitted
         [Ok(Ents(l, {IF l.fl.passive THEN "0.0.0.0" ELSE "127.0.0.1"}, {IF l.fl.passive THEN "::" ELSE "::1"}), AnyCanon(l), FALSE, FALSE)
            EXCEPT !.mayerr = l.fl.canon]
  ELSE IF l.node.k = "num4" THEN Ok(Ents(l, {l.node.n}, {}), AnyCanon(l), FALSE, FALSE)
  ELSE IF l.node.k = "num6" THEN Ok(Ents(l, {}, {l.node.n}), AnyCanon(l), FALSE, FALSE)
  ELSE IF l.fl.numhost THEN Err
  ELSE IF InHosts(l.node.n) THEN Ok(Ents(l, Range(HostOf(l.node.n).a4), Range(HostOf(l.node.n).a6)), AnyCanon(l), FALSE, FALSE)
  ELSE LET zz == ZoneOf(z, l.node.n)
           q4 == FamOk(l, INET)
           q6 == FamOk(l, INET6)
           a4 == IF q4 /\ zz.a.k = "ok" THEN Range(zz.a.addrs) ELSE {}
           a6 == IF q6 /\ zz.aaaa.k = "ok" THEN Range(zz.aaaa.addrs) ELSE {}
           cn == {x \in {IF q4 /\ zz.a.k = "ok" THEN zz.a.cname ELSE "", IF q6 /\ zz.aaaa.k = "ok" THEN zz.aaaa.cname ELSE ""} : x # ""}
       IN Ok(Ents(l, a4, a6), IF l.fl.canon /\ cn # {} THEN cn ELSE AnyCanon(l), q4, q6)

(* the first lookup leaves a cache entry usable until the smallest TTL of the records it used *)
MinTtl(l, z) == LET zz == ZoneOf(z, l.node.n)
                    ts == (IF FamOk(l, INET) /\ zz.a.k = "ok" THEN {zz.a.ttl} ELSE {}) \cup (IF FamOk(l, INET6) /\ zz.aaaa.k = "ok" THEN {zz.aaaa.ttl} ELSE {})
                IN IF ts = {} THEN 0 ELSE CHOOSE t \in ts : \A u \in ts : t <= u
Covers(l1, l2) == (FamOk(l2, INET) => FamOk(l1, INET)) /\ (FamOk(l2, INET6) => FamOk(l1, INET6)) /\ (l2.fl.canon => l1.fl.canon)
SecondAllowed(l1, l2, age) ==
  LET fresh == Expected(l2, 2)
      first == Expected(l1, 1)
      cached == Expected(l2, 1)
  IN IF first.k = "ok" /\ (first.q4 \/ first.q6) /\ age < MinTtl(l1, 1) /\ Covers(l1, l2) /\ l2.node = l1.node
     THEN <<fresh, [cached EXCEPT !.q4 = FALSE, !.q6 = FALSE]>> ELSE <<fresh>>

----------------------------------------------------------------------------
SetToSeq(S) == LET RECURSIVE R(_)
                   R(T) == IF T = {} THEN <<>> ELSE LET m == CHOOSE x \in T : TRUE IN <<m>> \o R(T \ {m})
               IN R(S)
Out(e) == IF e.k = "ok" THEN [k |-> "ok", ents |-> SetToSeq(e.ents), canon |-> SetToSeq(e.canon), q4 |-> e.q4, q6 |-> e.q6, mayerr |-> e.mayerr]
          ELSE [k |-> "err", q4 |-> e.q4, q6 |-> e.q6]
Init == cur = [k |-> "init"] /\ gstep = 0
Gen1 == /\ ~CacheOn /\ gstep = 0 /\ gstep' = 1
        /\ \E ni \in NodeIdx : \E si \in ServIdx : \E fam \in FamSet : \E ki \in SockIdx : \E fi \in FlagIdx :
             LET l == Lookup(ni, si, fam, ki, fi) IN
             cur' = [k |-> "one", l |-> <<l>>, age |-> 0, exp |-> << <<Out(Expected(l, 1))>> >>, raw |-> <<Expected(l, 1)>>]
Gen2 == /\ CacheOn /\ gstep = 0 /\ gstep' = 1
        /\ \E ni \in NodeIdx : \E f1 \in FamSet : \E f2 \in Fam2Set : \E c1 \in {3, 1} : \E c2 \in {3, 1} : \E age \in AgeSet : \E si \in {2, 5} :
             LET l1 == Lookup(ni, 2, f1, 2, c1)
                 l2 == Lookup(ni, si, f2, 2, c2)
                 al == SecondAllowed(l1, l2, age)
             IN cur' = [k |-> "two", l |-> <<l1, l2>>, age |-> age,
                        exp |-> << <<Out(Expected(l1, 1))>>, [i \in 1..Len(al) |-> Out(al[i])] >>, raw |-> al]
Next == Gen1 \/ Gen2

----------------------------------------------------------------------------
(* Properties of the reference, decided by TLC on every generated scenario *)
L1 == cur.l[1]
R1 == cur.raw[1]
NoQueryFor == (cur.k = "one" /\ (L1.node.k # "name" \/ L1.fl.numhost \/ InHosts(L1.node.n))) => ~R1.q4 /\ ~R1.q6
HostsWin == (cur.k = "one" /\ L1.node.k = "name" /\ InHosts(L1.node.n) /\ ~L1.fl.numhost /\ R1.k = "ok") =>
              \A e \in R1.ents : e[2] \in Range(HostOf(L1.node.n).a4) \cup Range(HostOf(L1.node.n).a6)
FamilyRespected == (cur.k = "one" /\ R1.k = "ok") => \A e \in R1.ents : FamOk(L1, e[1])
PortEverywhere == (cur.k = "one" /\ R1.k = "ok") => \A e \in R1.ents : e[3] = Port(L1) /\ <<e[4], e[5]>> \in SockSet(L1.st, L1.pr)
UnionOfAnswers == (cur.k = "one" /\ L1.node.k = "name" /\ ~InHosts(L1.node.n) /\ ~L1.fl.numhost /\ R1.k = "ok") =>
                    LET zz == ZoneOf(1, L1.node.n) IN
                    {e[2] : e \in R1.ents} = (IF FamOk(L1, INET) /\ zz.a.k = "ok" THEN Range(zz.a.addrs) ELSE {})
                                              \cup (IF FamOk(L1, INET6) /\ zz.aaaa.k = "ok" THEN Range(zz.aaaa.addrs) ELSE {})
CacheWithinTtl == (cur.k = "two" /\ Len(cur.raw) = 2) => cur.age < MinTtl(cur.l[1], 1) /\ Covers(cur.l[1], cur.l[2])
Emit == cur.k # "init" => PrintT(ToJson([k |-> cur.k, l |-> cur.l, age |-> cur.age, exp |-> cur.exp, hosts |-> HostsText,
                                          zones |-> <<Zone(1), Zone(2)>>]))
=============================================================================
