------------------------------- MODULE Rpc -------------------------------
(* evrpc (evrpc.c) client pool + server as a request life-cycle model.

   One event loop holds an evhttp server with an evrpc_base (RPCs "Message",
   whose handler replies with a function of the request, and "NeverReply", whose
   handler keeps the request; a raw evhttp handler that answers junk bytes on the
   path of an RPC "Junk"; nothing registered for "NoSuch") and an evrpc_pool with
   ONE connection to it (so calls queue on the pool).  Every outer step is a
   public call followed by running the loop until nothing more can happen without
   time passing; the specification computes that quiescent state (Settle) and
   predicts every completion-callback invocation and every handler invocation.

   Per call:  client side  new -> queued -> [p_co] -> sent -> [p_ci] -> done
              server side  none -> [p_si] -> (handler) -> [saved] -> [p_so] -> fin
   Hooks (client output/input, server input/output) per call: cont, term,
   pcont / pterm (return EVRPC_PAUSE, later resumed with CONTINUE / TERMINATE).

   Named deviations (evrpc.c behaviour the property leaves open):
     NoRescheduleAfterUnstarted  when a client output hook aborts a call the pool does not
                                 schedule the next queued call (it waits for the next completion / call)
     TimeoutSkipsInputHooks      a timed-out call completes without running the client input hooks
   Generation restriction (NoShare): histories are not extended beyond a state in which a call
   paused in the client output hook coexists with a call on the wire (two requests would share
   the connection's request queue); total virtual time stays below the 50 s HTTP default timeouts.
*)
EXTENDS Integers, Sequences, FiniteSets, TLC, Json

CONSTANTS
  NC,        \* number of calls
  D,         \* bound on Len(hist) (the "init" step included)
  InitMasks, \* scenario variants: bit 1 pool timeout set (T seconds), 2 server port closed (connection refused), 4 hooks installed
  Kinds,     \* subset of {"msg", "never", "junk", "norpc"}
  HookSel,   \* subset of {"co", "ci", "si", "so"}: hooks that may take a non-cont action
  HookActs,  \* subset of {"term", "pcont", "pterm"}
  NContent,  \* request contents 1..NContent
  RawKinds,  \* raw HTTP requests sent to the Message RPC: subset of {"valid", "junk", "empty", "get", "trunc", "wrongtype"}
  Acts       \* subset of {"call", "resume", "adv", "late", "raw"}

VARIABLES st, hist
vars == <<st, hist>>

T == 5                      \* pool timeout in seconds when set
Calls == 1..NC
Bit(m, b) == (m \div b) % 2 = 1
NoHooks == [co |-> "cont", ci |-> "cont", si |-> "cont", so |-> "cont"]

InitCall == [kind |-> "none", c |-> 0, hk |-> NoHooks, cph |-> "new", sph |-> "none", body |-> "none",
             dl |-> -1, comp |-> 0, e |-> 0, rep |-> 0, hinv |-> 0]
InitSt == [made |-> FALSE, tmo |-> FALSE, dead |-> FALSE, hooks |-> FALSE, now |-> 0,
           call |-> [k \in Calls |-> InitCall], ncalls |-> 0, pq |-> <<>>, busy |-> 0,
           log |-> <<>>, rawh |-> 0]

----------------------------------------------------------------------------
(* Each transition function takes and returns a state; `log` collects the
   completion callbacks of the current step. *)
RECURSIVE Sched(_), ClientIn(_, _, _), Complete(_, _, _, _, _)

(* the completion callback runs; resched: evrpc_pool_schedule follows (not after UNSTARTED) *)
Complete(S, k, e, rep, resched) ==
  LET S1 == [S EXCEPT !.call[k].comp = @ + 1, !.call[k].e = e, !.call[k].rep = rep, !.call[k].cph = "done",
                      !.call[k].dl = -1,
                      !.busy = IF S.busy = k THEN 0 ELSE @,
                      !.log = Append(@, [k |-> k, e |-> e, rep |-> rep])]
  IN IF resched THEN Sched(S1) ELSE S1

(* evrpc_reply_done_closure on an answer with the given body *)
Evaluate(S, k, body) ==
  IF body = "reply" THEN Complete(S, k, 0, S.call[k].c, TRUE)      \* reply object == what the handler produced
  ELSE Complete(S, k, 1, 0, TRUE)                                   \* html / junk / nothing: cannot be unmarshalled

(* evrpc_reply_done: the HTTP layer hands over an answer (or the failed request) *)
ClientIn(S, k, body) ==
  LET S1 == [S EXCEPT !.call[k].dl = -1, !.call[k].body = body,
                      !.busy = IF S.busy = k THEN 0 ELSE @]     \* the HTTP layer has already taken the request off the connection
      a == S.call[k].hk.ci
  IN IF ~S.hooks \/ a = "cont" THEN Evaluate(S1, k, body)
     ELSE IF a = "term" THEN Complete(S1, k, 1, 0, TRUE)                       \* EVRPC_STATUS_ERR_HOOKABORTED
     ELSE [S1 EXCEPT !.call[k].cph = "p_ci"]

(* the server's answer travels back; nothing arrives when the client has given up on the call *)
Answer(S, k, body) ==
  LET S1 == [S EXCEPT !.call[k].sph = "fin"]
  IN IF S.call[k].cph = "sent" THEN ClientIn(S1, k, body) ELSE S1

(* evrpc_request_done ... evrpc_request_done_closure *)
ServerDone(S, k) ==
  LET a == S.call[k].hk.so IN
  IF ~S.hooks \/ a = "cont" THEN Answer(S, k, "reply")
  ELSE IF a = "term" THEN Answer(S, k, "html")                                 \* 503
  ELSE [S EXCEPT !.call[k].sph = "p_so"]

(* evrpc_request_cb_closure: unmarshal (well formed by construction) and run the user's handler *)
Handler(S, k) ==
  LET S1 == [S EXCEPT !.call[k].hinv = @ + 1] IN
  IF S.call[k].kind = "msg" THEN ServerDone(S1, k) ELSE [S1 EXCEPT !.call[k].sph = "saved"]

(* the request reaches the server *)
ServerIn(S, k) ==
  LET kind == S.call[k].kind
      a == S.call[k].hk.si
  IN IF S.dead THEN ClientIn(S, k, "none")                   \* connection refused: the request fails
     ELSE IF kind = "norpc" THEN Answer(S, k, "html")        \* 404
     ELSE IF kind = "junk" THEN Answer(S, k, "junk")
     ELSE IF ~S.hooks \/ a = "cont" THEN Handler(S, k)
     ELSE IF a = "term" THEN Answer(S, k, "html")            \* 503
     ELSE [S EXCEPT !.call[k].sph = "p_si"]

(* evrpc_schedule_request_closure: arm the timeout, evhttp_make_request *)
Send(S, k) ==
  ServerIn([S EXCEPT !.call[k].cph = "sent", !.busy = k,
                     !.call[k].dl = IF S.tmo THEN S.now + T ELSE -1], k)

(* evrpc_pool_schedule + evrpc_schedule_request *)
Sched(S) ==
  IF S.pq = <<>> \/ S.busy # 0 THEN S
  ELSE LET k == Head(S.pq)
           S1 == [S EXCEPT !.pq = Tail(@)]
           a == S.call[k].hk.co
       IN IF ~S.hooks \/ a = "cont" THEN Send(S1, k)
          ELSE IF a = "term" THEN Complete(S1, k, 1, 0, FALSE)       \* UNSTARTED; NoRescheduleAfterUnstarted
          ELSE [S1 EXCEPT !.call[k].cph = "p_co"]

(* evrpc_resume_request for the (single) pause of call k; side "c" client / "s" server *)
ResumeOp(S, k, side) ==
  LET cl == S.call[k] IN
  IF side = "c" THEN
    (IF cl.cph = "p_co" THEN (IF cl.hk.co = "pcont" THEN Send(S, k) ELSE Complete(S, k, 1, 0, FALSE))
     ELSE (IF cl.hk.ci = "pcont" THEN Evaluate(S, k, cl.body) ELSE Complete(S, k, 1, 0, TRUE)))
  ELSE
    (IF cl.sph = "p_si" THEN (IF cl.hk.si = "pcont" THEN Handler(S, k) ELSE Answer(S, k, "html"))
     ELSE (IF cl.hk.so = "pcont" THEN Answer(S, k, "reply") ELSE Answer(S, k, "html")))

(* time passes: the (single) call on the wire whose deadline is reached times out *)
AdvOp(S, t) ==
  LET S1 == [S EXCEPT !.now = @ + t]
      due == {k \in Calls : S1.call[k].cph = "sent" /\ S1.call[k].dl >= 0 /\ S1.call[k].dl <= S1.now}
  IN IF due = {} THEN S1
     ELSE LET k == CHOOSE x \in due : TRUE IN Complete(S1, k, 1, 0, TRUE)      \* TimeoutSkipsInputHooks

----------------------------------------------------------------------------
(* Known finding (C43-unstarted-abort-stalls-queue): requests are queued while the connection is idle and
   nothing is paused before sending - the state NoRescheduleAfterUnstarted leads to.  The property forbids
   it (the queued requests never complete); the flag lets the check cut the general corpus just before such
   a step, the canonical scenario of the finding is run separately. *)
Stalled(S) == S.pq # <<>> /\ S.busy = 0 /\ \A k \in Calls : S.call[k].cph # "p_co"
Obs(S) == [ stall |-> IF Stalled(S) THEN 1 ELSE 0,
            done |-> S.log,                                   \* completion callbacks run in this step: call, error?, reply content
            comp |-> [k \in Calls |-> S.call[k].comp],        \* completions so far, per call
            hinv |-> [k \in Calls |-> S.call[k].hinv],        \* server handler invocations so far, per call
            rawh |-> S.rawh ]                                 \* handler invocations caused by raw requests

Step(op, S1) == st' = [S1 EXCEPT !.log = <<>>] /\ hist' = Append(hist, op @@ [o |-> Obs(S1)])

Init0 ==
  /\ ~st.made
  /\ \E m \in InitMasks :
       Step([a |-> "init", m |-> m], [st EXCEPT !.made = TRUE, !.tmo = Bit(m, 1), !.dead = Bit(m, 2), !.hooks = Bit(m, 4)])

HookChoices ==
  {NoHooks} \cup {[NoHooks EXCEPT ![h] = a] : h \in HookSel, a \in HookActs}

Relevant(kind, hk, c) ==
  /\ (kind \in {"junk", "norpc"} => hk.si = "cont" /\ hk.so = "cont")       \* these never reach the rpc server hooks
  /\ (kind = "msg" \/ c = 1)                                                 \* content only matters when it is echoed

CallOp ==
  /\ "call" \in Acts /\ st.made /\ st.ncalls < NC
  /\ \A j \in Calls : st.call[j].cph # "p_co"
  /\ \E kind \in Kinds, hk \in HookChoices, c \in 1..NContent :
       /\ Relevant(kind, hk, c)
       /\ (~st.hooks => hk = NoHooks)
       /\ (st.dead => kind = "msg" /\ hk.si = "cont" /\ hk.so = "cont")
       /\ LET k == st.ncalls + 1
              S1 == [st EXCEPT !.ncalls = k, !.call[k] = [InitCall EXCEPT !.kind = kind, !.c = c, !.hk = hk, !.cph = "queued"],
                               !.pq = Append(@, k)]
          IN Step([a |-> "call", k |-> k, kind |-> kind, c |-> c, hk |-> hk], Sched(S1))

Resume ==
  /\ "resume" \in Acts /\ st.made
  /\ \E k \in Calls :
       \/ st.call[k].cph \in {"p_co", "p_ci"} /\ Step([a |-> "resume", k |-> k, side |-> "c"], ResumeOp(st, k, "c"))
       \/ st.call[k].sph \in {"p_si", "p_so"} /\ Step([a |-> "resume", k |-> k, side |-> "s"], ResumeOp(st, k, "s"))

Adv ==
  /\ "adv" \in Acts /\ st.made
  /\ \E t \in {2, T} : st.now + t <= 40 /\ Step([a |-> "adv", t |-> t], AdvOp(st, t))

(* the server finally answers a NeverReply call (possibly long after the client gave up) *)
Late ==
  /\ "late" \in Acts /\ st.made
  /\ \E k \in Calls : st.call[k].sph = "saved" /\ Step([a |-> "late", k |-> k], ServerDone(st, k))

(* a raw HTTP request to the Message RPC from outside the pool: the handler runs iff it is a well-formed request *)
Raw ==
  /\ "raw" \in Acts /\ st.made /\ ~st.dead
  /\ \E r \in RawKinds :
       LET ok == r = "valid"
           S1 == [st EXCEPT !.rawh = IF ok THEN @ + 1 ELSE @]
       IN /\ st.rawh < 2
          /\ st' = S1
          /\ hist' = Append(hist, [a |-> "raw", r |-> r, o |-> Obs(S1) @@ [code |-> IF ok THEN 200 ELSE 503]])

Init == st = InitSt /\ hist = <<>>
Next == Init0 \/ CallOp \/ Resume \/ Adv \/ Late \/ Raw
Spec == Init /\ [][Next]_vars

----------------------------------------------------------------------------
(* C43 on the abstract state *)
TypeOK == \A k \in Calls : st.call[k].cph \in {"new", "queued", "p_co", "sent", "p_ci", "done"}
                          /\ st.call[k].sph \in {"none", "p_si", "saved", "p_so", "fin"}
ExactlyOnce == \A k \in Calls : /\ st.call[k].comp <= 1
                                /\ (st.call[k].cph = "done" <=> st.call[k].comp = 1)
(* a successful completion carries exactly the reply the handler produced for this request, and only
   when every hook let it pass and the handler ran *)
ReplyEqual == \A k \in Calls : (st.call[k].comp = 1 /\ st.call[k].e = 0) =>
                 /\ st.call[k].rep = st.call[k].c /\ st.call[k].hinv = 1 /\ st.call[k].kind \in {"msg", "never"}
                 /\ (st.hooks => /\ st.call[k].hk.co \in {"cont", "pcont"} /\ st.call[k].hk.si \in {"cont", "pcont"}
                                 /\ st.call[k].hk.so \in {"cont", "pcont"} /\ st.call[k].hk.ci \in {"cont", "pcont"})
HandlerOnlyWellFormed == \A k \in Calls : /\ st.call[k].hinv <= 1
                                          /\ (st.call[k].hinv = 1 => st.call[k].kind \in {"msg", "never"} /\ ~st.dead)
OneOnTheWire == /\ (st.busy # 0 => st.call[st.busy].cph = "sent")
                /\ \A k \in Calls : st.call[k].cph = "sent" => st.busy = k
                /\ \A i \in 1..Len(st.pq) : st.call[st.pq[i]].cph = "queued"
Inv == TypeOK /\ ExactlyOnce /\ ReplyEqual /\ HandlerOnlyWellFormed /\ OneOnTheWire

----------------------------------------------------------------------------
(* states in which a call paused in the client output hook coexists with a call on the wire are not
   extended (the resumed request would share the connection's request queue, which is not modelled) *)
NoShare == ~(st.busy # 0 /\ \E k \in Calls : st.call[k].cph = "p_co")
GenConstraint == Len(hist) <= D /\ NoShare
Emit == (Len(hist) = D) => PrintT(ToJson(hist))
StateView == <<st>>
=============================================================================
