----------------------------- MODULE Listener -----------------------------
(* evconnlistener (listener.c, the event-based implementation) as a state machine.

   One listener on one listening socket.  The kernel's accept queue is the
   sequence `q` of connection ids (clients that connected and have not been
   accepted).  Every public call is one atomic action that appends the call and
   the specification's prediction of everything observable afterwards to
   `hist` (binding G).  event_base_loop(EVLOOP_ONCE|EVLOOP_NONBLOCK), one iteration, is the action Loop:
   when the listener's event is added ("armed") and the queue is not empty the
   body of listener_read_cb runs once (operator ReadStep): accept until the kernel says
   EAGAIN, with the results of accept4 scripted by the scenario:

     ok     pass through to the kernel          zlen   success with addrlen = 0
     nosys  accept4 -> ENOSYS (falls back to accept(); same outcome as ok)
     again / intr / abort     -1 with EAGAIN / EINTR / ECONNABORTED  (retriable)
     emfile / enfile / nomem  -1 with EMFILE / ENFILE / ENOMEM     (non-retriable)

   The accept callback and the error callback perform scripted calls on the
   listener (disable, free, set_cb(NULL), set_cb(other fn), and two-call scripts
   disable / set_cb(NULL) / enable / disable+enable followed by free) - the
   re-entrant paths of the property.

   Named deviations (what the code does where the property leaves it open):
     DropOneWhenNoCb   armed with cb = NULL (set_cb(NULL) after enabling): one run
                       of the read callback accepts ONE connection, closes it and returns.
     NotArmedWithoutCb enable while cb = NULL does not add the event; connections
                       stay in the kernel queue until a callback is set.
*)
EXTENDS Integers, Sequences, FiniteSets, TLC, Json

CONSTANTS
  N,          \* number of client connections available
  D,          \* bound on Len(hist) (the "new" step included)
  NewMasks,   \* set of creation variants: bit 1 CLOSE_ON_FREE, 2 cb given, 4 LEV_OPT_DISABLED,
              \*   8 CLOSE_ON_EXEC, 16 LEAVE_SOCKETS_BLOCKING, 32 THREADSAFE
  Acts,       \* outer ops the generator may use
  AScripts,   \* set of accept scripts usable in a loop step, each encoded as a decimal number whose digits
              \*   (most significant first) are result codes: 1 ok 2 nosys 3 zlen 4 again 5 intr 6 abort 7 emfile
              \*   8 enfile 9 nomem; 0 = empty script (TLC configuration files cannot hold tuples)
  CbActs,     \* actions a callback script may use (besides "none")
  CbPos,      \* a callback script is <<none, ..., none, a>> with the action at position 1..CbPos
  ErrActs     \* actions usable by the error callback (subset of {"none", "disable", "free"})

VARIABLES st, hist
vars == <<st, hist>>

Bit(m, b) == (m \div b) % 2 = 1
Conns == 1..N
OkLike == {"ok", "nosys", "zlen"}
Retriable == {"again", "intr", "abort"}
NonRetriable == {"emfile", "enfile", "nomem"}
CodeName == <<"ok", "nosys", "zlen", "again", "intr", "abort", "emfile", "enfile", "nomem">>
Sat(n) == IF n > 2 THEN 2 ELSE n      \* ghost counters saturate (finite state graph)
RECURSIVE Decode(_)
Decode(n) == IF n = 0 THEN <<>> ELSE Append(Decode(n \div 10), CodeName[n % 10])

InitSt ==
  [ made |-> FALSE, live |-> FALSE, lopen |-> FALSE, en |-> FALSE, armed |-> FALSE, cb |-> 0, ecb |-> 0,
    cof |-> FALSE, ce |-> 0, blk |-> 0,
    nconn |-> 0, conn |-> [c \in Conns |-> "new"], q |-> <<>>,
    \* ghost state for the invariants
    dcount |-> [c \in Conns |-> 0], acc |-> {}, held |-> {}, nonretr |-> 0, errcalls |-> 0 ]

----------------------------------------------------------------------------
(* the listening socket is closed: the kernel resets every connection still queued *)
CloseListenSock(S) ==
  [S EXCEPT !.lopen = FALSE, !.q = <<>>,
            !.conn = [c \in Conns |-> IF \E i \in 1..Len(S.q) : S.q[i] = c THEN "x" ELSE S.conn[c]]]

(* event_listener_destroy: event_del + close iff LEV_OPT_CLOSE_ON_FREE *)
Destroy(S) ==
  LET S1 == [S EXCEPT !.armed = FALSE, !.en = FALSE]
  IN IF S.cof THEN CloseListenSock(S1) ELSE S1

EnableOp(S) == [S EXCEPT !.en = TRUE, !.armed = @ \/ (S.cb # 0)]          \* NotArmedWithoutCb
DisableOp(S) == [S EXCEPT !.en = FALSE, !.armed = FALSE]
SetCbOp(S, x) == IF S.en /\ S.cb = 0 THEN EnableOp([S EXCEPT !.cb = x]) ELSE [S EXCEPT !.cb = x]
(* evconnlistener_free while a callback of the listener is on the stack: the
   reference held by the read callback keeps the object until the callback returns *)
FreeInCb(S) == [S EXCEPT !.live = FALSE, !.cb = 0, !.ecb = 0]
FreeOp(S) == Destroy(FreeInCb(S))

ApplyCbAct(S, a) ==
  CASE a = "disable" -> DisableOp(S)
    [] a = "free" -> FreeInCb(S)
    [] a = "setnull" -> SetCbOp(S, 0)
    [] a = "setfn2" -> SetCbOp(S, 2)
    [] a = "disen" -> EnableOp(DisableOp(S))
    \* two calls from one callback invocation, the second being free (after free the listener must not be touched)
    [] a = "disfree" -> FreeInCb(DisableOp(S))
    [] a = "nullfree" -> FreeInCb(SetCbOp(S, 0))
    [] a = "enfree" -> FreeInCb(EnableOp(S))
    [] a = "disenfree" -> FreeInCb(EnableOp(DisableOp(S)))
    [] OTHER -> S

ErrName(r) == CASE r = "emfile" -> "EMFILE" [] r = "enfile" -> "ENFILE" [] OTHER -> "ENOMEM"

(* listener_read_cb.  R = [s, as, cs, es, log, err]: state, rest of the accept
   script, rest of the callback script, error-callback action, callback log,
   error-callback log. *)
RECURSIVE ReadStep(_)
ReadStep(R) ==
  LET S == R.s
      r == IF R.as = <<>> THEN "ok" ELSE Head(R.as)
      as1 == IF R.as = <<>> THEN <<>> ELSE Tail(R.as)
  IN
  IF r \in OkLike THEN
    IF S.q = <<>> THEN R                                  \* the kernel answers EAGAIN: retriable, return
    ELSE LET c == Head(S.q)
             S1 == [S EXCEPT !.q = Tail(@), !.acc = @ \cup {c}, !.held = @ \cup {c}]      \* accept4 returned a new fd
         IN IF r = "zlen"
            THEN ReadStep([R EXCEPT !.s = [S1 EXCEPT !.conn[c] = "x", !.held = @ \ {c}], !.as = as1])   \* closed, loop continues
            ELSE IF S.cb = 0
            THEN [R EXCEPT !.s = [S1 EXCEPT !.conn[c] = "x", !.held = @ \ {c}], !.as = as1]        \* DropOneWhenNoCb
            ELSE LET a == IF R.cs = <<>> THEN "none" ELSE Head(R.cs)
                     cs1 == IF R.cs = <<>> THEN <<>> ELSE Tail(R.cs)
                     S2 == [S1 EXCEPT !.conn[c] = "d", !.dcount[c] = @ + 1, !.held = @ \ {c}]   \* the fd now belongs to the user
                     S3 == ApplyCbAct(S2, a)
                     R1 == [R EXCEPT !.as = as1, !.cs = cs1,
                                     !.log = Append(@, [c |-> c, f |-> S.cb, nb |-> 1 - S.blk, ce |-> S.ce, ok |-> 1])]
                 IN IF ~S3.live THEN [R1 EXCEPT !.s = Destroy(S3)]             \* freed inside the callback
                    ELSE IF ~S3.en THEN [R1 EXCEPT !.s = S3]                  \* disabled inside the callback
                    ELSE ReadStep([R1 EXCEPT !.s = S3])
  ELSE IF r \in Retriable THEN [R EXCEPT !.as = as1]
  ELSE \* non-retriable error
    IF S.ecb = 0 THEN [R EXCEPT !.as = as1]
    ELSE LET S1 == [S EXCEPT !.nonretr = Sat(@ + 1), !.errcalls = Sat(@ + 1)]
             S2 == ApplyCbAct(S1, R.es)
         IN [R EXCEPT !.as = as1, !.err = Append(@, ErrName(r)),
                      !.s = IF ~S2.live THEN Destroy(S2) ELSE S2]

----------------------------------------------------------------------------
(* Observation after every outer call *)
CState(S, c) == CASE S.conn[c] = "new" -> 0 [] S.conn[c] = "x" -> 2 [] OTHER -> 1
Obs(S, r) ==
  [ r |-> r,
    nfd |-> IF S.lopen THEN 1 ELSE 0,      \* fds owned by the listener (anything more is a leak)
    lo |-> IF S.lopen THEN 1 ELSE 0,       \* the listening socket itself is still open
    cs |-> [c \in Conns |-> CState(S, c)] ]  \* what each client sees: 0 unused, 1 connection open, 2 closed/reset by the peer

----------------------------------------------------------------------------
New ==
  /\ ~st.made
  /\ \E m \in NewMasks :
       LET S0 == [st EXCEPT !.made = TRUE, !.live = TRUE, !.lopen = TRUE, !.cof = Bit(m, 1),
                            !.cb = IF Bit(m, 2) THEN 1 ELSE 0,
                            !.ce = IF Bit(m, 8) THEN 1 ELSE 0, !.blk = IF Bit(m, 16) THEN 1 ELSE 0]
           S1 == IF Bit(m, 4) THEN S0 ELSE EnableOp(S0)
       IN /\ st' = S1
          /\ hist' = Append(hist, [a |-> "new", m |-> m, o |-> Obs(S1, 0)])

Step(op, S1, r) == st' = S1 /\ hist' = Append(hist, op @@ [o |-> Obs(S1, r)])

Connect ==
  /\ "connect" \in Acts /\ st.made /\ st.lopen /\ st.nconn < N
  /\ LET c == st.nconn + 1 IN
     Step([a |-> "connect", c |-> c], [st EXCEPT !.nconn = c, !.conn[c] = "q", !.q = Append(@, c)], 0)

Enable == "enable" \in Acts /\ st.live /\ Step([a |-> "enable"], EnableOp(st), 0)
Disable == "disable" \in Acts /\ st.live /\ Step([a |-> "disable"], DisableOp(st), 0)
SetCb == "setcb" \in Acts /\ st.live /\ \E x \in 0..2 : x # st.cb /\ Step([a |-> "setcb", f |-> x], SetCbOp(st, x), 0)
SetErr == "seterr" \in Acts /\ st.live /\ \E x \in 0..1 : x # st.ecb /\ Step([a |-> "seterr", f |-> x], [st EXCEPT !.ecb = x], 0)
Free == "free" \in Acts /\ st.live /\ Step([a |-> "free"], FreeOp(st), 0)

NumOk(s) == Cardinality({i \in 1..Len(s) : s[i] \in OkLike})
HasNonRetr(s) == \E i \in 1..Len(s) : s[i] \in NonRetriable
CbScripts == {<<>>} \cup {[i \in 1..k |-> IF i = k THEN a ELSE "none"] : k \in 1..CbPos, a \in CbActs}

Loop ==
  /\ "loop" \in Acts /\ st.made
  /\ \E asn \in AScripts, cs \in CbScripts, es \in ErrActs :
       LET runs == st.armed /\ st.q # <<>>
           as == Decode(asn) IN
       \* only scripts that can matter in this state (keeps the generated corpus free of duplicates)
       /\ (as # <<>> => runs /\ NumOk(as) < Len(st.q) + 1)
       /\ (cs # <<>> => runs /\ st.cb # 0 /\ Len(cs) <= Len(st.q))
       /\ (es # "none" => runs /\ st.ecb # 0 /\ HasNonRetr(as))
       /\ LET R0 == [s |-> st, as |-> as, cs |-> cs, es |-> es, log |-> <<>>, err |-> <<>>]
              R == IF runs THEN ReadStep(R0) ELSE R0
          IN /\ st' = R.s
             /\ hist' = Append(hist, [a |-> "loop", as |-> as, cs |-> cs, es |-> es,
                                      o |-> Obs(R.s, 0) @@ [cb |-> R.log, err |-> R.err]])

Init == st = InitSt /\ hist = <<>>
Next == New \/ Connect \/ Enable \/ Disable \/ SetCb \/ SetErr \/ Free \/ Loop
Spec == Init /\ [][Next]_vars

----------------------------------------------------------------------------
(* The property (C44) on the abstract state *)
TypeOK == /\ st.cb \in 0..2 /\ st.ecb \in 0..1 /\ st.nconn \in 0..N
          /\ \A c \in Conns : st.conn[c] \in {"new", "q", "d", "x"}
(* every accepted connection went to the callback exactly once, or was closed; never both, never neither *)
DeliveredExactlyOnceOrClosed ==
  \A c \in Conns :
    /\ st.dcount[c] <= 1
    /\ (c \in st.acc => \/ (st.dcount[c] = 1 /\ st.conn[c] = "d")
                        \/ (st.dcount[c] = 0 /\ st.conn[c] = "x"))
    /\ (c \notin st.acc => st.dcount[c] = 0 /\ st.conn[c] # "d")
NoLeak == st.held = {}
QueueOK == /\ \A i \in 1..Len(st.q) : st.conn[st.q[i]] = "q" /\ st.q[i] \notin st.acc
           /\ \A c \in Conns : st.conn[c] = "q" => \E i \in 1..Len(st.q) : st.q[i] = c
           /\ (st.q # <<>> => st.lopen)
ArmedOK == st.armed => st.en /\ st.live /\ st.lopen
(* nothing is accepted in a step that starts with the listener disabled *)
NothingWhileDisabled == [][(~st.en) => st'.acc = st.acc]_vars
ErrorCbOnNonRetriable == st.errcalls = st.nonretr
SocketClosedIffCloseOnFree ==
  /\ (st.made /\ st.live => st.lopen)
  /\ (st.made /\ ~st.live => (st.lopen <=> ~st.cof))
Inv == TypeOK /\ DeliveredExactlyOnceOrClosed /\ NoLeak /\ QueueOK /\ ArmedOK /\ ErrorCbOnNonRetriable
       /\ SocketClosedIffCloseOnFree

----------------------------------------------------------------------------
GenConstraint == Len(hist) <= D
Emit == (Len(hist) = D) => PrintT(ToJson(hist))
StateView == <<st>>
=============================================================================
