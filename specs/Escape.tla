------------------------------ MODULE Escape ------------------------------
(* Reference definitions of the pure string codecs of http.c (property C29):

     evhttp_uriencode / evhttp_uridecode     Encode / Decode   (RFC 3986 2.1-2.3)
     evhttp_parse_query_str_flags            ParseQuery        (reference splitter)
     evhttp_htmlescape                       HtmlEscape / HtmlUnescape

   Byte strings are sequences of integers 0..255.  The state is a word `w` of
   token indices over an alphabet chosen by Mode; every reachable state is one
   input string (BFS = every word of length <= MaxLen).  The laws of the
   property are TLC invariants over the reference functions; `Emit` prints, for
   every word, the input bytes and the reference results, which the driver
   harness/util_drv.c compares with what the real functions return (binding G).

   Named deviations (behaviour of the code the property text does not fix but
   does not contradict either):
     MalformedEscapeLiteral  a '%' not followed by two hex digits is copied
     TrailingAmpIgnored      a query ending in '&' has no final empty piece
     KeyNotDecoded           only the value of a query pair is percent-decoded
*)
EXTENDS Integers, Sequences, TLC, Json

CONSTANTS Mode,     \* "esc": escaping alphabet; "qchar": query characters; "qpiece": query pieces
          MaxLen    \* maximal number of tokens

VARIABLE w
vars == <<w>>

-----------------------------------------------------------------------------
(* bytes *)
SP == 32   PLUS == 43   PCT == 37   AMP == 38   EQ == 61   SEMI == 59
LT == 60   GT == 62   DQ == 34   SQ == 39   HASH == 35

IsDigit(b) == b >= 48 /\ b <= 57
IsAlpha(b) == (b >= 65 /\ b <= 90) \/ (b >= 97 /\ b <= 122)
Unreserved(b) == IsDigit(b) \/ IsAlpha(b) \/ b \in {45, 46, 95, 126}     \* - . _ ~
IsHex(b) == IsDigit(b) \/ (b >= 65 /\ b <= 70) \/ (b >= 97 /\ b <= 102)
HexVal(b) == IF IsDigit(b) THEN b - 48 ELSE IF b >= 97 THEN b - 87 ELSE b - 55
HexDigit(n) == IF n < 10 THEN 48 + n ELSE 55 + n                       \* upper case

RECURSIVE Flatten(_)
Flatten(ss) == IF ss = <<>> THEN <<>> ELSE Head(ss) \o Flatten(Tail(ss))

Drop(s, n) == SubSeq(s, n + 1, Len(s))
HasNul(s) == \E i \in 1..Len(s) : s[i] = 0

(* index of the first occurrence of byte c in s, 0 if none *)
RECURSIVE IndexFrom(_, _, _)
IndexFrom(s, c, i) == IF i > Len(s) THEN 0 ELSE IF s[i] = c THEN i ELSE IndexFrom(s, c, i + 1)
Index(s, c) == IndexFrom(s, c, 1)

-----------------------------------------------------------------------------
(* percent-encoding *)
Enc1(b, plus) == IF Unreserved(b) THEN <<b>>
                 ELSE IF b = SP /\ plus THEN <<PLUS>>
                 ELSE <<PCT, HexDigit(b \div 16), HexDigit(b % 16)>>
RECURSIVE Encode(_, _)
Encode(s, plus) == IF s = <<>> THEN <<>> ELSE Enc1(Head(s), plus) \o Encode(Tail(s), plus)

RECURSIVE Decode(_, _)
Decode(s, plus) ==
  IF s = <<>> THEN <<>>
  ELSE IF Head(s) = PLUS /\ plus THEN <<SP>> \o Decode(Tail(s), plus)
  ELSE IF Head(s) = PCT /\ Len(s) >= 3 /\ IsHex(s[2]) /\ IsHex(s[3])
       THEN <<16 * HexVal(s[2]) + HexVal(s[3])>> \o Decode(Drop(s, 3), plus)
  ELSE <<Head(s)>> \o Decode(Tail(s), plus)                          \* incl. MalformedEscapeLiteral

(* the output alphabet of the encoder: unreserved, %XX, and '+' only in plus mode *)
RECURSIVE EncAlphabetOK(_, _)
EncAlphabetOK(x, plus) ==
  IF x = <<>> THEN TRUE
  ELSE IF Unreserved(Head(x)) \/ (plus /\ Head(x) = PLUS) THEN EncAlphabetOK(Tail(x), plus)
  ELSE /\ Head(x) = PCT /\ Len(x) >= 3 /\ IsHex(x[2]) /\ IsHex(x[3])
       /\ EncAlphabetOK(Drop(x, 3), plus)

-----------------------------------------------------------------------------
(* HTML escaping *)
Ent(b) == CASE b = LT  -> <<38, 108, 116, 59>>               \* &lt;
            [] b = GT  -> <<38, 103, 116, 59>>               \* &gt;
            [] b = DQ  -> <<38, 113, 117, 111, 116, 59>>     \* &quot;
            [] b = SQ  -> <<38, 35, 48, 51, 57, 59>>         \* &#039;
            [] b = AMP -> <<38, 97, 109, 112, 59>>           \* &amp;
            [] OTHER   -> <<b>>
Markup == {LT, GT, DQ, SQ, AMP}
RECURSIVE HtmlEscape(_)
HtmlEscape(s) == IF s = <<>> THEN <<>> ELSE Ent(Head(s)) \o HtmlEscape(Tail(s))

IsPrefix(p, s) == Len(p) <= Len(s) /\ SubSeq(s, 1, Len(p)) = p
(* inverse; Fail (<<-1>>) if a raw markup character or an unknown entity is met *)
RECURSIVE HtmlUnescape(_)
HtmlUnescape(x) ==
  IF x = <<>> THEN <<>>
  ELSE IF Head(x) = AMP
       THEN LET m == {b \in Markup : IsPrefix(Ent(b), x)}
            IN IF m = {} THEN <<-1>>
               ELSE LET b == CHOOSE c \in m : TRUE
                    IN <<b>> \o HtmlUnescape(Drop(x, Len(Ent(b))))
  ELSE IF Head(x) \in Markup THEN <<-1>>
  ELSE <<Head(x)>> \o HtmlUnescape(Tail(x))

-----------------------------------------------------------------------------
(* query strings *)
RECURSIVE SplitOn(_, _)
SplitOn(s, c) == LET i == Index(s, c)
                 IN IF i = 0 THEN <<s>>
                    ELSE <<SubSeq(s, 1, i - 1)>> \o SplitOn(Drop(s, i), c)
Pieces(s) == LET p == SplitOn(s, AMP)
             IN IF p[Len(p)] = <<>> THEN SubSeq(p, 1, Len(p) - 1) ELSE p    \* TrailingAmpIgnored
KV(piece) == LET i == Index(piece, EQ)
             IN IF i = 0 THEN [k |-> piece, v |-> <<>>, hasv |-> FALSE]
                ELSE [k |-> SubSeq(piece, 1, i - 1), v |-> Drop(piece, i), hasv |-> TRUE]

RECURSIVE RemoveKey(_, _)
RemoveKey(ps, k) == IF ps = <<>> THEN <<>>
                    ELSE IF Head(ps)[1] = k THEN Tail(ps)          \* first match only
                    ELSE <<Head(ps)>> \o RemoveKey(Tail(ps), k)

(* fold the pieces left to right; acc = [rc, pairs] *)
RECURSIVE QFold(_, _, _, _)
QFold(ps, acc, nonconf, last) ==
  IF ps = <<>> THEN acc
  ELSE LET kv == KV(Head(ps))
       IN IF ~nonconf /\ (~kv.hasv \/ kv.k = <<>>) THEN [rc |-> -1, kv |-> <<>>]
          ELSE IF kv.k = <<>> THEN QFold(Tail(ps), acc, nonconf, last)
          ELSE LET pr  == <<kv.k, Decode(kv.v, TRUE)>>                   \* KeyNotDecoded
                   old == IF last THEN RemoveKey(acc.kv, kv.k) ELSE acc.kv
               IN QFold(Tail(ps), [rc |-> 0, kv |-> Append(old, pr)], nonconf, last)

ParseQuery(s, nonconf, last) == QFold(Pieces(s), [rc |-> 0, kv |-> <<>>], nonconf, last)

(* flags value as in event2/http.h: NONCONFORMANT = 1, LAST_VAL = 2 *)
ParseQueryFlags(s, f) == ParseQuery(s, f % 2 = 1, f \div 2 = 1)

RECURSIVE JoinAmp(_)
JoinAmp(ps) == IF ps = <<>> THEN <<>>
               ELSE IF Len(ps) = 1 THEN ps[1] ELSE ps[1] \o <<AMP>> \o JoinAmp(Tail(ps))

-----------------------------------------------------------------------------
(* token alphabets: each token is a byte string *)
EscToks == << <<97>>, <<126>>, <<47>>, <<SP>>, <<PLUS>>, <<PCT>>, <<PCT, 52>>, <<PCT, 122, 122>>,
              <<PCT, 52, 49>>, <<PCT, 97, 70>>, <<195>>, <<LT>>, <<GT>>, <<AMP>>, <<DQ>>, <<SQ>>,
              <<0>>, <<PCT, 48, 48>> >>
(* k j = & ; + %41 %zz v *)
QCharToks == << <<107>>, <<106>>, <<EQ>>, <<AMP>>, <<SEMI>>, <<PLUS>>, <<PCT, 52, 49>>,
                <<PCT, 122, 122>>, <<118>> >>
(* pieces (joined with '&'): "" k k= k=v j=w k=x =v k=v=w k;j=v j=%41+ k=%zz%4 = *)
QPieceToks == << <<>>, <<107>>, <<107, EQ>>, <<107, EQ, 118>>, <<106, EQ, 119>>, <<107, EQ, 120>>,
                 <<EQ, 118>>, <<107, EQ, 118, EQ, 119>>, <<107, SEMI, 106, EQ, 118>>,
                 <<106, EQ, PCT, 52, 49, PLUS>>, <<107, EQ, PCT, 122, 122, PCT, 52>>, <<EQ>> >>

Toks == CASE Mode = "esc" -> EscToks [] Mode = "qchar" -> QCharToks [] Mode = "qpiece" -> QPieceToks

Bytes(word) == IF Mode = "qpiece" THEN JoinAmp([i \in 1..Len(word) |-> Toks[word[i]]])
               ELSE Flatten([i \in 1..Len(word) |-> Toks[word[i]]])
B == Bytes(w)

-----------------------------------------------------------------------------
Init == w = <<>>
Grow == /\ Len(w) < MaxLen
        /\ \E t \in 1..Len(Toks) : w' = Append(w, t)
Next == Grow
Spec == Init /\ [][Next]_vars

-----------------------------------------------------------------------------
(* the laws of C29, decided by TLC on the reference for every word *)
RoundTrip ==
  Mode = "esc" =>
    /\ \A p \in BOOLEAN : Decode(Encode(B, p), p) = B
    /\ Decode(Encode(B, FALSE), TRUE) = B             \* mode 0 never emits a raw '+'
EncAlphabet ==
  Mode = "esc" => \A p \in BOOLEAN : EncAlphabetOK(Encode(B, p), p)
DecodeShrinks ==
  Mode = "esc" => \A p \in BOOLEAN : /\ Len(Decode(B, p)) <= Len(B)
                                     /\ Len(Decode(Encode(B, p), p)) <= Len(Encode(B, p))
HtmlInverse ==
  Mode = "esc" => /\ HtmlUnescape(HtmlEscape(B)) = B
                  /\ \A i \in 1..Len(HtmlEscape(B)) : HtmlEscape(B)[i] \notin (Markup \ {AMP})
(* a value survives the trip through a query string *)
QueryCarriesValue ==
  (Mode = "esc" /\ ~HasNul(B)) =>
     \A f \in 0..3 : ParseQueryFlags(<<107, EQ>> \o Encode(B, TRUE), f) = [rc |-> 0, kv |-> << <<<<107>>, B>> >>]
QueryLaws ==
  Mode # "esc" =>
    LET r == [f \in 0..3 |-> ParseQueryFlags(B, f)]
    IN /\ r[1].rc = 0 /\ r[3].rc = 0                       \* NONCONFORMANT never fails
       /\ (r[0].rc = 0 => r[0].kv = r[1].kv)                \* a conformant query means the same
       /\ r[2].rc = r[0].rc
       /\ (r[0].rc = -1 => (r[0].kv = <<>> /\ r[2].kv = <<>>))
       /\ \A f \in {2, 3} :                                \* LAST_VAL: one pair per key, the last one
            /\ \A i, j \in 1..Len(r[f].kv) : i # j => r[f].kv[i][1] # r[f].kv[j][1]
            /\ \A i \in 1..Len(r[f].kv) :
                 LET k == r[f].kv[i][1]
                     idx == {n \in 1..Len(r[f - 2].kv) : r[f - 2].kv[n][1] = k}
                 IN idx # {} /\ r[f].kv[i] = r[f - 2].kv[CHOOSE n \in idx : \A m \in idx : m <= n]
            /\ \A n \in 1..Len(r[f - 2].kv) : \E i \in 1..Len(r[f].kv) : r[f].kv[i][1] = r[f - 2].kv[n][1]

-----------------------------------------------------------------------------
(* generation: one record per word *)
Rec ==
  IF Mode = "esc"
  THEN IF HasNul(B)
       THEN [i |-> B, nul |-> 1, e0 |-> Encode(B, FALSE), e1 |-> Encode(B, TRUE)]
       ELSE [i |-> B, nul |-> 0, e0 |-> Encode(B, FALSE), e1 |-> Encode(B, TRUE),
             d0 |-> Decode(B, FALSE), d1 |-> Decode(B, TRUE), h |-> HtmlEscape(B)]
  ELSE [i |-> B, q |-> [f \in 1..4 |-> ParseQueryFlags(B, f - 1)]]
Emit == PrintT(ToJson(Rec))
=============================================================================
