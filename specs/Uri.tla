------------------------------- MODULE Uri -------------------------------
(* RFC 3986 URI references as evhttp_uri_parse_with_flags / evhttp_uri_join /
   evhttp_uri_set_* of http.c present them (property C28).

   A URI is a tuple `t` of component tokens
        <<scheme, userinfo, host, port, path, query, fragment>>
   (token tables below, every token with its bytes and including invalid and
   structure-changing ones).  Compose(t) is the input string.  Parse is a
   byte-level reference parser: RFC 3986 appendix B split followed by the
   validity of each component (3.1 - 3.5), under the three public flags
        nc  EVHTTP_URI_NONCONFORMANT        (path/query/fragment characters free)
        sb  EVHTTP_URI_HOST_STRIP_BRACKETS  (IP-literal reported without [])
        ux  EVHTTP_URI_UNIX_SOCKET          ("//[userinfo@]unix:" socket ":" authority)
   Join is RFC 3986 5.3 recomposition.  TLC decides on every enumerated tuple
        RoundTrip       Parse(Join(Parse(s))) = Parse(s)
        GrammarSound    a tuple of valid tokens in a legal combination parses to itself
        SetterLaw       a setter-built URI is representable iff Parse(Join(c)) = c
   (conjoined in the single invariant All so that the parse results of a state are
   computed once) and All prints the reference results which harness/util_drv.c
   compares with the real parser, join and setters (binding G).

   State: the tuple, the number of components changed from the base tuple and the
   base's name; BFS from the bases enumerates every tuple with at most K changed components.

   Named deviations (code behaviour the property does not contradict):
     PortRange          a port above 65535 is rejected (RFC: *DIGIT)
     EmptyPortIsAbsent  "host:" gives port -1, like no port at all
     PortIsNumber       "0080" is port 80
   Left open ("open": nothing is compared): unix-socket authorities that carry
   text after the closing ':' or no closing ':' before a later ':'.
*)
EXTENDS Integers, Sequences, TLC, Json

CONSTANTS K,        \* maximal number of components that differ from the base tuple
          Bases     \* set of base tuples to start from: subset of {"url", "rel", "unix"}

VARIABLES t, d, bn      \* tuple, number of changed components, name of the base tuple
vars == <<t, d, bn>>

-----------------------------------------------------------------------------
Null == <<-1>>                       \* an absent component (NULL pointer)
COLON == 58  SLASH == 47  QM == 63  HASH == 35  AT == 64  LB == 91  RB == 93  PCT == 37  DOT == 46

IsDigit(b) == b >= 48 /\ b <= 57
IsAlpha(b) == (b >= 65 /\ b <= 90) \/ (b >= 97 /\ b <= 122)
IsHex(b) == IsDigit(b) \/ (b >= 65 /\ b <= 70) \/ (b >= 97 /\ b <= 102)
Unres(b) == IsDigit(b) \/ IsAlpha(b) \/ b \in {45, 46, 95, 126}
SubDelim(b) == b \in {33, 36, 38, 39, 40, 41, 42, 43, 44, 59, 61}       \* ! $ & ' ( ) * + , ; =

Drop(s, n) == SubSeq(s, n + 1, Len(s))
IsPrefix(p, s) == Len(p) <= Len(s) /\ SubSeq(s, 1, Len(p)) = p

RECURSIVE FirstFrom(_, _, _)
FirstFrom(s, set, i) == IF i > Len(s) THEN 0 ELSE IF s[i] \in set THEN i ELSE FirstFrom(s, set, i + 1)
FirstOf(s, set) == FirstFrom(s, set, 1)

(* every character is unreserved / sub-delim / in `extra`, or starts a %XX triple (if pct) *)
RECURSIVE CharsOK(_, _, _, _)
CharsOK(s, i, extra, pct) ==
  IF i > Len(s) THEN TRUE
  ELSE IF Unres(s[i]) \/ SubDelim(s[i]) \/ s[i] \in extra THEN CharsOK(s, i + 1, extra, pct)
  ELSE IF pct /\ s[i] = PCT /\ i + 2 <= Len(s) /\ IsHex(s[i + 1]) /\ IsHex(s[i + 2]) THEN CharsOK(s, i + 3, extra, pct)
  ELSE FALSE

SchemeOK(s) == /\ Len(s) > 0 /\ IsAlpha(s[1])
               /\ \A i \in 2..Len(s) : IsAlpha(s[i]) \/ IsDigit(s[i]) \/ s[i] \in {43, 45, 46}
UserinfoOK(s) == CharsOK(s, 1, {COLON}, TRUE)
RegNameOK(s) == CharsOK(s, 1, {}, TRUE)
PChars == {COLON, AT, SLASH}
PathOK(s, nc) == nc \/ CharsOK(s, 1, PChars, TRUE)            \* nc: free (the split already removed ? and #)
QueryOK(s, nc) == nc \/ CharsOK(s, 1, PChars \cup {QM}, TRUE)
FragOK(s, nc) == nc \/ CharsOK(s, 1, PChars \cup {QM}, TRUE)

(* IPv6 validity is decided by Inet.tla (C40); here a closed table: every bracketed
   text the token tables can produce is listed as valid or is invalid *)
ValidIP6 == { <<58, 58, 49>>,                       \* ::1
              <<49, 58, 58, 50, 58, 51>> }          \* 1::2:3
IPvFutureOK(x) ==        \* "v" 1*HEXDIG "." 1*( unreserved / sub-delims / ":" )
  LET k == FirstOf(x, {DOT})
  IN /\ Len(x) >= 4 /\ x[1] = 118 /\ k >= 3 /\ k < Len(x)
     /\ \A i \in 2..(k - 1) : IsHex(x[i])
     /\ CharsOK(Drop(x, k), 1, {COLON}, FALSE)
Bracketed(h) == Len(h) >= 2 /\ h[1] = LB /\ h[Len(h)] = RB
Inner(h) == SubSeq(h, 2, Len(h) - 1)
HostOK(h) == IF Bracketed(h)
             THEN (IF Len(h) > 2 /\ h[2] = 118 THEN IPvFutureOK(Inner(h)) ELSE Inner(h) \in ValidIP6)
             ELSE RegNameOK(h)

(* decimal value of a digit string, -2 when above 65535 (PortRange) *)
RECURSIVE PortFrom(_, _, _)
PortFrom(s, i, v) == IF i > Len(s) THEN v
                     ELSE LET n == 10 * v + (s[i] - 48) IN IF n > 65535 THEN -2 ELSE PortFrom(s, i + 1, n)
RECURSIVE TrailingDigits(_, _)
TrailingDigits(s, i) == IF i >= 1 /\ IsDigit(s[i]) THEN TrailingDigits(s, i - 1) ELSE i   \* index before the digit run

RECURSIVE Dec(_)
Dec(n) == IF n < 10 THEN <<48 + n>> ELSE Dec(n \div 10) \o <<48 + (n % 10)>>

-----------------------------------------------------------------------------
(* authority *)
UNIXP == <<117, 110, 105, 120, 58>>       \* "unix:"

Reject == [st |-> "reject"]
Open == [st |-> "open"]
(* [host ":" port] -> Reject or [st |-> "ok", ...] *)
HostPort(hp, sb) ==
  LET j == TrailingDigits(hp, Len(hp))
      hasPort == j >= 1 /\ hp[j] = COLON
      h == IF hasPort THEN SubSeq(hp, 1, j - 1) ELSE hp
      p == IF hasPort THEN PortFrom(hp, j + 1, 0) ELSE -1
      pv == IF hasPort /\ j = Len(hp) THEN -1 ELSE p                  \* EmptyPortIsAbsent
  IN IF pv = -2 \/ ~HostOK(h) THEN Reject
     ELSE [st |-> "ok", h |-> IF sb /\ Bracketed(h) THEN Inner(h) ELSE h, p |-> pv, br |-> sb /\ Bracketed(h)]

(* r = text after "//"; result: Reject | Open | [st |-> "ok", u, h, p, x, br, rest, slash] *)
Authority(r, sb, ux) ==
  LET e == FirstOf(r, {SLASH, QM, HASH})
      a == IF e = 0 THEN r ELSE SubSeq(r, 1, e - 1)              \* RFC authority segment
      at == FirstOf(a, {AT})
      u == IF at = 0 THEN Null ELSE SubSeq(a, 1, at - 1)
      hp == Drop(a, at)
      afterAt == Drop(r, at)
  IN IF u # Null /\ ~UserinfoOK(u) THEN Reject
     ELSE IF ux /\ IsPrefix(UNIXP, afterAt)
     THEN (* unix form: the socket path runs to the next ':' and may contain '/' *)
          LET body == Drop(afterAt, 5)
              c == FirstOf(body, {COLON})
              sock == SubSeq(body, 1, c - 1)
              rest == Drop(body, c)
          IN IF c = 0 THEN Reject
             ELSE IF FirstOf(sock, {QM, HASH}) # 0 THEN Open
             ELSE IF rest # <<>> /\ rest[1] \notin {SLASH, QM, HASH} THEN Open
             ELSE [st |-> "ok", u |-> u, h |-> Null, p |-> -1, x |-> sock, br |-> FALSE, rest |-> rest,
                   slash |-> FirstOf(sock, {SLASH}) # 0]
     ELSE LET r2 == HostPort(hp, sb)
          IN IF r2.st # "ok" THEN Reject
             ELSE [st |-> "ok", u |-> u, h |-> r2.h, p |-> r2.p, x |-> Null, br |-> r2.br,
                   rest |-> IF e = 0 THEN <<>> ELSE Drop(r, e - 1), slash |-> FALSE]

NoSchemePathOK(pa) == LET c == FirstOf(pa, {COLON})
                          s == FirstOf(pa, {SLASH})
                      IN c = 0 \/ (s # 0 /\ s < c)

(* Parse: Reject | Open | [st |-> "ok", s, u, h, p, x, pa, q, f, br, slash] *)
Parse(str, nc, sb, ux) ==
  LET dl == FirstOf(str, {COLON, SLASH, QM, HASH})
      hasS == dl > 0 /\ str[dl] = COLON
      sch == IF hasS THEN SubSeq(str, 1, dl - 1) ELSE Null
      r1 == IF hasS THEN Drop(str, dl) ELSE str
      hasA == Len(r1) >= 2 /\ r1[1] = SLASH /\ r1[2] = SLASH
      au == IF hasA THEN Authority(Drop(r1, 2), sb, ux)
            ELSE [st |-> "ok", u |-> Null, h |-> Null, p |-> -1, x |-> Null, br |-> FALSE, rest |-> r1, slash |-> FALSE]
  IN IF hasS /\ ~SchemeOK(sch) THEN Reject
     ELSE IF au.st # "ok" THEN au
     ELSE LET r3 == au.rest
              pe == FirstOf(r3, {QM, HASH})
              pa == IF pe = 0 THEN r3 ELSE SubSeq(r3, 1, pe - 1)
              r4 == IF pe = 0 THEN <<>> ELSE Drop(r3, pe - 1)           \* starts with ? or # or empty
              hasQ == r4 # <<>> /\ r4[1] = QM
              qe == IF hasQ THEN FirstOf(r4, {HASH}) ELSE 0
              q == IF ~hasQ THEN Null ELSE IF qe = 0 THEN Drop(r4, 1) ELSE SubSeq(r4, 2, qe - 1)
              r5 == IF hasQ THEN (IF qe = 0 THEN <<>> ELSE Drop(r4, qe - 1)) ELSE r4
              hasF == r5 # <<>> /\ r5[1] = HASH
              f == IF hasF THEN Drop(r5, 1) ELSE Null
          IN IF \/ ~PathOK(pa, nc)
                \/ (hasQ /\ ~QueryOK(q, nc))
                \/ (hasF /\ ~FragOK(f, nc))
                \/ (hasA /\ pa # <<>> /\ pa[1] # SLASH)
                \/ (~hasA /\ Len(pa) >= 2 /\ pa[1] = SLASH /\ pa[2] = SLASH)
                \/ (~hasS /\ ~NoSchemePathOK(pa))
             THEN [st |-> "reject", slash |-> au.slash]      \* keeps the known-finding trigger visible
             ELSE [st |-> "ok", s |-> sch, u |-> au.u, h |-> au.h, p |-> au.p, x |-> au.x, pa |-> pa, q |-> q, f |-> f,
                   br |-> au.br, slash |-> au.slash]

(* RFC 3986 5.3 recomposition of a component record *)
Join(c) ==
  (IF c.s # Null THEN c.s \o <<COLON>> ELSE <<>>)
  \o (IF c.x # Null
      THEN <<SLASH, SLASH>> \o (IF c.u # Null THEN c.u \o <<AT>> ELSE <<>>) \o UNIXP \o c.x \o <<COLON>>
      ELSE IF c.h # Null
      THEN <<SLASH, SLASH>> \o (IF c.u # Null THEN c.u \o <<AT>> ELSE <<>>)
           \o (IF c.br THEN <<LB>> \o c.h \o <<RB>> ELSE c.h)
           \o (IF c.p >= 0 THEN <<COLON>> \o Dec(c.p) ELSE <<>>)
      ELSE <<>>)
  \o (IF c.pa # Null THEN c.pa ELSE <<>>)
  \o (IF c.q # Null THEN <<QM>> \o c.q ELSE <<>>)
  \o (IF c.f # Null THEN <<HASH>> \o c.f ELSE <<>>)

IsRec(r) == r.st = "ok"
Pub(c) == [s |-> c.s, u |-> c.u, h |-> c.h, p |-> c.p, x |-> c.x, pa |-> c.pa, q |-> c.q, f |-> c.f]

-----------------------------------------------------------------------------
(* token tables; index 1 is never special, Base picks the defaults *)
S(str) == str      \* readability only
SchemeT == << [k |-> "v", b |-> <<104, 116, 116, 112>>],                 \* http
              [k |-> "none", b |-> <<>>],
              [k |-> "v", b |-> <<97, 43, 45, 46, 49>>],                  \* a+-.1
              [k |-> "v", b |-> <<49, 97>>],                              \* 1a      (invalid)
              [k |-> "v", b |-> <<>>],                                    \* ""      (invalid)
              [k |-> "v", b |-> <<104, 126>>] >>                          \* h~      (invalid)
UserT ==   << [k |-> "none", b |-> <<>>],
              [k |-> "v", b |-> <<117>>],                                 \* u
              [k |-> "v", b |-> <<117, 58, 112>>],                        \* u:p
              [k |-> "v", b |-> <<117, 37, 52, 49>>],                     \* u%41
              [k |-> "v", b |-> <<117, 37, 52>>],                         \* u%4     (invalid)
              [k |-> "v", b |-> <<>>],                                    \* ""
              [k |-> "v", b |-> <<117, 64, 118>>],                        \* u@v     (invalid)
              [k |-> "v", b |-> <<117, 47>>] >>                           \* u/      (ends the authority)
HostT ==   << [k |-> "v", b |-> <<104, 46, 101, 120>>],                   \* h.ex
              [k |-> "none", b |-> <<>>],
              [k |-> "v", b |-> <<>>],                                    \* ""
              [k |-> "v", b |-> <<49, 46, 50, 46, 51, 46, 52>>],          \* 1.2.3.4
              [k |-> "v", b |-> <<91, 58, 58, 49, 93>>],                  \* [::1]
              [k |-> "v", b |-> <<91, 118, 49, 46, 120, 58, 121, 93>>],   \* [v1.x:y]
              [k |-> "v", b |-> <<91, 58, 58, 103, 93>>],                 \* [::g]   (invalid)
              [k |-> "v", b |-> <<104, 37, 52, 49>>],                     \* h%41
              [k |-> "v", b |-> <<104, 37, 52, 122>>],                    \* h%4z    (invalid)
              [k |-> "v", b |-> <<104, 32, 105>>],                        \* h i     (invalid)
              [k |-> "v", b |-> <<91, 49, 58, 58, 50, 58, 51, 93>>],      \* [1::2:3]
              [k |-> "v", b |-> <<91, 58, 58, 49>>],                      \* [::1    (invalid)
              [k |-> "v", b |-> <<72, 45, 49, 95, 126, 33, 36, 38, 39, 40, 41, 42, 43, 44, 59, 61>>],  \* H-1_~!$&'()*+,;=
              [k |-> "v", b |-> <<91, 118, 122, 46, 120, 93>>],           \* [vz.x]  (invalid)
              [k |-> "unix", b |-> <<114, 46, 115>>],                     \* unix:r.s:
              [k |-> "unix", b |-> <<>>],                                 \* unix::
              [k |-> "unix", b |-> <<47, 116, 47, 115>>],                 \* unix:/t/s:
              [k |-> "unixnc", b |-> <<110, 99>>] >>                      \* unix:nc   (no closing colon)
PortT ==   << [k |-> "none", b |-> <<>>, n |-> -1],
              [k |-> "v", b |-> <<>>, n |-> -1],                          \* ":"
              [k |-> "v", b |-> <<48>>, n |-> 0],
              [k |-> "v", b |-> <<56, 48>>, n |-> 80],
              [k |-> "v", b |-> <<54, 53, 53, 51, 53>>, n |-> 65535],
              [k |-> "v", b |-> <<54, 53, 53, 51, 54>>, n |-> 65536],
              [k |-> "v", b |-> <<56, 97>>, n |-> -1],                    \* 8a      (invalid)
              [k |-> "v", b |-> <<48, 48, 56, 48>>, n |-> 80] >>          \* 0080
PathT ==   << [k |-> "v", b |-> <<47, 97, 47, 98>>],                      \* /a/b
              [k |-> "v", b |-> <<>>],
              [k |-> "v", b |-> <<47>>],
              [k |-> "v", b |-> <<47, 47, 120>>],                         \* //x
              [k |-> "v", b |-> <<97, 47, 98>>],                          \* a/b
              [k |-> "v", b |-> <<97, 58, 98>>],                          \* a:b
              [k |-> "v", b |-> <<47, 97, 37, 52, 49>>],                  \* /a%41
              [k |-> "v", b |-> <<47, 97, 37, 52>>],                      \* /a%4    (invalid unless nc)
              [k |-> "v", b |-> <<47, 97, 32, 98>>],                      \* /a b    (invalid unless nc)
              [k |-> "v", b |-> <<47, 97, 91>>],                          \* /a[     (invalid unless nc)
              [k |-> "v", b |-> <<47, 58, 64, 33, 36, 38, 39, 40, 41, 42, 43, 44, 59, 61, 45, 46, 95, 126>>],
              [k |-> "v", b |-> <<97, 47, 98, 58, 99>>],                  \* a/b:c
              [k |-> "v", b |-> <<47, 195, 169>>] >>                      \* / 0xC3 0xA9 (invalid unless nc)
QueryT ==  << [k |-> "none", b |-> <<>>],
              [k |-> "v", b |-> <<>>],
              [k |-> "v", b |-> <<107, 61, 118>>],                        \* k=v
              [k |-> "v", b |-> <<97, 63, 98, 47, 99, 58, 64>>],          \* a?b/c:@
              [k |-> "v", b |-> <<97, 32, 98>>],                          \* a b     (invalid unless nc)
              [k |-> "v", b |-> <<37, 122, 122>>],                        \* %zz     (invalid unless nc)
              [k |-> "v", b |-> <<97, 91, 98, 93>>] >>                    \* a[b]    (invalid unless nc)
FragT ==   << [k |-> "none", b |-> <<>>],
              [k |-> "v", b |-> <<>>],
              [k |-> "v", b |-> <<102>>],                                 \* f
              [k |-> "v", b |-> <<102, 63, 47>>],                         \* f?/
              [k |-> "v", b |-> <<102, 35, 103>>],                        \* f#g     (invalid unless nc)
              [k |-> "v", b |-> <<102, 32, 103>>],                        \* f g     (invalid unless nc)
              [k |-> "v", b |-> <<37, 52>>] >>                            \* %4      (invalid unless nc)
Tables == <<SchemeT, UserT, HostT, PortT, PathT, QueryT, FragT>>

Tok(tt, p) == Tables[p][tt[p]]
HasAuth(tt) == Tok(tt, 3).k # "none"
IsUnixTok(tt) == Tok(tt, 3).k \in {"unix", "unixnc"}

(* the input string of a tuple *)
Compose(tt) ==
  (IF Tok(tt, 1).k = "none" THEN <<>> ELSE Tok(tt, 1).b \o <<COLON>>)
  \o (IF ~HasAuth(tt) THEN <<>>
      ELSE <<SLASH, SLASH>>
           \o (IF Tok(tt, 2).k = "none" THEN <<>> ELSE Tok(tt, 2).b \o <<AT>>)
           \o (CASE Tok(tt, 3).k = "unix" -> UNIXP \o Tok(tt, 3).b \o <<COLON>>
                 [] Tok(tt, 3).k = "unixnc" -> UNIXP \o Tok(tt, 3).b
                 [] OTHER -> Tok(tt, 3).b)
           \o (IF Tok(tt, 4).k = "none" THEN <<>> ELSE <<COLON>> \o Tok(tt, 4).b))
  \o Tok(tt, 5).b
  \o (IF Tok(tt, 6).k = "none" THEN <<>> ELSE <<QM>> \o Tok(tt, 6).b)
  \o (IF Tok(tt, 7).k = "none" THEN <<>> ELSE <<HASH>> \o Tok(tt, 7).b)

B == Compose(t)
BaseOf(n) == CASE n = "url"  -> <<1, 1, 1, 1, 1, 1, 1>>      \* http://h.ex/a/b
               [] n = "rel"  -> <<2, 1, 2, 1, 5, 1, 1>>      \* a/b
               [] n = "unix" -> <<1, 1, 15, 1, 1, 1, 1>>     \* http://unix:r.s:/a/b
Base == BaseOf(bn)
FlagSets == 0..7                         \* bit 0 nc, bit 1 sb, bit 2 ux
NC(fl) == fl % 2 = 1
SBf(fl) == (fl \div 2) % 2 = 1
UX(fl) == fl \div 4 = 1
ParseF(str, fl) == Parse(str, NC(fl), SBf(fl), UX(fl))
(* public flag word of event2/http.h: NONCONFORMANT 0x01, HOST_STRIP_BRACKETS 0x04, UNIX_SOCKET 0x08 *)
PubFlags(fl) == (IF NC(fl) THEN 1 ELSE 0) + (IF SBf(fl) THEN 4 ELSE 0) + (IF UX(fl) THEN 8 ELSE 0)

-----------------------------------------------------------------------------
Init == \E n \in Bases : bn = n /\ t = BaseOf(n) /\ d = 0
Change == /\ d < K
          /\ \E p \in 1..7 : /\ t[p] = Base[p]
                             /\ \E v \in 1..Len(Tables[p]) : v # Base[p] /\ t' = [t EXCEPT ![p] = v]
          /\ d' = d + 1 /\ bn' = bn
Next == Change
Spec == Init /\ [][Next]_vars

-----------------------------------------------------------------------------
(* laws of the reference *)
PR == [fl \in FlagSets |-> ParseF(B, fl)]
RoundTripP(pr) ==
  \A fl \in FlagSets :
    LET r == pr[fl]
    IN IsRec(r) => LET r2 == ParseF(Join(r), fl) IN IsRec(r2) /\ Pub(r2) = Pub(r)

(* a tuple built from valid tokens in a legal combination parses (flags 0) to its own components *)
ValidTok(tt) ==
  /\ (Tok(tt, 1).k = "v" => SchemeOK(Tok(tt, 1).b))
  /\ (HasAuth(tt) => /\ ~IsUnixTok(tt)
                     /\ (Tok(tt, 2).k = "v" => UserinfoOK(Tok(tt, 2).b) /\ FirstOf(Tok(tt, 2).b, {SLASH, AT}) = 0)
                     /\ HostOK(Tok(tt, 3).b)
                     /\ (Tok(tt, 4).k = "v" => \A i \in 1..Len(Tok(tt, 4).b) : IsDigit(Tok(tt, 4).b[i]))
                     /\ Tok(tt, 4).n <= 65535
                     /\ (Tok(tt, 5).b = <<>> \/ Tok(tt, 5).b[1] = SLASH))
  /\ PathOK(Tok(tt, 5).b, FALSE)
  /\ (~HasAuth(tt) => ~IsPrefix(<<SLASH, SLASH>>, Tok(tt, 5).b))
  /\ (Tok(tt, 1).k = "none" => NoSchemePathOK(Tok(tt, 5).b))
  /\ (Tok(tt, 6).k = "v" => QueryOK(Tok(tt, 6).b, FALSE))
  /\ (Tok(tt, 7).k = "v" => FragOK(Tok(tt, 7).b, FALSE))
OwnComponents(tt) ==
  [s |-> IF Tok(tt, 1).k = "none" THEN Null ELSE Tok(tt, 1).b,
   u |-> IF HasAuth(tt) /\ Tok(tt, 2).k = "v" THEN Tok(tt, 2).b ELSE Null,
   h |-> IF HasAuth(tt) THEN Tok(tt, 3).b ELSE Null,
   p |-> IF HasAuth(tt) THEN Tok(tt, 4).n ELSE -1,
   x |-> Null,
   pa |-> Tok(tt, 5).b,
   q |-> IF Tok(tt, 6).k = "none" THEN Null ELSE Tok(tt, 6).b,
   f |-> IF Tok(tt, 7).k = "none" THEN Null ELSE Tok(tt, 7).b]
RoundTrip == RoundTripP(PR)
GrammarSoundP(pr) ==
  LET r == pr[0]
  IN ValidTok(t) => (IsRec(r) /\ Pub(r) = OwnComponents(t))

-----------------------------------------------------------------------------
(* setters: evhttp_uri_new, set_flags(fl), then one setter per component *)
SetVal(tt, p) == IF Tok(tt, p).k = "none" THEN Null ELSE Tok(tt, p).b
SetterArgs(tt) ==
  [s |-> SetVal(tt, 1), u |-> SetVal(tt, 2),
   h |-> IF Tok(tt, 3).k = "v" THEN Tok(tt, 3).b ELSE Null,
   x |-> IF Tok(tt, 3).k = "unix" THEN Tok(tt, 3).b ELSE Null,
   p |-> Tok(tt, 4).n, pa |-> SetVal(tt, 5), q |-> SetVal(tt, 6), f |-> SetVal(tt, 7)]
(* which setters accept (0) or refuse (-1) *)
SetterRc(a, fl) ==
  [s |-> IF a.s = Null \/ SchemeOK(a.s) THEN 0 ELSE -1,
   u |-> IF a.u = Null \/ UserinfoOK(a.u) THEN 0 ELSE -1,
   h |-> IF a.h = Null \/ HostOK(a.h) THEN 0 ELSE -1,
   x |-> 0,
   p |-> 0,
   pa |-> IF a.pa = Null \/ (PathOK(a.pa, NC(fl)) /\ (NC(fl) => FirstOf(a.pa, {QM, HASH}) = 0)) THEN 0 ELSE -1,
   q |-> IF a.q = Null \/ (QueryOK(a.q, NC(fl)) /\ (NC(fl) => FirstOf(a.q, {HASH}) = 0)) THEN 0 ELSE -1,
   f |-> IF a.f = Null \/ FragOK(a.f, NC(fl)) THEN 0 ELSE -1]
(* the components the getters report afterwards: a refused setter leaves the component absent *)
SetterComps(a, fl) ==
  LET rc == SetterRc(a, fl)
      h0 == IF rc.h = 0 THEN a.h ELSE Null
  IN [s |-> IF rc.s = 0 THEN a.s ELSE Null, u |-> IF rc.u = 0 THEN a.u ELSE Null,
      h |-> IF h0 # Null /\ SBf(fl) /\ Bracketed(h0) THEN Inner(h0) ELSE h0,
      p |-> a.p, x |-> a.x,
      pa |-> IF rc.pa = 0 THEN a.pa ELSE Null, q |-> IF rc.q = 0 THEN a.q ELSE Null,
      f |-> IF rc.f = 0 THEN a.f ELSE Null,
      br |-> h0 # Null /\ SBf(fl) /\ Bracketed(h0), slash |-> FALSE, st |-> "ok"]
GrammarSound == GrammarSoundP(PR)
NormPath(c) == [c EXCEPT !.pa = IF c.pa = Null THEN <<>> ELSE c.pa]
(* is there a string that parses back to exactly these components?  (SetterLaw: by RoundTrip and
   Join being the only recomposition, that is the case iff Join(c) does) *)
Representable(c, fl) == LET r == ParseF(Join(c), fl) IN IsRec(r) /\ Pub(r) = Pub(NormPath(c))
(* why not: the classes of unrepresentable component sets *)
ReasonR(c, fl, rep) ==
  IF rep THEN "ok"
  ELSE IF c.x # Null /\ c.pa # Null /\ c.pa # <<>> /\ c.pa[1] # SLASH THEN "unix-relative-path"
  ELSE IF c.h # Null /\ c.pa # Null /\ c.pa # <<>> /\ c.pa[1] # SLASH THEN "authority-relative-path"
  ELSE IF c.h = Null /\ c.x = Null /\ (c.u # Null \/ c.p >= 0) THEN "userinfo-or-port-without-host"
  ELSE IF c.p > 65535 THEN "port-range"
  ELSE IF c.h = Null /\ c.x = Null /\ c.pa # Null /\ IsPrefix(<<SLASH, SLASH>>, c.pa) THEN "no-authority-double-slash"
  ELSE IF c.s = Null /\ c.pa # Null /\ ~NoSchemePathOK(c.pa) THEN "no-scheme-colon"
  ELSE "other"
(* the setter corpus: unix sockets only with the flag, never together with a port *)
SetterCase(tt, fl) == /\ Tok(tt, 3).k # "unixnc"
                      /\ (Tok(tt, 3).k = "unix" => UX(fl) /\ Tok(tt, 4).n = -1)
Reason(c, fl) == ReasonR(c, fl, Representable(c, fl))
(* per flag set: the setter-built components and why they are (not) representable *)
SR == [fl \in FlagSets |-> IF SetterCase(t, fl)
                            THEN LET c == SetterComps(SetterArgs(t), fl) IN [c |-> c, why |-> Reason(c, fl)]
                            ELSE [why |-> "skip"]]
SetterLawP(sr) == \A fl \in FlagSets : sr[fl].why # "other"
SetterLaw == SetterLawP(SR)

-----------------------------------------------------------------------------
(* generation *)
Out(r) == IF IsRec(r) THEN [st |-> "ok", c |-> Pub(r), slash |-> IF r.slash THEN 1 ELSE 0] ELSE [st |-> r.st, slash |-> IF "slash" \in DOMAIN r /\ r.slash THEN 1 ELSE 0]
ParseRecP(pr) == [i |-> B, fl |-> [n \in 1..8 |-> PubFlags(n - 1)], r |-> [n \in 1..8 |-> Out(pr[n - 1])]]
SetOutP(fl, sr) ==
  IF sr[fl].why = "skip" THEN [fl |-> -1]
  ELSE LET a == SetterArgs(t)
           c == sr[fl].c
       IN [fl |-> PubFlags(fl), a |-> a, rc |-> SetterRc(a, fl), c |-> Pub(c), why |-> sr[fl].why,
           rp |-> Pub(NormPath(c)), slash |-> IF c.x # Null /\ FirstOf(c.x, {SLASH}) # 0 THEN 1 ELSE 0]
SetRecP(sr) == [n \in 1..8 |-> SetOutP(n - 1, sr)]
(* one invariant: the three laws and the emission share the parse results of the state *)
(* (\E x \in {e} : ...) rather than LET: TLC evaluates e once and binds the value *)
All == \E pr \in {PR} : \E sr \in {SR} :
          /\ RoundTripP(pr) /\ GrammarSoundP(pr) /\ SetterLawP(sr)
          /\ PrintT(ToJson([p |-> ParseRecP(pr), s |-> SetRecP(sr)]))
=============================================================================
