CONSTANTS
  Ev = {e1, e2}
  W = {w1, w2}
  MaxOps = 1
  NotifyBug = "none"
  None = None
SPECIFICATION Spec
INVARIANT TypeOK
INVARIANT DelWaits1
INVARIANT DelWaits2
INVARIANT NotifyConsistent
PROPERTY NoLostWakeup
PROPERTY TimersFire
PROPERTY BreakEnds
CHECK_DEADLOCK TRUE
