CONSTANTS Ops = {"raise"}
INIT Init
NEXT Next
INVARIANT ChildStartsClean
PROPERTY NoCrossTalk
CHECK_DEADLOCK FALSE
