-------------------------- MODULE RateLimit_Trace --------------------------
(***************************************************************************)
(* Binding V for C22: validates an ndjson trace recorded by                *)
(* harness/ratelim_drv.c from the real library against the token-bucket    *)
(* model of RateLimit.tla (same Refill / RlimMax definitions, both         *)
(* directions).  The trace is a deterministic fold: every event either     *)
(* updates the specification's state or is checked against it; the first   *)
(* disagreement is stored in `bad` and reported through the invariant      *)
(* NoViolation.  Many executions are concatenated with "reset" events.     *)
(*                                                                         *)
(* Events (t = tick number relative to the start of the execution):        *)
(*   reset nb rf         new execution with bufferevents 1..nb (rf = 0: the *)
(*                       peer sends nothing)                               *)
(*   setcfg b rr rb wr wb  bufferevent_set_rate_limit (rr = 0: NULL)       *)
(*   setmax b d m        bufferevent_set_max_single_read/write             *)
(*   group rr rb wr wb ms  rate-limit group created, min_share ms          *)
(*   gsetcfg rr rb wr wb   bufferevent_rate_limit_group_set_cfg            *)
(*   join b / leave b                                                      *)
(*   dec b d k           bufferevent_decrement_read/write_limit            *)
(*   io b d n            one read (d=0) / write (d=1) operation moved n    *)
(*   obs lv mx gl gs     after every step: own bucket levels, budget       *)
(*                       (bufferevent_get_max_to_read/write), group bucket *)
(*                       levels and group suspended flags                  *)
(* The group bucket is refilled by a timer inside the library; its level   *)
(* and suspended flag are therefore taken from the observations            *)
(* (environment truth) and only the *use* made of them is checked.         *)
(***************************************************************************)
EXTENDS Integers, Sequences, TLC, Json, IOUtils

Trace == ndJsonDeserialize(IOEnv.TRACE)
MaxT == 90                       \* ticks per execution (driver stays below)
NB == 3
Keys == 1..(2 * NB)              \* key = 2*(b-1) + d + 1
Key(b, d) == 2 * (b - 1) + d + 1
DEFSINGLE == 16384               \* MAX_SINGLE_READ/WRITE_DEFAULT
INF == 1000000000

Min(a, b) == IF a < b THEN a ELSE b
Max(a, b) == IF a > b THEN a ELSE b
Refill(level, rate, burst, n) == IF n <= 0 THEN level ELSE Min(burst, level + n * rate)   \* RateLimit!Refill
RECURSIVE SumTo(_, _, _)
SumTo(f, a, b) == IF a > b THEN 0 ELSE f[a] + SumTo(f, a + 1, b)

VARIABLES l,      \* next event
          st,     \* specification state of the current execution
          bad     \* "" or the first disagreement

vars == <<l, st, bad>>

Fresh(nb, rf) ==
    [nb |-> nb, rf |-> rf,                              \* rf = 0: the peer sends nothing, reads cannot progress
     rate |-> [k \in Keys |-> 0], burst |-> [k \in Keys |-> 0],
     lvl |-> [k \in Keys |-> 0], last |-> [k \in Keys |-> 0],
     single |-> [k \in Keys |-> DEFSINGLE],
     member |-> [b \in 1..NB |-> FALSE],
     hasg |-> FALSE, grate |-> <<0, 0>>, gburst |-> <<0, 0>>, gms |-> 0,
     glvl |-> <<0, 0>>, gsusp |-> <<0, 0>>,           \* last observed group state
     moved |-> [k \in Keys |-> [t \in 0..MaxT |-> 0]],
     credit |-> [k \in Keys |-> [t \in 0..MaxT |-> 0]],
     gmoved |-> [d \in 1..2 |-> [t \in 0..MaxT |-> 0]],
     lastio |-> [k \in Keys |-> 0],                   \* tick of the last I/O (or of the last (re)configuration) per key
     tobs |-> 0, gsince |-> 0]                                    \* tick at which the group was created

HasCfg(s, k) == s.rate[k] > 0
Cur(s, k, t) == Refill(s.lvl[k], s.rate[k], s.burst[k], t - s.last[k])
NMembers(s) == LET F[i \in 0..NB] == IF i = 0 THEN 0 ELSE F[i - 1] + (IF s.member[i] THEN 1 ELSE 0) IN F[NB]
MinShare(s) == Min(s.gms, Min(s.grate[1], s.grate[2]))
Share(s, d) == IF s.gsusp[d + 1] = 1 THEN 0 ELSE Max(s.glvl[d + 1] \div NMembers(s), MinShare(s))
\* RateLimit!RlimMax: min(max_single, own bucket, group share), never negative
RlimMax(s, b, d, t) ==
    LET k == Key(b, d)
        own == IF HasCfg(s, k) THEN Cur(s, k, t) ELSE INF
        grp == IF s.member[b] /\ s.hasg THEN Share(s, d) ELSE INF
    IN Max(0, Min(s.single[k], Min(own, grp)))

\* An I/O operation of a group member may run just after the group's refill timer fired in the same loop
\* iteration (the order of callbacks within one iteration is not part of the property): the budget check of
\* an "io" event therefore allows the share computed from the group level refilled by the ticks that passed
\* since the last observation made right after a loop iteration (field al = 1; the group's timer has then run
\* within the last tick length) plus one.
\* The exact budget is compared at every "obs" event, where the group state is known.
ShareHi(s, d, t) == Max(Share(s, d), Max(Refill(s.glvl[d + 1], s.grate[d + 1], s.gburst[d + 1], t - s.tobs + 1) \div NMembers(s), MinShare(s)))
RlimMaxHi(s, b, d, t) ==
    LET k == Key(b, d)
        own == IF HasCfg(s, k) THEN Cur(s, k, t) ELSE INF
        grp == IF s.member[b] /\ s.hasg THEN ShareHi(s, d, t) ELSE INF
    IN Max(0, Min(s.single[k], Min(own, grp)))

\* The group bucket is refilled by a timer, so the refill that belongs to the tick in which the configuration
\* was installed (and the bucket clipped to the new burst) may still arrive after the clip: windows that
\* start in that tick are allowed one more tick's rate.
GLag(s, t1) == IF t1 = s.gsince THEN 1 ELSE 0

\* first tick at which the own bucket of key k is positive (given no further I/O)
PosTick(s, k) == IF s.lvl[k] > 0 THEN s.last[k] ELSE s.last[k] + ((-s.lvl[k]) \div s.rate[k]) + 1
(* Progress: the peer is always ready and the output buffer never empty, so a limited bufferevent (not in a  *)
(* group) whose bucket is positive must perform I/O within one tick (refill timer) - checked after loop      *)
(* iterations with two ticks of slack: idle for >= 3 ticks with a positive bucket is a stall.                *)
Stalled(s, k, t) == HasCfg(s, k) /\ ~s.member[(k + 1) \div 2] /\ (s.rf = 1 \/ (k + 1) % 2 = 1) /\ t - Max(PosTick(s, k), s.lastio[k]) >= 3

\* bring the own bucket of key k to tick t
Upd(s, k, t) == [s EXCEPT !.lvl[k] = Cur(s, k, t), !.last[k] = IF HasCfg(s, k) THEN t ELSE @]

SetCfgDir(s, k, r, bu, t) ==
    IF r = 0 THEN [s EXCEPT !.rate[k] = 0, !.burst[k] = 0]
    ELSE IF HasCfg(s, k)                               \* ev_token_bucket_init_(reinitialize): clip downwards only
         THEN [s EXCEPT !.rate[k] = r, !.burst[k] = bu, !.lvl[k] = Min(s.lvl[k], bu)]
         ELSE [s EXCEPT !.rate[k] = r, !.burst[k] = bu, !.lvl[k] = r, !.last[k] = t]

WindowOK(f, cr, burst, rate, t) ==
    \A t1 \in 0..t : SumTo(f, t1, t) <= burst + (t - t1 + 1) * rate + SumTo(cr, t1, t)

Str(x) == ToString(x)

\* returns <<new state, "" or complaint>>
Apply(s, e) ==
    LET t == e.t IN
    CASE e.e = "reset" -> <<Fresh(e.nb, e.rf), "">>
      [] e.e = "setcfg" ->
            <<[SetCfgDir(SetCfgDir(s, Key(e.b, 0), e.rr, e.rb, t), Key(e.b, 1), e.wr, e.wb, t)
                  EXCEPT !.lastio[Key(e.b, 0)] = t, !.lastio[Key(e.b, 1)] = t], "">>
      [] e.e = "setmax" -> <<[s EXCEPT !.single[Key(e.b, e.d)] = e.m], "">>
      [] e.e = "group" ->
            <<[s EXCEPT !.hasg = TRUE, !.grate = <<e.rr, e.wr>>, !.gburst = <<e.rb, e.wb>>, !.gms = e.ms,
                        !.glvl = <<e.rr, e.wr>>, !.gsusp = <<0, 0>>, !.gsince = t, !.tobs = t], "">>
      [] e.e = "gsetcfg" ->      \* RateLimit!GroupSetCfg: install, clip both buckets to the new burst, restart the accounting
            <<[s EXCEPT !.grate = <<e.rr, e.wr>>, !.gburst = <<e.rb, e.wb>>,
                        !.glvl = <<Min(s.glvl[1], e.rb), Min(s.glvl[2], e.wb)>>, !.gsince = t,
                        !.gmoved[1][t] = 0, !.gmoved[2][t] = 0], "">>
      [] e.e = "join" -> <<[s EXCEPT !.member[e.b] = TRUE], "">>
      [] e.e = "leave" -> <<[s EXCEPT !.member[e.b] = FALSE, !.lastio[Key(e.b, 0)] = t, !.lastio[Key(e.b, 1)] = t], "">>
      [] e.e = "dec" ->
            LET k == Key(e.b, e.d)  u == Upd(s, k, t) IN
            <<[u EXCEPT !.lvl[k] = @ - e.k, !.credit[k][t] = @ + Max(0, -e.k)], "">>
      [] e.e = "io" ->
            LET k == Key(e.b, e.d)
                allowed == RlimMaxHi(s, e.b, e.d, t)
                u == Upd(s, k, t)
                v == [u EXCEPT !.lvl[k] = IF HasCfg(s, k) THEN @ - e.n ELSE @,
                               !.moved[k][t] = @ + e.n, !.lastio[k] = t,
                               !.gmoved[e.d + 1][t] = IF s.member[e.b] /\ s.hasg THEN @ + e.n ELSE @,
                               !.glvl[e.d + 1] = IF s.member[e.b] /\ s.hasg THEN @ - e.n ELSE @,
                               !.gsusp[e.d + 1] = IF s.member[e.b] /\ s.hasg /\ s.glvl[e.d + 1] - e.n <= 0 THEN 1 ELSE @]
            IN <<v,
                 IF e.n > s.single[k]
                 THEN "PerOpMax: operation moved " \o Str(e.n) \o " bytes, max_single is " \o Str(s.single[k])
                 ELSE IF e.n > allowed
                 THEN "budget: operation moved " \o Str(e.n) \o " bytes, budget min(max_single, bucket, share) is " \o Str(allowed)
                 ELSE IF HasCfg(s, k) /\ ~WindowOK(v.moved[k], v.credit[k], s.burst[k], s.rate[k], t)
                 THEN "WindowBound: bytes in a window ending at tick " \o Str(t) \o " exceed burst + k*rate"
                 ELSE IF s.member[e.b] /\ s.hasg /\
                         ~(\A t1 \in s.gsince..t : SumTo(v.gmoved[e.d + 1], t1, t) <= s.gburst[e.d + 1] + (t - t1 + 1 + GLag(s, t1)) * s.grate[e.d + 1])
                 THEN "GroupWindowBound: group bytes in a window ending at tick " \o Str(t) \o " exceed burst + k*rate"
                 ELSE "">>
      [] e.e = "obs" ->
            LET s1 == [s EXCEPT !.glvl = IF s.hasg THEN e.gl ELSE @, !.gsusp = IF s.hasg THEN e.gs ELSE @,
                               !.tobs = IF e.al = 1 THEN t ELSE @]
                badlv == {k \in 1..(2 * s.nb) : HasCfg(s1, k) /\ e.lv[k] # Cur(s1, k, t)}
                badmx == {k \in 1..(2 * s.nb) : e.mx[k] # RlimMax(s1, (k + 1) \div 2, (k + 1) % 2, t)}
                badg == {d \in 1..2 : s.hasg /\ (e.gl[d] > s.gburst[d] \/ (e.al = 0 /\ e.gl[d] # s.glvl[d]))}
                stall == {k \in 1..(2 * s.nb) : e.al = 1 /\ Stalled(s1, k, t)}
            IN <<s1,
                 IF badg # {}
                 THEN LET d == CHOOSE d \in badg : TRUE IN
                      "group level: group bucket " \o Str(d) \o " is " \o Str(e.gl[d]) \o ", burst " \o Str(s.gburst[d]) \o
                      ", specification " \o (IF e.al = 0 THEN Str(s.glvl[d]) ELSE "<= burst")
                 ELSE IF stall # {}
                 THEN LET k == CHOOSE k \in stall : TRUE IN
                      "progress: key " \o Str(k) \o " has had a positive bucket since tick " \o Str(Max(PosTick(s1, k), s1.lastio[k])) \o
                      " and has not moved a byte by tick " \o Str(t)
                 ELSE IF badlv # {}
                 THEN LET k == CHOOSE k \in badlv : TRUE IN
                      "level: key " \o Str(k) \o " bucket is " \o Str(e.lv[k]) \o ", specification " \o Str(Cur(s1, k, t))
                 ELSE IF badmx # {}
                 THEN LET k == CHOOSE k \in badmx : TRUE IN
                      (IF e.mx[k] > s1.single[k] THEN "PerOpMax: " ELSE "budget: ") \o "key " \o Str(k) \o " may move " \o Str(e.mx[k]) \o
                      " bytes in one operation, specification min(max_single, bucket, share) = " \o
                      Str(RlimMax(s1, (k + 1) \div 2, (k + 1) % 2, t))
                 ELSE "">>
      [] OTHER -> <<s, "unknown event " \o e.e>>

Init == l = 1 /\ st = Fresh(1, 1) /\ bad = ""

Step ==
    /\ l <= Len(Trace) /\ bad = ""
    /\ LET r == Apply(st, Trace[l]) IN
       /\ st' = r[1]
       /\ bad' = (IF r[2] = "" THEN "" ELSE "event " \o ToString(l) \o ": " \o r[2])
    /\ l' = l + 1

Next == Step

NoViolation == bad = ""
\* all events consumed (reported through a PrintT in the post-condition)
Post == PrintT(<<"consumed", TLCGet("level")>>)
=============================================================================
