--------------------------- MODULE WeakRand_A31 ---------------------------
(* WeakRand with the constants of evutil.c for Apalache. *)
EXTENDS Integers
VARIABLES
    \* @type: Int;
    seed,
    \* @type: Int;
    top,
    \* @type: Int;
    res,
    \* @type: Int;
    steps,
    \* @type: Int;
    pc
INSTANCE WeakRand WITH MOD <- 2147483648, SMOD <- 4294967296, MULT <- 1103515245, INC <- 12345
=============================================================================
