---------------------------- MODULE HttpFraming ----------------------------
(* RFC 9112 reference framing of an HTTP/1.x byte stream, server view (a
   stream of requests, property C23) and client view (a stream of responses
   to a known list of requests, property C24).

   The module has three layers.

   1. A TOKEN ALPHABET WITH ITS BYTES.  A stream is a sequence of messages
      [l, hs, b]: a start-line token, a sequence of header tokens and a body
      token.  LineBytes / HdrBytes / BodyBytes give the octets of every token
      (TLC strings support Len, SubSeq, \o and equality, so octet strings are
      plain TLA+ strings).  Bytes(msgs) is the concatenation.  The tokens only
      *generate* interesting streams; they carry no meaning for the parser.

   2. THE REFERENCE PARSER over octets: an incremental machine.  A parser
      state `s` holds the unconsumed octets `buf`, the phase, the message
      under construction and the outcomes derived so far.  Adv(s) is one
      micro step (consume a line, a body, a chunk ...) and is empty when `s`
      has to wait for more octets or is finished.  Wherever RFC 9112 gives
      the recipient a choice (bare LF as line terminator, obs-fold, identical
      duplicated Content-Length, Content-Length together with
      Transfer-Encoding, ...) the step first fixes the corresponding *policy*
      field, branching into one successor per allowed behaviour.  So the
      machine is run on a SET of states and Frame(bytes) is the set of
      results [out, end] over all allowed recipient policies.

        out : sequence of delivered messages
        end : "open"     everything consumed, connection persists
              "partial"  waiting for the rest of a message
              "closed"   connection closed by the recipient after the last delivery
              "rejected" the next message is one the RFC requires (or, for
                         policies, allows) to be rejected: error status or close
              "unspec"   RFC 9112 does not determine what follows (CONNECT tunnel,
                         HTTP/1.0 with Transfer-Encoding, ...): nothing is compared
                         after `out`

   3. THE STATE MACHINE TLC explores: Build* actions enumerate every stream
      over the configured alphabet; Recv(k) hands the next k octets to the
      parser (Eof closes the sending side).  TLC decides, on the reference
      itself,
        SegmentationIndependent  any sequence of Recv steps ends in Frame(bytes)
        PrefixStable             outcomes derived from a prefix are never revised
        NoGuessing               a message with ambiguous framing is never delivered
      and Emit prints {bytes, allowed results} for every enumerated stream; the
      driver feeds those bytes to the real evhttp server / client under many
      segmentations and the check compares what the callbacks saw.
*)
EXTENDS Integers, Sequences, FiniteSets, TLC, Json

CONSTANTS
  View,       \* "server" | "client"
  LineToks,   \* start-line tokens the generator may use
  HdrToks,    \* header tokens
  BodyToks,   \* body tokens
  MaxHdr,     \* header tokens per message (besides the fixed Host / Server field)
  MaxMsg,     \* messages per stream
  Seg,        \* "none": only build + emit;  "all": additionally every segmentation
  ReqSeqs,    \* client view: set of request-method sequences, each written "GET+HEAD+POST"
  Eofs,       \* client view: subset of {FALSE, TRUE}: peer closes after the last octet?
  Prefixes,   \* TRUE: Emit also prints the results for every proper prefix followed by the sender's close
  RecvSizes   \* read sizes explored by Recv ({} = every size; the rest of the stream is always included)

VARIABLES msgs, mode, pos, S, ctx

vars == <<msgs, mode, pos, S, ctx>>

CR == "\r"
LF == "\n"
CRLF == "\r\n"
SP == " "
HT == "\t"

----------------------------------------------------------------------------
(* 1. Token alphabet *)

LineBytes(t) ==
  CASE t = "get"     -> "GET /a HTTP/1.1"
    [] t = "post"    -> "POST /p?q=1 HTTP/1.1"
    [] t = "put"     -> "PUT /u HTTP/1.1"
    [] t = "head"    -> "HEAD /h HTTP/1.1"
    [] t = "ext"     -> "PATCHY /x HTTP/1.1"        \* extension method the server registered
    [] t = "unk"     -> "BREW /pot HTTP/1.1"        \* method the server does not implement
    [] t = "connect" -> "CONNECT example.com:80 HTTP/1.1"
    [] t = "get10"   -> "GET /a HTTP/1.0"
    [] t = "post10"  -> "POST /p HTTP/1.0"
    [] t = "get12"   -> "GET /a HTTP/1.2"
    [] t = "get20"   -> "GET /a HTTP/2.0"
    [] t = "nover"   -> "GET /a"
    [] t = "spaces"  -> "GET  /a HTTP/1.1"
    [] t = "lower"   -> "get /a HTTP/1.1"
    [] t = "badver"  -> "GET /a HTTP/1.1x"
    [] t = "empty"   -> "\r\nGET /e HTTP/1.1"        \* one empty line before the request-line
    [] t = "empty2"  -> "\r\n\r\nPOST /e2 HTTP/1.1"  \* two / three empty lines (RFC 9112 2.2: SHOULD ignore at least one)
    [] t = "empty3"  -> "\r\n\r\n\r\nPOST /e3 HTTP/1.1"
    \* status lines (client view)
    [] t = "s200"    -> "HTTP/1.1 200 OK"
    [] t = "s200_10" -> "HTTP/1.0 200 OK"
    [] t = "s204"    -> "HTTP/1.1 204 No Content"
    [] t = "s304"    -> "HTTP/1.1 304 Not Modified"
    [] t = "s100"    -> "HTTP/1.1 100 Continue"
    [] t = "s404"    -> "HTTP/1.1 404 Not Found"
    [] t = "snoreason" -> "HTTP/1.1 200"
    [] t = "sbadver" -> "HTTX/1.1 200 OK"
    [] t = "sbadcode" -> "HTTP/1.1 abc OK"

HdrBytes(t) ==
  CASE t = "xa"      -> "X-A: v\r\n"
    [] t = "cl0"     -> "Content-Length: 0\r\n"
    [] t = "cl3"     -> "Content-Length: 3\r\n"
    [] t = "cl5"     -> "content-length: 5\r\n"
    [] t = "clows"   -> "Content-Length:   3 \r\n"        \* optional whitespace around the value (valid)
    [] t = "clplus"  -> "Content-Length: +3\r\n"
    [] t = "clminus" -> "Content-Length: -3\r\n"
    [] t = "cljunk"  -> "Content-Length: 3x\r\n"
    [] t = "clempty" -> "Content-Length: \r\n"
    [] t = "cllist"  -> "Content-Length: 3, 3\r\n"
    [] t = "cllist2" -> "Content-Length: 3, 5\r\n"
    [] t = "clspc"   -> "Content-Length : 3\r\n"          \* whitespace before the colon
    [] t = "xspc"    -> "X-B : v\r\n"
    [] t = "te"      -> "Transfer-Encoding: chunked\r\n"
    [] t = "teuc"    -> "transfer-encoding: Chunked\r\n"
    [] t = "tegz"    -> "Transfer-Encoding: gzip, chunked\r\n"
    [] t = "tecg"    -> "Transfer-Encoding: chunked, gzip\r\n"
    [] t = "teid"    -> "Transfer-Encoding: identity\r\n"
    [] t = "close"   -> "Connection: close\r\n"
    [] t = "closeuc" -> "connection: Close\r\n"
    [] t = "ka"      -> "Connection: keep-alive\r\n"
    [] t = "exp100"  -> "Expect: 100-continue\r\n"
    [] t = "expx"    -> "Expect: other\r\n"
    [] t = "fold"    -> "X-F: a\r\n  b\r\n"               \* obs-fold continuation
    [] t = "noname"  -> ": v\r\n"
    [] t = "nocolon" -> "garbage\r\n"
    [] t = "lf"      -> "X-L: v\n"                         \* bare LF line end
    [] t = "empty"   -> "X-E:\r\n"                         \* empty value

BodyBytes(t) ==
  CASE t = "none"    -> ""
    [] t = "b3"      -> "abc"
    [] t = "b5"      -> "abcde"
    [] t = "b2"      -> "ab"
    [] t = "ch"      -> "3\r\nabc\r\n0\r\n\r\n"
    [] t = "ch1a"    -> "1\r\nx\r\na\r\n0123456789\r\n0\r\n\r\n"
    [] t = "chup"    -> "A\r\n0123456789\r\n00\r\n\r\n"
    [] t = "ch0"     -> "0\r\n\r\n"
    [] t = "ch0x"    -> "0x1\r\nx\r\n0\r\n\r\n"
    [] t = "chplus"  -> "+1\r\nx\r\n0\r\n\r\n"
    [] t = "chext"   -> "3;e=1\r\nabc\r\n0;l\r\n\r\n"
    [] t = "chtr"    -> "3\r\nabc\r\n0\r\nX-T: t\r\n\r\n"
    [] t = "chshort" -> "3\r\nab"
    [] t = "chnolast" -> "3\r\nabc\r\n"
    [] t = "chlf"    -> "3\nabc\n0\n\n"

FixedHdr == IF View = "server" THEN "Host: h\r\n" ELSE "Server: s\r\n"

RECURSIVE CatHdrs(_)
CatHdrs(hs) == IF hs = <<>> THEN "" ELSE HdrBytes(Head(hs)) \o CatHdrs(Tail(hs))

MsgBytes(m) == LineBytes(m.l) \o CRLF \o FixedHdr \o CatHdrs(m.hs) \o CRLF \o BodyBytes(m.b)

RECURSIVE Bytes(_)
Bytes(ms) == IF ms = <<>> THEN "" ELSE MsgBytes(Head(ms)) \o Bytes(Tail(ms))

----------------------------------------------------------------------------
(* String helpers *)
Ch(s, i) == SubSeq(s, i, i)
From(s, i) == SubSeq(s, i, Len(s))
Min(I) == CHOOSE i \in I : \A j \in I : i <= j
Max(I) == CHOOSE i \in I : \A j \in I : i >= j
IndexOf(s, c) == LET I == {i \in 1..Len(s) : Ch(s, i) = c} IN IF I = {} THEN 0 ELSE Min(I)
Has(s, c) == \E i \in 1..Len(s) : Ch(s, i) = c
IsWs(c) == c = SP \/ c = HT
LTrim(s) == LET I == {i \in 1..Len(s) : ~IsWs(Ch(s, i))} IN IF I = {} THEN "" ELSE From(s, Min(I))
RTrim(s) == LET I == {i \in 1..Len(s) : ~IsWs(Ch(s, i))} IN IF I = {} THEN "" ELSE SubSeq(s, 1, Max(I))
Trim(s) == LTrim(RTrim(s))
Digits == {"0", "1", "2", "3", "4", "5", "6", "7", "8", "9"}
HexChars == Digits \cup {"a", "b", "c", "d", "e", "f", "A", "B", "C", "D", "E", "F"}
HexVal(c) == CASE c = "0" -> 0 [] c = "1" -> 1 [] c = "2" -> 2 [] c = "3" -> 3 [] c = "4" -> 4
               [] c = "5" -> 5 [] c = "6" -> 6 [] c = "7" -> 7 [] c = "8" -> 8 [] c = "9" -> 9
               [] c \in {"a", "A"} -> 10 [] c \in {"b", "B"} -> 11 [] c \in {"c", "C"} -> 12
               [] c \in {"d", "D"} -> 13 [] c \in {"e", "E"} -> 14 [] c \in {"f", "F"} -> 15
IsDigits(s) == Len(s) > 0 /\ Len(s) <= 6 /\ \A i \in 1..Len(s) : Ch(s, i) \in Digits
RECURSIVE NumBase(_, _)
NumBase(s, b) == IF s = "" THEN 0 ELSE NumBase(SubSeq(s, 1, Len(s) - 1), b) * b + HexVal(Ch(s, Len(s)))
Upper == <<"A","B","C","D","E","F","G","H","I","J","K","L","M","N","O","P","Q","R","S","T","U","V","W","X","Y","Z">>
Lower == <<"a","b","c","d","e","f","g","h","i","j","k","l","m","n","o","p","q","r","s","t","u","v","w","x","y","z">>
LowCh(c) == LET I == {i \in 1..26 : Upper[i] = c} IN IF I = {} THEN c ELSE Lower[CHOOSE i \in I : TRUE]
RECURSIVE Low(_)
Low(s) == IF s = "" THEN "" ELSE LowCh(Ch(s, 1)) \o Low(From(s, 2))

(* split on a one-character separator *)
RECURSIVE Split(_, _)
Split(s, c) == LET i == IndexOf(s, c) IN
  IF i = 0 THEN <<s>> ELSE <<SubSeq(s, 1, i - 1)>> \o Split(From(s, i + 1), c)
(* whitespace separated words *)
RECURSIVE Words(_)
Words(s0) == LET s == LTrim(s0) IN
  IF s = "" THEN <<>>
  ELSE LET I == {i \in 1..Len(s) : IsWs(Ch(s, i))} IN
       IF I = {} THEN <<s>> ELSE <<SubSeq(s, 1, Min(I) - 1)>> \o Words(From(s, Min(I)))
RECURSIVE MapTrimLow(_)
MapTrimLow(q) == IF q = <<>> THEN <<>> ELSE <<Low(Trim(Head(q)))>> \o MapTrimLow(Tail(q))
RECURSIVE FlatSplit(_)   \* all comma separated members of a sequence of field values
FlatSplit(q) == IF q = <<>> THEN <<>> ELSE MapTrimLow(Split(Head(q), ",")) \o FlatSplit(Tail(q))
SeqToSet(q) == {q[i] : i \in 1..Len(q)}
RECURSIVE SetToSeq(_)
SetToSeq(T) == IF T = {} THEN <<>> ELSE LET x == CHOOSE x \in T : TRUE IN <<x>> \o SetToSeq(T \ {x})
IsPrefix(a, b) == Len(a) <= Len(b) /\ SubSeq(b, 1, Len(a)) = a

----------------------------------------------------------------------------
(* 2. The reference parser *)

KnownMethods == {"GET", "POST", "PUT", "HEAD", "DELETE", "OPTIONS", "PATCH", "CONNECT", "PATCHY"}

Pol0 == [lf |-> "u", el |-> "u", ws |-> "u", ver |-> "u", fold |-> "u", junk |-> "u",
         dupcl |-> "u", clte |-> "u", tegz |-> "u", expx |-> "u", ka10 |-> "u", tecl |-> "u"]

Cur0 == [m |-> "", t |-> "", v |-> <<0, 0>>, code |-> 0, h |-> <<>>, trl |-> <<>>, b |-> "",
         fr |-> "", need |-> 0, persist |-> TRUE, anyb |-> FALSE]

(* rq: client view - methods of the requests still awaiting a response (head = current);
   eof: the sender has closed its side *)
PS0(rq) == [buf |-> "", ph |-> "line", cur |-> Cur0, out |-> <<>>, end |-> "", pol |-> Pol0,
            rq |-> rq, eof |-> FALSE]

Decide(s, f, opts) == {[s EXCEPT !.pol[f] = o] : o \in opts}
Finish(s, e) == {[s EXCEPT !.end = e, !.buf = "", !.ph = "done"]}

(* a field value is a sequence of parts; more than one part = obs-fold (the
   parts are separated by one or more SP in whatever the recipient stores) *)
RECURSIVE JoinParts(_)
JoinParts(p) == IF Len(p) = 1 THEN p[1] ELSE p[1] \o " " \o JoinParts(Tail(p))
FieldVals(h, name) == LET I == {i \in 1..Len(h) : Low(h[i].n) = name} IN
  [k \in 1..Cardinality(I) |-> JoinParts(h[CHOOSE i \in I : Cardinality({j \in I : j < i}) = k - 1].v)]

(* take one line off the buffer: [ok, line, rest, bare] *)
TakeLine(buf) == LET i == IndexOf(buf, LF) IN
  IF i = 0 THEN [ok |-> FALSE, line |-> "", rest |-> "", bare |-> FALSE]
  ELSE LET hasCR == i > 1 /\ Ch(buf, i - 1) = CR IN
       [ok |-> TRUE, line |-> SubSeq(buf, 1, IF hasCR THEN i - 2 ELSE i - 1), rest |-> From(buf, i + 1),
        bare |-> ~hasCR]

VersionOf(w) ==   \* <<major, minor>> or <<-1,-1>>
  IF Len(w) = 8 /\ SubSeq(w, 1, 5) = "HTTP/" /\ Ch(w, 6) \in Digits /\ Ch(w, 7) = "." /\ Ch(w, 8) \in Digits
  THEN <<HexVal(Ch(w, 6)), HexVal(Ch(w, 8))>> ELSE <<-1, -1>>

Deliver(s) ==
  LET c == s.cur
      d == [m |-> c.m, t |-> c.t, v |-> c.v, code |-> c.code, h |-> c.h, trl |-> c.trl, b |-> c.b, anyb |-> c.anyb]
      s1 == [s EXCEPT !.out = Append(@, d), !.cur = Cur0, !.ph = "line",
                      !.rq = IF View = "client" /\ @ # <<>> THEN Tail(@) ELSE @]
  IN IF View = "server" /\ c.m = "CONNECT" THEN Finish(s1, "unspec")
     ELSE IF ~c.persist THEN Finish(s1, "closed")
     ELSE {s1}

(* --- start line *)
RequestLine(s, line, rest) ==
  LET strict == Split(line, SP)
      words == Words(line)
      okStrict == Len(strict) = 3 /\ \A i \in 1..3 : strict[i] # "" /\ ~Has(strict[i], HT)
      w == IF okStrict THEN strict ELSE words
  IN
  IF Has(line, CR) THEN Finish(s, "unspec")
  ELSE IF ~okStrict /\ Len(words) # 3 THEN Finish(s, "rejected")       \* no request can be derived
  ELSE IF VersionOf(w[3]) = <<-1, -1>> THEN Finish(s, "rejected")
  ELSE IF ~okStrict /\ s.pol.ws = "u" THEN Decide(s, "ws", {"a", "r"})  \* RFC 9112 3: MAY parse on whitespace
  ELSE IF ~okStrict /\ s.pol.ws = "r" THEN Finish(s, "rejected")
  ELSE IF VersionOf(w[3])[1] # 1 /\ s.pol.ver = "u" THEN Decide(s, "ver", {"a", "r"})  \* 505 is optional
  ELSE IF VersionOf(w[3])[1] # 1 /\ s.pol.ver = "r" THEN Finish(s, "rejected")
  ELSE IF w[1] \notin KnownMethods THEN Finish(s, "rejected")          \* 501 / 405: not handed to the application
  ELSE {[s EXCEPT !.buf = rest, !.ph = "hdr", !.cur = [Cur0 EXCEPT !.m = w[1], !.t = w[2], !.v = VersionOf(w[3])]]}

StatusLine(s, line, rest) ==
  LET i == IndexOf(line, SP)
      ver == IF i = 0 THEN line ELSE SubSeq(line, 1, i - 1)
      r1 == IF i = 0 THEN "" ELSE From(line, i + 1)
      j == IndexOf(r1, SP)
      code == IF j = 0 THEN r1 ELSE SubSeq(r1, 1, j - 1)
  IN
  IF Has(line, CR) THEN Finish(s, "unspec")
  ELSE IF VersionOf(ver) = <<-1, -1>> \/ Len(code) # 3 \/ ~IsDigits(code) THEN Finish(s, "rejected")
  ELSE IF VersionOf(ver)[1] # 1 THEN Finish(s, "unspec")
  ELSE {[s EXCEPT !.buf = rest, !.ph = "hdr",
                  \* (for a response `t` holds the reason phrase)
                  !.cur = [Cur0 EXCEPT !.m = IF s.rq = <<>> THEN "" ELSE Head(s.rq), !.v = VersionOf(ver),
                                       !.code = NumBase(code, 10), !.t = IF j = 0 THEN "" ELSE From(r1, j + 1)]]}

StartLine(s) ==
  LET tl == TakeLine(s.buf) IN
  IF ~tl.ok THEN {}
  ELSE IF tl.bare /\ s.pol.lf = "u" THEN Decide(s, "lf", {"a", "r"})     \* RFC 9112 2.2: MAY accept bare LF
  ELSE IF tl.bare /\ s.pol.lf = "r" THEN Finish(s, "rejected")
  ELSE IF tl.line = "" /\ s.pol.el = "u" THEN Decide(s, "el", {"a", "r"}) \* SHOULD ignore an empty line
  ELSE IF tl.line = "" /\ s.pol.el = "r" THEN Finish(s, "rejected")
  ELSE IF tl.line = "" THEN {[s EXCEPT !.buf = tl.rest]}
  ELSE IF View = "server" THEN RequestLine(s, tl.line, tl.rest)
  ELSE IF s.rq = <<>> THEN Finish(s, "unspec")   \* octets with no outstanding request: not a response to anything
  ELSE StatusLine(s, tl.line, tl.rest)

(* --- one field line of the header or trailer section; `fld` is "h" or "trl" *)
FieldLine(s, tl, fld) ==
  LET line == tl.line
      c == IndexOf(line, ":")
      name == SubSeq(line, 1, c - 1)
      val == Trim(From(line, c + 1))
      q == s.cur[fld]
  IN
  IF Has(line, CR) THEN Finish(s, "unspec")          \* bare CR: reject or replace by SP
  ELSE IF IsWs(Ch(line, 1)) THEN                       \* obs-fold
     IF q = <<>> THEN Finish(s, "unspec")
     ELSE IF s.pol.fold = "u" THEN Decide(s, "fold", {"a", "r"})   \* RFC 9112 5.2: reject or replace by SP
     ELSE IF s.pol.fold = "r" THEN Finish(s, "rejected")
     ELSE {[s EXCEPT !.buf = tl.rest,
                     !.cur[fld] = [q EXCEPT ![Len(q)] = [n |-> q[Len(q)].n, v |-> Append(q[Len(q)].v, Trim(line))]]]}
  ELSE IF c = 0 \/ name = "" THEN                      \* not a field line at all (grammar violation, no MUST)
     IF s.pol.junk = "u" THEN Decide(s, "junk", {"r", "i"})
     ELSE IF s.pol.junk = "r" THEN Finish(s, "rejected")
     ELSE {[s EXCEPT !.buf = tl.rest]}                  \* ... or the line is ignored
  ELSE IF \E i \in 1..Len(name) : IsWs(Ch(name, i)) THEN
     \* whitespace between field name and colon: a server MUST reject (RFC 9112 5.1);
     \* for a client the RFC only binds proxies
     Finish(s, IF View = "server" THEN "rejected" ELSE "unspec")
  ELSE {[s EXCEPT !.buf = tl.rest, !.cur[fld] = Append(q, [n |-> name, v |-> <<val>>])]}

(* --- end of the header section: RFC 9112 6.3 *)
ConnHas(c, tok) == tok \in SeqToSet(FlatSplit(FieldVals(c.h, "connection")))
Persist(s) == LET c == s.cur IN
  IF ConnHas(c, "close") THEN "no"
  ELSE IF c.v[2] >= 1 THEN "yes"
  ELSE IF ConnHas(c, "keep-alive") THEN "maybe" ELSE "no"

NoBodyResponse(c) == c.m = "HEAD" \/ (c.code >= 100 /\ c.code < 200) \/ c.code = 204 \/ c.code = 304

HeadersDone(s, rest) ==
  LET c == s.cur
      tes == FlatSplit(FieldVals(c.h, "transfer-encoding"))
      cls == FlatSplit(FieldVals(c.h, "content-length"))
      clsOk == \A i \in 1..Len(cls) : IsDigits(cls[i])
      clsSame == \A i \in 1..Len(cls) : NumBase(cls[i], 10) = NumBase(cls[1], 10)
      exps == FlatSplit(FieldVals(c.h, "expect"))
      pers == Persist(s)
      go(fr, need, persist, anyb) ==
         LET c1 == [c EXCEPT !.fr = fr, !.need = need, !.persist = persist, !.anyb = anyb]
             s1 == [s EXCEPT !.buf = rest, !.cur = c1]
         IN IF fr = "none" THEN Deliver(s1)
            ELSE IF fr = "cl" THEN {[s1 EXCEPT !.ph = "body"]}
            ELSE IF fr = "close" THEN {[s1 EXCEPT !.ph = "untilclose"]}
            ELSE {[s1 EXCEPT !.ph = "chsize"]}
      p == pers = "yes" \/ (pers = "maybe" /\ s.pol.ka10 = "a")
  IN
  IF pers = "maybe" /\ s.pol.ka10 = "u" THEN Decide(s, "ka10", {"a", "r"})   \* HTTP/1.0 keep-alive is optional
  ELSE IF View = "client" /\ c.code >= 100 /\ c.code < 200 THEN
     \* interim response: skipped, the final response to the same request follows
     {[s EXCEPT !.buf = rest, !.cur = Cur0, !.ph = "line"]}
  ELSE IF View = "client" /\ NoBodyResponse(c) THEN go("none", 0, p, FALSE)
  ELSE IF View = "client" /\ c.m = "CONNECT" /\ c.code >= 200 /\ c.code < 300 THEN Finish(s, "unspec")
  ELSE IF View = "server" /\ c.v[2] >= 1 /\ exps # <<>> /\ exps # <<"100-continue">> /\ s.pol.expx = "u" THEN
     Decide(s, "expx", {"a", "r"})                                           \* 417 is optional
  ELSE IF View = "server" /\ c.v[2] >= 1 /\ exps # <<>> /\ exps # <<"100-continue">> /\ s.pol.expx = "r" THEN
     Finish(s, "rejected")
  ELSE IF tes # <<>> THEN
     IF c.v[2] = 0 THEN Finish(s, "unspec")          \* HTTP/1.0 + Transfer-Encoding: framing faulty, close after
     ELSE IF tes[Len(tes)] # "chunked" THEN
        \* request: MUST 400; response: body is everything until the connection closes
        IF View = "server" THEN Finish(s, "rejected") ELSE go("close", 0, FALSE, Len(tes) > 0)
     ELSE IF Len(tes) > 1 THEN                        \* codings other than chunked: 501 or decode
        IF s.pol.tegz = "u" THEN Decide(s, "tegz", {"a", "r"})
        ELSE IF s.pol.tegz = "r" THEN Finish(s, "rejected")
        ELSE go("ch", 0, p, TRUE)
     ELSE IF cls # <<>> THEN                          \* both: MAY reject; else TE alone, and close afterwards
        IF s.pol.clte = "u" THEN Decide(s, "clte", {"r", "close", "cont"})
        ELSE IF s.pol.clte = "r" THEN Finish(s, "rejected")
        ELSE go("ch", 0, p /\ s.pol.clte = "cont", FALSE)
     ELSE go("ch", 0, p, FALSE)
  ELSE IF cls # <<>> THEN
     IF ~clsOk \/ ~clsSame THEN Finish(s, "rejected")  \* unrecoverable: 400 / discard the response
     ELSE IF Len(cls) > 1 /\ s.pol.dupcl = "u" THEN Decide(s, "dupcl", {"a", "r"})
     ELSE IF Len(cls) > 1 /\ s.pol.dupcl = "r" THEN Finish(s, "rejected")
     ELSE IF NumBase(cls[1], 10) = 0 THEN go("none", 0, p, FALSE)
     ELSE go("cl", NumBase(cls[1], 10), p, FALSE)
  ELSE IF View = "server" THEN go("none", 0, p, FALSE)
  ELSE go("close", 0, FALSE, FALSE)

HeaderLine(s) ==
  LET tl == TakeLine(s.buf) IN
  IF ~tl.ok THEN {}
  ELSE IF tl.bare /\ s.pol.lf = "u" THEN Decide(s, "lf", {"a", "r"})
  ELSE IF tl.bare /\ s.pol.lf = "r" THEN Finish(s, "rejected")
  ELSE IF tl.line = "" THEN HeadersDone(s, tl.rest)
  ELSE FieldLine(s, tl, "h")

(* --- bodies *)
FixedBody(s) ==
  IF Len(s.buf) < s.cur.need THEN {}
  ELSE Deliver([s EXCEPT !.cur.b = SubSeq(s.buf, 1, s.cur.need), !.buf = From(s.buf, s.cur.need + 1)])

ChunkSize(s) ==
  LET tl == TakeLine(s.buf)
      line == tl.line
      I == {i \in 1..Len(line) : Ch(line, i) \notin HexChars}
      n == IF I = {} THEN Len(line) ELSE Min(I) - 1
      ext == LTrim(From(line, n + 1))
      size == NumBase(SubSeq(line, 1, n), 16)
  IN
  IF ~tl.ok THEN {}
  ELSE IF tl.bare /\ s.pol.lf = "u" THEN Decide(s, "lf", {"a", "r"})
  ELSE IF tl.bare /\ s.pol.lf = "r" THEN Finish(s, "rejected")
  ELSE IF n = 0 \/ n > 6 \/ (ext # "" /\ Ch(ext, 1) # ";") THEN Finish(s, "rejected")  \* no chunk size: framing lost
  ELSE IF size = 0 THEN {[s EXCEPT !.buf = tl.rest, !.ph = "trailer"]}     \* chunk extensions MUST be ignored
  ELSE {[s EXCEPT !.buf = tl.rest, !.ph = "chdata", !.cur.need = size]}

ChunkData(s) ==
  LET n == s.cur.need IN
  IF Len(s.buf) < n + 1 THEN {}
  ELSE IF Ch(s.buf, n + 1) = LF THEN
     IF s.pol.lf = "u" THEN Decide(s, "lf", {"a", "r"})
     ELSE IF s.pol.lf = "r" THEN Finish(s, "rejected")
     ELSE {[s EXCEPT !.cur.b = @ \o SubSeq(s.buf, 1, n), !.buf = From(s.buf, n + 2), !.ph = "chsize"]}
  ELSE IF Len(s.buf) < n + 2 THEN {}
  ELSE IF SubSeq(s.buf, n + 1, n + 2) # CRLF THEN Finish(s, "unspec")
  ELSE {[s EXCEPT !.cur.b = @ \o SubSeq(s.buf, 1, n), !.buf = From(s.buf, n + 3), !.ph = "chsize"]}

TrailerLine(s) ==
  LET tl == TakeLine(s.buf) IN
  IF ~tl.ok THEN {}
  ELSE IF tl.bare /\ s.pol.lf = "u" THEN Decide(s, "lf", {"a", "r"})
  ELSE IF tl.bare /\ s.pol.lf = "r" THEN Finish(s, "rejected")
  ELSE IF tl.line = "" THEN Deliver([s EXCEPT !.buf = tl.rest])
  ELSE FieldLine(s, tl, "trl")

(* close-delimited body (responses only): complete when the sender closes *)
UntilClose(s) ==
  IF ~s.eof THEN {}
  ELSE Deliver([s EXCEPT !.cur.b = s.buf, !.buf = "", !.cur.persist = FALSE])

(* the sender closed: an unfinished message is incomplete (RFC 9112 8) *)
AtEof(s) ==
  IF ~s.eof \/ s.ph = "untilclose" THEN {}
  ELSE IF View = "client" /\ s.rq = <<>> THEN Finish(s, IF s.buf = "" THEN "closed" ELSE "unspec")
  ELSE IF s.ph = "line" /\ s.buf = "" THEN Finish(s, IF View = "client" THEN "rejected" ELSE "closed")
  ELSE Finish(s, "rejected")

Adv(s) ==
  IF s.ph = "done" THEN {}
  ELSE LET n == CASE s.ph = "line" -> StartLine(s)
                  [] s.ph = "hdr" -> HeaderLine(s)
                  [] s.ph = "body" -> FixedBody(s)
                  [] s.ph = "chsize" -> ChunkSize(s)
                  [] s.ph = "chdata" -> ChunkData(s)
                  [] s.ph = "trailer" -> TrailerLine(s)
                  [] s.ph = "untilclose" -> UntilClose(s)
       IN IF n # {} THEN n ELSE AtEof(s)

RECURSIVE Run(_)
Run(T) == LET P == {s \in T : Adv(s) # {}} IN
  IF P = {} THEN T ELSE Run((T \ P) \cup UNION {Adv(s) : s \in P})

Feed(T, chunk) == Run({[s EXCEPT !.buf = IF s.ph = "done" THEN "" ELSE @ \o chunk] : s \in T})
FeedEof(T) == Run({[s EXCEPT !.eof = TRUE] : s \in T})

EndOf(s) == IF s.end # "" THEN s.end
            \* octets although no request is outstanding: what the client does with them is not specified
            ELSE IF View = "client" /\ s.rq = <<>> /\ s.buf # "" THEN "unspec"
            ELSE IF s.ph = "line" /\ s.buf = "" /\ (View = "server" \/ s.rq = <<>>) THEN "open" ELSE "partial"
Results(T) == {[out |-> s.out, end |-> EndOf(s)] : s \in T}

(* THE REFERENCE: all results a conforming recipient may derive *)
Frame(bytes, rq, eof) == LET T == Feed({PS0(rq)}, bytes) IN Results(IF eof THEN FeedEof(T) ELSE T)

----------------------------------------------------------------------------
(* 3. The state machine explored by TLC *)

Complete == msgs # <<>> /\ msgs[Len(msgs)].b # "?"

Init == /\ msgs = <<>> /\ mode = "build" /\ pos = 0 /\ S = {} /\ ctx = [rq |-> <<>>, eof |-> FALSE]

NewMsg(l) == /\ mode = "build" /\ Len(msgs) < MaxMsg /\ (msgs = <<>> \/ Complete)
             /\ msgs' = Append(msgs, [l |-> l, hs |-> <<>>, b |-> "?"])
             /\ UNCHANGED <<mode, pos, S, ctx>>
AddHdr(h) == /\ mode = "build" /\ msgs # <<>> /\ ~Complete /\ Len(msgs[Len(msgs)].hs) < MaxHdr
             /\ msgs' = [msgs EXCEPT ![Len(msgs)].hs = Append(@, h)]
             /\ UNCHANGED <<mode, pos, S, ctx>>
SetBody(b) == /\ mode = "build" /\ msgs # <<>> /\ ~Complete
              /\ msgs' = [msgs EXCEPT ![Len(msgs)].b = b]
              /\ UNCHANGED <<mode, pos, S, ctx>>
(* fix the context (client view: which requests are outstanding, does the peer close) *)
Seal(rq, eof) == /\ mode = "build" /\ Complete
                 /\ mode' = IF Seg = "all" THEN "recv" ELSE "sealed"
                 /\ ctx' = [rq |-> rq, eof |-> eof] /\ S' = {PS0(rq)}
                 /\ UNCHANGED <<msgs, pos>>
Recv == /\ mode = "recv"
        /\ LET B == Bytes(msgs) IN
             \E k \in 1..(Len(B) - pos) :
               /\ (RecvSizes = {} \/ k \in RecvSizes \/ k = Len(B) - pos)
               /\ S' = Feed(S, SubSeq(B, pos + 1, pos + k)) /\ pos' = pos + k
        /\ UNCHANGED <<msgs, mode, ctx>>
Eof == /\ mode = "recv" /\ pos = Len(Bytes(msgs)) /\ ctx.eof
       /\ S' = FeedEof(S) /\ mode' = "end"
       /\ UNCHANGED <<msgs, pos, ctx>>

Contexts == IF View = "server" THEN {<<>>} ELSE {Split(x, "+") : x \in ReqSeqs}   \* "GET+HEAD" -> <<"GET", "HEAD">>

Next == \/ \E l \in LineToks : NewMsg(l)
        \/ \E h \in HdrToks : AddHdr(h)
        \/ \E b \in BodyToks : SetBody(b)
        \/ \E rq \in Contexts, e \in Eofs : Seal(rq, e)
        \/ Recv
        \/ Eof

----------------------------------------------------------------------------
(* Properties of the reference *)

(* however the octets are split into reads, the result is Frame(stream) *)
SegmentationIndependent ==
  /\ (mode = "recv" /\ pos = Len(Bytes(msgs)) /\ ~ctx.eof) => Results(S) = Frame(Bytes(msgs), ctx.rq, FALSE)
  /\ mode = "end" => Results(S) = Frame(Bytes(msgs), ctx.rq, TRUE)

(* deliveries derived from a prefix of the stream are never revised by later octets *)
PrefixStable ==
  [][mode = "recv" => \A s2 \in S' : \E s1 \in S : IsPrefix(s1.out, s2.out)]_vars

(* token-level description of ambiguous framing (independent of the octet parser) *)
TETok == {"te", "teuc", "tegz", "tecg", "teid"}
BadCL == {"clplus", "clminus", "cljunk", "clempty", "cllist2"}
CLVal(t) == CASE t = "cl0" -> 0 [] t \in {"cl3", "clows", "cllist"} -> 3 [] t = "cl5" -> 5 [] OTHER -> -1
Ambig(m) ==
  LET T == {i \in 1..Len(m.hs) : m.hs[i] \in TETok}
      C == {CLVal(m.hs[i]) : i \in 1..Len(m.hs)} \ {-1}
  IN \/ T # {} /\ m.hs[Max(T)] \in {"tecg", "teid"}          \* final coding is not chunked
     \/ View = "server" /\ \E i \in 1..Len(m.hs) : m.hs[i] \in {"clspc", "xspc"}
     \/ T = {} /\ \E i \in 1..Len(m.hs) : m.hs[i] \in BadCL  \* malformed Content-Length
     \/ T = {} /\ Cardinality(C) > 1                          \* conflicting Content-Length
FirstAmbig == LET I == {i \in 1..Len(msgs) : Ambig(msgs[i])} IN IF I = {} THEN 0 ELSE Min(I)
(* "tecg"/"teid" in a response make the body close-delimited instead (RFC 9112 6.3 rule 4) *)
NoGuessing ==
  (mode # "build" /\ FirstAmbig > 0 /\ View = "server") =>
     \A s \in S : Len(s.out) < FirstAmbig
NoGuessingClient ==
  (mode # "build" /\ FirstAmbig > 0 /\ View = "client" /\
   ~\E i \in 1..Len(msgs[FirstAmbig].hs) : msgs[FirstAmbig].hs[i] \in {"tecg", "teid"}) =>
     \* (a response to HEAD and a 204 / 304 response end after the header section whatever their fields say,
     \*  RFC 9112 6.3 rule 1 - their Content-Length is not used for framing, so nothing is guessed)
     \A s \in S : \/ Len(s.out) < FirstAmbig \/ ctx.rq = <<>> \/ \E i \in 1..FirstAmbig : msgs[i].l = "s100"
                  \/ msgs[FirstAmbig].l \in {"s204", "s304"}
                  \/ (FirstAmbig <= Len(ctx.rq) /\ ctx.rq[FirstAmbig] = "HEAD")

TypeOK == mode \in {"build", "sealed", "recv", "end"} /\ pos >= 0

----------------------------------------------------------------------------
(* Generation: one line per sealed stream *)
ValJ(v) == v
HdrJ(h) == [i \in 1..Len(h) |-> [n |-> h[i].n, v |-> h[i].v]]
OutJ(o) == [i \in 1..Len(o) |-> [m |-> o[i].m, t |-> o[i].t, v |-> o[i].v, code |-> o[i].code, h |-> HdrJ(o[i].h),
                                 trl |-> HdrJ(o[i].trl), b |-> o[i].b, anyb |-> o[i].anyb]]
AltsJ(R) == SetToSeq({[out |-> OutJ(r.out), end |-> r.end] : r \in R})
Emit == (mode = "sealed") =>
  LET B == Bytes(msgs) IN
  PrintT(ToJson([toks |-> msgs, bytes |-> B, rq |-> ctx.rq, eof |-> ctx.eof,
                 alts |-> AltsJ(Frame(B, ctx.rq, ctx.eof)),
                 pre |-> IF Prefixes THEN [p \in 1..(Len(B) - 1) |-> AltsJ(Frame(SubSeq(B, 1, p), ctx.rq, TRUE))]
                         ELSE <<>>]))

GenConstraint == TRUE
=============================================================================
