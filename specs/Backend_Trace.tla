-------------------------- MODULE Backend_Trace --------------------------
(* C04, binding V: validation of traces recorded from the real backends.

   The trace (ndjson, environment variable TRACE) is a concatenation of
   executions of TLC-generated scenarios by harness/backend_drv.c in "real"
   mode.  Event kinds:
     reset                      a new execution starts (fresh base, fresh fds)
     add{ev,fd,m,et} del{ev} close{fd} reopen{fd} env{a,fd} reinit
     wait{p,p2,rep,cb}          one loop iteration: probes of every fd before and
                                after, what the kernel reported, the callbacks
   Every event is replayed with the step functions of Backend.tla (so that the
   abstract state - added events, changelist, edges - is the specification's),
   and every wait is judged by Verdict.  Verdicts are printed (one line per
   rejected wait) instead of stopping at the first one; Done is printed when the
   whole trace has been consumed. *)
EXTENDS Backend, IOUtils

VARIABLES l, scen

Trace == ndJsonDeserialize(IOEnv.TRACE)
tvars == <<st, hist, l, scen>>

TInit == st = InitSt /\ hist = <<>> /\ l = 1 /\ scen = 0

Ev == Trace[l]
Step ==
  /\ l <= Len(Trace)
  /\ l' = l + 1
  /\ UNCHANGED hist
  /\ LET t == Ev IN
     CASE t.e = "reset"  -> st' = InitSt /\ scen' = t.n
       [] t.e = "add"    -> /\ Assert(AddLegal(st, t.ev, t.fd, SetOf(t.m), t.et = 1), <<"illegal add in trace", l>>)
                            /\ st' = AddStep(st, t.ev, t.fd, SetOf(t.m), t.et = 1).s /\ UNCHANGED scen
       [] t.e = "del"    -> st' = DelStep(st, t.ev).s /\ UNCHANGED scen
       [] t.e = "close"  -> st' = CloseStep(st, t.fd) /\ UNCHANGED scen
       [] t.e = "reopen" -> st' = ReopenStep(st, t.fd) /\ UNCHANGED scen
       [] t.e = "reinit" -> st' = ReinitStep(st) /\ UNCHANGED scen
       [] t.e = "env"    -> /\ Assert(EnvLegal(st, t.a, t.fd), <<"illegal env op in trace", l>>)
                            /\ st' = EnvStep(st, t.a, t.fd) /\ UNCHANGED scen
       [] t.e = "wait"   -> LET S == PreWait(st)
                                v == Verdict(S, t.p, t.p2, t.rep, t.cb)
                            IN /\ (v # "" => PrintT(ToJson([scen |-> scen, l |-> l, verdict |-> v])))
                               /\ st' = WaitStep(st) /\ UNCHANGED scen
       [] OTHER -> FALSE
Finish ==
  /\ l = Len(Trace) + 1
  /\ PrintT(ToJson([done |-> Len(Trace)]))
  /\ l' = l + 1 /\ UNCHANGED <<st, hist, scen>>
TNext == Step \/ Finish
(* the C05 invariants keep being evaluated along every validated trace *)
TraceInv == TypeOK /\ CountsOK /\ PollArrayOK /\ ChangelistOK
=============================================================================
