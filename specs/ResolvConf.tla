--------------------------- MODULE ResolvConf ---------------------------
(* Reference model of evdns configuration (property C39):

     evdns_base_resolv_conf_parse(base, flags, file)
     evdns_base_load_hosts(base, file) / evdns_base_clear_host_addresses
     evdns_base_set_option(base, name, value)

   Files are sequences of *line tokens*; every token carries its text (built
   here, shipped to the driver verbatim) and its meaning under the documented
   syntax (resolv.conf(5) / hosts(5) / event2/dns.h).  The abstract state `st`
   is what the documentation says the configuration is afterwards:

     ns      set of configured nameservers ("ip:port", canonical text)
     search  search list (sequence of domains; FromHost = derived from gethostname)
     ndots, attempts, timeout, inflight, randcase, edns
             each a SET of admissible values: where the documentation leaves the
             treatment of an out-of-range value open the reference admits every
             documented reading (clip to the bound, reject and keep the old value)
             but never the raw out-of-range value
     hosts   sequence of [n |-> name, a |-> address] in file order

   `hist` records each API call with the predicted observation (binding G):
     r      admissible return values
     ns     the nameserver set (sorted)
     hosts  for every name of the lookup battery the address list evdns_getaddrinfo
            must produce from the hosts table
     probe  what a fake nameserver must see afterwards (driver runs it after the
            last call of a history): for each probe name the admissible sequences of
            question names (search list order by ndots), the admissible number of
            transmissions to a silent server and the time between them, whether 0x20
            case randomisation is on, the EDNS payload size advertised, and how many
            requests are put on the wire at once (saturating at InflightProbe).
*)
EXTENDS Integers, Sequences, FiniteSets, TLC, Json

CONSTANTS
  D,            \* history length bound
  MaxLines,     \* lines per generated file
  ConfIdx,      \* subset of DOMAIN ConfLines usable in resolv.conf files
  HostIdx,      \* subset of DOMAIN HostLines usable in hosts files
  OptIdx,       \* subset of DOMAIN OptCalls usable for evdns_base_set_option
  FlagSet,      \* flags values for resolv_conf_parse
  Acts,         \* subset of {"conf", "confmissing", "hosts", "hostsnull", "hostsmissing", "clearhosts", "opt"}
  KnownNdotsReset, \* TRUE: tolerate the known finding (ndots forgotten when a search/domain line is applied)
  RandomFiles,  \* TRUE: files are random sequences of MaxLines-bounded length (simulation), FALSE: all files
  NlSet,        \* subset of {0, 1}: file ends without / with a newline
  HostDomain    \* the domain part of gethostname() on the test machine ("" if none)

VARIABLES st, hist
vars == <<st, hist>>

InflightProbe == 70
F_SEARCH == 1
F_NS == 2
F_MISC == 4
F_NODEFAULT == 16
Has(fl, bit) == (fl \div bit) % 2 = 1

----------------------------------------------------------------------------
(* helpers *)
RECURSIVE SetToSortedSeq(_)
SetToSortedSeq(S) == IF S = {} THEN <<>>
                     ELSE LET m == CHOOSE x \in S : \A y \in S : x <= y
                          IN <<m>> \o SetToSortedSeq(S \ {m})
RECURSIVE StrSetToSeq(_)
StrSetToSeq(S) == IF S = {} THEN <<>> ELSE LET m == CHOOSE x \in S : TRUE IN <<m>> \o StrSetToSeq(S \ {m})
RECURSIVE Dbl(_, _)
Dbl(s, k) == IF k = 0 THEN s ELSE Dbl(s \o s, k - 1)     \* s repeated 2^k times
RECURSIVE JoinWords(_, _)
JoinWords(ws, sep) == IF ws = <<>> THEN "" ELSE IF Len(ws) = 1 THEN ws[1] ELSE ws[1] \o sep \o JoinWords(Tail(ws), sep)
Min(a, b) == IF a < b THEN a ELSE b
Range(f) == {f[i] : i \in DOMAIN f}

(* address words: text -> canonical nameserver / host address ("" = not an address) *)
NsCanon(w) ==
  CASE w = "10.0.0.1" -> "10.0.0.1:53"
    [] w = "10.0.0.2:5353" -> "10.0.0.2:5353"
    [] w = "10.0.0.3" -> "10.0.0.3:53"
    [] w = "2001:db8::1" -> "[2001:db8::1]:53"
    [] w = "[2001:db8::2]:5300" -> "[2001:db8::2]:5300"
    [] w = "[2001:db8::3]" -> "[2001:db8::3]:53"
    [] OTHER -> ""          \* "999.1.1.1", "10.0.0", "ns.example", "1.2.3.4.5", "10.0.0.1:99999", long digit strings ...

(* numerals: text -> value; -1 = not a decimal number *)
Num(s) ==
  CASE s = "0" -> 0 [] s = "1" -> 1 [] s = "2" -> 2 [] s = "3" -> 3 [] s = "4" -> 4 [] s = "5" -> 5
    [] s = "7" -> 7 [] s = "15" -> 15 [] s = "20" -> 20 [] s = "45" -> 45 [] s = "100" -> 100 [] s = "300" -> 300
    [] s = "512" -> 512 [] s = "1232" -> 1232 [] s = "4096" -> 4096 [] s = "65535" -> 65535
    [] s = "70000" -> 70000 [] s = "100000" -> 100000
    [] OTHER -> -1          \* "x", "2x", "x2", "1.5x", "0x10", " 2" ...

----------------------------------------------------------------------------
(* Options.  Apply(name, v, old) = admissible new values given one old value;
   Ret(name, v) = admissible return values of evdns_base_set_option. *)
OptNames == {"ndots", "attempts", "timeout", "max-inflight", "randomize-case", "edns-udp-size"}
Field(name) == CASE name = "ndots" -> "ndots" [] name = "attempts" -> "attempts" [] name = "timeout" -> "timeout"
                 [] name = "max-inflight" -> "inflight" [] name = "randomize-case" -> "randcase"
                 [] name = "edns-udp-size" -> "edns" [] OTHER -> ""
NeedFlag(name) == IF name = "ndots" THEN F_SEARCH ELSE F_MISC

(* the part of the name before an optional trailing ':' is what identifies the option *)
BaseName(n) ==
  CASE n \in {"ndots", "ndots:"} -> "ndots" [] n \in {"attempts", "attempts:"} -> "attempts"
    [] n \in {"timeout", "timeout:"} -> "timeout" [] n \in {"max-inflight", "max-inflight:"} -> "max-inflight"
    [] n \in {"randomize-case", "randomize-case:"} -> "randomize-case"
    [] n \in {"edns-udp-size", "edns-udp-size:"} -> "edns-udp-size"
    [] n \in {"max-timeouts", "max-timeouts:"} -> "max-timeouts"
    [] n \in {"use-vc", "ignore-tc"} -> n
    [] OTHER -> "?"

Apply(name, v, old) ==
  LET n == Num(v) IN
  IF n < 0 THEN {old}
  ELSE CASE name = "ndots" -> IF n <= 15 THEN {n} ELSE {n, 15, old}
         [] name = "attempts" -> IF n = 0 THEN {1, old} ELSE IF n <= 5 THEN {n} ELSE {Min(n, 255), 5, old}
         [] name = "timeout" -> IF n = 0 THEN {old} ELSE IF n <= 30 THEN {n} ELSE {n, 30, old}
         [] name = "max-inflight" -> IF n = 0 THEN {1, old} ELSE IF n <= 65000 THEN {Min(n, InflightProbe)} ELSE {InflightProbe, old}
         [] name = "randomize-case" -> IF n = 0 THEN {0} ELSE IF n = 1 THEN {1} ELSE {1, old}
         [] name = "edns-udp-size" -> IF n <= 512 THEN {0, old} ELSE IF n <= 65535 THEN {n} ELSE {65535, old}
         [] OTHER -> {old}
Ret(name, v) ==
  LET n == Num(v) IN
  CASE name \in OptNames \cup {"max-timeouts"} ->
         IF n < 0 THEN {-1}
         ELSE IF (name = "ndots" /\ n > 15) \/ (name = "attempts" /\ (n = 0 \/ n > 5)) \/ (name = "timeout" /\ (n = 0 \/ n > 30))
                 \/ (name = "max-inflight" /\ (n = 0 \/ n > 65000)) \/ (name = "randomize-case" /\ n > 1)
                 \/ (name = "edns-udp-size" /\ (n < 512 \/ n > 65535)) \/ (name = "max-timeouts" /\ (n = 0 \/ n > 255))
              THEN {0, -1} ELSE {0}
    [] name \in {"use-vc", "ignore-tc"} -> IF v = "" THEN {0} ELSE {-1}
    [] OTHER -> {0, -1}        \* unknown option name: the documentation does not say

SetOpt(S, name, v) ==
  IF name \in OptNames
  THEN LET f == Field(name) IN [S EXCEPT ![f] = UNION {Apply(name, v, o) : o \in S[f]}]
  ELSE S

----------------------------------------------------------------------------
(* resolv.conf line tokens *)
LongJunk == Dbl("junkjunk", 9)          \* 4096 characters
OptWord(o) == IF o.v = "@word" THEN o.n ELSE o.n \o ":" \o o.v       \* "@word": an option word without ':' and value
RECURSIVE OptWords(_)
OptWords(os) == IF os = <<>> THEN <<>> ELSE <<OptWord(Head(os))>> \o OptWords(Tail(os))

NsLine(w, sep, trail) == [k |-> "ns", w |-> w, t |-> "nameserver" \o sep \o w \o trail]
SearchLine(ds, sep) == [k |-> "search", d |-> ds, t |-> JoinWords(<<"search">> \o ds, sep)]
DomainLine(ds) == [k |-> "domain", d |-> ds, t |-> JoinWords(<<"domain">> \o ds, " ")]
OptLine(os) == [k |-> "opts", o |-> os, t |-> JoinWords(<<"options">> \o OptWords(os), " ")]
NoneLine(t) == [k |-> "none", t |-> t]
O(n, v) == [n |-> n, v |-> v]

ConfLines == <<
  (*  1 *) NsLine("10.0.0.1", " ", ""),
  (*  2 *) NsLine("10.0.0.2:5353", "\t", ""),
  (*  3 *) NsLine("10.0.0.3", "  ", " # trailing words"),
  (*  4 *) NsLine("2001:db8::1", " ", ""),
  (*  5 *) NsLine("[2001:db8::2]:5300", " ", "\t"),
  (*  6 *) NsLine("999.1.1.1", " ", ""),                    \* not an address: skipped
  (*  7 *) NsLine("ns.example", " ", ""),                   \* host name: skipped
  (*  8 *) NoneLine("nameserver"),                          \* no argument: skipped
  (*  9 *) NsLine("10.0.0.1", " ", " "),                    \* repeats line 1
  (* 10 *) NsLine(Dbl("1234567890", 5), " ", ""),            \* 320 digits
  (* 11 *) SearchLine(<<"a.example", "b.example">>, " "),
  (* 12 *) SearchLine(<<"c.example">>, "\t"),
  (* 13 *) SearchLine(<<"d.example", "e.example", "f.example">>, "  "),
  (* 14 *) DomainLine(<<"g.example">>),
  (* 15 *) DomainLine(<<>>),                                 \* no argument: no effect
  (* 16 *) OptLine(<<O("ndots", "2")>>),
  (* 17 *) OptLine(<<O("ndots", "0"), O("attempts", "2"), O("timeout", "2")>>),
  (* 18 *) OptLine(<<O("ndots", "x"), O("attempts", "4")>>),   \* bad value skipped, the next option applies
  (* 19 *) OptLine(<<O("bogus", "1"), O("timeout", "3"), O("rotate", "")>>),
  (* 20 *) OptLine(<<O("attempts", "300"), O("max-inflight", "0")>>),
  (* 21 *) OptLine(<<O("randomize-case", "0"), O("edns-udp-size", "1232")>>),
  (* 22 *) OptLine(<<O("edns-udp-size", "100"), O("max-inflight", "2")>>),
  (* 23 *) OptLine(<<O("edns-udp-size", "70000"), O("ndots", "3"), O("timeout", "2x")>>),
  (* 24 *) OptLine(<<O("max-inflight", "100000"), O("attempts", "1"), O("ndots", "20")>>),
  (* 25 *) NoneLine("# nameserver 10.9.9.9"),
  (* 26 *) NoneLine("; search zz.example"),
  (* 27 *) NoneLine(""),
  (* 28 *) NoneLine(" \t "),
  (* 29 *) NoneLine("nameserverx 10.9.9.8"),
  (* 30 *) NoneLine("sortlist 10.0.0.0/255.0.0.0"),
  (* 31 *) NoneLine(LongJunk),
  (* 32 *) NoneLine("# " \o LongJunk \o " nameserver 10.9.9.7"),
  (* 33 *) NoneLine("options"),
  (* 34 *) NoneLine("foo nameserver 10.9.9.6"),
  (* 35 *) OptLine(<<O("ndots", "1")>>),
  (* 36 *) NsLine("[2001:db8::3]", " ", ""),
  (* words that merely start with the name of an option are not that option *)
  (* 37 *) OptLine(<<O("ndots", "3"), O("ndots7", "@word"), O("attemptsx", "4"), O("timeoutx", "@word")>>),
  (* 38 *) OptLine(<<O("attempts", "2"), O("attempts5", "@word"), O("timeout2", "3"), O("edns-udp-sizes", "4096"), O("randomize-case0", "@word")>>)
>>

RECURSIVE ApplyOpts(_, _, _)
ApplyOpts(S, os, fl) ==
  IF os = <<>> THEN S
  ELSE LET o == Head(os)
           b == BaseName(o.n)
           S1 == IF b \in OptNames /\ Has(fl, NeedFlag(b)) THEN SetOpt(S, b, o.v) ELSE S
       IN ApplyOpts(S1, Tail(os), fl)

(* a search / domain directive replaces the list; known finding: libevent also forgets ndots *)
SetSearch(S, ds) == [S EXCEPT !.search = ds, !.ndots = IF KnownNdotsReset THEN @ \cup {1} ELSE @]

ApplyConfLine(S, ln, fl) ==
  CASE ln.k = "ns" -> IF Has(fl, F_NS) /\ NsCanon(ln.w) # "" THEN [S EXCEPT !.ns = @ \cup {NsCanon(ln.w)}] ELSE S
    [] ln.k = "search" -> IF Has(fl, F_SEARCH) THEN SetSearch(S, ln.d) ELSE S
    [] ln.k = "domain" -> IF Has(fl, F_SEARCH) /\ ln.d # <<>> THEN SetSearch(S, ln.d) ELSE S
    [] ln.k = "opts" -> ApplyOpts(S, ln.o, fl)
    [] OTHER -> S

RECURSIVE ApplyConf(_, _, _)
ApplyConf(S, ls, fl) == IF ls = <<>> THEN S ELSE ApplyConf(ApplyConfLine(S, ConfLines[Head(ls)], fl), Tail(ls), fl)

FromHost == IF HostDomain = "" THEN <<>> ELSE <<HostDomain>>
(* after the file: default nameserver, search list from the host name *)
ConfEpilogue(S, fl) ==
  LET addDefault == Has(fl, F_NS) /\ ~Has(fl, F_NODEFAULT)
      S1 == IF S.ns = {} /\ addDefault THEN [S EXCEPT !.ns = {"127.0.0.1:53"}] ELSE S
      S2 == IF Has(fl, F_SEARCH) /\ S1.search = <<>> THEN SetSearch(S1, FromHost) ELSE S1
  IN S2
ConfRet(S, fl) ==
  IF S.ns # {} THEN {0}
  ELSE IF Has(fl, F_NS) /\ ~Has(fl, F_NODEFAULT) THEN {6}
  ELSE {0, 6}          \* nothing configured and no default wanted: both readings admitted

----------------------------------------------------------------------------
(* hosts file line tokens *)
HAddr(w) == CASE w = "10.1.1.1" -> "10.1.1.1" [] w = "10.1.1.2" -> "10.1.1.2" [] w = "10.1.1.3" -> "10.1.1.3"
              [] w = "::1" -> "::1" [] w = "2001:db8::5" -> "2001:db8::5" [] w = "127.0.0.1" -> "127.0.0.1"
              [] OTHER -> ""     \* "999.1.1.1", "10.1.1.4:80" (port), "notanip", ...
HostLine(w, names, sep, trail) == [w |-> w, n |-> names, t |-> JoinWords(<<w>> \o names, sep) \o trail]
HostLines == <<
  (*  1 *) HostLine("10.1.1.1", <<"alpha">>, " ", ""),
  (*  2 *) HostLine("10.1.1.2", <<"beta", "gamma">>, "\t", ""),
  (*  3 *) HostLine("2001:db8::5", <<"alpha", "delta">>, "  ", ""),
  (*  4 *) HostLine("10.1.1.3", <<"alpha">>, " ", " # second address of alpha, zeta"),
  (*  5 *) HostLine("10.1.1.3", <<"eps">>, " ", "#glued comment"),
  (*  6 *) HostLine("999.1.1.1", <<"beta">>, " ", ""),
  (*  7 *) HostLine("10.1.1.4:80", <<"gamma">>, " ", ""),
  (*  8 *) HostLine("notanip", <<"delta">>, " ", ""),
  (*  9 *) HostLine("10.1.1.1", <<>>, " ", ""),
  (* 10 *) HostLine("#", <<"10.1.1.1", "zeta">>, " ", ""),
  (* 11 *) HostLine("", <<>>, " ", ""),
  (* 12 *) HostLine("10.1.1.2", <<"MixedCase">>, " ", ""),
  (* 13 *) HostLine("10.1.1.1", <<Dbl("h", 8)>>, " ", ""),        \* 256-character name
  (* 14 *) HostLine("#", <<LongJunk>>, "", ""),
  (* 15 *) HostLine("::1", <<"beta">>, "\t\t", "\t"),
  (* '#' starts a comment wherever it stands: the words after it are not host names *)
  (* 16 *) HostLine("10.1.1.3", <<"eps">>, " ", "#primary beta gamma"),          \* glued to the name, more words follow
  (* 17 *) HostLine("10.1.1.2", <<"delta">>, " ", " #beta gamma"),                \* at the start of the 2nd word
  (* 18 *) HostLine("10.1.1.1", <<"zeta", "delta">>, "\t", " #gamma alpha\tbeta"), \* at the start of the 3rd word
  (* 19 *) HostLine("2001:db8::5", <<"gamma", "eps">>, " ", "#x alpha beta # delta") \* glued to the 2nd name
>>
LookupNames == <<"alpha", "beta", "gamma", "delta", "eps", "zeta", "mixedcase", "localhost", "nosuch">>
Lower(n) == IF n = "MixedCase" THEN "mixedcase" ELSE n

RECURSIVE Entries(_, _)
Entries(a, names) == IF names = <<>> THEN <<>> ELSE <<[n |-> Lower(Head(names)), a |-> a]>> \o Entries(a, Tail(names))
ApplyHostLine(H, ln) == IF HAddr(ln.w) = "" THEN H ELSE H \o Entries(HAddr(ln.w), ln.n)
RECURSIVE ApplyHosts(_, _)
ApplyHosts(H, ls) == IF ls = <<>> THEN H ELSE ApplyHosts(ApplyHostLine(H, HostLines[Head(ls)]), Tail(ls))
Localhost == <<[n |-> "localhost", a |-> "127.0.0.1"], [n |-> "localhost", a |-> "::1"]>>

RECURSIVE AddrsOf(_, _)
AddrsOf(H, name) == IF H = <<>> THEN <<>>
                    ELSE (IF Head(H).n = name THEN <<Head(H).a>> ELSE <<>>) \o AddrsOf(Tail(H), name)

----------------------------------------------------------------------------
(* set_option calls *)
OptCalls == <<
  O("ndots", "2"), O("ndots:", "0"), O("ndots", "3"), O("ndots", "x"), O("ndots", "20"),
  O("attempts", "1"), O("attempts:", "4"), O("attempts", "300"), O("attempts", "2x"),
  O("timeout", "2"), O("timeout:", "3"), O("timeout", "45"), O("timeout", "x2"),
  O("max-inflight", "1"), O("max-inflight:", "3"), O("max-inflight", "0"), O("max-inflight", "100000"), O("max-inflight", "x"),
  O("randomize-case", "0"), O("randomize-case:", "1"), O("randomize-case", "x"),
  O("edns-udp-size", "1232"), O("edns-udp-size:", "4096"), O("edns-udp-size", "100"), O("edns-udp-size", "70000"), O("edns-udp-size", "x"),
  O("max-timeouts", "2"), O("max-timeouts", "x"), O("use-vc", "1"), O("ignore-tc", ""), O("ignore-tc", "yes"),
  O("no-such-option", "1"), O("ndotsx", "2"),
  O("attemptsx", "4"), O("timeout7", "3"), O("max-inflightx", "2"), O("randomize-casex", "0"), O("edns-udp-size2", "1232")
>>

----------------------------------------------------------------------------
(* predictions *)
NumDots(name) == CASE name = "p" -> 0 [] name = "p.q" -> 1 [] name = "p.q.r.s" -> 3 [] OTHER -> 0
ProbeNames == <<"p", "p.q", "p.q.r.s">>
RECURSIVE WithDomains(_, _)
WithDomains(name, ds) == IF ds = <<>> THEN <<>> ELSE <<name \o "." \o Head(ds)>> \o WithDomains(name, Tail(ds))
(* resolv.conf(5): names with at least ndots dots are tried as is first, the others last *)
SearchSeq(name, ds, nd) ==
  IF ds = <<>> THEN <<name>>
  ELSE IF NumDots(name) >= nd THEN <<name>> \o WithDomains(name, ds) ELSE WithDomains(name, ds) \o <<name>>
SeqSetToSeq(S) == LET RECURSIVE R(_)
                      R(T) == IF T = {} THEN <<>> ELSE LET m == CHOOSE x \in T : TRUE IN <<m>> \o R(T \ {m})
                  IN R(S)

Probe(S) ==
  [ search |-> S.search,
    q |-> [i \in 1..Len(ProbeNames) |-> SeqSetToSeq({SearchSeq(ProbeNames[i], S.search, nd) : nd \in S.ndots})],
    ndots |-> SetToSortedSeq(S.ndots),
    attempts |-> SetToSortedSeq(S.attempts), timeout |-> SetToSortedSeq(S.timeout),
    inflight |-> SetToSortedSeq(S.inflight), randcase |-> SetToSortedSeq(S.randcase),
    edns |-> SetToSortedSeq(S.edns) ]
Obs(S, rets) ==
  [ r |-> SetToSortedSeq(rets), ns |-> StrSetToSeq(S.ns),
    hosts |-> [i \in 1..Len(LookupNames) |-> AddrsOf(S.hosts, LookupNames[i])],
    probe |-> Probe(S) ]

InitSt == [ ns |-> {}, search |-> <<>>, ndots |-> {1}, attempts |-> {3}, timeout |-> {5}, inflight |-> {64},
            randcase |-> {1}, edns |-> {0}, hosts |-> <<>> ]

RECURSIVE Texts(_, _)
Texts(tab, ls) == IF ls = <<>> THEN <<>> ELSE <<tab[Head(ls)].t>> \o Texts(tab, Tail(ls))
Files(idx) == IF RandomFiles
              THEN {[i \in 1..n |-> RandomElement(idx)] : n \in {RandomElement(0..MaxLines)}}
              ELSE UNION {[1..n -> idx] : n \in 0..MaxLines}


Conf ==
  /\ Len(hist) < D /\ "conf" \in Acts
  /\ \E fl \in FlagSet : \E ls \in Files(ConfIdx) : \E nl \in NlSet :
       LET S1 == ConfEpilogue(ApplyConf(st, ls, fl), fl)
           S0 == ApplyConf(st, ls, fl)
       IN /\ st' = S1
          /\ hist' = Append(hist, [a |-> "conf", fl |-> fl, ls |-> ls, nl |-> nl,
                                   o |-> Obs(S1, ConfRet(S0, fl))])
ConfMissing ==      \* the file does not exist: "assume a local resolver"
  /\ Len(hist) < D /\ "confmissing" \in Acts
  /\ \E fl \in FlagSet :
       LET S1 == [st EXCEPT !.ns = IF Has(fl, F_NS) /\ ~Has(fl, F_NODEFAULT) THEN @ \cup {"127.0.0.1:53"} ELSE @]
           S2 == IF Has(fl, F_SEARCH) THEN SetSearch(S1, FromHost) ELSE S1
       IN /\ st' = S2
          /\ hist' = Append(hist, [a |-> "confmissing", fl |-> fl, o |-> Obs(S2, {1})])
Hosts ==
  /\ Len(hist) < D /\ "hosts" \in Acts
  /\ \E ls \in Files(HostIdx) : \E nl \in NlSet :
       LET S1 == [st EXCEPT !.hosts = ApplyHosts(@, ls)]
       IN /\ st' = S1
          /\ hist' = Append(hist, [a |-> "hosts", ls |-> ls, nl |-> nl, o |-> Obs(S1, {0})])
HostsNull ==
  /\ Len(hist) < D /\ "hostsnull" \in Acts
  /\ LET S1 == [st EXCEPT !.hosts = @ \o Localhost]
     IN /\ st' = S1 /\ hist' = Append(hist, [a |-> "hostsnull", o |-> Obs(S1, {0})])
ClearHosts ==
  /\ Len(hist) < D /\ "clearhosts" \in Acts
  /\ LET S1 == [st EXCEPT !.hosts = <<>>]
     IN /\ st' = S1 /\ hist' = Append(hist, [a |-> "clearhosts", o |-> Obs(S1, {0})])
Opt ==
  /\ Len(hist) < D /\ "opt" \in Acts
  /\ \E i \in (IF RandomFiles THEN {RandomElement(OptIdx)} ELSE OptIdx) :
       LET c == OptCalls[i]
           b == BaseName(c.n)
           S1 == SetOpt(st, b, c.v)
       IN /\ st' = S1
          /\ hist' = Append(hist, [a |-> "opt", n |-> c.n, v |-> c.v, o |-> Obs(S1, Ret(b, c.v))])

Init == st = InitSt /\ hist = <<>>
Next == Conf \/ ConfMissing \/ Hosts \/ HostsNull \/ ClearHosts \/ Opt
Spec == Init /\ [][Next]_vars

----------------------------------------------------------------------------
(* Properties of the reference itself *)
TypeOK ==
  /\ st.ns \subseteq {NsCanon(ConfLines[i].w) : i \in {j \in DOMAIN ConfLines : ConfLines[j].k = "ns"}} \cup {"127.0.0.1:53"}
  /\ \A f \in {"ndots", "attempts", "timeout", "inflight", "randcase", "edns"} : st[f] # {} /\ \A x \in st[f] : x >= 0
(* no admissible value is ever outside the documented range of its option *)
InRange ==
  /\ \A x \in st.attempts : x <= 255
  /\ \A x \in st.inflight : 1 <= x /\ x <= InflightProbe
  /\ \A x \in st.edns : x = 0 \/ (512 < x /\ x <= 65535)
  /\ \A x \in st.randcase : x \in {0, 1}
  /\ \A x \in st.timeout : x >= 1
(* malformed lines do not affect well-formed ones: removing every line without
   meaning from a file does not change the result (checked on each Conf step) *)
Meaningless(i) == LET l == ConfLines[i] IN l.k = "none" \/ (l.k = "ns" /\ NsCanon(l.w) = "") \/ (l.k = "domain" /\ l.d = <<>>)
SkipMalformed ==
  [][\A h \in {hist'[Len(hist')]} : (Len(hist') > Len(hist) /\ h.a = "conf") =>
       ConfEpilogue(ApplyConf(st, SelectSeq(h.ls, LAMBDA i : ~Meaningless(i)), h.fl), h.fl) = st']_vars
(* the last search / domain directive wins *)
LastSearchWins ==
  [][\A h \in {hist'[Len(hist')]} : (Len(hist') > Len(hist) /\ h.a = "conf" /\ Has(h.fl, F_SEARCH)) =>
       LET ss == SelectSeq(h.ls, LAMBDA i : ConfLines[i].k \in {"search", "domain"} /\ ConfLines[i].d # <<>>)
       IN ss # <<>> => st'.search = ConfLines[ss[Len(ss)]].d]_vars

GenConstraint == Len(hist) <= D
(* the file text travels with the printed history only (not with the state) *)
WithText(h) == IF h.a = "conf" THEN h @@ [lines |-> Texts(ConfLines, h.ls)]
               ELSE IF h.a = "hosts" THEN h @@ [lines |-> Texts(HostLines, h.ls)] ELSE h
Emit == (Len(hist) >= 1) => PrintT(ToJson([i \in 1..Len(hist) |-> WithText(hist[i])]))
=============================================================================
