----------------------------- MODULE DnsMsgQ -----------------------------
(* C36: which queries a resolver must put on the wire for a requested name.
   A requested name is a token [ls, trail]: label byte strings (an empty string is an empty
   label, as in "a..b" or ".a") and whether the text ends with a dot; the text handed to the
   API is the labels joined with '.', computed by the glue from these bytes.
   QueryFor gives the reference prediction when every answer is NXDOMAIN:
     [k |-> "fail"]            the name cannot be encoded as valid labels: nothing may be transmitted
     [k |-> "seq", names]      exactly these question names, in this order (resolv.conf(5) search order)
     [k |-> "first", names]    the first question is names[1]; later ones are any of `names`
                               (with mayfail: the request may also fail without transmitting anything)
     [k |-> "set", names]      every question is one of `names`, in any order
   The bytes actually captured are judged by DnsMsg!QueryOK in DnsMsgV (binding V). *)
EXTENDS DnsMsg

CONSTANTS NameIdx, SearchIdx, NdotsSet, TypeSet, FlagSet, CaseSet, EdnsSet
VARIABLES cur, n

X(c, k) == RepSeq(<<c>>, k)
ab == <<97, 98>>
cd == <<99, 100>>
N(ls, trail) == [ls |-> ls, trail |-> trail]
Names == <<
  (*  1 *) N(<<ab, cd>>, FALSE),
  (*  2 *) N(<<ab>>, FALSE),
  (*  3 *) N(<<ab, cd>>, TRUE),                                   \* "ab.cd."
  (*  4 *) N(<<<<65, 98, 45, 49>>, <<88, 121, 90>>, cd>>, FALSE),  \* "Ab-1.XyZ.cd" (mixed case)
  (*  5 *) N(<<ab, <<>>, cd>>, FALSE),                            \* "ab..cd"  empty label
  (*  6 *) N(<<<<>>, ab>>, FALSE),                                \* ".ab"     leading dot
  (*  7 *) N(<<<<>>>>, TRUE),                                      \* "."
  (*  8 *) N(<<ab, <<>>>>, TRUE),                                  \* "ab.."
  (*  9 *) N(<<X(120, 63), cd>>, FALSE),                          \* 63-byte label
  (* 10 *) N(<<X(120, 64), cd>>, FALSE),                          \* 64-byte label
  (* 11 *) N(<<X(120, 63), X(121, 63), X(122, 63), X(119, 61)>>, FALSE),   \* 253 characters, 255 on the wire
  (* 12 *) N(<<X(120, 63), X(121, 63), X(122, 63), X(119, 62)>>, FALSE),   \* 254 characters
  (* 13 *) N(<<X(120, 63), X(121, 63), X(122, 63), X(119, 63)>>, FALSE),   \* 255 characters
  (* 14 *) N(<<X(120, 63), X(121, 63), X(122, 63), X(119, 61)>>, TRUE),    \* 253 characters and a final dot
  (* 15 *) N(<<<<195, 169>>, <<255, 1>>, cd>>, FALSE),             \* non-ASCII / control bytes
  (* 16 *) N(<<X(120, 63), X(121, 63), X(122, 63), X(119, 50)>>, FALSE),   \* fits alone, not with a search domain
  (* 17 *) N(<<<<92, 48, 52, 54>>, cd>>, FALSE),                   \* "\046.cd": escapes are not interpreted
  (* 18 *) N(<<<<97>>, <<98>>, <<99>>, <<100>>>>, FALSE),           \* "a.b.c.d"
  (* 19 *) N(<<ab, X(120, 64)>>, FALSE),                          \* 64-byte label in final position
  (* 20 *) N(<<X(121, 64)>>, FALSE),                              \* a single 64-byte label
  (* 21 *) N(<<ab, X(120, 63)>>, FALSE),                          \* 63-byte label in final position (valid)
  (* 22 *) N(<<ab, X(120, 64)>>, TRUE)                            \* 64-byte label before a trailing dot
>>
s1 == <<<<115, 49>>, <<101, 120, 97, 109, 112, 108, 101>>>>      \* s1.example
s2 == <<<<115, 50>>, <<101, 120, 97, 109, 112, 108, 101>>>>
Searches == << <<>>, <<s1, s2>>, <<s2>> >>

WireLen(ls) == Len(EncName(Labels(ls)))
Encodable(ls) == (\A i \in 1..Len(ls) : Len(ls[i]) >= 1 /\ Len(ls[i]) <= 63) /\ WireLen(ls) <= 255
(* labels of the text: "ab.cd." has labels ab, cd; "." and "" have none *)
Eff(nm) == IF nm.trail /\ Len(nm.ls) >= 1 /\ nm.ls[Len(nm.ls)] = <<>> /\ Len(nm.ls) = 1 THEN <<>> ELSE nm.ls
Dots(nm) == Len(nm.ls) - 1 + (IF nm.trail /\ nm.ls # <<<<>>>> THEN 1 ELSE 0)
NO_SEARCH == 1

QueryFor(nm, search, ndots, flags) ==
  LET raw == Eff(nm)
      cands == [i \in 1..Len(search) |-> raw \o search[i]]
      usable == SelectSeq(cands, Encodable)
  IN IF ~Encodable(raw) /\ raw # <<>> THEN [k |-> "fail", names |-> <<>>]
     ELSE IF raw = <<>> THEN [k |-> "first", names |-> <<raw>>]            \* the root: undocumented, only well-formedness is demanded
     ELSE IF flags = NO_SEARCH \/ search = <<>> THEN [k |-> "seq", names |-> <<raw>>]
     ELSE IF nm.trail THEN [k |-> "set", names |-> <<raw>> \o usable]        \* absolute name: whether / when it is searched is not documented
     ELSE IF usable # cands THEN [k |-> "first", mayfail |-> TRUE,      \* a search candidate does not fit: failing the request is admissible
                                  names |-> (IF Dots(nm) >= ndots THEN <<raw>> ELSE <<>>) \o usable \o <<raw>>]
     ELSE IF Dots(nm) >= ndots THEN [k |-> "seq", names |-> <<raw>> \o cands]
     ELSE [k |-> "seq", names |-> cands \o <<raw>>]

Init == cur = [k |-> "init"] /\ n = 0
Gen == /\ n = 0 /\ n' = 1
       /\ \E ni \in NameIdx : \E si \in SearchIdx : \E nd \in NdotsSet : \E t \in TypeSet : \E fl \in FlagSet : \E rc \in CaseSet : \E ed \in EdnsSet :
            cur' = [k |-> "q", name |-> Names[ni], ni |-> ni, search |-> Searches[si], ndots |-> nd, type |-> t, flags |-> fl,
                    randcase |-> rc, edns |-> ed, res |-> QueryFor(Names[ni], Searches[si], nd, fl)]
Next == Gen

(* the reference only ever predicts encodable names, and a plain encoding of each satisfies QueryOK *)
PredictionsEncodable == cur.k = "q" => \A i \in 1..Len(cur.res.names) : cur.res.names[i] = <<>> \/ Encodable(cur.res.names[i])
SelfConsistent == cur.k = "q" =>
  \A i \in 1..Len(cur.res.names) :
     LET opt == IF cur.edns > 0 THEN <<RRraw(<<Z>>, TYPE_OPT, cur.edns, 0, <<>>)>> ELSE <<>>
         m == [id |-> 7, flags |-> 256, cnt |-> <<1, 0, 0, Len(opt)>>, q |-> <<Question(Labels(cur.res.names[i]), cur.type, CLASS_IN)>>,
               an |-> <<>>, ns |-> <<>>, ar |-> opt, cut |-> 0]
     IN QueryOK(EncMsg(m), cur.res.names[i], cur.type, cur.randcase = 1, cur.edns)
Emit == cur.k = "q" => PrintT(ToJson(cur))
=============================================================================
