------------------------------ MODULE HttpConn ------------------------------
(* Life cycle of the requests queued on one evhttp_connection (property C27):
   every request made with evhttp_make_request has its completion callback
   invoked exactly once (its error callback at most once) unless it was
   cancelled, whatever the network does.

   Connection states follow enum evhttp_connection_state (the four READING_*
   states are one state here plus `prog`, how much of the response arrived).
   One action per place where http.c changes the queue:

     Make(i)        evhttp_make_request: enqueue; connect when disconnected
     ConnUp         evhttp_connection_cb(CONNECTED): dispatch the head request
     ConnRefused    connect failed: retry (evhttp_connection_cb_cleanup) while
                    retries are left, else every queued request completes as failed
     WriteDone      evhttp_write_connectioncb: start reading
     Recv           response octets arrive
     Complete       evhttp_connection_done: head request completes with a response
     NetFault       evhttp_connection_fail_ (EOF / reset / timeout while writing or
                    reading): error callback, then completion(failure) of the head
                    request; the next queued request reconnects
     IdleClose      peer closes an idle connection
     Cancel(i)      evhttp_cancel_request: head request -> connection reset, error
                    callback (REQUEST_CANCEL) but NO completion; queued -> removed

   Callbacks are obligations `ob` discharged in order (Discharge).  In "model"
   mode TLC explores all behaviours and decides the invariants; in "trace" mode
   Make / Cancel / Discharge / End must match the events logged by the driver
   from the real library (network steps are silent), many executions being
   concatenated with "reset" events.  A trace is accepted iff its end is
   reachable (NotAccepted violated).
*)
EXTENDS Integers, Sequences, FiniteSets, TLC, Json, IOUtils

CONSTANTS Mode,      \* "model" | "trace"
          NReq,      \* model mode: number of requests
          MaxRetry   \* model mode: evhttp_connection_set_retries

Trace == IF Mode = "trace" THEN ndJsonDeserialize(IOEnv.TRACE) ELSE <<>>

VARIABLES cs, q, st, compl, errs, retry, prog, ob, errcb, maxretry, l
vars == <<cs, q, st, compl, errs, retry, prog, ob, errcb, maxretry, l>>

Ids == 0..7
Fresh == /\ cs = "DISCONNECTED" /\ q = <<>> /\ st = [i \in Ids |-> "new"]
         /\ compl = [i \in Ids |-> 0] /\ errs = [i \in Ids |-> 0] /\ retry = 0 /\ prog = "none" /\ ob = <<>>

Init == Fresh /\ l = 1
        /\ errcb \in (IF Mode = "model" THEN BOOLEAN ELSE {FALSE}) /\ maxretry = (IF Mode = "model" THEN MaxRetry ELSE 0)

Ev(i) == Trace[i]
IsEv(name) == Mode = "trace" /\ l <= Len(Trace) /\ Ev(l)[1] = name
Step == l' = (IF Mode = "trace" THEN l + 1 ELSE l)
Quiet == ob = <<>>           \* callbacks run to completion before anything else happens

Reconnect(rest) == IF rest # <<>> THEN "CONNECTING" ELSE "DISCONNECTED"

Make(i) == /\ Quiet /\ st[i] = "new"
           /\ (Mode = "trace" => IsEv("make") /\ Ev(l)[2] = i /\ Ev(l)[3] = 0)
           /\ (Mode = "model" => i < NReq)
           /\ st' = [st EXCEPT ![i] = "queued"] /\ q' = Append(q, i)
           /\ cs' = (IF cs = "DISCONNECTED" THEN "CONNECTING" ELSE cs)
           \* a request made on an idle persistent connection is dispatched at once
           /\ Step /\ UNCHANGED <<compl, errs, retry, prog, ob, errcb, maxretry>>
MakeIdle == /\ Quiet /\ cs = "IDLE" /\ q # <<>> /\ cs' = "WRITING" /\ prog' = "none"
            /\ UNCHANGED <<q, st, compl, errs, retry, ob, errcb, maxretry, l>>

ConnUp == /\ Quiet /\ cs = "CONNECTING" /\ q # <<>>
          /\ cs' = "WRITING" /\ prog' = "none" /\ retry' = 0
          /\ UNCHANGED <<q, st, compl, errs, ob, errcb, maxretry, l>>
ConnRefused ==
  /\ Quiet /\ cs = "CONNECTING" /\ q # <<>>
  /\ IF retry < maxretry
     THEN retry' = retry + 1 /\ UNCHANGED <<cs, q, st, ob>>
     ELSE /\ cs' = "DISCONNECTED" /\ q' = <<>> /\ retry' = retry
          /\ st' = [i \in Ids |-> IF \E k \in 1..Len(q) : q[k] = i THEN "failed" ELSE st[i]]
          /\ ob' = [k \in 1..Len(q) |-> <<"done", q[k], 0>>]      \* no error callback on this path
  /\ UNCHANGED <<compl, errs, prog, errcb, maxretry, l>>
WriteDone == /\ Quiet /\ cs = "WRITING" /\ cs' = "READING" /\ prog' = "none"
             /\ UNCHANGED <<q, st, compl, errs, retry, ob, errcb, maxretry, l>>
Recv == /\ Quiet /\ cs = "READING" /\ prog # "all" /\ prog' \in {"some", "all"}
        /\ UNCHANGED <<cs, q, st, compl, errs, retry, ob, errcb, maxretry, l>>
(* prog = "some" + the peer's close completes a close-delimited body *)
Complete == /\ Quiet /\ cs = "READING" /\ prog # "none"
            /\ LET i == Head(q) rest == Tail(q) IN
               /\ st' = [st EXCEPT ![i] = "done"] /\ q' = rest /\ ob' = <<<<"done", i, 1>>>>
               /\ cs' \in (IF rest # <<>> THEN {"WRITING", "CONNECTING"} ELSE {"IDLE", "DISCONNECTED"})
            /\ prog' = "none"
            /\ UNCHANGED <<compl, errs, retry, errcb, maxretry, l>>
NetFault == /\ Quiet /\ cs \in {"WRITING", "READING"}
            /\ LET i == Head(q) rest == Tail(q) IN
               /\ st' = [st EXCEPT ![i] = "failed"] /\ q' = rest /\ cs' = Reconnect(rest)
               /\ ob' = (IF errcb THEN <<<<"err", i>>>> ELSE <<>>) \o <<<<"done", i, 0>>>>
            /\ prog' = "none"
            /\ UNCHANGED <<compl, errs, retry, errcb, maxretry, l>>
IdleClose == /\ Quiet /\ cs = "IDLE" /\ q = <<>> /\ cs' = "DISCONNECTED"
             /\ UNCHANGED <<q, st, compl, errs, retry, prog, ob, errcb, maxretry, l>>

Cancel(i) ==
  /\ Quiet /\ st[i] = "queued"
  /\ (Mode = "trace" => IsEv("cancel") /\ Ev(l)[2] = i)
  /\ (Mode = "model" => i < NReq)
  /\ st' = [st EXCEPT ![i] = "cancelled"]
  /\ IF Head(q) = i
     THEN /\ q' = Tail(q) /\ cs' = Reconnect(Tail(q)) /\ prog' = "none"
          /\ ob' = (IF errcb THEN <<<<"err", i>>>> ELSE <<>>)
     ELSE /\ q' = SelectSeq(q, LAMBDA x : x # i) /\ UNCHANGED <<cs, prog, ob>>
  /\ Step /\ UNCHANGED <<compl, errs, retry, errcb, maxretry>>

(* a callback is invoked *)
Discharge ==
  /\ ob # <<>>
  /\ LET o == Head(ob) IN
     /\ (Mode = "trace" => /\ IsEv(o[1]) /\ Ev(l)[2] = o[2]
                           /\ (o[1] = "done" => Ev(l)[3] = o[3]))
     /\ compl' = (IF o[1] = "done" THEN [compl EXCEPT ![o[2]] = @ + 1] ELSE compl)
     /\ errs' = (IF o[1] = "err" THEN [errs EXCEPT ![o[2]] = @ + 1] ELSE errs)
  /\ ob' = Tail(ob) /\ Step
  /\ UNCHANGED <<cs, q, st, retry, prog, errcb, maxretry>>

AllSettled == Quiet /\ q = <<>>
(* trace mode: the driver waited until nothing was outstanding *)
End == /\ IsEv("end") /\ AllSettled /\ Step
       /\ UNCHANGED <<cs, q, st, compl, errs, retry, prog, ob, errcb, maxretry>>
Reset == /\ IsEv("reset") /\ Quiet
         /\ cs' = "DISCONNECTED" /\ q' = <<>> /\ st' = [i \in Ids |-> "new"]
         /\ compl' = [i \in Ids |-> 0] /\ errs' = [i \in Ids |-> 0] /\ retry' = 0 /\ prog' = "none" /\ ob' = <<>>
         /\ errcb' = (Ev(l)[2] = 1) /\ maxretry' = Ev(l)[3] /\ Step

Next == \/ \E i \in Ids : Make(i) \/ Cancel(i)
        \/ MakeIdle \/ ConnUp \/ ConnRefused \/ WriteDone \/ Recv \/ Complete \/ NetFault \/ IdleClose
        \/ Discharge \/ End \/ Reset

----------------------------------------------------------------------------
(* C27 *)
ExactlyOnce == \A i \in Ids : /\ compl[i] <= 1
                              /\ (st[i] \in {"new", "queued", "cancelled"} => compl[i] = 0)
                              /\ (st[i] \in {"done", "failed"} /\ Quiet => compl[i] = 1)
ErrorCbAtMostOnce == \A i \in Ids : errs[i] <= 1 /\ (errs[i] = 1 => errcb /\ st[i] \in {"failed", "cancelled"})
(* nothing is forgotten: a queued request always sits on a connection that is making progress for it *)
NeverStranded == (Quiet /\ q # <<>>) => cs \in {"CONNECTING", "WRITING", "READING"} \/ (cs = "IDLE" /\ ENABLED MakeIdle)
QueueConsistent == /\ \A k \in 1..Len(q) : st[q[k]] = "queued"
                   /\ \A i \in Ids : st[i] = "queued" => \E k \in 1..Len(q) : q[k] = i
                   /\ \A j, k \in 1..Len(q) : j # k => q[j] # q[k]
(* liveness: under fair network steps every made request is eventually settled *)
Fair == WF_vars(ConnUp \/ ConnRefused) /\ WF_vars(WriteDone) /\ WF_vars(Complete \/ NetFault) /\ WF_vars(Discharge) /\ WF_vars(MakeIdle)
LiveSpec == Init /\ [][Next]_vars /\ Fair
EventuallySettled == \A i \in Ids : (st[i] = "queued") ~> (st[i] \in {"done", "failed", "cancelled"})

(* trace acceptance *)
NotAccepted == ~(Mode = "trace" /\ l > Len(Trace))
Progress == (Mode = "trace" /\ l > TLCGet(1)) => TLCSet(1, l) /\ PrintT(ToString(l))
ASSUME TLCSet(1, 0)
=============================================================================
