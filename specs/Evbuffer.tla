---------------------------- MODULE Evbuffer ----------------------------
(* libevent's evbuffer (buffer.c) as a byte-string reference model.

   A buffer is a sequence over the symbol alphabet {a, b, C, L, N}.  The filler
   symbols a and b stand for runs of WA resp. WB identical bytes ('a' / 'b'),
   C, L, N are the single bytes CR, LF, NUL.  Every size, position and return
   value in `hist` is in BYTES (prefix sums of the symbol widths), so the
   driver needs no knowledge of the model; it only expands data symbols to
   bytes and run-length-decodes what it reads back.  Because positions handed
   to the library are always symbol boundaries and C/L/N are never stretched,
   "first match at or after start" commutes with the expansion:
     - a pattern with >= 2 distinct symbols can only match with its run
       boundaries aligned to run boundaries of the content;
     - a pattern x^m matches first at max(start, begin of the first run that
       still has >= m x's at or after start), again a symbol boundary.

   State is one record `st`; `hist` records every API call with the predicted
   observation: return value / data read (o.r, o.d ...) plus a fixed battery of
   pure queries evaluated on BOTH buffers after every call (o.q).

   Named deviations (behaviour of the code that the property does not forbid):
     - evbuffer_copyout / copyout_from / remove fail (-1) on a start-frozen
       buffer when they would copy >= 1 byte;
     - evbuffer_add_buffer / prepend_buffer / remove_buffer between a buffer
       and itself, or moving 0 bytes, return 0 before looking at freezes;
     - evbuffer_drain on an empty buffer returns 0 even when start-frozen;
     - evbuffer_prepend of 0 bytes returns 0 even when start-frozen, while
       evbuffer_add of 0 bytes fails on an end-frozen buffer;
     - evbuffer_pullup(0) and pullup(n > length) return NULL;
     - evbuffer_add_iovec on an end-frozen buffer returns 0 (bytes added);
     - evbuffer_expand is not affected by freezing.
*)
EXTENDS Integers, Sequences, FiniteSets, TLC, Json

CONSTANTS
  WA, WB,      \* byte widths of the filler symbols a, b
  DataSel,     \* indices into DataCat: the data payloads for add-like ops
  NSel,        \* symbol counts usable as size argument (n > Len means "more than there is")
  Sizes,       \* byte sizes for expand / reserve_space
  Acts,        \* operation families the generator may use
  MaxLen,      \* bound on the symbol length of a buffer (generation bound)
  D,           \* bound on Len(hist)
  Warm,        \* the first Warm calls are forced to be add(buffer 1, one filler symbol): multi-chain start states
  CbMode       \* 0: no callbacks (C12)  1: immediate callbacks  2: deferred callbacks (C13)

VARIABLES st, hist, pend
vars == <<st, hist, pend>>
NoOp == [a |-> "none"]

NB == 2
Bufs == 1..NB
DataCat == << <<>>, <<"a">>, <<"b">>, <<"C">>, <<"L">>, <<"N">>, <<"a", "C", "L">>, <<"a", "b">>, <<"C", "L">>,
              <<"b", "L", "a">>, <<"a", "a">>, <<"L", "C">>, <<"b", "N", "a">>, <<"a", "C">>,
              \* 15..19: WB, WB+1 .. WB+4 bytes (sweeps across an exact chain capacity), and WB+WA+2
              <<"b">> \o <<"L">>, <<"b", "C", "L">>, <<"b", "C", "L", "C">>, <<"b", "C", "L", "C", "L">>, <<"b", "N", "a", "C">> >>
Datas == {DataCat[i] : i \in DataSel}
Other(b) == 3 - b

----------------------------------------------------------------------------
(* bytes <-> symbols *)
W(x) == IF x = "a" THEN WA ELSE IF x = "b" THEN WB ELSE 1
RECURSIVE Bytes(_)
Bytes(s) == IF s = <<>> THEN 0 ELSE W(Head(s)) + Bytes(Tail(s))
Take(s, k) == SubSeq(s, 1, k)
Drop(s, k) == SubSeq(s, k + 1, Len(s))
BP(s, i) == Bytes(Take(s, i))                 \* byte offset of symbol boundary i (0-based)
RECURSIVE Str(_)
Str(s) == IF s = <<>> THEN "" ELSE Head(s) \o Str(Tail(s))
Min(a, b) == IF a < b THEN a ELSE b
MinSet(S) == CHOOSE x \in S : \A y \in S : x <= y
(* size argument for "n symbols" of content s; n > Len(s) = more than available *)
NB_(s, n) == IF n <= Len(s) THEN BP(s, n) ELSE Bytes(s) + 5
NClip(s, n) == Min(n, Len(s))

----------------------------------------------------------------------------
(* searching: all indices 0-based symbol positions; -1 = not found *)
MatchAt(s, p, i) == i + Len(p) <= Len(s) /\ \A j \in 1..Len(p) : s[i + j] = p[j]
(* evbuffer_search_range: first match at or after `from`; it must end at or before `lim` *)
First(s, p, from, lim) ==
  LET M == {i \in from..Len(s) : MatchAt(s, p, i)}
  IN IF M = {} THEN -1
     ELSE IF MinSet(M) + Len(p) <= lim THEN MinSet(M) ELSE -1
PosB(s, i) == IF i < 0 THEN -1 ELSE BP(s, i)

FirstIn(s, from, set) ==
  LET M == {i \in from..(Len(s) - 1) : s[i + 1] \in set}
  IN IF M = {} THEN -1 ELSE MinSet(M)
RECURSIVE Span(_, _, _)
Span(s, i, set) == IF i < Len(s) /\ s[i + 1] \in set THEN 1 + Span(s, i + 1, set) ELSE 0

(* evbuffer_search_eol(buf, start, &len, style): <<position, eol length>>
   styles: 0 ANY  1 CRLF  2 CRLF_STRICT  3 LF  4 NUL *)
Eol(s, from, style) ==
  CASE style = 0 -> LET j == FirstIn(s, from, {"C", "L"})
                    IN IF j < 0 THEN <<-1, 0>> ELSE <<j, Span(s, j, {"C", "L"})>>
    [] style = 1 -> LET j == FirstIn(s, from, {"L"})
                    IN IF j < 0 THEN <<-1, 0>>
                       ELSE IF j > from /\ s[j] = "C" THEN <<j - 1, 2>> ELSE <<j, 1>>
    [] style = 2 -> LET j == First(s, <<"C", "L">>, from, Len(s))
                    IN IF j < 0 THEN <<-1, 0>> ELSE <<j, 2>>
    [] style = 3 -> LET j == FirstIn(s, from, {"L"}) IN IF j < 0 THEN <<-1, 0>> ELSE <<j, 1>>
    [] OTHER     -> LET j == FirstIn(s, from, {"N"}) IN IF j < 0 THEN <<-1, 0>> ELSE <<j, 1>>
EolB(s, from, style) == LET e == Eol(s, from, style) IN <<PosB(s, e[1]), e[2]>>

Pats == << <<"C", "L">>, <<"a", "b">>, <<"b">>, <<"L">>, <<"a", "a">> >>

----------------------------------------------------------------------------
(* The query battery: evaluated on every buffer after every call.
   Index i in 1..n+1 stands for the start position "symbol boundary i-1". *)
QB(S, b) ==
  LET s == S.buf[b]
      n == Len(s)
      fz == S.fs[b]
      bp == [i \in 0..n |-> BP(s, i)]
      PB(i) == IF i < 0 THEN -1 ELSE bp[i]
      suf == [i \in 1..(n + 1) |-> Str(Drop(s, i - 1))]
      M == [k \in 1..Len(Pats) |-> {i \in 0..n : MatchAt(s, Pats[k], i)}]      \* all match positions, once
      FM(k, from, lim) == LET X == {i \in M[k] : i >= from}
                          IN IF X = {} THEN -1 ELSE IF MinSet(X) + Len(Pats[k]) <= lim THEN MinSet(X) ELSE -1
  IN [ n  |-> bp[n],                                        \* evbuffer_get_length
       c  |-> suf[1],                                       \* content read from the chain list
       co |-> IF fz /\ n > 0 THEN "!" ELSE suf[1],          \* evbuffer_copyout(everything)
       sf |-> [i \in 1..(n + 1) |-> IF fz /\ i <= n THEN "!" ELSE suf[i]],   \* ptr_set(SET) + copyout_from
       pk |-> suf,                                          \* ptr_set(SET) + peek(-1, ptr)
       pa |-> [i \in 1..(n + 1) |-> IF i <= n THEN bp[i] ELSE -1],   \* ptr_set(ADD to next boundary / 1 past end)
       se |-> [k \in 1..Len(Pats) |-> [i \in 1..(n + 1) |-> PB(FM(k, i - 1, n))]],
       sr |-> IF n = 0 THEN <<>>
              ELSE [k \in 1..Len(Pats) |-> [i \in 1..(n + 1) |-> PB(FM(k, i - 1, n - 1))]],
       el |-> [y \in 1..5 |-> [i \in 1..(n + 1) |-> LET e == Eol(s, i - 1, y - 1) IN <<PB(e[1]), e[2]>>]],
       fr |-> <<IF S.fs[b] THEN 1 ELSE 0, IF S.fe[b] THEN 1 ELSE 0>> ]

----------------------------------------------------------------------------
(* Callback accounting (C13).  Each buffer has up to 2 callback slots; a slot is
   [on (installed), en (ENABLED flag), nd (NODEFER flag)].  acc[b] = <<added, deleted>>
   since the last report.  A change of buffer b by (add, del) bytes:
     immediate mode : every enabled callback is invoked with
                      [orig = len - add + del, add, del]      (accumulators cleared)
     deferred mode  : accumulated; reported by the next loop run (RunLoop action),
                      NODEFER callbacks are told at once.
   cblog collects the reports of the current call: [b, cb, o, a, d]. *)
NCB == 2
(* sc / left: the callback's script: what it does to ITS OWN buffer when it is invoked ("drainall": evbuffer_drain
   of everything, "adda": evbuffer_add of one symbol a), at most `left` more times *)
InitCb == [on |-> FALSE, en |-> FALSE, nd |-> FALSE, sc |-> "none", left |-> 0]
AnyCb(S, b) == \E k \in 1..NCB : S.cb[b][k].on
(* slots listed in invocation order: LIST_INSERT_HEAD => most recently added first *)
CbOrder(S, b) == S.cbo[b]
Sched(S, b) == IF \E i \in 1..Len(S.pq) : S.pq[i] = b THEN S ELSE [S EXCEPT !.pq = Append(@, b)]

(* evbuffer_run_callbacks: the accumulators were cleared BEFORE this loop, so a change a callback makes to the
   buffer from inside is accounted and reported on its own (nested evbuffer_invoke_callbacks_): at once with
   immediate delivery, by a further deferred run with deferred delivery.  kind: "imm" | "nodefer" | "deferred" *)
RECURSIVE RunCbs(_, _, _, _, _), Changed(_, _, _, _)
RunCbs(S, b, order, info, kind) ==
  IF order = <<>> THEN S
  ELSE LET k == Head(order)
           c == S.cb[b][k]
           want == CASE kind = "deferred" -> c.en /\ ~c.nd
                     [] kind = "nodefer" -> c.en /\ c.nd
                     [] OTHER -> c.en
       IN IF ~(c.on /\ want) THEN RunCbs(S, b, Tail(order), info, kind)
          ELSE LET S1 == [S EXCEPT !.cblog = Append(@, [b |-> b, cb |-> k, o |-> info[1], a |-> info[2], d |-> info[3]])]
                   S2 == IF c.sc = "none" \/ c.left = 0 THEN S1
                         ELSE LET T == [S1 EXCEPT !.cb[b][k].left = @ - 1] IN
                              IF c.sc = "drainall"
                              THEN (IF T.buf[b] = <<>> \/ T.fs[b] THEN T
                                    ELSE Changed([T EXCEPT !.buf[b] = <<>>, !.tag[b] = <<>>, !.sp[b] = FALSE], b, 0, Bytes(T.buf[b])))
                              ELSE (IF T.fe[b] THEN T
                                    ELSE Changed([T EXCEPT !.buf[b] = @ \o <<"a">>, !.tag[b] = @ \o <<0>>], b, WA, 0))
               IN RunCbs(S2, b, Tail(order), info, kind)

(* evbuffer_invoke_callbacks_ after buffer b changed by (add, del); it is also called
   by some operations when nothing changed (add of 0 bytes, drain(0) ...), which in
   deferred mode still schedules the deferred run (matters for the order of runs). *)
Changed(S0, b, add, del) ==
  LET S == [S0 EXCEPT !.led[b] = @ + add - del] IN     \* ghost ledger: what the accounting believes the length is
  IF CbMode = 0 THEN S
  ELSE IF ~AnyCb(S, b) THEN [S EXCEPT !.acc[b] = <<0, 0>>]
  ELSE LET a1 == S.acc[b][1] + add
           d1 == S.acc[b][2] + del
           len == Bytes(S.buf[b])
       IN IF CbMode = 1
          THEN (IF a1 = 0 /\ d1 = 0 THEN S
                ELSE RunCbs([S EXCEPT !.acc[b] = <<0, 0>>], b, CbOrder(S, b), <<len + d1 - a1, a1, d1>>, "imm"))
          ELSE \* deferred: accumulate and schedule; NODEFER callbacks are invoked now.  C13 requires that
               \* no change is reported twice, so a NODEFER callback is told the change of this call only.
               LET S1 == [Sched(S, b) EXCEPT !.acc[b] = <<a1, d1>>]
               IN IF add = 0 /\ del = 0 THEN S1
                  ELSE RunCbs(S1, b, CbOrder(S, b), <<len + del - add, add, del>>, "nodefer")

----------------------------------------------------------------------------
InitSt ==
  [ buf |-> [b \in Bufs |-> <<>>],
    fs |-> [b \in Bufs |-> FALSE], fe |-> [b \in Bufs |-> FALSE],
    sp |-> [b \in Bufs |-> FALSE],          \* may hold file-segment / multicast chains
    mo |-> [b \in Bufs |-> FALSE],
    tag |-> [b \in Bufs |-> <<>>],          \* per symbol: 0 plain, else the id of the reference / file segment / multicast copy it lives in
    nid |-> 0,                               \* ids handed out so far
    own |-> {},                              \* ids of references (1..) and file segments whose cleanup callback is owed
    seg |-> {},                              \* the subset of own that are file segments
    par |-> <<>>,                            \* par[id] = the id a multicast copy keeps alive (0: none)
    mcu |-> FALSE,                           \* add_buffer_reference has shared chains between the buffers          \* may hold multicast chains that reference the other buffer
    cb |-> [b \in Bufs |-> [k \in 1..NCB |-> InitCb]],
    cbo |-> [b \in Bufs |-> <<>>],
    acc |-> [b \in Bufs |-> <<0, 0>>], led |-> [b \in Bufs |-> 0],
    fdin |-> <<>>,                           \* bytes waiting in the socket evbuffer_read reads from (C16)
    pq |-> <<>>,                             \* buffers whose deferred run is scheduled, in scheduling order
    cblog |-> <<>> ]

SetBuf(S, b, s) == [S EXCEPT !.buf[b] = s, !.sp[b] = IF s = <<>> THEN FALSE ELSE @]
R(S, r) == [s |-> S, o |-> [r |-> r]]
RX(S, r, x) == [s |-> S, o |-> [r |-> r] @@ x]

(* append d to b / remove k symbols from the front of b, with callback accounting; tags follow the symbols *)
ZT(d) == [i \in 1..Len(d) |-> 0]
AppendT(S, b, d, tg) == Changed([SetBuf(S, b, S.buf[b] \o d) EXCEPT !.tag[b] = @ \o tg], b, Bytes(d), 0)
Append_(S, b, d) == AppendT(S, b, d, ZT(d))
Prepend_(S, b, d) == Changed([SetBuf(S, b, d \o S.buf[b]) EXCEPT !.tag[b] = ZT(d) \o @], b, Bytes(d), 0)
DropFront(S, b, k0) ==       \* evbuffer_drain semantics: at most what is there; nothing (not even a notification) on an empty buffer
  LET k == Min(k0, Len(S.buf[b])) IN
  IF S.buf[b] = <<>> THEN S
  ELSE Changed([SetBuf(S, b, Drop(S.buf[b], k)) EXCEPT !.tag[b] = Drop(@, k)], b, 0, BP(S.buf[b], k))
(* a new id (reference, segment or multicast copy) *)
NewId(S, parent) == [S EXCEPT !.nid = @ + 1, !.par = Append(@, parent)]
(* a chain cut by a partial remove_buffer / pullup: the part that was copied is plain memory now *)
ClearTail(mt, t) == [i \in 1..Len(mt) |-> IF mt[i] = t /\ (\A j \in i..Len(mt) : mt[j] = t) THEN 0 ELSE mt[i]]

(* move the first k symbols of src to the end (front = TRUE: the front) of dst.
   order = which buffer's callbacks run first *)
Move(S, src, dst, k, front, srcFirst) ==
  LET m == Take(S.buf[src], k)
      mt0 == Take(S.tag[src], k)
      cut == k > 0 /\ k < Len(S.buf[src]) /\ S.tag[src][k] # 0 /\ S.tag[src][k] = S.tag[src][k + 1]
      mt == IF cut THEN ClearTail(mt0, S.tag[src][k]) ELSE mt0
      S1 == [SetBuf(SetBuf(S, dst, IF front THEN m \o S.buf[dst] ELSE S.buf[dst] \o m), src, Drop(S.buf[src], k))
             EXCEPT !.sp[dst] = (@ \/ S.sp[src]) /\ (Len(S.buf[dst]) + k > 0),
                    !.tag = [b \in Bufs |-> IF b = src /\ b = dst THEN S.tag[b]
                                            ELSE IF b = dst THEN (IF front THEN mt \o S.tag[dst] ELSE S.tag[dst] \o mt)
                                            ELSE IF b = src THEN Drop(S.tag[src], k) ELSE S.tag[b]]]
  IN IF srcFirst THEN Changed(Changed(S1, src, 0, Bytes(m)), dst, Bytes(m), 0)
     ELSE Changed(Changed(S1, dst, Bytes(m), 0), src, 0, Bytes(m))

----------------------------------------------------------------------------
(* The operations.  op.b = buffer, op.d = data symbols, op.nb = size in bytes,
   op.n = the same size in symbols (kept for the replay files' readability). *)
ApplyOp(S, op) ==
  LET b == op.b
      s == S.buf[b]
  IN
  CASE op.a = "add" ->
         IF S.fe[b] THEN R(S, -1) ELSE R(Append_(S, b, op.d), 0)
    [] op.a = "addref" ->             \* on failure the cleanup callback is never owed (the chain is dropped uncalled)
         IF S.fe[b] THEN R(S, -1)
         ELSE LET S1 == NewId(S, 0) IN
              R(AppendT([S1 EXCEPT !.own = @ \cup {S1.nid}], b, op.d, [i \in 1..Len(op.d) |-> S1.nid]), 0)
    [] op.a = "prepend" ->
         IF op.d = <<>> THEN R(S, 0)
         ELSE IF S.fs[b] THEN R(S, -1) ELSE R(Prepend_(S, b, op.d), 0)
    [] op.a = "printf" ->
         IF S.fe[b] THEN R(S, -1) ELSE R(Append_(S, b, op.d), Bytes(op.d))
    [] op.a = "addiov" ->
         IF S.fe[b] THEN R(S, 0)
         ELSE R(Append_(Append_(S, b, op.d), b, op.d2), Bytes(op.d) + Bytes(op.d2))
    [] op.a = "rescommit" ->          \* reserve_space(nb, nv); fill; commit_space(Bytes(d))
         IF S.fe[b] THEN R(S, -1) ELSE R(Append_(S, b, op.d), 0)
    [] op.a = "addbuf" ->             \* evbuffer_add_buffer(dst = b, src = op.s)
         IF S.buf[op.s] = <<>> \/ op.s = b THEN R(S, 0)
         ELSE IF S.fe[b] \/ S.fs[op.s] THEN R(S, -1)
         ELSE R(Move(S, op.s, b, Len(S.buf[op.s]), FALSE, TRUE), 0)
    [] op.a = "prependbuf" ->
         IF S.buf[op.s] = <<>> \/ op.s = b THEN R(S, 0)
         ELSE IF S.fs[b] \/ S.fs[op.s] THEN R(S, -1)
         ELSE R(Move(S, op.s, b, Len(S.buf[op.s]), TRUE, TRUE), 0)
    [] op.a = "rmbuf" ->              \* evbuffer_remove_buffer(src = b, dst = op.s, nb)
         IF op.nb = 0 \/ op.s = b THEN R(S, 0)
         ELSE IF S.fe[op.s] \/ S.fs[b] THEN R(S, -1)
         ELSE LET k == NClip(s, op.n)
              IN IF k = Len(s)
                 THEN R((IF k = 0 THEN S ELSE Move(S, b, op.s, k, FALSE, TRUE)), BP(s, k))   \* via add_buffer
                 ELSE R(Move(S, b, op.s, k, FALSE, FALSE), BP(s, k))
    [] op.a = "addbufref" ->          \* evbuffer_add_buffer_reference(dst = b, src = op.s)
         IF S.buf[op.s] = <<>> THEN R(S, 0)
         ELSE IF S.fe[b] \/ op.s = b THEN R(S, -1)
         ELSE LET st_ == S.tag[op.s]
                  \* one fresh id per distinct referenced id in the source (a multicast chain per source chain)
                  ids == {st_[i] : i \in 1..Len(st_)} \ {0}
                  RECURSIVE Mk(_, _, _)
                  Mk(T, todo, map) == IF todo = {} THEN [s |-> T, m |-> map]
                                      ELSE LET x == CHOOSE y \in todo : \A z \in todo : y <= z
                                               T1 == NewId(T, x)
                                           IN Mk(T1, todo \ {x}, map @@ (x :> T1.nid))
                  mk == Mk(S, ids, (0 :> 0))
              IN R([AppendT(mk.s, b, S.buf[op.s], [i \in 1..Len(st_) |-> mk.m[st_[i]]]) EXCEPT !.sp[b] = TRUE], 0)
    [] op.a = "addfile" ->            \* file segment over op.d, add_file_segment(off, len) (len -1 = to the end)
         LET fl == Len(op.d)
             ln == IF op.len < 0 THEN fl - op.off ELSE op.len
             S1 == NewId(S, 0)
             S2 == [S1 EXCEPT !.own = @ \cup {S1.nid}, !.seg = @ \cup {S1.nid}]
         IN \* the segment's cleanup is owed in both cases: on failure the library drops the last reference at once
            IF S.fe[b] \/ op.off > fl \/ op.off + ln > fl THEN R(S2, -1)
            ELSE R([AppendT(S2, b, SubSeq(op.d, op.off + 1, op.off + ln), [i \in 1..ln |-> S2.nid]) EXCEPT !.sp[b] = TRUE], 0)
    [] op.a = "addfilebad" ->         \* a segment whose lazy materialisation fails inside add_file_segment: nothing is added,
         LET S1 == NewId(S, 0)        \* the segment's cleanup is owed at once (the library drops the caller's reference)
         IN R([S1 EXCEPT !.own = @ \cup {S1.nid}, !.seg = @ \cup {S1.nid}], -1)
    [] op.a = "drain" ->
         IF s = <<>> THEN R(S, 0)
         ELSE IF S.fs[b] THEN R(S, -1)
         ELSE R(DropFront(S, b, NClip(s, op.n)), 0)
    [] op.a = "remove" ->
         LET k == NClip(s, op.n)
         IN IF BP(s, k) = 0 THEN RX(S, 0, [d |-> ""])
            ELSE IF S.fs[b] THEN RX(S, -1, [d |-> ""])
            ELSE RX(DropFront(S, b, k), BP(s, k), [d |-> Str(Take(s, k))])
    [] op.a = "copyout" ->
         LET k == NClip(s, op.n)
         IN IF BP(s, k) = 0 THEN RX(S, 0, [d |-> ""])
            ELSE IF S.fs[b] THEN RX(S, -1, [d |-> ""])
            ELSE RX(S, BP(s, k), [d |-> Str(Take(s, k))])
    [] op.a = "pullup" ->             \* op.n = -1: everything.  r = 1 iff non-NULL
         LET k == IF op.n < 0 THEN Len(s) ELSE op.n
             tg == S.tag[b]
             \* the first k symbols get copied into one plain chain unless the first chain already holds them:
             \* a referenced first chain holds exactly its own run; plain symbols only are never re-tagged
             run1 == IF tg = <<>> \/ tg[1] = 0 THEN 0 ELSE Span(tg, 0, {tg[1]})
             copy == (\E i \in 1..k : tg[i] # 0) /\ ~(run1 >= k)
         IN IF k > Len(s) \/ BP(s, k) = 0 THEN RX(S, 0, [d |-> ""])
            ELSE RX((IF copy THEN [S EXCEPT !.tag[b] = [i \in 1..Len(tg) |-> IF i <= k THEN 0 ELSE tg[i]]] ELSE S), 1, [d |-> Str(Take(s, k))])
    [] op.a = "expand" -> R(S, 0)
    [] op.a = "readln" ->
         LET e == Eol(s, 0, op.y)
         IN IF S.fs[b] \/ e[1] < 0 THEN RX(S, 0, [d |-> "", nr |-> 0])
            ELSE \* evbuffer_remove(line) then evbuffer_drain(eol): two change notifications
                 LET S1 == DropFront(S, b, e[1])
                     S2 == DropFront(S1, b, e[2])
                 IN RX(S2, 1, [d |-> Str(Take(s, e[1])), nr |-> BP(s, e[1])])
    [] op.a = "freeze" ->
         R((IF op.w = 1 THEN [S EXCEPT !.fs[b] = TRUE] ELSE [S EXCEPT !.fe[b] = TRUE]), 0)
    [] op.a = "unfreeze" ->
         R((IF op.w = 1 THEN [S EXCEPT !.fs[b] = FALSE] ELSE [S EXCEPT !.fe[b] = FALSE]), 0)
    (* ---- socket I/O (C16).  op.d is first made available on the socket; op.n / op.hm = howmuch in symbols /
       bytes (-1: no limit); op.k / op.kb = the most the scripted system call transfers (-1: unlimited);
       op.e = errno the system call fails with (0: none) *)
    [] op.a = "evread" ->
         LET fin == S.fdin \o op.d
             S1 == [S EXCEPT !.fdin = fin]
             lim == IF op.n < 0 THEN Len(fin) ELSE Min(op.n, Len(fin))
             m == IF op.k < 0 THEN lim ELSE Min(op.k, lim)
         IN IF S.fe[b] \/ op.e # 0 THEN R(S1, -1)
            ELSE IF op.k = 0 THEN R(S1, 0)                            \* the system call reads 0 bytes
            ELSE IF fin = <<>> THEN R(S1, -1)                         \* empty socket: EAGAIN
            ELSE R(Append_([S1 EXCEPT !.fdin = Drop(fin, m)], b, Take(fin, m)), BP(fin, m))
    [] op.a = "evwrite" ->            \* evbuffer_write_atmost(b, fd, hm) / evbuffer_write (hm = -1)
         LET lim == IF op.n < 0 THEN Len(s) ELSE Min(op.n, Len(s))
             m == IF op.k < 0 THEN lim ELSE Min(op.k, lim)
         IN IF S.fs[b] THEN RX(S, -1, [w |-> ""])
            ELSE IF BP(s, lim) = 0 THEN RX(S, -1, [w |-> ""])       \* named deviation: nothing to write returns -1
            ELSE IF op.e # 0 THEN RX(S, -1, [w |-> ""])
            ELSE IF m = 0 THEN RX(S, 0, [w |-> ""])
            ELSE RX(DropFront(S, b, m), BP(s, m), [w |-> Str(Take(s, m))])
    [] op.a = "sfwrite" ->            \* a fresh DRAINS_TO_FD buffer holding one sendfile segment op.d[off..], written with write_atmost
         LET fl == Drop(op.d, op.off)
             lim == IF op.n < 0 THEN Len(fl) ELSE Min(op.n, Len(fl))
             m == IF op.k < 0 THEN lim ELSE Min(op.k, lim)
         IN IF BP(fl, lim) = 0 THEN RX(S, -1, [w |-> "", rest |-> Bytes(fl)])
            ELSE IF op.e \in {4, 11} THEN RX(S, 0, [w |-> "", rest |-> Bytes(fl)])     \* EINTR / EAGAIN: 0 bytes, retry later
            ELSE IF op.e # 0 THEN RX(S, -1, [w |-> "", rest |-> Bytes(fl)])
            ELSE RX(S, BP(fl, m), [w |-> Str(Take(fl, m)), rest |-> Bytes(fl) - BP(fl, m)])
    (* ---- callbacks (C13) *)
    [] op.a = "cbadd" ->
         R([S EXCEPT !.cb[b][op.k] = [InitCb EXCEPT !.on = TRUE, !.en = TRUE], !.cbo[b] = <<op.k>> \o @], 0)
    [] op.a = "cbscript" ->           \* arm the callback's script for one more invocation
         R([S EXCEPT !.cb[b][op.k].sc = op.sc, !.cb[b][op.k].left = 1], 0)
    [] op.a = "cbdel" ->
         R([S EXCEPT !.cb[b][op.k] = InitCb, !.cbo[b] = SelectSeq(@, LAMBDA x : x # op.k)], 0)
    [] op.a = "cbflag" ->             \* op.f: 1 ENABLED 2 NODEFER; op.v: 1 set 0 clear
         R((IF op.f = 1 THEN [S EXCEPT !.cb[b][op.k].en = (op.v = 1)]
                        ELSE [S EXCEPT !.cb[b][op.k].nd = (op.v = 1)]), 0)
    [] op.a = "loop" ->               \* event_base_loop(NONBLOCK): the scheduled deferred runs, in order
         LET RECURSIVE Run(_)
             Run(T) ==
               IF T.pq = <<>> THEN T
               ELSE LET bb == Head(T.pq)
                        a1 == T.acc[bb][1]
                        d1 == T.acc[bb][2]
                        len == Bytes(T.buf[bb])
                        T1 == [T EXCEPT !.pq = Tail(@)]
                    IN IF ~AnyCb(T, bb) THEN Run([T1 EXCEPT !.acc[bb] = <<0, 0>>])
                       ELSE IF a1 = 0 /\ d1 = 0 THEN Run(T1)
                       ELSE Run(RunCbs([T1 EXCEPT !.acc[bb] = <<0, 0>>], bb, CbOrder(T, bb), <<len + d1 - a1, a1, d1>>, "deferred"))
         IN R(Run(S), 0)
    [] OTHER -> R(S, -99)

----------------------------------------------------------------------------
(* Which ops are generated in state S *)
NChoices(s) == {n \in NSel : n <= Len(s) + 1}
Fits(S, b, d) == Len(S.buf[b]) + Len(d) <= MaxLen
NoNul(d) == \A i \in 1..Len(d) : d[i] # "N"
FileData == <<"a", "C", "L", "b">>

OpsOf(S, fam) ==
  CASE fam = "add" -> {[a |-> "add", b |-> b, d |-> d] : b \in Bufs, d \in Datas}
    [] fam = "addref" -> {[a |-> "addref", b |-> b, d |-> d] : b \in Bufs, d \in Datas \ {<<>>}}
    [] fam = "prepend" -> {[a |-> "prepend", b |-> b, d |-> d] : b \in Bufs, d \in Datas}
    [] fam = "printf" -> {[a |-> "printf", b |-> b, d |-> d] : b \in Bufs, d \in {x \in Datas : NoNul(x)}}
    [] fam = "addiov" -> {[a |-> "addiov", b |-> b, d |-> d, d2 |-> d2] : b \in Bufs, d \in Datas, d2 \in {x \in Datas : Len(x) = 1}}
    [] fam = "rescommit" -> {[a |-> "rescommit", b |-> b, d |-> d, nb |-> Bytes(d) + x, nv |-> nv] :
                               b \in Bufs, d \in Datas, x \in Sizes, nv \in {1, 2, 4}}
    [] fam = "addbuf" -> {[a |-> "addbuf", b |-> b, s |-> s] : b \in Bufs, s \in Bufs}
    [] fam = "prependbuf" -> {[a |-> "prependbuf", b |-> b, s |-> s] : b \in Bufs, s \in Bufs}
    [] fam = "rmbuf" -> UNION {{[a |-> "rmbuf", b |-> b, s |-> s, n |-> n, nb |-> NB_(S.buf[b], n)] :
                                  n \in NChoices(S.buf[b]), s \in Bufs} : b \in Bufs}
    [] fam = "addbufref" -> {[a |-> "addbufref", b |-> b, s |-> s] : b \in Bufs, s \in {x \in Bufs : ~S.sp[x]}}
    [] fam = "addfile" -> {[a |-> "addfile", b |-> b, d |-> FileData, off |-> off, len |-> ln, m |-> m,
                              ob |-> NB_(FileData, off),
                              lb |-> IF ln < 0 THEN -1 ELSE IF off + ln <= Len(FileData) THEN Bytes(SubSeq(FileData, off + 1, off + ln))
                                     ELSE Bytes(FileData) + 3] :
                             b \in Bufs, off \in {0, 1, 5}, ln \in {-1, 0, 2, 4}, m \in {0, 1}}
    [] fam = "addfilebad" -> {[a |-> "addfilebad", b |-> b, d |-> FileData, m |-> m] : b \in Bufs, m \in 0..3}
    [] fam = "drain" -> UNION {{[a |-> "drain", b |-> b, n |-> n, nb |-> NB_(S.buf[b], n)] : n \in NChoices(S.buf[b])} : b \in Bufs}
    [] fam = "remove" -> UNION {{[a |-> "remove", b |-> b, n |-> n, nb |-> NB_(S.buf[b], n)] : n \in NChoices(S.buf[b])} : b \in Bufs}
    [] fam = "copyout" -> UNION {{[a |-> "copyout", b |-> b, n |-> n, nb |-> NB_(S.buf[b], n)] : n \in NChoices(S.buf[b])} : b \in Bufs}
    [] fam = "pullup" -> UNION {{[a |-> "pullup", b |-> b, n |-> n, nb |-> IF n < 0 THEN -1 ELSE NB_(S.buf[b], n)] :
                                   n \in NChoices(S.buf[b]) \cup {-1}} : b \in Bufs}
    [] fam = "expand" -> {[a |-> "expand", b |-> b, nb |-> x] : b \in Bufs, x \in Sizes}
    [] fam = "readln" -> {[a |-> "readln", b |-> b, y |-> y] : b \in Bufs, y \in 0..4}
    [] fam = "freeze" -> {[a |-> "freeze", b |-> b, w |-> x] : b \in Bufs, x \in {0, 1}}
    [] fam = "unfreeze" -> {[a |-> "unfreeze", b |-> b, w |-> x] : b \in Bufs, x \in {0, 1}}
    [] fam = "evread" -> UNION {{[a |-> "evread", b |-> b, d |-> d, n |-> n, hm |-> IF n < 0 THEN -1 ELSE NB_(S.fdin \o d, n),
                                   k |-> k, kb |-> IF k < 0 THEN -1 ELSE NB_(S.fdin \o d, k), e |-> e] :
                                   n \in {x \in NSel \cup {-1} : x # 0 /\ x <= Len(S.fdin \o d) + 1},
                                   k \in {x \in NSel \cup {-1} : x <= Len(S.fdin \o d)}, b \in Bufs, e \in {0, 4, 11, 104}} : d \in Datas}
    [] fam = "evwrite" -> UNION {{[a |-> "evwrite", b |-> b, n |-> n, hm |-> IF n < 0 THEN -1 ELSE NB_(S.buf[b], n),
                                    k |-> k, kb |-> IF k < 0 THEN -1 ELSE NB_(S.buf[b], k), e |-> e] :
                                    n \in NChoices(S.buf[b]) \cup {-1}, k \in {x \in NSel \cup {-1} : x <= Len(S.buf[b])},
                                    e \in {0, 4, 11, 32}} : b \in Bufs}
    [] fam = "sfwrite" -> {[a |-> "sfwrite", b |-> 1, d |-> FileData, off |-> off, ob |-> BP(FileData, off),
                            n |-> n, hm |-> IF n < 0 THEN -1 ELSE NB_(Drop(FileData, off), n),
                            k |-> k, kb |-> IF k < 0 THEN -1 ELSE NB_(Drop(FileData, off), k), e |-> e] :
                             off \in {0, 1, 4}, n \in {-1, 0, 1, 2, 4, 5}, k \in {-1, 0, 1, 3}, e \in {0, 4, 11, 32}}
    [] fam = "cbadd" -> UNION {{[a |-> "cbadd", b |-> b, k |-> k] : k \in {x \in 1..NCB : ~S.cb[b][x].on}} : b \in Bufs}
    [] fam = "cbdel" -> UNION {{[a |-> "cbdel", b |-> b, k |-> k] : k \in {x \in 1..NCB : S.cb[b][x].on}} : b \in Bufs}
    [] fam = "cbflag" -> UNION {{[a |-> "cbflag", b |-> b, k |-> k, f |-> f, v |-> v] :
                                   k \in {x \in 1..NCB : S.cb[b][x].on}, f \in {1, 2}, v \in {0, 1}} : b \in Bufs}
    [] fam = "cbscript" -> UNION {{[a |-> "cbscript", b |-> b, k |-> k, sc |-> sc] :
                                     k \in {x \in 1..NCB : S.cb[b][x].on}, sc \in {"drainall", "adda"}} : b \in Bufs}
    [] fam = "loop" -> {[a |-> "loop", b |-> 1]}
    [] OTHER -> {}

KnownMcPull(i, op) ==
  CASE i = 0 -> op.a = "add" /\ op.b = 1 /\ op.d # <<>>
    [] i = 1 -> op.a = "addbufref" /\ op.b = 2 /\ op.s = 1
    [] i = 2 -> op.a = "add" /\ op.b = 2 /\ op.d # <<>>
    [] i = 3 -> op.a = "pullup" /\ op.b = 2 /\ op.n = -1
    [] i = 4 -> op.a = "add" /\ op.b = 1 /\ op.d # <<>>
    [] i = 5 -> op.a = "pullup" /\ op.b = 1 /\ op.n = -1
    [] OTHER -> FALSE

(* directed family "dir_rd": a chain filled exactly, a socket read that fills the next chain exactly (or not), a drain
   of part of the first chain, a small add: the added bytes must come after the bytes read *)
DirRead(i, op) ==
  CASE i = 0 -> op.a = "add" /\ op.b = 1 /\ op.d = <<"b", "N", "a">>
    [] i = 1 -> op.a = "evread" /\ op.b = 1 /\ op.e = 0 /\ op.k = -1 /\ op.d # <<>>
    [] i = 2 -> op.a = "drain" /\ op.b = 1
    [] i = 3 -> op.a = "add" /\ op.b = 1 /\ Len(op.d) = 1
    [] OTHER -> FALSE

KnownCyc(i, op) ==
  CASE i = 0 -> op.a = "addref" /\ op.b = 1
    [] i = 1 -> op.a = "addbufref" /\ op.b = 2 /\ op.s = 1
    [] i = 2 -> op.a = "addbuf" /\ op.b = 1 /\ op.s = 2
    [] OTHER -> FALSE

(* growth bound and de-duplication of no-op instances *)
OpSane(S, op) ==
  /\ (op.a \in {"add", "addref", "prepend", "printf", "rescommit"} => Fits(S, op.b, op.d))
  /\ (op.a = "addiov" => Fits(S, op.b, op.d \o op.d2))
  \* AvoidKnown: reserve_space(0, vec, n >= 2) on a buffer whose last chain is full trips an assertion
  \* (finding reserve-zero-full-chain); it is replayed separately under "rz0" \in Acts
  /\ (op.a = "rescommit" /\ op.nb = 0 /\ op.nv > 1 => "rz0" \in Acts)
  \* AvoidKnown: moving multicast chains back into the buffer they reference creates a reference cycle
  \* (the buffer holds a reference on itself and is never freed; finding multicast-self-reference-cycle)
  /\ (op.a \in {"addbuf", "prependbuf"} /\ op.s # op.b /\ S.mo[op.s] => "cyc" \in Acts)
  /\ (op.a = "rmbuf" /\ op.s # op.b /\ op.nb > 0 /\ S.mo[op.b] => "cyc" \in Acts)
  /\ (op.a = "addfile" => Len(S.buf[op.b]) + 4 <= MaxLen)
  /\ (op.a \in {"addbuf", "prependbuf", "addbufref"} => (op.s # op.b => Len(S.buf[op.b]) + Len(S.buf[op.s]) <= MaxLen))
  /\ (op.a = "rmbuf" => Len(S.buf[op.s]) + NClip(S.buf[op.b], op.n) <= MaxLen)
  \* AvoidKnown: evbuffer_pullup extends a shared (multicast / referenced) chain in place (finding
  \* multicast-pullup-shared-memory); its canonical history is generated under "mcpull" \in Acts
  /\ (op.a = "pullup" /\ S.mcu => "mcpull" \in Acts)
  /\ ("mcpull" \in Acts => KnownMcPull(Len(hist), op))
  /\ ("cyc" \in Acts => KnownCyc(Len(hist), op))
  /\ ("dir_rd" \in Acts => DirRead(Len(hist), op))
  /\ (op.a = "evread" => Fits(S, op.b, S.fdin \o op.d) /\ Bytes(S.fdin \o op.d) <= 4096 /\ (op.e # 0 => op.k = -1))
  /\ (op.a \in {"evwrite", "sfwrite"} => (op.e # 0 => op.k = -1))
  \* C15 predicts the moment of every cleanup: zero-length segments sit in an empty chain whose release is layout-dependent
  /\ (op.a = "addfile" /\ "c15" \in Acts => (op.off < Len(op.d) /\ op.len # 0))
  /\ (op.a = "freeze" => ~(IF op.w = 1 THEN S.fs[op.b] ELSE S.fe[op.b]))
  /\ (op.a = "unfreeze" => (IF op.w = 1 THEN S.fs[op.b] ELSE S.fe[op.b]))
  /\ (op.a = "cbflag" => (IF op.f = 1 THEN S.cb[op.b][op.k].en ELSE S.cb[op.b][op.k].nd) # (op.v = 1))
  /\ (op.a = "cbflag" /\ op.f = 2 => "nodefer" \in Acts)
  /\ (op.a = "loop" => CbMode = 2)
  \* a scripted callback must be the last one invoked: callbacks after it would be handed the outer report although
  \* the buffer has changed meanwhile (that is what the code does; the property leaves it open)
  /\ (op.a = "cbscript" => op.k = S.cbo[op.b][Len(S.cbo[op.b])] /\ ~S.cb[op.b][op.k].nd
                             /\ (S.cb[op.b][op.k].sc # op.sc \/ S.cb[op.b][op.k].left = 0))
  /\ (op.a = "cbflag" /\ op.f = 2 => S.cb[op.b][op.k].sc = "none")

AllTags(S) == UNION {{S.tag[b][i] : i \in 1..Len(S.tag[b])} : b \in Bufs}
Live(S, x) == x \in AllTags(S) \/ \E c \in AllTags(S) \ {0} : S.par[c] = x
Cleaned(S) == {x \in S.own : ~Live(S, x)}
ObsC(S) == [rc |-> Cardinality(Cleaned(S) \ S.seg), sc |-> Cardinality(Cleaned(S) \cap S.seg), bad |-> 0]
Obs(S, o0) == LET o == IF "c15" \in Acts THEN o0 @@ ObsC(S) ELSE o0 IN IF CbMode = 0 THEN o @@ [q |-> [b \in Bufs |-> QB(S, b)]]
             ELSE o @@ [q |-> [b \in Bufs |-> QB(S, b)], cb |-> S.cblog]

(* One call: the new state and the complete observation *)
StepR(S, op) ==
  LET Rr == ApplyOp([S EXCEPT !.cblog = <<>>], op)
      S2 == [Rr.s EXCEPT !.mo = [b \in Bufs |->
                IF Rr.s.buf[b] = <<>> THEN FALSE
                ELSE IF op.a = "addbufref" /\ op.b = b /\ op.s # b /\ Rr.o.r = 0 /\ S.buf[op.s] # <<>> THEN TRUE
                ELSE S.mo[b]],
                          !.mcu = @ \/ (op.a = "addbufref" /\ op.s # op.b /\ Rr.o.r = 0 /\ S.buf[op.s] # <<>>)]
  IN [s |-> S2, r |-> Rr.o]
Step(S, op) == LET x == StepR(S, op) IN [s |-> x.s, o |-> Obs(x.s, x.r)]

(* `hist` holds the calls only (small states: TLC's simulator computes every successor before
   picking one); the observations are recomputed by replaying the calls when a history is printed. *)
RECURSIVE Rep(_, _)
Rep(S, ops) == IF ops = <<>> THEN <<>>
               ELSE LET x == Step(S, Head(ops)) IN <<Head(ops) @@ [o |-> x.o]>> \o Rep(x.s, Tail(ops))

(* A call is generated in two steps: Do picks the operation, Apply performs it. *)
Do(fam) ==
  /\ fam \in Acts
  /\ Len(hist) < D
  /\ pend = NoOp
  /\ (Len(hist) < Warm => fam = "add")
  /\ \E op \in OpsOf(st, fam) :
       /\ OpSane(st, op)
       /\ (Len(hist) < Warm => op.b = 1 /\ op.d \in {<<"a">>, <<"b">>})
       /\ pend' = op
  /\ UNCHANGED <<st, hist>>

Apply ==
  /\ pend # NoOp
  /\ st' = StepR(st, pend).s
  /\ hist' = Append(hist, pend)
  /\ pend' = NoOp

Add == Do("add")
AddRef == Do("addref")
Prepend == Do("prepend")
Printf == Do("printf")
AddIov == Do("addiov")
ResCommit == Do("rescommit")
AddBuf == Do("addbuf")
PrependBuf == Do("prependbuf")
RmBuf == Do("rmbuf")
AddBufRef == Do("addbufref")
AddFile == Do("addfile")
AddFileBad == Do("addfilebad")
Drain == Do("drain")
Remove == Do("remove")
Copyout == Do("copyout")
Pullup == Do("pullup")
Expand == Do("expand")
Readln == Do("readln")
Freeze == Do("freeze")
Unfreeze == Do("unfreeze")
CbAdd == Do("cbadd")
CbDel == Do("cbdel")
CbFlag == Do("cbflag")
CbScript == Do("cbscript")
Loop == Do("loop")
EvRead == Do("evread")
EvWrite == Do("evwrite")
SfWrite == Do("sfwrite")

Init == st = InitSt /\ hist = <<>> /\ pend = NoOp
Next == Add \/ AddRef \/ Prepend \/ Printf \/ AddIov \/ ResCommit \/ AddBuf \/ PrependBuf \/ RmBuf
        \/ AddBufRef \/ AddFile \/ AddFileBad \/ Drain \/ Remove \/ Copyout \/ Pullup \/ Expand \/ Readln
        \/ Freeze \/ Unfreeze \/ CbAdd \/ CbDel \/ CbFlag \/ CbScript \/ Loop \/ EvRead \/ EvWrite \/ SfWrite \/ Apply
Spec == Init /\ [][Next]_vars

----------------------------------------------------------------------------
(* Properties decided by TLC on the model *)
Syms == {"a", "b", "C", "L", "N"}
TypeOK == \A b \in Bufs : Len(st.buf[b]) <= MaxLen + 4 /\ \A i \in 1..Len(st.buf[b]) : st.buf[b][i] \in Syms

(* C12: every search result is a real match and no earlier match exists; eol results split at a terminator *)
SearchSound ==
  \A b \in Bufs : LET s == st.buf[b] IN
    \A k \in 1..Len(Pats) : \A i \in 0..Len(s) :
      LET f == First(s, Pats[k], i, Len(s))
      IN /\ (f >= 0 => f >= i /\ MatchAt(s, Pats[k], f))
         /\ \A j \in i..Len(s) : MatchAt(s, Pats[k], j) => (f >= 0 /\ f <= j)
EolSound ==
  \A b \in Bufs : LET s == st.buf[b] IN
    \A y \in 0..4 : \A i \in 0..Len(s) :
      LET e == Eol(s, i, y)
      IN e[1] >= 0 => /\ e[1] >= i /\ e[2] >= 1 /\ e[1] + e[2] <= Len(s)
                      /\ \A j \in (e[1] + 1)..(e[1] + e[2]) : s[j] \in {"C", "L", "N"}

TotalBytes(S) == Bytes(S.buf[1]) + Bytes(S.buf[2])
Nxt == LET x == StepR(st, pend) IN [s |-> x.s, o |-> x.r]          \* only meaningful when pend # NoOp

(* C12/C14: moves conserve the concatenation of both buffers *)
NoScripts == \A b \in Bufs : \A k \in 1..NCB : st.cb[b][k].left = 0     \* no callback will modify a buffer from inside
MovesConserve == (pend # NoOp /\ NoScripts /\ pend.a \in {"addbuf", "prependbuf", "rmbuf"}) => TotalBytes(Nxt.s) = TotalBytes(st)
(* C12/C14: a failed call (r = -1) changes nothing and reports nothing *)
FailureUnchanged ==
  (pend # NoOp /\ Nxt.o.r = -1)
    => ((pend.a = "evread" \/ Nxt.s.fdin = st.fdin) /\ Nxt.s.buf = st.buf /\ Nxt.s.fs = st.fs /\ Nxt.s.fe = st.fe /\ Nxt.s.cb = st.cb /\ Nxt.s.acc = st.acc /\ Nxt.s.cblog = <<>>)
(* C12: a returned count is the number of bytes that really moved *)
CountsExact ==
  /\ ((pend # NoOp /\ NoScripts /\ pend.a \in {"remove", "rmbuf", "evwrite"} /\ Nxt.o.r >= 0) => Bytes(st.buf[pend.b]) - Bytes(Nxt.s.buf[pend.b]) = Nxt.o.r)
  \* C16: evbuffer_read appends exactly what left the socket; write_atmost never removes more than requested
  /\ ((pend # NoOp /\ NoScripts /\ pend.a = "evread" /\ Nxt.o.r >= 0)
        => /\ Bytes(Nxt.s.buf[pend.b]) - Bytes(st.buf[pend.b]) = Nxt.o.r
           /\ Bytes(st.fdin \o pend.d) - Bytes(Nxt.s.fdin) = Nxt.o.r
           /\ Nxt.s.buf[pend.b] \o Nxt.s.fdin = st.buf[pend.b] \o st.fdin \o pend.d)
  /\ ((pend # NoOp /\ pend.a \in {"evwrite", "sfwrite"} /\ pend.hm >= 0) => Nxt.o.r <= pend.hm)
  /\ ((pend # NoOp /\ pend.a \in {"evwrite", "sfwrite", "evread"} /\ pend.kb >= 0) => Nxt.o.r <= pend.kb)

(* C13 on the model: the accounting ledger equals the real length (every change of a buffer is
   accounted with the right added/deleted amounts); every report is consistent with the length;
   immediate mode leaves nothing unreported; deferred mode never forgets to schedule a run. *)
LedgerExact == \A b \in Bufs : st.led[b] = Bytes(st.buf[b])
ReportConsistent ==
  pend # NoOp => \A j \in 1..Len(Nxt.s.cblog) : LET rp == Nxt.s.cblog[j] IN rp.o + rp.a - rp.d >= 0 /\ rp.a + rp.d > 0
NothingPending == \A b \in Bufs : /\ st.acc[b][1] >= 0 /\ st.acc[b][2] >= 0
                                    /\ (CbMode = 1 => st.acc[b] = <<0, 0>>)
                                    /\ (CbMode = 2 /\ st.acc[b] # <<0, 0>> => \E i \in 1..Len(st.pq) : st.pq[i] = b)
DisabledSilent ==
  pend # NoOp => \A j \in 1..Len(Nxt.s.cblog) : LET rp == Nxt.s.cblog[j] IN st.cb[rp.b][rp.cb].on /\ st.cb[rp.b][rp.cb].en
LoopFlushes == (pend # NoOp /\ pend.a = "loop") => (Nxt.s.pq = <<>> /\ \A b \in Bufs : AnyCb(st, b) => Nxt.s.acc[b] = <<0, 0>>)

(* C15 on the model: tags follow the symbols; a cleanup is owed exactly while some byte depends on the object *)
TagsParallel == \A b \in Bufs : Len(st.tag[b]) = Len(st.buf[b]) /\ \A i \in 1..Len(st.tag[b]) : st.tag[b][i] \in 0..st.nid
CleanupExactlyOnce ==       \* the cleaned set only grows, and nothing is cleaned while a byte depends on it
  pend # NoOp => /\ Cleaned(st) \subseteq Cleaned(Nxt.s)
                 /\ \A x \in Cleaned(Nxt.s) : ~Live(Nxt.s, x)
ReadBackEqualsSource ==     \* symbols tagged with one id form one contiguous run inside a buffer (one chain)
  \A b \in Bufs : \A i, j \in 1..Len(st.tag[b]) :
     (i < j /\ st.tag[b][i] # 0 /\ st.tag[b][i] = st.tag[b][j]) => \A m \in i..j : st.tag[b][m] = st.tag[b][i]

Inv == TypeOK /\ SearchSound /\ EolSound /\ MovesConserve /\ FailureUnchanged /\ CountsExact
       /\ LedgerExact /\ ReportConsistent /\ NothingPending /\ DisabledSilent /\ LoopFlushes

----------------------------------------------------------------------------
GenConstraint == Len(hist) <= D
Emit == (Len(hist) = D /\ pend = NoOp) => PrintT(ToJson(Rep(InitSt, hist)))
StateView == <<st, pend>>
=============================================================================
