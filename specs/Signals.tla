------------------------------ MODULE Signals ------------------------------
(* C07: signal events (signal.c / signalfd.c / evmap.c signal part).

   Pool: events 1,2 on signal A (SIGUSR1), 3,4 on signal B (SIGUSR2); event 2 is
   not persistent.  The harness installs a prior disposition per signal before
   the first add ("dfl", "ign" or "custom").  Mechanism: "selfpipe" (handler writes
   a byte per delivery to a socketpair, evsig_cb counts the bytes) or "signalfd"
   (the signal is blocked and read from a signalfd; standard signals coalesce).

   Actions: Add(e), Del(e), Raise(s) (also from inside callbacks, via one-shot
   callback scripts), Loop (event_base_loop(EVLOOP_NONBLOCK): iterates while
   deliveries / active events exist), BaseFree.
   Observation after every call: the disposition of both signals (which handler is
   installed, whether the signal is blocked) and, for Loop, the callbacks that ran:
   per iteration, run-length encoded [e, n] with n the number of invocations.

   Property C07:
     - while added, each batch of pending deliveries makes the callback run at least
       once and at most as many times as there were deliveries (1 <= n <= count);
     - no callback after the event is deleted (incl. a delete from another callback
       of the same batch, and a self-delete in the middle of an ncalls loop);
     - deleting the last event of a signal, or freeing the base, restores the prior
       disposition. *)
EXTENDS Integers, Sequences, FiniteSets, TLC, Json

CONSTANTS Mech,      \* "selfpipe" | "signalfd"
          PriorA, PriorB,   \* "dfl" | "ign" | "custom"
          Acts, ScriptOps, D,
          Evs        \* subset of 1..4: the events the generator uses (small sets allow exhaustive script families)

VARIABLES st, hist
vars == <<st, hist>>

Ev == 1..4
Sig(e) == IF e <= 2 THEN "A" ELSE "B"
Persist(e) == e # 2
Sigs == {"A", "B"}
NoOp == [a |-> "none"]
Remove(s, x) == SelectSeq(s, LAMBDA y: y # x)
InSeq(s, x) == \E i \in 1..Len(s) : s[i] = x

InitSt == [ added |-> [e \in Ev |-> FALSE],
            lst |-> [s \in Sigs |-> <<>>],      \* evmap list of a signal: most recently added first
            pend |-> [s \in Sigs |-> 0],        \* deliveries not yet consumed by the loop
            script |-> [e \in Ev |-> NoOp],
            freed |-> FALSE ]

Prior(s) == IF s = "A" THEN PriorA ELSE PriorB
Installed(S, s) == S.lst[s] # <<>>
Disp(S) == [s \in Sigs |-> IF S.freed \/ ~Installed(S, s) THEN [h |-> Prior(s), b |-> 0]
                            ELSE IF Mech = "selfpipe" THEN [h |-> "lib", b |-> 0]
                            ELSE [h |-> Prior(s), b |-> 1]]
Obs(S, r) == [r |-> r, dA |-> Disp(S)["A"], dB |-> Disp(S)["B"],
              p |-> [e \in 1..4 |-> IF S.added[e] THEN 1 ELSE 0]]

AddOp(S, e) == IF S.added[e] THEN S
               ELSE [S EXCEPT !.added[e] = TRUE, !.lst[Sig(e)] = <<e>> \o @]
(* deleting the last event of a signal un-installs: under signalfd the still-pending
   (blocked) delivery is then lost to the events; under selfpipe the byte is consumed
   by the next evsig_cb without anybody to activate *)
DelOp(S, e) == IF ~S.added[e] THEN S
               ELSE LET S1 == [S EXCEPT !.added[e] = FALSE, !.lst[Sig(e)] = Remove(@, e)]
                    IN IF Mech = "signalfd" /\ S1.lst[Sig(e)] = <<>> THEN [S1 EXCEPT !.pend[Sig(e)] = 0] ELSE S1
RaiseOp(S, s) == [S EXCEPT !.pend[s] = @ + 1]

ApplyOp(S, op) ==
  CASE op.a = "add" -> AddOp(S, op.e)
    [] op.a = "del" -> DelOp(S, op.e)
    [] op.a = "raise" -> RaiseOp(S, op.s)
    [] OTHER -> S
(* raising a signal whose disposition is the default would kill the process: only when installed *)
Legal(S, op) ==
  CASE op.a = "raise" -> Installed(S, op.s)
                         \* under signalfd the order in which two pending signals are reported is unspecified
                         /\ (Mech = "signalfd" => \A s2 \in Sigs \ {op.s} : S.pend[s2] = 0)
    [] OTHER -> TRUE

----------------------------------------------------------------------------
(* One loop call.  Iterations: consume pending deliveries (signal A before B under
   selfpipe; unspecified order under signalfd -> tie group), activate every added
   event of the signal in list order with ncalls = deliveries (selfpipe) or the
   coalesced count (signalfd: 1 <= n <= deliveries, the kernel merges), then run the
   callbacks.  A callback's one-shot script may del / add / raise. *)
(* the callback of e with ncalls = n: the one-shot script runs in the first invocation;
   a del of e itself aborts the remaining invocations.  Returns the state and the
   allowed number of invocations. *)
RunCb(S, e, n) ==
  LET sc == S.script[e]
      S1 == [S EXCEPT !.script[e] = NoOp]
      S2 == IF sc.a # "none" /\ Legal(S1, sc) THEN ApplyOp(S1, sc) ELSE S1
      selfdel == sc.a = "del" /\ sc.e = e
  IN [s |-> S2, n |-> IF selfdel THEN [_range |-> <<1, 1>>] ELSE [_range |-> <<1, n>>],
      deleted |-> IF sc.a = "del" THEN {sc.e} ELSE {}]

RECURSIVE RunQueue(_, _, _, _)
RunQueue(S, queue, it, log) ==
  IF queue = <<>> THEN [s |-> S, log |-> log]
  ELSE LET q == Head(queue) e == q.e
           S0 == IF Persist(e) THEN S ELSE DelOp(S, e)     \* non-persistent: deleted before its callback runs
           R == RunCb(S0, e, q.n)
           rest == SelectSeq(Tail(queue), LAMBDA x : x.e \notin R.deleted)   \* a deleted active event never runs
       IN RunQueue(R.s, rest, it, Append(log, [e |-> e, n |-> R.n, it |-> it]))

Batch(S, s) == [i \in 1..Len(S.lst[s]) |-> [e |-> S.lst[s][i], n |-> S.pend[s]]]

RECURSIVE LoopRec(_, _, _)
LoopRec(S, it, log) ==
  IF S.pend["A"] = 0 /\ S.pend["B"] = 0 THEN [s |-> S, log |-> log]
  ELSE LET qa == IF Installed(S, "A") THEN (IF S.pend["A"] > 0 THEN Batch(S, "A") ELSE <<>>) ELSE <<>>
           qb == IF Installed(S, "B") THEN (IF S.pend["B"] > 0 THEN Batch(S, "B") ELSE <<>>) ELSE <<>>
           S1 == [S EXCEPT !.pend = [s \in Sigs |-> 0]]
           R == RunQueue(S1, qa \o qb, it, log)
       IN LoopRec(R.s, it + 1, R.log)

----------------------------------------------------------------------------
UserOps ==
  (IF "add" \in Acts THEN {[a |-> "add", e |-> e] : e \in Evs} ELSE {})
  \cup (IF "del" \in Acts THEN {[a |-> "del", e |-> e] : e \in Evs} ELSE {})
  \cup (IF "raise" \in Acts THEN {[a |-> "raise", s |-> s] : s \in Sigs} ELSE {})
ScriptSet ==
  (IF "del" \in ScriptOps THEN {[a |-> "del", e |-> e] : e \in Evs} ELSE {})
  \cup (IF "add" \in ScriptOps THEN {[a |-> "add", e |-> e] : e \in Evs} ELSE {})
  \cup (IF "raise" \in ScriptOps THEN {[a |-> "raise", s |-> s] : s \in Sigs} ELSE {})

Api ==
  /\ ~st.freed
  /\ \E op \in UserOps :
       /\ Legal(st, op)
       /\ (op.a = "raise" => st.pend[op.s] < 3)
       /\ st' = ApplyOp(st, op)
       /\ hist' = Append(hist, op @@ [o |-> Obs(st', 0)])
SetScript ==
  /\ ~st.freed /\ "script" \in Acts
  /\ \E e \in Evs, sc \in ScriptSet :
       /\ st.script[e] = NoOp
       /\ st' = [st EXCEPT !.script[e] = sc]
       /\ hist' = Append(hist, [a |-> "script", e |-> e, s |-> sc, o |-> Obs(st', 0)])
Loop ==
  /\ ~st.freed /\ "loop" \in Acts
  /\ LET R == LoopRec(st, 1, <<>>) IN
     /\ st' = R.s
     /\ hist' = Append(hist, [a |-> "loop", o |-> Obs(R.s, 0) @@ [cb |-> R.log]])
(* event_reinit (as after a fork; also legal without one): every added signal event stays
   registered, the mechanism's kernel objects are recreated, the saved prior dispositions survive *)
Reinit ==
  /\ ~st.freed /\ "reinit" \in Acts
  \* a delivery still in flight through the old socketpair is not carried over (reinit is meant for a
  \* freshly forked child, where such a delivery belongs to the parent): only with nothing pending
  /\ \A s \in Sigs : st.pend[s] = 0
  /\ st' = st
  /\ hist' = Append(hist, [a |-> "reinit", o |-> Obs(st, 0)])
BaseFree ==
  /\ ~st.freed /\ "basefree" \in Acts
  /\ st' = [st EXCEPT !.freed = TRUE, !.added = [e \in Ev |-> FALSE], !.lst = [s \in Sigs |-> <<>>]]
  /\ hist' = Append(hist, [a |-> "basefree", o |-> [r |-> 0, dA |-> Disp(st')["A"], dB |-> Disp(st')["B"]]])

Init == st = InitSt /\ hist = <<>>
Next == Api \/ SetScript \/ Loop \/ Reinit \/ BaseFree
Spec == Init /\ [][Next]_vars

(* invariants of the model *)
ListOK == \A s \in Sigs : /\ \A i \in 1..Len(st.lst[s]) : st.added[st.lst[s][i]] /\ Sig(st.lst[s][i]) = s
                          /\ \A e \in Ev : (st.added[e] /\ Sig(e) = s) => InSeq(st.lst[s], e)
(* DispositionRestored: no event added for s => the prior disposition is in place *)
Restored == \A s \in Sigs : (~\E e \in Ev : st.added[e] /\ Sig(e) = s) => Disp(st)[s] = [h |-> Prior(s), b |-> 0]
Inv == ListOK /\ Restored

GenConstraint == Len(hist) <= D
Emit == (Len(hist) = D \/ st.freed) => PrintT(ToJson(hist))
=============================================================================
