------------------------------ MODULE Threads ------------------------------
(* C09: the cross-thread protocol of event.c at lock / condition-variable /
   notify granularity.  One loop thread L runs event_base_loop; workers call
   event_add (with a timeout), event_active, event_del / event_del_block /
   event_del_noblock and event_base_loopbreak on a shared pool of events.

   Every step of the C code that happens under th_base_lock between two
   release points is one atomic action here; releasing the lock (inside
   dispatch, around user callbacks, in the condition wait) is what makes the
   interleavings.

   Loop thread (event_base_loop):
     LTop        under lock: check break, compute timeout (finite if a timer is
                 pending, 0 if something is active, else infinite), release, wait
     LWake       the wait ends: because the notify fd is readable, because the
                 timeout elapsed (timer due), or immediately if timeout was 0;
                 re-acquire; activate the due timers and the notify event
     LPop(e)     under lock: pop an active event, set current = e, release
     LCbEnd      callback body finished: re-acquire, current = none, broadcast
     LDrain      the internal notify callback: clear is_notify_pending
   Worker ops (each: acquire; body; [notify]; [cond wait]; release):
     WAdd(e)     insert a timer for e; if it becomes the earliest, notify
     WActive(e)  put e on the active queue (if not there); notify
     WDel(e, b)  remove e from the timer set and the active queue; notify if it
                 was the earliest; if current = e and blocking: wait on the
                 condition until the callback has finished
     WBreak      event_break = 1; notify

   notify = evthread_notify_base: if ~is_notify_pending then set it and make
   the notify fd readable.  EVBASE_NEED_NOTIFY = the loop is running in another
   thread (always true for workers here).

   Properties
     DelWaits      when a blocking del of e returns, L is not inside e's
                   callback, and e's callback does not start afterwards unless e
                   was re-added / re-activated after the del began
     NoLostWakeup  (liveness, under weak fairness) an activation / an add whose
                   timer becomes due / a loopbreak made while L sleeps is acted on:
                   every activated event eventually runs or is deleted
     no deadlock   (TLC's deadlock check; terminated workers are fine)
*)
EXTENDS Integers, Sequences, FiniteSets, TLC, Json

CONSTANTS Ev,          \* set of events
          W,           \* set of worker ids
          MaxOps,      \* each worker runs a program of 1..MaxOps operations (all programs are explored)
          NotifyBug,   \* model mutation switch: "none" | "no-notify" | "no-condwait" | "stale-pending"
          None         \* model value: no event

VARIABLES lockOwner,   \* "none" | "L" | w
          lpc,         \* loop thread pc: "top" | "wait" | "proc" | "cb" | "done"
          ltmo,        \* timeout L is waiting with: "inf" | "timer" | "zero"
          active,      \* sequence of events on the active queue (incl. "NOTIFY" for the internal notify event)
          timers,      \* set of events with a pending timer
          due,         \* set of events whose timer has elapsed (environment: time passes)
          current,     \* event whose callback is running, or None
          waiters,     \* set of workers blocked in the condition wait
          notifyPending, notifyReadable,
          brk,
          Prog,        \* Prog[w] = sequence of ops [op, e] (chosen arbitrarily in Init, then constant)
          wpc,         \* wpc[w] = index of next op in Prog[w]
          wst,         \* wst[w] = "idle" | "body" | "condwait"
          \* history for the properties
          delDone,     \* set of events for which a blocking del has returned and no later arm began
          ran,         \* number of callback starts per event
          cbAfterDel,  \* flag: a callback started for an event in delDone
          rearm        \* workers blocked in a del whose event was re-armed by someone else meanwhile
vars == <<lockOwner, lpc, ltmo, active, timers, due, current, waiters, notifyPending, notifyReadable, brk,
          wpc, wst, delDone, ran, cbAfterDel, rearm, Prog>>

dvars == <<lockOwner, lpc, ltmo, active, timers, due, current, waiters, notifyPending, notifyReadable, brk,
           wpc, wst, delDone, ran, cbAfterDel, rearm>>
NOTIFY == "NOTIFY"
InSeq(s, x) == \E i \in 1..Len(s) : s[i] = x
Remove(s, x) == SelectSeq(s, LAMBDA y : y # x)

OpSet == {[op |-> o, e |-> e] : o \in {"add", "active", "del", "del_noblock"}, e \in Ev}
           \cup {[op |-> "break", e |-> CHOOSE e \in Ev : TRUE]}
Progs == UNION {[1..n -> OpSet] : n \in 1..MaxOps}
Init ==
  /\ Prog \in [W -> Progs]
  /\ lockOwner = "none" /\ lpc = "top" /\ ltmo = "inf" /\ active = <<>> /\ timers = {} /\ due = {}
  /\ current = None /\ waiters = {} /\ notifyPending = FALSE /\ notifyReadable = FALSE /\ brk = FALSE
  /\ wpc = [w \in W |-> 1] /\ wst = [w \in W |-> "idle"]
  /\ delDone = {} /\ ran = [e \in Ev |-> 0] /\ cbAfterDel = FALSE /\ rearm = {}

(* evthread_notify_base *)
NotifyVars(np, nr) ==
  IF NotifyBug = "no-notify" THEN <<np, nr>>
  ELSE IF np THEN <<np, nr>> ELSE <<TRUE, TRUE>>

----------------------------------------------------------------------------
(* time passes: a pending timer becomes due (environment) *)
TimerElapses(e) ==
  /\ e \in timers /\ e \notin due
  /\ due' = due \cup {e}
  /\ UNCHANGED <<lockOwner, lpc, ltmo, active, timers, current, waiters, notifyPending, notifyReadable, brk,
                 wpc, wst, delDone, ran, cbAfterDel, rearm>>

(* L at the top of the loop, holding the lock (it keeps the lock from the end of
   processing to the wait): decide the timeout, release, start waiting *)
LTop ==
  /\ lpc = "top" /\ lockOwner \in {"none", "L"}
  /\ IF brk THEN lpc' = "done" /\ lockOwner' = "none" /\ UNCHANGED ltmo
     ELSE /\ lpc' = "wait" /\ lockOwner' = "none"
          /\ ltmo' = IF active # <<>> THEN "zero" ELSE IF timers # {} THEN "timer" ELSE "inf"
  /\ UNCHANGED <<active, timers, due, current, waiters, notifyPending, notifyReadable, brk, wpc, wst, delDone, ran, cbAfterDel, rearm>>

(* the wait ends; L re-acquires the lock, activates what is ready *)
LWake ==
  /\ lpc = "wait" /\ lockOwner = "none"
  /\ \/ ltmo = "zero"
     \/ notifyReadable
     \/ (ltmo = "timer" /\ due \cap timers # {})
  /\ lockOwner' = "L" /\ lpc' = "proc"
  /\ LET fired == due \cap timers
         a1 == IF notifyReadable /\ ~InSeq(active, NOTIFY) THEN <<NOTIFY>> \o active ELSE active
         newly == {e \in fired : ~InSeq(a1, e)}
         RECURSIVE AppendAll(_, _)
         AppendAll(s, xs) == IF xs = {} THEN s ELSE LET x == CHOOSE y \in xs : TRUE IN AppendAll(Append(s, x), xs \ {x})
     IN /\ active' = AppendAll(a1, newly)
        /\ timers' = timers \ fired /\ due' = due \ fired
  /\ notifyReadable' = FALSE      \* edge-triggered: the readiness is consumed by this report
  /\ UNCHANGED <<ltmo, current, waiters, notifyPending, brk, wpc, wst, delDone, ran, cbAfterDel, rearm>>

(* event_process_active: pop one callback under the lock and release it for the body *)
LPop ==
  /\ lpc = "proc" /\ lockOwner = "L"
  /\ IF brk \/ active = <<>> THEN lpc' = "top" /\ UNCHANGED <<active, current, lockOwner, ran, cbAfterDel, notifyPending>>
     ELSE LET x == Head(active) IN
          /\ active' = Tail(active)
          /\ IF x = NOTIFY
             THEN \* evthread_notify_drain_*: runs with the lock re-taken; clears the pending flag
                  /\ notifyPending' = (IF NotifyBug = "stale-pending" THEN notifyPending ELSE FALSE)
                  /\ UNCHANGED <<current, lockOwner, lpc, ran, cbAfterDel>>
             ELSE /\ current' = x /\ lockOwner' = "none" /\ lpc' = "cb"
                  /\ ran' = [ran EXCEPT ![x] = @ + 1]
                  /\ cbAfterDel' = (cbAfterDel \/ x \in delDone)
                  /\ UNCHANGED notifyPending
  /\ UNCHANGED <<ltmo, timers, due, waiters, notifyReadable, brk, wpc, wst, delDone, rearm>>

(* the user callback returns: re-acquire, clear current, broadcast *)
LCbEnd ==
  /\ lpc = "cb" /\ lockOwner = "none"
  /\ lockOwner' = "L" /\ lpc' = "proc" /\ current' = None
  /\ waiters' = {}                                  \* EVTHREAD_COND_BROADCAST
  /\ wst' = [w \in W |-> IF w \in waiters THEN "wake" ELSE wst[w]]
  /\ UNCHANGED <<ltmo, active, timers, due, notifyPending, notifyReadable, brk, wpc, delDone, ran, cbAfterDel, rearm>>

----------------------------------------------------------------------------
CurOp(w) == Prog[w][wpc[w]]
HasOp(w) == wpc[w] <= Len(Prog[w])
IsArm(op) == op.op \in {"add", "active"}

(* a worker acquires the lock and performs the body of its op *)
WBody(w) ==
  /\ HasOp(w) /\ wst[w] = "idle" /\ lockOwner = "none"
  /\ LET op == CurOp(w) e == op.e IN
     CASE op.op = "add" ->
            /\ timers' = timers \cup {e} /\ due' = due \ {e}
            /\ LET nv == NotifyVars(notifyPending, notifyReadable) IN notifyPending' = nv[1] /\ notifyReadable' = nv[2]
            /\ delDone' = delDone \ {e}
            /\ rearm' = rearm \cup {v \in W : wst[v] \in {"condwait", "wake"} /\ Prog[v][wpc[v]].e = e}
            /\ wpc' = [wpc EXCEPT ![w] = @ + 1]
            /\ UNCHANGED <<active, brk, waiters, wst, lockOwner>>
       [] op.op = "active" ->
            /\ active' = IF InSeq(active, e) THEN active ELSE Append(active, e)
            /\ LET nv == NotifyVars(notifyPending, notifyReadable) IN notifyPending' = nv[1] /\ notifyReadable' = nv[2]
            /\ delDone' = delDone \ {e}
            /\ rearm' = rearm \cup {v \in W : wst[v] \in {"condwait", "wake"} /\ Prog[v][wpc[v]].e = e}
            /\ wpc' = [wpc EXCEPT ![w] = @ + 1]
            /\ UNCHANGED <<timers, due, brk, waiters, wst, lockOwner>>
       [] op.op \in {"del", "del_noblock"} ->
            /\ timers' = timers \ {e} /\ due' = due \ {e} /\ active' = Remove(active, e)
            /\ LET nv == NotifyVars(notifyPending, notifyReadable) IN notifyPending' = nv[1] /\ notifyReadable' = nv[2]
            /\ IF op.op = "del" /\ current = e /\ NotifyBug # "no-condwait"
               THEN \* EVTHREAD_COND_WAIT releases the lock and sleeps
                    /\ waiters' = waiters \cup {w} /\ wst' = [wst EXCEPT ![w] = "condwait"]
                    /\ UNCHANGED <<wpc, delDone>>
               ELSE /\ wpc' = [wpc EXCEPT ![w] = @ + 1]
                    /\ delDone' = IF op.op = "del" THEN delDone \cup {e} ELSE delDone
                    /\ UNCHANGED <<waiters, wst>>
            /\ UNCHANGED <<brk, lockOwner, rearm>>
       [] op.op = "break" ->
            /\ brk' = TRUE
            /\ LET nv == NotifyVars(notifyPending, notifyReadable) IN notifyPending' = nv[1] /\ notifyReadable' = nv[2]
            /\ wpc' = [wpc EXCEPT ![w] = @ + 1]
            /\ UNCHANGED <<active, timers, due, waiters, wst, delDone, lockOwner, rearm>>
  /\ UNCHANGED <<lpc, ltmo, current, ran, cbAfterDel>>

(* woken from the condition wait: re-acquire the lock and return from event_del *)
WWake(w) ==
  /\ wst[w] = "wake" /\ lockOwner = "none"
  /\ wst' = [wst EXCEPT ![w] = "idle"]
  /\ wpc' = [wpc EXCEPT ![w] = @ + 1]
  /\ delDone' = (IF w \in rearm THEN delDone ELSE delDone \cup {CurOp(w).e})
  /\ rearm' = rearm \ {w}
  /\ UNCHANGED <<lockOwner, lpc, ltmo, active, timers, due, current, waiters, notifyPending, notifyReadable, brk, ran, cbAfterDel>>

(* terminal situations: the loop has exited, or it sleeps for ever with nothing pending
   and no worker left to wake it (a program without loopbreak) *)
Done == /\ \A w \in W : ~HasOp(w)
        /\ \/ lpc = "done"
           \/ (lpc = "wait" /\ ltmo = "inf" /\ active = <<>> /\ timers = {} /\ ~notifyReadable)
Next ==
  /\ \/ LTop \/ LWake \/ LPop \/ LCbEnd
     \/ \E e \in Ev : TimerElapses(e)
     \/ \E w \in W : WBody(w) \/ WWake(w)
     \/ (Done /\ UNCHANGED dvars)
  /\ UNCHANGED Prog

Fairness == WF_dvars(LTop) /\ WF_dvars(LWake) /\ WF_dvars(LPop) /\ WF_dvars(LCbEnd)
            /\ \A e \in Ev : WF_dvars(TimerElapses(e))
            /\ \A w \in W : WF_dvars(WBody(w)) /\ WF_dvars(WWake(w))
Spec == Init /\ [][Next]_vars /\ Fairness

----------------------------------------------------------------------------
TypeOK == lockOwner \in {"none", "L"} \cup W /\ lpc \in {"top", "wait", "proc", "cb", "done"}
(* DelWaits, part 1: a worker whose blocking del has returned never observes the callback running *)
DelWaits1 == \A e \in delDone : current # e
(* DelWaits, part 2: no callback starts for an event after its del returned (without re-arming) *)
DelWaits2 == ~cbAfterDel
(* the notify flag and the fd agree: readable implies pending (a pending flag with an
   unreadable fd after the drain would lose the next wake-up) *)
NotifyConsistent == notifyReadable => notifyPending
(* NoLostWakeup: whatever is active or armed and due is eventually run (or deleted / loop broken);
   in particular L does not sleep for ever with work pending *)
NoLostWakeup == \A e \in Ev : [](InSeq(active, e) => <>(~InSeq(active, e) \/ lpc = "done"))
TimersFire == \A e \in Ev : []((e \in timers) => <>(e \notin timers \/ lpc = "done"))
BreakEnds == [](brk => <>(lpc = "done"))
(* program generation for the conformance driver: print the program of every initial state *)
IsInitial == lpc = "top" /\ lockOwner = "none" /\ wpc = [w \in W |-> 1] /\ active = <<>> /\ timers = {} /\ ltmo = "inf" /\ ~brk
EmitProg == IsInitial => PrintT(ToJson([w \in W |-> Prog[w]]))
OnlyInitial == IsInitial
=============================================================================
