----------------------------- MODULE HttpWrite -----------------------------
(* Messages WRITTEN by evhttp (property C26): the writer composed with the
   RFC 9112 reference parser of HttpFraming must be the identity on the
   caller's content.

   An event of the trace is one use of the API with concrete arguments plus
   what the real library did with them:

     response (View = "client": the octets are parsed as a client would)
       [kind |-> "resp", rmethod, rver, rconn        the request being answered
        style |-> "reply" | "error" | "chunked", code, reason, hdrs, body, chunks,
        dct   |-> default Content-Type configured on the server: <<"lib">> | <<"null">> | <<"set", value>>,
        rc    |-> return codes of evhttp_add_header (one per hdrs entry),
        raw   |-> octets the peer received, closed |-> peer saw the connection close]
     request (View = "server")
       [kind |-> "req", method, uri, hdrs, body, rc (add_header ..., then evhttp_make_request), raw]

   For every event TLC decides two things and prints them (Judge):
     model : the specification's own writer (Serialize) followed by Frame()
             yields exactly the message Expected(e) when every argument is
             acceptable, and does NOT when an argument carries CR / LF / (for a
             target) SP - i.e. refusing such arguments is necessary (OneMessage,
             InjectionIsReal);
     impl  : Frame(raw octets of the real library) is exactly Expected(e'), where
             e' is e without the header fields the API refused (rc # 0); an
             unacceptable argument must have been refused.
*)
EXTENDS HttpFraming, IOUtils

Trace == ndJsonDeserialize(IOEnv.TRACE)

HasEOL(s) == Has(s, CR) \/ Has(s, LF)
NameOK(n) == n # "" /\ ~HasEOL(n)
(* a field value is acceptable iff EVERY line break in it (CRLF, bare LF, bare CR) is followed by SP / HTAB, i.e. is an
   obs-fold continuation; anything else ends the field line and starts a new line of the caller's choosing *)
ValueOK(v) == \A i \in 1..Len(v) :
  (Ch(v, i) \in {CR, LF} /\ ~(Ch(v, i) = CR /\ i < Len(v) /\ Ch(v, i + 1) = LF)) => (i < Len(v) /\ IsWs(Ch(v, i + 1)))
(* the parts of a folded value as a recipient that accepts obs-fold sees them *)
RECURSIVE Parts(_)
Parts(v) == LET I == {i \in 1..Len(v) : Ch(v, i) \in {CR, LF}} IN
  IF I = {} THEN <<Trim(v)>>
  ELSE LET i == Min(I) n == IF Ch(v, i) = CR /\ i < Len(v) /\ Ch(v, i + 1) = LF THEN 2 ELSE 1
       IN <<Trim(SubSeq(v, 1, i - 1))>> \o Parts(From(v, i + n))
HdrOK(h) == NameOK(h[1]) /\ ValueOK(h[2])
ReasonOK(r) == ~HasEOL(r)
TargetOK(u) == u # "" /\ ~HasEOL(u) /\ ~Has(u, SP) /\ ~Has(u, HT)

RECURSIVE Filter(_, _)     \* keep hs[i] where keep[i]
Filter(hs, keep) == IF Len(hs) = 0 THEN <<>>
                    ELSE (IF keep[1] THEN <<hs[1]>> ELSE <<>>) \o Filter(Tail(hs), Tail(keep))
Find(hs, name) == \E i \in 1..Len(hs) : Low(hs[i][1]) = name
RemoveFirst(hs, name) ==
  LET I == {i \in 1..Len(hs) : Low(hs[i][1]) = name} IN
  IF I = {} THEN hs ELSE SubSeq(hs, 1, Min(I) - 1) \o SubSeq(hs, Min(I) + 1, Len(hs))

DefaultCT == "text/html; charset=ISO-8859-1"
ANY == "*"      \* value decided by the library (Date, Content-Length of a generated error page)

(* ---- responses *)
NeedBody(e) == e.code # 204 /\ e.code # 304 /\ ~(e.code >= 100 /\ e.code < 200) /\ e.rmethod # "HEAD"
KeepAlive(e) == Len(e.rconn) >= 10 /\ Low(SubSeq(e.rconn, 1, 10)) = "keep-alive"
(* named deviation: evhttp_send_error answers with HTTP/1.1 whenever major or minor of the request is 0
   (evhttp_send_page_); the version of a response is chosen by the library, not supplied by the caller *)
EffVer(e) == IF e.style = "error" /\ (e.rver[1] = 0 \/ e.rver[2] = 0) THEN <<1, 1>> ELSE e.rver
V11(e) == EffVer(e)[2] >= 1
RECURSIVE Cat(_)
Cat(q) == IF Len(q) = 0 THEN "" ELSE q[1] \o Cat(Tail(q))
RespBody(e) == IF ~NeedBody(e) THEN "" ELSE IF e.style = "chunked" THEN Cat(e.chunks) ELSE e.body

(* header fields of the response: the caller's (accepted) fields plus the automatic ones *)
(* the default Content-Type is a caller input too (evhttp_set_default_content_type): dct = <<"lib">> (untouched),
   <<"null">> (switched off) or <<"set", value>>; a value that could inject is dropped (the setter cannot refuse) *)
DefaultCTOf(e, raw) == IF e.dct[1] = "lib" THEN <<DefaultCT>> ELSE IF e.dct[1] = "null" THEN <<>>
                       ELSE IF raw \/ ValueOK(e.dct[2]) THEN <<e.dct[2]>> ELSE <<>>
DctBad(e) == e.dct[1] = "set" /\ ~ValueOK(e.dct[2])
RespHdrsX(e, H0, raw) ==
  LET H1 == IF e.style = "error" THEN <<<<"Content-Type", "text/html">>, <<"Connection", "close">>>> ELSE H0
      chunkedTE == e.style = "chunked" /\ ~Find(H1, "content-length") /\ V11(e) /\ NeedBody(e)
      H2 == IF chunkedTE THEN Append(H1, <<"Transfer-Encoding", "chunked">>) ELSE H1
      H3 == IF V11(e) /\ ~Find(H2, "date") THEN Append(H2, <<"Date", ANY>>) ELSE H2
      H4 == IF ~V11(e) /\ KeepAlive(e) THEN Append(H3, <<"Connection", "keep-alive">>) ELSE H3
      clv == IF e.style = "error" THEN ANY ELSE IF e.style = "chunked" THEN "0" ELSE ToString(Len(e.body))
      H5 == IF (V11(e) \/ KeepAlive(e)) /\ NeedBody(e) /\ ~Find(H4, "transfer-encoding") /\ ~Find(H4, "content-length")
            THEN Append(H4, <<"Content-Length", clv>>) ELSE H4
      ct == DefaultCTOf(e, raw)
      H6 == IF NeedBody(e) /\ ~Find(H5, "content-type") /\ ct # <<>> THEN Append(H5, <<"Content-Type", ct[1]>>) ELSE H5
  IN IF Low(e.rconn) = "close" THEN Append(RemoveFirst(H6, "connection"), <<"Connection", "close">>) ELSE H6

RespHdrs(e, H0) == RespHdrsX(e, H0, FALSE)
RespCloses(e) == e.style = "error" \/ Low(e.rconn) = "close" \/ (~V11(e) /\ ~KeepAlive(e))
(* a streamed (start/chunk/end) reply to an HTTP/1.0 client cannot be framed on a kept-alive connection:
   nothing sensible can be expected, the case is judged on "exactly one message with this body" alone *)
RespUnframable(e) == e.style = "chunked" /\ ~V11(e) /\ KeepAlive(e) /\ NeedBody(e)

ExpectedResp(e, H0) == [code |-> e.code, t |-> e.reason, v |-> EffVer(e), h |-> RespHdrs(e, H0),
                        b |-> RespBody(e), anyb |-> e.style = "error", closes |-> RespCloses(e)]

(* ---- requests *)
HasBodyFlag(m) == m \notin {"HEAD", "TRACE"}
ReqBody(e) == IF HasBodyFlag(e.method) THEN e.body ELSE ""
ReqHdrs(e, H0) ==
  IF HasBodyFlag(e.method) /\ (e.body # "" \/ e.method \in {"POST", "PUT"}) /\ ~Find(H0, "content-length")
  THEN Append(H0, <<"Content-Length", ToString(Len(e.body))>>) ELSE H0
ExpectedReq(e, H0) == [m |-> e.method, t |-> e.uri, v |-> <<1, 1>>, h |-> ReqHdrs(e, H0), b |-> ReqBody(e),
                       anyb |-> FALSE, closes |-> FALSE]

(* ---- the specification's writer *)
HexDigit(n) == SubSeq("0123456789abcdef", n + 1, n + 1)
RECURSIVE Hex(_)
Hex(n) == IF n < 16 THEN HexDigit(n) ELSE Hex(n \div 16) \o HexDigit(n % 16)
RECURSIVE WriteHdrs(_)
WriteHdrs(hs) == IF Len(hs) = 0 THEN ""
                 ELSE hs[1][1] \o ": " \o (IF hs[1][2] = ANY THEN "Thu, 01 Jan 1970 00:00:00 GMT" ELSE hs[1][2]) \o CRLF
                      \o WriteHdrs(Tail(hs))
RECURSIVE WriteChunks(_)
WriteChunks(q) == IF Len(q) = 0 THEN "0" \o CRLF \o CRLF
                  ELSE (IF q[1] = "" THEN "" ELSE Hex(Len(q[1])) \o CRLF \o q[1] \o CRLF) \o WriteChunks(Tail(q))
SerializeResp(e, H0) ==
  LET x == ExpectedResp(e, H0)
      isTE == Find(x.h, "transfer-encoding")
      pageFix(hs) == [i \in 1..Len(hs) |-> IF hs[i][1] = "Content-Length" /\ hs[i][2] = ANY THEN <<"Content-Length", "1">> ELSE hs[i]]
  IN "HTTP/" \o ToString(EffVer(e)[1]) \o "." \o ToString(EffVer(e)[2]) \o " " \o ToString(e.code) \o " " \o e.reason \o CRLF
     \o WriteHdrs(pageFix(x.h)) \o CRLF
     \o (IF ~NeedBody(e) THEN "" ELSE IF e.style = "error" THEN "E"
         ELSE IF isTE THEN WriteChunks(e.chunks) ELSE x.b)
SerializeReq(e, H0) ==
  LET x == ExpectedReq(e, H0) IN
  e.method \o " " \o e.uri \o " HTTP/1.1" \o CRLF \o WriteHdrs(x.h) \o CRLF \o x.b

(* ---- comparison of a parsed message with the expectation *)
HdrEq(p, x) == Low(p.n) = Low(x[1]) /\ (IF x[2] = ANY THEN Len(p.v) = 1
                                         ELSE IF HasEOL(x[2]) THEN p.v = Parts(x[2])
                                         ELSE Len(p.v) = 1 /\ p.v[1] = x[2])
(* same multiset of fields: a bijection exists; the lists are short, so match greedily in order of the expectation *)
RECURSIVE HdrsMatch(_, _)
HdrsMatch(ps, xs) ==
  IF Len(xs) = 0 THEN Len(ps) = 0
  ELSE LET I == {i \in 1..Len(ps) : HdrEq(ps[i], xs[1])} IN
       I # {} /\ HdrsMatch(SubSeq(ps, 1, Min(I) - 1) \o SubSeq(ps, Min(I) + 1, Len(ps)), Tail(xs))
MsgMatch(p, x) ==
  /\ (View = "client" => p.code = x.code)
  /\ (View = "server" => p.m = x.m)
  /\ p.t = x.t /\ p.v = x.v
  /\ HdrsMatch(p.h, x.h) /\ Len(p.trl) = 0
  /\ (x.anyb \/ p.b = x.b)
(* every result the reference allows is exactly the one expected message, then an idle or closed connection *)
ExactlyOne(R, x) == R # {} /\ \A r \in R : Len(r.out) = 1 /\ MsgMatch(r.out[1], x) /\ r.end \in {"open", "closed"}

(* messages carrying (acceptable) folded values: a recipient may also refuse obs-fold, and bare CR / LF inside a line are
   left open by the reference - but whatever it derives must still be exactly the caller's message *)
Foldy(H) == \E i \in 1..Len(H) : HasEOL(H[i][2])
Matches(r, x) == Len(r.out) = 1 /\ MsgMatch(r.out[1], x) /\ r.end \in {"open", "closed"}
FoldOK(R, x) == R # {} /\ \A r \in R : Matches(r, x) \/ (Len(r.out) = 0 /\ r.end \in {"rejected", "unspec"})
Exactly(R, x, H) == IF Foldy(H) THEN FoldOK(R, x) ELSE ExactlyOne(R, x)

Kept(e) == [i \in 1..Len(e.hdrs) |-> e.rc[i] = 0]
AllGood(e) == [i \in 1..Len(e.hdrs) |-> HdrOK(e.hdrs[i])]
StartOK(e) == IF e.kind = "resp" THEN ReasonOK(e.reason) ELSE TargetOK(e.uri)
RqOf(e) == IF e.kind = "resp" THEN <<e.rmethod>> ELSE <<>>
Expected(e, H0) == IF e.kind = "resp" THEN ExpectedResp(e, H0) ELSE ExpectedReq(e, H0)
WriteMsg(e, H0) == IF e.kind = "resp" THEN SerializeResp(e, H0) ELSE SerializeReq(e, H0)
Unframable(e) == e.kind = "resp" /\ RespUnframable(e)

(* MODEL: writer o parser = identity on acceptable arguments; an unacceptable start-line argument breaks it *)
OneMessage(e) ==
  LET H0 == Filter(e.hdrs, AllGood(e)) x == Expected(e, H0) IN
  (StartOK(e) /\ ~Unframable(e)) => Exactly(Frame(WriteMsg(e, H0), RqOf(e), x.closes), x, H0)
InjectionIsReal(e) ==
  LET x == Expected(e, e.hdrs) IN
  \* (evhttp_send_error discards the caller's header fields, so they cannot inject there)
  (~StartOK(e) \/ ((e.kind = "req" \/ e.style # "error") /\ \E i \in 1..Len(e.hdrs) : ~HdrOK(e.hdrs[i]))) =>
     ~\E r \in Frame(WriteMsg(e, e.hdrs), RqOf(e), x.closes) : Matches(r, x)   \* no recipient derives the caller's message

(* an injecting default Content-Type written as it is would add a field: dropping it is necessary *)
DctInjectionIsReal(e) ==
  (e.kind = "resp" /\ DctBad(e) /\ StartOK(e) /\ ~Unframable(e) /\ e.style # "error" /\ NeedBody(e)
   /\ ~Find(Filter(e.hdrs, AllGood(e)), "content-type")) =>
     LET H0 == Filter(e.hdrs, AllGood(e))
         x == ExpectedResp(e, H0)
         rawmsg == "HTTP/" \o ToString(EffVer(e)[1]) \o "." \o ToString(EffVer(e)[2]) \o " " \o ToString(e.code) \o " " \o e.reason \o CRLF
                   \o WriteHdrs(RespHdrsX(e, H0, TRUE)) \o CRLF \o (IF Find(x.h, "transfer-encoding") THEN WriteChunks(e.chunks) ELSE x.b)
     IN ~ExactlyOne(Frame(rawmsg, RqOf(e), x.closes), x)

(* IMPLEMENTATION: the captured octets *)
Refusals(e) == \A i \in 1..Len(e.hdrs) : ~HdrOK(e.hdrs[i]) => e.rc[i] # 0
ImplOK(e) ==
  LET H0 == Filter(e.hdrs, Kept(e)) x == Expected(e, H0)
      R == Frame(e.raw, RqOf(e), IF e.kind = "resp" THEN e.closed ELSE FALSE)
  IN /\ Refusals(e)
     /\ IF ~StartOK(e) THEN e.raw = ""            \* the call must have been refused: nothing written
        ELSE IF Unframable(e) THEN \A r \in R : Len(r.out) = 1 /\ r.out[1].b = x.b /\ r.end \in {"open", "closed"}
        ELSE Exactly(R, x, H0) /\ (e.kind = "resp" => e.closed = x.closes)

Mine(e) == e.kind = (IF View = "client" THEN "resp" ELSE "req")

WInit == msgs = <<>> /\ mode = "trace" /\ pos = 1 /\ S = {} /\ ctx = [rq |-> <<>>, eof |-> FALSE]
WNext == pos <= Len(Trace) /\ pos' = pos + 1 /\ UNCHANGED <<msgs, mode, S, ctx>>

Judge == (pos <= Len(Trace) /\ Mine(Trace[pos])) =>
  LET e == Trace[pos] IN
  PrintT(ToJson([i |-> pos, model |-> OneMessage(e) /\ InjectionIsReal(e) /\ DctInjectionIsReal(e), impl |-> ImplOK(e),
                 parsed |-> AltsJ(Frame(e.raw, RqOf(e), IF e.kind = "resp" THEN e.closed ELSE FALSE))]))
=============================================================================
