---------------------------- MODULE DnsClient ----------------------------
(* Life-cycle of evdns resolve requests (property C34): every request reports exactly once.

   One record per request r:
     st    "none" | "waiting" (no transaction yet) | "inflight" (UDP) | "tcp" | "between" (the sub-request was
           answered and a follow-up -- next search name, or the same question over TCP -- has to be sent) |
           "answered" (outcome decided, user callback pending) | "cancelled" | "shutdown" (callbacks pending) |
           "dropped" (base freed without fail_requests) | "done"
     txid, ns, tx (transmissions of the current sub-request), reis (re-issues), name / sn (search candidate), fate
   The environment decides the fate of every transmission when it is sent:
     UDP: ok | nx | drop | servfail | refused | tc | bad          TCP: ok | nx | drop | close
   Every step of the protocol that is visible from outside is one action (Make, Send, Answer, Complete, Cancel,
   Free, Probe, Quiesce); the only silent step is Expire (the last transmission timed out).  The same actions
   generate fault scripts (hist) and validate traces recorded from the real resolver (TraceNext below):
   a trace is accepted iff it is a behaviour of this specification ending in Quiesce -- i.e. every request
   that was made has reported exactly once (or was dropped by evdns_base_free(base, 0)). *)
EXTENDS Integers, Sequences, FiniteSets, TLC, Json, IOUtils

CONSTANTS Reqs, NS, TxIds, MaxInflight, Attempts, SearchLens, Fates, TcpFates, D,
          Mode           \* "mc" (model checking), "gen" (script generation), "trace" (validation of IOEnv.C34TRACE)
VARIABLES req, nsst, freed, hist, tr, idx
vars == <<req, nsst, freed, hist, tr, idx>>

T == IF Mode = "trace" THEN JsonDeserialize(IOEnv.C34TRACE) ELSE <<>>
TraceLim == IF tr > 0 THEN T[tr][1].max ELSE MaxInflight
Active == {"inflight", "tcp"}
Live == {"waiting", "inflight", "tcp", "between"}
InitReq == [st |-> "none", txid |-> 0, ns |-> 0, tx |-> 0, reis |-> 0, name |-> 1, sn |-> 1, fate |-> "", cb |-> 0, tcpnext |-> FALSE, res |-> ""]
ActiveTxids(except) == {req[r].txid : r \in {x \in Reqs \ {except} : req[x].st \in Active}}
NInflight == Cardinality({r \in Reqs : req[r].st \in Active})
Log(e) == IF Mode = "gen" THEN Append(hist, e) ELSE hist
Lost == {"drop", "servfail", "close"}
(* the inflight limit: a constant when model checking, the first event of the trace when validating *)
Lim == IF Mode = "trace" THEN TraceLim ELSE MaxInflight
Failed(q) == IF q.name < q.sn THEN [InitReq EXCEPT !.st = "between", !.name = q.name + 1, !.sn = q.sn]
             ELSE [InitReq EXCEPT !.st = "answered", !.res = "err"]
Decided(res) == [InitReq EXCEPT !.st = "answered", !.res = res]      \* outcome fixed, user callback pending (records are kept canonical)

Make(r, sn) ==
  /\ req[r].st = "none" /\ freed = "no"
  /\ req' = [req EXCEPT ![r] = [InitReq EXCEPT !.st = "waiting", !.sn = sn]]
  /\ hist' = Log([e |-> "make", r |-> r, sn |-> sn])
  /\ UNCHANGED <<nsst, freed>>

(* a query for r appears on the wire *)
Send(r, ns, txid, why, fate) ==
  LET q == req[r] IN
  /\ freed = "no" /\ q.cb = 0
  /\ \/ /\ why = "first" /\ q.st \in {"waiting", "between"} /\ NInflight < Lim
        /\ txid \notin ActiveTxids(r)
        /\ fate \in (IF q.tcpnext THEN TcpFates ELSE Fates)
        /\ req' = [req EXCEPT ![r] = [q EXCEPT !.st = IF q.tcpnext THEN "tcp" ELSE "inflight", !.txid = txid, !.ns = ns, !.tx = 1,
                                               !.fate = fate, !.tcpnext = FALSE]]
     \/ /\ why = "retx" /\ q.st \in Active /\ q.fate \in Lost /\ q.tx < Attempts /\ txid = q.txid
        /\ fate \in (IF q.st = "tcp" THEN TcpFates ELSE Fates)
        /\ req' = [req EXCEPT ![r] = [q EXCEPT !.ns = ns, !.tx = q.tx + 1, !.fate = fate]]
     \/ /\ why = "reissue" /\ q.st = "inflight" /\ q.fate = "refused" /\ q.reis < 1 /\ txid = q.txid   \* normally another nameserver; any when all have failed
        /\ fate \in Fates
        /\ req' = [req EXCEPT ![r] = [q EXCEPT !.ns = ns, !.tx = 1, !.reis = 1, !.fate = fate]]
  /\ nsst' = IF fate \in Lost \cup {"refused"} THEN [nsst EXCEPT ![ns] = "failed"] ELSE nsst
  /\ hist' = Log([e |-> "send", r |-> r, why |-> why, fate |-> fate, name |-> req'[r].name, tcp |-> req'[r].st = "tcp"])
  /\ UNCHANGED freed

(* the nameserver answers the outstanding transmission of r *)
Answer(r) ==
  LET q == req[r] IN
  /\ q.st \in Active /\ q.fate \notin {"drop", "close"} /\ q.fate # ""
  /\ \/ /\ q.fate = "ok"
        /\ req' = [req EXCEPT ![r] = Decided("ok")]
     \/ /\ q.fate \in {"nx", "bad"}      \* an error reply ends this sub-request: next search candidate, or report
        /\ req' = [req EXCEPT ![r] = Failed(q)]
     \/ /\ q.fate = "tc"
        /\ req' = [req EXCEPT ![r] = [InitReq EXCEPT !.st = "between", !.name = q.name, !.sn = q.sn, !.tcpnext = TRUE]]
     \/ /\ q.fate = "refused"          \* re-issued to another nameserver, or (none left / already re-issued) an error reply like the others
        /\ \/ q.reis < 1 /\ UNCHANGED req
           \/ req' = [req EXCEPT ![r] = Failed(q)]
     \/ /\ q.fate = "servfail" /\ UNCHANGED req        \* treated like a timeout: retransmitted or given up (Expire)
  /\ UNCHANGED <<nsst, freed, hist>>

(* an answer to a transmission whose request is no longer waiting for it (cancelled, freed, already retransmitted ...) *)
LateAnswer(r) == req[r].st \notin Active /\ UNCHANGED <<req, nsst, freed, hist>>

(* silent: the last transmission is lost and the request gives up *)
Expire(r) ==
  /\ req[r].st \in Active /\ req[r].fate \in Lost
  /\ (req[r].tx >= Attempts \/ req[r].st = "tcp")    \* a TCP transmission can be lost with its connection before the nameserver sees it
  /\ req' = [req EXCEPT ![r] = Decided("timeout")]
  /\ UNCHANGED <<nsst, freed, hist>>

(* the user callback runs *)
Complete(r, res) ==
  /\ req[r].cb = 0 /\ req[r].st \in {"answered", "cancelled", "shutdown"}
  /\ res = (IF req[r].st = "cancelled" THEN "cancel" ELSE IF req[r].st = "shutdown" THEN "shutdown" ELSE req[r].res)
  /\ req' = [req EXCEPT ![r] = [InitReq EXCEPT !.st = "done", !.cb = 1]]
  /\ hist' = Log([e |-> "cb", r |-> r, res |-> res])
  /\ UNCHANGED <<nsst, freed>>

(* evdns_cancel_request: ignored when the callback is already pending *)
Cancel(r) ==
  /\ freed = "no" /\ req[r].cb = 0 /\ req[r].st \in Live \cup {"answered"}
  /\ \/ req' = [req EXCEPT ![r] = [InitReq EXCEPT !.st = "cancelled"]]
     \/ req[r].st = "answered" /\ UNCHANGED req
  /\ hist' = Log([e |-> "cancel", r |-> r])
  /\ UNCHANGED <<nsst, freed>>

(* evdns_base_free(base, fail_requests) *)
Free(mode) ==
  /\ freed = "no" /\ mode \in {"fail", "silent"}
  /\ freed' = mode
  /\ \E keep \in SUBSET {r \in Reqs : req[r].st = "answered"} :       \* callbacks that were already pending still run
       req' = [r \in Reqs |-> IF req[r].st \in Live \/ (req[r].st = "answered" /\ r \notin keep)
                              THEN [InitReq EXCEPT !.st = IF mode = "fail" THEN "shutdown" ELSE "dropped"] ELSE req[r]]
  /\ hist' = Log([e |-> "free", mode |-> mode])
  /\ UNCHANGED nsst

(* internal probe traffic towards a nameserver (normally one marked failed; which one libevent considers failed depends on
   timeout counters that are not modelled) *)
Probe(ns) == freed = "no" /\ UNCHANGED <<req, nsst, freed, hist>>
Quiesce == (\A r \in Reqs : req[r].st \in {"none", "done", "dropped"}) /\ UNCHANGED <<req, nsst, freed, hist>>

----------------------------------------------------------------------------
(* Properties *)
CallbackAtMostOnce == \A r \in Reqs : req[r].cb <= 1 /\ (req[r].st = "done" <=> req[r].cb = 1)
TxidUniqueInflight == \A r1, r2 \in Reqs : (r1 # r2 /\ req[r1].st \in Active /\ req[r2].st \in Active) => req[r1].txid # req[r2].txid
InflightLimit == NInflight <= Lim
NoCallbackAfterFree == /\ (freed = "silent" => \A r \in Reqs : req[r].st # "shutdown")
                       /\ (freed # "no" => \A r \in Reqs : req[r].st \notin Live)
Bounded == \A r \in Reqs : req[r].tx <= Attempts /\ req[r].name <= req[r].sn /\ req[r].reis <= 1
(* every request that was made eventually reports (or is dropped by a silent free) *)
Reported == \A r \in Reqs : req[r].st \in {"none", "done", "dropped"}
EventuallyReported == <>[]Reported

----------------------------------------------------------------------------
InitCommon == /\ req = [r \in Reqs |-> InitReq] /\ nsst = [s \in NS |-> "up"] /\ freed = "no" /\ hist = <<>>
Init == InitCommon /\ tr = 0 /\ idx = 0
Env == \/ \E r \in Reqs, sn \in SearchLens : Make(r, sn)
       \/ \E r \in Reqs, ns \in NS, t \in TxIds, why \in {"first", "retx", "reissue"}, f \in Fates \cup TcpFates : Send(r, ns, t, why, f)
       \/ \E r \in Reqs : Answer(r) \/ Expire(r) \/ Cancel(r)
       \/ \E r \in Reqs, res \in {"ok", "err", "timeout", "cancel", "shutdown"} : Complete(r, res)
       \/ \E m \in {"fail", "silent"} : Free(m)
Next == Env /\ UNCHANGED <<tr, idx>> /\ (Mode = "gen" => Len(hist) < D)
(* progress: whatever is enabled eventually happens, except that the user is never obliged to make / cancel / free *)
Progress == \/ \E r \in Reqs, ns \in NS, t \in TxIds, why \in {"first", "retx", "reissue"}, f \in Fates \cup TcpFates : Send(r, ns, t, why, f)
            \/ \E r \in Reqs : Answer(r) \/ Expire(r)
            \/ \E r \in Reqs, res \in {"ok", "err", "timeout", "cancel", "shutdown"} : Complete(r, res)
FairSpec == Init /\ [][Next]_vars /\ WF_vars(Progress /\ UNCHANGED <<tr, idx>>)

GenConstraint == TRUE
EmitHist == (Mode = "gen" /\ Len(hist) >= 3 /\ (Len(hist) = D \/ Reported)) => PrintT(ToJson(hist))

----------------------------------------------------------------------------
(* Trace validation: IOEnv.C34TRACE is a JSON array of traces, each an array of events
   [e, r, ns, id, fate, tcp, res, mode] (unused fields 0 / ""). *)
TraceInit == InitCommon /\ tr \in 1..Len(T) /\ idx = 1
Ev == T[tr][idx]
Step(A) == A /\ idx' = idx + 1 /\ tr' = tr
TraceNext ==
  \/ /\ idx <= Len(T[tr])
     /\ \/ Ev.e = "cfg" /\ Step(UNCHANGED <<req, nsst, freed, hist>>)
        \/ Ev.e = "make" /\ \E sn \in SearchLens : sn = Ev.sn /\ Step(Make(Ev.r, sn))
        \/ Ev.e = "q" /\ \E why \in {"first", "retx", "reissue"} : Step(Send(Ev.r, Ev.ns, Ev.id, why, Ev.fate)) /\ (req'[Ev.r].st = "tcp") = (Ev.tcp = 1)
                                                                   /\ req'[Ev.r].name = Ev.name
        \/ Ev.e = "a" /\ Step(Answer(Ev.r) \/ LateAnswer(Ev.r))
        \/ Ev.e = "cb" /\ Step(Complete(Ev.r, Ev.res))
        \/ Ev.e = "cancel" /\ Step(Cancel(Ev.r))
        \/ Ev.e = "free" /\ Step(Free(Ev.mode))
        \/ Ev.e = "probe" /\ Step(Probe(Ev.ns))
        \/ Ev.e = "quiesce" /\ Step(Quiesce)
  \/ /\ idx <= Len(T[tr]) /\ \E r \in Reqs : Expire(r) /\ UNCHANGED <<tr, idx>>
(* never violated; prints how far each trace got and whether it was accepted *)
TraceReport == PrintT(ToJson([t |-> tr, at |-> idx, acc |-> idx > Len(T[tr])]))
=============================================================================
