----------------------------- MODULE RateLimit -----------------------------
(***************************************************************************)
(* C22 - rate-limited bufferevents never exceed their configured bandwidth *)
(* (bufferevent_ratelim.c).  One I/O direction of a set of bufferevents:   *)
(* each may have its own token bucket (cfg rate/burst per tick) and may be *)
(* a member of one rate-limit group with its own bucket and a min_share;   *)
(* every I/O operation moves at most                                        *)
(*     RlimMax = min(max_single, own bucket, group share)                   *)
(* bytes (bufferevent_get_rlim_max_ as *documented*: "take the smaller of   *)
(* our rate limit and the group rate limit", CLAMPTO), then both buckets   *)
(* are decremented; a bucket <= 0 suspends the direction until a refill    *)
(* makes it positive (group: >= min_share).  Buckets refill once per tick: *)
(* level' = min(burst, level + ticks*rate) (TokenBucket.tla, C21).  The    *)
(* read and the write side are independent instances of this model.        *)
(*                                                                         *)
(* TLC decides WindowBound / GroupWindowBound / PerOpMax / NoStall on the  *)
(* bounded model; RateLimit_Trace.tla validates traces of the real library *)
(* against the same operators (binding V).                                  *)
(***************************************************************************)
EXTENDS Integers, Sequences, FiniteSets, TLC

CONSTANTS Bevs,        \* bufferevent ids (1..N)
          MaxTick,     \* time horizon
          Rates,       \* candidate rates (units per tick)
          Bursts,      \* candidate bursts
          Singles,     \* candidate max_single values
          GRate, GBurst, GMinShare,   \* initial group configuration
          GCfgs,       \* configurations that bufferevent_rate_limit_group_set_cfg may install, encoded 16*rate + burst
          MaxOps       \* bound on operations per tick (state-space bound)

VARIABLES tick,     \* current tick
          cfg,      \* b -> [rate, burst]; rate = 0 means "no per-bufferevent limit"
          lvl,      \* b -> own bucket level (lazy: valid for tick last[b])
          last,     \* b -> tick of the last update of lvl[b]
          single,   \* b -> max_single
          member,   \* b -> BOOLEAN (in the group)
          g,        \* group: [lvl, susp, rate, burst, since]; since = tick of the last set_cfg (0: creation)
          moved,    \* b -> [0..MaxTick -> bytes moved in that tick]
          gmoved,   \* [0..MaxTick -> bytes moved by group members in that tick]
          credit,   \* b -> [0..MaxTick -> bytes granted by manual refills (negative decrements)]
          lastop,   \* [b, n, allowed] of the last I/O operation
          nops      \* operations in the current tick

vars == <<tick, cfg, lvl, last, single, member, g, moved, gmoved, credit, lastop, nops>>

Min(a, b) == IF a < b THEN a ELSE b
Max(a, b) == IF a > b THEN a ELSE b
INF == 1000000
Ticks == 0..MaxTick
RECURSIVE SumTo(_, _, _)
SumTo(f, a, b) == IF a > b THEN 0 ELSE f[a] + SumTo(f, a + 1, b)

HasCfg(b) == cfg[b].rate > 0
\* ev_token_bucket_update_ as specified by C21
Refill(level, rate, burst, n) == IF n <= 0 THEN level ELSE Min(burst, level + n * rate)
\* own bucket brought up to the current tick (bufferevent_update_buckets)
Cur(b) == Refill(lvl[b], cfg[b].rate, cfg[b].burst, tick - last[b])
NMembers == Cardinality({b \in Bevs : member[b]})
\* the group's min_share can never exceed its rate (bufferevent_rate_limit_group_set_min_share)
MinShare == Min(GMinShare, g.rate)
Share == IF g.susp THEN 0 ELSE Max(g.lvl \div NMembers, MinShare)
\* the per-operation budget
RlimMax(b) ==
    LET own == IF HasCfg(b) THEN Cur(b) ELSE INF
        grp == IF member[b] THEN Share ELSE INF
    IN Max(0, Min(single[b], Min(own, grp)))
Suspended(b) == (HasCfg(b) /\ Cur(b) <= 0) \/ (member[b] /\ g.susp)

TypeOK ==
    /\ tick \in Ticks
    /\ \A b \in Bevs : cfg[b].rate >= 0 /\ single[b] >= 1 /\ last[b] \in Ticks

Init ==
    /\ tick = 0
    /\ cfg \in [Bevs -> {[rate |-> r, burst |-> bu] : r \in Rates \cup {0}, bu \in Bursts}]
    /\ \A b \in Bevs : cfg[b].rate <= cfg[b].burst
    /\ lvl = [b \in Bevs |-> cfg[b].rate]          \* ev_token_bucket_init_: the bucket starts at one tick's rate
    /\ last = [b \in Bevs |-> 0]
    /\ single \in [Bevs -> Singles]
    /\ member \in [Bevs -> BOOLEAN]
    /\ \A b \in Bevs : HasCfg(b) \/ member[b]      \* otherwise nothing limits b
    /\ g = [lvl |-> GRate, susp |-> FALSE, rate |-> GRate, burst |-> GBurst, since |-> 0]
    /\ moved = [b \in Bevs |-> [t \in Ticks |-> 0]]
    /\ gmoved = [t \in Ticks |-> 0]
    /\ credit = [b \in Bevs |-> [t \in Ticks |-> 0]]
    /\ lastop = [b |-> 0, n |-> 0, allowed |-> 0]
    /\ nops = 0

(* One read or write system call on b moving n bytes (the peer is always    *)
(* ready, so n is limited only by the budget; a short transfer is allowed). *)
IoOp(b, n) ==
    /\ ~Suspended(b)
    /\ n >= 1 /\ n <= RlimMax(b)
    /\ nops < MaxOps
    /\ lastop' = [b |-> b, n |-> n, allowed |-> RlimMax(b)]
    /\ lvl' = [lvl EXCEPT ![b] = IF HasCfg(b) THEN Cur(b) - n ELSE @]
    /\ last' = [last EXCEPT ![b] = IF HasCfg(b) THEN tick ELSE @]
    /\ g' = (IF member[b] THEN [g EXCEPT !.lvl = g.lvl - n, !.susp = g.susp \/ (g.lvl - n <= 0)] ELSE g)
    /\ moved' = [moved EXCEPT ![b][tick] = @ + n]
    /\ gmoved' = (IF member[b] THEN [gmoved EXCEPT ![tick] = @ + n] ELSE gmoved)
    /\ nops' = nops + 1
    /\ UNCHANGED <<tick, cfg, single, member, credit>>

(* bufferevent_decrement_read/write_limit(bev, k); k < 0 is a manual refill. *)
(* AvoidKnown: never refilled above the burst (C21 refill-level-above-burst). *)
ManualDecrement(b, k) ==
    /\ HasCfg(b) /\ nops < MaxOps
    /\ Cur(b) - k <= cfg[b].burst
    /\ lvl' = [lvl EXCEPT ![b] = Cur(b) - k]
    /\ last' = [last EXCEPT ![b] = tick]
    /\ credit' = [credit EXCEPT ![b][tick] = @ + Max(0, -k)]
    /\ nops' = nops + 1
    /\ UNCHANGED <<tick, cfg, single, member, g, moved, gmoved, lastop>>

Join(b) ==
    /\ ~member[b] /\ nops < MaxOps
    /\ member' = [member EXCEPT ![b] = TRUE]
    /\ nops' = nops + 1
    /\ UNCHANGED <<tick, cfg, lvl, last, single, g, moved, gmoved, credit, lastop>>
Leave(b) ==
    /\ member[b] /\ HasCfg(b) /\ nops < MaxOps
    /\ member' = [member EXCEPT ![b] = FALSE]
    /\ nops' = nops + 1
    /\ UNCHANGED <<tick, cfg, lvl, last, single, g, moved, gmoved, credit, lastop>>

(* bufferevent_rate_limit_group_set_cfg(g, cfg): the new configuration is   *)
(* installed and both group buckets are clipped to the NEW burst; from this *)
(* tick on the group is accountable to the new configuration.               *)
GroupSetCfg(c) ==
    /\ nops < MaxOps
    /\ <<g.rate, g.burst>> # <<c \div 16, c % 16>>
    /\ g' = [g EXCEPT !.rate = c \div 16, !.burst = c % 16, !.lvl = Min(g.lvl, c % 16), !.since = tick]
    /\ gmoved' = [gmoved EXCEPT ![tick] = 0]
    /\ nops' = nops + 1
    /\ UNCHANGED <<tick, cfg, lvl, last, single, member, moved, credit, lastop>>

(* The clock moves to the next tick; the group's refill timer fires          *)
(* (bev_group_refill_callback_).  Own buckets are refilled lazily (Cur).     *)
TickAdvance ==
    /\ tick < MaxTick
    /\ tick' = tick + 1
    /\ LET nl == Refill(g.lvl, g.rate, g.burst, 1)
       IN g' = [g EXCEPT !.lvl = nl, !.susp = g.susp /\ ~(nl >= MinShare)]
    /\ nops' = 0
    /\ UNCHANGED <<cfg, lvl, last, single, member, moved, gmoved, credit, lastop>>

Next ==
    \/ TickAdvance
    \/ \E b \in Bevs : \E n \in 1..Max(1, RlimMax(b)) : IoOp(b, n)
    \/ \E b \in Bevs : \E k \in {-1, 1, 2} : ManualDecrement(b, k)
    \/ \E b \in Bevs : Join(b) \/ Leave(b)
    \/ \E c \in GCfgs : GroupSetCfg(c)

Spec == Init /\ [][Next]_vars

(* ---- the property ------------------------------------------------------ *)
\* over any window of k ticks the bytes of b are at most burst + k*rate (+ what was granted manually)
WindowBound ==
    \A b \in Bevs : HasCfg(b) =>
        \A t1 \in 0..tick : \A t2 \in t1..tick :
            SumTo(moved[b], t1, t2) <= cfg[b].burst + (t2 - t1 + 1) * cfg[b].rate + SumTo(credit[b], t1, t2)
\* the members of the group together: at most the group's burst + k*rate (of the configuration in force,
\* counted from the tick in which it was installed)
GroupWindowBound ==
    \A t1 \in g.since..tick : \A t2 \in t1..tick :
        SumTo(gmoved, t1, t2) <= g.burst + (t2 - t1 + 1) * g.rate
\* per-operation maxima are respected
PerOpMax == lastop.b # 0 => (lastop.n <= single[lastop.b] /\ lastop.n <= lastop.allowed)
\* a limited bufferevent with budget is not suspended: it can make progress in the tick in which its bucket is positive
NoStall == \A b \in Bevs : (~member[b] /\ HasCfg(b) /\ Cur(b) > 0) => (~Suspended(b) /\ RlimMax(b) >= 1)
\* buckets never exceed their burst (given AvoidKnown) and deficits are bounded by one operation
LevelBound == \A b \in Bevs : HasCfg(b) => Cur(b) <= cfg[b].burst
GroupDeficitBound == g.lvl > -GMinShare /\ g.lvl <= g.burst
=============================================================================
