-------------------------- MODULE TokenBucket_A64 --------------------------
(* TokenBucket instantiated with the word widths of the compiled code     *)
(* (LP64: size_t/ev_ssize_t/time_t 64 bit, unsigned 32 bit) for Apalache. *)
EXTENDS Integers
VARIABLES
    \* @type: Int;
    rl,
    \* @type: Int;
    wl,
    \* @type: Int;
    last,
    \* @type: Int;
    rr,
    \* @type: Int;
    rm,
    \* @type: Int;
    wr,
    \* @type: Int;
    wm,
    \* @type: Int;
    cur,
    \* @type: { rl: Int, wl: Int, last: Int, ret: Int };
    out,
    \* @type: Int;
    phase
INSTANCE TokenBucket WITH M <- 18446744073709551616, NM <- 4294967296, KMS <- 1000
=============================================================================
