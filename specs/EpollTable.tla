--------------------------- MODULE EpollTable ---------------------------
(* C06 - the epoll change table (epolltable-internal.h, used by
   epoll_apply_one_change in epoll.c).

   A "row" is a combination of
     old         the conditions libevent believes are registered for the fd
                 (subset of {R, W, C}; C = EV_CLOSED / EPOLLRDHUP)
     rc, wc, cc  the pending change of the read / write / close condition:
                 "none", "add", "del" or "xxx" (add and del together: impossible)
   The table maps a row (through EPOLL_OP_TABLE_INDEX) to an epoll_ctl operation
   and an event mask.

   The table itself is NOT written down here: it is read from the ndjson dump
   that harness/epolltable_dump.c produces from the compiled header
   (environment variable TABLE), together with the value of the real index
   macro for every row.  The specification states what any correct table has
   to satisfy (Desired / kernel model Apply / acceptance) and TLC evaluates that
   on every one of the 8 x 4 x 4 x 4 = 512 rows.

   The second half models epoll_apply_one_change (flag handling and the
   MOD->ADD / ADD->MOD / failed-DEL fallbacks) and predicts, for the harness,
   the outcome of applying every row to a real epoll fd.                       *)
EXTENDS Integers, Sequences, FiniteSets, TLC, Json, IOUtils

VARIABLE row

Bits == {"R", "W", "C"}
Changes == {"none", "add", "del", "xxx"}
Rows == [old : SUBSET Bits, rc : Changes, wc : Changes, cc : Changes]

----------------------------------------------------------------------------
(* The dump *)
Dump == ndJsonDeserialize(IOEnv.TABLE)
RowRecs == {Dump[j] : j \in {k \in DOMAIN Dump : Dump[k].k = "row"}}
IdxRecs == {Dump[j] : j \in {k \in DOMAIN Dump : Dump[k].k = "idx"}}
TableSize == Cardinality(RowRecs)
Tab(i) == CHOOSE r \in RowRecs : r.i = i

ChangeCode(c) == CASE c = "none" -> 0 [] c = "add" -> 1 [] c = "del" -> 2 [] OTHER -> 3
OldCode(old) == (IF "R" \in old THEN 1 ELSE 0) + (IF "W" \in old THEN 2 ELSE 0) + (IF "C" \in old THEN 4 ELSE 0)
Mask(r, w, c) == (IF r = 1 THEN {"R"} ELSE {}) \cup (IF w = 1 THEN {"W"} ELSE {}) \cup (IF c = 1 THEN {"C"} ELSE {})

(* EPOLL_OP_TABLE_INDEX as documented in the header: bits 0-1 close change,
   2-3 read change, 4-5 write change, 6 old R, 7 old W, 8 old C; flag bits of
   the change bytes (ET, PERSIST) must not influence it. *)
Index(rw) == ChangeCode(rw.cc) + 4 * ChangeCode(rw.rc) + 16 * ChangeCode(rw.wc)
             + (IF "R" \in rw.old THEN 64 ELSE 0) + (IF "W" \in rw.old THEN 128 ELSE 0)
             + (IF "C" \in rw.old THEN 256 ELSE 0)
Entry(rw) == Tab(Index(rw))

----------------------------------------------------------------------------
(* What the change asks for *)
Chg(rw, b) == CASE b = "R" -> rw.rc [] b = "W" -> rw.wc [] OTHER -> rw.cc
Impossible(rw) == \E b \in Bits : Chg(rw, b) = "xxx"
NoChange(rw) == \A b \in Bits : Chg(rw, b) = "none"
Adds(rw) == {b \in Bits : Chg(rw, b) = "add"}
Dels(rw) == {b \in Bits : Chg(rw, b) = "del"}
Desired(rw) == (rw.old \ Dels(rw)) \cup Adds(rw)
(* Rows evmap/changelist can produce: a condition is deleted only if it was
   registered (evmap_io_del_ reports only counts that drop to zero;
   event_changelist_del_ turns the deletion of an unregistered condition into
   "none").  An add of a registered condition does occur (changelist: del then
   add between two dispatches). *)
Reachable(rw) == ~Impossible(rw) /\ Dels(rw) \subseteq rw.old

----------------------------------------------------------------------------
(* Kernel model: the registration of one fd in one epoll instance *)
NoReg == [on |-> FALSE, m |-> {}, et |-> FALSE]
Reg(m, et) == [on |-> TRUE, m |-> m, et |-> et]
RegOf(old, et) == IF old = {} THEN NoReg ELSE Reg(old, et)

(* epoll_ctl(op, fd, mask): ADD needs an unregistered fd (else EEXIST), MOD and
   DEL need a registered one (else ENOENT); ADD/MOD install exactly `mask`. *)
Apply(op, m, et, reg) ==
  CASE op = "ADD" -> IF reg.on THEN [ok |-> FALSE, reg |-> reg] ELSE [ok |-> TRUE, reg |-> Reg(m, et)]
    [] op = "MOD" -> IF reg.on THEN [ok |-> TRUE, reg |-> Reg(m, et)] ELSE [ok |-> FALSE, reg |-> reg]
    [] op = "DEL" -> IF reg.on THEN [ok |-> TRUE, reg |-> NoReg] ELSE [ok |-> FALSE, reg |-> reg]
    [] OTHER -> [ok |-> FALSE, reg |-> reg]

EMask(e) == Mask(e.r, e.w, e.c)
(* epoll_apply_one_change issues a system call iff the entry's events are non-zero *)
Issues(e) == e.ev # 0

----------------------------------------------------------------------------
(* The property, row by row *)
SizeOK == TableSize = 512 /\ \A r \in RowRecs : r.n = 512 /\ r.i \in 0..511
BitVal(b) == CASE b = "R" -> 1 [] b = "W" -> 2 [] OTHER -> 4
OldSet(n) == {b \in Bits : ((n \div BitVal(b)) % 2) = 1}
ChangeOf(n) == CHOOSE c \in Changes : ChangeCode(c) = n
IndexOK == \A q \in IdxRecs :
             q.idx = Index([old |-> OldSet(q.old), rc |-> ChangeOf(q.rc), wc |-> ChangeOf(q.wc), cc |-> ChangeOf(q.cc)])

ImpossibleNoOp(rw) == Impossible(rw) => ~Issues(Entry(rw))
NoChangeNoOp(rw) == (~Impossible(rw) /\ NoChange(rw)) => (~Issues(Entry(rw)) /\ Entry(rw).op = "NONE")
WellFormed(rw) == (~Impossible(rw) /\ ~NoChange(rw)) =>
                    LET e == Entry(rw) IN
                    /\ e.op \in {"ADD", "MOD", "DEL"}
                    /\ e.x = 0 /\ e.et = 0           \* only IN/OUT/RDHUP come from the table
                    /\ EMask(e) # {}                  \* otherwise no system call would be issued
LeavesDesired(rw) == (~Impossible(rw) /\ ~NoChange(rw)) =>
                    LET e == Entry(rw)
                        res == Apply(e.op, EMask(e), FALSE, RegOf(rw.old, FALSE))
                    IN res.reg = RegOf(Desired(rw), FALSE)
Accepted(rw) == (Reachable(rw) /\ ~NoChange(rw)) =>
                    LET e == Entry(rw) IN Apply(e.op, EMask(e), FALSE, RegOf(rw.old, FALSE)).ok

----------------------------------------------------------------------------
(* epoll_apply_one_change: flags + fallbacks.  `reg` is what the kernel really
   holds (it differs from `old` when the fd was closed and reopened, or when a
   dup of the file kept a stale registration alive). *)
ApplyOne(rw, et, reg) ==
  LET e == Entry(rw) IN
  IF ~Issues(e) THEN [ret |-> 0, reg |-> reg]
  ELSE LET r1 == Apply(e.op, EMask(e), et, reg) IN
       IF r1.ok THEN [ret |-> 0, reg |-> r1.reg]
       ELSE CASE e.op = "MOD" -> [ret |-> 0, reg |-> Apply("ADD", EMask(e), et, reg).reg]    \* ENOENT: retried as ADD
              [] e.op = "ADD" -> [ret |-> 0, reg |-> Apply("MOD", EMask(e), et, reg).reg]    \* EEXIST: retried as MOD
              [] e.op = "DEL" -> [ret |-> 0, reg |-> reg]                                    \* ENOENT: "DEL was unnecessary"
              [] OTHER -> [ret |-> -1, reg |-> reg]

Actuals(rw) == {RegOf(rw.old, FALSE), RegOf(rw.old, TRUE), NoReg, Reg(Bits, FALSE), Reg(Bits, TRUE)}
(* Whatever the kernel really holds, a reachable row ends with exactly the
   desired registration, edge-triggered iff the change carries the ET flag. *)
Robust(rw) == (Reachable(rw) /\ ~NoChange(rw)) =>
                \A et \in BOOLEAN, reg \in Actuals(rw) :
                   LET r == ApplyOne(rw, et, reg) IN r.ret = 0 /\ r.reg = RegOf(Desired(rw), et)

(* named invariants (one per clause of the property, so that a violation names the clause) *)
InvImpossibleNoOp == ImpossibleNoOp(row)
InvNoChangeNoOp == NoChangeNoOp(row)
InvWellFormed == WellFormed(row)
InvLeavesDesired == LeavesDesired(row)
InvAccepted == Accepted(row)
InvRobust == Robust(row)
(* `row = row` only makes these state-level, so that TLC reports them as invariant violations *)
InvSize == row = row /\ SizeOK
InvIndex == row = row /\ IndexOK

----------------------------------------------------------------------------
(* Predictions for the harness (validation of the kernel model and of
   ApplyOne against the real kernel / the real function) *)
B(x) == IF x THEN 1 ELSE 0
RegJ(g) == [on |-> B(g.on), r |-> B("R" \in g.m), w |-> B("W" \in g.m), c |-> B("C" \in g.m), et |-> B(g.et), x |-> 0]
KernPred(rw) ==
  LET e == Entry(rw)
      res == Apply(e.op, EMask(e), FALSE, RegOf(rw.old, FALSE))
  IN [k |-> "kern", i |-> Index(rw), issues |-> B(Issues(e) /\ e.op \in {"ADD", "MOD", "DEL"}), ok |-> B(res.ok)] @@ RegJ(res.reg)
AppPred(rw, et, actual) ==
  LET reg == CASE actual = "same" -> RegOf(rw.old, FALSE) [] actual = "gone" -> NoReg [] OTHER -> Reg(Bits, FALSE)
      r == ApplyOne(rw, et, reg)
  IN [k |-> "app", old |-> OldCode(rw.old), rc |-> ChangeCode(rw.rc), wc |-> ChangeCode(rw.wc), cc |-> ChangeCode(rw.cc),
      fl |-> B(et), actual |-> OldCode(reg.m), ret |-> r.ret, reach |-> B(Reachable(rw))] @@ RegJ(r.reg)
Preds(rw) ==
  <<KernPred(rw)>> \o
  (IF Impossible(rw) THEN <<>> ELSE
   <<AppPred(rw, FALSE, "same"), AppPred(rw, TRUE, "same")>>
   \o (IF rw.old # {} THEN <<AppPred(rw, FALSE, "gone"), AppPred(rw, TRUE, "gone")>> ELSE <<>>)
   \o (IF rw.old # Bits THEN <<AppPred(rw, FALSE, "all"), AppPred(rw, TRUE, "all")>> ELSE <<>>))
Emit == PrintT(ToJson(Preds(row)))

Init == row \in Rows
Next == UNCHANGED row
=============================================================================
