--------------------------- MODULE TokenBucket ---------------------------
(***************************************************************************)
(* C21 - token-bucket refill arithmetic of libevent (bufferevent_ratelim.c) *)
(*                                                                         *)
(* The C expressions of ev_token_bucket_update_, ev_token_bucket_get_tick_ *)
(* and ev_token_bucket_cfg_new are transcribed with *explicit* fixed-width *)
(* semantics over the unbounded integers of TLA+ ("...C" operators), next  *)
(* to the property they have to satisfy ("...Spec" operators, plain        *)
(* mathematics).  The word widths are parameters:                          *)
(*    M   = 2^64 modulus of size_t / ev_ssize_t / ev_uint64_t / time_t     *)
(*    NM  = 2^32 modulus of unsigned / ev_uint32_t (tick numbers)          *)
(*    KMS = 1000 milliseconds per second                                   *)
(* Apalache decides the theorems for the real widths (TokenBucket_A64.tla  *)
(* instantiates M, NM, KMS with literals; TLC integers are 32-bit), TLC    *)
(* decides the same theorems exhaustively for a small word (M=64, NM=8).   *)
(* The operators are bound to the compiled functions by vector batches     *)
(* (checks/C21.py, harness/tokenbucket_drv.c).                             *)
(***************************************************************************)
EXTENDS Integers

CONSTANTS
    \* @type: Int;
    M,
    \* @type: Int;
    NM,
    \* @type: Int;
    KMS

VARIABLES
    \* @type: Int;
    rl,      \* bucket->read_limit   (ev_ssize_t)
    \* @type: Int;
    wl,      \* bucket->write_limit  (ev_ssize_t)
    \* @type: Int;
    last,    \* bucket->last_updated (ev_uint32_t)
    \* @type: Int;
    rr,      \* cfg->read_rate       (size_t)
    \* @type: Int;
    rm,      \* cfg->read_maximum    (size_t)
    \* @type: Int;
    wr,      \* cfg->write_rate
    \* @type: Int;
    wm,      \* cfg->write_maximum
    \* @type: Int;
    cur,     \* current_tick argument (ev_uint32_t)
    \* @type: { rl: Int, wl: Int, last: Int, ret: Int };
    out,     \* bucket after the call and the return value
    \* @type: Int;
    phase    \* 0 = inputs chosen, 1 = update performed

vars == <<rl, wl, last, rr, rm, wr, wm, cur, out, phase>>

-----------------------------------------------------------------------------
(* Fixed-width types *)
SMAX == M \div 2 - 1          \* EV_SSIZE_MAX = EV_RATE_LIMIT_MAX
SMIN == -(M \div 2)
NMAX == NM \div 2 - 1         \* INT_MAX
(* Mathematical (Euclidean) modulus, written so that the built-in operator  *)
(* is only applied to non-negative operands: TLC and the SMT encoding       *)
(* implement the TLA+ semantics ((-3) % 4 = 1) but the constant folder of   *)
(* Apalache 0.58 truncates literal operands ((-3) % 4 = -3, measured), which *)
(* matters when vectors of literals are evaluated.  With EMod all engines   *)
(* agree.                                                                   *)
EMod(x, m) == IF x >= 0 THEN x % m ELSE (m - ((-x) % m)) % m
U(x)  == EMod(x, M)           \* conversion to the unsigned word
S(x)  == IF EMod(x, M) > SMAX THEN EMod(x, M) - M ELSE EMod(x, M)     \* conversion to the signed word (two's complement)
UN(x) == EMod(x, NM)          \* conversion to unsigned / ev_uint32_t
Min(a, b) == IF a < b THEN a ELSE b

InS(x)  == SMIN <= x /\ x <= SMAX
InU(x)  == 0 <= x /\ x < M
InUN(x) == 0 <= x /\ x < NM

-----------------------------------------------------------------------------
(* ev_token_bucket_update_, one direction.                                 *)
(*   unsigned n_ticks = current_tick - bucket->last_updated;               *)
(*   if (n_ticks == 0 || n_ticks > INT_MAX) return 0;                      *)
(*   if ((cfg->maximum - bucket->limit) / n_ticks < cfg->rate)             *)
(*        bucket->limit = cfg->maximum;                                    *)
(*   else bucket->limit += n_ticks * cfg->rate;                            *)
(* maximum, rate: size_t; limit: ev_ssize_t -> converted to size_t for the *)
(* subtraction; n_ticks: unsigned -> converted to size_t.                  *)
NTicksC(c, l)        == UN(c - l)
DiffC(lv, mx)        == U(mx - U(lv))                  \* (size_t)maximum - (size_t)limit
GuardC(lv, mx, rt, n) == (DiffC(lv, mx) \div n) < rt   \* unsigned division and comparison
ProdC(rt, n)         == U(n * rt)                      \* n_ticks * rate in size_t
AddC(lv, rt, n)      == S(U(lv) + ProdC(rt, n))        \* limit += ..., stored back into ev_ssize_t
DirC(lv, mx, rt, n)  == IF GuardC(lv, mx, rt, n) THEN S(mx) ELSE AddC(lv, rt, n)

Skip(n) == n = 0 \/ n > NMAX

\* @type: (Int, Int, Int, Int, Int, Int, Int, Int) => { rl: Int, wl: Int, last: Int, ret: Int };
UpdateC(lr, lw, lst, rrate, rmax, wrate, wmax, c) ==
    LET n == NTicksC(c, lst) IN
    IF Skip(n)
    THEN [rl |-> lr, wl |-> lw, last |-> lst, ret |-> 0]
    ELSE [rl |-> DirC(lr, rmax, rrate, n), wl |-> DirC(lw, wmax, wrate, n), last |-> c, ret |-> 1]

(* "computed without arithmetic overflow": every fixed-width intermediate  *)
(* equals its mathematical value.                                          *)
NoWrapDir(lv, mx, rt, n) ==
    /\ DiffC(lv, mx) = mx - lv
    /\ (~GuardC(lv, mx, rt, n)) => (ProdC(rt, n) = n * rt /\ InS(lv + n * rt))

(* The property: the smaller of the burst and level + ticks*rate.          *)
DirSpec(lv, mx, rt, n) == Min(mx, lv + n * rt)

\* @type: (Int, Int, Int, Int, Int, Int, Int, Int) => { rl: Int, wl: Int, last: Int, ret: Int };
UpdateSpec(lr, lw, lst, rrate, rmax, wrate, wmax, c) ==
    LET n == EMod(c - lst, NM) IN
    IF n = 0 \/ n > NMAX
    THEN [rl |-> lr, wl |-> lw, last |-> lst, ret |-> 0]       \* no tick passed / time went backwards: nothing changes
    ELSE [rl |-> DirSpec(lr, rmax, rrate, n), wl |-> DirSpec(lw, wmax, wrate, n), last |-> c, ret |-> 1]

-----------------------------------------------------------------------------
(* ev_token_bucket_get_tick_:                                              *)
(*   ev_uint64_t msec = (ev_uint64_t)tv->tv_sec * 1000 + tv->tv_usec/1000; *)
(*   return (unsigned)(msec / cfg->msec_per_tick);                         *)
MsecC(sec, usec)      == U(U(U(sec) * KMS) + U(usec \div KMS))
TickC(sec, usec, mpt) == UN(MsecC(sec, usec) \div mpt)
MsecSpec(sec, usec)      == sec * KMS + usec \div KMS
TickSpec(sec, usec, mpt) == EMod(MsecSpec(sec, usec) \div mpt, NM)
\* domain: a normalised, non-negative timeval whose millisecond count fits the word
TickDomain(sec, usec) == 0 <= sec /\ sec <= (M - KMS) \div KMS /\ 0 <= usec /\ usec < KMS * KMS

(* tick differences: n_ticks = current - last in ev_uint32_t.  For true    *)
(* (unwrapped) tick numbers a <= b less than 2^31 apart the difference is  *)
(* exact even across the 32-bit wrap; b < a (time went back) is skipped.   *)
TickDiffExact(a, b) ==
    /\ (0 <= b - a /\ b - a <= NMAX) => NTicksC(UN(b), UN(a)) = b - a
    /\ (0 < a - b /\ a - b <= NMAX + 1) => Skip(NTicksC(UN(b), UN(a)))

-----------------------------------------------------------------------------
(* ev_token_bucket_cfg_new(read_rate, read_burst, write_rate, write_burst, *)
(* tick_len); tick_len = NULL is passed as hasTv = FALSE.  INT_MAX and the *)
(* microsecond mask are the real constants in every instance, "unsigned" is *)
(* UN: cfg_new is therefore only meaningful (and only checked) for the     *)
(* real widths.                                                            *)
INTMAX32 == 2147483647
USECMASK == 1048576            \* COMMON_TIMEOUT_MICROSECONDS_MASK + 1 = 2^20
MptC(sec, usec) == UN(sec * 1000) + (EMod(usec, USECMASK) \div 1000)   \* (unsigned)(sec*1000) + (usec & mask)/1000
\* @type: (Int, Int, Int, Int, Bool, Int, Int) => { ok: Bool, mpt: Int };
CfgNewC(a_rr, a_rb, a_wr, a_wb, hasTv, sec, usec) ==
    LET s == IF hasTv THEN sec ELSE 1
        u == IF hasTv THEN usec ELSE 0
    IN IF s < 0 \/ s > INTMAX32 \div 1000 THEN [ok |-> FALSE, mpt |-> 0]
       ELSE IF UN(MptC(s, u)) = 0 THEN [ok |-> FALSE, mpt |-> 0]
       ELSE IF a_rr > a_rb \/ a_wr > a_wb \/ a_rr < 1 \/ a_wr < 1 THEN [ok |-> FALSE, mpt |-> 0]
       ELSE IF a_rr > SMAX \/ a_wr > SMAX \/ a_rb > SMAX \/ a_wb > SMAX THEN [ok |-> FALSE, mpt |-> 0]
       ELSE [ok |-> TRUE, mpt |-> UN(MptC(s, u))]

(* The property: accepted exactly when both directions have               *)
(* 1 <= rate <= burst <= EV_RATE_LIMIT_MAX and the tick length (default    *)
(* 1 s), fractions of a millisecond ignored, is between 1 ms and           *)
(* INT_MAX/1000 seconds.  Stated for normalised timevals (0<=usec<10^6).   *)
CfgRatesValid(a_rr, a_rb, a_wr, a_wb) ==
    /\ 1 <= a_rr /\ a_rr <= a_rb /\ a_rb <= SMAX
    /\ 1 <= a_wr /\ a_wr <= a_wb /\ a_wb <= SMAX
\* @type: (Int, Int, Int, Int, Bool, Int, Int) => { ok: Bool, mpt: Int };
CfgNewSpec(a_rr, a_rb, a_wr, a_wb, hasTv, sec, usec) ==
    LET s == IF hasTv THEN sec ELSE 1
        u == IF hasTv THEN usec ELSE 0
        ms == s * 1000 + u \div 1000
    IN IF CfgRatesValid(a_rr, a_rb, a_wr, a_wb) /\ 0 <= s /\ s <= INTMAX32 \div 1000 /\ ms >= 1
       THEN [ok |-> TRUE, mpt |-> ms] ELSE [ok |-> FALSE, mpt |-> 0]
CfgDomain(a_rr, a_rb, a_wr, a_wb, sec, usec) ==
    /\ InU(a_rr) /\ InU(a_rb) /\ InU(a_wr) /\ InU(a_wb)      \* any size_t
    /\ InS(sec) /\ 0 <= usec /\ usec < 1000000               \* any time_t, normalised microseconds

-----------------------------------------------------------------------------
(* Vector predicates: one observation of the compiled function against the *)
(* property.  checks/C21.py generates a module with one definition per     *)
(* vector (V1 == VecUpd(...), ...) and Apalache evaluates their            *)
(* conjunction in a single state.                                          *)
VecUpd(lr, lw, lst, rrate, rmax, wrate, wmax, c, o_rl, o_wl, o_last, o_ret) ==
    UpdateSpec(lr, lw, lst, rrate, rmax, wrate, wmax, c) = [rl |-> o_rl, wl |-> o_wl, last |-> o_last, ret |-> o_ret]
VecTick(sec, usec, mpt, o) == TickDomain(sec, usec) => (TickSpec(sec, usec, mpt) = o)
\* o_ok = 1 and the stored fields when a configuration was returned, o_ok = 0 (fields 0) for NULL
VecCfg(a_rr, a_rb, a_wr, a_wb, hasTv, sec, usec, o_ok, o_rr, o_rm, o_wr, o_wm, o_mpt, o_sec, o_usec) ==
    LET e == CfgNewSpec(a_rr, a_rb, a_wr, a_wb, hasTv = 1, sec, usec) IN
    CfgDomain(a_rr, a_rb, a_wr, a_wb, sec, usec) =>
        /\ (o_ok = 1) = e.ok
        /\ e.ok => /\ o_rr = a_rr /\ o_rm = a_rb /\ o_wr = a_wr /\ o_wm = a_wb /\ o_mpt = e.mpt
                   /\ o_sec = (IF hasTv = 1 THEN sec ELSE 1) /\ o_usec = (IF hasTv = 1 THEN usec ELSE 0)

-----------------------------------------------------------------------------
(* State machine used for the one-step checks: Init chooses an arbitrary   *)
(* accepted configuration, bucket and tick; Next performs the refill.      *)
CfgAccepted == CfgRatesValid(rr, rm, wr, wm)
\* levels the library can hold without a manual refill above the burst
LevelsAtMostBurst == rl <= rm /\ wl <= wm

TypeInputs ==
    /\ InS(rl) /\ InS(wl) /\ InUN(last) /\ InUN(cur)
    /\ InU(rr) /\ InU(rm) /\ InU(wr) /\ InU(wm)

\* symbolic initial state (Apalache)
InitSym ==
    /\ rl \in Int /\ wl \in Int /\ last \in Int /\ cur \in Int
    /\ rr \in Int /\ rm \in Int /\ wr \in Int /\ wm \in Int
    /\ TypeInputs /\ CfgAccepted
    /\ out = [rl |-> rl, wl |-> wl, last |-> last, ret |-> 0]
    /\ phase = 0

\* enumerated initial state (TLC, small word).  The two directions run the
\* same expression, so the write side is tied to the read side to keep the
\* enumeration at |level| x |max| x |rate| x |n|.
InitEnum ==
    /\ rl \in SMIN..SMAX /\ rm \in 1..SMAX /\ rr \in 1..rm
    /\ wl = rl /\ wm = rm /\ wr = rr
    /\ last \in {0, NM - 3} /\ cur \in 0..(NM - 1)
    /\ out = [rl |-> rl, wl |-> wl, last |-> last, ret |-> 0]
    /\ phase = 0

Refill ==
    /\ phase = 0
    /\ out' = UpdateC(rl, wl, last, rr, rm, wr, wm, cur)
    /\ phase' = 1
    /\ UNCHANGED <<rl, wl, last, rr, rm, wr, wm, cur>>

Next == Refill

(* ---- theorems ---------------------------------------------------------- *)
\* C21 on the levels reachable without refilling above the burst
Exact ==
    (phase = 1 /\ LevelsAtMostBurst) =>
        /\ out = UpdateSpec(rl, wl, last, rr, rm, wr, wm, cur)
        /\ LET n == NTicksC(cur, last) IN
           (~Skip(n)) => (NoWrapDir(rl, rm, rr, n) /\ NoWrapDir(wl, wm, wr, n))
        /\ InS(out.rl) /\ InS(out.wl) /\ out.rl <= rm /\ out.wl <= wm
\* C21 as stated: "every current bucket level"
ExactAll ==
    (phase = 1) => out = UpdateSpec(rl, wl, last, rr, rm, wr, wm, cur)
\* a skipped refill changes nothing
SkipUnchanged ==
    (phase = 1 /\ Skip(NTicksC(cur, last))) => (out.rl = rl /\ out.wl = wl /\ out.last = last /\ out.ret = 0)

(* Stateless theorems are checked as state invariants over free inputs     *)
(* carried in the same variables (rl=sec/a, wl=usec/b, rm=mpt ...).        *)
TickExact ==
    (phase = 0 /\ TickDomain(rl, wl) /\ 1 <= rm /\ rm < NM) =>
        (TickC(rl, wl, rm) = TickSpec(rl, wl, rm) /\ MsecC(rl, wl) = MsecSpec(rl, wl))
TickDiff == (phase = 0) => TickDiffExact(rl, wl)
\* cfg_new: inputs (rr, rm, wr, wm) any size_t, tick_len = (rl, wl) or NULL
CfgNewExact ==
    (phase = 0) =>
        /\ CfgDomain(rr, rm, wr, wm, rl, wl) =>
              /\ CfgNewC(rr, rm, wr, wm, TRUE, rl, wl) = CfgNewSpec(rr, rm, wr, wm, TRUE, rl, wl)
              /\ CfgNewC(rr, rm, wr, wm, FALSE, 0, 0) = CfgNewSpec(rr, rm, wr, wm, FALSE, 0, 0)
\* free inputs for the stateless theorems
InitFree ==
    /\ rl \in Int /\ wl \in Int /\ last \in Int /\ cur \in Int
    /\ rr \in Int /\ rm \in Int /\ wr \in Int /\ wm \in Int
    /\ out = [rl |-> 0, wl |-> 0, last |-> 0, ret |-> 0]
    /\ phase = 0
InitFreeEnum ==
    /\ rl \in 0..((M - KMS) \div KMS) /\ wl \in 0..(KMS * KMS - 1) /\ rm \in 1..(NM - 1)
    /\ last = 0 /\ cur = 0 /\ rr = 0 /\ wr = 0 /\ wm = 0
    /\ out = [rl |-> 0, wl |-> 0, last |-> 0, ret |-> 0]
    /\ phase = 0
InitDiffEnum ==
    /\ rl \in 0..(3 * NM) /\ wl \in 0..(3 * NM)
    /\ last = 0 /\ cur = 0 /\ rr = 0 /\ wr = 0 /\ wm = 0 /\ rm = 0
    /\ out = [rl |-> 0, wl |-> 0, last |-> 0, ret |-> 0]
    /\ phase = 0
Stutter == UNCHANGED vars
=============================================================================
