----------------------------- MODULE Backend -----------------------------
(* The I/O backends of libevent (evmap.c + epoll.c / poll.c / select.c) as a
   state machine: C05 (kernel interest set = union of added events) and C04
   (readiness reporting).

   fds are slots 1..NFd, events are slots 1..NEv.  An event gets its fd,
   interest (subset of {R, W, C}; C = EV_CLOSED) and trigger mode when it is
   added (event_assign + event_add) and loses them when deleted.

   Layers, as in the code:
     evmap_io_add_/del_        per-fd counters n[fd][b]; the backend is told only
                               about conditions whose counter goes 0->1 / 1->0,
                               together with `old` (conditions with counter > 0)
     epoll (no changelist)     one epoll_apply_one_change per call
     epoll (changelist)        event_changelist_add_/del_ coalesce per fd;
                               epoll_apply_changes at dispatch
     poll                      pollfd array with swap-delete
     select                    two fd sets
     kernel (epoll)            kreg[fd]: registration keyed by (file, fd); removed
                               by the kernel when the last descriptor of the file
                               is closed; for fds in Keeper another descriptor of
                               the same file exists, so close() leaves it behind
                               and dup2() of that descriptor revives it
   The epoll operation for a change is the one C06 proves the compiled table to
   contain for every row evmap can produce (TableOp).

   `hist` carries the API history with the predicted observation (binding G). *)
EXTENDS Integers, Sequences, FiniteSets, TLC, Json

CONSTANTS
  Backend,     \* "epoll" | "epollcl" | "poll" | "select"
  NFd, NEv,
  Masks,       \* interest codes an add may use (1 = R, 2 = W, 4 = C, sums)
  ETs,         \* subset of {0, 1}: trigger modes an add may use (1 = EV_ET)
  Keeper,      \* fds (slots) whose file is also held by a second descriptor
  K1, K2, K3,  \* kind of fd slot 1, 2, 3 ("sp" | "tcp" | "pr" | "pw")
  Acts,        \* names of the actions the generator may use
  D,           \* bound on Len(hist)
  AvoidKnown   \* TRUE: exclude the trigger of known finding "changelist-stale-et" from generation

VARIABLES st, hist
vars == <<st, hist>>

Fds == 1..NFd
Evs == 1..NEv
Bits == {"R", "W", "C"}
BitVal(b) == CASE b = "R" -> 1 [] b = "W" -> 2 [] OTHER -> 4
SetOf(n) == {b \in Bits : ((n \div BitVal(b)) % 2) = 1}
CodeOf(s) == (IF "R" \in s THEN 1 ELSE 0) + (IF "W" \in s THEN 2 ELSE 0) + (IF "C" \in s THEN 4 ELSE 0)
B(x) == IF x THEN 1 ELSE 0
IsEpoll == Backend \in {"epoll", "epollcl"}
(* conditions the backend can register at all (select has no early-close detection) *)
Supported == IF Backend = "select" THEN {"R", "W"} ELSE Bits

NoReg == [on |-> FALSE, m |-> {}, et |-> FALSE]
Reg(m, et) == [on |-> TRUE, m |-> m, et |-> et]
RegOf(m, et) == IF m = {} THEN NoReg ELSE Reg(m, et)
NoChg == [c |-> "none", et |-> FALSE]
NoEv == [on |-> FALSE, fd |-> 0, m |-> {}, et |-> FALSE]

(* abstract socket state of an fd (C04): data readable, send buffer full, peer
   has shut down its writing side, peer has closed *)
FreshSock == [data |-> FALSE, full |-> FALSE, rdhup |-> FALSE, hup |-> FALSE]

InitSt ==
  [ ev |-> [e \in Evs |-> NoEv],
    n |-> [f \in Fds |-> [b \in Bits |-> 0]],
    open |-> [f \in Fds |-> TRUE],
    stale |-> [f \in Fds |-> FALSE],       \* closed while events were added, not all deleted yet
    kreg |-> [f \in Fds |-> NoReg],        \* epoll: kernel registration
    cl |-> <<>>,                           \* epoll changelist: [fd, old, ch[b]]
    parr |-> <<>>,                         \* poll: the pollfd array [fd, m]
    rset |-> {}, wset |-> {},              \* select: the two input sets
    sock |-> [f \in Fds |-> FreshSock],
    edge |-> [f \in Fds |-> {}],           \* conditions that became true since the last dispatch (C04, ET)
    atwait |-> FALSE ]

----------------------------------------------------------------------------
(* epoll: the operation for a change (proved of the compiled table by C06) *)
TableOp(old, adds, dels) ==
  LET want == (old \ dels) \cup adds IN
  IF adds \cup dels = {} THEN [op |-> "NONE", m |-> {}]
  ELSE IF want = {} THEN [op |-> "DEL", m |-> dels]
  ELSE IF old = {} THEN [op |-> "ADD", m |-> want]
  ELSE [op |-> "MOD", m |-> want]

(* epoll_ctl on the real kernel state *)
Ctl(S, f, op, m, et) ==
  LET reg == S.kreg[f] IN
  IF ~S.open[f] THEN [ok |-> FALSE, err |-> "EBADF", s |-> S]
  ELSE CASE op = "ADD" -> IF reg.on THEN [ok |-> FALSE, err |-> "EEXIST", s |-> S]
                          ELSE [ok |-> TRUE, err |-> "", s |-> [S EXCEPT !.kreg[f] = Reg(m, et)]]
         [] op = "MOD" -> IF reg.on THEN [ok |-> TRUE, err |-> "", s |-> [S EXCEPT !.kreg[f] = Reg(m, et)]]
                          ELSE [ok |-> FALSE, err |-> "ENOENT", s |-> S]
         [] OTHER      -> IF reg.on THEN [ok |-> TRUE, err |-> "", s |-> [S EXCEPT !.kreg[f] = NoReg]]
                          ELSE [ok |-> FALSE, err |-> "ENOENT", s |-> S]

(* epoll_apply_one_change *)
EpollApply(S, f, old, adds, dels, et) ==
  LET t == TableOp(old, adds, dels) IN
  IF t.op = "NONE" THEN [s |-> S, r |-> 0]
  ELSE LET r1 == Ctl(S, f, t.op, t.m, et) IN
       IF r1.ok THEN [s |-> r1.s, r |-> 0]
       ELSE IF t.op = "MOD" /\ r1.err = "ENOENT"
            THEN LET r2 == Ctl(S, f, "ADD", t.m, et) IN [s |-> r2.s, r |-> IF r2.ok THEN 0 ELSE -1]
       ELSE IF t.op = "ADD" /\ r1.err = "EEXIST"
            THEN LET r2 == Ctl(S, f, "MOD", t.m, et) IN [s |-> r2.s, r |-> IF r2.ok THEN 0 ELSE -1]
       ELSE IF t.op = "DEL" /\ r1.err \in {"ENOENT", "EBADF"} THEN [s |-> S, r |-> 0]
       ELSE [s |-> S, r |-> -1]

(* changelist *)
ClIdx(S, f) == IF \E i \in 1..Len(S.cl) : S.cl[i].fd = f THEN CHOOSE i \in 1..Len(S.cl) : S.cl[i].fd = f ELSE 0
ClGet(S, f, old) ==      \* event_changelist_get_or_construct
  IF ClIdx(S, f) # 0 THEN S
  ELSE [S EXCEPT !.cl = Append(@, [fd |-> f, old |-> old, ch |-> [b \in Bits |-> NoChg]])]
ClAdd(S, f, old, events, et) ==
  LET S1 == ClGet(S, f, old)
      i == ClIdx(S1, f)
  IN [S1 EXCEPT !.cl[i].ch = [b \in Bits |-> IF b \in events THEN [c |-> "add", et |-> et] ELSE @[b]]]
ClDel(S, f, old, events, et) ==
  LET S1 == ClGet(S, f, old)
      i == ClIdx(S1, f)
  IN [S1 EXCEPT !.cl[i].ch = [b \in Bits |-> IF b \in events
                                              THEN (IF b \in S1.cl[i].old THEN [c |-> "del", et |-> et] ELSE NoChg)
                                              ELSE @[b]]]
RECURSIVE ApplyChangesFrom(_, _)
ApplyChangesFrom(S, i) ==    \* epoll_apply_changes
  IF i > Len(S.cl) THEN [S EXCEPT !.cl = <<>>]
  ELSE LET c == S.cl[i]
           adds == {b \in Bits : c.ch[b].c = "add"}
           dels == {b \in Bits : c.ch[b].c = "del"}
           et == \E b \in Bits : c.ch[b].et
       IN ApplyChangesFrom(EpollApply(S, c.fd, c.old, adds, dels, et).s, i + 1)

(* poll *)
PIdx(S, f) == IF \E i \in 1..Len(S.parr) : S.parr[i].fd = f THEN CHOOSE i \in 1..Len(S.parr) : S.parr[i].fd = f ELSE 0
PollAdd(S, f, events) ==
  IF PIdx(S, f) # 0 THEN [S EXCEPT !.parr[PIdx(S, f)].m = @ \cup events]
  ELSE [S EXCEPT !.parr = Append(@, [fd |-> f, m |-> events])]
PollDel(S, f, events) ==
  LET i == PIdx(S, f) IN
  IF i = 0 THEN [s |-> S, r |-> -1]
  ELSE LET m2 == S.parr[i].m \ events
           last == Len(S.parr)
       IN IF m2 # {} THEN [s |-> [S EXCEPT !.parr[i].m = m2], r |-> 0]
          ELSE [s |-> [S EXCEPT !.parr = IF i = last THEN SubSeq(@, 1, last - 1)
                                           ELSE SubSeq([S.parr EXCEPT ![i] = S.parr[last]], 1, last - 1)], r |-> 0]

(* the add / del entry of struct eventop *)
BackendAdd(S, f, old, events, et) ==
  CASE Backend = "epoll"   -> EpollApply(S, f, old, events, {}, et)
    [] Backend = "epollcl" -> [s |-> ClAdd(S, f, old, events, et), r |-> 0]
    [] Backend = "poll"    -> [s |-> PollAdd(S, f, events), r |-> 0]
    [] OTHER               -> [s |-> [S EXCEPT !.rset = IF "R" \in events THEN @ \cup {f} ELSE @,
                                                !.wset = IF "W" \in events THEN @ \cup {f} ELSE @], r |-> 0]
BackendDel(S, f, old, events, et) ==
  CASE Backend = "epoll"   -> EpollApply(S, f, old, {}, events, et)
    [] Backend = "epollcl" -> [s |-> ClDel(S, f, old, events, et), r |-> 0]
    [] Backend = "poll"    -> PollDel(S, f, events)
    [] OTHER               -> [s |-> [S EXCEPT !.rset = IF "R" \in events THEN @ \ {f} ELSE @,
                                                !.wset = IF "W" \in events THEN @ \ {f} ELSE @], r |-> 0]

(* evmap_io_add_ / evmap_io_del_ *)
OldOf(S, f) == {b \in Bits : S.n[f][b] > 0}
EvmapAdd(S, e, f, m, et) ==
  LET res == {b \in m : S.n[f][b] = 0}
      R == IF res # {} THEN BackendAdd(S, f, OldOf(S, f), res, et) ELSE [s |-> S, r |-> 0]
  IN IF R.r = -1 THEN [s |-> R.s, r |-> -1]
     ELSE [s |-> [R.s EXCEPT !.n[f] = [b \in Bits |-> IF b \in m THEN @[b] + 1 ELSE @[b]],
                             !.ev[e] = [on |-> TRUE, fd |-> f, m |-> m, et |-> et]], r |-> 0]
EvmapDel(S, e) ==
  LET f == S.ev[e].fd
      m == S.ev[e].m
      res == {b \in m : S.n[f][b] = 1}
      R == IF res # {} THEN BackendDel(S, f, OldOf(S, f), res, S.ev[e].et) ELSE [s |-> S, r |-> 0]
      S2 == [R.s EXCEPT !.n[f] = [b \in Bits |-> IF b \in m THEN @[b] - 1 ELSE @[b]], !.ev[e] = NoEv]
  IN [s |-> [S2 EXCEPT !.stale[f] = @ /\ (\E b \in Bits : S2.n[f][b] > 0)], r |-> R.r]

----------------------------------------------------------------------------
(* What the property talks about *)
OnEvs(S, f) == {e \in Evs : S.ev[e].on /\ S.ev[e].fd = f}
Union(S, f) == UNION {S.ev[e].m : e \in OnEvs(S, f)}
UnionET(S, f) == \E e \in OnEvs(S, f) : S.ev[e].et

(* the interest set the kernel is given at a wait *)
KernelView(S, f) ==
  CASE IsEpoll -> S.kreg[f]
    [] Backend = "poll" -> (IF PIdx(S, f) = 0 THEN NoReg ELSE Reg(S.parr[PIdx(S, f)].m, FALSE))
    [] OTHER -> RegOf((IF f \in S.rset THEN {"R"} ELSE {}) \cup (IF f \in S.wset THEN {"W"} ELSE {}), FALSE)
KObs(S) ==
  LET fs == {f \in Fds : KernelView(S, f).on}
      seq == [i \in 1..NFd |-> i]
      pick == SelectSeq(seq, LAMBDA f: f \in fs)
  IN [i \in 1..Len(pick) |-> LET g == KernelView(S, pick[i]) IN
        [fd |-> pick[i], r |-> B("R" \in g.m), w |-> B("W" \in g.m), c |-> B("C" \in g.m), et |-> B(g.et), x |-> 0]]

(* C05 *)
InterestOK ==
  st.atwait => \A f \in Fds : KernelView(st, f) = RegOf(Union(st, f) \cap Supported, IsEpoll /\ UnionET(st, f))
CountsOK == \A f \in Fds, b \in Bits : st.n[f][b] = Cardinality({e \in OnEvs(st, f) : b \in st.ev[e].m})
PollArrayOK == /\ \A i, j \in 1..Len(st.parr) : i # j => st.parr[i].fd # st.parr[j].fd
               /\ \A i \in 1..Len(st.parr) : st.parr[i].m # {}
ChangelistOK == /\ \A i, j \in 1..Len(st.cl) : i # j => st.cl[i].fd # st.cl[j].fd
                /\ (Backend # "epollcl" => st.cl = <<>>)
                \* a condition is deleted only if it was registered: only table rows evmap can produce occur
                /\ \A i \in 1..Len(st.cl) : \A b \in Bits : st.cl[i].ch[b].c = "del" => b \in st.cl[i].old
TypeOK == st.atwait \in BOOLEAN

----------------------------------------------------------------------------
(* API / environment actions of C05 *)
UniformET(S, f, et) == \A e \in OnEvs(S, f) : S.ev[e].et = et      \* ET and LT are never mixed on one fd
FreeEv(S) == {e \in Evs : ~S.ev[e].on}
LowestFree(S) == CHOOSE e \in FreeEv(S) : \A x \in FreeEv(S) : e <= x

(* Known finding "changelist-stale-et": with the changelist, deleting the
   edge-triggered events of an fd and adding a level-triggered event for another
   condition of the same fd before the next dispatch registers the new event
   edge-triggered (the ET flag of the pending delete is or-ed in). *)
KnownTrigger(S, f, m, et) ==
  /\ Backend = "epollcl" /\ ~et /\ ClIdx(S, f) # 0
  /\ \E b \in Bits : S.cl[ClIdx(S, f)].ch[b].c = "del" /\ S.cl[ClIdx(S, f)].ch[b].et

(* ---- step functions (used by the actions below and by Backend_Trace) ---- *)
AddLegal(S, e, f, m, et) ==
  /\ ~S.ev[e].on /\ S.open[f] /\ ~S.stale[f] /\ UniformET(S, f, et) /\ m # {} /\ m \subseteq Supported
  /\ (et => IsEpoll)
AddStep(S, e, f, m, et) ==
  LET R == EvmapAdd(S, e, f, m, et) IN [s |-> [R.s EXCEPT !.atwait = FALSE], r |-> R.r]
DelStep(S, e) ==
  LET R == EvmapDel(S, e) IN [s |-> [R.s EXCEPT !.atwait = FALSE], r |-> R.r]
CloseStep(S, f) ==
  [S EXCEPT !.open[f] = FALSE, !.atwait = FALSE,
            !.stale[f] = \E b \in Bits : S.n[f][b] > 0,
            !.kreg[f] = IF f \in Keeper THEN @ ELSE NoReg,
            !.sock[f] = IF f \in Keeper THEN @ ELSE FreshSock, !.edge[f] = {}]
ReopenStep(S, f) == [S EXCEPT !.open[f] = TRUE, !.atwait = FALSE]

(* event_reinit(): every backend has need_reinit set, so the backend object is torn down and rebuilt (a new epoll
   instance: the kernel holds nothing; empty poll array / select sets), the changelist is emptied, and
   evmap_reinit_ re-adds, fd by fd, the conditions with a non-zero counter (old = 0; edge-triggered iff the first
   event of the fd is).  Events and counters are untouched. *)
RECURSIVE ReinitFrom(_, _)
ReinitFrom(S, f) ==
  IF f > NFd THEN S
  ELSE LET events == OldOf(S, f) \cap Supported
           S1 == IF events = {} THEN S ELSE BackendAdd(S, f, {}, events, IsEpoll /\ UnionET(S, f)).s
       IN ReinitFrom(S1, f + 1)
ReinitLegal(S) == \A f \in Fds : ~S.stale[f]
ReinitStep(S) ==
  ReinitFrom([S EXCEPT !.kreg = [f \in Fds |-> NoReg], !.cl = <<>>, !.parr = <<>>, !.rset = {}, !.wset = {},
                       !.atwait = FALSE], 1)

(* the part of dispatch before the system call *)
PreWait(S) == IF Backend = "epollcl" THEN ApplyChangesFrom(S, 1) ELSE S
WaitStep(S) == [PreWait(S) EXCEPT !.atwait = TRUE, !.edge = [f \in Fds |-> {}]]

(* Environment assumptions under which the properties are claimed:
   - an fd closed while events were added on it has had all of them deleted;
   - no registration of a file that is kept alive by another descriptor has been
     orphaned by closing the fd before deleting its events (the kernel keeps such
     a registration; only the application can avoid that). *)
WaitLegal(S) ==
  /\ \A f \in Fds : ~S.stale[f]
  /\ \A f \in Keeper : (\A b \in Bits : S.n[f][b] = 0) => ~PreWait(S).kreg[f].on

(* ---- environment (C04): what the peer / the application does to the fd.
   Kinds[f]: "sp" UNIX socketpair end, "tcp" loopback TCP socket, "pr" read end
   of a pipe, "pw" write end of a pipe.  The abstract socket state only steers
   the generator and defines `edge` (genuine new transitions, for edge-triggered
   events); what holds on an fd is always taken from the poll(2) probe. *)
Kind(f) == CASE f = 1 -> K1 [] f = 2 -> K2 [] OTHER -> K3
EnvOps == {"pw", "drain", "fill", "pdrain", "pshut", "pclose", "prst"}
EnvLegal(S, a, f) ==
  LET k == S.sock[f] IN
  /\ S.open[f]
  /\ CASE a = "pw"     -> Kind(f) \in {"sp", "tcp", "pr"} /\ ~k.rdhup /\ ~k.hup
       [] a = "drain"  -> Kind(f) \in {"sp", "tcp", "pr"} /\ k.data /\ ~k.hup
       [] a = "fill"   -> Kind(f) \in {"sp", "tcp", "pw"} /\ ~k.full /\ ~k.hup
       [] a = "pdrain" -> Kind(f) \in {"sp", "tcp", "pw"} /\ k.full /\ ~k.hup
       [] a = "pshut"  -> Kind(f) \in {"sp", "tcp"} /\ ~k.rdhup /\ ~k.hup
       [] a = "pclose" -> ~k.hup
       [] a = "prst"   -> Kind(f) = "tcp" /\ ~k.hup
       [] OTHER -> FALSE
EnvStep(S, a, f) ==
  LET S1 == [S EXCEPT !.atwait = FALSE] IN
  CASE a = "pw"     -> [S1 EXCEPT !.sock[f].data = TRUE, !.edge[f] = IF S.sock[f].data THEN @ ELSE @ \cup {"R"}]
    [] a = "drain"  -> [S1 EXCEPT !.sock[f].data = FALSE, !.edge[f] = @ \ {"R"}]
    [] a = "fill"   -> [S1 EXCEPT !.sock[f].full = TRUE, !.edge[f] = @ \ {"W"}]
    [] a = "pdrain" -> [S1 EXCEPT !.sock[f].full = FALSE, !.edge[f] = @ \cup {"W"}]
    [] a = "pshut"  -> [S1 EXCEPT !.sock[f].rdhup = TRUE, !.edge[f] = @ \cup {"C"}]
    [] OTHER        -> [S1 EXCEPT !.sock[f].hup = TRUE]

(* ---- C04: the dispatch oracle.  P1 / P2 are the zero-timeout poll(2) probes of
   every fd immediately before and after the loop iteration (bit codes: 1 IN,
   2 OUT, 4 RDHUP, 8 HUP, 16 ERR, 32 NVAL; -1 closed); rep is what the kernel
   reported to the backend's wait call, cbs the callbacks that ran. *)
HasBit(n, v) == n >= 0 /\ ((n \div v) % 2) = 1
MayOf(p) == (IF HasBit(p, 1) \/ HasBit(p, 8) \/ HasBit(p, 16) \/ HasBit(p, 32) THEN {"R"} ELSE {})
            \cup (IF HasBit(p, 2) \/ HasBit(p, 8) \/ HasBit(p, 16) \/ HasBit(p, 32) THEN {"W"} ELSE {})
            \cup (IF HasBit(p, 4) THEN {"C"} ELSE {})
(* named deviation: epoll reports EPOLLERR as READ|WRITE only, so early-close is
   not demanded while an error is pending *)
SureOf(p) == (IF HasBit(p, 1) THEN {"R"} ELSE {}) \cup (IF HasBit(p, 2) THEN {"W"} ELSE {})
             \cup (IF HasBit(p, 4) /\ ~HasBit(p, 16) THEN {"C"} ELSE {})
May(P1, P2, f) == (MayOf(P1[f]) \cup MayOf(P2[f])) \cap Supported
Sure(P1, P2, f) == SureOf(P1[f]) \cap SureOf(P2[f]) \cap Supported
(* epoll_dispatch's translation of a reported mask *)
Translate(p) == IF HasBit(p, 16) \/ (HasBit(p, 8) /\ ~HasBit(p, 4)) THEN {"R", "W"}
                ELSE (IF HasBit(p, 1) THEN {"R"} ELSE {}) \cup (IF HasBit(p, 2) THEN {"W"} ELSE {})
                     \cup (IF HasBit(p, 4) THEN {"C"} ELSE {})
RepOf(rep, f) == IF \E i \in DOMAIN rep : rep[i].fd = f THEN rep[CHOOSE i \in DOMAIN rep : rep[i].fd = f].p ELSE 0
Fired(cbs) == {cbs[i].e : i \in DOMAIN cbs}
CbOf(cbs, e) == cbs[CHOOSE i \in DOMAIN cbs : cbs[i].e = e]

(* S: the state at the system call (after PreWait, edge not yet cleared) *)
OnlyAdded(S, cbs) == \A i \in DOMAIN cbs : cbs[i].e \in Evs /\ S.ev[cbs[i].e].on          \* NoCallbackAfterDel
AtMostOnce(cbs) == \A i, j \in DOMAIN cbs : i # j => cbs[i].e # cbs[j].e
OnlyRequestedReady(S, P1, P2, cbs) ==
  \A i \in DOMAIN cbs : LET e == cbs[i].e  w == SetOf(cbs[i].w) IN
     S.ev[e].on => (w # {} /\ w \subseteq (S.ev[e].m \cap May(P1, P2, S.ev[e].fd)))
LevelPersistence(S, P1, P2, cbs) ==
  \A e \in Evs : (S.ev[e].on /\ ~S.ev[e].et /\ S.ev[e].m \cap Sure(P1, P2, S.ev[e].fd) # {}) => e \in Fired(cbs)
EdgeOnlyReported(S, rep, cbs) ==
  \A i \in DOMAIN cbs : LET e == cbs[i].e IN
     (S.ev[e].on /\ S.ev[e].et) => SetOf(cbs[i].w) \subseteq Translate(RepOf(rep, S.ev[e].fd))
EdgeFires(S, P1, P2, cbs) ==
  \A e \in Evs : (S.ev[e].on /\ S.ev[e].et /\ S.edge[S.ev[e].fd] \cap S.ev[e].m \cap Sure(P1, P2, S.ev[e].fd) # {})
                   => e \in Fired(cbs)
(* the abstract socket state agrees with the probe (a failure is an error of the harness, not of libevent) *)
ModelOK(S, P1) ==
  \A f \in Fds : (S.open[f] /\ ~S.sock[f].hup) =>
     /\ (S.sock[f].data => HasBit(P1[f], 1))
     /\ ((~S.sock[f].data /\ ~S.sock[f].rdhup) => ~HasBit(P1[f], 1))
     /\ (Kind(f) # "pr" => (S.sock[f].full <=> ~HasBit(P1[f], 2)))
     /\ (S.sock[f].rdhup => HasBit(P1[f], 4))
Verdict(S, P1, P2, rep, cbs) ==
  IF ~ModelOK(S, P1) THEN "model"
  ELSE IF ~OnlyAdded(S, cbs) THEN "NoCallbackAfterDel"
  ELSE IF ~AtMostOnce(cbs) THEN "AtMostOnce"
  ELSE IF ~OnlyRequestedReady(S, P1, P2, cbs) THEN "OnlyRequestedReady"
  ELSE IF ~LevelPersistence(S, P1, P2, cbs) THEN "LevelTriggeredPersistence"
  ELSE IF ~EdgeOnlyReported(S, rep, cbs) THEN "EdgeOnlyWhenReported"
  ELSE IF ~EdgeFires(S, P1, P2, cbs) THEN "EdgeFiresOnTransition"
  ELSE ""

----------------------------------------------------------------------------
(* Actions *)
EvAdd ==
  /\ "add" \in Acts /\ FreeEv(st) # {}
  /\ \E f \in Fds, mc \in Masks, etc \in ETs :
       LET e == LowestFree(st)
           m == SetOf(mc)
           et == etc = 1
       IN /\ AddLegal(st, e, f, m, et)
          /\ (AvoidKnown => ~KnownTrigger(st, f, m, et))
          /\ LET R == AddStep(st, e, f, m, et) IN
             /\ st' = R.s
             /\ hist' = Append(hist, [a |-> "add", e |-> e, fd |-> f, m |-> mc, et |-> etc, o |-> [r |-> R.r]])

EvDel ==
  /\ "del" \in Acts
  /\ \E e \in Evs :
       /\ st.ev[e].on
       /\ st' = DelStep(st, e).s
       \* event_del on a closed fd may report the failed kernel operation: left open
       /\ hist' = Append(hist, [a |-> "del", e |-> e,
                                o |-> [r |-> IF st.open[st.ev[e].fd] THEN 0 ELSE [_any |-> TRUE]]])

CloseFd ==
  /\ "close" \in Acts
  /\ \E f \in Fds :
       /\ st.open[f]
       /\ st' = CloseStep(st, f)
       /\ hist' = Append(hist, [a |-> "close", fd |-> f, o |-> [r |-> 0]])

ReopenFd ==
  /\ "close" \in Acts
  /\ \E f \in Fds :
       /\ ~st.open[f]
       /\ st' = ReopenStep(st, f)
       /\ hist' = Append(hist, [a |-> "reopen", fd |-> f, o |-> [r |-> 0]])

Env ==
  /\ "env" \in Acts
  /\ \E f \in Fds, a \in EnvOps :
       /\ EnvLegal(st, a, f)
       /\ st' = EnvStep(st, a, f)
       /\ hist' = Append(hist, [a |-> a, fd |-> f, o |-> [r |-> [_any |-> TRUE]]])

Reinit ==
  /\ "reinit" \in Acts /\ ReinitLegal(st)
  /\ st' = ReinitStep(st)
  /\ hist' = Append(hist, [a |-> "reinit", o |-> [r |-> 0]])

Wait ==
  /\ "wait" \in Acts /\ WaitLegal(st)
  /\ st' = WaitStep(st)
  /\ hist' = Append(hist, [a |-> "wait", o |-> [r |-> 0, k |-> KObs(st')]])

Init == st = InitSt /\ hist = <<>>
Next == EvAdd \/ EvDel \/ CloseFd \/ ReopenFd \/ Env \/ Reinit \/ Wait
Spec == Init /\ [][Next]_vars

Inv == TypeOK /\ InterestOK /\ CountsOK /\ PollArrayOK /\ ChangelistOK

----------------------------------------------------------------------------
GenConstraint == Len(hist) <= D
Emit == (Len(hist) = D /\ st.atwait) => PrintT(ToJson(hist))
(* random long histories (simulation): every sufficiently long prefix that ends in a wait *)
EmitSim == (Len(hist) >= D - 3 /\ st.atwait) => PrintT(ToJson(hist))
StateView == st
=============================================================================
