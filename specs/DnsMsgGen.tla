---------------------------- MODULE DnsMsgGen ----------------------------
(* Generators over DnsMsg: the adversarial message space for C33 (replies to a pending
   query) and C37 (requests to a server port).  Every message is built from tokens,
   encoded to bytes by DnsMsg!EncMsg, judged by the reference (ClientResult /
   ServerResult) and printed.  TLC also checks the reference's internal consistency
   on every generated message (invariants below). *)
EXTENDS DnsMsg

CONSTANTS
  Mode,      \* "reply" (C33) or "request" (C37)
  QTypes,    \* queried types for replies: subset of {1, 28, 12}
  FlagIdx, QIdx, RRIdx, NsIdx, ArIdx, CntIdx, CutSet, IdSet,   \* which variants of each dimension to use
  MaxAn,     \* answer records per message
  Random,    \* TRUE: draw RandomN random combinations instead of the full product
  RandomN

VARIABLES cur, n
vars == <<cur, n>>

B(s) == s   \* readability: byte strings are written as tuples
ab == <<97, 98>>
cd == <<99, 100>>
ef == <<101, 102>>
gh == <<103, 104>>
zz == <<122, 122>>
AB == <<65, 66>>
host == <<104, 111, 115, 116>>
ex == <<101, 120>>
QNameOf(t) == IF t = TYPE_PTR THEN <<<<52>>, <<51>>, <<50>>, <<49>>, <<105, 110, 45, 97, 100, 100, 114>>, <<97, 114, 112, 97>>>>
              ELSE <<ab, cd>>
QEnd(t) == 12 + Len(EncName(Labels(QNameOf(t)))) + 4        \* offset of the first RR after an echoed question
SpecId == 4660

(* ---- reply dimensions *)
ReplyFlags == <<33152 (* 8180 *), 34176 (* 8580 AA *), 384 (* 0180 QR=0 *), 33155 (* NXDOMAIN *), 33154 (* SERVFAIL *),
                33664 (* 8380 TC *), 33157 (* REFUSED *), 33156 (* NOTIMPL *)>>
ReplyQ(t) == <<
  <<Question(Labels(QNameOf(t)), t, CLASS_IN)>>,                                   \* 1 echo
  <<Question(<<L(zz), L(cd), Z>>, t, CLASS_IN)>>,                                  \* 2 another name
  <<>>,                                                                            \* 3 no question
  <<Question(Labels(IF t = TYPE_PTR THEN QNameOf(t) ELSE <<AB, cd>>), t, CLASS_IN)>>,  \* 4 other letter case
  <<Question(Labels(QNameOf(t)), TYPE_TXT, CLASS_IN)>>,                            \* 5 same name, other type
  <<Question(<<L(zz), Z>>, t, CLASS_IN), Question(Labels(QNameOf(t)), t, CLASS_IN)>>,  \* 6 two questions
  <<Question(Labels(QNameOf(t)), t, 3)>>,                                          \* 7 class CHAOS
  <<Question(<<P(12)>>, t, CLASS_IN)>>                                             \* 8 self-referencing name
>>
o12 == <<P(12)>>
A1 == <<1, 2, 3, 4>>
A2 == <<5, 6, 7, 8>>
A3 == <<9, 9, 9, 9>>
V61 == <<32, 1, 13, 184, 0, 0, 0, 0, 0, 0, 0, 0, 0, 0, 0, 1>>
V62 == <<32, 1, 13, 184, 0, 0, 0, 0, 0, 0, 0, 0, 0, 0, 0, 2>>
SoaData == EncName(<<L(<<110, 115>>), P(12)>>) \o EncName(<<L(<<104, 109>>), P(12)>>) \o <<0, 0, 0, 1, 0, 0, 14, 16, 0, 0, 2, 88, 0, 9, 58, 128, 0, 0, 0, 15>>
ReplyRR(t) == <<
  (*  1 *) RRraw(o12, TYPE_A, CLASS_IN, 300, A1),
  (*  2 *) RRraw(o12, TYPE_A, CLASS_IN, 60, A2),
  (*  3 *) RRraw(Labels(QNameOf(t)), TYPE_A, CLASS_IN, 7200, A3),
  (*  4 *) RRraw(o12, TYPE_AAAA, CLASS_IN, 120, V61),
  (*  5 *) RRraw(o12, TYPE_AAAA, CLASS_IN, 30, V62),
  (*  6 *) RRname(o12, TYPE_CNAME, CLASS_IN, 50, <<L(ef), P(12)>>),
  (*  7 *) RRname(o12, TYPE_CNAME, CLASS_IN, 5, <<L(gh), Z>>),
  (*  8 *) RRname(o12, TYPE_PTR, CLASS_IN, 400, <<L(host), L(ex), Z>>),
  (*  9 *) RRname(o12, TYPE_PTR, CLASS_IN, 40, <<L(gh), P(12)>>),
  (* 10 *) RRraw(o12, TYPE_A, 3, 10, <<7, 7, 7, 7>>),                               \* class CHAOS
  (* 11 *) RRraw(o12, TYPE_A, CLASS_IN, 20, <<1, 1, 1>>),                            \* 3-byte A
  (* 12 *) RRraw(o12, TYPE_A, CLASS_IN, 25, A1 \o A2),                               \* 8-byte A
  (* 13 *) RRraw(o12, TYPE_TXT, CLASS_IN, 1, <<3, 120, 121, 122>>),
  (* 14 *) RRraw(<<P(16383)>>, TYPE_A, CLASS_IN, 70, A1),                            \* pointer out of range
  (* 15 *) RRraw(<<P(0)>>, TYPE_A, CLASS_IN, 70, A1),                                \* pointer into the header
  (* 16 *) RRraw(<<L(<<120>>), P(13)>>, TYPE_A, CLASS_IN, 70, A1),                    \* pointer into the middle of a label
  (* 17 *) RRraw(<<R(<<64>>)>>, TYPE_A, CLASS_IN, 70, A1),                            \* reserved label type
  (* 18 *) RRraw(<<P(QEnd(t))>>, TYPE_A, CLASS_IN, 70, A1),                           \* self loop when first
  (* 19 *) RRraw(<<P(QEnd(t) + 40)>>, TYPE_A, CLASS_IN, 70, A1),                      \* forward pointer
  (* 20 *) RRraw(o12, TYPE_A, CLASS_IN, 2147483647, A2),
  (* 21 *) RRraw(o12, TYPE_A, CLASS_IN, 0, A3),
  (* 22 *) [RRname(o12, TYPE_CNAME, CLASS_IN, 50, <<L(ef), P(12)>>) EXCEPT !.rl = 3],   \* lying RDLENGTH
  (* 23 *) RRname(o12, TYPE_PTR, CLASS_IN, 77, <<L(ef), P(QEnd(t) + 60)>>),           \* PTR target through a forward pointer
  (* 24 *) RRraw(o12, TYPE_AAAA, CLASS_IN, 9, <<1, 2, 3, 4>>),                       \* 4-byte AAAA
  (* 25 *) [RRraw(o12, TYPE_A, CLASS_IN, 33, A1) EXCEPT !.rl = 400],                 \* RDLENGTH beyond the message
  (* one RR carrying several addresses: RDLENGTH 4*k / 16*k, crossing the 255-byte and 16*ANCOUNT sizes of the reply buffer *)
  (* 26 *) RRraw(o12, TYPE_A, CLASS_IN, 41, RepSeq(<<10, 7, 7, 1>>, 64)),             \* 256 bytes
  (* 27 *) RRraw(o12, TYPE_A, CLASS_IN, 42, RepSeq(<<10, 8, 8, 2>>, 100)),            \* 400 bytes
  (* 28 *) RRraw(o12, TYPE_AAAA, CLASS_IN, 43, V61 \o V62),                           \* 32 bytes
  (* 29 *) RRraw(o12, TYPE_AAAA, CLASS_IN, 44, RepSeq(V62, 17)),                      \* 272 bytes
  (* 30 *) RRraw(o12, TYPE_A, CLASS_IN, 45, RepSeq(<<10, 9, 9, 3>>, 16)),             \* 64 bytes
  (* records that do not lean on the question section (usable right after the header when QDCOUNT = 0) *)
  (* 31 *) RRname(Labels(QNameOf(t)), TYPE_PTR, CLASS_IN, 46, <<L(host), L(ex), Z>>),
  (* 32 *) RRraw(Labels(QNameOf(t)), TYPE_AAAA, CLASS_IN, 47, V61),
  (* 33 *) RRraw(<<L(<<101, 118, 105, 108>>), L(ex), Z>>, TYPE_A, CLASS_IN, 48, <<6, 6, 6, 6>>)      \* evil.ex A 6.6.6.6
>>
ReplyNs == << <<>>, <<RRraw(o12, TYPE_SOA, CLASS_IN, 90, SoaData)>>, <<RRraw(o12, TYPE_SOA, CLASS_IN, 90, <<1, 2>>)>> >>
ReplyAr == << <<>>, <<RRraw(<<Z>>, TYPE_OPT, 1232, 0, <<>>)>> >>

(* ---- request dimensions *)
ReqFlags == <<256 (* RD *), 0, 272 (* RD CD *), 10240 (* opcode 5 *), 2304 (* opcode 1, RD *), 33024 (* QR *), 768 (* TC RD *), 259 (* rcode 3 *),
              30720 (* opcode 15 *)>>
ReqQ == <<
  <<Question(Labels(<<ab, cd>>), TYPE_A, CLASS_IN)>>,
  <<Question(Labels(<<ab, cd>>), TYPE_AAAA, CLASS_IN), Question(<<L(ef), P(15)>>, TYPE_A, CLASS_IN)>>,
  <<>>,
  <<Question(<<P(12)>>, TYPE_A, CLASS_IN)>>,                       \* self loop
  <<Question(<<L(ab), P(16383)>>, TYPE_A, CLASS_IN)>>,            \* out of range
  <<Question(<<L(ab), P(40)>>, TYPE_A, CLASS_IN)>>,               \* forward (into the additional section if present)
  <<Question(<<L(ab), P(13)>>, TYPE_A, CLASS_IN)>>,               \* middle of a label
  <<Question(<<Z>>, 255, 255)>>,                                  \* root, ANY
  <<Question(Labels(<<RepSeq(<<120>>, 63), RepSeq(<<121>>, 63), RepSeq(<<122>>, 63), RepSeq(<<119>>, 61)>>), TYPE_A, CLASS_IN)>>,  \* 255-byte name
  <<Question(Labels(<<RepSeq(<<120>>, 63), RepSeq(<<121>>, 63), RepSeq(<<122>>, 63), RepSeq(<<119>>, 63)>>), TYPE_A, CLASS_IN)>>,  \* 257-byte name
  <<Question(Labels(<<AB, <<0, 255, 46>>>>), TYPE_PTR, CLASS_IN)>>  \* binary label
>>
ReqRR == <<
  RRraw(<<P(12)>>, TYPE_A, CLASS_IN, 5, A1),
  RRname(<<L(gh), P(12)>>, TYPE_NS, CLASS_IN, 5, <<L(ef), P(12)>>),
  [RRraw(<<P(12)>>, TYPE_TXT, CLASS_IN, 5, <<1, 2, 3>>) EXCEPT !.rl = 9]     \* RDLENGTH beyond the data
>>
ReqAr == << <<>>, <<RRraw(<<Z>>, TYPE_OPT, 1232, 0, <<>>)>>, <<RRraw(<<Z>>, TYPE_OPT, 100, 0, <<>>)>>,
            <<RRraw(<<Z>>, TYPE_OPT, 4096, 32768, <<0, 10, 0, 2, 7, 7>>)>>,
            <<RRraw(<<P(12)>>, TYPE_TXT, CLASS_IN, 1, <<1, 65>>), RRraw(<<Z>>, TYPE_OPT, 2000, 0, <<>>)>> >>

(* declared counts relative to the content: <<dq, dan, dns, dar>> added to the true counts *)
CntVar == << <<0, 0, 0, 0>>, <<0, 1, 0, 0>>, <<0, -1, 0, 0>>, <<1, 0, 0, 0>>, <<0, 0, 0, 1>>, <<0, 0, 7, 0>>, <<0, 65000, 0, 0>> >>

SeqsUpTo(S, k) == UNION {[1..m -> S] : m \in 0..k}
Pick(S) == IF Random THEN {RandomElement(S)} ELSE S
PickAn == IF Random THEN {[i \in 1..m |-> RandomElement(RRIdx)] : m \in {RandomElement(0..MaxAn)}} ELSE SeqsUpTo(RRIdx, MaxAn)

Build(t, fi, qi, ans, nsi, ari, ci, cut, idd) ==
  LET rep == Mode = "reply"
      q == IF rep THEN ReplyQ(t)[qi] ELSE ReqQ[qi]
      pool == IF rep THEN ReplyRR(t) ELSE ReqRR
      an == [i \in 1..Len(ans) |-> pool[ans[i]]]
      ns == IF rep THEN ReplyNs[nsi] ELSE <<>>
      ar == IF rep THEN ReplyAr[ari] ELSE ReqAr[ari]
      cv == CntVar[ci]
      cnt == <<Max(0, Len(q) + cv[1]), Max(0, Len(an) + cv[2]), Max(0, Len(ns) + cv[3]), Max(0, Len(ar) + cv[4])>>
      m == [id |-> SpecId + idd, flags |-> IF rep THEN ReplyFlags[fi] ELSE ReqFlags[fi], cnt |-> cnt,
            q |-> q, an |-> an, ns |-> ns, ar |-> ar, cut |-> cut]
      b == EncMsg(m)
  IN [k |-> "msg", qt |-> t, b |-> b,
      tok |-> [f |-> fi, q |-> qi, an |-> ans, ns |-> nsi, ar |-> ari, c |-> ci, cut |-> cut, id |-> idd],
      res |-> IF rep THEN ClientResult(b, [id |-> SpecId, name |-> QNameOf(t), type |-> t, randcase |-> FALSE])
              ELSE ServerResult(b),
      resrc |-> IF rep THEN ClientResult(b, [id |-> SpecId, name |-> QNameOf(t), type |-> t, randcase |-> TRUE]) ELSE [k |-> "-"]]

Init == cur = [k |-> "init"] /\ n = 0
Gen ==
  /\ (IF Random THEN n < RandomN ELSE n = 0)
  /\ \E t \in Pick(QTypes) : \E fi \in Pick(FlagIdx) : \E qi \in Pick(QIdx) : \E ans \in PickAn :
     \E nsi \in Pick(NsIdx) : \E ari \in Pick(ArIdx) : \E ci \in Pick(CntIdx) : \E cut \in Pick(CutSet) : \E idd \in Pick(IdSet) :
       cur' = Build(t, fi, qi, ans, nsi, ari, ci, cut, idd)
  /\ n' = n + 1
Next == Gen
Spec == Init /\ [][Next]_vars

----------------------------------------------------------------------------
(* Internal consistency of the reference on every generated message *)
Bytes == cur.k # "init" => \A i \in 1..Len(cur.b) : cur.b[i] \in 0..255
(* verdicts are total and of a known kind *)
Total == cur.k # "init" =>
           cur.res.k \in (IF Mode = "reply" THEN {"ignored", "error", "ok", "open", "any"} ELSE {"none", "notimpl", "call", "open"})
(* a case-insensitive comparison never rejects what the case-sensitive one accepts *)
CaseMonotone == (cur.k # "init" /\ Mode = "reply" /\ cur.res.k \in {"ok", "open"}) => cur.resrc.k \in {"ok", "open"}
(* what is reported is really in the message: every address of an "ok" verdict occurs as RDATA of a decoded answer RR *)
OkSound == (cur.k # "init" /\ Mode = "reply" /\ cur.res.k = "ok") =>
             LET d == Decode(cur.b) IN
             /\ d.exact /\ Len(d.an) = d.cnt[2]
             /\ \A i \in 1..Len(cur.res.addrs) : \E j \in 1..Len(d.an) : d.an[j].rd = cur.res.addrs[i] /\ d.an[j].ttl >= cur.res.maxttl
(* re-encoding what was decoded (without compression) decodes to the same records: decode o encode = id *)
AllRdOk(d) == \A rs \in {d.an, d.ns, d.ar} : \A i \in 1..Len(rs) : rs[i].rdok
ReEncode == (cur.k # "init" /\ Decode(cur.b).ok /\ Decode(cur.b).strict /\ AllRdOk(Decode(cur.b))) =>
   LET d == Decode(cur.b)
       plain(rs) == [i \in 1..Len(rs) |->
                       IF rs[i].t \in NameTypes /\ rs[i].rdok THEN RRname(Labels(rs[i].n), rs[i].t, rs[i].c, Max(rs[i].ttl, 0), Labels(rs[i].rdn))
                       ELSE RRraw(Labels(rs[i].n), rs[i].t, rs[i].c, Max(rs[i].ttl, 0), rs[i].rd)]
       m2 == [id |-> d.id, flags |-> d.flags, cnt |-> d.cnt, cut |-> 0,
              q |-> [i \in 1..Len(d.q) |-> Question(Labels(d.q[i].n), d.q[i].t, d.q[i].c)],
              an |-> plain(d.an), ns |-> plain(d.ns), ar |-> plain(d.ar)]
       d2 == Decode(EncMsg(m2))
       same(x, y) == Len(x) = Len(y) /\ \A i \in 1..Len(x) : x[i].n = y[i].n /\ x[i].t = y[i].t /\ x[i].c = y[i].c
                                                             /\ (x[i].ttl >= 0 => x[i].ttl = y[i].ttl)
                                                             /\ (IF x[i].t \in NameTypes /\ x[i].rdok THEN x[i].rdn = y[i].rdn ELSE x[i].rd = y[i].rd)
   IN d2.ok /\ d2.exact /\ d2.strict /\ d2.q = d.q /\ same(d.an, d2.an) /\ same(d.ns, d2.ns) /\ same(d.ar, d2.ar)

Emit == cur.k # "init" => PrintT(ToJson(cur))
GenConstraint == TRUE
=============================================================================
