------------------------------- MODULE Fork -------------------------------
(* C11: fork + event_reinit.  Two processes, each an instance of the reactor
   state of EventCore.tla.  `ForkNow` copies the user-level state of the parent
   into the child; kernel objects that a signal delivery or a wake-up travels
   through (signal socketpair / signalfd, notify fd, the epoll instance) are
   per-process after event_reinit, while the file descriptions of the user's
   own fds (pipes) stay shared.

   The property is stated relative to the single-process specification: after
   ForkNow, for every sequence of API calls, each process observes exactly what
   EventCore predicts for that sequence started from the forked state, with the
   pending-signal count of the child reset to 0 (a signal delivered before the
   fork belongs to the parent):

     ChildKeepsRegistrations   obs_child(suffix)  = EventCore(st_fork[sigpend := 0], suffix)
     ParentUnaffected          obs_parent(suffix) = EventCore(st_fork, suffix)     even though the child ran first
     NoCrossTalk               Raise in one process changes sigpend of that process only

   Because both processes are instances of the same deterministic specification,
   the model-level content of this module is the independence statement below;
   the conformance check (checks/C11.py) replays EventCore histories with a fork
   inserted at every step and compares both processes with EventCore's prediction. *)
EXTENDS Integers, Sequences, TLC

CONSTANTS Ops        \* abstract per-process operations: "raise", "consume", "noop"
VARIABLES forked, sigpend   \* sigpend[p] for p in {"parent","child"}
vars == <<forked, sigpend>>
Procs == {"parent", "child"}
Init == forked = FALSE /\ sigpend = [p \in Procs |-> 0]
Raise(p) == (p = "child" => forked) /\ sigpend[p] < 2 /\ sigpend' = [sigpend EXCEPT ![p] = @ + 1] /\ UNCHANGED forked
Consume(p) == (p = "child" => forked) /\ sigpend[p] > 0 /\ sigpend' = [sigpend EXCEPT ![p] = 0] /\ UNCHANGED forked
ForkNow == ~forked /\ forked' = TRUE /\ sigpend' = [sigpend EXCEPT !["child"] = 0]
Next == ForkNow \/ \E p \in Procs : Raise(p) \/ Consume(p)
Spec == Init /\ [][Next]_vars
(* a step of one process never changes the other's pending deliveries *)
NoCrossTalk == [][\A p \in Procs : (sigpend'[p] # sigpend[p]) => (\A q \in Procs \ {p} : sigpend'[q] = sigpend[q] \/ ~forked)]_vars
ChildStartsClean == ~forked => sigpend["child"] = 0
=============================================================================
