---------------------------- MODULE ThreadsObs ----------------------------
(* C09, binding V: what an outside observer may see of the protocol of
   Threads.tla.  The trace is the stamp-ordered list of events recorded from a
   real multi-threaded run (harness/threads_drv.c):

     Call(t, op, e) / Ret(t, op, e)   a worker's API call begins / has returned
     CbBegin(e) / CbEnd(e)            e's callback starts / ends in the loop thread
     End                              all workers done, the loop was given time to act
     Reset                            next execution

   Stamps come from one atomic counter, so "a before b" in the trace implies a
   really happened before b.  The monitor is deterministic and total; forbidden
   observations are printed as BAD lines (collected by the check) and the
   monitor resynchronises at the next Reset.

   DelWaits
     (1) when a blocking del (event_del / event_del_block) of e returns, e's
         callback is not running - unless some add/activate of e overlapped or
         followed the del's start (then a *new* activation may already run);
     (2) after such a del returned, e's callback does not start until e is
         armed again (add / active called).
   NoLostWakeup
     at End every armed event has had its callback run, or was deleted after
     being armed, or the loop was told to break: nothing waits for the
     unrelated one-hour timer.
*)
EXTENDS Integers, Sequences, FiniteSets, TLC, Json, IOUtils

Trace == ndJsonDeserialize(IOEnv.VERIF_TRACE)
Ev == 1..5
Thr == 0..9

VARIABLES l, running, disarmed, pend, armCall, armRet, armInflight, delCall, broke, skip, nbad
vars == <<l, running, disarmed, pend, armCall, armRet, armInflight, delCall, broke, skip, nbad>>

Fresh == /\ running = [e \in Ev |-> FALSE] /\ disarmed = [e \in Ev |-> FALSE] /\ pend = [e \in Ev |-> FALSE]
         /\ armCall = [e \in Ev |-> 0] /\ armRet = [e \in Ev |-> 0] /\ armInflight = [e \in Ev |-> 0]
         /\ delCall = [t \in Thr |-> 0] /\ broke = FALSE /\ skip = FALSE
Init == l = 1 /\ nbad = 0 /\ Fresh

IsArm(op) == op \in {"add", "active"}
IsBlockingDel(op) == op \in {"del", "del_block"}
IsDel(op) == op \in {"del", "del_block", "del_noblock"}

Bad(why, ev) == PrintT(<<"BAD", l, why, ev.e>>) /\ nbad' = nbad + 1 /\ skip' = TRUE

Keep(vs) == UNCHANGED vs

Step ==
  /\ l <= Len(Trace) /\ l' = l + 1
  /\ LET ev == Trace[l] IN
     CASE ev.k = "Reset" ->
            /\ running' = [e \in Ev |-> FALSE] /\ disarmed' = [e \in Ev |-> FALSE] /\ pend' = [e \in Ev |-> FALSE]
            /\ armCall' = [e \in Ev |-> 0] /\ armRet' = [e \in Ev |-> 0] /\ armInflight' = [e \in Ev |-> 0]
            /\ delCall' = [t \in Thr |-> 0] /\ broke' = FALSE /\ skip' = FALSE /\ UNCHANGED nbad
       [] skip -> UNCHANGED <<running, disarmed, pend, armCall, armRet, armInflight, delCall, broke, skip, nbad>>
       [] ev.k = "Lost" -> Bad("lost-wakeup-or-stuck", ev) /\ UNCHANGED <<running, disarmed, pend, armCall, armRet, armInflight, delCall, broke>>
       [] ev.k = "Call" /\ IsArm(ev.op) ->
            /\ armCall' = [armCall EXCEPT ![ev.e] = ev.s] /\ armInflight' = [armInflight EXCEPT ![ev.e] = @ + 1]
            /\ disarmed' = [disarmed EXCEPT ![ev.e] = FALSE] /\ pend' = [pend EXCEPT ![ev.e] = TRUE]
            /\ UNCHANGED <<running, armRet, delCall, broke, skip, nbad>>
       [] ev.k = "Ret" /\ IsArm(ev.op) ->
            /\ armRet' = [armRet EXCEPT ![ev.e] = ev.s] /\ armInflight' = [armInflight EXCEPT ![ev.e] = @ - 1]
            /\ UNCHANGED <<running, disarmed, pend, armCall, delCall, broke, skip, nbad>>
       [] ev.k = "Call" /\ IsDel(ev.op) ->
            /\ delCall' = [delCall EXCEPT ![ev.t] = ev.s] /\ pend' = [pend EXCEPT ![ev.e] = FALSE]
            /\ UNCHANGED <<running, disarmed, armCall, armRet, armInflight, broke, skip, nbad>>
       [] ev.k = "Ret" /\ IsDel(ev.op) ->
            LET c == delCall[ev.t]
                rearmed == armCall[ev.e] > c \/ armRet[ev.e] > c \/ armInflight[ev.e] > 0
            IN IF IsBlockingDel(ev.op) /\ running[ev.e] /\ ~rearmed
               THEN Bad("del-returned-while-callback-running", ev) /\ UNCHANGED <<running, disarmed, pend, armCall, armRet, armInflight, delCall, broke>>
               ELSE /\ disarmed' = [disarmed EXCEPT ![ev.e] = (IsBlockingDel(ev.op) /\ ~rearmed)]
                    \* an arm that overlapped this del may have been cancelled by it: no callback is owed
                    /\ pend' = [pend EXCEPT ![ev.e] = FALSE]
                    /\ UNCHANGED <<running, armCall, armRet, armInflight, delCall, broke, skip, nbad>>
       [] ev.k = "Call" /\ ev.op = "break" -> broke' = TRUE /\ UNCHANGED <<running, disarmed, pend, armCall, armRet, armInflight, delCall, skip, nbad>>
       [] ev.k = "Ret" /\ ev.op = "break" -> UNCHANGED <<running, disarmed, pend, armCall, armRet, armInflight, delCall, broke, skip, nbad>>
       [] ev.k = "CbBegin" ->
            IF disarmed[ev.e] THEN Bad("callback-started-after-del-returned", ev) /\ UNCHANGED <<running, disarmed, pend, armCall, armRet, armInflight, delCall, broke>>
            ELSE IF running[ev.e] THEN Bad("callback-reentered", ev) /\ UNCHANGED <<running, disarmed, pend, armCall, armRet, armInflight, delCall, broke>>
            ELSE /\ running' = [running EXCEPT ![ev.e] = TRUE] /\ pend' = [pend EXCEPT ![ev.e] = FALSE]
                 /\ UNCHANGED <<disarmed, armCall, armRet, armInflight, delCall, broke, skip, nbad>>
       [] ev.k = "CbEnd" -> running' = [running EXCEPT ![ev.e] = FALSE]
                            /\ UNCHANGED <<disarmed, pend, armCall, armRet, armInflight, delCall, broke, skip, nbad>>
       [] ev.k = "Quiet" ->
            \* the workers are done and nothing has poked the loop since: whatever is still armed was lost
            IF ~broke /\ (\E e \in Ev : pend[e])
            THEN Bad("armed-event-not-acted-on-without-another-wakeup", [e |-> CHOOSE e \in Ev : pend[e]]) /\ UNCHANGED <<running, disarmed, pend, armCall, armRet, armInflight, delCall, broke>>
            ELSE UNCHANGED <<running, disarmed, pend, armCall, armRet, armInflight, delCall, broke, skip, nbad>>
       [] ev.k = "End" ->
            IF ~broke /\ (\E e \in Ev : pend[e])
            THEN Bad("armed-event-never-ran", [e |-> CHOOSE e \in Ev : pend[e]]) /\ UNCHANGED <<running, disarmed, pend, armCall, armRet, armInflight, delCall, broke>>
            ELSE UNCHANGED <<running, disarmed, pend, armCall, armRet, armInflight, delCall, broke, skip, nbad>>
       [] OTHER -> UNCHANGED <<running, disarmed, pend, armCall, armRet, armInflight, delCall, broke, skip, nbad>>

Next == Step
Spec == Init /\ [][Next]_vars
AtEnd == (l = Len(Trace) + 1) => PrintT(<<"TRACE-ACCEPTED", Len(Trace), nbad>>)
=============================================================================
