----------------------------- MODULE HttpLimits -----------------------------
(* HTTP size limits (property C25): which messages may / must not be delivered
   under a maximum header size and a maximum body size, and how much may be
   buffered while deciding.

   A scenario is one message built from size parameters - the octets are
   constructed here, so the driver holds no protocol knowledge:

     shape  "oneline": one long field line        "many": many short field lines
            "fold": one field followed by hn short obs-fold continuation lines
     hn     padding amount (length of the long line / number of short lines)
     bk     body kind "none" | "cl" | "chunked" | "close" (close-delimited, responses only)
     bn     body size in octets
     rh,rb  the limits, given RELATIVE to the sizes of this message:
            "zero", "small", then around the smallest and the largest sensible
            measure of the size ("min-1","min","min+1","full-1","full","full+1"), "inf"

   Measures.  The property does not say whether line terminators / chunk framing
   count.  Hmin = header octets without the line terminators (what libevent
   counts), Hfull = all octets of the header section; Bmin = body content octets,
   Bfull = body octets on the wire.  The reference verdict is therefore
     "refuse"  when even the smallest measure exceeds the limit (MUST NOT deliver),
     "deliver" when even the largest measure is within the limit,
     "either"  in between.
   Bound = the most that may sit in the input buffer while deciding:
   max(limit_h, limit_b) + one read quantum, when both limits are finite.
*)
EXTENDS Integers, Sequences, FiniteSets, TLC, Json

CONSTANTS View, Shapes, HNs, BKs, BNs, RHs, RBs, Quantum

VARIABLES sc, phase
vars == <<sc, phase>>

RECURSIVE Rep(_, _)
Rep(s, n) == IF n <= 0 THEN "" ELSE LET h == Rep(s, n \div 2) IN IF n % 2 = 0 THEN h \o h ELSE h \o h \o s

CRLF == "\r\n"
StartLine == IF View = "server" THEN "POST /p HTTP/1.1" ELSE "HTTP/1.1 200 OK"
Fixed == IF View = "server" THEN "Host: h" ELSE "Server: s"

PadLines(shape, n) == IF shape = "oneline" THEN <<"X-Pad: " \o Rep("a", n)>>
                      ELSE IF shape = "fold" THEN <<"X-Pad: a">> \o [i \in 1..n |-> " b"]   \* one field + n obs-fold continuation lines
                      ELSE [i \in 1..n |-> "X: v"]
FrameLine(bk, bn) == CASE bk = "cl" -> <<"Content-Length: " \o ToString(bn)>>
                       [] bk = "chunked" -> <<"Transfer-Encoding: chunked">>
                       [] OTHER -> <<>>
HdrLines(s) == <<StartLine, Fixed>> \o PadLines(s.shape, s.hn) \o FrameLine(s.bk, s.bn)

RECURSIVE Join(_)
Join(q) == IF Len(q) = 0 THEN "" ELSE IF Len(q) = 1 THEN q[1] \o CRLF
           ELSE LET m == Len(q) \div 2 IN Join(SubSeq(q, 1, m)) \o Join(SubSeq(q, m + 1, Len(q)))
HdrBytes(s) == Join(HdrLines(s)) \o CRLF

RECURSIVE Chunks(_)
Chunks(n) == IF n = 0 THEN "0" \o CRLF \o CRLF
             ELSE IF n >= 4096 THEN "1000" \o CRLF \o Rep("b", 4096) \o CRLF \o Chunks(n - 4096)
             ELSE IF n >= 256 THEN "100" \o CRLF \o Rep("b", 256) \o CRLF \o Chunks(n - 256)
             ELSE LET k == IF n > 8 THEN 8 ELSE n IN ToString(k) \o CRLF \o Rep("b", k) \o CRLF \o Chunks(n - k)
BodyBytes(s) == CASE s.bk = "none" -> ""
                  [] s.bk = "chunked" -> Chunks(s.bn)
                  [] OTHER -> Rep("b", s.bn)
Bytes(s) == HdrBytes(s) \o BodyBytes(s)

(* size measures, derived from the octets *)
Hfull(s) == Len(HdrBytes(s))
Hmin(s) == Hfull(s) - 2 * (Len(HdrLines(s)) + 1)
Bmin(s) == IF s.bk = "none" THEN 0 ELSE s.bn
Bfull(s) == Len(BodyBytes(s))

Limit(rel, mn, fl) == CASE rel = "zero" -> 0 [] rel = "small" -> 10
                        [] rel = "min-1" -> mn - 1 [] rel = "min" -> mn [] rel = "min+1" -> mn + 1
                        [] rel = "full-1" -> fl - 1 [] rel = "full" -> fl [] rel = "full+1" -> fl + 1
                        [] rel = "inf" -> -1
MaxHdr(s) == Limit(s.rh, Hmin(s), Hfull(s))
MaxBody(s) == Limit(s.rb, Bmin(s), Bfull(s))

Over(l, x) == l >= 0 /\ x > l
(* obs-fold may itself be refused (RFC 9112 5.2: reject or replace by SP): such a message never HAS to be delivered,
   but an oversize one still must not be *)
Verdict(s) ==
  IF Over(MaxHdr(s), Hmin(s)) \/ Over(MaxBody(s), Bmin(s)) THEN "refuse"
  ELSE IF s.shape = "fold" /\ s.hn > 0 THEN "either"
  ELSE IF ~Over(MaxHdr(s), Hfull(s)) /\ ~Over(MaxBody(s), Bfull(s)) THEN "deliver"
  ELSE "either"
Bound(s) == IF MaxHdr(s) < 0 \/ MaxBody(s) < 0 THEN -1
            ELSE (IF MaxHdr(s) > MaxBody(s) THEN MaxHdr(s) ELSE MaxBody(s)) + Quantum

Scenarios == [shape : Shapes, hn : HNs, bk : BKs, bn : BNs, rh : RHs, rb : RBs]
Sensible(s) == /\ (s.bk = "none" => s.bn = 0 /\ s.rb \in {"inf", "zero"})
               /\ (s.bk = "close" => View = "client")
               /\ MaxHdr(s) >= -1 /\ MaxBody(s) >= -1

Init == sc \in {s \in Scenarios : Sensible(s)} /\ phase = "chosen"
(* raising a limit: the step used to state monotonicity *)
RaiseH == phase = "chosen" /\ MaxHdr(sc) >= 0 /\ sc.rh # "full+1"
          /\ \E r \in RHs : Limit(r, Hmin(sc), Hfull(sc)) > MaxHdr(sc) /\ sc' = [sc EXCEPT !.rh = r]
          /\ UNCHANGED phase
RaiseB == phase = "chosen" /\ MaxBody(sc) >= 0
          /\ \E r \in RBs : Limit(r, Bmin(sc), Bfull(sc)) > MaxBody(sc) /\ Sensible([sc EXCEPT !.rb = r])
          /\ sc' = [sc EXCEPT !.rb = r]
          /\ UNCHANGED phase
Next == RaiseH \/ RaiseB

(* the reference never lets an oversize message through, whatever the measure *)
NeverDeliverOversize ==
  (Verdict(sc) # "refuse" => ~Over(MaxHdr(sc), Hmin(sc)) /\ ~Over(MaxBody(sc), Bmin(sc))) /\
  Verdict(sc) = "deliver" => /\ (MaxHdr(sc) < 0 \/ Hfull(sc) <= MaxHdr(sc))
                             /\ (MaxBody(sc) < 0 \/ Bfull(sc) <= MaxBody(sc))
                             /\ Hmin(sc) <= Hfull(sc) /\ Bmin(sc) <= Bfull(sc)
RefuseIsJustified ==
  Verdict(sc) = "refuse" => \/ (MaxHdr(sc) >= 0 /\ Hfull(sc) > MaxHdr(sc))
                            \/ (MaxBody(sc) >= 0 /\ Bfull(sc) > MaxBody(sc))
(* raising a limit never turns a deliverable message into one that must be refused *)
Rank(v) == CASE v = "refuse" -> 0 [] v = "either" -> 1 [] v = "deliver" -> 2
Monotone == [][Rank(Verdict(sc')) >= Rank(Verdict(sc))]_vars
BoundOK == Bound(sc) >= 0 => (Bound(sc) >= MaxHdr(sc) + Quantum /\ Bound(sc) >= MaxBody(sc) + Quantum)

Emit == PrintT(ToJson([p |-> sc, bytes |-> Bytes(sc), max_hdr |-> MaxHdr(sc), max_body |-> MaxBody(sc),
                       verdict |-> Verdict(sc), hmin |-> Hmin(sc), hfull |-> Hfull(sc), bmin |-> Bmin(sc),
                       bfull |-> Bfull(sc), bound |-> Bound(sc), body |-> IF sc.bk = "none" THEN "" ELSE Rep("b", sc.bn)]))
=============================================================================
