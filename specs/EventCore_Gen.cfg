CONSTANTS
  Pool = {1, 3, 4, 5}
  NPrio = 3
  Durs = {0, 1, 2}
  Acts = {"add", "del", "rmt", "act", "prio", "loop", "feed", "drain", "raise", "adv", "later"}
  D = 3
  MaxIter = 4
  MaxCb = 0
  LimitPrio = 1
  ScriptOps = {}
INIT Init
NEXT Next
CONSTRAINT GenConstraint
INVARIANT Inv
INVARIANT Emit
CHECK_DEADLOCK FALSE
