------------------------------ MODULE Locks ------------------------------
(* C08: lock discipline of the library, as a monitor over the sequence of lock
   operations and API-call brackets recorded from the real code (binding V).

   The monitor is deterministic: every recorded event is consumed by exactly one
   action; an event that the discipline forbids moves the monitor to an error
   state (`bad`), which the invariant Good rejects.  So a trace is accepted iff
   TLC explores it to its end without violating Good.

     Alloc(l, rec)      a lock is created (recursive or not)
     Lock(l) / Try(l,ok) / Unlock(l) / CondWait(l)
     Enter(n) / Return(n)   a public libevent function is entered / returns
     CbEnter / CbExit       a user callback invoked by the library runs
     Reset                  new scenario (all state forgotten)

   Discipline (property C08):
     UnlockOnlyHeld      Unlock(l) only when this thread holds l
     NoReentry           Lock(l) on a non-recursive lock that is already held is a self-deadlock
     CondWaitHoldsLock   a condition wait names a lock that is held exactly once
     BalancedOnReturn    when the outermost API call returns, the set of held
                         locks equals the set held when it was entered
     CallbackUnlocked    user callbacks run with no library lock held beyond those held at API entry
                         (a callback that re-enters the API must not self-deadlock) *)
EXTENDS Integers, Sequences, FiniteSets, TLC, Json, IOUtils

Trace == ndJsonDeserialize(IOEnv.VERIF_TRACE)

VARIABLES l,        \* next event to consume
          skip,     \* TRUE after a failure: ignore events up to the next Reset (resynchronise)
          held,     \* lock id -> hold count (only ids seen)
          rec,      \* lock id -> recursive?
          stack,    \* stack of [n, held] snapshots at Enter
          bad       \* <<>> or <<position, reason, name>>
vars == <<l, held, rec, stack, bad, skip>>

Init == l = 1 /\ held = <<>> /\ rec = <<>> /\ stack = <<>> /\ bad = <<>> /\ skip = FALSE

Cnt(x) == IF x \in DOMAIN held THEN held[x] ELSE 0
IsRec(x) == IF x \in DOMAIN rec THEN rec[x] ELSE TRUE   \* locks allocated before recording started: unknown => lenient
SetCnt(x, n) == [y \in (DOMAIN held) \cup {x} |-> IF y = x THEN n ELSE held[y]]
Nonzero(h) == {x \in DOMAIN h : h[x] > 0}
SameHeld(h1, h2) == Nonzero(h1) = Nonzero(h2) /\ \A x \in Nonzero(h1) : h1[x] = h2[x]
(* a failure is printed (the check collects the BAD lines), remembered in `bad`,
   and the monitor skips to the next scenario so that the rest of the trace is still examined *)
Fail(why) == /\ PrintT(<<"BAD", l, why, IF stack = <<>> THEN "-" ELSE stack[Len(stack)].n>>)
             /\ bad' = Append(bad, l) /\ skip' = TRUE /\ UNCHANGED <<held, rec, stack>>

Step ==
  /\ l <= Len(Trace)
  /\ l' = l + 1
  /\ LET ev == Trace[l] IN
     CASE ev.e = "Reset" -> held' = <<>> /\ rec' = <<>> /\ stack' = <<>> /\ skip' = FALSE /\ UNCHANGED bad
       [] skip -> UNCHANGED <<held, rec, stack, bad, skip>>
       [] ev.e = "Alloc" -> rec' = [y \in (DOMAIN rec) \cup {ev.l} |-> IF y = ev.l THEN ev.rec = 1 ELSE rec[y]]
                            /\ held' = SetCnt(ev.l, 0) /\ UNCHANGED <<stack, bad, skip>>
       [] ev.e = "Free" -> IF Cnt(ev.l) > 0 THEN Fail("free-of-held-lock")
                           ELSE UNCHANGED <<held, rec, stack, bad, skip>>
       [] ev.e = "Lock" -> IF Cnt(ev.l) > 0 /\ ~IsRec(ev.l) THEN Fail("relock-nonrecursive")
                           ELSE held' = SetCnt(ev.l, Cnt(ev.l) + 1) /\ UNCHANGED <<rec, stack, bad, skip>>
       [] ev.e = "Try" -> IF ev.ok = 1 THEN held' = SetCnt(ev.l, Cnt(ev.l) + 1) /\ UNCHANGED <<rec, stack, bad, skip>>
                          ELSE UNCHANGED <<held, rec, stack, bad, skip>>
       [] ev.e = "Unlock" -> IF Cnt(ev.l) = 0 THEN Fail("unlock-not-held")
                             ELSE held' = SetCnt(ev.l, Cnt(ev.l) - 1) /\ UNCHANGED <<rec, stack, bad, skip>>
       [] ev.e = "CondWait" -> IF Cnt(ev.l) # 1 THEN Fail("condwait-lock-not-held-once")
                               ELSE UNCHANGED <<held, rec, stack, bad, skip>>
       [] ev.e = "Enter" -> stack' = Append(stack, [n |-> ev.n, held |-> held]) /\ UNCHANGED <<held, rec, bad, skip>>
       [] ev.e = "Return" ->
            IF stack = <<>> THEN Fail("return-without-enter")
            ELSE IF ~SameHeld(stack[Len(stack)].held, held) THEN Fail("locks-held-after-return")
            ELSE stack' = SubSeq(stack, 1, Len(stack) - 1) /\ UNCHANGED <<held, rec, bad, skip>>
       [] ev.e = "CbEnter" ->
            \* the library must have dropped every lock it took since the API call was entered
            IF stack # <<>> /\ ~SameHeld(stack[Len(stack)].held, held) THEN Fail("callback-with-lock-held")
            ELSE UNCHANGED <<held, rec, stack, bad, skip>>
       [] ev.e = "CbExit" -> UNCHANGED <<held, rec, stack, bad, skip>>
       [] OTHER -> Fail("unknown-event")

Next == Step
Spec == Init /\ [][Next]_vars

Good == bad = <<>>      \* (not used as a TLC invariant: the run continues and reports every failure)
NFail == Len(bad)
(* acceptance: the whole trace was consumed *)
Consumed == l = Len(Trace) + 1
AtEnd == (l = Len(Trace) + 1) => PrintT(<<"TRACE-ACCEPTED", Len(Trace)>>)
=============================================================================
