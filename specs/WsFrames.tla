----------------------------- MODULE WsFrames -----------------------------
(* RFC 6455 framing: reference decoder and reference encoder, used to decide
   C31 (frames are decoded into exactly the sent messages) and
   C32 (handshake answer and outgoing frames are conformant).

   Frame tokens carry their byte encoding (Hdr, payload pattern) so that the C
   driver holds no protocol knowledge: it ships the bytes the specification
   defines and reports what the library did.

   Three uses of the one module, selected by the constant Mode:

   "dec"  byte-level incremental decoder fed with the explicit wire bytes of
          every frame sequence over a small alphabet under EVERY segmentation
          (FeedChunk(k) for every k).  TLC decides SegmentationIndependent,
          MatchesTokenDecoder, NothingAfterClose, NoPartialDelivery.
   "gen"  frame sequences over a wide alphabet (all length classes incl. the
          implementation's size limit); the token-level reference decoder
          (same transition function Apply/Bad as the byte-level one) predicts
          the deliveries; Emit prints sequence + encoding + prediction.
   "enc"  histories of the server-side API (open session, send text/binary,
          close) with the predicted bytes on the wire; EncHdrOK / EncDecodeOK /
          CloseOK decide "Decode(Encode(m)) = m", minimal length form, status
          code carried.

   Where RFC 6455 says MUST-fail but the property statement (C31) does not name
   the condition, the reference is parametrised by a policy record and the
   prediction is the set of outcomes over all policies:
     pol.rsv   RSV bits set without negotiated extension  -> fail / ignore
     pol.ctl   control frame longer than 125 or with FIN=0 -> fail / accept
     pol.min   non-minimal length encoding                 -> fail / accept
   Named by the property and therefore fixed: size limit, reserved opcodes,
   malformed fragmentation, nothing after close, unmasked frames accepted.
*)
EXTENDS Integers, Sequences, FiniteSets, TLC, Json

CONSTANTS
  Mode,        \* "dec" | "gen" | "enc"
  Fams,        \* dec/gen: sequence of frame-alphabet families, one is chosen in Init.  Each is a record
               \*   [n     number of frames per sequence (dec: upper bound, gen: exact length emitted),
               \*    lim   largest accepted frame payload (implementation: 10485760; small in "dec"),
               \*    fins, rsvs, ops, masks   per-frame alphabets (sets of ints),
               \*    lens  set of <<lenform, len>>, lenform in {7, 16, 64},
               \*    his   set of indices of the upper 4 length bytes for lenform 64 (0 = zero),
               \*    fixed if non-empty, the one sequence to emit: <<fin,rsv,op,mk,lf,len,hi>>* ]
  Avoid,       \* subset of {"K1", "K3"}: exclude the triggers of these open known findings (see KnownTrigger)
  KAT,         \* enc: handshake known answers << <<key, accept>>, ... >>
  EncLens,     \* enc: payload lengths for send actions
  Codes,       \* enc: close status codes
  D,           \* enc: bound on Len(hist)
  Pols         \* dec: indices into PolSeq of the policies to explore

VARIABLES seq, phase, pos, dec, pol, hist, wire, fam
vars == <<seq, phase, pos, dec, pol, hist, wire, fam>>

F == Fams[fam]
Limit == F.lim
MaxFrames == F.n
Fixed == F.fixed

----------------------------------------------------------------------------
(* bytes *)
Byte2(n) == <<n \div 256, n % 256>>
Byte4(n) == <<n \div 16777216, (n \div 65536) % 256, (n \div 256) % 256, n % 256>>
RECURSIVE Xor(_, _)
Xor(a, b) == IF a = 0 THEN b ELSE IF b = 0 THEN a
             ELSE ((a + b) % 2) + 2 * Xor(a \div 2, b \div 2)
HiBytes(h) == CASE h = 0 -> <<0, 0, 0, 0>>
                [] h = 1 -> <<0, 0, 0, 1>>          \* 2^32 + len: wraps to len in 32 bits
                [] h = 2 -> <<128, 0, 0, 0>>        \* top bit set (RFC: MUST be 0)
                [] OTHER -> <<255, 255, 255, 255>>

KeyOf(i) == CASE i % 3 = 1 -> <<55, 250, 33, 61>>
              [] i % 3 = 2 -> <<255, 0, 128, 1>>
              [] OTHER -> <<0, 0, 0, 0>>

(* Payload pattern: byte i (from 0) of a payload <<n, s, b, m>> is b + ((s + 7 i) mod m).
   Text-capable frames (opcode 1 and continuations) use printable ASCII (b=33, m=89) so
   that UTF-8 validity is never in question; the others use 0..250 (prime period). *)
PatByte(p, i) == p[3] + ((p[2] + 7 * i) % p[4])
PatBytes(p) == IF p[1] = 0 THEN <<>> ELSE [i \in 1..p[1] |-> PatByte(p, i - 1)]

Oversize(lf, len, hi) == hi # 0 \/ len > Limit

MkFrame(fin, rsv, op, mk, lf, len, hi, i) ==
  [fin |-> fin, rsv |-> rsv, op |-> op, mk |-> mk, lf |-> lf, len |-> len, hi |-> hi,
   key |-> KeyOf(i),
   \* an oversize frame cannot be sent in full: only its header goes on the wire
   pay |-> <<(IF Oversize(lf, len, hi) THEN 0 ELSE len), 13 * i + 5,
             (IF op \in {0, 1} THEN 33 ELSE 0), (IF op \in {0, 1} THEN 89 ELSE 251)>>]

(* The wire encoding of the frame header (RFC 6455 section 5.2), mask key included *)
Hdr(f) ==
  <<f.fin * 128 + f.rsv * 16 + f.op>> \o
  (CASE f.lf = 7 -> <<f.mk * 128 + f.len>>
     [] f.lf = 16 -> <<f.mk * 128 + 126>> \o Byte2(f.len)
     [] OTHER -> <<f.mk * 128 + 127>> \o HiBytes(f.hi) \o Byte4(f.len)) \o
  (IF f.mk = 1 THEN f.key ELSE <<>>)

WirePay(f) == LET pb == PatBytes(f.pay)
              IN IF f.mk = 1 /\ pb # <<>> THEN [i \in 1..Len(pb) |-> Xor(pb[i], f.key[((i - 1) % 4) + 1])] ELSE pb
Wire1(f) == Hdr(f) \o WirePay(f)
RECURSIVE WireOf(_)
WireOf(s) == IF s = <<>> THEN <<>> ELSE Wire1(Head(s)) \o WireOf(Tail(s))

----------------------------------------------------------------------------
(* Header parser *)
NeedMore == [st |-> "more"]
ParseHdr(buf) ==
  IF Len(buf) < 2 THEN NeedMore
  ELSE LET b0 == buf[1]
           b1 == buf[2]
           mk == b1 \div 128
           l7 == b1 % 128
           ext == IF l7 <= 125 THEN 0 ELSE IF l7 = 126 THEN 2 ELSE 8
           hl == 2 + ext + 4 * mk
       IN IF Len(buf) < hl THEN NeedMore
          ELSE LET big == ext = 8 /\ (SubSeq(buf, 3, 6) # <<0, 0, 0, 0>> \/ buf[7] >= 128)
               IN [st |-> "ok", fin |-> b0 \div 128, rsv |-> (b0 \div 16) % 8, op |-> b0 % 16,
                   mk |-> mk, lf |-> (IF ext = 0 THEN 7 ELSE IF ext = 2 THEN 16 ELSE 64),
                   big |-> big,
                   len |-> (CASE ext = 0 -> l7
                              [] ext = 2 -> buf[3] * 256 + buf[4]
                              [] OTHER -> IF big THEN -1
                                          ELSE buf[7] * 16777216 + buf[8] * 65536 + buf[9] * 256 + buf[10]),
                   key |-> (IF mk = 1 THEN SubSeq(buf, hl - 3, hl) ELSE <<>>),
                   hl |-> hl]

(* the header view of a token: what ParseHdr must return for Hdr(f) *)
TokView(f) == [st |-> "ok", fin |-> f.fin, rsv |-> f.rsv, op |-> f.op, mk |-> f.mk, lf |-> f.lf,
               big |-> f.hi # 0, len |-> (IF f.hi # 0 THEN -1 ELSE f.len),
               key |-> (IF f.mk = 1 THEN f.key ELSE <<>>), hl |-> Len(Hdr(f))]
HdrRoundTrip(f) == ParseHdr(Hdr(f)) = TokView(f)

----------------------------------------------------------------------------
(* Reference decoder: one transition function for both the byte-level and the
   token-level decoder.  `h` is a header view, `pay` the unmasked payload as a
   sequence (of bytes, or of pattern descriptors - only \o is used on it). *)
Policies == [rsv : BOOLEAN, ctl : BOOLEAN, min : BOOLEAN]
Lenient == [rsv |-> FALSE, ctl |-> FALSE, min |-> FALSE]
PolSeq == << [rsv |-> FALSE, ctl |-> FALSE, min |-> FALSE], [rsv |-> TRUE, ctl |-> FALSE, min |-> FALSE],
             [rsv |-> FALSE, ctl |-> TRUE, min |-> FALSE], [rsv |-> TRUE, ctl |-> TRUE, min |-> FALSE],
             [rsv |-> FALSE, ctl |-> FALSE, min |-> TRUE], [rsv |-> TRUE, ctl |-> FALSE, min |-> TRUE],
             [rsv |-> FALSE, ctl |-> TRUE, min |-> TRUE], [rsv |-> TRUE, ctl |-> TRUE, min |-> TRUE] >>

InitDec == [buf |-> <<>>, open |-> 0, acc |-> <<>>, out |-> <<>>, closed |-> FALSE,
            pings |-> <<>>, cpay |-> <<>>]

IsControl(op) == op >= 8
ReservedOp(op) == op \in 3..7 \/ op >= 11
NonMinimal(h) == (h.lf = 16 /\ h.len < 126) \/ (h.lf = 64 /\ ~h.big /\ h.len < 65536)

(* decided on the header alone *)
Bad(h, open, p) ==
  \/ h.big \/ h.len > Limit                         \* above the size limit
  \/ ReservedOp(h.op)                               \* reserved opcode
  \/ (h.op = 0 /\ open = 0)                         \* continuation of nothing
  \/ (h.op \in {1, 2} /\ open # 0)                  \* new message inside a fragmented one
  \/ (p.rsv /\ h.rsv # 0)
  \/ (p.ctl /\ IsControl(h.op) /\ (h.len > 125 \/ h.fin = 0))
  \/ (p.min /\ NonMinimal(h))

Fail(d) == [d EXCEPT !.closed = TRUE, !.open = 0, !.acc = <<>>, !.buf = <<>>]

Apply(d, h, pay) ==
  CASE h.op = 8 -> [Fail(d) EXCEPT !.cpay = pay]
    [] h.op = 9 -> [d EXCEPT !.pings = Append(@, pay)]
    [] h.op = 10 -> d
    [] h.op \in {1, 2} /\ h.fin = 1 -> [d EXCEPT !.out = Append(@, [t |-> h.op, p |-> pay])]
    [] h.op \in {1, 2} /\ h.fin = 0 -> [d EXCEPT !.open = h.op, !.acc = pay]
    [] h.op = 0 /\ h.fin = 0 -> [d EXCEPT !.acc = @ \o pay]
    [] OTHER -> [d EXCEPT !.out = Append(@, [t |-> d.open, p |-> d.acc \o pay]), !.open = 0, !.acc = <<>>]

Trans(d, h, pay, p) ==
  IF d.closed THEN d ELSE IF Bad(h, d.open, p) THEN Fail(d) ELSE Apply(d, h, pay)

(* token level: fold over the frames, payloads stay symbolic *)
RECURSIVE DecTokFrom(_, _, _)
DecTokFrom(d, s, p) ==
  IF s = <<>> THEN d
  ELSE LET f == Head(s)
           pd == IF f.pay[1] = 0 THEN <<>> ELSE <<f.pay>>
       IN DecTokFrom(Trans(d, TokView(f), pd, p), Tail(s), p)
DecTok(s, p) == DecTokFrom(InitDec, s, p)

(* token level with explicit payload bytes (reference for the byte-level decoder) *)
RECURSIVE DecBytesFrom(_, _, _)
DecBytesFrom(d, s, p) ==
  IF s = <<>> THEN d
  ELSE DecBytesFrom(Trans(d, TokView(Head(s)), PatBytes(Head(s).pay), p), Tail(s), p)

(* byte level, incremental: consume as many complete frames as the buffer holds *)
RECURSIVE Run(_, _)
Run(d, p) ==
  IF d.closed THEN [d EXCEPT !.buf = <<>>]
  ELSE LET h == ParseHdr(d.buf) IN
    IF h.st = "more" THEN d
    ELSE IF Bad(h, d.open, p) THEN Fail(d)
    ELSE IF Len(d.buf) < h.hl + h.len THEN d
    ELSE LET raw == SubSeq(d.buf, h.hl + 1, h.hl + h.len)
             pay == IF h.mk = 1 /\ h.len > 0 THEN [i \in 1..h.len |-> Xor(raw[i], h.key[((i - 1) % 4) + 1])] ELSE raw
             d0 == [d EXCEPT !.buf = SubSeq(d.buf, h.hl + h.len + 1, Len(d.buf))]
         IN Run(Apply(d0, h, pay), p)
Feed(d, chunk, p) == Run([d EXCEPT !.buf = @ \o chunk], p)

Result(d) == [out |-> d.out, closed |-> d.closed, pings |-> d.pings, cpay |-> d.cpay]

----------------------------------------------------------------------------
(* Triggers of the open known findings of C31 (see known_findings.d), in protocol terms:
   K1  a continuation frame (opcode 0) that arrives while a fragmented message is open
       (the implementation refuses the final one, so no fragmented message is ever delivered);
   K3  malformed fragmentation that the implementation accepts: a new data frame (opcode 1/2)
       while a fragmented message is open, or a non-final continuation when none is open;
   K2  frames following a terminating frame in the same read are still processed
       (not a property of the frame sequence: the check forces a cut after the
       terminator, see `term` in the emitted record). *)
RECURSIVE KnownFrom(_, _, _)
KnownFrom(open, s, K) ==
  IF s = <<>> THEN FALSE
  ELSE LET f == Head(s)
           h == TokView(f)
       IN IF h.big \/ h.len > Limit \/ ReservedOp(f.op) \/ f.op = 8 THEN FALSE   \* terminates
          ELSE IF "K1" \in K /\ f.op = 0 /\ open # 0 THEN TRUE
          ELSE IF "K3" \in K /\ ((f.op \in {1, 2} /\ open # 0) \/ (f.op = 0 /\ f.fin = 0 /\ open = 0)) THEN TRUE
          ELSE IF Bad(h, open, Lenient) THEN FALSE      \* terminates
          ELSE KnownFrom((IF f.op \in {1, 2} /\ f.fin = 0 THEN f.op
                          ELSE IF f.op = 0 /\ f.fin = 1 THEN 0 ELSE open), Tail(s), K)
KnownTrigger(s, K) == KnownFrom(0, s, K)

(* index of the first frame after which the lenient reference is closed (0 = never) *)
TermIdx(s) ==
  LET I == {i \in 1..Len(s) : DecTok(SubSeq(s, 1, i), Lenient).closed}
  IN IF I = {} THEN 0 ELSE CHOOSE i \in I : \A j \in I : i <= j

----------------------------------------------------------------------------
(* Encoder reference (server side): single unmasked FIN frame, minimal length form *)
EncHdr(op, n) ==
  <<128 + op>> \o (IF n <= 125 THEN <<n>> ELSE IF n <= 65535 THEN <<126>> \o Byte2(n)
                   ELSE <<127, 0, 0, 0, 0>> \o Byte4(n))
CloseFrame(code) == <<136, 2>> \o Byte2(code)
EncPat(op, n, i) == <<n, 11 * i + 3, (IF op = 1 THEN 33 ELSE 0), (IF op = 1 THEN 89 ELSE 251)>>

NoLimit == [rsv |-> TRUE, ctl |-> TRUE, min |-> TRUE]   \* the strictest decoder must accept what we send
EncHdrOK ==
  \A op \in {1, 2}, n \in EncLens :
    LET h == ParseHdr(EncHdr(op, n))
    IN h.st = "ok" /\ h.fin = 1 /\ h.rsv = 0 /\ h.op = op /\ h.mk = 0 /\ ~h.big /\ h.len = n
       /\ ~NonMinimal(h) /\ h.hl = Len(EncHdr(op, n))
EncDecodeOK ==
  \A op \in {1, 2}, n \in {m \in EncLens : m <= 130 /\ m <= Limit} :
    LET pb == PatBytes(EncPat(op, n, 1))
        d == Feed(InitDec, EncHdr(op, n) \o pb, NoLimit)
    IN d.out = <<[t |-> op, p |-> pb]>> /\ ~d.closed /\ d.buf = <<>>
CloseOK ==
  \A c \in Codes :
    LET d == Feed(InitDec, CloseFrame(c), NoLimit)
    IN d.closed /\ d.out = <<>> /\ d.cpay = Byte2(c) /\ d.cpay[1] * 256 + d.cpay[2] = c

----------------------------------------------------------------------------
(* State machine *)
FrameAt(i) ==
  IF Fixed # <<>>
  THEN IF i > Len(Fixed) THEN {} ELSE {MkFrame(Fixed[i][1], Fixed[i][2], Fixed[i][3], Fixed[i][4], Fixed[i][5], Fixed[i][6], Fixed[i][7], i)}
  ELSE UNION {{MkFrame(fin, rsv, op, mk, L[1], L[2], hi, i) :
                 fin \in F.fins, rsv \in F.rsvs, op \in F.ops, mk \in F.masks,
                 hi \in {x \in F.his : x = 0 \/ L[1] = 64}} : L \in F.lens}

Init ==
  /\ seq = <<>> /\ phase = (IF Mode = "enc" THEN "enc" ELSE "build") /\ pos = 0 /\ dec = InitDec
  /\ pol \in (IF Mode = "dec" THEN {PolSeq[j] : j \in Pols} ELSE {Lenient})
  /\ hist = <<>> /\ wire = <<>>
  /\ fam \in 1..Len(Fams)

AddFrame(f) ==
  /\ phase = "build" /\ Len(seq) < MaxFrames
  /\ (Fixed = <<>> => ~KnownTrigger(Append(seq, f), Avoid))
  /\ seq' = Append(seq, f)
  /\ UNCHANGED <<phase, pos, dec, pol, hist, wire, fam>>

(* gen: the sequence is complete (a separate step so that simulation traces reach their depth) *)
Done ==
  /\ Mode = "gen" /\ phase = "build" /\ Len(seq) = MaxFrames
  /\ phase' = "done"
  /\ UNCHANGED <<seq, pos, dec, pol, hist, wire, fam>>
Idle == phase = "done" /\ UNCHANGED vars

Start ==
  /\ Mode = "dec" /\ phase = "build" /\ seq # <<>>
  /\ phase' = "feed" /\ wire' = WireOf(seq)
  /\ UNCHANGED <<seq, pos, dec, pol, hist, fam>>

FeedChunk(k) ==
  /\ phase = "feed"
  /\ pos + k <= Len(wire)
  /\ dec' = Feed(dec, SubSeq(wire, pos + 1, pos + k), pol)
  /\ pos' = pos + k
  /\ UNCHANGED <<seq, phase, pol, hist, wire, fam>>

(* enc mode: the server-side API *)
EClosed == hist # <<>> /\ hist[Len(hist)].a = "close"
EOpen(i) ==
  /\ phase = "enc" /\ hist = <<>>
  /\ hist' = <<[a |-> "open", key |-> KAT[i][1], o |-> [status |-> 101, accept |-> KAT[i][2]]]>>
  /\ UNCHANGED <<seq, phase, pos, dec, pol, wire, fam>>
ESend(op, n) ==
  /\ phase = "enc" /\ hist # <<>> /\ ~EClosed /\ Len(hist) < D
  /\ LET p == EncPat(op, n, Len(hist))
     IN hist' = Append(hist, [a |-> (IF op = 1 THEN "text" ELSE "bin"), p |-> p,
                              o |-> [wb |-> [h |-> EncHdr(op, n), p |-> p], closed |-> 0]])
  /\ UNCHANGED <<seq, phase, pos, dec, pol, wire, fam>>
EClose(c) ==
  /\ phase = "enc" /\ hist # <<>> /\ ~EClosed /\ Len(hist) < D
  /\ hist' = Append(hist, [a |-> "close", code |-> c,
                           o |-> [wb |-> [h |-> CloseFrame(c), p |-> <<0, 0, 0, 1>>], closed |-> 1]])
  /\ UNCHANGED <<seq, phase, pos, dec, pol, wire, fam>>

Next ==
  \/ (Mode # "enc" /\ \E f \in FrameAt(Len(seq) + 1) : AddFrame(f))
  \/ Start \/ Done \/ Idle
  \/ \E k \in 1..64 : FeedChunk(k)
  \/ (Mode = "enc" /\ \E i \in 1..Len(KAT) : EOpen(i))
  \/ (Mode = "enc" /\ \E op \in {1, 2}, n \in EncLens : ESend(op, n))
  \/ (Mode = "enc" /\ \E c \in Codes : EClose(c))

Spec == Init /\ [][Next]_vars

----------------------------------------------------------------------------
(* Properties of the reference itself *)
TypeOK ==
  /\ phase \in {"build", "feed", "enc", "done"}
  /\ pos \in 0..4096
  /\ dec.open \in {0, 1, 2}
  /\ (dec.closed => dec.open = 0 /\ dec.acc = <<>> /\ dec.buf = <<>>)

HdrOK == \A i \in 1..Len(seq) : HdrRoundTrip(seq[i])

(* whatever the segmentation of the bytes consumed so far, the decoder is in the state it
   reaches when the same prefix arrives in one piece *)
SegmentationIndependent ==
  phase = "feed" => dec = Feed(InitDec, SubSeq(wire, 1, pos), pol)

(* at the end of the stream the byte-level decoder agrees with the frame-level reference *)
MatchesTokenDecoder ==
  (phase = "feed" /\ pos = Len(wire)) => Result(dec) = Result(DecBytesFrom(InitDec, seq, pol))

IsPrefix(a, b) == Len(a) <= Len(b) /\ SubSeq(b, 1, Len(a)) = a
(* only complete messages of the reference are ever delivered (never a partial one, never
   a piece of a message that is later refused) *)
NoPartialDelivery ==
  phase = "feed" => IsPrefix(dec.out, DecBytesFrom(InitDec, seq, pol).out)

NothingAfterClose ==
  [][dec.closed => (dec'.closed /\ dec'.out = dec.out /\ dec'.pings = dec.pings)]_vars

----------------------------------------------------------------------------
(* Generation *)
FrJson(f) == [h |-> Hdr(f), k |-> (IF f.mk = 1 THEN f.key ELSE <<>>), p |-> f.pay,
              d |-> <<f.fin, f.rsv, f.op, f.mk, f.lf, f.len, f.hi>>]
ExpJson(d) == [msgs |-> d.out, closed |-> (IF d.closed THEN 1 ELSE 0), pings |-> d.pings]
RECURSIVE DedupFrom(_, _)
DedupFrom(s, acc) ==
  IF s = <<>> THEN acc
  ELSE DedupFrom(Tail(s), (IF \E i \in 1..Len(acc) : acc[i] = Head(s) THEN acc ELSE Append(acc, Head(s))))
GenRec == [fr |-> [i \in 1..Len(seq) |-> FrJson(seq[i])],
           exp |-> DedupFrom([j \in 1..8 |-> ExpJson(DecTok(seq, PolSeq[j]))], <<>>),
           term |-> TermIdx(seq), fam |-> fam,
           known |-> (IF KnownTrigger(seq, {"K1", "K3"}) THEN 1 ELSE 0)]

GenConstraint == Len(hist) <= D
Emit ==
  /\ (phase = "done" => PrintT(ToJson(GenRec)))
  /\ ((Mode = "enc" /\ hist # <<>> /\ (EClosed \/ Len(hist) = D)) => PrintT(ToJson(hist)))
=============================================================================
