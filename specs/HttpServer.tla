----------------------------- MODULE HttpServer -----------------------------
(* Server side of property C27: each request handed to a callback gets at most
   one response, the handler runs exactly once per complete request, and the
   server never serves more connections than evhttp_set_max_connections allows.

   Raw clients c \in Clients open connections, send (pipelined) requests, close.
   Per connection libevent reads ONE request, calls the handler, stops reading
   until the reply has been written (evhttp_handle_request / evhttp_send_done),
   then continues with the next pipelined request.  The handler replies at once
   or later (the application keeps the request and replies in a later step).

     Open(c)     accept: beyond the limit -> 503 + close, never handled ("over")
     Send(c, n)  the client sends octets completing n more requests
     Handle(c)   general callback invoked for the next complete request
     Reply(c)    the application answers the request it holds (evhttp_send_reply,
                 or evhttp_send_reply_start + chunk + end)
     Written(c)  the reply reached the socket: on-complete callback, reading resumes
     Drop(c)     the reply could not be written (peer gone): connection freed
     PeerClose(c) the client resets its connection; an idle-reading server frees
                 the connection at once, a server holding an unanswered request
                 only notices when it replies

   "model" mode: TLC explores every interleaving.  "trace" mode: the events logged
   by the driver (script steps open / send / pclose / reply-step, library events
   h / r / oc, final per-client status lists) must be a behaviour; the driver lets
   the library run to quiescence after every script step, so at a script step
   nothing the library could still do for an open client may be outstanding
   (Eager) - that is the "exactly once", not only "at most once".
*)
EXTENDS Integers, Sequences, FiniteSets, TLC, Json, IOUtils

CONSTANTS Mode, Clients, MaxReq, Limit     \* Limit: model-mode evhttp_set_max_connections (0 = none)

Trace == IF Mode = "trace" THEN ndJsonDeserialize(IOEnv.TRACE) ELSE <<>>

VARIABLES conn,    \* c -> "new" | "live" | "over" | "gone"
          peer,    \* c -> "none" | "open" | "closed"
          inq,     \* c -> complete requests received and not yet handed to the handler
          sent,    \* c -> complete requests the client has sent
          nh,      \* c -> handler invocations
          nr,      \* c -> replies issued by the application
          nw,      \* c -> replies that reached the socket (on-complete)
          busy,    \* c -> "no" | "held" (handler ran, no reply yet) | "writing" (reply issued)
          seen,    \* c -> status codes the client must have received (replies issued while it was open)
          limit, l
vars == <<conn, peer, inq, sent, nh, nr, nw, busy, seen, limit, l>>

C == IF Mode = "trace" THEN 0..5 ELSE Clients
Zero == [c \in C |-> 0]
Fresh == /\ conn = [c \in C |-> "new"] /\ peer = [c \in C |-> "none"] /\ inq = Zero /\ sent = Zero /\ nh = Zero /\ nr = Zero
         /\ nw = Zero /\ busy = [c \in C |-> "no"] /\ seen = [c \in C |-> <<>>]
Init == Fresh /\ l = 1 /\ limit = (IF Mode = "model" THEN Limit ELSE 0)

Ev == Trace[l]
IsEv(name) == Mode = "trace" /\ l <= Len(Trace) /\ Ev[1] = name
Step == l' = (IF Mode = "trace" THEN l + 1 ELSE l)
Live == Cardinality({c \in C : conn[c] = "live"})

(* nothing the library could still do on its own for a client that is still there *)
CanHandle(c) == conn[c] = "live" /\ busy[c] = "no" /\ inq[c] > 0
Eager == \A c \in C : peer[c] = "open" => ~CanHandle(c) /\ busy[c] # "writing"
Script == Mode = "trace" => Eager

Open(c) == /\ conn[c] = "new" /\ Script
           /\ (Mode = "trace" => IsEv("open") /\ Ev[2] = c)
           /\ conn' = [conn EXCEPT ![c] = IF limit > 0 /\ Live >= limit THEN "over" ELSE "live"]
           /\ peer' = [peer EXCEPT ![c] = "open"]
           /\ seen' = [seen EXCEPT ![c] = IF limit > 0 /\ Live >= limit THEN <<503>> ELSE <<>>]
           /\ Step /\ UNCHANGED <<inq, sent, nh, nr, nw, busy, limit>>
Send(c, n) == /\ peer[c] = "open" /\ Script /\ n >= 0
              /\ (Mode = "trace" => IsEv("send") /\ Ev[2] = c /\ Ev[3] = n)
              /\ (Mode = "model" => n \in 1..2 /\ sent[c] + n <= MaxReq)
              /\ sent' = [sent EXCEPT ![c] = @ + n]
              /\ inq' = [inq EXCEPT ![c] = IF conn[c] = "live" THEN @ + n ELSE @]
              /\ Step /\ UNCHANGED <<conn, peer, nh, nr, nw, busy, seen, limit>>
PeerClose(c) == /\ peer[c] = "open" /\ Script
                /\ (Mode = "trace" => IsEv("pclose") /\ Ev[2] = c)
                /\ peer' = [peer EXCEPT ![c] = "closed"]
                \* reading (not holding a request): the close is seen and the connection freed; otherwise it stays
                /\ conn' = [conn EXCEPT ![c] = IF conn[c] = "live" /\ busy[c] = "no" THEN "gone" ELSE IF conn[c] = "over" THEN "gone" ELSE @]
                /\ Step /\ UNCHANGED <<inq, sent, nh, nr, nw, busy, seen, limit>>
Handle(c) == /\ CanHandle(c)
             /\ (Mode = "trace" => IsEv("h") /\ Ev[2] = c /\ Ev[3] = nh[c])      \* in request order
             /\ nh' = [nh EXCEPT ![c] = @ + 1] /\ inq' = [inq EXCEPT ![c] = @ - 1] /\ busy' = [busy EXCEPT ![c] = "held"]
             /\ Step /\ UNCHANGED <<conn, peer, sent, nr, nw, seen, limit>>
(* the application answers the request it holds; the connection may already be gone (late reply) *)
Reply(c) == /\ busy[c] = "held"
            /\ (Mode = "trace" => IsEv("r") /\ Ev[2] = c /\ Ev[3] = nr[c])
            /\ nr' = [nr EXCEPT ![c] = @ + 1] /\ busy' = [busy EXCEPT ![c] = "writing"]
            /\ seen' = [seen EXCEPT ![c] = IF peer[c] = "open" /\ conn[c] = "live" THEN Append(@, 210 + nr[c]) ELSE @]
            /\ Step /\ UNCHANGED <<conn, peer, inq, sent, nh, nw, limit>>
Written(c) == /\ busy[c] = "writing" /\ conn[c] = "live"
              /\ (Mode = "trace" => IsEv("oc") /\ Ev[2] = c /\ Ev[3] = nw[c])
              /\ nw' = [nw EXCEPT ![c] = @ + 1] /\ busy' = [busy EXCEPT ![c] = "no"]
              /\ Step /\ UNCHANGED <<conn, peer, inq, sent, nh, nr, seen, limit>>
(* only a reply to a client that is gone may fail to be written (silent) *)
Drop(c) == /\ busy[c] = "writing" /\ peer[c] = "closed" /\ conn[c] = "live"
           /\ conn' = [conn EXCEPT ![c] = "gone"] /\ busy' = [busy EXCEPT ![c] = "no"]
           /\ UNCHANGED <<peer, inq, sent, nh, nr, nw, seen, limit, l>>
(* a freed connection whose request the application still holds: the late reply goes nowhere *)
LateReplyDone(c) == /\ busy[c] = "writing" /\ conn[c] = "gone" /\ busy' = [busy EXCEPT ![c] = "no"]
                    /\ UNCHANGED <<conn, peer, inq, sent, nh, nr, nw, seen, limit, l>>

(* trace bookkeeping *)
ReplyStep == IsEv("reply") /\ Script /\ Step /\ UNCHANGED <<conn, peer, inq, sent, nh, nr, nw, busy, seen, limit>>
Final == /\ IsEv("st") /\ Eager
         /\ LET c == Ev[2] IN
            /\ (peer[c] = "open" => Ev[3] = seen[c] /\ (Ev[4] = 1) = (conn[c] = "over"))
            \* a client that closed keeps what it had read before: a prefix
            /\ (peer[c] = "closed" => Len(Ev[3]) <= Len(seen[c]) /\ Ev[3] = SubSeq(seen[c], 1, Len(Ev[3])))
         /\ Step /\ UNCHANGED <<conn, peer, inq, sent, nh, nr, nw, busy, seen, limit>>
Reset == /\ IsEv("reset") /\ Step /\ limit' = Ev[2]
         /\ conn' = [c \in C |-> "new"] /\ peer' = [c \in C |-> "none"] /\ inq' = Zero /\ sent' = Zero /\ nh' = Zero /\ nr' = Zero
         /\ nw' = Zero /\ busy' = [c \in C |-> "no"] /\ seen' = [c \in C |-> <<>>]

Next == \/ \E c \in C : Open(c) \/ PeerClose(c) \/ Handle(c) \/ Reply(c) \/ Written(c) \/ Drop(c) \/ LateReplyDone(c)
        \/ \E c \in C, n \in 0..3 : Send(c, n)
        \/ ReplyStep \/ Final \/ Reset

----------------------------------------------------------------------------
HandlerExactlyOnce == \A c \in C : /\ nh[c] <= sent[c] /\ nh[c] + inq[c] <= sent[c]
                                   /\ (conn[c] = "live" /\ peer[c] = "open" => nh[c] + inq[c] = sent[c])   \* nothing lost
AtMostOneResponse == \A c \in C : /\ nr[c] <= nh[c] /\ nw[c] <= nr[c] /\ nh[c] - nr[c] <= 1 /\ Len(seen[c]) <= nr[c] + 1
                                  /\ (busy[c] = "no" => nr[c] = nh[c]) /\ (busy[c] = "held" => nr[c] = nh[c] - 1)
OverLimitNeverHandled == /\ \A c \in C : conn[c] = "over" => nh[c] = 0 /\ inq[c] = 0 /\ seen[c] = <<503>>
                         /\ (limit > 0 => Live <= limit)
Progress == (Mode = "trace" /\ l > TLCGet(1)) => TLCSet(1, l) /\ PrintT(ToString(l))
ASSUME TLCSet(1, 0)
=============================================================================
