INIT Init
NEXT Next
INVARIANT AtEnd
CHECK_DEADLOCK FALSE
