--------------------------- MODULE EventCore ---------------------------
(* The libevent reactor core (event.c) as a state machine.

   State is one record `st` (so that API operations compose: a callback script
   applies the same operation as an outer API call).  Public API calls are
   atomic actions enabled when the loop is not running (pc = "idle") or run as
   the body of a callback.  event_base_loop is a sequence of internal actions,
   one per phase of the C loop:

     ApiLoop -> IterTop -> Prepare* -> Wait -> Check* -> TimeoutProcess
             -> ProcessStart -> RunCallback* -> IterEnd -> (IterTop | LoopReturn)

   `hist` records every outer API call with the observation the specification
   predicts after it (binding G: the driver replays hist against the real
   library and compares every observation).

   Entities: user events 1..NEv, internal signal event SIGINT, internal
   common-timeout events CT(q), once-events (loopexit / user once callbacks).
   Flags follow event.c: INS (EVLIST_INSERTED), TMO (EVLIST_TIMEOUT),
   ACT (EVLIST_ACTIVE), LATER (EVLIST_ACTIVE_LATER), FIN (EVLIST_FINALIZING).
*)
EXTENDS Integers, Sequences, FiniteSets, TLC, Json

CONSTANTS
  Pool,        \* subset of 1..5: which user events exist (see Kind/Persist)
  NPrio,       \* number of priority queues
  Durs,        \* durations usable by add / loopexit / adv (ticks)
  Acts,        \* set of API action names the generator may use
  D,           \* bound on Len(hist) for generation
  MaxIter,     \* max loop iterations per event_base_loop call (forced break after)
  MaxCb,       \* max_dispatch_callbacks (0 = unlimited)
  LimitPrio,   \* limit_callbacks_after_prio
  ScriptOps,   \* set of names of ops usable as callback scripts
  PreAlloc,    \* TRUE: the pool events exist (event_new) in the initial state
  NX,          \* number of extra plain one-shot timer events (ids 11..10+NX), for heap-shape coverage
  ND           \* number of deferred callbacks (struct event_callback, ids 21..20+ND)

VARIABLES st, hist

(* max_dispatch_interval in ticks (-1 = none): the time limit of one pass over a limited queue.  Selected
   through Acts ("intv0".."intv3") so that configurations which do not use it need no further constant. *)
MaxIntv == IF "intv0" \in Acts THEN 0 ELSE IF "intv1" \in Acts THEN 1 ELSE IF "intv2" \in Acts THEN 2
           ELSE IF "intv3" \in Acts THEN 3 ELSE -1

vars == <<st, hist>>

----------------------------------------------------------------------------
(* Static description of the pool *)
NEv == 5
SIGINT == 6
CT(q) == 6 + q            \* q in 1..2  -> 7, 8
ONCE(k) == 8 + k          \* k in 1..2  -> 9, 10
NW == 3                   \* watcher slots 1..NW
Ent == (1..(10 + NX)) \cup (21..(20 + ND))
DefIds == 21..(20 + ND)
DQ == 32                  \* MAX_DEFERREDS_QUEUED
Internal == {6, 7, 8}
Onces == {9, 10}
CQ == 1..2

Kind(x) == CASE x \in {1, 2} -> "io"
             [] x \in {3, 4} -> "timer"
             [] x = 5 -> "sig"
             [] x = SIGINT -> "io"
             [] x \in {7, 8} -> "timer"
             [] x > 20 -> "defer"
             [] x > 10 -> "timer"
             [] OTHER -> "once"
Persist(x) == x \in {1, 4, 5, 6}
Closure(x) == IF Kind(x) = "sig" THEN "signal" ELSE IF Persist(x) THEN "persist" ELSE "event"
(* ev_events of the event as a mask: TIMEOUT 1 READ 2 WRITE 4 SIGNAL 8 PERSIST 16 *)
EvMask(x) == (IF Kind(x) = "io" THEN 2 ELSE 0) + (IF Kind(x) = "sig" THEN 8 ELSE 0)

Max(a, b) == IF a > b THEN a ELSE b
Min(a, b) == IF a < b THEN a ELSE b
Remove(s, x) == SelectSeq(s, LAMBDA y: y # x)
RECURSIVE SumSeq(_)
SumSeq(s) == IF s = <<>> THEN 0 ELSE Head(s) + SumSeq(Tail(s))
ResMask(r) == (IF "T" \in r THEN 1 ELSE 0) + (IF "R" \in r THEN 2 ELSE 0) + (IF "W" \in r THEN 4 ELSE 0)
              + (IF "S" \in r THEN 8 ELSE 0) + (IF "F" \in r THEN 64 ELSE 0)
MaskRes(m) == (IF (m % 2) = 1 THEN {"T"} ELSE {}) \cup (IF ((m \div 2) % 2) = 1 THEN {"R"} ELSE {})
              \cup (IF ((m \div 4) % 2) = 1 THEN {"W"} ELSE {}) \cup (IF ((m \div 8) % 2) = 1 THEN {"S"} ELSE {})

INF == -1        \* infinite timeout
NoOp == [a |-> "none"]

InitEv(x) == [alloc |-> x \in Internal \/ x > 20, fl |-> {}, res |-> {}, pri |-> (IF x \in Internal THEN 0 ELSE NPrio \div 2),
              dl |-> 0, cq |-> 0, iv |-> 0, ivq |-> 0, nc |-> 0, g |-> <<>>, clo |-> "std", user |-> FALSE]

InitSt ==
  [ now |-> 0, ev |-> [x \in Ent |-> [InitEv(x) EXCEPT !.alloc = @ \/ (PreAlloc /\ x \in Pool)]],
    aq |-> [p \in 0..(NPrio - 1) |-> <<>>], lq |-> <<>>,
    ctq |-> [q \in CQ |-> <<>>], ctdur |-> [q \in CQ |-> -1],
    cnt |-> 0, cntmax |-> 0, actmax |-> 0,
    brk |-> FALSE, term |-> FALSE, cont |-> FALSE, runprio |-> -1,
    ready |-> [x \in 1..2 |-> FALSE], sigpend |-> 0, sigadded |-> FALSE,
    script |-> [x \in Ent |-> NoOp],
    watch |-> <<>>,                 \* sequence of [id, kind("prep"|"check"), act(script name)]
    \* loop-local
    pc |-> "idle", lflags |-> 0, pol |-> "exact", iters |-> 0, tmo |-> 0, n |-> 0, cnt1 |-> 0,
    qi |-> 0, blocked |-> FALSE, forced |-> FALSE, cblog |-> <<>>, ret |-> 0, gctr |-> 0,
    sigleft |-> 0, cur |-> 0, done |-> FALSE, wi |-> 0, wq |-> <<>>,
    ndef |-> 0,        \* n_deferreds_queued
    tc |-> -1,         \* tv_cache: the time the loop cached after its last wait (-1 = no cached time)
    endt |-> -1,       \* end time of the current event_process_active pass (max_dispatch_interval)
    fuzz |-> FALSE,
    amb |-> FALSE ]    \* a harness-forced break cut a tie group: what ran depends on the unspecified tie order   \* the maxima depend on the (unspecified) order of a tie that occurred

----------------------------------------------------------------------------
(* Queue primitives: the event_queue_insert_* / remove_* functions with their
   event_count bookkeeping (internal events are not counted in event_count, but
   are counted in event_count_active). *)
NAct(S) == SumSeq([p \in 1..NPrio |-> Len(S.aq[p - 1])]) + Len(S.lq)
Inc(S, x) == IF x \in Internal THEN S ELSE [S EXCEPT !.cnt = @ + 1, !.cntmax = Max(@, S.cnt + 1)]
Dec(S, x) == IF x \in Internal THEN S ELSE [S EXCEPT !.cnt = @ - 1]

InsInserted(S, x) == Inc([S EXCEPT !.ev[x].fl = @ \cup {"INS"}, !.sigadded = @ \/ (x = 5)], x)
RemInserted(S, x) == Dec([S EXCEPT !.ev[x].fl = @ \ {"INS"}], x)
InsActive(S, x) ==
  LET S1 == Inc([S EXCEPT !.ev[x].fl = @ \cup {"ACT"}, !.aq[S.ev[x].pri] = Append(@, x)], x)
  IN [S1 EXCEPT !.actmax = Max(@, NAct(S1))]
RemActive(S, x) == Dec([S EXCEPT !.ev[x].fl = @ \ {"ACT"}, !.aq[S.ev[x].pri] = Remove(@, x)], x)
InsLater(S, x) ==
  LET S1 == Inc([S EXCEPT !.ev[x].fl = @ \cup {"LATER"}, !.lq = Append(@, x)], x)
  IN [S1 EXCEPT !.actmax = Max(@, NAct(S1))]
RemLater(S, x) == Dec([S EXCEPT !.ev[x].fl = @ \ {"LATER"}, !.lq = Remove(@, x)], x)

(* insert_common_timeout_inorder: after the last element whose deadline is <= dl *)
RECURSIVE InsOrdered(_, _, _)
InsOrdered(S, q, x) ==
  LET s == S.ctq[q]
      k == IF \E i \in 1..Len(s) : S.ev[s[i]].dl <= S.ev[x].dl
           THEN CHOOSE i \in 1..Len(s) : S.ev[s[i]].dl <= S.ev[x].dl /\ \A j \in (i + 1)..Len(s) : S.ev[s[j]].dl > S.ev[x].dl
           ELSE 0
  IN SubSeq(s, 1, k) \o <<x>> \o SubSeq(s, k + 1, Len(s))
InsTimeout(S, x) ==
  LET S1 == Inc([S EXCEPT !.ev[x].fl = @ \cup {"TMO"}], x)
  IN IF S1.ev[x].cq # 0 THEN [S1 EXCEPT !.ctq[S1.ev[x].cq] = InsOrdered(S1, S1.ev[x].cq, x)] ELSE S1
RemTimeout(S, x) ==
  LET S1 == Dec([S EXCEPT !.ev[x].fl = @ \ {"TMO"}], x)
  IN IF S.ev[x].cq # 0 THEN [S1 EXCEPT !.ctq[S.ev[x].cq] = Remove(@, x)] ELSE S1

Heap(S) == {x \in Ent : "TMO" \in S.ev[x].fl /\ S.ev[x].cq = 0}
HeapTop(S) == CHOOSE x \in Heap(S) : \A y \in Heap(S) : S.ev[x].dl < S.ev[y].dl \/ (S.ev[x].dl = S.ev[y].dl /\ x <= y)

----------------------------------------------------------------------------
(* event_del_nolock_ (non-blocking part) *)
DelCore(S, x) ==
  IF "FIN" \in S.ev[x].fl THEN S ELSE
  LET S0 == IF Kind(x) = "sig" /\ S.cur = x /\ S.sigleft > 0 THEN [S EXCEPT !.sigleft = 0] ELSE S
      S1 == IF "TMO" \in S0.ev[x].fl THEN RemTimeout(S0, x) ELSE S0
      S2 == IF "ACT" \in S1.ev[x].fl THEN RemActive(S1, x)
            ELSE IF "LATER" \in S1.ev[x].fl THEN RemLater(S1, x) ELSE S1
      S3 == IF "INS" \in S2.ev[x].fl THEN RemInserted(S2, x) ELSE S2
  IN S3

(* the timeout part of event_add_nolock_, with the deadline already computed *)
SetTimeoutNoCt(S, x, dl, cq) ==
  LET S0 == IF "TMO" \in S.ev[x].fl THEN RemTimeout(S, x) ELSE S
      S1 == IF "ACT" \in S0.ev[x].fl /\ "T" \in S0.ev[x].res THEN RemActive(S0, x) ELSE S0
  IN InsTimeout([S1 EXCEPT !.ev[x].dl = dl, !.ev[x].cq = cq], x)
SetTimeout(S, x, dl, cq) ==
  LET S2 == SetTimeoutNoCt(S, x, dl, cq)
  IN IF cq # 0 /\ Head(S2.ctq[cq]) = x
     THEN SetTimeoutNoCt(S2, CT(cq), dl, 0)      \* common_timeout_schedule
     ELSE S2

(* gettime(): inside the loop, between the return of the wait and the next wait, the library answers
   with the time it cached (callbacks that take long do not move it) *)
Now(S) == IF S.tc >= 0 THEN S.tc ELSE S.now

InsIfNeeded(S, x) ==
  IF Kind(x) \in {"io", "sig"} /\ S.ev[x].fl \cap {"INS", "ACT", "LATER"} = {}
  THEN InsInserted(S, x) ELSE S

(* event_add(ev, tv): t = -1 means tv == NULL; q # 0 selects common timeout q *)
AddOp(S, x, t, q) ==
  IF "FIN" \in S.ev[x].fl THEN [s |-> S, r |-> -1]
  ELSE LET S1 == InsIfNeeded(S, x)
           d == IF q # 0 THEN S.ctdur[q] ELSE t
           S2 == IF t = -1 /\ q = 0 THEN S1
                 ELSE LET S1a == IF Closure(x) = "persist" THEN [S1 EXCEPT !.ev[x].iv = d, !.ev[x].ivq = q] ELSE S1
                      IN SetTimeout(S1a, x, Now(S) + d, q)
       IN [s |-> S2, r |-> 0]

(* event_active_nolock_ *)
ActiveCore(S, x, r, n, gtag) ==
  IF "FIN" \in S.ev[x].fl THEN S
  ELSE IF "ACT" \in S.ev[x].fl THEN [S EXCEPT !.ev[x].res = @ \cup r]
  ELSE LET S0 == IF "LATER" \in S.ev[x].fl THEN [S EXCEPT !.ev[x].res = @ \cup r] ELSE [S EXCEPT !.ev[x].res = r]
           S1 == IF S0.ev[x].pri < S0.runprio THEN [S0 EXCEPT !.cont = TRUE] ELSE S0
           S2 == IF Kind(x) = "sig" THEN [S1 EXCEPT !.ev[x].nc = n] ELSE S1
           S3 == IF "LATER" \in S2.ev[x].fl THEN RemLater(S2, x) ELSE S2
       IN InsActive([S3 EXCEPT !.ev[x].g = gtag], x)

(* event_active_later_nolock_ *)
LaterCore(S, x, r) ==
  IF S.ev[x].fl \cap {"ACT", "LATER"} # {} THEN [S EXCEPT !.ev[x].res = @ \cup r]
  ELSE InsLater([S EXCEPT !.ev[x].res = r, !.ev[x].g = <<>>], x)

(* one step of timeout_process / common_timeout_callback for a due event *)
FireTimeout(S, x, gtag) ==
  LET was == S.ev[x].fl \cap {"ACT", "LATER"} # {}
      S1 == IF was THEN RemTimeout(S, x) ELSE DelCore(S, x)
  IN ActiveCore(S1, x, {"T"}, 1, IF was THEN <<>> ELSE gtag)

RECURSIVE TimeoutProcessRec(_)
TimeoutProcessRec(S) ==
  IF Heap(S) = {} THEN S
  ELSE LET x == HeapTop(S) IN
       IF S.ev[x].dl > Now(S) THEN S
       ELSE LET tie == \E y \in Heap(S) \ {x} : S.ev[y].dl = S.ev[x].dl
            IN TimeoutProcessRec(FireTimeout([S EXCEPT !.fuzz = @ \/ tie], x, <<S.gctr, S.ev[x].dl + 1>>))

RECURSIVE CommonTimeoutCb(_, _)
CommonTimeoutCb(S, q) ==
  IF S.ctq[q] = <<>> THEN S
  ELSE LET x == Head(S.ctq[q]) IN
       IF S.ev[x].dl > Now(S) THEN SetTimeoutNoCt(S, CT(q), S.ev[x].dl, 0)
       ELSE CommonTimeoutCb(FireTimeout(S, x, <<>>), q)

(* event_finalize / event_free_finalize *)
FinalizeOp(S, x, free) ==
  LET S1 == DelCore(S, x)
      S2 == [S1 EXCEPT !.ev[x].clo = IF free THEN "finfree" ELSE "fin"]
      S3 == ActiveCore(S2, x, {"F"}, 1, <<>>)
  IN [S3 EXCEPT !.ev[x].fl = @ \cup {"FIN"}]

(* event_deferred_cb_schedule_: beyond the quota of the current iteration the callback is
   queued for the next iteration instead *)
DeferOne(S, x) ==
  \* event_callback_activate_nolock_: like an event, a callback more urgent than the running one makes the
  \* loop start over from the highest priority (event_continue)
  LET Urgent(T) == IF T.ev[x].pri < T.runprio THEN [T EXCEPT !.cont = TRUE] ELSE T IN
  IF S.ndef > DQ
  THEN (IF S.ev[x].fl \cap {"ACT", "LATER"} = {} THEN InsLater(S, x) ELSE S)
  ELSE IF "ACT" \in S.ev[x].fl THEN S
  ELSE IF "LATER" \in S.ev[x].fl THEN Urgent(InsActive(RemLater(S, x), x))
  ELSE [Urgent(InsActive(S, x)) EXCEPT !.ndef = @ + 1]
RECURSIVE DeferMany(_, _, _)
DeferMany(S, k, n) == IF k > n THEN S ELSE DeferMany(DeferOne(S, 20 + k), k + 1, n)

OnceSlot(S) == IF ~S.ev[ONCE(1)].alloc THEN ONCE(1) ELSE IF ~S.ev[ONCE(2)].alloc THEN ONCE(2) ELSE 0
(* event_base_once(base, -1, EV_TIMEOUT, cb, tv): user = TRUE for a user callback, FALSE for loopexit *)
OnceOp(S, t, user) ==
  LET o == OnceSlot(S)
      S1 == [S EXCEPT !.ev[o] = [InitEv(o) EXCEPT !.alloc = TRUE, !.user = user]]
  IN IF t <= 0 THEN ActiveCore(S1, o, {"T"}, 1, <<>>)
     ELSE SetTimeout(S1, o, Now(S) + t, 0)

----------------------------------------------------------------------------
(* The API operations as pure functions S -> [s, r].  `op` is a record with
   field a (name) and integer fields e, t, q, r, n, p as needed. *)
ApplyOp(S, op) ==
  CASE op.a = "none" -> [s |-> S, r |-> 0]
    [] op.a = "new" -> [s |-> [S EXCEPT !.ev[op.e] = [InitEv(op.e) EXCEPT !.alloc = TRUE]], r |-> 0]
    [] op.a = "free" -> [s |-> [DelCore(S, op.e) EXCEPT !.ev[op.e].alloc = FALSE, !.script[op.e] = NoOp], r |-> 0]
    [] op.a = "add" -> AddOp(S, op.e, op.t, 0)
    [] op.a = "addc" -> AddOp(S, op.e, 0, op.q)
    [] op.a = "del" -> [s |-> DelCore(S, op.e), r |-> 0]
    [] op.a = "rmt" -> [s |-> IF "TMO" \in S.ev[op.e].fl
                              THEN [RemTimeout(S, op.e) EXCEPT !.ev[op.e].iv = 0, !.ev[op.e].ivq = 0] ELSE S, r |-> 0]
    [] op.a = "act" -> [s |-> ActiveCore(S, op.e, MaskRes(op.r), op.n, <<>>), r |-> 0]
    [] op.a = "later" -> [s |-> LaterCore(S, op.e, MaskRes(op.r)), r |-> 0]
    [] op.a = "prio" -> IF "ACT" \in S.ev[op.e].fl \/ op.p < 0 \/ op.p >= NPrio
                        THEN [s |-> S, r |-> -1]
                        ELSE [s |-> [S EXCEPT !.ev[op.e].pri = op.p], r |-> 0]
    [] op.a = "initc" -> [s |-> [S EXCEPT !.ctdur[op.q] = op.t], r |-> 0]
    [] op.a = "fin" -> [s |-> FinalizeOp(S, op.e, op.n = 1), r |-> 0]
    [] op.a = "exit" -> [s |-> OnceOp(S, op.t, FALSE), r |-> 0]
    [] op.a = "once" -> [s |-> OnceOp(S, op.t, TRUE), r |-> 0]
    [] op.a = "defer" -> [s |-> DeferMany(S, 1, op.n), r |-> 0]
    [] op.a = "break" -> [s |-> [S EXCEPT !.brk = TRUE], r |-> 0]
    [] op.a = "cont" -> [s |-> [S EXCEPT !.cont = TRUE], r |-> 0]
    [] op.a = "maxclr" -> [s |-> [S EXCEPT !.actmax = IF op.n % 2 = 1 THEN 0 ELSE @,
                                              !.cntmax = IF op.n >= 4 THEN 0 ELSE @,
                                              !.fuzz = IF op.n = 5 THEN FALSE ELSE @], r |-> 0]
    [] op.a = "wnew" -> [s |-> [S EXCEPT !.watch = Append(@, [id |-> op.e, k |-> op.k, s |-> op.s, x |-> op.x])], r |-> 0]
    [] op.a = "wfree" -> [s |-> [S EXCEPT !.watch = SelectSeq(@, LAMBDA w: w.id # op.e)], r |-> 0]
    \* a callback that takes t ticks (script op only); event_base_update_cache_time()
    [] op.a = "adv" -> [s |-> [S EXCEPT !.now = @ + op.t], r |-> 0]
    [] op.a = "upd" -> [s |-> IF S.pc = "idle" THEN S ELSE [S EXCEPT !.tc = S.now], r |-> 0]
    [] OTHER -> [s |-> S, r |-> -99]

(* Which operations are legal (defined behaviour) in state S.  inCb = the event
   whose callback is executing (0 outside callbacks). *)
Alloc(S, x) == S.ev[x].alloc
UserEv == Pool
WatchIds(S) == {S.watch[i].id : i \in 1..Len(S.watch)}
OpLegal(S, op, inCb) ==
  CASE op.a = "none" -> TRUE
    [] op.a = "new" -> ~Alloc(S, op.e)
    [] op.a = "free" -> Alloc(S, op.e) /\ ("FIN" \in S.ev[op.e].fl => S.ev[op.e].fl \cap {"ACT", "LATER"} = {})
                        /\ (inCb = op.e => Closure(op.e) # "signal")
    [] op.a \in {"add", "del", "rmt", "prio"} -> Alloc(S, op.e)
    \* Named exclusion: event_active() on a signal event from inside that event's own callback.  While the
    \* ncalls loop of event_signal_closure runs, the loop counter is written back into ev_ncalls after every
    \* invocation, so the call count of such a re-activation is clobbered (observed: the re-activated event is
    \* popped with 0 calls).  The documented model says nothing about this use; it is not generated.
    [] op.a = "act" -> Alloc(S, op.e) /\ ~(inCb = op.e /\ Kind(op.e) = "sig")
    \* event_active_later_ is an internal entry point without a FINALIZING guard
    [] op.a = "later" -> Alloc(S, op.e) /\ "FIN" \notin S.ev[op.e].fl
    [] op.a = "addc" -> Alloc(S, op.e) /\ S.ctdur[op.q] >= 0
    [] op.a = "initc" -> S.ctdur[op.q] < 0 /\ (op.q = 2 => S.ctdur[1] >= 0) /\ (\A q2 \in CQ : S.ctdur[q2] # op.t)
    [] op.a = "fin" -> Alloc(S, op.e) /\ "FIN" \notin S.ev[op.e].fl
    [] op.a \in {"exit", "once"} -> OnceSlot(S) # 0
    [] op.a = "wnew" -> op.e \notin WatchIds(S)
    [] op.a = "wfree" -> op.e \in WatchIds(S)
    [] OTHER -> TRUE

----------------------------------------------------------------------------
(* Observation after an outer API call: everything the public API lets us see. *)
PendMask(S, x) ==
  IF ~S.ev[x].alloc THEN -1
  ELSE ResMask((IF "INS" \in S.ev[x].fl THEN MaskRes(EvMask(x)) ELSE {})
               \cup (IF S.ev[x].fl \cap {"ACT", "LATER"} # {} THEN S.ev[x].res \ {"F"} ELSE {})
               \cup (IF "TMO" \in S.ev[x].fl THEN {"T"} ELSE {}))
UId(i) == IF i <= NEv THEN i ELSE i + 5      \* observation slot -> event id
Obs(S, r) ==
  [ r |-> r,
    p |-> [i \in 1..(NEv + NX) |-> IF UId(i) \in Pool THEN PendMask(S, UId(i)) ELSE -1],
    d |-> [i \in 1..(NEv + NX) |-> IF UId(i) \in Pool /\ S.ev[UId(i)].alloc /\ "TMO" \in S.ev[UId(i)].fl THEN S.ev[UId(i)].dl ELSE -1],
    pr |-> [i \in 1..(NEv + NX) |-> IF UId(i) \in Pool /\ S.ev[UId(i)].alloc THEN S.ev[UId(i)].pri ELSE -1],
    na |-> NAct(S), ne |-> S.cnt,
    ma |-> IF S.fuzz THEN [_any |-> TRUE] ELSE S.actmax, me |-> IF S.fuzz THEN [_any |-> TRUE] ELSE S.cntmax,
    gb |-> IF S.brk THEN 1 ELSE 0, ge |-> IF S.term THEN 1 ELSE 0 ]
LoopObs(S) == [Obs(S, S.ret) EXCEPT !.r = S.ret] @@ [cb |-> S.cblog, bl |-> IF S.blocked THEN 1 ELSE 0, it |-> S.iters, amb |-> IF S.amb THEN 1 ELSE 0]

----------------------------------------------------------------------------
(* Outer API actions *)
DurSet == Durs
OuterOps(S) ==
  (IF "new" \in Acts THEN {[a |-> "new", e |-> e] : e \in UserEv} ELSE {})
  \cup (IF "free" \in Acts THEN {[a |-> "free", e |-> e] : e \in UserEv} ELSE {})
  \cup (IF "add" \in Acts THEN {[a |-> "add", e |-> e, t |-> t] : e \in UserEv, t \in DurSet \cup {-1}} ELSE {})
  \cup (IF "addc" \in Acts THEN {[a |-> "addc", e |-> e, q |-> q] : e \in UserEv, q \in CQ} ELSE {})
  \cup (IF "initc" \in Acts THEN {[a |-> "initc", q |-> q, t |-> t] : q \in CQ, t \in DurSet} ELSE {})
  \cup (IF "del" \in Acts THEN {[a |-> "del", e |-> e] : e \in UserEv} ELSE {})
  \cup (IF "rmt" \in Acts THEN {[a |-> "rmt", e |-> e] : e \in UserEv} ELSE {})
  \cup (IF "act" \in Acts THEN {[a |-> "act", e |-> e, r |-> r, n |-> n] : e \in UserEv, r \in {1, 2, 6}, n \in {1, 2}} ELSE {})
  \cup (IF "later" \in Acts THEN {[a |-> "later", e |-> e, r |-> 2] : e \in UserEv} ELSE {})
  \cup (IF "prio" \in Acts THEN {[a |-> "prio", e |-> e, p |-> p] : e \in UserEv, p \in 0..NPrio} ELSE {})
  \cup (IF "fin" \in Acts THEN {[a |-> "fin", e |-> e, n |-> n] : e \in UserEv, n \in {0, 1}} ELSE {})
  \cup (IF "exit" \in Acts THEN {[a |-> "exit", t |-> t] : t \in DurSet} ELSE {})
  \cup (IF "once" \in Acts THEN {[a |-> "once", t |-> t] : t \in DurSet} ELSE {})
  \cup (IF "break" \in Acts THEN {[a |-> "break"]} ELSE {})
  \cup (IF "cont" \in Acts THEN {[a |-> "cont"]} ELSE {})
  \cup (IF "defer" \in Acts /\ ND > 0 THEN {[a |-> "defer", n |-> n] : n \in {1, 2, ND - 3, ND}} ELSE {})
  \cup (IF "maxclr" \in Acts THEN {[a |-> "maxclr", n |-> n] : n \in {1, 4, 5}} ELSE {})
  \cup (IF "wnew" \in Acts THEN {[a |-> "wnew", e |-> w, k |-> k, s |-> s, x |-> x] :
                                   w \in 1..NW, k \in {"prep", "check"},
                                   s \in {"none", "self", "next", "prev", "new"}
                                          \cup (IF "wscr" \in Acts THEN {"add1", "act4", "del3"} ELSE {}), x \in {0}} ELSE {})
  \cup (IF "wfree" \in Acts THEN {[a |-> "wfree", e |-> w] : w \in 1..NW} ELSE {})

(* act with ncalls only matters for signal events; avoid duplicates *)
OpSane(op) == (op.a = "act" => (op.n = 1 \/ Kind(op.e) = "sig") /\ (op.r = 6 => Kind(op.e) = "io"))
              /\ (op.a = "wnew" => (op.s = "new" => op.e < NW))

(* directed family guard (see HeapPatOK): with "heappat" in Acts only the pattern's next op is enabled *)
HeapStepOK(s, i) ==
  CASE i <= 6 -> s.a = "add" /\ s.e = 10 + i /\ s.t \in {1, 2, 3, 10, 11, 12}
    [] i = 7 -> s.a = "del" /\ s.e \in 11..16
    [] i = 8 -> s.a = "add" /\ s.e = 17 /\ s.t = 20
    [] i = 9 -> s.a = "add" /\ s.e = 18 /\ s.t = 21
    [] OTHER -> s.a = "loop" /\ s.f = 0 /\ s.pol = "exact"
(* directed family "deferpat": two events put at priority 1 or 2, one of them given a callback script that schedules
   deferred callbacks or an immediate once-event (both of priority NPrio \div 2), both activated, one loop call: what a
   running priority-2 callback schedules at priority 1 must run before the other priority-2 callback *)
DeferStepOK(s, i) ==
  CASE i = 1 -> s.a = "prio" /\ s.e = 1 /\ s.p \in {1, 2}
    [] i = 2 -> s.a = "prio" /\ s.e = 3 /\ s.p \in {1, 2}
    [] i = 3 -> s.a = "script" /\ s.s.a \in {"defer", "once"}
    [] i \in {4, 5} -> s.a = "act" /\ s.r = 2
    [] OTHER -> s.a = "loop"
(* directed family "ctpat": a persistent timer on a common-timeout queue is dispatched late (the clock jumps past its
   deadline by less than the queue's duration), another event joins the same queue with a fresh clock reading, then
   single-iteration loop calls: the persistent timer re-arms at deadline + duration and must fire then, ahead of the newcomer *)
CtStepOK(s, i) ==
  CASE i = 1 -> s.a = "initc" /\ s.q = 1 /\ s.t \in {2, 3}
    [] i = 2 -> s.a = "addc" /\ s.e = 4 /\ s.q = 1
    [] i = 3 -> s.a = "adv" /\ s.t \in {3, 4}
    [] i = 4 -> s.a = "addc" /\ s.e \in {1, 3} /\ s.q = 1
    [] OTHER -> s.a = "loop" /\ s.f = 1 /\ s.pol = "exact"
PatGuard(op) == /\ (("heappat" \in Acts) => HeapStepOK(op, Len(hist) + 1))
                /\ (("ctpat" \in Acts) => CtStepOK(op, Len(hist) + 1))
                /\ (("deferpat" \in Acts) => DeferStepOK(op, Len(hist) + 1))
Api ==
  /\ st.pc = "idle"
  /\ \E op \in OuterOps(st) :
       /\ PatGuard(op)
       /\ OpSane(op) /\ OpLegal(st, op, 0)
       /\ LET R == ApplyOp(st, op) IN
          /\ st' = R.s
          /\ hist' = Append(hist, op @@ [o |-> Obs(R.s, R.r)])

(* environment: make an I/O event's fd readable / drain it; raise the signal; jump the clock *)
Env ==
  /\ st.pc = "idle"
  /\ \/ \E e \in UserEv \cap {1, 2} : "feed" \in Acts /\ ~st.ready[e]
          /\ st' = [st EXCEPT !.ready[e] = TRUE]
          /\ hist' = Append(hist, [a |-> "feed", e |-> e, o |-> Obs(st', 0)])
     \/ \E e \in UserEv \cap {1, 2} : "drain" \in Acts /\ st.ready[e]
          /\ st' = [st EXCEPT !.ready[e] = FALSE]
          /\ hist' = Append(hist, [a |-> "drain", e |-> e, o |-> Obs(st', 0)])
     \/ /\ "raise" \in Acts /\ 5 \in UserEv /\ st.sigpend < 2
        /\ "INS" \in st.ev[5].fl         \* raising with no handler installed would kill the driver
        /\ st' = [st EXCEPT !.sigpend = @ + 1]
        /\ hist' = Append(hist, [a |-> "raise", o |-> Obs(st', 0)])
     \/ \E t \in DurSet : "adv" \in Acts /\ t > 0 /\ PatGuard([a |-> "adv", t |-> t])
          /\ st' = [st EXCEPT !.now = @ + t]
          /\ hist' = Append(hist, [a |-> "adv", t |-> t, o |-> Obs(st', 0)])

(* install a callback script on an event: the op the callback performs when it runs *)
ScriptSet ==
  {[a |-> "none"]}
  \cup (IF "break" \in ScriptOps THEN {[a |-> "break"]} ELSE {})
  \cup (IF "cont" \in ScriptOps THEN {[a |-> "cont"]} ELSE {})
  \cup (IF "adv" \in ScriptOps THEN {[a |-> "adv", t |-> t] : t \in DurSet \ {0}} ELSE {})
  \cup (IF "upd" \in ScriptOps THEN {[a |-> "upd"]} ELSE {})
  \cup (IF "exit" \in ScriptOps THEN {[a |-> "exit", t |-> 0]} ELSE {})
  \cup (IF "once" \in ScriptOps THEN {[a |-> "once", t |-> 0]} ELSE {})
  \cup (IF "act" \in ScriptOps THEN {[a |-> "act", e |-> e, r |-> 2, n |-> 1] : e \in UserEv} ELSE {})
  \cup (IF "later" \in ScriptOps THEN {[a |-> "later", e |-> e, r |-> 2] : e \in UserEv} ELSE {})
  \cup (IF "del" \in ScriptOps THEN {[a |-> "del", e |-> e] : e \in UserEv} ELSE {})
  \cup (IF "add" \in ScriptOps THEN {[a |-> "add", e |-> e, t |-> t] : e \in UserEv, t \in {-1, 1}} ELSE {})
  \cup (IF "free" \in ScriptOps THEN {[a |-> "free", e |-> e] : e \in UserEv} ELSE {})
  \cup (IF "fin" \in ScriptOps THEN {[a |-> "fin", e |-> e, n |-> 1] : e \in UserEv} ELSE {})
  \cup (IF "defer" \in ScriptOps /\ ND > 0 THEN {[a |-> "defer", n |-> n] : n \in {2, ND}} ELSE {})
SetScript ==
  /\ st.pc = "idle" /\ "script" \in Acts
  /\ \E e \in UserEv, sc \in ScriptSet :
       /\ st.ev[e].alloc /\ sc # st.script[e] /\ sc.a # "none"
       /\ PatGuard([a |-> "script", e |-> e, s |-> sc])
       /\ st' = [st EXCEPT !.script[e] = sc]
       /\ hist' = Append(hist, [a |-> "script", e |-> e, s |-> sc, o |-> Obs(st', 0)])

----------------------------------------------------------------------------
(* event_base_loop, phase by phase *)
FlagOnce(S) == (S.lflags % 2) = 1
FlagNonblock(S) == ((S.lflags \div 2) % 2) = 1
FlagNoExit(S) == ((S.lflags \div 4) % 2) = 1

ApiLoop ==
  /\ st.pc = "idle" /\ "loop" \in Acts
  /\ \E f \in {0, 1, 2, 3, 4, 5}, pol \in {"exact", "over", "short"} :
       /\ (pol # "exact" => "pol" \in Acts)
       /\ (f \in {0, 4, 5, 3} => "flags" \in Acts)
       /\ PatGuard([a |-> "loop", f |-> f, pol |-> pol])
       /\ st' = [st EXCEPT !.pc = "top", !.lflags = f, !.pol = pol, !.iters = 0, !.brk = FALSE, !.term = FALSE,
                           !.blocked = FALSE, !.forced = FALSE, !.cblog = <<>>, !.ret = 0, !.done = FALSE, !.amb = FALSE]
       /\ UNCHANGED hist

RECURSIVE MakeLaterActive(_)
MakeLaterActive(S) ==
  IF S.lq = <<>> THEN S
  ELSE LET x == Head(S.lq) IN
       MakeLaterActive([S EXCEPT !.lq = Tail(@), !.ev[x].fl = (@ \ {"LATER"}) \cup {"ACT"},
                                 !.aq[S.ev[x].pri] = Append(@, x),
                                 !.ndef = IF x > 20 THEN @ + 1 ELSE @])

IterTop ==
  /\ st.pc = "top"
  /\ LET S0 == [st EXCEPT !.cont = FALSE, !.ndef = 0] IN
     \* `while (!done)`: when done is set the body (and its reset of n_deferreds_queued) is not entered again
     IF st.done THEN st' = [st EXCEPT !.pc = "ret"]
     ELSE IF S0.term \/ S0.brk THEN st' = [S0 EXCEPT !.pc = "ret"]
     ELSE LET tmo == IF NAct(S0) = 0 /\ ~FlagNonblock(S0)
                     THEN (IF Heap(S0) = {} THEN INF
                           ELSE Max(0, S0.ev[HeapTop(S0)].dl - Now(S0)))
                     ELSE 0
          IN IF ~FlagNoExit(S0) /\ S0.cnt = 0 /\ NAct(S0) = 0
             THEN st' = [S0 EXCEPT !.pc = "ret", !.ret = 1]
             ELSE st' = [MakeLaterActive(S0) EXCEPT !.pc = "prep", !.tmo = tmo, !.iters = @ + 1,
                                                   !.wq = SelectSeq(S0.watch, LAMBDA w: w.k = "prep")]
  /\ UNCHANGED hist

(* Watchers: the loop iterates over the list as it was... the C code walks the
   live TAILQ; the property (C45) requires every watcher alive at its turn to
   run exactly once and none after being freed.  We model the required
   behaviour: wq is the list of watchers still to run in this phase; freeing a
   watcher removes it from wq; a watcher created during the phase is appended
   (it is inserted at the tail of the live list). *)
WatchScript(S, w) ==
  LET ids == [i \in 1..Len(S.watch) |-> S.watch[i].id]
      pos == CHOOSE i \in 1..Len(S.watch) : S.watch[i].id = w.id
      samek == SelectSeq(S.watch, LAMBDA v: v.k = w.k)
      kpos == CHOOSE i \in 1..Len(samek) : samek[i].id = w.id
  IN CASE w.s = "self" -> [a |-> "wfree", e |-> w.id]
       [] w.s = "next" -> IF kpos < Len(samek) THEN [a |-> "wfree", e |-> samek[kpos + 1].id] ELSE NoOp
       [] w.s = "prev" -> IF kpos > 1 THEN [a |-> "wfree", e |-> samek[kpos - 1].id] ELSE NoOp
       [] w.s = "new" -> IF (w.id + 1) \notin WatchIds(S) /\ w.id + 1 <= NW
                         THEN [a |-> "wnew", e |-> w.id + 1, k |-> w.k, s |-> "none", x |-> 0] ELSE NoOp
       \* a watcher that touches the base: schedules a 1-tick timer on event 3, activates event 4, deletes event 3.
       \* The timeout the prepare watchers were told is still the one the loop waits with (st.tmo is not recomputed).
       [] w.s = "add1" -> IF 3 \in Pool /\ S.ev[3].alloc THEN [a |-> "add", e |-> 3, t |-> 1] ELSE NoOp
       [] w.s = "act4" -> IF 4 \in Pool /\ S.ev[4].alloc THEN [a |-> "act", e |-> 4, r |-> 2, n |-> 1] ELSE NoOp
       [] w.s = "del3" -> IF 3 \in Pool /\ S.ev[3].alloc THEN [a |-> "del", e |-> 3] ELSE NoOp
       [] OTHER -> NoOp

RunWatcher(phase, nextpc) ==
  /\ st.pc = phase
  /\ IF st.wq = <<>> THEN st' = [st EXCEPT !.pc = nextpc]
     ELSE LET w == Head(st.wq)
              op == WatchScript(st, w)
              S1 == ApplyOp(st, op).s
              wq1 == SelectSeq(Tail(st.wq), LAMBDA v: v.id \in WatchIds(S1))
              wq2 == IF op.a = "wnew" THEN Append(wq1, [id |-> op.e, k |-> op.k, s |-> op.s, x |-> op.x]) ELSE wq1
          IN st' = [S1 EXCEPT !.wq = wq2,
                              !.cblog = Append(@, [e |-> 100 + w.id, r |-> IF phase = "prep" THEN st.tmo ELSE 0,
                                                   k |-> w.k, g |-> <<>>])]
  /\ UNCHANGED hist

Prepare == RunWatcher("prep", "wait")
Check == RunWatcher("check", "tproc")

(* evsel->dispatch: wait for kernel readiness or the timeout, under the clock policy *)
RECURSIVE ActivateSet(_, _, _)
ActivateSet(S, xs, gtag) ==
  IF xs = {} THEN S
  ELSE LET x == CHOOSE y \in xs : \A z \in xs : y <= z IN
       ActivateSet(ActiveCore(S, x, {"R"}, 1, gtag), xs \ {x}, gtag)

Wait ==
  /\ st.pc = "wait"
  /\ LET S0 == [st EXCEPT !.gctr = @ + 1]
         rdy == {e \in {1, 2} : "INS" \in S0.ev[e].fl /\ S0.ready[e]}
                  \cup (IF S0.sigadded /\ S0.sigpend > 0 THEN {SIGINT} ELSE {})
         S1 == IF S0.iters > MaxIter THEN [S0 EXCEPT !.brk = TRUE, !.forced = TRUE]     \* harness-forced break
               ELSE IF rdy # {} \/ S0.tmo = 0 THEN S0
               ELSE IF S0.tmo = INF THEN [S0 EXCEPT !.brk = TRUE, !.blocked = TRUE]   \* would block for ever
               ELSE [S0 EXCEPT !.now = @ + (CASE S0.pol = "exact" -> S0.tmo
                                               [] S0.pol = "over" -> S0.tmo + 1
                                               [] OTHER -> IF S0.tmo > 1 THEN S0.tmo - 1 ELSE S0.tmo)]
         S2 == ActivateSet([S1 EXCEPT !.fuzz = @ \/ Cardinality(rdy) >= 2], rdy, <<S1.gctr, 0>>)
     IN st' = [S2 EXCEPT !.pc = "check", !.tc = S2.now, !.wq = SelectSeq(S2.watch, LAMBDA w: w.k = "check")]
  /\ UNCHANGED hist

TimeoutProcess ==
  /\ st.pc = "tproc"
  /\ st' = [TimeoutProcessRec(st) EXCEPT !.pc = "pstart"]
  /\ UNCHANGED hist

NonEmptyPrios(S, from) == {p \in from..(NPrio - 1) : S.aq[p] # <<>>}
MinSet(s) == CHOOSE x \in s : \A y \in s : x <= y

(* event_process_active: pick the first non-empty queue at or after qi *)
ProcessStart ==
  /\ st.pc = "pstart"
  /\ IF NAct(st) = 0
     THEN st' = [st EXCEPT !.pc = "top", !.done = FlagNonblock(st)]
     ELSE st' = [st EXCEPT !.pc = "pq", !.qi = 0, !.n = 0,
                           !.tc = IF MaxIntv >= 0 THEN st.now ELSE @,
                           !.endt = IF MaxIntv >= 0 THEN st.now + MaxIntv ELSE -1]
  /\ UNCHANGED hist

(* leave event_process_active with result c *)
EndProcess(S, c) ==
  [S EXCEPT !.pc = "top", !.runprio = -1, !.cur = 0,
            !.done = FlagOnce(S) /\ NAct(S) = 0 /\ c # 0]

PickQueue ==
  /\ st.pc = "pq"
  /\ LET ps == NonEmptyPrios(st, st.qi) IN
     IF ps = {} THEN st' = EndProcess(st, st.n)
     ELSE st' = [st EXCEPT !.pc = "run", !.runprio = MinSet(ps), !.qi = MinSet(ps), !.cnt1 = 0]
  /\ UNCHANGED hist

LimitFor(S) == IF S.runprio < LimitPrio \/ MaxCb = 0 THEN 1000000 ELSE MaxCb

(* after one callback returned inside event_process_active_single_queue *)
AfterCb(S0) ==
  LET cut == S0.brk /\ (S0.forced \/ S0.blocked) /\ S0.cur # 0 /\ S0.aq[S0.runprio] # <<>>
             /\ S0.ev[S0.cur].g # <<>> /\ S0.ev[Head(S0.aq[S0.runprio])].g = S0.ev[S0.cur].g
      S1 == [S0 EXCEPT !.amb = @ \/ cut]
      \* a limited queue re-reads the clock after every counted callback (and refreshes the cached time)
      timed == ~S1.brk /\ S1.cnt1 < LimitFor(S1) /\ S1.cnt1 > 0 /\ MaxIntv >= 0 /\ S1.runprio >= LimitPrio
      S == IF timed THEN [S1 EXCEPT !.tc = S1.now] ELSE S1
  IN
  IF S.brk THEN EndProcess(S, -1)
  ELSE IF S.cnt1 >= LimitFor(S) \/ (timed /\ S.now >= S.endt) \/ S.cont \/ S.aq[S.runprio] = <<>>
       THEN (IF S.cnt1 > 0 THEN EndProcess([S EXCEPT !.n = S.cnt1], S.cnt1)
             ELSE [S EXCEPT !.pc = "pq", !.qi = S.runprio + 1, !.n = 0, !.cur = 0])
       ELSE [S EXCEPT !.cur = 0]

(* Harness bound: callbacks that keep re-activating each other would spin for ever
   inside one pass (as in the real library); after MaxLog logged callbacks in one
   loop call the harness calls loopbreak from inside the callback. *)
MaxLog == 12
RunScript(S, x) ==
  LET sc == S.script[x]
      S1 == IF x \in UserEv /\ sc.a # "none" /\ OpLegal(S, sc, x) THEN ApplyOp(S, sc).s ELSE S
  IN IF Len(S1.cblog) >= MaxLog THEN [S1 EXCEPT !.brk = TRUE, !.forced = TRUE] ELSE S1

LogCb(S, x, kind) == [S EXCEPT !.cblog = Append(@, [e |-> x, r |-> ResMask(S.ev[x].res), k |-> kind, g |-> S.ev[x].g])]

(* evsig_cb: activate every added event of each caught signal with ncalls = count *)
SigIntCb(S) ==
  LET n == S.sigpend
      S1 == [S EXCEPT !.sigpend = 0]
  IN IF "INS" \in S1.ev[5].fl /\ n > 0 THEN ActiveCore(S1, 5, {"S"}, n, <<>>) ELSE S1

PersistResched(S, x) ==
  IF S.ev[x].iv # 0 \/ S.ev[x].ivq # 0
  THEN LET rel == IF "T" \in S.ev[x].res THEN S.ev[x].dl ELSE Now(S)
           run == IF rel + S.ev[x].iv < Now(S) THEN Now(S) + S.ev[x].iv ELSE rel + S.ev[x].iv
       IN SetTimeout(InsIfNeeded(S, x), x, run, S.ev[x].ivq)
  ELSE S

RunCallback ==
  /\ st.pc = "run" /\ st.sigleft = 0
  /\ LET x == Head(st.aq[st.runprio])
         S0 == IF Persist(x) \/ "FIN" \in st.ev[x].fl THEN RemActive(st, x) ELSE DelCore(st, x)
         S1 == [S0 EXCEPT !.cnt1 = IF x \in Internal THEN @ ELSE @ + 1, !.cur = x]
     IN IF x > 20
        THEN \* a deferred callback (EV_CLOSURE_CB_SELF): taken off the queue and run
             st' = AfterCb([RemActive([st EXCEPT !.cnt1 = @ + 1, !.cur = x], x) EXCEPT
                              !.cblog = Append(@, [e |-> x, r |-> 0, k |-> "def", g |-> <<>>])])
        ELSE IF "FIN" \in st.ev[x].fl
        THEN \* finalizer runs; free_finalize releases the event
             LET S2 == LogCb(S1, x, "fin")
                 S3 == IF S2.ev[x].clo = "finfree" THEN [S2 EXCEPT !.ev[x].alloc = FALSE, !.script[x] = NoOp] ELSE S2
             IN st' = AfterCb(S3)
        ELSE IF x = SIGINT THEN st' = AfterCb(SigIntCb(S1))
        ELSE IF x \in {CT(1), CT(2)} THEN st' = AfterCb(CommonTimeoutCb(S1, x - 6))
        ELSE IF x \in Onces
             THEN LET S2 == IF S1.ev[x].user THEN [S1 EXCEPT !.cblog = Append(@, [e |-> 9, r |-> 1, k |-> "once", g |-> S1.ev[x].g])] ELSE [S1 EXCEPT !.term = TRUE]
                  IN st' = AfterCb([S2 EXCEPT !.ev[x].alloc = FALSE])
        ELSE IF Closure(x) = "signal"
             THEN IF S1.ev[x].nc = 0 THEN st' = AfterCb(S1)
                  ELSE st' = [S1 EXCEPT !.sigleft = S1.ev[x].nc, !.ev[x].nc = 0]
        ELSE IF Closure(x) = "persist"
             THEN st' = AfterCb(RunScript(LogCb(PersistResched(S1, x), x, "cb"), x))
        ELSE st' = AfterCb(RunScript(LogCb(S1, x, "cb"), x))
  /\ UNCHANGED hist

(* event_signal_closure: one invocation of the callback per step *)
SignalCall ==
  /\ st.pc = "run" /\ st.sigleft > 0
  /\ LET x == st.cur
         S1 == [st EXCEPT !.sigleft = @ - 1]
         S2 == RunScript(LogCb(S1, x, "cb"), x)
     IN IF S2.brk THEN st' = AfterCb([S2 EXCEPT !.sigleft = 0])
        ELSE IF S2.sigleft = 0 THEN st' = AfterCb(S2)
        ELSE st' = S2
  /\ UNCHANGED hist

LoopReturn ==
  /\ st.pc = "ret"
  /\ st' = [st EXCEPT !.pc = "idle", !.runprio = -1, !.tc = -1, !.endt = -1]
  /\ hist' = Append(hist, [a |-> "loop", f |-> st.lflags, pol |-> st.pol, o |-> LoopObs(st')])

LoopStep == IterTop \/ Prepare \/ Wait \/ Check \/ TimeoutProcess \/ ProcessStart \/ PickQueue
            \/ RunCallback \/ SignalCall \/ LoopReturn

(* event_base_free / event_base_free_nofinalize: pending finalizers run (in
   active-queue order) exactly once when run = 1; once-events are dropped without
   running; nothing can follow. *)
RECURSIVE FlatAq(_, _)
FlatAq(S, p) == IF p >= NPrio THEN <<>> ELSE S.aq[p] \o FlatAq(S, p + 1)
BaseFree ==
  /\ st.pc = "idle" /\ "basefree" \in Acts
  /\ \E run \in {0, 1} :
       LET pend == SelectSeq(FlatAq(st, 0) \o st.lq, LAMBDA x: "FIN" \in st.ev[x].fl)
           log == [i \in 1..Len(pend) |-> [e |-> pend[i], r |-> 64, k |-> "fin", g |-> <<>>]]
       IN /\ st' = [st EXCEPT !.pc = "dead"]
          /\ hist' = Append(hist, [a |-> "basefree", n |-> run, o |-> [r |-> 0, cb |-> IF run = 1 THEN log ELSE <<>>]])

Init == st = InitSt /\ hist = <<>>
Next == Api \/ Env \/ SetScript \/ ApiLoop \/ LoopStep \/ BaseFree
Spec == Init /\ [][Next]_vars

----------------------------------------------------------------------------
(* Invariants: event_base_assert_ok_nolock_ restated on the abstract state, and
   the counters the public API exposes. *)
AllAct(S) == UNION {{S.aq[p][i] : i \in 1..Len(S.aq[p])} : p \in 0..(NPrio - 1)}
QueueFlagOK ==
  /\ \A x \in Ent : ("ACT" \in st.ev[x].fl) <=> (x \in AllAct(st))
  /\ \A x \in Ent : ("LATER" \in st.ev[x].fl) <=> (\E i \in 1..Len(st.lq) : st.lq[i] = x)
  /\ \A p \in 0..(NPrio - 1) : \A i \in 1..Len(st.aq[p]) : st.ev[st.aq[p][i]].pri = p
  /\ \A x \in Ent : ~({"ACT", "LATER"} \subseteq st.ev[x].fl)
  /\ \A p \in 0..(NPrio - 1) : \A i, j \in 1..Len(st.aq[p]) : i # j => st.aq[p][i] # st.aq[p][j]
CountOK ==
  st.cnt = Cardinality({<<x, f>> \in (Ent \ Internal) \X {"INS", "TMO", "ACT", "LATER"} : f \in st.ev[x].fl})
MaxOK == st.cntmax >= 0 /\ st.actmax >= 0 \* get_max_events(clear) resets to 0, not to the current count
CommonQueueOK ==
  \A q \in CQ : /\ \A i \in 1..Len(st.ctq[q]) : "TMO" \in st.ev[st.ctq[q][i]].fl /\ st.ev[st.ctq[q][i]].cq = q
                /\ \A i, j \in 1..Len(st.ctq[q]) : i < j => st.ev[st.ctq[q][i]].dl <= st.ev[st.ctq[q][j]].dl
                \* a non-empty common queue always has its internal event scheduled no later than its head
                /\ (st.ctq[q] # <<>> /\ st.pc \in {"idle", "top", "wait"} =>
                      \/ "TMO" \in st.ev[CT(q)].fl /\ st.ev[CT(q)].dl <= st.ev[Head(st.ctq[q])].dl
                      \/ "ACT" \in st.ev[CT(q)].fl)
OnlyAllocQueued == \A x \in Ent : st.ev[x].fl \cap {"INS", "TMO", "ACT", "LATER"} # {} => st.ev[x].alloc
(* C01 NotLate: when the loop is about to run callbacks, no heap timer is overdue *)
NotLate == st.pc \in {"pstart", "pq"} => \A x \in Heap(st) : st.ev[x].dl > st.now
(* C01 NoEarly: a pending EV_TIMEOUT result implies the deadline was reached *)
NoEarly == \A x \in Ent : ("ACT" \in st.ev[x].fl /\ "T" \in st.ev[x].res /\ st.ev[x].g # <<>> /\ Len(st.ev[x].g) = 2 /\ st.ev[x].g[2] > 0)
                           => st.ev[x].g[2] - 1 <= st.now
TypeOK == st.pc \in {"dead", "idle", "top", "prep", "wait", "check", "tproc", "pstart", "pq", "run", "ret"}


(* C03: a callback of priority p starts only when no callback of a smaller
   priority number is pending (the ncalls loop of a signal event excepted) *)
PrioOrderInv == (st.pc = "run" /\ st.sigleft = 0) => \A p \in 0..(st.runprio - 1) : st.aq[p] = <<>>
(* C03: once a callback has called loopbreak no further callback starts in this loop call *)
BreakStops ==
  [][(st.brk /\ ~st.forced /\ ~st.blocked /\ st.pc # "idle") => st'.cblog = st.cblog]_vars
(* C03: "later" callbacks are never lost: an event on the later queue is active after the next IterTop *)
LaterPromoted == [][(st.pc = "top" /\ st'.pc = "prep") => st'.lq = <<>>]_vars

Inv == TypeOK /\ QueueFlagOK /\ CountOK /\ MaxOK /\ CommonQueueOK /\ OnlyAllocQueued /\ NotLate /\ NoEarly /\ PrioOrderInv

----------------------------------------------------------------------------
(* Generation: bound the number of outer calls; print complete histories. *)
GenConstraint == Len(hist) <= D
(* TLC evaluates invariants also on states that violate the CONSTRAINT (it only does not explore
   them further), so the printing invariant repeats the constraint of the configuration *)
EmitIf(c) == (c /\ ((Len(hist) = D /\ st.pc = "idle") \/ st.pc = "dead")) => PrintT(ToJson(hist))
Emit == EmitIf(TRUE)
(* generation without equal heap deadlines (used when callbacks have side effects,
   where the unspecified order of equal-deadline timers would matter) *)
NoHeapTies == \A x, y \in Heap(st) : x # y => st.ev[x].dl # st.ev[y].dl
GenConstraintNT == GenConstraint /\ NoHeapTies
(* directed family for the timer heap: six timers with pairwise distinct deadlines (every
   permutation), one of them deleted from the middle of the heap, two later timers added,
   then one loop call that lets them all fire - exercises sift-up/sift-down on erase *)
HeapPatOK ==
  \A i \in 1..Len(hist) :
    LET s == hist[i] IN
    CASE i <= 6 -> s.a = "add" /\ s.e = 10 + i /\ s.t \in {1, 2, 3, 10, 11, 12}
      [] i = 7 -> s.a = "del" /\ s.e \in 11..16
      [] i = 8 -> s.a = "add" /\ s.e = 17 /\ s.t = 20
      [] i = 9 -> s.a = "add" /\ s.e = 18 /\ s.t = 21
      [] OTHER -> s.a = "loop" /\ s.f = 0 /\ s.pol = "exact"
GenConstraintHeap == GenConstraint /\ NoHeapTies /\ HeapPatOK
EmitNT == EmitIf(NoHeapTies)
EmitHeap == EmitIf(NoHeapTies /\ HeapPatOK)
EmitSim == TRUE
StateView == <<st>>
=============================================================================
