------------------------------ MODULE Evtag ------------------------------
(* The tagged-data wire format of event_tagging.c (property C42).

     Stream     = TaggedData*
     TaggedData = Tag Length Data
     Tag        = 7-bit groups, least significant first, high bit = "more"
     Integer    = count nibble (nibbles - 1), then the value's nibbles, least
                  significant first, two per byte, zero padded

   TLC integers are 32-bit, so numbers are modelled structurally: an integer
   is its sequence of nibbles (0..15), least significant first, without
   leading (most significant) zero nibbles, the number 0 being <<>>; a tag is
   its sequence of 7-bit groups in the same style.  Only lengths of payloads
   (small) are TLC integers.

   Mode "rt"  : the state is a word of items (tag, typed value); Wire(w) is the
                marshalled stream; the law DecodeEncode says that unmarshalling
                it item by item returns every tag, length and value and leaves
                exactly the rest.  Emit prints items, wire bytes and the
                expected result of every unmarshal call.
   Mode "one" : as "rt" with single-item words over every value x tag.
   Mode "dec" : the state is an arbitrary byte string; for every decoder the
                reference says fail, or the decoded value and the number of
                bytes consumed (OneItem: a successful typed unmarshal consumed
                exactly one well-formed TaggedData).
   The driver harness/util_drv.c runs the real evtag_* functions with the
   stream split over evbuffer chains at every position.

   Named deviations (what the code does, not contradicted by the property):
     NonCanonicalAccepted   leading zero nibbles / zero high tag groups decode
     PaddingNotChecked      the padding nibble is ignored
     IntPayloadMayBeLonger  unmarshal_int/int64/timeval accept payloads longer
                            than the integers they hold (the item is consumed whole)
*)
EXTENDS Integers, Sequences, FiniteSets, TLC, Json

CONSTANTS Mode, MaxLen, Alphabet      \* Alphabet: "b5" | "b4" | "b3" byte alphabets of mode "dec"

VARIABLE w
vars == <<w>>

-----------------------------------------------------------------------------
Drop(s, n) == SubSeq(s, n + 1, Len(s))
Take(s, n) == SubSeq(s, 1, n)
RECURSIVE Flatten(_)
Flatten(ss) == IF ss = <<>> THEN <<>> ELSE Head(ss) \o Flatten(Tail(ss))
RECURSIVE StripHigh(_)            \* remove most significant zeros (numbers are LS first)
StripHigh(v) == IF v # <<>> /\ v[Len(v)] = 0 THEN StripHigh(Take(v, Len(v) - 1)) ELSE v

(* small naturals <-> nibble sequences *)
RECURSIVE Nibs(_)
Nibs(n) == IF n = 0 THEN <<>> ELSE <<n % 16>> \o Nibs(n \div 16)
RECURSIVE NibVal(_)
NibVal(v) == IF v = <<>> THEN 0 ELSE v[1] + 16 * NibVal(Tail(v))        \* only for Len(v) <= 6

-----------------------------------------------------------------------------
(* integer codec *)
EncInt(v) ==
  LET n == Len(v)
      nibs == <<IF n = 0 THEN 0 ELSE n - 1>> \o (IF n = 0 THEN <<0>> ELSE v)
      even == IF Len(nibs) % 2 = 1 THEN Append(nibs, 0) ELSE nibs
  IN [i \in 1..(Len(even) \div 2) |-> 16 * even[2 * i - 1] + even[2 * i]]

Fail == [ok |-> FALSE]
(* decode at the head of b: value and number of bytes used *)
DecInt(b, maxnib) ==
  IF b = <<>> THEN Fail
  ELSE LET nibbles == (b[1] \div 16) + 1
           used == (nibbles \div 2) + 1
       IN IF nibbles > maxnib \/ used > Len(b) THEN Fail
          ELSE LET all == Flatten([i \in 1..used |-> <<b[i] \div 16, b[i] % 16>>])
               IN [ok |-> TRUE, v |-> StripHigh(SubSeq(all, 2, nibbles + 1)), n |-> used]

(* tag codec: g = 7-bit groups LS first *)
EncTag(g) == IF g = <<>> THEN <<0>>
             ELSE [i \in 1..Len(g) |-> g[i] + (IF i < Len(g) THEN 128 ELSE 0)]
RECURSIVE DecTagFrom(_, _, _)
DecTagFrom(b, i, acc) ==
  IF i > Len(b) THEN Fail
  ELSE IF i > 5 \/ (i = 5 /\ (b[i] % 128) > 15) THEN Fail             \* must fit 32 bits
  ELSE IF b[i] < 128 THEN [ok |-> TRUE, tag |-> StripHigh(Append(acc, b[i])), n |-> i]
  ELSE DecTagFrom(b, i + 1, Append(acc, b[i] % 128))
DecTag(b) == DecTagFrom(b, 1, <<>>)

(* header: tag, length; the payload must be present.  len as a TLC integer (< 2^24) *)
Header(b) ==
  LET t == DecTag(b)
  IN IF ~t.ok THEN Fail
     ELSE LET l == DecInt(Drop(b, t.n), 8)
          IN IF ~l.ok THEN Fail
             ELSE IF Len(l.v) > 6 THEN Fail                         \* >= 2^24 bytes: never present
             ELSE LET len == NibVal(l.v)
                      h == t.n + l.n
                  IN IF Len(b) - h < len THEN Fail
                     ELSE [ok |-> TRUE, tag |-> t.tag, len |-> len, lenv |-> l.v, hdr |-> h,
                           payload |-> SubSeq(b, h + 1, h + len), rest |-> Drop(b, h + len)]

CStr(p) == LET z == {i \in 1..Len(p) : p[i] = 0}
           IN IF z = {} THEN p ELSE Take(p, (CHOOSE i \in z : \A j \in z : i <= j) - 1)

(* typed unmarshal calls: [ok, rc, value..., rest] ; `need` is the expected tag *)
UnInt(b, need, maxnib) ==
  LET h == Header(b)
  IN IF ~h.ok \/ h.tag # need THEN Fail
     ELSE LET d == DecInt(h.payload, maxnib)                        \* IntPayloadMayBeLonger
          IN IF ~d.ok THEN Fail ELSE [ok |-> TRUE, rc |-> d.n, v |-> d.v, rest |-> h.rest]
UnStr(b, need) ==
  LET h == Header(b)
  IN IF ~h.ok \/ h.tag # need THEN Fail ELSE [ok |-> TRUE, rc |-> 0, v |-> CStr(h.payload), rest |-> h.rest]
UnTv(b, need) ==
  LET h == Header(b)
  IN IF ~h.ok \/ h.tag # need THEN Fail
     ELSE LET s == DecInt(h.payload, 8)
          IN IF ~s.ok THEN Fail
             ELSE LET u == DecInt(Drop(h.payload, s.n), 8)
                  IN IF ~u.ok THEN Fail ELSE [ok |-> TRUE, rc |-> 0, s |-> s.v, u |-> u.v, rest |-> h.rest]
UnRaw(b) ==
  LET h == Header(b)
  IN IF ~h.ok THEN Fail ELSE [ok |-> TRUE, rc |-> h.len, tag |-> h.tag, v |-> h.payload, rest |-> h.rest]
UnFixed(b, need, k) ==
  LET h == Header(b)
  IN IF ~h.ok \/ h.tag # need \/ h.len # k THEN Fail ELSE [ok |-> TRUE, rc |-> 0, v |-> h.payload, rest |-> h.rest]

-----------------------------------------------------------------------------
(* values at every encoding-length boundary: nibble length L, leading nibble, fill nibble *)
ValOf(L, lead, fill) == IF L = 0 THEN <<>> ELSE [i \in 1..L |-> IF i = L THEN lead ELSE fill]
Values(maxL) == {<<>>} \cup {ValOf(L, lead, fill) : L \in 1..maxL, lead \in {1, 8, 15}, fill \in {0, 15}}
(* tags at the 7-bit boundaries: 0 1 127 128 2^14-1 2^14 2^21-1 2^21 2^28-1 2^28 2^32-1 *)
TagSeq == << <<>>, <<1>>, <<127>>, <<0, 1>>, <<127, 127>>, <<0, 0, 1>>, <<127, 127, 127>>, <<0, 0, 0, 1>>,
             <<127, 127, 127, 127>>, <<0, 0, 0, 0, 1>>, <<127, 127, 127, 127, 15>> >>
Tags == {TagSeq[i] : i \in 1..Len(TagSeq)}

Pay(n, nz) == [i \in 1..n |-> IF nz THEN 1 + ((i * 37) % 250) ELSE (i * 37) % 256]   \* nz: no NUL bytes

(* an item: kind, tag and value(s) *)
Marshal(it) ==
  LET body == CASE it.k = "int" -> EncInt(it.v)
                [] it.k = "i64" -> EncInt(it.v)
                [] it.k = "str" -> it.b
                [] it.k = "raw" -> it.b
                [] it.k = "tv"  -> EncInt(it.s) \o EncInt(it.u)
                (* non-canonical: the declared length exceeds the integers inside (IntPayloadMayBeLonger) *)
                [] it.k \in {"intpad", "i64pad"} -> EncInt(it.v) \o [i \in 1..it.pad |-> 255]
                [] it.k = "tvpad" -> EncInt(it.s) \o EncInt(it.u) \o [i \in 1..it.pad |-> 255]
  IN EncTag(it.tag) \o EncInt(Nibs(Len(body))) \o body

(* the expected result of the matching unmarshal call on a stream b starting with the item *)
Unmarshal(it, b) ==
  CASE it.k = "int" -> UnInt(b, it.tag, 8)
    [] it.k = "i64" -> UnInt(b, it.tag, 16)
    [] it.k = "str" -> UnStr(b, it.tag)
    [] it.k = "raw" -> UnRaw(b)
    [] it.k = "tv"  -> UnTv(b, it.tag)
    [] it.k = "intpad" -> UnInt(b, it.tag, 8)
    [] it.k = "i64pad" -> UnInt(b, it.tag, 16)
    [] it.k = "tvpad"  -> UnTv(b, it.tag)
Returned(it, r) ==        \* the call gave back exactly what was marshalled
  /\ r.ok
  /\ CASE it.k \in {"int", "i64", "intpad", "i64pad"} -> r.v = it.v
       [] it.k = "str" -> r.v = it.b
       [] it.k = "raw" -> r.v = it.b /\ r.tag = it.tag /\ r.rc = Len(it.b)
       [] it.k \in {"tv", "tvpad"} -> r.s = it.s /\ r.u = it.u

ItemTable ==
  << [k |-> "int", tag |-> <<1>>, v |-> <<>>],
     [k |-> "int", tag |-> <<127>>, v |-> <<15>>],
     [k |-> "int", tag |-> <<0, 1>>, v |-> <<0, 1>>],
     [k |-> "int", tag |-> <<>>, v |-> <<15, 15, 15, 15, 15, 15, 15, 15>>],
     [k |-> "int", tag |-> <<127, 127, 127, 127, 15>>, v |-> <<0, 0, 8>>],
     [k |-> "i64", tag |-> <<2>>, v |-> <<0, 0, 0, 0, 0, 0, 0, 0, 1>>],
     [k |-> "i64", tag |-> <<3>>, v |-> [i \in 1..16 |-> 15]],
     [k |-> "i64", tag |-> <<0, 0, 1>>, v |-> <<7>>],
     [k |-> "str", tag |-> <<4>>, b |-> <<>>],
     [k |-> "str", tag |-> <<5>>, b |-> Pay(15, TRUE)],
     [k |-> "str", tag |-> <<127, 127>>, b |-> Pay(16, TRUE)],
     [k |-> "str", tag |-> <<6>>, b |-> Pay(256, TRUE)],
     [k |-> "raw", tag |-> <<7>>, b |-> <<0, 255, 0>>],
     [k |-> "raw", tag |-> <<0, 0, 0, 1>>, b |-> Pay(17, FALSE)],
     [k |-> "tv", tag |-> <<8>>, s |-> <<>>, u |-> <<>>],
     [k |-> "tv", tag |-> <<9>>, s |-> <<15, 15, 15, 15, 15, 15, 15, 7>>, u |-> <<15, 3, 2, 4, 15>>],    \* 0x7fffffff s 999999 us
     [k |-> "intpad", tag |-> <<10>>, v |-> <<>>, pad |-> 2],
     [k |-> "intpad", tag |-> <<11>>, v |-> <<15, 15, 15>>, pad |-> 1],
     [k |-> "i64pad", tag |-> <<12>>, v |-> <<1, 0, 0, 0, 0, 0, 0, 0, 8>>, pad |-> 3],
     [k |-> "tvpad", tag |-> <<13>>, s |-> <<1>>, u |-> <<2>>, pad |-> 2] >>

(* single items: every value x every tag, strings across the length-nibble boundaries *)
OneTable ==
  LET vals64 == Values(16)
      vals32 == Values(8)
      strl == {0, 1, 15, 16, 17, 255, 256, 257}
  IN  {[k |-> "i64", tag |-> tg, v |-> v] : tg \in Tags, v \in vals64}
 \cup {[k |-> "int", tag |-> tg, v |-> v] : tg \in Tags, v \in vals32}
 \cup {[k |-> "str", tag |-> tg, b |-> Pay(n, TRUE)] : tg \in Tags, n \in strl}
 \cup {[k |-> "raw", tag |-> tg, b |-> Pay(n, FALSE)] : tg \in Tags, n \in strl}
 \cup {[k |-> "tv", tag |-> tg, s |-> s, u |-> u] : tg \in {<<>>, <<0, 1>>}, s \in {<<>>, <<1>>, ValOf(8, 15, 15)},
                                                     u \in {<<>>, <<15, 3, 2, 4, 15>>}}

ByteAlpha == CASE Alphabet = "b5" -> <<0, 15, 127, 128, 255>>
               [] Alphabet = "b4" -> <<0, 15, 16, 128>>
               [] Alphabet = "b3" -> <<0, 1, 2>>         \* small lengths: items that really decode, also with slack

-----------------------------------------------------------------------------
(* state: "rt": word of ItemTable indices; "one": <<>> or <<item>>; "dec": word of bytes *)
Init == w = <<>>
Grow == /\ Len(w) < MaxLen
        /\ CASE Mode = "rt"  -> \E i \in 1..Len(ItemTable) : w' = Append(w, ItemTable[i])
             [] Mode = "one" -> \E it \in OneTable : w' = <<it>>
             [] Mode = "dec" -> \E i \in 1..Len(ByteAlpha) : w' = Append(w, ByteAlpha[i])
Next == Grow
Spec == Init /\ [][Next]_vars

Wire(items) == Flatten([i \in 1..Len(items) |-> Marshal(items[i])])

-----------------------------------------------------------------------------
(* laws *)
(* every value at every encoding length survives, with the documented encoded size *)
CodecLaw ==
  /\ \A v \in Values(16) : LET e == EncInt(v) IN
        /\ Len(e) = (IF v = <<>> THEN 1 ELSE (Len(v) \div 2) + 1)
        /\ DecInt(e, 16) = [ok |-> TRUE, v |-> v, n |-> Len(e)]
        /\ DecInt(e \o <<255>>, 16).n = Len(e)
        /\ (Len(v) <= 8 <=> DecInt(e, 8).ok)
        /\ (Len(e) > 1 => ~DecInt(Take(e, Len(e) - 1), 16).ok)             \* truncated
  /\ \A g \in Tags : /\ DecTag(EncTag(g)) = [ok |-> TRUE, tag |-> g, n |-> Len(EncTag(g))]
                     /\ DecTag(EncTag(g) \o <<128>>).n = Len(EncTag(g))
                     /\ ~DecTag(Take(EncTag(g), Len(EncTag(g)) - 1)).ok
RECURSIVE ReadBack(_, _)
ReadBack(items, b) ==          \* unmarshal in order: every item returned, exactly the rest left
  IF items = <<>> THEN b = <<>>
  ELSE LET r == Unmarshal(items[1], b)
       IN Returned(items[1], r) /\ r.rest = Wire(Tail(items)) /\ ReadBack(Tail(items), r.rest)
DecodeEncode == Mode \in {"rt", "one"} => ReadBack(w, Wire(w))

(* arbitrary bytes: a successful typed unmarshal consumed exactly one well-formed TaggedData *)
OneItem ==
  Mode = "dec" =>
    LET h == Header(w)
    IN \A r \in {UnRaw(w), UnInt(w, <<>>, 8), UnInt(w, <<15>>, 16), UnStr(w, <<0, 1>>), UnTv(w, <<>>), UnFixed(w, <<>>, 1)} :
         r.ok => /\ h.ok
                 /\ r.rest = h.rest
                 /\ w = Take(w, h.hdr) \o h.payload \o h.rest

-----------------------------------------------------------------------------
(* generation *)
RECURSIVE Steps(_, _)
Steps(items, b) ==
  IF items = <<>> THEN <<>>
  ELSE LET r == Unmarshal(items[1], b)
           h == Header(b)
       IN <<[tag |-> h.tag, plen |-> h.lenv, total |-> h.hdr + h.len, r |-> [x \in DOMAIN r \ {"rest"} |-> r[x]],
             rem |-> Len(r.rest)]>> \o Steps(Tail(items), r.rest)
Opt(r) == IF r.ok THEN [x \in (DOMAIN r \ {"rest"}) \cup {"rem"} |-> IF x = "rem" THEN Len(r.rest) ELSE r[x]]
          ELSE [ok |-> FALSE]
DecRec ==
  LET t == DecTag(w)
      i32 == DecInt(w, 8)
      i64 == DecInt(w, 16)
      h == Header(w)
      hx == LET tt == DecTag(w) IN IF tt.ok THEN DecInt(Drop(w, tt.n), 8) ELSE Fail   \* tag + length without payload check
  IN [b |-> w,
      dtag |-> IF t.ok THEN [ok |-> TRUE, tag |-> t.tag, rc |-> t.n, rem |-> Len(w) - t.n] ELSE Fail,
      dint |-> IF i32.ok THEN [ok |-> TRUE, v |-> i32.v, rem |-> Len(w) - i32.n] ELSE Fail,
      di64 |-> IF i64.ok THEN [ok |-> TRUE, v |-> i64.v, rem |-> Len(w) - i64.n] ELSE Fail,
      plen |-> IF hx.ok THEN [ok |-> TRUE, v |-> hx.v] ELSE Fail,
      tot  |-> IF hx.ok /\ Len(hx.v) <= 6 THEN NibVal(hx.v) + t.n + hx.n ELSE -1,     \* -1: fails or not compared
      hdr  |-> IF h.ok THEN [ok |-> TRUE, tag |-> h.tag, rc |-> h.len, rem |-> Len(w) - h.hdr] ELSE Fail,
      cons |-> IF h.ok THEN [ok |-> TRUE, rem |-> Len(h.rest)] ELSE Fail,
      raw  |-> Opt(UnRaw(w)),
      int0 |-> Opt(UnInt(w, <<>>, 8)), int15 |-> Opt(UnInt(w, <<15>>, 8)),
      i640 |-> Opt(UnInt(w, <<>>, 16)), i6415 |-> Opt(UnInt(w, <<15>>, 16)),
      str0 |-> Opt(UnStr(w, <<>>)), str128 |-> Opt(UnStr(w, <<0, 1>>)),
      tv0  |-> Opt(UnTv(w, <<>>)),
      fix0 |-> Opt(UnFixed(w, <<>>, 0)), fix1 |-> Opt(UnFixed(w, <<>>, 1)), fix15 |-> Opt(UnFixed(w, <<>>, 15))]
Emit == PrintT(ToJson(IF Mode = "dec" THEN DecRec
                      ELSE [items |-> w, wire |-> Wire(w), steps |-> Steps(w, Wire(w))]))
=============================================================================
