----------------------------- MODULE DnsMsg -----------------------------
(* Reference model of DNS messages at byte level (RFC 1035 4.1, RFC 6891 OPT) for
   properties C33 C35 C36 C37.

   A message is a sequence of bytes (0..255).  This module defines
     - the token level (header, questions, RRs, names as sequences of parts: literal
       label / compression pointer / root / raw bytes) and its byte encoding `Enc*`;
     - the reference decoder `Decode` (names with compression, pointer chains bounded,
       sections decoded according to the header counts, nothing read past the end);
     - the reference semantics used as oracles:
         ClientResult   what a resolver callback may receive for a reply      (C33)
         ServerResult   what an evdns server port must do with a request      (C37)
         EncodeOK       what a server response must look like on the wire     (C35)
         QueryOK        what a resolver query must look like on the wire      (C36)
     - generators: the adversarial message space enumerated by TLC, every message
       printed with its bytes and the reference's verdict (binding G), and
     - Validate* : the same oracles applied to bytes produced by the real library,
       read from a JSON vector file (binding V; see DnsMsgV.tla).
*)
EXTENDS Integers, Sequences, FiniteSets, TLC, Json

Min(a, b) == IF a < b THEN a ELSE b
Max(a, b) == IF a > b THEN a ELSE b
RECURSIVE Flat(_)
Flat(ss) == IF ss = <<>> THEN <<>> ELSE Head(ss) \o Flat(Tail(ss))
RECURSIVE RepSeq(_, _)
RepSeq(s, n) == IF n = 0 THEN <<>> ELSE s \o RepSeq(s, n - 1)
W16(n) == <<(n \div 256) % 256, n % 256>>
Lower(c) == IF c >= 65 /\ c <= 90 THEN c + 32 ELSE c
LowerSeq(s) == [i \in 1..Len(s) |-> Lower(s[i])]
LowerName(n) == [i \in 1..Len(n) |-> LowerSeq(n[i])]
IsPrefix(s, t) == Len(s) <= Len(t) /\ s = SubSeq(t, 1, Len(s))

TYPE_A == 1
TYPE_NS == 2
TYPE_CNAME == 5
TYPE_SOA == 6
TYPE_PTR == 12
TYPE_TXT == 16
TYPE_AAAA == 28
TYPE_OPT == 41
CLASS_IN == 1
NameTypes == {TYPE_NS, TYPE_CNAME, TYPE_PTR}     \* rdata is exactly one domain name

----------------------------------------------------------------------------
(* Token level and encoding.  Offsets are 0-based as on the wire; b[o + 1] is the byte at offset o. *)
L(bytes) == [k |-> "L", b |-> bytes]             \* literal label
P(off) == [k |-> "P", off |-> off]               \* compression pointer
Z == [k |-> "Z"]                                 \* root
R(bytes) == [k |-> "R", b |-> bytes]             \* raw bytes (reserved label types, lying lengths)
EncPart(p) == CASE p.k = "L" -> <<Len(p.b)>> \o p.b
                [] p.k = "P" -> <<192 + (p.off \div 256), p.off % 256>>
                [] p.k = "Z" -> <<0>>
                [] OTHER -> p.b
RECURSIVE EncName(_)
EncName(ps) == IF ps = <<>> THEN <<>> ELSE EncPart(Head(ps)) \o EncName(Tail(ps))
RECURSIVE Labels(_)
Labels(ls) == IF ls = <<>> THEN <<Z>> ELSE <<L(Head(ls))>> \o Labels(Tail(ls))   \* plain name from label byte strings

Question(n, t, c) == [n |-> n, t |-> t, c |-> c]
EncQ(q) == EncName(q.n) \o W16(q.t) \o W16(q.c)
(* rk = "raw": rdata bytes rb;  rk = "name": rdata is the name expression rn;  rl >= 0 overrides RDLENGTH *)
RRraw(n, t, c, ttl, rb) == [n |-> n, t |-> t, c |-> c, ttl |-> ttl, rk |-> "raw", rb |-> rb, rn |-> <<>>, rl |-> -1]
RRname(n, t, c, ttl, rn) == [n |-> n, t |-> t, c |-> c, ttl |-> ttl, rk |-> "name", rb |-> <<>>, rn |-> rn, rl |-> -1]
RData(r) == IF r.rk = "raw" THEN r.rb ELSE EncName(r.rn)
EncRR(r) == EncName(r.n) \o W16(r.t) \o W16(r.c) \o W16(r.ttl \div 65536) \o W16(r.ttl % 65536)
            \o W16(IF r.rl >= 0 THEN r.rl ELSE Len(RData(r))) \o RData(r)
RECURSIVE EncQs(_)
EncQs(qs) == IF qs = <<>> THEN <<>> ELSE EncQ(Head(qs)) \o EncQs(Tail(qs))
RECURSIVE EncRRs(_)
EncRRs(rs) == IF rs = <<>> THEN <<>> ELSE EncRR(Head(rs)) \o EncRRs(Tail(rs))
Hdr(id, flags, qd, an, ns, ar) == W16(id) \o W16(flags) \o W16(qd) \o W16(an) \o W16(ns) \o W16(ar)
(* m = [id, flags, cnt (<<qd, an, ns, ar>> as declared), q, an, ns, ar, cut (bytes removed from the end)] *)
EncMsg(m) == LET full == Hdr(m.id, m.flags, m.cnt[1], m.cnt[2], m.cnt[3], m.cnt[4])
                         \o EncQs(m.q) \o EncRRs(m.an) \o EncRRs(m.ns) \o EncRRs(m.ar)
             IN SubSeq(full, 1, Max(0, Len(full) - m.cut))

----------------------------------------------------------------------------
(* Reference decoder *)
U8(b, o) == b[o + 1]
U16(b, o) == b[o + 1] * 256 + b[o + 2]
NameFail == [ok |-> FALSE, labels |-> <<>>, next |-> 0, ptrs |-> <<>>, lits |-> <<>>, wire |-> 0]
(* ParseName(b, o): labels of the name at offset o; next = offset after the name in place;
   ptrs = pointer targets followed (in order); lits = offsets of the literal labels read in place
   (before the first pointer); wire = length of the uncompressed name.  A chain of more than
   Len(b) pointers is a loop. *)
RECURSIVE PN(_, _, _, _, _, _, _, _)
PN(b, o, acc, next, hops, ptrs, lits, wire) ==
  IF o >= Len(b) THEN NameFail
  ELSE LET c == U8(b, o) IN
    IF c = 0 THEN [ok |-> TRUE, labels |-> acc, next |-> IF next < 0 THEN o + 1 ELSE next, ptrs |-> ptrs, lits |-> lits, wire |-> wire + 1]
    ELSE IF c >= 192 THEN
      IF o + 1 >= Len(b) \/ hops >= Len(b) THEN NameFail
      ELSE LET tgt == (c - 192) * 256 + U8(b, o + 1) IN
           IF tgt >= Len(b) THEN NameFail
           ELSE PN(b, tgt, acc, IF next < 0 THEN o + 2 ELSE next, hops + 1, Append(ptrs, tgt), lits, wire)
    ELSE IF c >= 64 THEN NameFail                      \* reserved label types
    ELSE IF o + 1 + c > Len(b) THEN NameFail
    ELSE PN(b, o + 1 + c, Append(acc, SubSeq(b, o + 2, o + 1 + c)), next, hops, ptrs,
            IF next < 0 THEN Append(lits, o) ELSE lits, wire + 1 + c)
ParseName(b, o) == PN(b, o, <<>>, -1, 0, <<>>, <<>>, 0)

(* Decoding state threaded through the sections: o = current offset, known = offsets at which a label
   of an earlier name starts (legal compression targets), strict = every pointer so far targets one of them
   from a larger offset and no name exceeds 255 bytes *)
NameStrict(pn, known, o) == pn.wire <= 255 /\ \A i \in 1..Len(pn.ptrs) : pn.ptrs[i] \in known /\ pn.ptrs[i] < o
LitSet(pn) == {pn.lits[i] : i \in 1..Len(pn.lits)}

RECURSIVE DecQs(_, _, _, _, _, _)
DecQs(b, o, n, acc, known, strict) ==
  IF n = 0 THEN [ok |-> TRUE, o |-> o, v |-> acc, known |-> known, strict |-> strict]
  ELSE LET pn == ParseName(b, o) IN
       IF ~pn.ok \/ pn.next + 4 > Len(b) THEN [ok |-> FALSE, o |-> o, v |-> acc, known |-> known, strict |-> strict]
       ELSE DecQs(b, pn.next + 4, n - 1, Append(acc, [n |-> pn.labels, t |-> U16(b, pn.next), c |-> U16(b, pn.next + 2)]),
                  known \cup LitSet(pn), strict /\ NameStrict(pn, known, o))

(* one RR: [n, t, c, ttl (or -1 when >= 2^31), rd (raw rdata), rdn (labels of the rdata name for NameTypes),
   rdok (rdata of a NameType is exactly one name)] *)
RECURSIVE DecRRs(_, _, _, _, _, _)
DecRRs(b, o, n, acc, known, strict) ==
  IF n = 0 THEN [ok |-> TRUE, o |-> o, v |-> acc, known |-> known, strict |-> strict]
  ELSE LET pn == ParseName(b, o)
           bad == [ok |-> FALSE, o |-> o, v |-> acc, known |-> known, strict |-> strict] IN
       IF ~pn.ok \/ pn.next + 10 > Len(b) THEN bad
       ELSE LET f == pn.next
                rdlen == U16(b, f + 8)
                rdo == f + 10
                hi == U16(b, f + 4)
                t == U16(b, f)
                k1 == known \cup LitSet(pn)
                s1 == strict /\ NameStrict(pn, known, o)
            IN IF rdo + rdlen > Len(b) THEN bad
               ELSE LET rd == SubSeq(b, rdo + 1, rdo + rdlen)
                        isn == t \in NameTypes
                        rn == IF isn THEN ParseName(b, rdo) ELSE NameFail
                        rdok == isn => (rn.ok /\ rn.next = rdo + rdlen)
                        rr == [n |-> pn.labels, t |-> t, c |-> U16(b, f + 2),
                               ttl |-> IF hi >= 32768 THEN -1 ELSE hi * 65536 + U16(b, f + 6),
                               rd |-> rd, rdn |-> IF isn /\ rn.ok THEN rn.labels ELSE <<>>, rdok |-> rdok]
                    IN DecRRs(b, rdo + rdlen, n - 1, Append(acc, rr),
                              IF isn /\ rdok THEN k1 \cup LitSet(rn) ELSE k1,
                              IF isn /\ rdok THEN s1 /\ NameStrict(rn, k1, rdo) ELSE s1)

(* Decode(b): ok = the header and everything its counts announce is present and well formed.
   lvl = number of sections fully decoded (0..4) when not ok. *)
Decode(b) ==
  IF Len(b) < 12 THEN [ok |-> FALSE, hdr |-> FALSE, lvl |-> 0]
  ELSE LET id == U16(b, 0)
           flags == U16(b, 2)
           q == DecQs(b, 12, U16(b, 4), <<>>, {}, TRUE)
           an == IF q.ok THEN DecRRs(b, q.o, U16(b, 6), <<>>, q.known, q.strict) ELSE q
           ns == IF an.ok THEN DecRRs(b, an.o, U16(b, 8), <<>>, an.known, an.strict) ELSE an
           ar == IF ns.ok THEN DecRRs(b, ns.o, U16(b, 10), <<>>, ns.known, ns.strict) ELSE ns
       IN [ok |-> ar.ok, hdr |-> TRUE, id |-> id, flags |-> flags,
           qr |-> flags \div 32768, opcode |-> (flags \div 2048) % 16, tc |-> (flags \div 512) % 2,
           rd |-> (flags \div 256) % 2, cd |-> (flags \div 16) % 2, rcode |-> flags % 16,
           cnt |-> <<U16(b, 4), U16(b, 6), U16(b, 8), U16(b, 10)>>,
           q |-> q.v, qok |-> q.ok, an |-> IF q.ok THEN an.v ELSE <<>>, anok |-> q.ok /\ an.ok,
           ns |-> IF q.ok /\ an.ok THEN ns.v ELSE <<>>, ar |-> IF q.ok /\ an.ok /\ ns.ok THEN ar.v ELSE <<>>,
           end |-> ar.o, strict |-> ar.strict, exact |-> ar.ok /\ ar.o = Len(b)]

----------------------------------------------------------------------------
(* C33: what the callback of a pending query may receive for reply bytes b.
   query = [id, name (labels), type (TYPE_A / TYPE_AAAA / TYPE_PTR), randcase (BOOLEAN)].
   Result: [k |-> "ignored"]                   the packet is not a reply to this query: no callback
           [k |-> "error"]                     the callback must report an error
           [k |-> "ok", ...]                   the callback must report exactly this data
           [k |-> "open", ...]                 the reply is irregular but readable: an error, or exactly this data
           [k |-> "any"]                       the reply is malformed after a matching question: anything but a crash
   data:   addrs   (A / AAAA) the addresses of the class-IN answer RRs of the queried type, in order
           ptrs    (PTR) the admissible [name, ttl] pairs (one per PTR RR in the answer section)
           maxttl  (A / AAAA) the minimum TTL of the records used
           cnames  the targets of the CNAME RRs of the answer section (the reported CNAME is one of them) *)
NameEq(a, b, nocase) == IF nocase THEN LowerName(a) = LowerName(b) ELSE a = b
AddrLen(t) == IF t = TYPE_A THEN 4 ELSE 16
RECURSIVE Chunks(_, _)
Chunks(s, n) == IF Len(s) < n THEN <<>> ELSE <<SubSeq(s, 1, n)>> \o Chunks(SubSeq(s, n + 1, Len(s)), n)
RECURSIVE MinTtl(_)
MinTtl(rs) == IF Len(rs) = 1 THEN rs[1].ttl ELSE Min(rs[1].ttl, MinTtl(Tail(rs)))

ClientResult(b, query) ==
  LET d == Decode(b) IN
  IF ~d.hdr \/ d.id # query.id \/ d.qr = 0 THEN [k |-> "ignored"]
  ELSE
    LET qmatch == \E i \in 1..Len(d.q) : NameEq(d.q[i].n, query.name, query.randcase)
        qexact == Len(d.q) = 1 /\ d.cnt[1] = 1 /\ d.q[1].t = query.type /\ d.q[1].c = CLASS_IN
        used == SelectSeq(d.an, LAMBDA r : r.t = query.type /\ r.c = CLASS_IN)
        cn == SelectSeq(d.an, LAMBDA r : r.t = TYPE_CNAME)
        cnames == [i \in 1..Len(cn) |-> cn[i].rdn]
        isaddr == query.type \in {TYPE_A, TYPE_AAAA}
        regular == \A i \in 1..Len(used) : used[i].ttl >= 0 /\ (IF isaddr THEN Len(used[i].rd) = AddrLen(query.type) ELSE used[i].rdok)
        cnok == \A i \in 1..Len(cn) : cn[i].rdok
        data == IF isaddr
                THEN [addrs |-> Flat([i \in 1..Len(used) |-> Chunks(used[i].rd, AddrLen(query.type))]), ptrs |-> <<>>,
                      maxttl |-> IF used = <<>> THEN 0 ELSE MinTtl(used), cnames |-> cnames]
                ELSE [addrs |-> <<>>, ptrs |-> [i \in 1..Len(used) |-> [n |-> used[i].rdn, ttl |-> used[i].ttl]],
                      maxttl |-> 0, cnames |-> cnames]
    IN
    IF ~d.qok \/ ~qmatch THEN [k |-> "error"]              \* never used: the question is not ours
    ELSE IF ~d.ok \/ ~cnok THEN [k |-> "any"]              \* malformed beyond the question: nothing can be demanded (sanitizer only)
    ELSE IF used = <<>> THEN [k |-> "error"]               \* nothing of the queried type in the answer section
    ELSE IF d.exact /\ d.strict /\ d.rcode = 0 /\ d.tc = 0 /\ qexact /\ regular THEN [k |-> "ok"] @@ data
    ELSE [k |-> "open"] @@ data

----------------------------------------------------------------------------
(* C37: what a server port must do with request bytes b (one UDP datagram / one TCP message).
   [k |-> "none", why] no user callback (malformed, or not a query); any response is acceptable
                       why = "hdr" | "opcode" | "q" | "rr" (sections after the questions malformed)
   [k |-> "notimpl"]   no user callback; a response with RCODE 4 (NOTIMPL)
   [k |-> "call", q, rd, limit]   user callback with exactly these questions; limit = reply size limit over UDP
   [k |-> "open", ...] irregular but readable: "call" with this data, or "none" *)
(* names the evdns API can hand to the callback: C strings with '.' between labels *)
Representable(qs) == \A i \in 1..Len(qs) : \A j \in 1..Len(qs[i].n) : \A x \in 1..Len(qs[i].n[j]) : qs[i].n[j][x] \notin {0, 46}
ServerResult(b) ==
  LET d == Decode(b)
      qv == [i \in 1..Len(d.q) |-> [n |-> d.q[i].n, t |-> d.q[i].t, c |-> d.q[i].c]] IN
  IF ~d.hdr \/ d.qr = 1 THEN [k |-> "none", why |-> "hdr"]
  ELSE IF d.opcode # 0 THEN (IF d.ok /\ d.exact /\ d.strict THEN [k |-> "notimpl"] ELSE [k |-> "none", why |-> "opcode"])
  ELSE IF ~d.qok THEN [k |-> "none", why |-> "q"]
  ELSE IF ~d.ok THEN [k |-> "none", why |-> "rr", q |-> qv, rd |-> d.rd]   \* the questions are readable, what follows is not
  ELSE LET opts == SelectSeq(d.ar, LAMBDA r : r.t = TYPE_OPT)
           limit == IF opts = <<>> THEN 512 ELSE Max(512, opts[1].c)
           call == [q |-> qv, rd |-> d.rd, limit |-> limit, edns |-> opts # <<>>, repr |-> Representable(d.q)]
       IN IF d.exact /\ d.strict /\ Len(d.q) >= 1 /\ d.tc = 0 /\ d.rcode = 0 /\ Len(opts) <= 1
          THEN [k |-> "call"] @@ call ELSE [k |-> "open"] @@ call

----------------------------------------------------------------------------
(* C35: bytes b sent by a server port for a request with questions qs to which the callback added
   records exp = <<answers, authority, additional>> (each [n, t, c, ttl, rd | rdn]) under size limit
   `limit` (0 = TCP, no limit below 65535). *)
RRView(r) == [n |-> r.n, t |-> r.t, c |-> r.c, ttl |-> r.ttl, rd |-> IF r.t \in NameTypes THEN <<>> ELSE r.rd, rdn |-> r.rdn]
Views(rs) == [i \in 1..Len(rs) |-> RRView(rs[i])]
RECURSIVE PlainLen(_)
PlainLen(rs) == IF rs = <<>> THEN 0
                ELSE LET r == Head(rs)
                         nl(n) == Len(EncName(Labels(n)))
                     IN nl(r.n) + 10 + (IF r.t \in NameTypes THEN nl(r.rdn) ELSE Len(r.rd)) + PlainLen(Tail(rs))
(* length of the response when no name is compressed *)
PlainTotal(qs, exp) == 12 + Len(EncQs([i \in 1..Len(qs) |-> Question(Labels(qs[i].n), qs[i].t, qs[i].c)]))
                       + PlainLen(exp[1]) + PlainLen(exp[2]) + PlainLen(exp[3])
EncodeOK(b, qs, exp, limit) ==
  LET d == Decode(b)
      lim == IF limit = 0 THEN 65535 ELSE limit
      plain == PlainTotal(qs, exp)
  IN /\ d.hdr /\ d.qr = 1
     /\ Len(b) <= lim
     /\ d.ok                                          \* the counts never describe records that are not present
     /\ d.strict                                      \* every pointer targets an earlier label of an earlier name
     /\ d.q = qs
     /\ IF d.tc = 0
        THEN d.exact /\ Views(d.an) = exp[1] /\ Views(d.ns) = exp[2] /\ Views(d.ar) = exp[3]
        ELSE /\ plain > lim                           \* truncation only when the message does not fit
             /\ IsPrefix(Views(d.an), exp[1]) /\ IsPrefix(Views(d.ns), exp[2]) /\ IsPrefix(Views(d.ar), exp[3])

(* Size boundary.  When no two names of the message share a suffix nothing can be compressed, so every encoder produces
   exactly PlainTotal bytes and the truncation decision is fully determined: TC (and a cut) iff PlainTotal > limit;
   a response of exactly `limit` bytes is sent whole. *)
NameSuffixes(nm) == {SubSeq(nm, i, Len(nm)) : i \in 1..Len(nm)}
AllNames(qs, exp) == [i \in 1..Len(qs) |-> qs[i].n] \o Flat([s \in 1..3 |-> Flat([i \in 1..Len(exp[s]) |->
                        IF exp[s][i].t \in NameTypes THEN <<exp[s][i].n, exp[s][i].rdn>> ELSE <<exp[s][i].n>>])])
Incompressible(qs, exp) == LET ns == AllNames(qs, exp) IN
                           \A i, j \in 1..Len(ns) : i < j => NameSuffixes(ns[i]) \cap NameSuffixes(ns[j]) = {}
BoundaryOK(b, qs, exp, limit) ==
  LET d == Decode(b)
      lim == IF limit = 0 THEN 65535 ELSE limit
      total == PlainTotal(qs, exp)
  IN /\ Incompressible(qs, exp)
     /\ d.hdr
     /\ (d.tc = 1) <=> (total > lim)
     /\ (d.tc = 0) => Len(b) = total

(* why EncodeOK fails (diagnostics for the report) *)
EncodeWhy(b, qs, exp, limit) ==
  LET d == Decode(b)
      lim == IF limit = 0 THEN 65535 ELSE limit IN
  IF ~d.hdr THEN "no header" ELSE IF d.qr = 0 THEN "QR clear" ELSE IF Len(b) > lim THEN "longer than the limit"
  ELSE IF ~d.ok THEN "header counts describe records that are not present / malformed record"
  ELSE IF ~d.strict THEN "compression pointer does not target an earlier label"
  ELSE IF d.q # qs THEN "questions differ"
  ELSE IF d.tc = 0 /\ ~d.exact THEN "trailing bytes"
  ELSE IF d.tc = 0 THEN "records differ from those added" ELSE "truncated: not a prefix of the records added, or it would have fitted"

----------------------------------------------------------------------------
(* C36: bytes b transmitted by the resolver for (name labels, type) with 0x20 randomisation on/off and
   EDNS payload size edns (0 = EDNS not configured). *)
QueryOK(b, name, type, randcase, edns) ==
  LET d == Decode(b) IN
  /\ d.hdr /\ d.ok /\ d.exact
  /\ d.qr = 0 /\ d.opcode = 0 /\ d.tc = 0 /\ d.rd = 1 /\ d.rcode = 0
  /\ d.cnt = <<1, 0, 0, IF edns > 0 THEN 1 ELSE 0>>
  /\ d.q[1].t = type /\ d.q[1].c = CLASS_IN
  /\ NameEq(d.q[1].n, name, randcase)
  /\ \A i \in 1..Len(d.q[1].n) : Len(d.q[1].n[i]) >= 1          \* 1..63 is enforced by the decoder
  /\ ParseName(b, 12).wire <= 255 /\ ParseName(b, 12).ptrs = <<>>
  /\ (edns > 0 => d.ar[1].n = <<>> /\ d.ar[1].t = TYPE_OPT /\ d.ar[1].c = edns /\ d.ar[1].rd = <<>>)

----------------------------------------------------------------------------
(* Internal consistency of the reference (checked by TLC over the generated space):
   decode(encode(m)) = m for plain messages, pointer chains terminate, verdicts are total. *)
PlainRR(r) == [n |-> r.n, t |-> r.t, c |-> r.c, ttl |-> r.ttl, rd |-> r.rd]

=============================================================================
