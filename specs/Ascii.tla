------------------------------- MODULE Ascii -------------------------------
(* Locale-independent ASCII helpers of evutil.c (property C41):

     EVUTIL_ISALPHA_ ... EVUTIL_ISUPPER_, EVUTIL_TOLOWER_, EVUTIL_TOUPPER_   (tables)
     evutil_ascii_strcasecmp, evutil_ascii_strncasecmp, evutil_ascii_strcasestr
     evutil_rtrim_lws_, evutil_snprintf, evutil_sockaddr_cmp

   Mode "tab" : one state; Emit prints the class predicates and case maps for
                all 256 bytes, defined by ranges (TabLaws relates them).
   Mode "str" : the state is a pair of words <<a, b>> over a boundary alphabet
                (a A z Z @ [ ` { 0 SP TAB 0x80 0xFF); Emit prints the reference
                results for strcasecmp(a,b), strncasecmp(a,b,n) n = 0..3,
                strcasestr(a,b), rtrim(a) and snprintf("%s", a) into every
                buffer size; StrLaws are the laws of the reference.
   Mode "trim": one word over {v SP TAB VT FF CR LF}: rtrim removes blanks and tabs only.
   Mode "cmp" : binding V for evutil_sockaddr_cmp.  The property fixes that the
                comparison is a consistent total order that treats equal
                addresses (and ports, when requested) as equal - not which
                order.  Emit (mode "addrs") prints the address table; the
                driver dumps the full comparison matrices (sign only) to a JSON
                file; TLC reads it (IOEnv.CMPDUMP) and decides TotalOrder.

   The sign of a comparison whose first difference involves a byte >= 0x80 is
   left open (2 = "non-zero"): ASCII does not order such bytes.
*)
EXTENDS Integers, Sequences, FiniteSets, TLC, Json, IOUtils

CONSTANTS Mode, MaxA, MaxB

VARIABLES a, b
vars == <<a, b>>

-----------------------------------------------------------------------------
(* character classes by ranges *)
IsUpper(c) == c >= 65 /\ c <= 90
IsLower(c) == c >= 97 /\ c <= 122
IsAlpha(c) == IsUpper(c) \/ IsLower(c)
IsDigit(c) == c >= 48 /\ c <= 57
IsAlnum(c) == IsAlpha(c) \/ IsDigit(c)
IsXDigit(c) == IsDigit(c) \/ (c >= 65 /\ c <= 70) \/ (c >= 97 /\ c <= 102)
IsSpace(c) == c = 32 \/ (c >= 9 /\ c <= 13)
IsPrint(c) == c >= 32 /\ c <= 126
ToLower(c) == IF IsUpper(c) THEN c + 32 ELSE c
ToUpper(c) == IF IsLower(c) THEN c - 32 ELSE c

Bit(p) == IF p THEN 1 ELSE 0
(* C99 snprintf of a text of full length into a buffer of n bytes (n = 0: nothing is written) *)
Snprintf(full, n) == [ret |-> IF n = 0 THEN 0 ELSE Len(full),
                      out |-> IF n = 0 THEN <<-1>> ELSE SubSeq(full, 1, IF Len(full) < n - 1 THEN Len(full) ELSE n - 1)]
(* the driver's format table: ("%d", -42) ("%x-%s", 255, "ab") ("%05u", 42) ("%c%%", 'z') ("", ) *)
FmtFull == << <<45, 52, 50>>, <<102, 102, 45, 97, 98>>, <<48, 48, 48, 52, 50>>, <<122, 37>>, <<>> >>
TabRec == [alpha  |-> [c \in 1..256 |-> Bit(IsAlpha(c - 1))],
           alnum  |-> [c \in 1..256 |-> Bit(IsAlnum(c - 1))],
           space  |-> [c \in 1..256 |-> Bit(IsSpace(c - 1))],
           digit  |-> [c \in 1..256 |-> Bit(IsDigit(c - 1))],
           xdigit |-> [c \in 1..256 |-> Bit(IsXDigit(c - 1))],
           print  |-> [c \in 1..256 |-> Bit(IsPrint(c - 1))],
           lower  |-> [c \in 1..256 |-> Bit(IsLower(c - 1))],
           upper  |-> [c \in 1..256 |-> Bit(IsUpper(c - 1))],
           tolower |-> [c \in 1..256 |-> ToLower(c - 1)],
           toupper |-> [c \in 1..256 |-> ToUpper(c - 1)],
           fmt |-> [k \in 1..Len(FmtFull) |-> [n \in 1..(Len(FmtFull[k]) + 3) |-> Snprintf(FmtFull[k], n - 1)]]]
TabLaws ==
  \A c \in 0..255 :
    /\ ToLower(ToUpper(c)) = ToLower(c) /\ ToUpper(ToLower(c)) = ToUpper(c)
    /\ (IsUpper(c) <=> ToLower(c) # c) /\ (IsLower(c) <=> ToUpper(c) # c)
    /\ (IsAlpha(c) <=> IsUpper(c) \/ IsLower(c)) /\ ~(IsUpper(c) /\ IsLower(c))
    /\ (IsAlnum(c) => IsXDigit(c) \/ IsAlpha(c)) /\ (IsXDigit(c) => IsAlnum(c)) /\ (IsAlnum(c) => IsPrint(c))
    /\ (c >= 128 => ~IsPrint(c) /\ ~IsSpace(c) /\ ToLower(c) = c /\ ToUpper(c) = c)

-----------------------------------------------------------------------------
(* strings: sequences of bytes 1..255 *)
Take(s, n) == SubSeq(s, 1, n)
Drop(s, n) == SubSeq(s, n + 1, Len(s))
At(s, i) == IF i <= Len(s) THEN s[i] ELSE 0            \* the terminating NUL
Sign(x) == IF x < 0 THEN -1 ELSE IF x > 0 THEN 1 ELSE 0
(* compare at most n characters from position i (n = -1: unbounded) *)
RECURSIVE CmpFrom(_, _, _, _)
CmpFrom(s, t, i, n) ==
  IF n = 0 THEN 0
  ELSE LET cs == ToLower(At(s, i))
           ct == ToLower(At(t, i))
       IN IF cs # ct THEN (IF cs >= 128 \/ ct >= 128 THEN 2 ELSE Sign(cs - ct))
          ELSE IF cs = 0 THEN 0
          ELSE CmpFrom(s, t, i + 1, IF n < 0 THEN n ELSE n - 1)
StrCaseCmp(s, t) == CmpFrom(s, t, 1, -1)
StrNCaseCmp(s, t, n) == CmpFrom(s, t, 1, n)
Fold(s) == [i \in 1..Len(s) |-> ToLower(s[i])]
(* offset (0-based) of the first case-insensitive occurrence of f in s, -1 if none *)
StrCaseStr(s, f) ==
  LET hits == {i \in 0..(Len(s) - Len(f)) : Fold(SubSeq(s, i + 1, i + Len(f))) = Fold(f)}
  IN IF hits = {} THEN -1 ELSE CHOOSE i \in hits : \A j \in hits : i <= j
RECURSIVE Rtrim(_)
Rtrim(s) == IF s # <<>> /\ s[Len(s)] \in {32, 9} THEN Rtrim(Take(s, Len(s) - 1)) ELSE s

(* mode "trim": one word over v SP TAB VT FF CR LF - only blanks and tabs are linear white space *)
Alpha == IF Mode = "trim" THEN <<118, 32, 9, 11, 12, 13, 10>>
         ELSE <<97, 65, 122, 90, 64, 91, 96, 123, 48, 32, 9, 128, 255>>

StrLaws ==
  Mode \in {"str", "trim"} =>
    /\ (StrCaseCmp(a, b) = 0 <=> Fold(a) = Fold(b))
    /\ StrCaseCmp(a, a) = 0
    /\ (StrCaseCmp(a, b) \in {-1, 1} => StrCaseCmp(b, a) = -StrCaseCmp(a, b))
    /\ \A n \in 0..4 : StrNCaseCmp(a, b, n) = StrCaseCmp(Take(a, IF n < Len(a) THEN n ELSE Len(a)),
                                                           Take(b, IF n < Len(b) THEN n ELSE Len(b)))
    /\ (StrCaseStr(a, b) >= 0 <=> \E i \in 0..Len(a) : StrNCaseCmp(Drop(a, i), b, Len(b)) = 0 /\ i + Len(b) <= Len(a))
    /\ StrCaseStr(a, <<>>) = 0
    /\ Rtrim(Rtrim(a)) = Rtrim(a) /\ (Rtrim(a) = <<>> \/ Rtrim(a)[Len(Rtrim(a))] \notin {32, 9})
    /\ Rtrim(a) = Take(a, Len(Rtrim(a)))
    /\ \A i \in (Len(Rtrim(a)) + 1)..Len(a) : a[i] \in {32, 9}        \* nothing but SP / HTAB is removed

StrRec == [a |-> a, b |-> b,
           cmp |-> StrCaseCmp(a, b),
           ncmp |-> [n \in 1..5 |-> StrNCaseCmp(a, b, n - 1)],
           str |-> StrCaseStr(a, b),
           rtrim |-> Rtrim(a),
           snp |-> [n \in 1..(Len(a) + 3) |-> Snprintf(a, n - 1)]]

-----------------------------------------------------------------------------
(* socket addresses: family 4/6, address bytes, port *)
V4(x, y, z, u, p) == [f |-> 4, addr |-> <<x, y, z, u>>, port |-> p]
V6(hi, lo, p) == [f |-> 6, addr |-> <<hi>> \o [i \in 1..14 |-> 0] \o <<lo>>, port |-> p]
Addrs == << V4(0, 0, 0, 0, 0), V4(1, 2, 3, 4, 80), V4(1, 2, 3, 4, 81), V4(1, 2, 3, 4, 20480), V4(4, 3, 2, 1, 80),
            V4(128, 0, 0, 1, 80), V4(255, 255, 255, 255, 65535), V4(1, 2, 3, 4, 80),
            (* last / first octets 1, 100, 200: raw 32-bit values more than 2^31 apart on either byte order *)
            V4(10, 0, 0, 1, 80), V4(10, 0, 0, 100, 80), V4(10, 0, 0, 200, 80),
            V4(1, 0, 0, 10, 80), V4(100, 0, 0, 10, 80), V4(200, 0, 0, 10, 80),
            V6(0, 0, 0), V6(0, 1, 80), V6(0, 1, 443), V6(1, 0, 80), V6(128, 0, 80), V6(255, 255, 65535), V6(0, 1, 80) >>
N == Len(Addrs)
SameAddr(i, j, withPort) == /\ Addrs[i].f = Addrs[j].f /\ Addrs[i].addr = Addrs[j].addr
                            /\ (withPort => Addrs[i].port = Addrs[j].port)
(* the dump: [m0 |-> matrix without ports, m1 |-> matrix with ports], entries are signs *)
Dump == IF Mode = "cmp" THEN JsonDeserialize(IOEnv.CMPDUMP) ELSE [m0 |-> <<>>, m1 |-> <<>>]
TotalOrderOn(m, withPort) ==
  /\ Len(m) = N /\ \A i \in 1..N : Len(m[i]) = N
  /\ \A i, j \in 1..N : m[i][j] \in {-1, 0, 1}
  /\ \A i, j \in 1..N : m[i][j] = -m[j][i]                                   \* antisymmetric
  /\ \A i, j \in 1..N : (m[i][j] = 0 <=> SameAddr(i, j, withPort))           \* equal iff equal
  /\ \A i, j, k \in 1..N : (m[i][j] <= 0 /\ m[j][k] <= 0) => m[i][k] <= 0    \* transitive
(* (a = <<>> keeps the formula state-level so that TLC reports it as an invariant violation) *)
TotalOrder == (Mode = "cmp" /\ a = <<>>) => (TotalOrderOn(Dump.m0, FALSE) /\ TotalOrderOn(Dump.m1, TRUE))

-----------------------------------------------------------------------------
Init == a = <<>> /\ b = <<>>
Grow == /\ Mode \in {"str", "trim"}
        /\ \/ (Len(a) < MaxA /\ b = <<>> /\ \E i \in 1..Len(Alpha) : a' = Append(a, Alpha[i]) /\ b' = b)
           \/ (Len(b) < MaxB /\ \E i \in 1..Len(Alpha) : b' = Append(b, Alpha[i]) /\ a' = a)
Next == Grow
Spec == Init /\ [][Next]_vars

Emit == CASE Mode = "tab"   -> PrintT(ToJson(TabRec))
          [] Mode \in {"str", "trim"} -> PrintT(ToJson(StrRec))
          [] Mode = "addrs" -> PrintT(ToJson(Addrs))
          [] OTHER          -> TRUE
=============================================================================
