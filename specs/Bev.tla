------------------------------- MODULE Bev -------------------------------
(* Bufferevents (bufferevent.c, bufferevent_pair.c, bufferevent_filter.c,
   bufferevent_sock.c) as a state machine; one generic endpoint record, three
   instances selected by Kind:

     "pair"  endpoints 1,2 = bufferevent_pair_new (callbacks always deferred)
     "filt"  endpoints 1,2 = a pair, 3 = bufferevent_filter_new over endpoint 1
             (deferred); the application talks to 3 and 2; endpoint 1 carries the
             be_filter_* callbacks
     "sock"  endpoints 1,2 = bufferevent_socket_new over the two ends of a
             connected stream socket, each on its OWN event_base (so the order
             of callbacks of different file descriptors never matters);
             Conn = TRUE: endpoint 1 starts unconnected and connects to a
             listening / refusing loopback port

   Buffers are lengths of a numbered byte stream (the driver writes byte
   number p of direction d as a function of (p, d) and checks everything it
   reads or finds in a buffer against the numbering, so in-order / no loss / no
   duplication is the conservation law `Conserved` plus the driver's `bad`
   counter being 0).

   The event loop is modelled as far as bufferevents use it: one active queue
   per base (deferred callbacks, expired timeout events, ready I/O events, all
   of the same priority), processed FIFO until empty by one
   event_base_loop(EVLOOP_NONBLOCK) call = one `loop` step, after the virtual
   clock has been advanced by the step's t.

   The timeout part is written at the level of property C20 (a direction's
   timeout runs iff it is enabled, not suspended, (write: has pending output)
   and configured; successful transfers restart it).  Places where the
   implementation is known to differ are not modelled as deviations: the state
   records the trigger in `dv` and the general corpus excludes such histories
   (AvoidKnown); each trigger has a canonical scenario that is expected to fail.
*)
EXTENDS Integers, Sequences, FiniteSets, TLC, Json

CONSTANTS
  Kind,      \* "pair" | "filt" | "sock"
  Acts,      \* API action names the generator may use
  Sizes,     \* write sizes (units)
  WMs,       \* watermark pairs encoded as 10 * lo + hi
  Durs,      \* timeout durations / loop time advances (ticks)
  D,         \* number of generated API steps (two closing loop steps follow)
  Drains,    \* read-callback drain amounts (99 = everything)
  Extras,    \* extra callback actions
  XKinds,    \* callback kinds ("r" "w" "e") that may carry the extra action
  ScriptUntil, \* callback scripts are installed only among the first ScriptUntil steps
  Defer,     \* sock: BEV_OPT_DEFER_CALLBACKS on both ends
  FiltFn,    \* filt: "id" | "one" | "two"
  MaxCb,     \* harness guard: user callbacks per loop step
  TEnd,      \* time advance of the closing loop steps
  RdCap,     \* sock: max units one read event moves (evbuffer max_read)
  WrCap,     \* sock: max units one write event moves (max_single_write)
  Conn,      \* sock: endpoint 1 connects ("none" | "ok" | "refused")
  Allow,     \* known-finding triggers admitted into the corpus (normally {})
  WireCap,   \* sock: histories keep at most this many unread units in a socket (kernel buffers are finite)
  Stall,     \* sock: the peer never reads and more than the kernel's socket buffer is queued: after the first
             \* burst of write events (an amount the model leaves open) the writer's socket is never writable again
  OneWay     \* TRUE: only endpoint 1 writes, only the far end is configured (narrow exhaustive alphabets)

VARIABLES st, hist
vars == <<st, hist>>

NE == IF Kind = "filt" THEN 3 ELSE 2
Eps == 1..NE
App == IF Kind = "filt" THEN {2, 3} ELSE {1, 2}       \* endpoints the application owns
IsPairEp(e) == Kind = "pair" \/ (Kind = "filt" /\ e \in {1, 2})
IsFilt(e) == Kind = "filt" /\ e = 3
IsUnder(e) == Kind = "filt" /\ e = 1
IsSock(e) == Kind = "sock"
P(e) == 3 - e                      \* pair partner / socket peer of e \in {1,2}
Base(e) == IF Kind = "sock" THEN e ELSE 1
Bases == IF Kind = "sock" THEN {1, 2} ELSE {1}
(* far end of the application-level stream that starts at app endpoint e *)
Far(e) == IF Kind = "filt" THEN (IF e = 3 THEN 2 ELSE 3) ELSE P(e)

Min(a, b) == IF a < b THEN a ELSE b
Max(a, b) == IF a > b THEN a ELSE b

(* event flags: BEV_EVENT_READING 1 WRITING 2 EOF 16 ERROR 32 TIMEOUT 64 CONNECTED 128 *)
FMask(f) == (IF "RD" \in f THEN 1 ELSE 0) + (IF "WR" \in f THEN 2 ELSE 0) + (IF "EOF" \in f THEN 16 ELSE 0)
            + (IF "ERR" \in f THEN 32 ELSE 0) + (IF "TMO" \in f THEN 64 ELSE 0) + (IF "CONN" \in f THEN 128 ELSE 0)
EnMask(s) == (IF "R" \in s THEN 2 ELSE 0) + (IF "W" \in s THEN 4 ELSE 0)
Dirs(m) == (IF (m \div 2) % 2 = 1 THEN {"R"} ELSE {}) \cup (IF (m \div 4) % 2 = 1 THEN {"W"} ELSE {})

InitB(e) ==
  [ alive |-> ~(Kind = "sock" /\ Conn = "refused" /\ e = 2),
    lnk |-> IsPairEp(e), in |-> 0, out |-> 0, wr |-> 0, rd |-> 0,
    en |-> IF IsUnder(e) THEN {"R", "W"} ELSE {"W"},
    rs |-> IF IsUnder(e) THEN {"FILT"} ELSE {}, ws |-> {},
    rlo |-> 0, rhi |-> 0, wlo |-> 0, whi |-> 0,
    tor |-> 0, tow |-> 0, rdl |-> -1, wdl |-> -1,
    rp |-> FALSE, wp |-> FALSE, ep |-> {}, cbs |-> TRUE, sref |-> 0,
    dr |-> 0, xa |-> "none", xk |-> "r",
    fin |-> FALSE,                  \* this endpoint has shut down its sending direction
    eofd |-> FALSE,                 \* EOF was reported to this endpoint
    cap |-> 0,                      \* ghost: bound on `in` while rhi > 0 (see InputNeverAboveHigh)
    last |-> 0,                     \* ghost: time of the last successful transfer into / restart of the read direction
    \* socket part
    evr |-> FALSE, evw |-> FALSE, ioord |-> <<>>, wire |-> 0, eof |-> FALSE,
    stalled |-> FALSE,              \* sock, Stall: the kernel buffer is full
    icb |-> FALSE,                  \* filter: bufferevent_filtered_inbuf_cb enabled
    conn |-> IF Kind = "sock" /\ Conn # "none" /\ e = 1 THEN "new" ELSE "ok" ]

InitSt ==
  [ now |-> 0, b |-> [e \in Eps |-> InitB(e)], aq |-> [x \in Bases |-> <<>>],
    log |-> <<>>, ncb |-> 0, closing |-> 0,
    nref |-> 0,                     \* chunks handed to an output buffer by reference (evbuffer_add_reference)
    brk |-> FALSE,                  \* event_base_loopbreak was called in this loop call
    dead |-> FALSE,                 \* the bases were freed (last step of a history)
    fs |-> 0,                       \* directed generation: index of the forced script (0 = free generation)
    dv |-> {},                      \* known-finding triggers met so far
    open |-> FALSE,                 \* behaviour the properties leave open was met
    \* ghosts for the properties
    eofbad |-> FALSE, eofs |-> [e \in Eps |-> 0], lowbad |-> FALSE,
    deadcb |-> FALSE, connbad |-> FALSE, conns |-> 0, tmobad |-> FALSE, whibad |-> FALSE ]

----------------------------------------------------------------------------
(* active queue primitives *)
Item(k, e) == [k |-> k, e |-> e]
InQ(S, k, e) == \E i \in 1..Len(S.aq[Base(e)]) : S.aq[Base(e)][i] = Item(k, e)
Enq(S, k, e) == IF InQ(S, k, e) THEN S ELSE [S EXCEPT !.aq[Base(e)] = Append(@, Item(k, e))]
DeQ(S, k, e) == [S EXCEPT !.aq[Base(e)] = SelectSeq(@, LAMBDA it : it # Item(k, e))]
DeQAll(S, e) == [S EXCEPT !.aq[Base(e)] = SelectSeq(@, LAMBDA it : it.e # e)]
Dv(S, tag) == [S EXCEPT !.dv = @ \cup {tag}]

(* schedule the deferred-callback runner of e (takes a reference when newly queued) *)
Sched(S, e) == IF InQ(S, "def", e) THEN S ELSE [Enq(S, "def", e) EXCEPT !.b[e].sref = @ + 1]

(* bufferevent_trigger_nolock_ / bufferevent_run_eventcb_ with deferred callbacks *)
TrigRD(S, e) == IF S.b[e].in >= S.b[e].rlo /\ S.b[e].cbs THEN Sched([S EXCEPT !.b[e].rp = TRUE], e) ELSE S
TrigWD(S, e) == IF S.b[e].out <= S.b[e].wlo /\ S.b[e].cbs THEN Sched([S EXCEPT !.b[e].wp = TRUE], e) ELSE S
EvD(S, e, f) == IF S.b[e].cbs THEN Sched([S EXCEPT !.b[e].ep = @ \cup f], e) ELSE S

----------------------------------------------------------------------------
(* Timeouts, property level.  Generic (pair / filter) timeout events are plain
   one-shot timers; re-adding one that is already active for its timeout takes
   it off the active queue again (event_add_nolock_). *)
ShouldR(S, e) == "R" \in S.b[e].en /\ S.b[e].rs = {} /\ S.b[e].tor > 0
ShouldW(S, e) == "W" \in S.b[e].en /\ S.b[e].ws = {} /\ S.b[e].tow > 0 /\ S.b[e].out > 0
ArmR(S, e) == [DeQ(S, "rt", e) EXCEPT !.b[e].rdl = S.now + S.b[e].tor, !.b[e].last = S.now]
DelR(S, e) == [DeQ(S, "rt", e) EXCEPT !.b[e].rdl = -1]
ArmW(S, e) == [DeQ(S, "wt", e) EXCEPT !.b[e].wdl = S.now + S.b[e].tow]
DelW(S, e) == [DeQ(S, "wt", e) EXCEPT !.b[e].wdl = -1]
(* restart (or cancel) according to the property *)
FixR(S, e) == IF ShouldR(S, e) THEN ArmR(S, e) ELSE DelR(S, e)
FixW(S, e) == IF ShouldW(S, e) THEN ArmW(S, e) ELSE DelW(S, e)
(* start if it should run and does not, cancel if it should not run *)
KeepW(S, e) == IF ShouldW(S, e) THEN (IF S.b[e].wdl < 0 /\ ~InQ(S, "wt", e) THEN ArmW(S, e) ELSE S) ELSE DelW(S, e)

----------------------------------------------------------------------------
(* ------------------------------ pair ------------------------------------ *)
PairDisable(S, e, evs) ==
  LET S1 == IF "R" \in evs THEN DelR(S, e) ELSE S
  IN IF "W" \in evs THEN DelW(S1, e) ELSE S1

(* bufferevent_inbuf_wm_cb on a pair endpoint, run from inside a transfer into
   it (the nested be_pair_enable cannot transfer again: either everything was
   moved or the input is at its high watermark) *)
PairWmCbIn(S, e) ==
  IF S.b[e].rhi = 0 THEN S
  ELSE IF S.b[e].in >= S.b[e].rhi
       THEN [(IF S.b[e].rs = {} THEN PairDisable(S, e, {"R"}) ELSE S) EXCEPT !.b[e].rs = @ \cup {"WM"}]
       ELSE LET S1 == [S EXCEPT !.b[e].rs = @ \ {"WM"}]
            IN IF S1.b[e].rs = {} /\ "R" \in S1.b[e].en
               THEN (IF S.b[e].rs # {} THEN FixR(S1, e) ELSE IF S1.b[e].tor > 0 THEN Dv(S1, "wm_tmo") ELSE S1)
               ELSE S1

Talk(S, src, dst) == "W" \in S.b[src].en /\ "R" \in S.b[dst].en /\ S.b[dst].rs = {} /\ S.b[src].out > 0

(* be_pair_transfer *)
PairTransfer(S, src, dst, ign) ==
  LET hi == S.b[dst].rhi
      ds == S.b[dst].in
      so == S.b[src].out
      skip == hi > 0 /\ ds >= hi /\ ~ign
      n == IF hi > 0 /\ ds < hi THEN hi - ds ELSE so               \* the code's n
      \* deviation FlushStopsAtHighWatermark: below the mark even a flush fills only up to it
      moved == IF hi > 0 THEN (IF ds < hi THEN Min(hi - ds, so) ELSE IF ign THEN so ELSE 0) ELSE so
      S0 == S
      S1 == [S0 EXCEPT !.b[src].out = @ - moved, !.b[dst].in = @ + moved,
                       !.b[dst].cap = IF ign THEN Max(@, ds + moved) ELSE @]
      S2 == IF moved > 0 THEN PairWmCbIn(S1, dst) ELSE S1
      \* timeouts: a successful transfer restarts the reader's read interval and the
      \* writer's write interval (cancelled when nothing is left to write)
      S3 == IF moved > 0
            THEN LET T1 == IF ShouldR(S2, dst) THEN ArmR(S2, dst) ELSE S2
                     T2 == FixW(T1, src)
                     \* the implementation restarts the reader's read timer unconditionally and
                     \* manages the READER's write timer instead of the writer's
                     d1 == IF S2.b[dst].tor > 0 /\ ~ShouldR(S2, dst) THEN {"pair_rt_rearm"} ELSE {}
                     d2 == IF S2.b[src].tow > 0 \/ S2.b[dst].tow > 0 THEN {"pair_wt_endpoint"} ELSE {}
                 IN [T2 EXCEPT !.dv = @ \cup d1 \cup d2]
            ELSE IF n > 0 /\ (S2.b[dst].tor > 0 \/ S2.b[dst].tow > 0) THEN Dv(S2, "pair_rt_rearm") ELSE S2
      S4 == TrigRD(S3, dst)
  IN IF skip THEN S ELSE TrigWD(S4, src)

PairEnable(S, e, evs) ==
  LET S1 == IF "R" \in evs THEN FixR(S, e) ELSE S
      S2 == IF "W" \in evs THEN FixW(S1, e) ELSE S1
      S3 == IF "R" \in evs /\ S2.b[e].lnk /\ Talk(S2, P(e), e) THEN PairTransfer(S2, P(e), e, FALSE) ELSE S2
  IN IF "W" \in evs /\ S3.b[e].lnk /\ Talk(S3, e, P(e)) THEN PairTransfer(S3, e, P(e), FALSE) ELSE S3

(* be_pair_outbuf_cb after data was appended to e's output *)
PairOutCb(S, e) == IF S.b[e].lnk /\ Talk(S, e, P(e)) THEN PairTransfer(S, e, P(e), FALSE) ELSE S

PairFlush(S, e, dirs, mode) ==
  IF ~S.b[e].lnk THEN [s |-> S, r |-> -1]
  ELSE IF mode = 0 THEN [s |-> S, r |-> 0]
  ELSE LET S1 == IF "R" \in dirs THEN PairTransfer(S, P(e), e, TRUE) ELSE S
           S2 == IF "W" \in dirs THEN PairTransfer(S1, e, P(e), TRUE) ELSE S1
           f == {"EOF"} \cup (IF "R" \in dirs THEN {"WR"} ELSE {}) \cup (IF "W" \in dirs THEN {"RD"} ELSE {})
           \* a finishing flush that leaves output behind reports EOF before the data: known finding
           S2b == IF mode = 2 /\ "W" \in dirs /\ S2.b[e].out > 0 THEN Dv(S2, "pair_eof_before_data") ELSE S2
           S3 == IF mode = 2 THEN EvD([S2b EXCEPT !.b[e].fin = @ \/ "W" \in dirs], P(e), f) ELSE S2b
       IN [s |-> S3, r |-> 0]

----------------------------------------------------------------------------
(* ------------------------------ socket ---------------------------------- *)
IoAdd(S, e, d) == IF \E i \in 1..Len(S.b[e].ioord) : S.b[e].ioord[i] = d THEN S
                  ELSE [S EXCEPT !.b[e].ioord = <<d>> \o @]
IoDel(S, e, d) == [S EXCEPT !.b[e].ioord = SelectSeq(@, LAMBDA x : x # d)]
(* bufferevent_add_event_(&ev_read, &timeout_read): no timeout value leaves a running timeout alone *)
SockAddR(S, e) == LET S1 == [IoAdd(S, e, "r") EXCEPT !.b[e].evr = TRUE]
                  IN IF S.b[e].tor > 0 THEN [S1 EXCEPT !.b[e].rdl = S.now + S.b[e].tor, !.b[e].last = S.now] ELSE S1
SockAddW(S, e) == LET S1 == [IoAdd(S, e, "w") EXCEPT !.b[e].evw = TRUE]
                  IN IF S.b[e].tow > 0 THEN [S1 EXCEPT !.b[e].wdl = S.now + S.b[e].tow] ELSE S1
SockDelR(S, e) == [DeQ(IoDel(S, e, "r"), "rio", e) EXCEPT !.b[e].evr = FALSE, !.b[e].rdl = -1]
SockDelW(S, e) == [DeQ(IoDel(S, e, "w"), "wio", e) EXCEPT !.b[e].evw = FALSE, !.b[e].wdl = -1]
SockEnable(S, e, evs) ==
  LET S1 == IF "R" \in evs THEN SockAddR(S, e) ELSE S
  IN IF "W" \in evs THEN SockAddW(S1, e) ELSE S1
SockDisable(S, e, evs) ==
  LET S1 == IF "R" \in evs THEN SockDelR(S, e) ELSE S
  IN IF "W" \in evs /\ S1.b[e].conn # "ing" THEN SockDelW(S1, e) ELSE S1
(* bufferevent_socket_outbuf_cb *)
SockOutCb(S, e) == IF "W" \in S.b[e].en /\ ~S.b[e].evw /\ S.b[e].ws = {} /\ S.b[e].conn \in {"ok", "ing", "bad"}
                   THEN SockAddW(S, e) ELSE S

----------------------------------------------------------------------------
(* ------------------------------ filter ---------------------------------- *)
(* suspend / unsuspend reading on the underlying pair endpoint 1 (BEV_SUSPEND_FILT_READ) *)
UnderSuspend(S) == [(IF S.b[1].rs = {} THEN PairDisable(S, 1, {"R"}) ELSE S) EXCEPT !.b[1].rs = @ \cup {"FILT"}]
UnderUnsuspend(S) == LET S1 == [S EXCEPT !.b[1].rs = @ \ {"FILT"}]
                     IN IF S1.b[1].rs = {} /\ "R" \in S1.b[1].en THEN PairEnable(S1, 1, {"R"}) ELSE S1
FiltEnable(S, evs) ==
  LET S1 == IF "W" \in evs THEN FixW(S, 3) ELSE S
  IN IF "R" \in evs THEN UnderUnsuspend(FixR(S1, 3)) ELSE S1
FiltDisable(S, evs) ==
  LET S1 == IF "W" \in evs THEN DelW(S, 3) ELSE S
  IN IF "R" \in evs THEN UnderSuspend(DelR(S1, 3)) ELSE S1

(* how much one call of the filter function moves from a source holding `have`
   with limit lim (-1 = none) in flush mode m; r = 1 iff it returns BEV_OK *)
FiltMove(have, lim, m) ==
  LET cap == IF lim < 0 THEN have ELSE Min(lim, have)
      k == CASE FiltFn = "id" -> cap
             [] FiltFn = "one" -> Min(1, cap)
             [] OTHER -> IF m = 0 THEN (IF cap >= 2 THEN 2 ELSE 0) ELSE Min(2, cap)
  IN [k |-> k, ok |-> k > 0]

FiltFullR(S, m) == m = 0 /\ S.b[3].rhi > 0 /\ S.b[3].in >= S.b[3].rhi
FiltFullW(S, m) == m = 0 /\ S.b[1].whi > 0 /\ S.b[1].out >= S.b[1].whi

(* bufferevent_inbuf_wm_cb on the filter's input *)
FiltWmCb(S) ==
  IF S.b[3].rhi = 0 THEN S
  ELSE IF S.b[3].in >= S.b[3].rhi
       THEN [(IF S.b[3].rs = {} THEN FiltDisable(S, {"R"}) ELSE S) EXCEPT !.b[3].rs = @ \cup {"WM"}]
       ELSE LET S1 == [S EXCEPT !.b[3].rs = @ \ {"WM"}]
            IN IF S1.b[3].rs = {} /\ "R" \in S1.b[3].en
               THEN (IF S.b[3].rs # {} THEN FiltEnable(S1, {"R"}) ELSE IF S1.b[3].tor > 0 THEN Dv(S1, "wm_tmo") ELSE S1)
               ELSE S1

(* be_filter_process_input; returns [s, p] (p = processed_any) *)
RECURSIVE FiltInLoop(_, _, _)
FiltInLoop(S, m, p) ==
  LET lim == IF m = 0 /\ S.b[3].rhi > 0 THEN S.b[3].rhi - S.b[3].in ELSE -1
      mv == FiltMove(S.b[1].in, lim, m)
      S1 == IF mv.k > 0 THEN FiltWmCb([S EXCEPT !.b[1].in = @ - mv.k, !.b[3].in = @ + mv.k,
                                                 !.b[3].cap = IF m # 0 THEN Max(@, S.b[3].in + mv.k) ELSE @])
            ELSE S
  IN IF mv.ok /\ "R" \in S1.b[3].en /\ S1.b[1].in > 0 /\ ~FiltFullR(S1, m)
     THEN FiltInLoop(S1, m, TRUE)
     ELSE [s |-> S1, p |-> p \/ mv.ok]
FiltProcessIn(S, m) ==
  IF m = 0 /\ ("R" \notin S.b[3].en \/ FiltFullR(S, m)) THEN [s |-> S, p |-> FALSE]
  ELSE LET R == FiltInLoop(S, m, FALSE)
       IN [s |-> IF R.p /\ ShouldR(R.s, 3) THEN ArmR(R.s, 3) ELSE R.s, p |-> R.p]

(* be_filter_read_nolock_ (readcb of the underlying, or the filter's inbuf_cb) *)
FiltRead(S) ==
  IF ~S.b[3].alive /\ S.b[3].sref = 0 THEN S
  ELSE LET R == FiltProcessIn(S, 0)
           S1 == IF R.p THEN TrigRD(R.s, 3) ELSE R.s
       IN IF R.p /\ S1.b[1].in > 0 /\ FiltFullR(S1, 0) THEN [S1 EXCEPT !.b[3].icb = TRUE] ELSE S1

(* the filter moves data into the underlying's output: be_pair_outbuf_cb runs *)
RECURSIVE FiltOutInner(_, _, _)
FiltOutInner(S, m, p) ==
  LET lim == IF m = 0 /\ S.b[1].whi > 0 THEN S.b[1].whi - S.b[1].out ELSE -1
      mv == FiltMove(S.b[3].out, lim, m)
      \* C18: in normal mode a filter never takes the underlying output past its high write watermark
      over == m = 0 /\ S.b[1].whi > 0 /\ mv.k > 0 /\ S.b[1].out + mv.k > S.b[1].whi
      S1 == IF mv.k > 0 THEN PairOutCb([S EXCEPT !.b[3].out = @ - mv.k, !.b[1].out = @ + mv.k, !.b[1].wr = @ + mv.k,
                                                 !.whibad = @ \/ over], 1)
            ELSE S
  IN IF mv.ok /\ "W" \in S1.b[3].en /\ S1.b[3].out > 0 /\ ~FiltFullW(S1, m)
     THEN FiltOutInner(S1, m, TRUE)
     ELSE [s |-> S1, p |-> p \/ mv.ok, ok |-> mv.ok]
RECURSIVE FiltOutOuter(_, _, _)
FiltOutOuter(S, m, p) ==
  LET R == FiltOutInner(S, m, FALSE)
      S1 == IF R.p THEN TrigWD(R.s, 3) ELSE R.s
  IN IF R.p /\ R.ok /\ "W" \in S1.b[3].en /\ S1.b[3].out > 0 /\ ~FiltFullW(S1, m)
     THEN FiltOutOuter(S1, m, TRUE)
     ELSE [s |-> S1, p |-> p \/ R.p]
FiltProcessOut(S, m) ==
  IF m = 0 /\ ("W" \notin S.b[3].en \/ FiltFullW(S, m) \/ S.b[3].out = 0) THEN [s |-> S, p |-> FALSE]
  ELSE LET R == FiltOutOuter(S, m, FALSE)
       IN [s |-> IF R.p THEN FixW(R.s, 3) ELSE R.s, p |-> R.p]

----------------------------------------------------------------------------
(* -------------------- type dispatch of be_ops --------------------------- *)
BeEnable(S, e, evs) ==
  IF evs = {} THEN S
  ELSE IF IsFilt(e) THEN FiltEnable(S, evs)
  ELSE IF IsSock(e) THEN SockEnable(S, e, evs)
  ELSE PairEnable(S, e, evs)
BeDisable(S, e, evs) ==
  IF IsFilt(e) THEN FiltDisable(S, evs)
  ELSE IF IsSock(e) THEN SockDisable(S, e, evs)
  ELSE PairDisable(S, e, evs)

SuspendR(S, e, f) == [(IF S.b[e].rs = {} THEN BeDisable(S, e, {"R"}) ELSE S) EXCEPT !.b[e].rs = @ \cup {f}]
(* the implementation calls be_ops->enable even when nothing was suspended, which restarts the
   read timeout although no transfer happened (trigger "wm_tmo"); the property-level model keeps it *)
UnsuspendR(S, e, f) == LET S1 == [S EXCEPT !.b[e].rs = @ \ {f}]
                       IN IF S1.b[e].rs = {} /\ "R" \in S1.b[e].en
                          THEN (IF S.b[e].rs # {} THEN BeEnable(S1, e, {"R"})
                                ELSE IF S1.b[e].tor > 0 THEN Dv(S1, "wm_tmo") ELSE S1)
                          ELSE S1

(* callbacks on e's input buffer after the application removed d > 0 units *)
InputDrained(S, e) ==
  LET S1 == IF S.b[e].rhi = 0 THEN S
            ELSE IF S.b[e].in >= S.b[e].rhi THEN SuspendR(S, e, "WM") ELSE UnsuspendR(S, e, "WM")
  IN IF IsFilt(e) /\ ~FiltFullR(S1, 0) /\ S1.b[1].in > 0 /\ S1.b[3].icb THEN FiltRead([S1 EXCEPT !.b[3].icb = FALSE])
     ELSE IF IsFilt(e) /\ ~FiltFullR(S1, 0) THEN [S1 EXCEPT !.b[3].icb = FALSE]
     ELSE S1

----------------------------------------------------------------------------
(* ----------------------- the API operations ----------------------------- *)
OpWrite(S, e, n) ==
  LET S1 == [S EXCEPT !.b[e].out = @ + n, !.b[e].wr = @ + n]
  IN IF IsFilt(e) THEN FiltProcessOut(S1, 0).s
     ELSE IF IsSock(e) THEN SockOutCb(S1, e)
     ELSE LET S2 == PairOutCb(S1, e)
              \* property: pending output of an enabled writer starts the write interval;
              \* the pair implementation has no hook for that
          IN IF ShouldW(S2, e) /\ S2.b[e].wdl < 0 /\ ~InQ(S2, "wt", e) THEN ArmW(Dv(S2, "pair_wt_endpoint"), e) ELSE S2

(* the application removes up to k units from e's input OUTSIDE a callback (bufferevent_read); a deferred read
   callback that is already scheduled may then find less than the low watermark: left open *)
OpRead(S, e, k) ==
  LET d == Min(k, S.b[e].in)
      S0 == [S EXCEPT !.b[e].in = @ - d, !.b[e].rd = @ + d, !.b[e].cap = Max(S.b[e].rhi, Min(@, S.b[e].in - d)),
                      !.open = @ \/ (S.b[e].rp /\ S.b[e].in - d < S.b[e].rlo)]
  IN IF d > 0 THEN InputDrained(S0, e) ELSE S

(* bufferevent_trigger_event(bev, what, BEV_TRIG_DEFER_CALLBACKS): the flags join whatever is already pending *)
FSet(m) == (IF m % 2 = 1 THEN {"RD"} ELSE {}) \cup (IF (m \div 2) % 2 = 1 THEN {"WR"} ELSE {})
           \cup (IF (m \div 16) % 2 = 1 THEN {"EOF"} ELSE {}) \cup (IF (m \div 32) % 2 = 1 THEN {"ERR"} ELSE {})
           \cup (IF (m \div 64) % 2 = 1 THEN {"TMO"} ELSE {})
OpTrig(S, e, m) == EvD(S, e, FSet(m))

OpEnable(S, e, evs) ==
  LET impl == (evs \ (IF S.b[e].rs # {} THEN {"R"} ELSE {})) \ (IF S.b[e].ws # {} THEN {"W"} ELSE {})
  IN BeEnable([S EXCEPT !.b[e].en = @ \cup evs], e, impl)
OpDisable(S, e, evs) == BeDisable([S EXCEPT !.b[e].en = @ \ evs], e, evs)

OpSetWm(S, e, d, lo, hi) ==
  IF d = "W" THEN [S EXCEPT !.b[e].wlo = lo, !.b[e].whi = hi]
  ELSE LET S0 == [S EXCEPT !.b[e].rlo = lo, !.b[e].rhi = hi, !.b[e].cap = Max(hi, S.b[e].in),
                           !.open = @ \/ (S.b[e].rp /\ S.b[e].in < lo)]
       IN IF hi > 0 /\ S0.b[e].in >= hi THEN SuspendR(S0, e, "WM") ELSE UnsuspendR(S0, e, "WM")

(* bufferevent_set_timeouts -> adj_timeouts *)
OpSetTmo(S, e, tr, tw) ==
  \* sockets: removing a timeout while the event is not added leaves the event's ev_io_timeout behind;
  \* the next I/O activation re-arms the removed timeout (trigger "sock_stale_io_timeout")
  LET stale == IsSock(e) /\ ((tr = 0 /\ S.b[e].tor > 0 /\ ~S.b[e].evr) \/ (tw = 0 /\ S.b[e].tow > 0 /\ ~S.b[e].evw))
      S0 == [(IF stale THEN Dv(S, "sock_stale_io_timeout") ELSE S) EXCEPT !.b[e].tor = tr, !.b[e].tow = tw]
  IN IF IsSock(e)
     THEN LET S1 == IF S0.b[e].evr THEN (IF tr > 0 THEN [S0 EXCEPT !.b[e].rdl = S.now + tr, !.b[e].last = S.now]
                                           ELSE [S0 EXCEPT !.b[e].rdl = -1]) ELSE S0
          IN IF S1.b[e].evw THEN (IF tw > 0 THEN [S1 EXCEPT !.b[e].wdl = S.now + tw] ELSE [S1 EXCEPT !.b[e].wdl = -1]) ELSE S1
     ELSE FixW(FixR(S0, e), e)

OpFlush(S, e, dirs, mode) ==
  IF IsSock(e) THEN [s |-> S, r |-> 0]
  ELSE IF IsFilt(e)
  THEN LET R1 == IF "R" \in dirs THEN FiltProcessIn(S, mode) ELSE [s |-> S, p |-> FALSE]
           R2 == IF "W" \in dirs THEN FiltProcessOut(R1.s, mode) ELSE [s |-> R1.s, p |-> FALSE]
           R3 == PairFlush(R2.s, 1, dirs, mode)
           \* a finishing flush of a filter whose writing is disabled calls the output filter once and passes the
           \* shutdown on even if output is left: EOF before the data, trigger "filt_eof_before_data"
           S4 == IF mode = 2 /\ "W" \in dirs /\ R3.s.b[3].out > 0 THEN Dv(R3.s, "filt_eof_before_data") ELSE R3.s
       IN [s |-> [S4 EXCEPT !.b[3].fin = @ \/ (mode = 2 /\ "W" \in dirs)], r |-> IF R1.p \/ R2.p THEN 1 ELSE 0]
  ELSE PairFlush(S, e, dirs, mode)

(* the last reference is gone: unlink + finalize (no callback of e can run any more) *)
Finalize(S, e) ==
  LET S1 == [DeQAll(S, e) EXCEPT !.b[e].rdl = -1, !.b[e].wdl = -1, !.b[e].evr = FALSE, !.b[e].evw = FALSE,
                                 !.b[e].ioord = <<>>, !.b[e].lnk = FALSE]
  IN IF IsPairEp(e) THEN [S1 EXCEPT !.b[P(e)].lnk = FALSE]
     ELSE IF IsFilt(e) THEN UnderUnsuspend([S1 EXCEPT !.b[1].cbs = FALSE])     \* be_filter_unlink
     ELSE S1
OpFree(S, e) ==
  LET S1 == [S EXCEPT !.b[e].alive = FALSE, !.b[e].cbs = FALSE]
  IN IF S1.b[e].sref = 0 THEN Finalize(S1, e) ELSE S1

(* the peer process end of a socket: shutdown(SHUT_WR) after everything buffered was sent is
   modelled on endpoint e as "e stops writing": its peer will see EOF once the wire is empty *)
OpShut(S, e) == [S EXCEPT !.b[e].fin = TRUE, !.b[P(e)].eof = TRUE]

OpConnect(S) ==
  \* bufferevent_socket_connect on endpoint 1: the non-blocking connect is in progress
  SockAddW([S EXCEPT !.b[1].conn = "ing"], 1)

Legal(S, e, a) ==
  /\ S.b[e].alive
  /\ (OneWay => IF a = "write" THEN e # 2 ELSE (a \in {"enable", "enableW", "disable", "wm", "tmo", "script", "read"} => e = 2))
  /\ (a = "write" => ~S.b[e].fin)
  /\ (IsSock(e) /\ S.b[e].conn = "new" => a \in {"connect", "script", "tmo", "wm"})
  /\ (a = "connect" => IsSock(e) /\ S.b[e].conn = "new")
  /\ (Kind = "sock" /\ e = 2 /\ S.b[1].conn = "new" => FALSE)
  \* after a refused connect: free / clear; re-arming the write side only in directed scripts (which re-enable
  \* EV_WRITE explicitly: whether the refusal itself disabled it depends on how the kernel reported it)
  /\ (S.b[e].conn = "bad" => (a \in {"free", "clr", "script"} \/ (S.fs # 0 /\ a \in {"write", "enableW"})))

(* extra actions of callback scripts *)
ApplyExtra(S, e, xa) ==
  CASE xa = "free" -> OpFree(S, e)
    [] xa = "freep" -> IF S.b[Far(e)].alive THEN OpFree(S, Far(e)) ELSE S
    [] xa = "disR" -> OpDisable(S, e, {"R"})
    [] xa = "enR" -> IF S.b[e].eofd THEN S ELSE OpEnable(S, e, {"R"})
    [] xa = "clr" -> [S EXCEPT !.b[e].cbs = FALSE]
    [] xa = "w1" -> IF S.b[e].fin \/ S.b[e].conn = "bad" THEN S ELSE OpWrite(S, e, 1)
    [] xa = "wm0" -> OpSetWm(S, e, "R", 0, 0)
    \* bufferevent_free(self) + event_base_loopbreak(): the loop call returns after this callback, the
    \* finalizer of the released bufferevent is left pending (it runs in a later loop call or at event_base_free)
    [] xa = "freebrk" -> [OpFree(S, e) EXCEPT !.brk = TRUE]
    [] OTHER -> S

----------------------------------------------------------------------------
(* user callbacks *)
Undelivered(S, e) ==     \* units written towards app endpoint e that are not yet in its input
  IF Kind = "filt" THEN (IF e = 3 THEN S.b[2].out + S.b[1].in ELSE S.b[3].out + S.b[1].out)
  ELSE S.b[P(e)].out + S.b[e].wire

UserCb(S, e, k, f) ==
  LET B == S.b[e]
      d == IF k = "r" THEN Min(B.dr, B.in) ELSE 0
      guard == S.ncb >= MaxCb
      dox == ~guard /\ B.xk = k /\ B.xa # "none"
      entry == [e |-> e, k |-> k, f |-> FMask(f), il |-> B.in, ol |-> B.out, t |-> S.now,
                rl |-> B.rlo, rh |-> B.rhi, wl |-> B.wlo,
                d |-> IF guard THEN 0 ELSE d, x |-> IF guard THEN 9 ELSE IF dox THEN 1 ELSE 0, dead |-> 0]
      S0 == [S EXCEPT !.log = Append(@, entry), !.ncb = @ + 1,
                      !.deadcb = @ \/ ~B.alive \/ ~B.cbs,
                      !.lowbad = @ \/ (k = "r" /\ B.in < B.rlo),
                      !.eofs[e] = IF "EOF" \in f THEN @ + 1 ELSE @,
                      !.b[e].eofd = @ \/ "EOF" \in f,
                      !.eofbad = @ \/ ("EOF" \in f /\ "RD" \in f /\ Undelivered(S, e) > 0),
                      !.conns = IF "CONN" \in f THEN @ + 1 ELSE @,
                      !.connbad = @ \/ (k \in {"r", "w"} /\ (B.conn = "ing" \/ "CONN" \in B.ep)),
                      \* bufferevent_readcb does not look at `connecting`: known finding
                      !.dv = IF k \in {"r", "w"} /\ (B.conn = "ing" \/ "CONN" \in B.ep) THEN @ \cup {"sock_cb_before_connected"} ELSE @ ]
  IN IF guard THEN OpDisable([S0 EXCEPT !.b[e].cbs = FALSE], e, {"R", "W"})
     ELSE LET S1 == IF d > 0 THEN InputDrained([S0 EXCEPT !.b[e].in = @ - d, !.b[e].rd = @ + d,
                                                          !.b[e].cap = Max(B.rhi, Min(@, B.in - d))], e)
                    ELSE S0
          IN IF dox THEN ApplyExtra(S1, e, B.xa) ELSE S1

(* bufferevent_inbuf_wm_check after a read callback *)
WmCheck(S, e) == IF S.b[e].rhi > 0 /\ "R" \in S.b[e].en /\ S.b[e].in >= S.b[e].rhi THEN TrigRD(S, e) ELSE S

(* immediate or deferred delivery (sockets without BEV_OPT_DEFER_CALLBACKS run callbacks at once) *)
IsDeferred(e) == ~IsSock(e) \/ Defer
TrigR(S, e) == IF IsDeferred(e) THEN TrigRD(S, e)
               ELSE IF S.b[e].in >= S.b[e].rlo /\ S.b[e].cbs THEN WmCheck(UserCb(S, e, "r", {}), e) ELSE S
TrigW(S, e) == IF IsDeferred(e) THEN TrigWD(S, e)
               ELSE IF S.b[e].out <= S.b[e].wlo /\ S.b[e].cbs THEN UserCb(S, e, "w", {}) ELSE S
Ev(S, e, f) == IF IsDeferred(e) THEN EvD(S, e, f)
               ELSE IF S.b[e].cbs THEN UserCb(S, e, "e", f) ELSE S

(* callbacks of the underlying endpoint of a filter *)
UnderCb(S, k, f) ==
  CASE k = "r" -> FiltRead(S) \* be_filter_readcb
    [] k = "w" -> IF ~S.b[3].alive /\ S.b[3].sref = 0 THEN S ELSE FiltProcessOut(S, 0).s
    \* be_filter_eventcb passes the event on even when input is still waiting below the filter
    \* (filter not reading / at its high watermark): EOF before the data, trigger "filt_eof_before_data"
    [] OTHER -> IF ~S.b[3].alive /\ S.b[3].sref = 0 THEN S
                ELSE EvD(IF "EOF" \in f /\ S.b[1].in > 0 THEN Dv(S, "filt_eof_before_data") ELSE S, 3, f)

Cb(S, e, k, f) == IF IsUnder(e) THEN UnderCb(S, k, f) ELSE UserCb(S, e, k, f)

(* bufferevent_run_deferred_callbacks_locked *)
RunDeferred(S, e) ==
  LET S1 == IF "CONN" \in S.b[e].ep /\ S.b[e].cbs
            THEN Cb([S EXCEPT !.b[e].ep = @ \ {"CONN"}], e, "e", {"CONN"}) ELSE S
      S2 == IF S1.b[e].rp /\ S1.b[e].cbs
            THEN (IF IsUnder(e) THEN Cb([S1 EXCEPT !.b[e].rp = FALSE], e, "r", {})
                  ELSE WmCheck(Cb([S1 EXCEPT !.b[e].rp = FALSE], e, "r", {}), e)) ELSE S1
      S3 == IF S2.b[e].wp /\ S2.b[e].cbs THEN Cb([S2 EXCEPT !.b[e].wp = FALSE], e, "w", {}) ELSE S2
      S4 == IF S3.b[e].ep # {} /\ S3.b[e].cbs THEN Cb([S3 EXCEPT !.b[e].ep = {}], e, "e", S3.b[e].ep) ELSE S3
      S5 == [S4 EXCEPT !.b[e].sref = @ - 1]
  IN IF ~S5.b[e].alive /\ S5.b[e].sref = 0 THEN Finalize(S5, e) ELSE S5

(* bufferevent_generic_read/write_timeout_cb and the socket's EV_TIMEOUT branch *)
TimeoutR(S, e) == Ev(OpDisable([S EXCEPT !.tmobad = @ \/ ~ShouldR(S, e)], e, {"R"}), e, {"TMO", "RD"})
TimeoutW(S, e) == Ev(OpDisable([S EXCEPT !.tmobad = @ \/ ~ShouldW(S, e)], e, {"W"}), e, {"TMO", "WR"})

(* bufferevent_readcb (socket, I/O readiness) *)
SockReadCb(S, e) ==
  LET B == S.b[e]
      S0 == IF B.tor > 0 THEN [S EXCEPT !.b[e].rdl = S.now + B.tor] ELSE S      \* event_persist_closure
      how == IF B.rhi > 0 THEN Min(B.rhi - B.in, RdCap) ELSE RdCap
      n == Min(B.wire, how)
  IN IF B.rhi > 0 /\ B.rhi - B.in <= 0 THEN SuspendR(S0, e, "WM")
     ELSE IF B.rs # {} THEN S0
     ELSE IF n > 0
     THEN LET S1 == [S0 EXCEPT !.b[e].in = @ + n, !.b[e].wire = @ - n, !.b[e].last = S.now]
              S2 == IF B.rhi > 0 /\ S1.b[e].in >= B.rhi THEN SuspendR(S1, e, "WM") ELSE S1
          IN TrigR(S2, e)
     ELSE IF B.eof THEN Ev(OpDisable(S0, e, {"R"}), e, {"EOF", "RD"})
     ELSE S0

(* bufferevent_writecb (socket, I/O readiness) *)
SockWriteCb(S, e) ==
  LET B == S.b[e]
      S0 == IF B.tow > 0 THEN [S EXCEPT !.b[e].wdl = S.now + B.tow] ELSE S
      connecting == B.conn = "ing"
  IN IF connecting /\ Conn = "refused"
     THEN Ev([SockDelR(SockDelW([S0 EXCEPT !.b[e].conn = "bad"], e), e) EXCEPT !.b[e].conn = "bad"], e, {"ERR"})
     \* writing on the socket whose connect was refused fails: ERROR|WRITING, never CONNECTED
     ELSE IF B.conn = "bad"
     THEN (IF B.out > 0 THEN Ev(OpDisable(S0, e, {"W"}), e, {"ERR", "WR"}) ELSE TrigW(SockDelW(S0, e), e))
     \* Stall: some bytes go out (how many is the kernel's business), the event stays added and its timeout
     \* restarts (event_persist_closure); from then on the socket is not writable
     ELSE IF Stall /\ ~connecting /\ B.ws = {} /\ B.out > 0
     THEN [S0 EXCEPT !.b[e].stalled = TRUE]
     ELSE LET S1 == IF connecting THEN Ev([S0 EXCEPT !.b[e].conn = "ok"], e, {"CONN"}) ELSE S0
              stop == connecting /\ ("W" \notin S1.b[e].en \/ S1.b[e].ws # {})
              n == Min(S1.b[e].out, WrCap)
              S2 == [S1 EXCEPT !.b[e].out = @ - n, !.b[P(e)].wire = @ + n]
              S3 == IF S2.b[e].out = 0 THEN SockDelW(S2, e) ELSE S2
          IN IF stop THEN SockDelW(S1, e)
             ELSE IF S1.b[e].ws # {} THEN S1
             ELSE IF n > 0 \/ ~connecting THEN TrigW(S3, e) ELSE S3

----------------------------------------------------------------------------
(* one event_base_loop(base, EVLOOP_NONBLOCK) *)
RECURSIVE AddReady(_, _, _)
AddReady(S, e, ord) ==
  IF ord = <<>> THEN S
  ELSE LET d == Head(ord)
           rdy == IF d = "r" THEN (S.b[e].wire > 0 \/ S.b[e].eof) ELSE ~(Stall /\ S.b[e].stalled)
       IN AddReady(IF rdy THEN Enq(S, IF d = "r" THEN "rio" ELSE "wio", e) ELSE S, e, Tail(ord))
Dispatch(S, x) == IF Kind = "sock" /\ S.b[x].alive THEN AddReady(S, x, S.b[x].ioord) ELSE S

DueSet(S, x) == {<<e, k>> \in Eps \X {"rt", "wt"} : Base(e) = x /\
                   (IF k = "rt" THEN S.b[e].rdl >= 0 /\ S.b[e].rdl <= S.now ELSE S.b[e].wdl >= 0 /\ S.b[e].wdl <= S.now)}
Dl(S, p) == IF p[2] = "rt" THEN S.b[p[1]].rdl ELSE S.b[p[1]].wdl
RECURSIVE TimeoutProcess(_, _)
TimeoutProcess(S, x) ==
  IF DueSet(S, x) = {} THEN S
  ELSE LET p == CHOOSE q \in DueSet(S, x) : \A r \in DueSet(S, x) :
                     Dl(S, q) < Dl(S, r) \/ (Dl(S, q) = Dl(S, r) /\ (q[1] < r[1] \/ (q[1] = r[1] /\ (q[2] = "rt" \/ r[2] = "wt"))))
           e == p[1]
           \* an I/O event that is already active keeps its I/O result (the callback then ignores the
           \* timeout); event_persist_closure restarts the interval from the old deadline, which only
           \* equals "from now" when the deadline is now: otherwise left open (a starved loop)
           S1 == IF p[2] = "rt"
                 THEN (IF IsSock(e) /\ InQ(S, "rio", e) THEN [S EXCEPT !.b[e].rdl = -1, !.open = @ \/ S.b[e].rdl < S.now]
                       ELSE IF IsSock(e) THEN Enq(SockDelR(S, e), "rt", e) ELSE Enq([S EXCEPT !.b[e].rdl = -1], "rt", e))
                 ELSE (IF IsSock(e) /\ InQ(S, "wio", e) THEN [S EXCEPT !.b[e].wdl = -1, !.open = @ \/ S.b[e].wdl < S.now]
                       ELSE IF IsSock(e) THEN Enq(SockDelW(S, e), "wt", e) ELSE Enq([S EXCEPT !.b[e].wdl = -1], "wt", e))
       IN TimeoutProcess(S1, x)

Handle(S, it) ==
  CASE it.k = "def" -> RunDeferred(S, it.e)
    [] it.k = "rt" -> TimeoutR(S, it.e)
    [] it.k = "wt" -> TimeoutW(S, it.e)
    [] it.k = "rio" -> SockReadCb(S, it.e)
    [] OTHER -> SockWriteCb(S, it.e)

RECURSIVE ProcessQ(_, _)
ProcessQ(S, x) ==
  IF S.aq[x] = <<>> \/ S.brk THEN S
  ELSE LET it == Head(S.aq[x]) IN ProcessQ(Handle([S EXCEPT !.aq[x] = Tail(@)], it), x)

(* with EVLOOP_NONBLOCK the loop keeps iterating (poll with zero timeout, expire timers, run
   callbacks) until an iteration finds nothing to run *)
RECURSIVE LoopIter(_, _, _)
LoopIter(S, x, k) ==
  LET S1 == TimeoutProcess(Dispatch(S, x), x)
  IN IF S1.aq[x] = <<>> \/ S1.brk THEN S1
     ELSE IF k = 0 THEN [S1 EXCEPT !.open = TRUE]
     ELSE LoopIter(ProcessQ(S1, x), x, k - 1)
LoopOp(S, x, t) == LoopIter([S EXCEPT !.now = @ + t, !.log = <<>>, !.ncb = 0, !.brk = FALSE], x, 24)

(* the application releases whatever it still holds and calls event_base_free(): pending finalizers run there,
   exactly once each (fc = calls of the filter's free_context so far), no user callback runs *)
OpBaseFree(S) == [S EXCEPT !.dead = TRUE, !.b = [e \in Eps |-> [S.b[e] EXCEPT !.alive = FALSE, !.cbs = FALSE]]]

----------------------------------------------------------------------------
(* observation after every step *)
EpObs(S, e) ==
  IF S.b[e].alive
  THEN [il |-> S.b[e].in, ol |-> S.b[e].out, en |-> IF Kind = "sock" /\ Conn = "refused" /\ e = 1 /\ S.b[e].conn # "new" THEN [_any |-> TRUE] ELSE EnMask(S.b[e].en),
        rd |-> S.b[e].rd, bad |-> 0, w |-> S.b[e].wire]
  ELSE [il |-> -1, ol |-> -1, en |-> -1, rd |-> S.b[e].rd, bad |-> 0, w |-> 0]
Obs(S, r) == [r |-> r, cb |-> S.log, now |-> S.now, ep |-> [e \in Eps |-> EpObs(S, e)]]

----------------------------------------------------------------------------
(* actions *)
(* Directed families: a check can override Forced (cfg: CONSTANT Forced <- ...) with a sequence of op
   sequences; generation then follows exactly those scripts (the specification still predicts every observation) *)
Forced == <<>>
Bound == IF st.fs = 0 THEN D ELSE Len(Forced[st.fs])
ForcedOK(op) == IF st.fs = 0 THEN TRUE ELSE (Len(hist) < Len(Forced[st.fs]) /\ op = Forced[st.fs][Len(hist) + 1])
Has(a) == a \in Acts
DirSets == {{"R"}, {"W"}, {"R", "W"}}
(* which known-finding triggers a history has met (bit mask, shipped with the history for the check's bookkeeping) *)
KfMask(dv) == (IF "pair_rt_rearm" \in dv THEN 1 ELSE 0) + (IF "pair_wt_endpoint" \in dv THEN 2 ELSE 0)
              + (IF "pair_eof_before_data" \in dv THEN 4 ELSE 0) + (IF "sock_cb_before_connected" \in dv THEN 8 ELSE 0)
              + (IF "sock_stale_io_timeout" \in dv THEN 16 ELSE 0)
              + (IF dv \ {"pair_rt_rearm", "pair_wt_endpoint", "pair_eof_before_data", "sock_cb_before_connected",
                          "sock_stale_io_timeout"} # {} THEN 32 ELSE 0)
Step(S1, op, r) ==
  /\ st' = S1
  /\ hist' = Append(hist, op @@ [o |-> Obs(S1, r), kf |-> KfMask(S1.dv)])

AStep(S1, op, r) == ForcedOK(op) /\ Step(S1, op, r)

Quiet(S) == \A x \in Bases : S.aq[x] = <<>>
IoReady(S) == Kind = "sock" /\ \E e \in {1, 2} : S.b[e].alive /\
                 ((S.b[e].evr /\ (S.b[e].wire > 0 \/ S.b[e].eof)) \/ (S.b[e].evw /\ ~(Stall /\ S.b[e].stalled)))

Api ==
  /\ st.closing = 0 /\ Len(hist) < Bound /\ ~st.dead
  /\ LET S == [st EXCEPT !.log = <<>>] IN
     \/ \E e \in App, n \in Sizes : Has("write") /\ Legal(S, e, "write") /\ n > 0
          /\ AStep(OpWrite(S, e, n), [a |-> "write", e |-> e, n |-> n], 0)
     \/ \E e \in App, m \in {33, 34, 65, 66} : Has("trig") /\ Legal(S, e, "trig")
          /\ AStep(OpTrig(S, e, m), [a |-> "trig", e |-> e, f |-> m], 0)
     \/ Has("basefree") /\ ForcedOK([a |-> "basefree"])
          /\ st' = OpBaseFree(S)
          /\ hist' = Append(hist, [a |-> "basefree", kf |-> KfMask(S.dv),
                                   o |-> Obs(OpBaseFree(S), 0) @@ [fc |-> IF Kind = "filt" THEN 1 ELSE 0, rc |-> S.nref]])
     \/ \E e \in App, k \in Drains : Has("read") /\ Legal(S, e, "read") /\ k > 0 /\ S.b[e].in > 0
          /\ AStep(OpRead(S, e, k), [a |-> "read", e |-> e, n |-> k], 0)
     \* like write, but the bytes are handed over by reference with a cleanup callback: once everything is
     \* released (basefree) every cleanup has run exactly once (rc in the last observation)
     \/ \E e \in App, n \in Sizes : Has("writeref") /\ Legal(S, e, "write") /\ n > 0
          /\ AStep([OpWrite(S, e, n) EXCEPT !.nref = @ + 1], [a |-> "writeref", e |-> e, n |-> n], 0)
     \/ \E e \in App, m \in {2, 4, 6} : Has("enable") /\ Legal(S, e, IF m = 4 THEN "enableW" ELSE "enable") /\ ("R" \in Dirs(m) => ~S.b[e].eofd)
          /\ AStep(OpEnable(S, e, Dirs(m)), [a |-> "enable", e |-> e, m |-> m], 0)
     \/ \E e \in App, m \in {2, 4, 6} : Has("disable") /\ Legal(S, e, "disable")
          /\ AStep(OpDisable(S, e, Dirs(m)), [a |-> "disable", e |-> e, m |-> m], 0)
     \/ \E e \in App, w \in WMs : Has("wmr") /\ Legal(S, e, "wm") /\ 10 * S.b[e].rlo + S.b[e].rhi # w
          /\ AStep(OpSetWm(S, e, "R", (w \div 10), (w % 10)), [a |-> "wm", e |-> e, m |-> 2, lo |-> (w \div 10), hi |-> (w % 10)], 0)
     \/ \E e \in App, w \in WMs : Has("wmw") /\ Legal(S, e, "wm") /\ 10 * S.b[e].wlo + S.b[e].whi # w
          /\ AStep(OpSetWm(S, e, "W", (w \div 10), (w % 10)), [a |-> "wm", e |-> e, m |-> 4, lo |-> (w \div 10), hi |-> (w % 10)], 0)
     \/ \E w \in WMs : Has("wmu") /\ Kind = "filt" /\ 10 * S.b[1].wlo + S.b[1].whi # w
          /\ AStep(OpSetWm(S, 1, "W", (w \div 10), (w % 10)), [a |-> "wm", e |-> 1, m |-> 4, lo |-> (w \div 10), hi |-> (w % 10)], 0)
     \/ \E e \in App, tr \in Durs, tw \in Durs : Has("tmo") /\ Legal(S, e, "tmo") /\ <<S.b[e].tor, S.b[e].tow>> # <<tr, tw>>
          /\ (Has("tmor") => tw = 0) /\ (Has("tmow") => tr = 0)
          /\ AStep(OpSetTmo(S, e, tr, tw), [a |-> "tmo", e |-> e, tr |-> tr, tw |-> tw], 0)
     \/ \E e \in App, m \in {2, 4, 6}, md \in {0, 1, 2} : Has("flush") /\ Legal(S, e, "flush")
          /\ (md = 0 => st.fs # 0)           \* BEV_NORMAL changes nothing: only in directed scripts
          /\ (md = 2 => Has("finish") /\ ~S.b[e].fin /\ (m = 4 \/ (st.fs # 0 /\ ~S.b[e].lnk)))
          /\ LET R == OpFlush(S, e, Dirs(m), md)
             IN AStep(R.s, [a |-> "flush", e |-> e, m |-> m, md |-> md], R.r)
     \/ \E e \in App : Has("shut") /\ IsSock(e) /\ Legal(S, e, "shut") /\ ~S.b[e].fin /\ S.b[e].out = 0 /\ S.b[e].conn = "ok"
          /\ AStep(OpShut(S, e), [a |-> "shut", e |-> e], 0)
     \/ \E e \in App : Has("free") /\ Legal(S, e, "free")
          /\ AStep(OpFree(S, e), [a |-> "free", e |-> e], 0)
     \/ \E e \in App : Has("clr") /\ Legal(S, e, "clr") /\ S.b[e].cbs
          /\ AStep([S EXCEPT !.b[e].cbs = FALSE], [a |-> "clr", e |-> e], 0)
     \/ Has("connect") /\ Legal(S, 1, "connect")
          /\ AStep(OpConnect(S), [a |-> "connect", e |-> 1, ok |-> IF Conn = "ok" THEN 1 ELSE 0], 0)
     \/ \E e \in App, dr \in Drains, xa \in Extras, xk \in XKinds \cup {"r"} :
          /\ Has("script") /\ Legal(S, e, "script") /\ S.b[e].cbs /\ (Len(hist) < ScriptUntil \/ st.fs # 0)
          /\ <<S.b[e].dr, S.b[e].xa, S.b[e].xk>> # <<dr, xa, xk>> /\ (xa = "none" => xk = "r")
          /\ AStep([S EXCEPT !.b[e].dr = dr, !.b[e].xa = xa, !.b[e].xk = xk],
                  [a |-> "script", e |-> e, dr |-> dr, xa |-> xa, xk |-> xk], 0)
     \/ \E x \in Bases, t \in Durs : Has("loop")
          /\ (t > 0 /\ Kind = "sock" => Quiet(S) /\ ~IoReady(S))
          /\ LET S1 == LoopOp(S, x, t) IN AStep(S1, [a |-> "loop", e |-> x, t |-> t], 0)

(* closing steps: flush out every latent timer / pending callback *)
Closing ==
  /\ Len(hist) >= Bound /\ st.closing < 2 * Cardinality(Bases) /\ ~st.dead
  /\ LET x == IF Kind = "sock" THEN 1 + (st.closing % 2) ELSE 1
         t == IF Kind = "sock" /\ (~Quiet(st) \/ IoReady(st)) THEN 0 ELSE TEnd
         S1 == [LoopOp(st, x, t) EXCEPT !.closing = @ + 1]
     IN Step(S1, [a |-> "loop", e |-> x, t |-> t], 0)

Init == hist = <<>> /\ \E k \in (IF Forced = <<>> THEN {0} ELSE 1..Len(Forced)) : st = [InitSt EXCEPT !.fs = k]
Next == Api \/ Closing
Spec == Init /\ [][Next]_vars

----------------------------------------------------------------------------
(* properties *)
AppPairs == IF Kind = "filt" THEN {<<3, 2>>, <<2, 3>>} ELSE {<<1, 2>>, <<2, 1>>}
InFlight(S, s, d) == IF Kind = "filt" THEN (IF s = 3 THEN S.b[3].out + S.b[1].out + S.b[2].in ELSE S.b[2].out + S.b[1].in + S.b[3].in)
                     ELSE S.b[s].out + S.b[d].wire + S.b[d].in
(* C17: nothing is lost or duplicated: written = buffered somewhere on the way + consumed *)
Conserved == \A p \in AppPairs : (st.b[p[1]].alive /\ st.b[p[2]].alive /\ st.b[p[1]].sref >= 0) =>
                st.b[p[1]].wr = InFlight(st, p[1], p[2]) + st.b[p[2]].rd
(* C17: EOF only after all data, at most once *)
Known == st.dv # {}          \* a known-finding trigger was met: the model left the property's ground
EofAfterAllData == Known \/ ~st.eofbad
EofAtMostOnce == \A e \in Eps : st.eofs[e] <= 1
(* C18 *)
ReadCbOnlyAboveLow == ~st.lowbad
InputNeverAboveHigh == \A e \in App : (st.b[e].alive /\ st.b[e].rhi > 0) => st.b[e].in <= st.b[e].cap
(* reading resumes: at rest, no pair endpoint holds output that its willing partner could take *)
NoStall == (Kind = "pair" /\ Quiet(st)) => \A e \in {1, 2} : ~(st.b[e].lnk /\ Talk(st, e, P(e)))
FilterRespectsUnderlyingHigh == ~st.whibad
(* C19 *)
NothingAfterFree == ~st.deadcb
ConnectedOnceAndFirst == st.conns <= 1 /\ (Known \/ ~st.connbad)
(* C20: a timeout only fires for a direction that should be timing, and at rest a
   direction's timer runs iff it should *)
TimeoutOnlyIfDue == Known \/ ~st.tmobad
TimerIff == Known \/ \A e \in App : (st.b[e].alive /\ ~IsSock(e)) =>
               /\ (ShouldR(st, e) <=> (st.b[e].rdl >= 0 \/ InQ(st, "rt", e)))
               /\ (ShouldW(st, e) <=> (st.b[e].wdl >= 0 \/ InQ(st, "wt", e)))
TimerNotLate == \A e \in App : (st.b[e].alive /\ st.b[e].rdl >= 0) => st.b[e].rdl <= st.b[e].last + st.b[e].tor
TypeOK == st.now >= 0 /\ \A e \in Eps : st.b[e].in >= 0 /\ st.b[e].out >= 0 /\ st.b[e].sref >= 0 /\ st.b[e].wire >= 0

Inv == TypeOK /\ FilterRespectsUnderlyingHigh /\ Conserved /\ EofAfterAllData /\ EofAtMostOnce /\ ReadCbOnlyAboveLow /\ InputNeverAboveHigh
       /\ NoStall /\ NothingAfterFree /\ ConnectedOnceAndFirst /\ TimeoutOnlyIfDue /\ TimerIff /\ TimerNotLate

----------------------------------------------------------------------------
(* generation *)
(* equal deadlines of two running timers: the order of their callbacks is unspecified *)
Deadlines(S) == {<<e, k>> \in Eps \X {"r", "w"} : IF k = "r" THEN S.b[e].rdl >= 0 ELSE S.b[e].wdl >= 0}
DlOf(S, p) == IF p[2] = "r" THEN S.b[p[1]].rdl ELSE S.b[p[1]].wdl
NoTies == \A p, q \in Deadlines(st) : (p # q /\ Base(p[1]) = Base(q[1])) => DlOf(st, p) # DlOf(st, q)
AvoidKnown == st.dv \subseteq Allow
WireOK == \A e \in Eps : st.b[e].wire <= WireCap
GenConstraint == Len(hist) <= Bound + 4 /\ NoTies /\ ~st.open /\ AvoidKnown /\ WireOK
Emit == ((st.closing = 2 * Cardinality(Bases) \/ st.dead) /\ AvoidKnown /\ ~st.open /\ WireOK) => PrintT(ToJson(hist))
StateView == <<st>>
=============================================================================
