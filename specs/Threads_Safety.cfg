CONSTANTS
  Ev = {e1, e2}
  W = {w1, w2}
  MaxOps = 2
  NotifyBug = "none"
  None = None
INIT Init
NEXT Next
INVARIANT TypeOK
INVARIANT DelWaits1
INVARIANT DelWaits2
INVARIANT NotifyConsistent
CHECK_DEADLOCK TRUE
