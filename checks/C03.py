"""C03 - priority order and loop control (EventCore.tla, binding G)."""
from checks import eventcore_common as ec

A = {"add", "act", "later", "prio", "script", "loop", "flags", "break", "cont", "exit", "adv", "del", "feed", "drain"}
S = {"break", "cont", "exit", "act", "later", "del", "add"}


def run(tier, seed):
    q = tier == "quick"
    gens = []
    for (mcb, lp) in ([(0, 1), (1, 0), (2, 1)] if q else [(0, 1), (1, 0), (1, 1), (2, 0), (2, 1), (1, 2)]):
        gens.append(dict(name="C03_rand_m%d_l%d" % (mcb, lp),
                         consts=ec.consts({1, 3, 4}, A, 22 if q else 36, maxcb=mcb, limitprio=lp, scriptops=S, durs=(0, 1, 2)),
                         simulate=60 if q else 240, depth=800, constraint="GenConstraintNT"))
    # signal events: loopbreak / loopcontinue from inside the ncalls loop of a signal callback (one timer + one signal: no ties)
    gens.append(dict(name="C03_rand_sig",
                     consts=ec.consts({3, 5}, {"add", "act", "raise", "script", "loop", "flags", "break", "del", "adv", "prio"}, 12 if q else 20,
                                      scriptops={"break", "cont", "del", "act"}, durs=(0, 1)),
                     simulate=50 if q else 250, depth=600, constraint="GenConstraintNT"))
    # deferred callbacks beyond the per-iteration quota (MAX_DEFERREDS_QUEUED = 32) run in a later iteration, none lost
    gens.append(dict(name="C03_rand_defer",
                     consts=ec.consts({1, 3}, {"defer", "act", "script", "loop", "flags", "break", "later", "prio"}, 10 if q else 16,
                                      scriptops={"defer", "break", "act"}, durs=(0, 1), nd=36, maxiter=6),
                     simulate=40 if q else 200, depth=600))
    # a deferred callback (priority NPrio/2) scheduled from inside a running lower-priority callback preempts the rest of that queue
    gens.append(dict(name="C03_defer_prio",
                     consts=ec.consts({1, 3}, {"defer", "act", "script", "loop", "prio", "deferpat"}, 6, scriptops={"defer", "once"}, durs=(0,), nd=4)))
    # max_dispatch_interval as a time limit: callbacks that take time (script op adv) end the pass over a limited queue once
    # the interval is used up; the loop's cached time (tv_cache) is what event_add / persist re-scheduling inside callbacks see
    for (mi, mcb, lp) in ([(0, 0, 1), (1, 0, 0)] if q else [(1, 0, 0), (0, 0, 1), (2, 2, 0), (3, 0, 1)]):
        gens.append(dict(name="C03_rand_intv%d_m%d_l%d" % (mi, mcb, lp),
                         consts=ec.consts({1, 3, 4}, {"add", "act", "loop", "script", "prio", "flags"}, 14, durs=(0, 1, 2), maxcb=mcb,
                                          limitprio=lp, scriptops={"adv", "upd", "add", "act", "cont"}, maxintv=mi),
                         simulate=8 if q else 60, depth=400, constraint="GenConstraintNT"))
    plan = {
        "mc": [("C03_mc", ec.consts({1, 3}, {"act", "later", "prio", "script", "loop", "flags", "break", "exit", "add"}, 3 if q else 4,
                                    durs=(0, 1), scriptops={"break", "cont", "act", "later"}, maxcb=1, limitprio=0))],
        "gen": [dict(name="C03_exh", consts=ec.consts({1, 3}, {"act", "later", "script", "loop", "flags", "exit"},
                                                      3, durs=(0,), scriptops={"break", "cont", "act", "later"}, nprio=2))] + gens,
        "need_ops": ["act", "later", "prio", "loop", "break", "cont", "exit", "script:break", "script:cont", "script:act",
                     "script:later", "script:exit", "cb:cb", "defer", "cb:def", "script:adv", "script:upd"],
        "rule": "TLC generates histories mixing activations at different priorities from outside and from inside callbacks "
                "(callback scripts: loopbreak, loopcontinue, loopexit, event_active, active_later, del, add), all loop flag "
                "combinations and base configurations (max_dispatch_callbacks x limit_callbacks_after_prio); replayed on the "
                "real loop, the exact callback order, loop return value, got_break/got_exit and pending sets are compared; "
                "max_dispatch_interval families let callbacks consume virtual time so that the time limit ends the pass. "
                "PrioOrderInv, BreakStops, LaterPromoted are checked by TLC on the model.",
        "assumptions": ["equal heap deadlines are excluded when callbacks have side effects (order unspecified)",
                        "max_dispatch_interval: intervals of 0..3 ticks with callbacks that take 1-2 ticks"],
    }
    return ec.standard_run("C03", tier, seed, plan)


def replay(case, seed):
    return ec.replay_case("C03", case, seed)
