"""C41 - ASCII and socket-address helpers agree with their reference definitions (Ascii.tla; binding G for
tables/strings/snprintf, binding V for evutil_sockaddr_cmp)."""
import json, os
from checks import util_common as uc
import vkit


def run(tier, seed):
    q = tier == "quick"
    chk = vkit.Check("C41", tier, seed)
    uc.driver()
    # ---- character tables for all 256 bytes + snprintf format table
    recs, res = uc.gen(chk, "Ascii", "C41_tab", {"Mode": "tab", "MaxA": 0, "MaxB": 0}, ["TabLaws"])
    cases = [{"op": "ctab"}]
    outs = uc.drive(cases)
    uc.compare(chk, "C41_tab", cases, [recs[0]], outs)
    chk.cov["table_entries_compared"] = 256 * 10
    # ---- strings: every pair (a, b) over the boundary alphabet
    ma, mb = (2, 2) if q else (3, 2)
    recs, res = uc.gen(chk, "Ascii", "C41_str", {"Mode": "str", "MaxA": ma, "MaxB": mb}, ["StrLaws"],
                       workers=vkit.NCPU, dedupe=False)
    cases = [uc.str_case(r) for r in recs]
    exp = [uc.str_expected(r) for r in recs]
    outs = uc.drive(cases)
    uc.compare(chk, "C41_str", cases, exp, outs, nontrivial=lambda c: len(c["a"]) + len(c["b"]) >= 2)
    chk.sample({"gen": "C41_str", "case": cases[len(cases) // 2], "expected": exp[len(cases) // 2]})
    chk.cov["string_pairs"] = len(cases)
    # ---- trailing white space: every word over {v SP TAB VT FF CR LF}
    recs, res = uc.gen(chk, "Ascii", "C41_trim", {"Mode": "trim", "MaxA": 4 if q else 6, "MaxB": 0}, ["StrLaws"], dedupe=False)
    cases = [uc.str_case(r) for r in recs]
    exp = [uc.str_expected(r) for r in recs]
    uc.compare(chk, "C41_trim", cases, exp, uc.drive(cases), nontrivial=lambda c: len(c["a"]) >= 2)
    chk.cov["trim_strings"] = len(cases)
    # ---- evutil_sockaddr_cmp: the observed matrices must be a consistent total order (TLC validates the dump)
    addrs, res = uc.gen(chk, "Ascii", "C41_addrs", {"Mode": "addrs", "MaxA": 0, "MaxB": 0}, [])
    case = {"op": "sacmp", "addrs": addrs[0]}
    out = uc.drive([case])[0]
    chk.count_case(case, True)
    if not isinstance(out, dict) or "m0" not in out:
        chk.violation("evutil_sockaddr_cmp matrix: driver failed: %s" % json.dumps(out)[:1500], {"case": case, "actual": out})
    else:
        d = os.path.join(vkit.OUT, "util")
        os.makedirs(d, exist_ok=True)
        dump = os.path.join(d, "C41_cmpdump_%d.json" % os.getpid())
        with open(dump, "w") as f:
            json.dump(out, f)
        cfg = vkit.write_cfg("C41_cmp", {"Mode": "cmp", "MaxA": 0, "MaxB": 0}, invariants=["TotalOrder"])
        r2 = vkit.tlc("Ascii", cfg, env={"CMPDUMP": dump}, workers=2, want_prints=False)
        chk.add_tlc("C41_cmp", r2, expect_ok=False)
        chk.cov["traces_validated_against_impl"] += 1
        if r2.violation:
            chk.violation("evutil_sockaddr_cmp is not a consistent total order on the address table "
                          "(TLC: invariant %s violated by the dumped matrices)" % r2.violation,
                          {"case": case, "expected": "TotalOrder", "actual": out})
        chk.sample({"gen": "C41_cmp", "addresses": len(addrs[0]), "matrix_with_ports_row0": out["m1"][0]})
        os.unlink(dump)
    chk.cov["exhaustive"] = True
    chk.cov["rule"] = ("Ascii.tla defines the eight class predicates and two case maps by ranges for all 256 bytes, "
                       "StrCaseCmp/StrNCaseCmp(n=0..4)/StrCaseStr/Rtrim/Snprintf on byte strings, and the total-order "
                       "axioms for socket addresses; TLC decides TabLaws and StrLaws and prints the reference results. "
                       "The compiled EVUTIL_IS*_/TO*_ tables are dumped for all 256 bytes and compared entry by entry; "
                       "for every pair (a, b) of strings over {a A z Z @ [ ` { 0 SP TAB 0x80 0xFF} the sign of "
                       "evutil_ascii_strcasecmp/strncasecmp, the offset found by evutil_ascii_strcasestr, "
                       "evutil_rtrim_lws_ (also on every word <= 4/6 over {v SP TAB VT FF CR LF}) and evutil_snprintf(\"%s\") into every buffer size 0..len+2 (exact-size heap "
                       "blocks) are compared; the evutil_sockaddr_cmp sign matrices over 21 addresses (with and without "
                       "ports) are validated by TLC against TotalOrder (antisymmetric, transitive, zero iff equal). "
                       "non-trivial = at least two characters in the pair.")
    chk.assumptions += [
        "the sign of a comparison decided by a byte >= 0x80 is left open (non-zero required)",
        "which total order evutil_sockaddr_cmp implements is left open; only its consistency is checked",
        "evutil_snprintf formats: %s plus a table of five fixed numeric/char formats; return value = C99 length, "
        "0 for a zero-size buffer",
    ]
    return chk.finish()


def replay(stored, seed):
    return uc.replay("C41", stored)
