"""C22 - rate-limited bufferevents never exceed their configured bandwidth (RateLimit.tla, binding V).

 1. TLC decides WindowBound, GroupWindowBound, PerOpMax, NoStall, LevelBound, GroupDeficitBound on the bounded
    model specs/RateLimit.tla (2 bufferevents, one group, every configuration of rate/burst/max_single/membership).
 2. Binding V: seeded scenarios (per-bufferevent limits, group with min_share, max_single_read/write, manual
    decrements, join/leave, traffic with an always-ready peer) are executed on socketpair bufferevents under the
    virtual clock by harness/ratelim_drv.c; specs/RateLimit_Trace.tla (TLC) validates the recorded events: every
    I/O operation against max_single and the budget, the window bounds over the per-tick byte counts, and after
    every step the bucket levels and the per-operation budget the library reports.
"""
import json, os, random, re
import vkit

TICK = 100


def traffic(rng, ops, nb, ticks, *, cfg_bevs=(), bursts=None, grouped=(), joinleave=False):
    """append [loop loop (dec) adv]* for `ticks` ticks"""
    for t in range(ticks):
        for _ in range(rng.choice((1, 2, 3))):
            ops.append({"a": "loop"})
        if cfg_bevs and rng.random() < 0.3:
            b = rng.choice(cfg_bevs); d = rng.randrange(2)
            k = rng.choice((1, 7, 100, 333, bursts[b][d] // 2, bursts[b][d], bursts[b][d] * 3))
            ops.append({"a": "dec", "b": b, "d": d, "k": k})
            if rng.random() < 0.5:      # manual refill of part of it (never above the burst: C21 known finding)
                ops.append({"a": "dec", "b": b, "d": d, "k": -rng.randrange(1, k + 1)})
            ops.append({"a": "loop"})
        if joinleave and rng.random() < 0.25:
            b = rng.choice(joinleave)
            if b in grouped:
                grouped.remove(b); ops.append({"a": "leave", "b": b})
            else:
                grouped.append(b); ops.append({"a": "join", "b": b})
            ops.append({"a": "loop"})
        r = rng.random()
        ops.append({"a": "adv", "ms": TICK if r < 0.7 else (2 * TICK if r < 0.8 else (3 * TICK if r < 0.85 else TICK // 2))})


def scenario(rng, kind):
    ops = []
    nb = 1 if kind == "single" else 2
    bursts = {}
    cfgb = []
    if kind in ("single", "both"):
        for b in range(1, nb + 1):
            rr = rng.choice((100, 500, 1000, 4000)); rb = rr * rng.choice((1, 2, 3))
            wr = rng.choice((100, 700, 1500, 4000)); wb = wr * rng.choice((1, 1, 2, 4))
            ops.append({"a": "setcfg", "b": b, "rr": rr, "rb": rb, "wr": wr, "wb": wb})
            if rng.random() < 0.3:      # reinitialise with a smaller configuration before any traffic
                rr2 = max(1, rr // 2); wr2 = max(1, wr // 2)
                rb, wb = rr2 * rng.choice((1, 2)), wr2 * rng.choice((1, 3))
                ops.append({"a": "setcfg", "b": b, "rr": rr2, "rb": rb, "wr": wr2, "wb": wb})
            bursts[b] = (rb, wb); cfgb.append(b)
            # max_single below, at and above the burst (finding max-single-overridden-by-cfg, fixed in b9ad8f0)
            if rng.random() < 0.6:
                ops.append({"a": "setmax", "b": b, "d": 0, "m": rng.choice((50, rr // 2 + 1, rb - 1, rb, rb + 1, rb + 1000))})
            if rng.random() < 0.6:
                ops.append({"a": "setmax", "b": b, "d": 1, "m": rng.choice((50, wr // 2 + 1, wb - 1, wb, wb + 1, wb + 1000))})
    grouped = []
    if kind in ("group", "both"):
        rr = rng.choice((300, 1000, 3000)); wr = rng.choice((400, 1000, 2500))
        ops.append({"a": "group", "rr": rr, "rb": rr * rng.choice((1, 2, 3)), "wr": wr, "wb": wr * rng.choice((1, 2)),
                    "ms": rng.choice((1, 64, 200, 100000))})
        for b in range(1, nb + 1):
            ops.append({"a": "join", "b": b}); grouped.append(b)
        if kind == "group":
            for b in range(1, nb + 1):      # no own cfg: max_single is free to be small
                if rng.random() < 0.6:
                    ops.append({"a": "setmax", "b": b, "d": rng.randrange(2), "m": rng.choice((50, 150, 999))})
    traffic(rng, ops, nb, rng.randrange(6, 14), cfg_bevs=cfgb, bursts=bursts, grouped=grouped,
            joinleave=list(range(1, nb + 1)) if kind == "both" else False)
    return {"cfg": {"tickms": TICK, "offms": rng.choice((0, 1, 30, 50, 99)), "nb": nb}, "h": ops}


def gset_scenario(rng, variant):
    """bufferevent_rate_limit_group_set_cfg on a live group.
    idle: big burst, idle until the group bucket is full, set_cfg to a much smaller rate/burst, members join, traffic.
    busy: members and traffic first, set_cfg (smaller or larger) in the middle, more traffic."""
    ops = []
    if variant == "idle":
        rr, wr = rng.choice((5000, 8000)), rng.choice((4000, 6000))
        ops.append({"a": "group", "rr": rr, "rb": rr * 10, "wr": wr, "wb": wr * 10, "ms": rng.choice((1, 64, 200))})
        for _ in range(rng.randrange(10, 13)):
            ops += [{"a": "loop"}, {"a": "adv", "ms": TICK}]
        nr, nw = rng.choice((300, 500)), rng.choice((400, 800))
        ops.append({"a": "gsetcfg", "rr": nr, "rb": nr * rng.choice((1, 4)), "wr": nw, "wb": nw * rng.choice((1, 2))})
        ops += [{"a": "join", "b": 1}, {"a": "join", "b": 2}]
        traffic(rng, ops, 2, rng.randrange(5, 8))
    else:
        rr, wr = rng.choice((1000, 3000)), rng.choice((1000, 2500))
        ops.append({"a": "group", "rr": rr, "rb": rr * 3, "wr": wr, "wb": wr * 2, "ms": rng.choice((1, 64, 200))})
        ops += [{"a": "join", "b": 1}, {"a": "join", "b": 2}]
        traffic(rng, ops, 2, rng.randrange(3, 6))
        f = rng.choice((4, 2, 1))           # smaller or larger configuration
        nr, nw = (rr // f, wr // f) if rng.random() < 0.7 else (rr * 2, wr * 2)
        ops.append({"a": "gsetcfg", "rr": nr, "rb": nr * rng.choice((1, 2)), "wr": nw, "wb": nw * rng.choice((1, 3))})
        traffic(rng, ops, 2, rng.randrange(4, 8))
    return {"cfg": {"tickms": TICK, "offms": rng.choice((0, 30, 99)), "nb": 2}, "h": ops}


def debt_scenario(rng, rfeed=1):
    """a manual decrement of several ticks' worth: the direction must resume within debt/rate + 1 ticks (progress clause)"""
    rr, wr = rng.choice((500, 1000)), rng.choice((700, 1000))
    ops = [{"a": "setcfg", "b": 1, "rr": rr, "rb": rr * rng.choice((1, 2)), "wr": wr, "wb": wr * rng.choice((1, 2))}, {"a": "loop"}]
    d = rng.randrange(2)
    ops.append({"a": "dec", "b": 1, "d": 1, "k": wr * rng.choice((3, 4)) + rng.choice((0, 1, wr // 2))})
    if rng.random() < 0.5:
        ops.append({"a": "dec", "b": 1, "d": 0, "k": rr * rng.choice((2, 5)) + d})
    for _ in range(12):
        ops += [{"a": "loop"}, {"a": "adv", "ms": TICK}]
    ops.append({"a": "loop"})
    # rfeed = 0: write traffic only (the read side then never re-arms the shared refill timer)
    return {"cfg": {"tickms": TICK, "offms": rng.choice((0, 30, 99)), "nb": 1, "rfeed": rfeed}, "h": ops}


def known_trigger():
    """max_single_read=100 with a per-bufferevent cfg of rate=burst=50000 (DESIGN section 8-8; fixed in b9ad8f0):
    part of the general corpus"""
    ops = [{"a": "setmax", "b": 1, "d": 0, "m": 100}, {"a": "setcfg", "b": 1, "rr": 50000, "rb": 50000, "wr": 50000, "wb": 50000},
           {"a": "loop"}, {"a": "loop"}, {"a": "adv", "ms": TICK}, {"a": "loop"}]
    return {"cfg": {"tickms": TICK, "offms": 10, "nb": 1}, "h": ops}


def validate(chk, name, outs):
    """concatenate the executions into one ndjson trace and let TLC validate it; returns (ok, message, event index)"""
    d = os.path.join(vkit.OUT, "gen", "C22"); os.makedirs(d, exist_ok=True)
    path = os.path.join(d, name + ".ndjson")
    starts = []
    n = 0
    with open(path, "w") as f:
        for o in outs:
            starts.append(n + 1)
            for ev in o["ev"]:
                f.write(json.dumps(ev, separators=(",", ":")) + "\n"); n += 1
    cfg = vkit.write_cfg("C22_" + name, {}, invariants=["NoViolation"], postcondition="Post")
    res = vkit.tlc("RateLimit_Trace", cfg, env={"TRACE": path}, workers=1, timeout=1200)
    chk.cov["tlc_runs"].append({"name": name, "distinct": res.distinct, "generated": res.generated, "depth": res.depth,
                                "wall_s": round(res.wall, 1), "violation": res.violation, "events": n})
    chk.cov["states"] += res.distinct; chk.cov["transitions"] += res.generated
    if res.error:
        raise vkit.InfraError("TLC trace validation %s: %s\n%s" % (name, res.error, res.raw[-3000:]))
    if res.violation is None:
        if res.distinct < n + 1:
            raise vkit.InfraError("trace %s not consumed: %d states for %d events\n%s" % (name, res.distinct, n, res.raw[-2000:]))
        return True, "", None, starts
    m = re.search(r'bad = "event (\d+): ([^"]*)"', res.raw)
    if not m:
        raise vkit.InfraError("trace validation %s: violation without message\n%s" % (name, res.raw[-3000:]))
    return False, m.group(2), int(m.group(1)), starts


def run(tier, seed):
    q = tier == "quick"
    chk = vkit.Check("C22", tier, seed)
    rng = random.Random(seed)
    exe = vkit.cc("ratelim_drv", ["ratelim_drv.c"], vclock=True)

    # ---- 1. the bounded model
    if q:
        c = {"Bevs": {1, 2}, "MaxTick": 2, "Rates": {2}, "Bursts": {3}, "Singles": {2},
             "GRate": 2, "GBurst": 3, "GMinShare": 1, "MaxOps": 2, "GCfgs": {16 * 1 + 1}}
    else:
        c = {"Bevs": {1, 2}, "MaxTick": 2, "Rates": {1, 2}, "Bursts": {2, 3}, "Singles": {1, 3},
             "GRate": 2, "GBurst": 3, "GMinShare": 1, "MaxOps": 2, "GCfgs": {16 * 1 + 1, 16 * 3 + 4}}
    invs = ["TypeOK", "WindowBound", "GroupWindowBound", "PerOpMax", "NoStall", "LevelBound", "GroupDeficitBound"]
    cfg = vkit.write_cfg("C22_mc", c, invariants=invs)
    res = vkit.tlc("RateLimit", cfg, want_prints=False, coverage=True, workers=4, timeout=1100)
    chk.add_tlc("C22_mc", res)
    chk.check_coverage(res, ["TickAdvance", "ManualDecrement", "Join", "Leave", "GroupSetCfg"], "C22_mc")
    if not q:   # a second group shape: min_share larger than an even share
        c2 = dict(c, GRate=3, GBurst=3, GMinShare=2, Singles={2, 4}, Rates={2}, Bursts={3})
        res2 = vkit.tlc("RateLimit", vkit.write_cfg("C22_mc2", c2, invariants=invs), want_prints=False, workers=4, timeout=1100)
        chk.add_tlc("C22_mc2", res2)
    chk.cov["exhaustive"] = True

    # ---- 2. traces of the real library
    kinds = ["single", "group", "both"]
    scen = [known_trigger()] + [scenario(rng, kinds[i % 3]) for i in range(15 if q else 150)]
    scen += [gset_scenario(rng, v) for v in (("idle", "idle", "busy", "busy") if q else ("idle", "busy") * 15)]
    scen += [debt_scenario(rng, i % 2) for i in range(4 if q else 16)]
    outs = vkit.run_driver(exe, scen, timeout=300)
    for s, o in zip(scen, outs):
        if o is None or "crash" in o:
            chk.violation("driver crashed: %s" % (o or {}).get("crash", "no output")[-1500:], {"scenario": s})
    good = [(s, o) for s, o in zip(scen, outs) if o and "ev" in o]
    nio = 0
    for s, o in good:
        n = sum(1 for e in o["ev"] if e["e"] == "io")
        nio += n
        chk.count_case(s, nontrivial=n >= 2)
    if nio < 20 * len(good) // 4:
        raise vkit.InfraError("vacuous traces: only %d I/O operations in %d executions" % (nio, len(good)))
    chk.cov["io_operations_logged"] = nio
    for s, o in good[:3]:
        chk.sample({"scenario": s["h"][:6], "events": o["ev"][:5]})
    # validate in batches; on a rejection report it and continue with the remaining executions
    pending = good
    batch = 0
    while pending:
        ok, msg, idx, starts = validate(chk, "trace%d" % batch, [o for _, o in pending])
        batch += 1
        if ok:
            chk.cov["traces_validated_against_impl"] += len(pending)
            break
        k = max(i for i, st in enumerate(starts) if st <= idx)
        s, o = pending[k]
        chk.cov["traces_validated_against_impl"] += k + 1
        chk.violation("execution rejected by RateLimit_Trace at its event %d: %s" % (idx - starts[k], msg),
                      {"scenario": s, "events": o["ev"][:idx - starts[k] + 1], "message": msg})
        pending = pending[k + 1:]
        if batch > 6:
            break

    chk.cov["rule"] = ("TLC explores the bounded RateLimit model exhaustively; each execution of the real library is validated event by "
                       "event by TLC (RateLimit_Trace): per-operation byte counts vs max_single and min(max_single, bucket, share), window "
                       "sums vs burst + k*rate per bufferevent and per group, and after every step the own bucket levels, the reported "
                       "per-operation budget, the group bucket levels and progress. non-trivial = executions with at least two I/O operations.")
    chk.assumptions += ["virtual monotonic and wall clock via link-time wrapping; tick = 100 ms; all configurations share the tick length",
                        "the group bucket level and suspended flag are read from the library after every step (the group refill timer is "
                        "internal); an I/O operation of a group member may use the share after one more group refill",
                        "per-bufferevent configurations are set before traffic starts; manual refills never lift a bucket above its burst "
                        "(open C21 finding refill-level-above-burst)",
                        "'makes progress within one tick' is decided on the model (NoStall); on traces a bufferevent outside a group with a positive "
                        "bucket must move bytes within 3 ticks (refill timer + re-arming by the other direction allowed for)",
                        "group windows are accounted against the configuration in force from the tick it was installed; windows starting in that "
                        "tick get one extra tick's rate (the timer's refill for that tick may arrive after the clip)"]
    return chk.finish()
