"""Shared machinery for the WebSocket checks C31 / C32 (specs/WsFrames.tla, harness/ws_drv.c)."""
import json, os, random, shutil, zlib, hashlib, base64
import vkit

LIMIT = 10485760          # WS_MAX_RECV_FRAME_SZ of ws.c (the implementation's size limit)
GUID = "258EAFA5-E914-47DA-95CA-C5AB0DC85B11"

# keys of the open/fixed findings (known_findings.d/C31-*.json, C32-*.json)
K1 = "ws-final-continuation-rejected"
K2 = "ws-frames-after-close-processed"
K3 = "ws-malformed-fragmentation-accepted"
K4 = "ws-accept-key-truncated-at-987"


def driver():
    """Build harness/ws_drv.c against the current tree.  Selftest facility: VERIF_WS_MUTANT=<path of a mutated copy
    of ws.c> compiles that copy into the driver, where it takes precedence over the library's ws.c object."""
    srcs = ["ws_drv.c"]
    m = os.environ.get("VERIF_WS_MUTANT")
    if m:
        vkit.log("[selftest] linking mutated ws.c copy %s" % m)
        srcs.append(os.path.abspath(m))
    return vkit.cc("ws_drv", srcs)


# ------------------------------------------------------------------ TLC glue
def tv(v):
    if isinstance(v, bool):
        return "TRUE" if v else "FALSE"
    if isinstance(v, int):
        return str(v)
    if isinstance(v, str):
        return '"%s"' % v
    if isinstance(v, (set, frozenset)):
        return "{" + ", ".join(sorted(tv(x) for x in v)) + "}"
    if isinstance(v, (list, tuple)):
        return "<<" + ", ".join(tv(x) for x in v) + ">>"
    if isinstance(v, dict):
        return "[" + ", ".join("%s |-> %s" % (k, tv(x)) for k, x in v.items()) + "]"
    raise ValueError(v)


def write_mc(name, consts, invariants=(), properties=(), constraint=None):
    """The cfg syntax has no tuples: constants are bound through a generated wrapper module
    out/ws/mc/<name>.tla (EXTENDS WsFrames, one definition per constant)."""
    d = os.path.join(vkit.OUT, "ws", "mc")
    os.makedirs(d, exist_ok=True)
    dst = os.path.join(d, "WsFrames.tla")
    src = os.path.join(vkit.SPECS, "WsFrames.tla")
    tmp = dst + ".%d" % os.getpid()
    shutil.copy(src, tmp)
    os.replace(tmp, dst)
    L = ["---- MODULE %s ----" % name, "EXTENDS WsFrames"] + ["c_%s == %s" % (k, tv(v)) for k, v in consts.items()] + ["===="]
    with open(os.path.join(d, name + ".tla"), "w") as f:
        f.write("\n".join(L) + "\n")
    C = ["CONSTANTS"] + ["  %s <- c_%s" % (k, k) for k in consts] + ["INIT Init", "NEXT Next"]
    if constraint:
        C.append("CONSTRAINT " + constraint)
    C += ["INVARIANT " + i for i in invariants] + ["PROPERTY " + p for p in properties] + ["CHECK_DEADLOCK FALSE"]
    with open(os.path.join(d, name + ".cfg"), "w") as f:
        f.write("\n".join(C) + "\n")
    return os.path.join(d, name + ".tla"), os.path.join(d, name + ".cfg")


def fam(n=1, lim=LIMIT, fins=(0, 1), rsvs=(0,), ops=(1, 2), masks=(1,), lens=((7, 0),), his=(0,), fixed=()):
    """one frame-alphabet family (see CONSTANT Fams)"""
    return {"n": n, "lim": lim, "fins": set(fins), "rsvs": set(rsvs), "ops": set(ops), "masks": set(masks),
            "lens": set(lens), "his": set(his), "fixed": tuple(fixed)}


def consts(fams=None, **kw):
    c = {"Mode": "gen", "Fams": tuple(fams or [fam()]), "Avoid": set(), "KAT": (("k", "a"),), "EncLens": {0},
         "Codes": {1000}, "D": 1, "Pols": {1}}
    c.update(kw)
    return c


DEC_INV = ["TypeOK", "HdrOK", "SegmentationIndependent", "MatchesTokenDecoder", "NoPartialDelivery"]
DEC_PROP = ["NothingAfterClose"]


def model_check_decoder(chk, name, c, *, workers=None, timeout=1500):
    spec, cfg = write_mc(name, c, invariants=DEC_INV, properties=DEC_PROP)
    res = vkit.tlc(spec, cfg, workers=workers, coverage=True, want_prints=False, timeout=timeout)
    chk.add_tlc(name, res)
    vkit.log("[tlc] %s: %d distinct states, %.1fs" % (name, res.distinct, res.wall))
    chk.check_coverage(res, ["Start", "FeedChunk"], name)
    return res


def generate(chk, name, c, *, invariants=("HdrOK", "Emit"), simulate=None, depth=None, seed=None, workers=None,
             timeout=1200, max_out=None):
    spec, cfg = write_mc(name, c, invariants=invariants, constraint="GenConstraint")
    out, seen = [], set()

    def sink(v):
        k = hash(json.dumps(v, sort_keys=True))
        if k in seen:
            return
        seen.add(k)
        if max_out is None or len(out) < max_out:
            out.append(v)
    res = vkit.tlc(spec, cfg, simulate=simulate, depth=depth, seed=seed, workers=workers or (4 if simulate else None),
                   print_sink=sink, timeout=timeout)
    chk.add_tlc(name, res)
    vkit.log("[tlc] %s: %d records, %.1fs" % (name, len(out), res.wall))
    if not out:
        raise vkit.InfraError("generator %s produced nothing\n%s" % (name, res.raw[-2000:]))
    return out


# ------------------------------------------------------------------ payload pattern (defined in the spec: PatByte)
def pat_bytes(p, off=0, ln=None):
    n, s, b, m = p
    if ln is None:
        ln = n - off
    if ln <= 0:
        return b""
    basep = bytes(b + ((s + 7 * j) % m) for j in range(m))
    st = off % m
    reps = (st + ln) // m + 2
    return (basep * reps)[st:st + ln]


def msg_expect(m):
    data = b"".join(pat_bytes(p) for p in m["p"])
    return {"t": m["t"], "n": len(data), "crc": zlib.crc32(data) & 0xffffffff}


# ------------------------------------------------------------------ handshake
def upgrade_request(key_bytes, path="/ws"):
    req = (b"GET " + path.encode() + b" HTTP/1.1\r\nHost: 127.0.0.1\r\nUpgrade: websocket\r\nConnection: Upgrade\r\n"
           b"Sec-WebSocket-Key: " + key_bytes + b"\r\nSec-WebSocket-Version: 13\r\n\r\n")
    return req.decode("latin-1")


def accept_of(key_bytes):
    """Known-answer oracle for the digest clause (the SHA-1/base64 computation is not modelled in TLA+)."""
    return base64.b64encode(hashlib.sha1(key_bytes + GUID.encode()).digest()).decode()


def parse_head(head):
    lines = head.split("\r\n")
    status = None
    try:
        status = int(lines[0].split(" ")[1])
    except Exception:
        pass
    hdrs = {}
    for l in lines[1:]:
        if ":" in l:
            k, v = l.split(":", 1)
            hdrs.setdefault(k.strip().lower(), []).append(v.strip())
    return status, hdrs


DEFAULT_KEY = b"dGhlIHNhbXBsZSBub25jZQ=="
OPEN_OP = {"a": "open", "req": upgrade_request(DEFAULT_KEY)}


# ------------------------------------------------------------------ C31: segmentations
def frame_layout(rec):
    """[(start, hl, pl)] and total wire length"""
    lay, o = [], 0
    for f in rec["fr"]:
        hl, pl = len(f["h"]), f["p"][0]
        lay.append((o, hl, pl))
        o += hl + pl
    return lay, o


def segment_ops(rec, cuts):
    """client writes for the byte stream of rec cut at the sorted positions `cuts`"""
    lay, total = frame_layout(rec)
    bounds = [0] + sorted(set(c for c in cuts if 0 < c < total)) + [total]
    ops = []
    for a, b in zip(bounds, bounds[1:]):
        if a == b:
            continue
        ch = []
        for f, (o, hl, pl) in zip(rec["fr"], lay):
            lo, hi = max(a, o), min(b, o + hl)
            if lo < hi:
                ch.append({"b": f["h"][lo - o:hi - o]})
            lo, hi = max(a, o + hl), min(b, o + hl + pl)
            if lo < hi:
                c = {"p": f["p"], "off": lo - o - hl, "len": hi - lo}
                if f["k"]:
                    c["k"] = f["k"]
                ch.append(c)
        ops.append({"a": "send", "ch": ch})
    return ops


def interesting_positions(rec):
    """cut points: everything for short streams; for long ones all positions in the header
    regions, around frame ends, around the 16 KiB read size, plus payload samples"""
    lay, total = frame_layout(rec)
    if total <= 96:
        return list(range(1, total))
    pos = set()
    for (o, hl, pl) in lay:
        for c in range(o - 2, o + hl + 3):
            pos.add(c)
        for c in (o + hl + pl // 2, o + hl + pl - 1, o + hl + 4093, o + hl + 4096, o + hl + 16384, o + hl + 16385):
            if o + hl < c < o + hl + pl:
                pos.add(c)
    return sorted(c for c in pos if 0 < c < total)


def segmentations(rec, rnd, *, forced, singles, multis, bytewise=True):
    """list of (label, cuts)"""
    lay, total = frame_layout(rec)
    ip = interesting_positions(rec)
    segs = [("whole", [])]
    if bytewise and ip:
        segs.append(("fine", list(ip)))
    sp = list(ip)
    if singles is not None and len(sp) > singles:
        sp = sorted(rnd.sample(sp, singles))
    segs += [("cut%d" % c, [c]) for c in sp]
    for k in range(multis):
        if total > 2:
            n = rnd.randint(2, min(6, total - 1))
            pool = ip if (len(ip) >= n and rnd.random() < 0.7) else range(1, total)
            segs.append(("multi%d" % k, sorted(rnd.sample(list(pool), min(n, len(pool))))))
    out, seen = [], set()
    for lab, cuts in segs:
        cuts = sorted(set(cuts) | set(forced))
        key = tuple(cuts)
        if key in seen:
            continue
        seen.add(key)
        out.append((lab, cuts))
    return out


def forced_cuts(rec, k2_open):
    """K2 avoidance: what follows the terminating frame goes into a separate, later write"""
    if not k2_open:
        return []
    t = rec.get("term", 0)
    lay, total = frame_layout(rec)
    if 0 < t < len(lay):
        o, hl, pl = lay[t - 1]
        return [o + hl + pl]
    return []


# ------------------------------------------------------------------ C31: oracle
def parse_server_frames(data):
    """structure of the bytes the server wrote back: [(b0, masked, payload)] or None if not a frame sequence"""
    fr, i = [], 0
    while i < len(data):
        if i + 2 > len(data):
            return None
        b0, b1 = data[i], data[i + 1]
        l7 = b1 & 0x7f
        i += 2
        if l7 == 126:
            if i + 2 > len(data):
                return None
            ln = int.from_bytes(data[i:i + 2], "big"); i += 2
        elif l7 == 127:
            if i + 8 > len(data):
                return None
            ln = int.from_bytes(data[i:i + 8], "big"); i += 8
        else:
            ln = l7
        if b1 & 0x80:
            return None
        if i + ln > len(data):
            return None
        fr.append((b0, data[i:i + ln]))
        i += ln
    return fr


def check_written_back(wbhex, wbn, alt):
    """The property fixes no reply bytes; what the server may write while only receiving is: pongs echoing
    received pings (optional) and, iff the connection is being closed, at most one final close frame."""
    data = bytes.fromhex(wbhex)
    if wbn != len(data):
        return "driver reported %d bytes written back but %d as hex" % (wbn, len(data))
    fr = parse_server_frames(data)
    if fr is None:
        return "bytes written back are not a sequence of unmasked frames: %s" % wbhex
    pings = [b"".join(pat_bytes(p) for p in pg) for pg in alt["pings"]]
    pi = 0
    for j, (b0, pay) in enumerate(fr):
        if b0 == 0x8A:
            while pi < len(pings) and pings[pi] != pay:
                pi += 1
            if pi >= len(pings):
                return "pong with a payload that answers no received ping"
            pi += 1
        elif b0 == 0x88:
            if not alt["closed"]:
                return "close frame written although the connection is not to be closed"
            if j != len(fr) - 1:
                return "frames written after the close frame"
            if len(pay) == 1 or len(pay) > 125:
                return "malformed close frame payload"
        else:
            return "unexpected frame 0x%02x written to the client" % b0
    return None


def compare_c31(rec, obs):
    """obs: driver observations (open + sends). Returns None if some policy alternative matches."""
    if isinstance(obs, dict) and obs.get("hang"):
        raise vkit.InfraError("driver shard timed out (machine overloaded?): %s" % obs.get("crash", "")[:200])
    if not isinstance(obs, dict) or "obs" not in obs:
        return "driver: %s" % (obs.get("crash") if isinstance(obs, dict) else obs)
    steps = obs["obs"]
    if not steps or "head" not in steps[0]:
        return "handshake step failed: %r" % (steps[:1],)
    st, hdrs = parse_head(steps[0]["head"])
    if st != 101 or steps[0].get("sess") != 1:
        return "upgrade not accepted: status %r" % st
    msgs, wbhex, wbn, closed, eof = [], "", 0, 0, 0
    for s in steps[1:]:
        if "err" in s:
            return "driver step error %s" % s["err"]
        if s.get("wd"):
            raise vkit.InfraError("driver watchdog expired")
        msgs += s["msgs"]
        wbhex += s["wb"]["hex"]; wbn += s["wb"]["n"]
        closed, eof = s["closed"], s["eof"]
    errs = []
    for alt in rec["exp"]:
        want = [msg_expect(m) for m in alt["msgs"]]
        got = [{"t": m["t"], "n": m["n"], "crc": m["crc"]} for m in msgs]
        if got != want:
            errs.append("messages delivered %s, reference %s" % (json.dumps(got), json.dumps(want)))
            continue
        if any(not m.get("own") for m in msgs):
            errs.append("message callback ran for a session that was already closed")
            continue
        if closed != alt["closed"]:
            errs.append("close callback ran %d times, reference closed=%d (messages agree)" % (closed, alt["closed"]))
            continue
        if eof != alt["closed"]:
            errs.append("client saw EOF=%d, reference closed=%d" % (eof, alt["closed"]))
            continue
        e = check_written_back(wbhex, wbn, alt)
        if e:
            errs.append(e)
            continue
        return None
    return errs[0] + (" (and %d other policy alternatives also differ)" % (len(errs) - 1) if len(errs) > 1 else "")


def describe(rec):
    return [dict(zip(("fin", "rsv", "op", "mk", "lf", "len", "hi"), f["d"])) for f in rec["fr"]]


def finding_status(chk):
    st = {}
    for f in chk.findings:
        st[f.get("key")] = f.get("status")
    return st


def run_records(chk, exe, recs, rnd, *, label, singles, multis, k2_open, bytewise=True, limit_fail=5, key=None,
                seg_filter=None):
    """Run every record under every segmentation class; compare with the reference prediction."""
    scen, meta = [], []
    for rec in recs:
        for lab, cuts in segmentations(rec, rnd, forced=forced_cuts(rec, k2_open), singles=singles, multis=multis,
                                       bytewise=bytewise):
            if seg_filter and not seg_filter(lab):
                continue
            scen.append({"h": [OPEN_OP] + segment_ops(rec, cuts), "full": 1})
            meta.append((rec, lab, cuts))
    import time
    t0 = time.time()
    outs = vkit.run_driver(exe, scen, timeout=3000)
    vkit.log("[drv] %s: %d runs in %.1fs" % (label[:40], len(scen), time.time() - t0))
    nfail = 0
    for (rec, lab, cuts), sc, o in zip(meta, scen, outs):
        chk.cov["traces_validated_against_impl"] += 1
        chk.count_case({"fr": [f["d"] for f in rec["fr"]], "cuts": cuts}, nontrivial=len(rec["fr"]) >= 1)
        msg = compare_c31(rec, o)
        if msg:
            nfail += 1
            if nfail <= limit_fail:
                chk.violation("%s frames=%s segmentation=%s cuts=%s: %s" % (label, json.dumps(describe(rec)), lab, cuts, msg),
                              {"rec": rec, "cuts": cuts, "scenario": sc, "driver": o, "msg": msg}, key=key)
    if nfail:
        vkit.log("[%s] %d/%d runs differ" % (label, nfail, len(scen)))
    return len(scen), nfail


def replay_c31(case, seed):
    exe = driver()
    c = case["case"]
    o = vkit.run_driver(exe, [c["scenario"]])[0]
    msg = compare_c31(c["rec"], o)
    print(json.dumps({"driver": o, "result": msg}, indent=1))
    return 1 if msg else 0
