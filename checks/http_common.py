"""Shared machinery for the HTTP framing checks (C23 server view, C24 client view, C25 limits).

Generation: TLC enumerates (or simulates) token streams of specs/HttpFraming.tla and prints, for each,
the octets and the set of results the RFC 9112 reference allows (`alts`).  Replay: harness/http_drv.c feeds
the octets to the real library under a family of segmentations; this module compares what the callbacks saw.
"""
import json, os, random, re
import vkit

SPEC = "HttpFraming"

# ----------------------------------------------------------------------------- TLC
def consts(view, lines, hdrs, bodies, maxhdr, maxmsg, seg="none", reqseqs=(), eofs=(False,), sizes=(), prefixes=False):
    return {"Prefixes": prefixes, "RecvSizes": _Raw("{" + ", ".join(str(k) for k in sizes) + "}"),
            "View": view, "LineToks": set(lines), "HdrToks": set(hdrs), "BodyToks": set(bodies),
            "MaxHdr": maxhdr, "MaxMsg": maxmsg, "Seg": seg,
            "ReqSeqs": _SetOfSeqs(reqseqs), "Eofs": _Raw("{" + ", ".join("TRUE" if e else "FALSE" for e in eofs) + "}")}


class _Raw:
    def __init__(self, s): self.s = s


class _SetOfSeqs(_Raw):
    def __init__(self, seqs):
        self.s = "{" + ", ".join('"%s"' % "+".join(q) for q in seqs) + "}"


def write_cfg(name, c, invariants=(), properties=()):
    d = os.path.join(vkit.OUT, "cfg")
    os.makedirs(d, exist_ok=True)
    p = os.path.join(d, name + ".cfg")
    L = ["CONSTANTS"]
    for k, v in c.items():
        L.append("  %s = %s" % (k, v.s if isinstance(v, _Raw) else vkit.tla_val(v)))
    L += ["INIT Init", "NEXT Next"]
    L += ["INVARIANT " + i for i in invariants]
    L += ["PROPERTY " + i for i in properties]
    L.append("CHECK_DEADLOCK FALSE")
    open(p, "w").write("\n".join(L) + "\n")
    return p


def generate(chk, name, c, *, simulate=None, depth=None, seed=None, workers=None, timeout=1200, max_streams=None):
    """All streams over the alphabet `c` (BFS) or random ones (simulate); returns list of stream dicts."""
    cfg = write_cfg(name, c, invariants=["TypeOK", "Emit"])
    out, seen = [], set()

    def sink(v):
        k = (v["bytes"], json.dumps(v["rq"]), v["eof"])
        if k in seen:
            return
        seen.add(k)
        if max_streams is None or len(out) < max_streams:
            out.append(v)
    res = vkit.tlc(SPEC, cfg, simulate=simulate, depth=depth, seed=seed, print_sink=sink, timeout=timeout,
                   workers=workers or (8 if simulate else vkit.NCPU))
    chk.add_tlc(name, res)
    if not out:
        raise vkit.InfraError("generator %s produced no streams\n%s" % (name, res.raw[-2000:]))
    return out


def model_check(chk, name, c, *, timeout=1500, workers=None, client=False):
    """Decide the reference's own properties on every segmentation of every stream of the alphabet."""
    inv = ["TypeOK", "SegmentationIndependent", "NoGuessingClient" if client else "NoGuessing"]
    cfg = write_cfg(name, c, invariants=inv, properties=["PrefixStable"])
    # (TLC's -coverage is unusable here: it exhausts the heap on the recursive string operators)
    res = vkit.tlc(SPEC, cfg, want_prints=False, timeout=timeout, workers=workers)
    chk.add_tlc(name, res)
    if res.distinct < 300 or res.generated < 3 * res.distinct:
        raise vkit.InfraError("vacuous model run %s: %r" % (name, res))
    return res


# ----------------------------------------------------------------------------- segmentations
def segmentations(n, rng, *, single="all", nrand=4):
    """Cut-offset lists for an n-octet stream: whole, octet-at-a-time, single cuts, seeded random multi-cuts."""
    segs = [[]]
    if n > 1:
        segs.append(list(range(1, n)))
        cuts = list(range(1, n))
        if single != "all" and len(cuts) > single:
            cuts = sorted(rng.sample(cuts, single))
        segs += [[c] for c in cuts]
        for _ in range(nrand):
            k = rng.randint(2, min(6, n - 1)) if n > 2 else 1
            segs.append(sorted(rng.sample(range(1, n), k)))
    return segs


def seg_class(seg, n):
    if not seg:
        return "whole"
    if len(seg) == n - 1:
        return "octet"
    return "single" if len(seg) == 1 else "multi"


# ----------------------------------------------------------------------------- comparison (server view)
def _hdr_match(exp, act):
    """exp: [{n, v:[parts]}], act: [[k, v]]"""
    if len(exp) != len(act):
        return False
    for e, a in zip(exp, act):
        if e["n"] != a[0]:
            return False
        if len(e["v"]) == 1:
            if e["v"][0] != a[1]:
                return False
        elif not re.fullmatch("[ \t]+".join(re.escape(p) for p in e["v"]), a[1]):
            return False
    return True


def _deliv_match(e, a):
    if e["m"] != a["m"] or e["t"] != a["t"] or list(e["v"]) != list(a["v"]):
        return "start line: expected %s %s %s got %s %s %s" % (e["m"], e["t"], e["v"], a["m"], a["t"], a["v"])
    # trailer fields: a recipient may discard them or make them available; libevent appends them to the
    # header list - both accepted
    if not (_hdr_match(e["h"], a["h"]) or (e["trl"] and _hdr_match(e["h"] + e["trl"], a["h"]))):
        return "header fields: expected %s got %s" % (json.dumps(e["h"]), json.dumps(a["h"]))
    if not e["anyb"] and e["b"] != a["b"]:
        return "body: expected %r got %r" % (e["b"], a["b"])
    return None


def final_statuses(st):
    return [s for s in st if not (100 <= s < 200)]


def match_alt_server(alt, o):
    out, end = alt["out"], alt["end"]
    d = o["d"]
    st = final_statuses(o["st"])
    if end == "unspec":
        if len(d) < len(out):
            return "expected at least %d deliveries, got %d" % (len(out), len(d))
    elif len(d) != len(out):
        return "expected %d deliveries, got %d" % (len(out), len(d))
    for i, e in enumerate(out):
        m = _deliv_match(e, d[i])
        if m:
            return "delivery %d: %s" % (i, m)
    ok200 = [200] * len(out)
    if st[:len(out)] != ok200:
        return "responses to the delivered requests: %s" % st
    if end == "unspec":
        return None
    if o["d_eof"]:
        return "%d request(s) delivered only when the sender closed" % o["d_eof"]
    rest = st[len(out):]
    if end in ("open", "partial"):
        if rest or o["closed"]:
            return "connection should stay open without further responses: statuses %s closed=%s" % (st, o["closed"])
    elif end == "closed":
        if rest or not o["closed"]:
            return "connection should be closed after the last response: statuses %s closed=%s" % (st, o["closed"])
    elif end == "rejected":
        err = [s for s in rest if s >= 300 or s < 0]
        if len(rest) > 1 or len(err) != len(rest) or not (err or o["closed"]):
            return "rejection must be an error status or close: statuses %s closed=%s" % (st, o["closed"])
    return None


def match_server(stream, o):
    """None if observation `o` is one of the allowed results, else the list of per-alternative reasons."""
    why = []
    for alt in stream["alts"]:
        m = match_alt_server(alt, o)
        if m is None:
            return None
        why.append("[%s after %d] %s" % (alt["end"], len(alt["out"]), m))
    return why


def seg_signature_server(o):
    return json.dumps([o["d"], final_statuses(o["st"]), o["closed"]], sort_keys=True)


def toks_of(stream):
    s = set()
    for m in stream["toks"]:
        s.add("l:" + m["l"]); s.add("b:" + m["b"])
        for h in m["hs"]:
            s.add("h:" + h)
    return s


def run_server(chk, exe, streams, rng, *, label, single="all", nrand=4, cfg=None, keyfn=None, limit_report=6):
    """Feed every stream to the real server under its segmentations and compare.  Returns #failing streams."""
    scen, segl = [], []
    for s in streams:
        b = s["bytes"].encode("latin-1")
        segs = segmentations(len(b), rng, single=single, nrand=nrand)
        segl.append(segs)
        scen.append({"mode": "server", "cfg": cfg or {}, "bytes": s["bytes"], "segs": segs, "eof": 1})
    outs = vkit.run_driver(exe, scen, timeout=3000)
    nfail = 0
    for s, segs, sc, o in zip(streams, segl, scen, outs):
        chk.cov["traces_validated_against_impl"] += len(segs)
        for sg in segs:
            c = seg_class(sg, len(s["bytes"]))
            chk.cov.setdefault("segmentation_classes", {}).setdefault(c, 0)
            chk.cov["segmentation_classes"][c] += 1
        msg = None
        if o is None or "crash" in o:
            if o and o.get("hang"):
                raise vkit.InfraError("driver hang on %r" % s["bytes"])
            msg = "driver crashed: %s" % (o or {}).get("crash", "no output")
        elif o.get("hang"):
            raise vkit.InfraError("driver watchdog on %r: %s" % (s["bytes"], json.dumps(o)[:500]))
        else:
            for r in o["runs"]:
                why = match_server(s, r["o"])
                if why:
                    msg = "segmentation %s: observed %s; not allowed by the reference: %s" % (
                        segs[r["segs"][0]], json.dumps(r["o"]), "; ".join(why))
                    break
            if msg is None and len({seg_signature_server(r["o"]) for r in o["runs"]}) > 1:
                msg = "deliveries depend on the segmentation: " + " | ".join(
                    "%s -> %s" % (segs[r["segs"][0]], seg_signature_server(r["o"])) for r in o["runs"][:3])
        if msg:
            nfail += 1
            key = keyfn(s) if keyfn else None
            if nfail <= limit_report or key:
                chk.violation("%s stream %r (tokens %s): %s" % (label, s["bytes"], json.dumps(s["toks"]), msg),
                              {"scenario": sc, "stream": s, "observed": o}, key=key)
    return nfail


# ----------------------------------------------------------------------------- comparison (client view)
def match_alt_client(alt, o):
    out, end = alt["out"], alt["end"]
    cb = o["cb"]
    if len(cb) < len(out):
        return "expected %d completed responses, got %d callbacks" % (len(out), len(cb))
    for i, e in enumerate(out):
        a = cb[i]
        if a.get("fail"):
            return "request %d: failure reported, expected status %d" % (i, e["code"])
        if a["i"] != i:
            return "callback order: %s" % [c["i"] for c in cb]
        if a["code"] != e["code"] or list(a["v"]) != list(e["v"]):
            return "request %d: status %s version %s, expected %s %s" % (i, a["code"], a["v"], e["code"], e["v"])
        if not (_hdr_match(e["h"], a["h"]) or (e["trl"] and _hdr_match(e["h"] + e["trl"], a["h"]))):
            return "request %d header fields: expected %s got %s" % (i, json.dumps(e["h"]), json.dumps(a["h"]))
        if not e["anyb"] and e["b"] != a["b"]:
            return "request %d body: expected %r got %r" % (i, e["b"], a["b"])
    rest = cb[len(out):]
    if end in ("open", "partial"):
        if rest:
            return "no further completion expected, got %s" % json.dumps(rest)
        if o["closed"]:
            return "connection closed although it should persist"
    elif end == "rejected":
        if not rest or not rest[0].get("fail"):
            return "request %d must fail, got %s" % (len(out), json.dumps(rest[:1]))
    return None


def match_client(alts, o):
    why = []
    for alt in alts:
        m = match_alt_client(alt, o)
        if m is None:
            return None
        why.append("[%s after %d] %s" % (alt["end"], len(alt["out"]), m))
    return why


def run_client(chk, exe, streams, rng, *, label, single="all", nrand=3, cfg=None, keyfn=None, limit_report=6,
               prefix_sample=None):
    """Feed every response stream (and, when the generator printed them, its prefixes followed by the peer's close)
    to a real evhttp_connection that has the stream's request list queued."""
    scen, meta = [], []
    for s in streams:
        n = len(s["bytes"])
        segs = segmentations(n, rng, single=single, nrand=nrand)
        scen.append({"mode": "client", "cfg": cfg or {}, "bytes": s["bytes"], "segs": segs, "reqs": s["rq"],
                     "eof": 1 if s["eof"] else 0})
        meta.append((s, s["alts"], segs, "full"))
        if s.get("pre"):
            ps = list(range(1, n))
            if prefix_sample and len(ps) > prefix_sample:
                ps = sorted(rng.sample(ps, prefix_sample))
            for p in ps:
                sg = [[]] + ([list(range(1, p))] if p > 1 else [])
                scen.append({"mode": "client", "cfg": cfg or {}, "bytes": s["bytes"][:p], "segs": sg, "reqs": s["rq"], "eof": 1})
                meta.append((s, s["pre"][p - 1], sg, "close after %d octets" % p))
    outs = vkit.run_driver(exe, scen, timeout=3000)
    nfail = 0
    failed_streams = set()
    for (s, alts, segs, what), sc, o in zip(meta, scen, outs):
        chk.cov["traces_validated_against_impl"] += len(segs)
        chk.cov.setdefault("peer_close_points", 0)
        if what != "full":
            chk.cov["peer_close_points"] += 1
        msg = None
        if o is None or "crash" in o:
            if o and o.get("hang"):
                raise vkit.InfraError("driver hang on %r" % sc)
            msg = "driver crashed: %s" % (o or {}).get("crash", "no output")
        elif o.get("hang"):
            raise vkit.InfraError("driver watchdog on %s: %s" % (json.dumps(sc)[:400], json.dumps(o)[:500]))
        else:
            for r in o["runs"]:
                why = match_client(alts, r["o"])
                if why:
                    msg = "segmentation %s: observed %s; not allowed by the reference: %s" % (
                        segs[r["segs"][0]], json.dumps(r["o"]), "; ".join(why))
                    break
            if msg is None and len({json.dumps(r["o"]["cb"]) for r in o["runs"]}) > 1:
                msg = "completions depend on the segmentation: " + " | ".join(
                    "%s -> %s" % (segs[r["segs"][0]], json.dumps(r["o"]["cb"])) for r in o["runs"][:3])
        if msg:
            key = keyfn(s) if keyfn else None
            sid = (s["bytes"], json.dumps(s["rq"]), s["eof"])
            if sid in failed_streams and not key:
                continue
            failed_streams.add(sid)
            nfail += 1
            if nfail <= limit_report or key:
                chk.violation("%s requests %s, response stream %r (%s; tokens %s): %s" % (
                    label, s["rq"], sc["bytes"], what, json.dumps(s["toks"]), msg),
                    {"scenario": sc, "stream": s, "observed": o}, key=key)
    return nfail
