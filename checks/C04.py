"""C04 - every backend reports exactly the ready I/O the caller asked for.

TLC generates scenarios from Backend.tla (add/del of events with overlapping interests, ET/LT, EV_CLOSED; peer writes,
drains, fills, half-closes, closes, resets; close + reuse of fd numbers; loop iterations).  harness/backend_drv.c runs
them on the real backends (8 baseline configurations) and records, per loop iteration, an independent zero-timeout
poll(2) probe of every fd before and after, what the kernel reported to the backend, and the callbacks.  Backend_Trace.tla
replays every recorded execution with the specification's step functions and judges every iteration (Verdict):
NoCallbackAfterDel, AtMostOnce, OnlyRequestedReady, LevelTriggeredPersistence, EdgeOnlyWhenReported,
EdgeFiresOnTransition.  Backend agreement is checked on the common corpora."""
import json
import vkit
from checks import backend_common as bc

ACTS = ("add", "del", "close", "wait", "env", "reinit")
CONFIGS = [(b, s) for b in bc.BACKENDS for s in (0, 1)]          # the 8 baseline configurations
# corpus -> generating backend, backends it is replayed on
CORPORA = {"common": ("select", ("epoll", "epollcl", "poll", "select")),
           "closed": ("poll", ("epoll", "epollcl", "poll")),
           "et_epoll": ("epoll", ("epoll",)),
           "et_epollcl": ("epollcl", ("epollcl",))}
GRAY = 8 | 16 | 32


def agreement(chk, corpus, hists, runs):
    """runs: {(backend, sigfd): outs}.  LT events on fds whose probes are identical in all configurations and free of
    HUP/ERR/NVAL must produce the same (event, flags) set in every configuration (flags restricted to what every
    backend of the corpus supports)."""
    keys = sorted(runs)
    mask = 3 if any(b == "select" for b, _ in keys) else 7
    ncmp = 0
    for i, h in enumerate(hists):
        et_ev = set()
        evfd = {}
        for k, s in enumerate(h):
            if s["a"] == "add":
                evfd[s["e"]] = s["fd"]
                (et_ev.add if s["et"] else et_ev.discard)(s["e"])
            if s["a"] != "wait":
                continue
            obs = {key: runs[key][i]["obs"][k] for key in keys if isinstance(runs[key][i], dict) and "obs" in runs[key][i]
                   and len(runs[key][i]["obs"]) > k}
            if len(obs) < 2:
                continue
            ref = obs[keys[0]]
            nfd = len(ref["p"])
            okfd = {f for f in range(1, nfd + 1)
                    if all(o["p"][f - 1] == ref["p"][f - 1] == o["p2"][f - 1] for o in obs.values())
                    and ref["p"][f - 1] >= 0 and not (ref["p"][f - 1] & GRAY)}
            def cbset(o):
                return sorted((x["e"], x["w"] & mask) for x in o["cb"]
                              if x["e"] not in et_ev and evfd.get(x["e"]) in okfd and (x["w"] & mask))
            sets = {key: cbset(o) for key, o in obs.items()}
            ncmp += 1
            if any(v != sets[keys[0]] for v in sets.values()):
                chk.violation("backends disagree on corpus %s scenario %d step %d: %s\n  history: %s" %
                              (corpus, i, k, {"%s/sigfd%d" % kk: v for kk, v in sets.items()},
                               json.dumps(bc.strip_obs(h[:k + 1]))),
                              {"corpus": corpus, "h": h, "step": k, "callbacks": {"%s/%d" % kk: v for kk, v in sets.items()}},
                              key="agree:" + json.dumps(bc.strip_obs(h[:k + 1]), sort_keys=True))
                break
    return ncmp


def run(tier, seed):
    q = tier == "quick"
    chk = vkit.Check("C04", tier, seed)
    exe = bc.build_driver()
    families = [("sp", "pr", "tcp")] if q else [("sp", "pr", "tcp"), ("tcp", "pw", "sp"), ("pw", "sp", "pr")]
    D = 12 if q else 22
    nsim = 12 if q else 300
    maxh = 50 if q else 800
    ops = {}
    verdict_hist = {}
    noise = []
    total_waits = 0
    for fi, kinds in enumerate(families):
        # ---- 1. generation
        jobs = []
        cons = {}
        for corpus, (gen_be, _) in CORPORA.items():
            masks = (1, 2, 3) if corpus == "common" else (1, 2, 3, 4, 5, 6, 7)
            ets = (0, 1) if corpus.startswith("et") else (0,)
            c = bc.consts(gen_be, D, nfd=3, nev=3, masks=masks, ets=ets, kinds=kinds, acts=ACTS)
            cx = bc.consts(gen_be, 3 if q else 4, nfd=1, nev=1, masks=masks, ets=ets, kinds=kinds, acts=ACTS)
            cons[corpus] = c
            name = "C04_f%d_%s" % (fi, corpus)
            jobs.append(((corpus, "rnd"), lambda c=c, name=name: bc.tlc_backend(
                name + "_rnd", c, mode="gen", emit="EmitSim", simulate=nsim, depth=120, seed=seed + fi, max_hist=maxh,
                timeout=1500)))
            if not q:
                jobs.append(((corpus, "exh"), lambda c=cx, name=name: bc.tlc_backend(name + "_exh", c, mode="gen", timeout=1500)))
        if q:
            # one exhaustive run (epoll: all masks, ET and LT); the corpora of the other backends are its sub-sets
            # (the predicted interest sets of a history do not depend on the backend)
            cx = bc.consts("epoll", 3, nfd=1, nev=1, kinds=kinds, acts=ACTS)
            jobs.append((("all", "exh"), lambda c=cx: bc.tlc_backend("C04_f%d_all_exh" % fi, c, mode="gen", timeout=1500)))
        gen = bc.run_parallel(jobs, nthreads=5)
        if q:
            res, allh = gen[("all", "exh")]
            chk.add_tlc("C04_f%d_all_exh" % fi, res)
            def fits(h, corpus):
                adds = [s for s in h if s["a"] == "add"]
                if corpus == "common":
                    return all(s["m"] <= 3 and not s["et"] for s in adds)
                if corpus == "closed":
                    return all(not s["et"] for s in adds)
                return True
            for corpus in CORPORA:
                gen[(corpus, "exh")] = (None, [h for h in allh if fits(h, corpus)])
        hists = {}
        for corpus in CORPORA:
            hs = []
            for kind in ("exh", "rnd"):
                res, h = gen[(corpus, kind)]
                if res is not None:
                    chk.add_tlc("C04_f%d_%s_%s" % (fi, corpus, kind), res)
                hs += h
            if not hs:
                raise vkit.InfraError("no scenarios for corpus %s" % corpus)
            hists[corpus] = hs
            for h in hs:
                chk.count_case([kinds, corpus] + bc.strip_obs(h), sum(1 for s in h if s["a"] != "wait") >= 2)
                for s in h:
                    key = s["a"] + (":et" if s["a"] == "add" and s["et"] else "")
                    ops[key] = ops.get(key, 0) + 1
            chk.sample({"kinds": kinds, "corpus": corpus, "history": bc.strip_obs(hs[-1])}, limit=5)

        # quick: the ET-only corpora run with the self-pipe configuration only (the common corpora run on all 8)
        def sigfds(corpus):
            return (0,) if (q and corpus.startswith("et")) else (0, 1)

        # ---- 2. execution on the real backends (+ binding G on return values / interest set)
        runs = {}      # (corpus, backend, sigfd) -> outs
        for corpus, (gen_be, targets) in CORPORA.items():
            for be in targets:
                for sigfd in sigfds(corpus):
                    dc, outs = bc.run_real(exe, hists[corpus], cons[corpus], be, sigfd, fdmap=fi)
                    runs[(corpus, be, sigfd)] = outs
                    for (i, k, msg) in vkit.compare_histories(hists[corpus], outs)[:3]:
                        chk.violation("corpus %s backend=%s sigfd=%d scenario %d step %d: %s\n  history: %s" %
                                      (corpus, be, sigfd, i, k, msg, json.dumps(bc.strip_obs(hists[corpus][i][:k + 1]))),
                                      {"cfg": dc, "h": hists[corpus][i], "real": outs[i]},
                                      key="G:" + json.dumps([be] + bc.strip_obs(hists[corpus][i][:k + 1]), sort_keys=True))

        # ---- 3. trace validation per backend
        def validate(be, todo, tag):
            """todo: list of (corpus, idx, sigfd, out)."""
            events, index = [], []
            for (corpus, i, sigfd, out) in todo:
                if not (isinstance(out, dict) and "obs" in out and len(out["obs"]) == len(hists[corpus][i])):
                    continue     # crashed / incomplete executions were reported by the G comparison
                events += bc.trace_events(hists[corpus][i], out, len(index))
                index.append((corpus, i, sigfd))
            c = bc.consts(be, D, nfd=3, nev=3, kinds=kinds, acts=ACTS)
            res, verdicts, done = bc.validate_trace("C04_f%d_trace_%s%s" % (fi, be, tag), c, events)
            return res, verdicts, done, index, events
        vjobs = []
        for be in bc.BACKENDS:
            todo = [(corpus, i, sigfd, runs[(corpus, be, sigfd)][i]) for corpus, (_, targets) in CORPORA.items() if be in targets
                    for sigfd in sigfds(corpus) for i in range(len(hists[corpus]))]
            vjobs.append((be, lambda be=be, todo=todo: validate(be, todo, "")))
        vres = bc.run_parallel(vjobs, nthreads=4)
        for be in bc.BACKENDS:
            res, verdicts, done, index, events = vres[be]
            chk.add_tlc("C04_f%d_trace_%s" % (fi, be), res)
            if not done:
                raise vkit.InfraError("trace validation for %s did not consume the trace:\n%s" % (be, res.raw[-2000:]))
            chk.cov["traces_validated_against_impl"] += len(index)
            total_waits += sum(1 for e in events if e["e"] == "wait")
            if not verdicts:
                continue
            # a rejection is re-run (up to 3 times) before it is reported; one that never repeats is noise
            bad = sorted({v["scen"] for v in verdicts})
            again, events2 = {}, []
            for attempt in range(3):
                todo = []
                for sc in bad:
                    if index[sc] in again:
                        continue
                    corpus, i, sigfd = index[sc]
                    dc, outs = bc.run_real(exe, [hists[corpus][i]], cons[corpus], be, sigfd, fdmap=fi)
                    todo.append((corpus, i, sigfd, outs[0]))
                if not todo:
                    break
                res2, verdicts2, done2, index2, ev2 = validate(be, todo, "_rerun%d" % attempt)
                for v in verdicts2:
                    if index2[v["scen"]] not in again:
                        again[index2[v["scen"]]] = (v, ev2[v["l"] - 1])
            for sc in bad:
                if index[sc] not in again:
                    noise.append((be,) + index[sc])
            for (corpus, i, sigfd), (v, ev) in sorted(again.items())[:5]:
                verdict_hist[v["verdict"]] = verdict_hist.get(v["verdict"], 0) + 1
                if v["verdict"] == "model":
                    raise vkit.InfraError("abstract socket model disagrees with the probe: %s %s\n%s" %
                                          (be, json.dumps(ev), json.dumps(bc.strip_obs(hists[corpus][i]))))
                chk.violation("%s violated on backend=%s sigfd=%d corpus %s scenario %d: iteration %s\n  history: %s" %
                              (v["verdict"], be, sigfd, corpus, i, json.dumps(ev), json.dumps(bc.strip_obs(hists[corpus][i]))),
                              {"backend": be, "sigfd": sigfd, "kinds": kinds, "h": hists[corpus][i], "iteration": ev,
                               "verdict": v["verdict"]},
                              key="V:%s:%s" % (v["verdict"], json.dumps([be] + bc.strip_obs(hists[corpus][i]), sort_keys=True)))

        # ---- 4. backend agreement
        for corpus in ("common", "closed"):
            sub = {(be, s): runs[(corpus, be, s)] for be in CORPORA[corpus][1] for s in (0, 1)}
            chk.cov["agreement_comparisons"] = chk.cov.get("agreement_comparisons", 0) + agreement(chk, corpus, hists[corpus], sub)

    missing = [o for o in ("add", "add:et", "del", "close", "reopen", "reinit", "wait", "pw", "drain", "fill", "pdrain", "pshut", "pclose")
               if not ops.get(o)]
    if missing:
        raise vkit.InfraError("vacuous scenario corpus: ops never generated: %s" % missing)
    chk.cov["op_histogram"] = ops
    chk.cov["rejections_not_repeated"] = len(noise)
    if noise and not chk.violations:
        raise vkit.InfraError("rejections that did not repeat in 3 re-runs (infrastructure noise): %s" % noise[:5])
    chk.cov["loop_iterations_judged"] = total_waits
    chk.cov["rule"] = ("TLC-generated scenarios (random long + exhaustive short, 3 fds of kinds %s, 3 events, ET/LT, EV_CLOSED) "
                       "are executed on epoll, epoll+changelist, poll, select x {self-pipe, signalfd}; every execution is "
                       "validated by TLC against Backend_Trace (every loop iteration judged by Verdict with `holds` bound "
                       "to the poll(2) probes taken before and after the iteration, ET bound to the kernel report captured "
                       "in the wrapped wait call); interest sets and return values are compared with the specification "
                       "(binding G); LT callback sets are compared across configurations. A rejected execution is re-run "
                       "(up to 3 times) and reported only if the rejection repeats." % (families,))
    chk.assumptions += [
        "callbacks do not consume data; all events are EV_PERSIST",
        "may-hold = probe before OR after the iteration (HUP/ERR/NVAL count for read and write); must-hold = probe before AND after",
        "named deviation: epoll reports EPOLLERR as READ|WRITE only - EV_CLOSED is not demanded while POLLERR is pending",
        "edge-triggered events are required to fire only after a transition made by the scenario (data into an empty queue, "
        "peer drained a full buffer, peer half-close) that the probes confirm",
        "events on one fd are all edge-triggered or all level-triggered; EV_CLOSED not used with select; ET only with epoll",
        "agreement is compared on fds whose probes are identical in all configurations and free of HUP/ERR/NVAL",
    ]
    return chk.finish()


def replay(case, seed):
    """./check C04 --replay out/replay/C04/violation_N.json (trace-validation violations): re-execute and re-validate."""
    c = case.get("case", case)
    if "backend" not in c:
        print("replay is supported for trace-validation violations only")
        return 2
    exe = bc.build_driver()
    kinds = c["kinds"]
    cons = bc.consts(c["backend"], 30, nfd=3, nev=3, kinds=kinds, acts=ACTS)
    dc, outs = bc.run_real(exe, [c["h"]], cons, c["backend"], c["sigfd"])
    events = bc.trace_events(c["h"], outs[0], 0)
    res, verdicts, done = bc.validate_trace("C04_replay", cons, events)
    for v in verdicts:
        print("VIOLATION property=C04 replay: %s at %s" % (v["verdict"], json.dumps(events[v["l"] - 1])))
    print(json.dumps(outs[0]))
    return 1 if verdicts else (0 if done else 2)
