"""C01 - timers fire exactly once, never early, never late (EventCore.tla, binding G, virtual time)."""
from checks import eventcore_common as ec

T_ACTS = {"add", "addc", "initc", "del", "rmt", "loop", "adv", "pol", "exit", "once", "act"}
H = 1000000   # "huge" duration in ticks


def run(tier, seed):
    q = tier == "quick"
    plan = {
        "mc": [("C01_mc", ec.consts({3, 4}, T_ACTS - {"act", "once"}, 4 if q else 5, durs=(0, 1, 2)))],
        "need_actions": ["Api", "ApiLoop", "IterTop", "Wait", "TimeoutProcess", "RunCallback", "LoopReturn"],
        "gen": [
            # all timer histories of depth 3 (4) over a one-shot, a persistent and an I/O+timeout event
            dict(name="C01_exh", consts=ec.consts({1, 3, 4}, T_ACTS - {"once", "act"}, 3, durs=(0, 1, 2)),
                 ticks=(1000,) if q else (1000, 7000)),
        ] + ([] if q else [
            # depth 4 on the persistent timer alone (the depth-4 space over three events does not finish in the time budget)
            dict(name="C01_exh4", consts=ec.consts({4}, T_ACTS - {"once", "act"}, 4, durs=(0, 1, 2)), ticks=(1000,)),
        ]) + [
            # long random histories: equal, zero, sub-ms and huge durations, clock jumps, early/late wake-ups
            dict(name="C01_rand", consts=ec.consts({1, 3, 4, 5}, T_ACTS | {"feed", "drain", "flags"}, 30 if q else 50,
                                                   durs=(0, 1, 2, 3, H)),
                 simulate=120 if q else 500, depth=800,
                 ticks=(1000, 7000, 1000000000) if q else (1000, 7000, 1000000, 1000000000)),
            # directed common-timeout family: a persistent timer dispatched late, a newcomer on the same queue with a fresh clock
            # reading, then single-iteration loop calls (the re-armed timer must fire at deadline + duration, ahead of the newcomer)
            dict(name="C01_ct_late", consts=ec.consts({1, 3, 4}, {"initc", "addc", "adv", "loop", "ctpat"}, 8, durs=(2, 3, 4))),
            # directed heap family: every permutation of six distinct deadlines, delete one, add two, fire all
            dict(name="C01_heap_perm", consts=ec.consts({11, 12, 13, 14, 15, 16, 17, 18}, {"add", "del", "loop", "flags", "heappat"}, 10,
                                                        durs=(1, 2, 3, 10, 11, 12, 20, 21), nx=8, maxiter=12),
                 constraint="GenConstraintHeap"),
            # many plain timers with spread deadlines: removals from the middle of the heap, re-adds (heap shape)
            dict(name="C01_heap", consts=ec.consts({3, 4, 11, 12, 13, 14, 15, 16}, {"add", "del", "rmt", "loop", "adv", "pol"}, 20 if q else 34,
                                                   durs=(1, 2, 3, 10, 11, 12, 20, 21), nx=6, maxiter=8),
                 simulate=100 if q else 400, depth=800),
        ] + ([] if q else [
            dict(name="C01_rand_poll", consts=ec.consts({1, 3, 4, 5}, T_ACTS | {"feed", "drain", "flags"}, 30, durs=(0, 1, 2, 3, H)),
                 simulate=400, depth=800, ticks=(1000000,), backends=("poll",)),
            dict(name="C01_rand_select", consts=ec.consts({1, 3, 4, 5}, T_ACTS | {"feed", "drain", "flags"}, 30, durs=(0, 1, 2, 3, H)),
                 simulate=400, depth=800, ticks=(1000, 1000000), backends=("select",)),
        ]),
        "need_ops": ["add", "addc", "initc", "del", "rmt", "loop", "adv", "cb:cb", "cb:once"],
        "rule": "TLC enumerates/simulates histories of add/del/re-add/remove_timer/common-timeout registration and "
                "loop iterations with exact, early (short) and late (over) wake-ups and explicit clock jumps; the driver "
                "replays them under a virtual clock (tick = 1us, 7us, 1ms, 1s; huge = 10^6 ticks) and compares, after every "
                "call, which callbacks ran with which flags (tie groups for equal deadlines), event_pending and the reported "
                "expiry of every event. Non-trivial = at least two state-changing calls.",
        "assumptions": ["virtual clock via link-time wrapping; poll backend only with tick >= 1ms (its timeout granularity)",
                        "equal-deadline heap timers of one priority may run in either order (property text)"],
    }
    return ec.standard_run("C01", tier, seed, plan)


def replay(case, seed):
    return ec.replay_case("C01", case, seed)
