"""C24 - an evhttp_connection frames and parses responses as the RFC 9112 reference (HttpFraming.tla, client view).

TLC enumerates response streams (status-line forms, header tokens, body forms, pipelined responses) paired with
the list of queued request methods and with/without the peer closing afterwards - and, for a sub-corpus, the
peer closing after every proper prefix - together with the results RFC 9112 allows.  A real evhttp_connection with
those requests queued is pointed at a scripted raw peer that plays the octets under each segmentation class; the
completion callbacks (status, version, header list, body, or failure) are compared.
"""
import random
import vkit
from checks import http_common as hc

K_KA = "C24-keepalive-no-length-empty-body"
K_TE = "C24-te-not-exactly-chunked"
K_CLPLUS = "C24-cl-plus-sign"
K_CLDUP = "C24-conflicting-cl-first-wins"
K_CHEXT = "C24-chunk-ext-rejected"
K_100 = "C24-interim-headers-merged"

CLVAL = {"cl0": 0, "cl3": 3, "clows": 3, "cllist": 3, "cl5": 5}
NOBODY_LINES = ("s204", "s304", "s100")


def finding_key(stream):
    for m in stream["toks"]:
        hs = m["hs"]
        te = any(h in ("te", "teuc") for h in hs)
        if any(h in ("tegz", "tecg", "teid") for h in hs):
            return K_TE
        if "clplus" in hs and not te:
            return K_CLPLUS
        if len({CLVAL[h] for h in hs if h in CLVAL}) > 1 and not te:
            return K_CLDUP
        if "ka" in hs and not te and not any(h in CLVAL for h in hs) and m["l"] not in NOBODY_LINES:
            return K_KA
        if m["b"] == "chext" and te:
            return K_CHEXT
        if m["l"] == "s100":
            return K_100
    return None


LINES = ["s200", "s200_10", "s204", "s304", "s404", "sbadver", "sbadcode"]
HDRS = ["xa", "cl0", "cl3", "cl5", "clows", "cljunk", "clminus", "clempty", "cllist", "cllist2", "te", "teuc", "close",
        "fold", "lf", "empty"]
BODIES = ["none", "b2", "b3", "b5", "ch", "ch1a", "chup", "chtr", "chshort", "ch0x", "chplus", "chnolast"]


def run(tier, seed):
    q = tier == "quick"
    chk = vkit.Check("C24", tier, seed)
    exe = vkit.cc("http_drv", ["http_drv.c"])
    rng = random.Random(seed)
    S = hc.consts

    # 1. the reference itself (client view), all segmentations, with and without the peer's close
    mc = S("client", ["s200", "s204"], ["cl3", "te", "lf"] + ([] if q else ["clplus", "fold", "tecg"]), ["none", "b3", "chtr"],
           1, 1, seg="all", reqseqs=[("GET",), ("HEAD", "GET")], eofs=(False, True),
           sizes=(1, 2, 3, 5, 8, 13, 21) if q else ())
    hc.model_check(chk, "C24_mc", mc, workers=8 if q else None, client=True)
    if not q:
        # two pipelined responses for two queued requests (bounded read sizes keep the graph small)
        mc2 = S("client", ["s200", "s204"], ["cl3", "te"], ["none", "b3", "ch"], 1, 2, seg="all",
                reqseqs=[("GET", "GET"), ("HEAD", "GET")], eofs=(False, True), sizes=(1, 2, 3, 5, 8, 13, 21, 34))
        hc.model_check(chk, "C24_mc2", mc2, client=True)

    one = [("GET",), ("HEAD",), ("POST",)]
    corp = [
        # every status line x header token x body form, each request method, peer closing or not
        ("single", S("client", LINES if not q else ["s200", "s200_10", "s204", "s304", "sbadcode"], HDRS if not q else ["xa", "cl0", "cl3", "cl5", "cljunk", "cllist", "te", "close", "fold", "lf"],
                     BODIES if not q else ["none", "b3", "b5", "ch", "chtr", "chshort"], 1, 1,
                     reqseqs=one if not q else one[:2], eofs=(False, True)), 3 if q else 16, False),
        # header pairs
        ("pairs", S("client", ["s200"], ["cl3", "clows", "cllist", "te", "close", "fold", "lf"], ["none", "b3", "b5", "ch"],
                    2, 1, reqseqs=[("GET",)], eofs=(False, True)), 3 if q else "all", False),
        # two responses for two queued requests: octets after a complete response belong to the next request
        ("pipe2", S("client", ["s200", "s204", "s404"] if not q else ["s200", "s204"],
                    ["cl3", "te", "cl0", "close"] if not q else ["cl3", "te"], ["none", "b3", "ch"], 1, 2,
                    reqseqs=[("GET", "GET"), ("HEAD", "GET"), ("GET", "HEAD")] if not q else [("GET", "GET"), ("HEAD", "GET")],
                    eofs=(False, True) if not q else (False,)), 3 if q else 10, False),
        # the peer closes after every proper prefix
        ("closeany", S("client", ["s200", "s200_10"] if not q else ["s200"], ["cl3", "te"], ["none", "b3", "ch", "chtr"], 1, 1,
                       reqseqs=[("GET",), ("HEAD",)] if not q else [("GET",)], eofs=(True,), prefixes=True), 2, True),
    ]
    for name, c, single, pre in corp:
        st = hc.generate(chk, "C24_" + name, c, workers=8 if q else None)
        n0 = len(st)
        st = [s for s in st if not finding_key(s)]
        if len(st) < 0.6 * n0:
            raise vkit.InfraError("general corpus %s is mostly finding triggers (%d of %d left)" % (name, len(st), n0))
        for s in st:
            chk.count_case([s["bytes"], s["rq"], s["eof"]], nontrivial=len(s["bytes"]) > 30)
        for s in st[:1]:
            chk.sample({"corpus": name, "requests": s["rq"], "peer_closes": s["eof"], "bytes": s["bytes"], "allowed": s["alts"]})
        hc.run_client(chk, exe, st, rng, label=name, single=single, nrand=2 if q else 5,
                      prefix_sample=(6 if q else None) if pre else None)
        vkit.log("[C24] %s: %d streams" % (name, len(st)))

    # probes for the open findings
    probes = [
        S("client", ["s200"], ["ka", "tegz", "tecg", "clplus", "te"], ["none", "b3", "ch", "chext"], 1, 1,
          reqseqs=[("GET",)], eofs=(False, True)),
        S("client", ["s200"], ["cl0", "cl3", "cl5"], ["none", "b3"], 2, 1, reqseqs=[("GET",)], eofs=(True,)),
        S("client", ["s100", "s200"], ["cl3", "xa"], ["none", "b3"], 1, 2, reqseqs=[("GET",)], eofs=(False,)),
    ]
    for i, c in enumerate(probes):
        st = [s for s in hc.generate(chk, "C24_probe%d" % i, c, workers=4) if finding_key(s)]
        for s in st:
            chk.count_case([s["bytes"], s["rq"], s["eof"]])
        hc.run_client(chk, exe, st, rng, label="probe", single=2, nrand=1, keyfn=finding_key)

    chk.cov["rule"] = ("TLC enumerates every response stream over each token alphabet with the RFC 9112 results for the "
                       "queued request methods (HEAD / 204 / 304 / Content-Length / chunked / close-delimited), the peer "
                       "closing after the stream, not at all, or after every proper prefix; a real evhttp_connection with "
                       "those requests queued receives the octets from a scripted raw peer in one piece, octet by octet, "
                       "cut at single offsets and at seeded random multi-cuts; each completion callback (status, version, "
                       "header list, body, or failure) is compared with the allowed set and must not depend on the "
                       "segmentation.  non-trivial = stream longer than 30 octets.")
    chk.assumptions += [
        "only the first connection of the evhttp_connection is scripted; after it ends further requests are refused "
        "and their outcome is not compared",
        "octets that arrive while no request is outstanding are not compared (RFC 9112 leaves them open)",
        "trailer fields may be dropped or appended to the header list",
        "whitespace before the colon in a response is not exercised (the RFC only binds servers and proxies)",
        "quiescence is decided from byte counters / kernel queue lengths, a 15 s watchdog is an infrastructure error",
    ]
    return chk.finish()
