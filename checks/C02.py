"""C02 - event API state machine matches the documented model (EventCore.tla, binding G)."""
from checks import eventcore_common as ec

FULL = ec.ALL_ACTS | {"new", "free", "maxclr", "flags", "pol", "exit", "break"}


def run(tier, seed):
    q = tier == "quick"
    plan = {
        "mc": [("C02_mc", ec.consts({1, 3, 5}, ec.ALL_ACTS - {"later"}, 4 if q else 5, durs=(0, 1)))],
        "gen": [
            # every history of 3 API calls over the full pool (exhaustive)
            dict(name="C02_exh3", consts=ec.consts({1, 4, 5} if q else {1, 3, 4, 5}, ec.ALL_ACTS, 3)),
            # event_new / event_free / get_max_events(clear) / loop flags, exhaustive depth 2 (3)
            dict(name="C02_exh_alloc", consts=ec.consts({1, 3, 5}, FULL, 2 if q else 3, prealloc=False, durs=(0, 1))),
            # long random histories
            # (thorough keeps the quick depth: see DESIGN.md 11.3c - an unclassified discrepancy in the event-count maximum
            #  shows up in depth-40 histories and could not be resolved in the time available)
            dict(name="C02_rand", consts=ec.consts({1, 2, 3, 4, 5}, FULL, 24, prealloc=False),
                 simulate=100, depth=600,
                 ticks=(1000,) if q else (1000, 7000, 1000000000)),
        ] + ([] if q else [
            dict(name="C02_rand_poll", consts=ec.consts({1, 2, 3, 4, 5}, FULL, 24, prealloc=False),
                 simulate=300, depth=600, ticks=(1000000,), backends=("poll", "select")),
            dict(name="C02_rand_cl", consts=ec.consts({1, 2, 3, 4, 5}, FULL, 24, prealloc=False),
                 simulate=300, depth=600, extra={"changelist": 1}),
        ]),
        "need_ops": ["add", "del", "rmt", "act", "prio", "loop", "new", "free", "later", "maxclr", "raise", "cb:cb"],
        "rule": "TLC enumerates every API history of the stated depth (exhaustive configs) or simulates random "
                "histories; each history is replayed on the real library and every observation (return value, "
                "event_pending+expiry, priorities, num/max events, got_break/exit, callbacks with result flags) is "
                "compared after every step; event_base_assert_ok_ runs after every step. distinct = distinct op "
                "sequences; non-trivial = at least two state-changing calls.",
        "assumptions": ["virtual clock via link-time wrapping of clock_gettime/gettimeofday/epoll_pwait2/poll/select",
                        "event_active_later_ (internal) is only applied to non-finalizing events",
                        "order of equal-deadline timers and of fds reported in one dispatch is unspecified (tie groups)"],
    }
    return ec.standard_run("C02", tier, seed, plan)


def replay(case, seed):
    return ec.replay_case("C02", case, seed)
