"""C15 - references, buffer references and file segments deliver their bytes and clean up exactly once
(Evbuffer.tla with per-symbol ownership tags, binding G)."""
import vkit
from checks import evbuffer_common as ec

REFS = {"add", "addref", "addbufref", "addfile", "drain", "remove", "rmbuf", "addbuf", "prependbuf", "pullup", "prepend",
        "readln", "evwrite", "c15"}


CORE3 = {"addref", "addbufref", "drain", "rmbuf", "addbuf", "pullup", "c15"}


def run(tier, seed):
    q = tier == "quick"
    gen = [
        # every 3-call history of the reference family (remove_buffer cuts, pullup copies, moves, buffer references)
        dict(name="C15_exh3", consts=ec.consts(CORE3, 3, wa=37, wb=331, data=("bLa",), nsel=(1, 9)),
             stride=6 if q else 1),
        # file segments at / across page boundaries: mmap (m=0) and read (m=1) materialisation, offsets 0, 4096, 4097 ...
        dict(name="C15_exh_pages", consts=ec.consts({"addfile", "addref", "drain", "rmbuf", "pullup", "c15"}, 2, wa=4096, wb=4097,
                                                   data=("a", "aa"), nsel=(1, 2, 9))),
        # written to a socket: every script of evbuffer_write_atmost on reference / segment chains
        dict(name="C15_exh_write", consts=ec.consts({"addfile", "addref", "evwrite", "c15"}, 2, wa=4095, wb=37, data=("aa",), nsel=(1, 9)),
             stride=4 if q else 1),
        # multi-chain start states, then every 2-call history
        dict(name="C15_warm", consts=ec.consts(CORE3 | {"prependbuf", "prepend", "add"}, 4, wa=1021, wb=4099, data=("a", "bLa"), nsel=(1, 2, 9), warm=2)),
    ]
    for (wa, wb) in ([(37, 331), (4095, 4097)] if q else [(1, 1), (37, 331), (4095, 4097), (4096, 37), (1021, 4099)]):
        gen.append(dict(name="C15_rand_%d_%d" % (wa, wb),
                        consts=ec.consts(ec.C12_ACTS | {"evwrite", "c15"}, 18 if q else 30, wa=wa, wb=wb, data=("a", "b", "aCL", "bLa"),
                                         nsel=(0, 1, 2, 3, 9), sizes=(0, 2000), maxlen=8),
                        simulate=8 if q else 60, depth=90))
    # open finding: its trigger is excluded above ("cyc" not in Acts) and its canonical history replayed here
    gen.append(dict(name="C15_known_cyc", consts=ec.consts({"addref", "addbufref", "addbuf", "cyc", "c15"}, 3, data=("a", "bLa")),
                    key_fn=lambda h, k, msg: "multicast-self-reference-cycle" if "teardown" in msg else None))
    plan = {
        "mc": [("C15_mc", ec.consts((REFS - {"evwrite"}) if q else REFS, 3, wa=2, wb=3, data=("aCL",), nsel=(1, 2, 9), sizes=(0,)))],
        "gen": gen, "check_end": True,
        "need_ops": ["addref", "addbufref", "addfile", "drain", "rmbuf", "pullup", "evwrite", "addbuf"],
        "rule": "The specification tags every symbol with the reference / file segment / multicast copy it lives in and predicts, "
                "after every call, how many reference cleanups (rc) and segment cleanups (sc) have run: exactly those objects "
                "no byte of which is left in either buffer (multicast copies keep their source alive; a chain cut by a partial "
                "remove_buffer or pullup is copied, the rest stays referenced). The driver counts cleanup invocations (never "
                "twice: bad=0), checksums all live referenced memory after every call (never modified in place), overwrites a "
                "region when its cleanup runs (an early cleanup corrupts what is read back), reads everything back through "
                "copyout / peek / copyout_from / pullup / remove / remove_buffer / evbuffer_write to a socket (mmap and read "
                "materialisation; the sendfile path is exercised by C16), and at teardown every owed cleanup must have run "
                "exactly once. TLC decides TagsParallel, CleanupExactlyOnce, ReadBackEqualsSource on the bounded model.",
        "assumptions": ["zero-length file segments / references are not generated (their chain's release moment is layout-dependent)",
                        "on failure evbuffer_add_file_segment consumes the caller's segment reference",
                        "moving multicast chains back into the buffer they reference, and pullup on buffers sharing chains, are "
                        "excluded here (open findings of C12 / C15)"],
    }
    return ec.standard_run("C15", tier, seed, plan)
