"""C12 - an evbuffer always holds exactly the byte string its operations imply (Evbuffer.tla, binding G)."""
import vkit
from checks import evbuffer_common as ec

CORE = {"add", "prepend", "drain", "remove", "addbuf", "prependbuf", "rmbuf", "pullup", "readln", "freeze", "unfreeze"}
SPACE = {"add", "prepend", "expand", "rescommit", "addiov", "printf", "drain", "pullup", "rmbuf"}
REFS = {"add", "addref", "addbufref", "addfile", "drain", "remove", "rmbuf", "addbuf", "prependbuf", "pullup", "prepend"}
MOVES = {"add", "rmbuf", "addbuf", "prependbuf", "drain", "remove", "pullup", "prepend"}
SWEEP = ("b", "bL", "bCL", "bCLC", "bCLCL")        # WB .. WB+4 bytes
BIGDATA = ("", "a", "b", "aCL", "L", "N", "bLa", "C", "aa", "LC", "bNa")


def has_op(h, pred):
    return any(pred(s) for s in h)


def run(tier, seed):
    q = tier == "quick"
    A = ec.C12_ACTS
    gen = [
        # every history of 2 calls over the core family (exhaustive), chain-crossing widths
        dict(name="C12_exh_core", consts=ec.consts(CORE, 2, wa=37, wb=331, data=("a", "aCL", "L", "N", "aC") if q else ("", "a", "b", "aCL", "L", "N", "aC", "LC"),
                                                  nsel=(1, 9) if q else (0, 1, 2, 9))),
        dict(name="C12_exh_space", consts=ec.consts(SPACE - ({"rmbuf", "addiov", "printf"} if q else set()), 2, wa=1021, wb=4099,
                                                   data=("a", "b") if q else ("", "a", "b", "aCL"), nsel=(1, 9) if q else (0, 1, 9),
                                                   sizes=(0, 2000, 5000) if q else (0, 100, 2000, 5000))),
        dict(name="C12_exh_refs", consts=ec.consts(REFS - ({"remove", "prependbuf", "prepend", "pullup"} if q else set()), 2,
                                                  wa=331, wb=1021, data=("bLa",) if q else ("a", "bLa"), nsel=(1, 9) if q else (0, 1, 2, 9)), stride=2 if q else 1),
        # empty destinations that still own an (empty) chain: expand / add(0 bytes) then add_buffer_reference (fixed finding a5482ec)
        dict(name="C12_exh_abr", consts=ec.consts({"add", "expand", "addbufref", "drain"}, 3, wa=37, wb=331, data=("", "a"), nsel=(1, 9), sizes=(100,))),
        # add_printf whose formatted length is exactly the free room of the chain written to (and 1, 2 bytes either side):
        # fresh buffer (976-byte chain), after a 7-byte prefix (969 left), after 1500 bytes in a 2000-byte chain (500 left)
        dict(name="C12_printf_fresh", consts=ec.consts({"printf"}, 1, wa=7, wb=974, data=SWEEP)),
        dict(name="C12_printf_p7", consts=ec.consts({"add", "printf"}, 2, wa=7, wb=967, data=("a",) + SWEEP, warm=1)),
        dict(name="C12_printf_p1500", consts=ec.consts({"add", "printf"}, 2, wa=1500, wb=498, data=("a",) + SWEEP, warm=1)),
        # multi-chain start states: 3 forced single-symbol adds, then every 2-call (3-call) history of the move family
        dict(name="C12_warm_moves", consts=ec.consts((MOVES - {"remove", "prepend", "prependbuf"}) if q else MOVES, 5, wa=1021, wb=4099,
                                                    data=("a", "b"), nsel=(1, 2, 9), warm=3)),
    ]
    sims = [(1, 1), (37, 331), (1021, 4099)] if q else ec.WIDTHS
    for (wa, wb) in sims:
        gen.append(dict(name="C12_rand_%d_%d" % (wa, wb),
                        consts=ec.consts(A, 16 if q else 30, wa=wa, wb=wb, data=BIGDATA, nsel=(0, 1, 2, 3, 5, 9),
                                         sizes=(0, 100, 2000, 5000), maxlen=8 if q else 10),
                        simulate=5 if q else 60, depth=80))
    if not q:
        gen += [
            dict(name="C12_exh_all2", consts=ec.consts(A, 2, wa=509, wb=2048, data=("a", "aCL", "N"), nsel=(1, 9), sizes=(2000,)),
                 stride=2),
            dict(name="C12_exh_core3", consts=ec.consts({"add", "prepend", "drain", "rmbuf", "addbuf", "pullup", "readln"}, 3,
                                                       wa=1021, wb=4099, data=("a", "bLa"), nsel=(1, 9)), stride=3),
            dict(name="C12_exh_space3", consts=ec.consts({"add", "prepend", "expand", "rescommit", "drain"}, 3, wa=4099, wb=37,
                                                        data=("a", "b"), nsel=(1, 9), sizes=(0, 5000)), stride=3),
            dict(name="C12_warm_moves2", consts=ec.consts(MOVES, 5, wa=509, wb=2048, data=("a", "b"), nsel=(1, 2, 9), warm=3)),
        ]
    # open findings: their triggers are excluded from the corpus above (AvoidKnown in the spec) and replayed here
    gen += [
        dict(name="C12_known_rz0", consts=ec.consts({"prepend", "rescommit", "rz0"}, 2, data=("", "a"), sizes=(0,)),
             key_fn=lambda h, k, msg: "reserve-zero-full-chain"
             if has_op(h, lambda s: s["a"] == "rescommit" and s["nb"] == 0 and s["nv"] > 1) and "crash" in msg else None),
        dict(name="C12_known_mcpull", consts=ec.consts({"add", "addbufref", "pullup", "mcpull"}, 6, wa=37, wb=331, data=("a", "b")),
             key_fn=lambda h, k, msg: "multicast-pullup-shared-memory"
             if has_op(h[:k + 1], lambda s: s["a"] == "addbufref") and h[k]["a"] == "pullup" else None),
    ]
    plan = {
        "mc": [("C12_mc", ec.consts(A, 2 if q else 3, wa=2, wb=3, data=("", "a", "aCL", "bLa") if q else ("a", "aCL"), nsel=(0, 1, 9) if q else (1, 9),
                                    sizes=(0,)))],
        "gen": gen,
        "need_ops": sorted(A),
        "rule": "TLC enumerates every history of the stated depth over an operation family (exhaustive configs) or "
                "simulates long random histories over all 19 operation kinds; each is replayed on the real library with "
                "filler symbols expanded to runs of wa/wb bytes (crossing the 1024-byte minimum chain, the 4096 cap and the "
                "realign thresholds). After EVERY call: return value / data read / positions, evbuffer_get_length, the content "
                "(chain walk, copyout, peek, copyout_from at every symbol boundary), ptr_set SET/ADD, search and search_range "
                "for 5 patterns from every boundary, search_eol for all 5 styles from every boundary, freeze flags are compared "
                "with the specification for BOTH buffers, and the chain list is validated through evbuffer-internal.h "
                "(first/last/last_with_datap, total_len = sum off, misalign+off <= buffer_len, refcnt). "
                "distinct = distinct (widths, call sequence); non-trivial = >= 2 content-relevant calls.",
        "need_hist": {"C12_printf_fresh": lambda h: h[0]["a"] == "printf" and h[0]["o"]["r"] == 976,
                      "C12_printf_p7": lambda h: h[1]["a"] == "printf" and h[1]["b"] == 1 and h[0]["d"] == ["a"] and h[1]["o"]["r"] == 969,
                      "C12_printf_p1500": lambda h: h[1]["a"] == "printf" and h[1]["b"] == 1 and h[0]["d"] == ["a"] and h[1]["o"]["r"] == 500,
                      "C12_exh_abr": lambda h: [x["a"] for x in h] == ["add", "expand", "addbufref"]},
        "assumptions": ["positions handed to the library are symbol boundaries (sizes in bytes are prefix sums of symbol widths)",
                        "on failure evbuffer_add_file_segment consumes the caller's segment reference (as evbuffer_add_file relies on)",
                        "evbuffer_add_buffer_reference from a buffer that may hold file-segment/multicast chains is not generated",
                        "no pinned chains (no IOCP / bufferevent reads in flight)"],
    }
    return ec.standard_run("C12", tier, seed, plan)
