"""C39 - resolver configuration files are parsed safely and as documented (ResolvConf.tla, binding G)."""
import random
import vkit
from checks import dns_common as dc

KEY_NDOTS = "C39-ndots-forgotten-when-search-or-domain-line-follows"
INV = ["TypeOK", "InRange", "Emit"]
PROPS = ["SkipMalformed", "LastSearchWins"]


def run(tier, seed):
    q = tier == "quick"
    chk = vkit.Check("C39", tier, seed)
    exe = dc.driver()

    # 1. the reference itself: invariants + action properties on every 2-call history over one-line files
    mcc = dc.rc_consts(2, maxlines=1, flags=(7,), nl=(1,), conf=range(1, 39, 2), host=range(1, 20, 2), opt=range(1, 39, 2)) if q else \
        dc.rc_consts(2, maxlines=1, flags=(7, 1), nl=(1,))
    mc, res = dc.tlc_histories(chk, "ResolvConf", "C39_mc", mcc,
                               invariants=INV[:2], properties=PROPS, coverage=True, workers=4, timeout=1200)
    chk.check_coverage(res, ["Conf", "ConfMissing", "Hosts", "HostsNull", "ClearHosts", "Opt"], "C39_mc")

    gens = [
        # every file of <= 2 lines over all line tokens, every hosts file of <= 2 lines, every set_option call
        ("C39_exh_files", dc.rc_consts(1, maxlines=1 if q else 2, flags=(7,), nl=(1,)), None),
        # every single line under every flags value, with and without final newline
        ("C39_exh_flags", dc.rc_consts(1, maxlines=1, flags=(1, 2, 4, 7, 23), nl=(0, 1), acts={"conf", "confmissing"}), None),
        # every pair of calls over a reduced alphabet (state carried from one call to the next)
        ("C39_exh_pairs", dc.rc_consts(2, maxlines=1, flags=(7,), nl=(1,),
                                       conf=(1, 4, 11, 14, 17, 20, 22, 28, 37), host=(1, 3, 6, 12, 16), opt=(1, 8, 12, 16, 19, 24, 33, 34)), None),
        # long random files and histories
        ("C39_rand", dc.rc_consts(3 if q else 4, maxlines=6 if q else 10, flags=(1, 2, 4, 7, 23), nl=(0, 1), rnd=True),
         12 if q else 150),
    ]
    total = 0
    for name, c, sim in gens:
        hs, res = dc.tlc_histories(chk, "ResolvConf", name, c, invariants=INV, simulate=sim, depth=c["D"] + 1,
                                   seed=seed if sim else None, key=dc.rc_strip, timeout=1200)
        if not hs:
            raise vkit.InfraError("generator %s produced nothing" % name)
        for h in hs:
            chk.count_case(dc.rc_strip(h), nontrivial=any(s["a"] in ("conf", "hosts") and s.get("ls") for s in h) or len(h) >= 2)
        for h in hs[len(hs) // 2:len(hs) // 2 + 1]:
            chk.sample({"gen": name, "history": dc.rc_strip(h), "predicted": h[-1]["o"]})
        dc.rc_replay(chk, exe, hs, name)
        total += len(hs)

    # 2. known finding: the canonical scenario under the strict reference (ndots independent of search)
    strict = dc.rc_consts(1, maxlines=2, conf=(16, 11, 14), flags=(7,), nl=(1,), acts={"conf"}, known=False)
    hs, _ = dc.tlc_histories(chk, "ResolvConf", "C39_strict_ndots", strict, invariants=INV, key=dc.rc_strip)

    def key_fn(h, d):
        ls = h[0].get("ls", [])
        trig = len(ls) == 2 and ls[0] == 16 and ls[1] in (11, 14)
        return KEY_NDOTS if trig and ".probe.q" in d else None
    dc.rc_replay(chk, exe, hs, "C39_strict_ndots", key_fn=key_fn)
    for h in hs:
        chk.count_case(dc.rc_strip(h))

    # 3. mutated / random bytes: no crash, no sanitizer report, no leak (functional result left open)
    rng = random.Random(seed)
    texts = dc.rc_fuzz_texts(rng, 150 if q else 3000)
    scen = []
    for i, t in enumerate(texts):
        ops = [{"a": "conf", "fl": rng.choice([7, 7, 1, 2, 4, 23]), "text": t}, {"a": "hosts", "text": t}]
        if i % 3 == 0:
            ops.append({"a": "opt", "n": t[:rng.randint(0, 30)].replace("\n", ""), "v": t[5:rng.randint(5, 40)]})
        scen.append({"mode": "resolvconf", "dir": dc.TMP, "probe": 0, "lookups": dc.LOOKUPS, "h": ops})
    outs = vkit.run_driver(exe, scen, timeout=600)
    for sc, o in zip(scen, outs):
        chk.cov["traces_validated_against_impl"] += 1
        chk.count_case(sc["h"], nontrivial=True)
        bad = None
        if o is None or "crash" in o:
            bad = "crash / sanitizer report on mutated input: %s" % (o or {}).get("crash", "")
        elif o.get("leak") != 0:
            bad = "leak of %s allocations on mutated input" % o.get("leak")
        elif any(x["r"] not in (0, 6, -1) for x in o["obs"]):
            bad = "undocumented return value %r" % [x["r"] for x in o["obs"]]
        if bad:
            chk.violation("C39_fuzz: " + bad, {"scenario": sc, "actual": o})

    chk.cov["rule"] = ("TLC enumerates every resolv.conf / hosts file of the stated length over 38 / 19 line tokens (directives, "
                       "options incl. bad and out-of-range values, comments, junk, 4 KiB lines), every set_option call of a table "
                       "of 38, every pair of calls over a reduced alphabet, and simulates long random files; each history is "
                       "replayed on the real evdns_base and after every call the return value, the nameserver set "
                       "(count/get_nameserver_addr) and the hosts table (evdns_getaddrinfo on 9 names) are compared; after the "
                       "last call the search list, ndots, attempts, timeout, max-inflight, randomize-case and edns-udp-size are "
                       "observed through the queries a fake nameserver receives (virtual clock).  Mutated byte files are run for "
                       "ASan / allocation balance only.  non-trivial = non-empty file or >= 2 calls.")
    chk.assumptions += ["option effects are observed through resolver behaviour (fake loopback nameserver, virtual clock); "
                        "max-timeouts, probe timeouts, so-rcvbuf/sndbuf, bind-to, use-vc, tcp-idle-timeout are compared on "
                        "their return value only",
                        "where the documentation is silent on an out-of-range value the reference admits clipping and "
                        "rejection, never the raw value; unknown option names may return 0 or -1",
                        "DNS_OPTION_HOSTSFILE (reads the machine's /etc/hosts) is not used",
                        "allocation balance is measured with event_set_mem_functions around each scenario"]
    return chk.finish()
