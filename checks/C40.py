"""C40 - textual address conversion is exact in both directions (Inet.tla; three-way: reference / platform / libevent)."""
from checks import util_common as uc
import vkit

KEY_PTON4 = "inet-pton4-sscanf-accepts-sign-and-space"
KEY_PTON6 = "inet-pton6-accepts-0x-and-trailing-colon"


def known_pton(case, msg):
    t = uc.b2s(case["t"])
    if "expected 0 got 1" not in msg:
        return None
    if case["af"] == 4 and (any(ch in t for ch in "+- ") or "4294967297" in t):
        return KEY_PTON4
    if case["af"] == 6:
        if "+" in t:
            return KEY_PTON4                  # the embedded IPv4 tail goes through the same sscanf
        if "0x" in t or (t.endswith(":") and not t.endswith("::")):
            return KEY_PTON6
    return None


def run(tier, seed):
    q = tier == "quick"
    chk = vkit.Check("C40", tier, seed)
    uc.driver()
    laws = ["PtonNtop", "Canonical"]
    # ---------------- parsers
    for mode, af, k in (("p4", 4, 2 if q else 3), ("p6", 6, 1)):
        name = "C40_" + mode
        recs, res = uc.gen(chk, "Inet", name, {"Mode": mode, "K": k}, laws, workers=vkit.NCPU)
        cases = [uc.pton_case(r, af) for r in recs]
        outs = uc.drive(cases)
        uc.pton_check_platform(recs, outs, name)
        sel = [i for i, r in enumerate(recs) if r["st"] != "open"]
        uc.compare(chk, name, [cases[i] for i in sel], [uc.pton_expected(recs[i]) for i in sel], [outs[i] for i in sel],
                   known=known_pton, nontrivial=lambda c: len(c["t"]) >= 2)
        chk.cov.setdefault("corpus", {})[name] = {"texts": len(recs), "accepted": sum(1 for r in recs if r["st"] == "ok")}
        chk.sample({"gen": name, "text": uc.b2s(recs[len(recs) // 2]["t"]), "reference": recs[len(recs) // 2]["st"]})
    # ---------------- formatters: every buffer length, platform parse-back, format/parse round trip with ports
    for mode, af in (("n4", 4), ("n6", 6)):
        name = "C40_" + mode
        recs, res = uc.gen(chk, "Inet", name, {"Mode": mode, "K": 0}, laws)
        cases = [{"op": "ntop", "af": af, "a": r["a"]} for r in recs]
        outs = uc.drive(cases)
        exp = []
        for r, c, o in zip(recs, cases, outs):
            if not isinstance(o, dict) or "pl" not in o:
                exp.append({}); continue
            if o["pl"] != r["t"]:
                raise vkit.InfraError("%s: the reference formatter disagrees with the platform's inet_ntop on %s: "
                                      "%r vs %r (specification error)" % (name, r["a"], uc.b2s(r["t"]), uc.b2s(o["pl"])))
            full = o.get("full")
            # the text may differ from the reference's, but it must be complete: every call either fails or gives
            # exactly the full text, the platform parses it back to the address, a 46/16-byte buffer suffices
            lens = [{"_oneof": [None, full]} for _ in o["lens"]]
            lens[-1] = full
            exp.append({"back": r["a"], "lens": lens, "sprt": 1})
        uc.compare(chk, name, cases, exp, outs, nontrivial=lambda c: True)
        chk.cov.setdefault("corpus", {})[name] = {"addresses": len(recs), "buffer_lengths": 18 if af == 4 else 48}
        chk.sample({"gen": name, "address": recs[len(recs) // 2]["a"], "reference_text": uc.b2s(recs[len(recs) // 2]["t"])})
    # ---------------- socket address texts
    recs, res = uc.gen(chk, "Inet", "C40_sp", {"Mode": "sp", "K": 0}, laws)
    recs = [r for r in recs if r["r"]["st"] != "open"]
    cases = [{"op": "sp", "t": r["t"]} for r in recs]
    exp = [dict(r["r"], len=1) if r["r"]["st"] == "ok" else r["r"] for r in recs]
    uc.compare(chk, "C40_sp", cases, exp, uc.drive(cases), nontrivial=lambda c: True)
    chk.cov["exhaustive"] = True
    chk.cov["rule"] = ("Inet.tla: structured IPv4 texts (19 component tokens incl. 256, 007, empty, 1e1, 0x1, -1, +1, -0, blanks, "
                       "overflow; base 10.0.255.1 with <= K components replaced; 3- and 5-component forms), structured IPv6 "
                       "texts (0..9 groups x '::' at every position x two '::' x stray leading/trailing ':' x IPv4 tails x one "
                       "replaced group from 10 tokens), IPv4 addresses over {0,1,9,10,99,100,255}^4, IPv6 addresses for all 256 "
                       "zero-run patterns x 3 value families + embedded-IPv4 forms, and socket-address texts; TLC decides "
                       "PtonNtop and Canonical and prints reference verdict/address/text. Three-way comparison: reference vs "
                       "platform inet_pton/inet_ntop must agree (else exit 2), evutil_inet_pton must accept exactly the "
                       "reference's texts with the same address, evutil_inet_ntop for every buffer length 0..17/0..47 (exact-size "
                       "heap blocks) must fail or give its complete text, which the platform parses back to the address, and "
                       "format/parse of sockaddr+port (1, 80, 65535) must round-trip. non-trivial = text of >= 2 bytes.")
    chk.assumptions += [
        "'all 2^32 IPv4 addresses' is outside a model-based technique: 2401 boundary addresses are enumerated instead",
        "the platform's inet_pton/inet_ntop (glibc) are the trusted third party; the IPv4 leading-zero allowance of the "
        "property is exempt from the platform comparison",
        "embedded IPv4 tails with leading zeros, '[ipv4]' and unbracketed 'ipv6:port' socket-address texts are left open",
        "the text evutil_inet_ntop prints may differ from glibc's (e.g. ::1:0 vs ::0.1.0.0); only parse-back is required",
    ]
    return chk.finish()


def replay(stored, seed):
    return uc.replay("C40", stored)
