"""C23 - the evhttp server frames and parses requests as the RFC 9112 reference (HttpFraming.tla) prescribes.

TLC (1) decides the reference's own properties (segmentation independence, prefix stability, no guessing) on
every segmentation of every stream of a small alphabet and (2) enumerates request streams over the token
alphabet together with the set of results the RFC allows.  Every stream is sent to a real evhttp server over
loopback TCP under each segmentation class and what the generic callback received is compared.
"""
import random
import vkit
from checks import http_common as hc

# --- open findings: trigger tokens are kept out of the general corpus and probed separately
K_WS = "C23-ws-before-colon"
K_TE = "C23-te-not-exactly-chunked"
K_CLPLUS = "C23-cl-plus-sign"
K_CLDUP = "C23-conflicting-cl-first-wins"
K_HEAD = "C23-head-body-not-framed"
K_CHEXT = "C23-chunk-ext-rejected"
K_SPACES = "C23-reqline-extra-space-in-target"

CLVAL = {"cl0": 0, "cl3": 3, "clows": 3, "cllist": 3, "cl5": 5}


def finding_key(stream):
    """Key of the open finding whose trigger the stream contains (first message carrying one), else None."""
    for m in stream["toks"]:
        hs = m["hs"]
        if m["l"] == "spaces":
            return K_SPACES
        if any(h in ("clspc", "xspc") for h in hs):
            return K_WS
        if any(h in ("tegz", "tecg", "teid") for h in hs):
            return K_TE
        te = any(h in ("te", "teuc") for h in hs)
        if "clplus" in hs and not te:
            return K_CLPLUS
        if len({CLVAL[h] for h in hs if h in CLVAL}) > 1 and not te:
            return K_CLDUP
        if m["l"] == "head" and (te or any(h in CLVAL and CLVAL[h] > 0 for h in hs)):
            return K_HEAD
        if m["b"] == "chext" and te:
            return K_CHEXT
    return None


LINES_OK = ["get", "post", "put", "head", "ext", "unk", "connect", "get10", "post10", "get12", "get20", "nover",
            "lower", "badver", "empty"]
HDR_OK = ["xa", "cl0", "cl3", "clows", "clminus", "cljunk", "clempty", "cllist", "cllist2", "te", "teuc", "close",
          "closeuc", "ka", "exp100", "expx", "fold", "noname", "nocolon", "lf", "empty"]
BODY_OK = ["none", "b2", "b3", "b5", "ch", "ch1a", "chup", "ch0", "ch0x", "chplus", "chtr", "chshort", "chnolast",
           "chlf"]


def run(tier, seed):
    q = tier == "quick"
    chk = vkit.Check("C23", tier, seed)
    exe = vkit.cc("http_drv", ["http_drv.c"])
    rng = random.Random(seed)
    S = hc.consts

    # 1. the reference itself, all segmentations
    mc = S("server", ["post", "get10"], ["cl3", "te", "lf", "fold"] + ([] if q else ["clplus", "cl5"]),
           ["none", "b3", "chtr"], 1 if q else 2, 1, seg="all", sizes=(1, 2, 3, 5, 8, 13, 21) if q else ())
    hc.model_check(chk, "C23_mc", mc, workers=8 if q else None)

    # 2. general corpus (no finding trigger), exhaustive over each alphabet
    corp = [
        # every start-line form
        ("lines", S("server", LINES_OK, ["xa", "cl3"], ["none", "b3"], 1, 1), 8 if q else "all"),
        # every single header token with every body form
        ("hdr1", S("server", ["post", "get10"], HDR_OK, ["none", "b2", "b3", "b5", "ch", "chtr", "chshort"], 1, 1), 8 if q else "all"),
        # header pairs: framing interplay (one numeric Content-Length value so that pairs never conflict)
        ("hdr2", S("server", ["post"] if q else ["post", "post10"],
                   # (two Connection lines, keep-alive + close, are not generated: libevent honours only the first
                   #  one and keeps the connection open - a persistence matter the property text does not fix)
                   ["cl3", "clows", "cllist", "te", "close", "exp100", "expx", "fold", "lf"] if not q else
                   ["cl3", "cllist", "te", "close", "exp100", "fold"],
                   ["none", "b3", "b5", "ch"], 2, 1), 3 if q else "all"),
        # chunked body grammar
        ("chunks", S("server", ["post", "ext", "put"], ["te", "xa"], BODY_OK, 1, 1), 10 if q else "all"),
        # 1, 2, 3 empty lines before a request-line, as first message and between two pipelined messages; EVERY single
        # cut in both tiers: the RFC lets a server ignore them or refuse, but not depending on where the reads fall
        ("emptyl", S("server", ["post", "empty", "empty2", "empty3"], ["cl3"], ["b3"], 1, 2), "all"),
        # pipelines of two requests
        ("pipe2", S("server", ["get", "post"] if q else ["get", "post", "get10"], ["cl3", "te", "close"] if q else ["cl3", "te", "close", "fold"],
                    ["none", "b3", "ch"] if q else ["none", "b3", "ch", "chtr"], 1, 2), 3 if q else 10),
    ]
    total_fail = 0
    for name, c, single in corp:
        st = hc.generate(chk, "C23_" + name, c, workers=8 if q else None)
        n0 = len(st)
        st = [s for s in st if not finding_key(s)]       # triggers of open findings are probed separately (step 4)
        if len(st) < 0.7 * n0:
            raise vkit.InfraError("general corpus %s is mostly finding triggers (%d of %d left)" % (name, len(st), n0))
        for s in st:
            chk.count_case([s["bytes"]], nontrivial=len(s["bytes"]) > 30)
        for s in st[:1]:
            chk.sample({"corpus": name, "bytes": s["bytes"], "allowed": s["alts"]})
        total_fail += hc.run_server(chk, exe, st, rng, label=name, single=single, nrand=2 if q else 6)
        vkit.log("[C23] %s: %d streams" % (name, len(st)))

    if not q:
        # 3. long random pipelines (3 messages)
        c = S("server", ["get", "post", "put", "get10", "ext"], ["cl3", "clows", "te", "teuc", "ka", "xa", "fold", "exp100"],
              ["none", "b3", "ch", "ch1a", "chtr"], 2, 3)
        st = hc.generate(chk, "C23_pipe3", c, simulate=400, depth=30, seed=seed, max_streams=20000)
        st = [s for s in st if not finding_key(s)]
        for s in st:
            chk.count_case([s["bytes"]])
        total_fail += hc.run_server(chk, exe, st, rng, label="pipe3", single=6, nrand=6)
        vkit.log("[C23] pipe3: %d streams" % len(st))

    # 4. probes for the open findings: only streams carrying the trigger are keyed
    probes = [
        S("server", ["post", "spaces"], ["clspc", "xspc", "tegz", "tecg", "teid", "clplus", "te"], ["none", "b3", "chext"], 1, 1),
        S("server", ["head"], ["cl0", "cl3", "cl5"], ["none", "b3"], 2, 1),
    ]
    for i, c in enumerate(probes):
        st = [s for s in hc.generate(chk, "C23_probe%d" % i, c, workers=4) if finding_key(s)]
        for s in st:
            chk.count_case([s["bytes"]])
        hc.run_server(chk, exe, st, rng, label="probe", single=2, nrand=1, keyfn=finding_key)

    chk.cov["rule"] = ("TLC enumerates every request stream over each token alphabet (start-line forms, header tokens, "
                       "body forms, pipelines) with the set of RFC 9112 results; each stream is sent to a real evhttp "
                       "server on loopback TCP in one piece, octet by octet, cut at single offsets (all offsets, or a "
                       "seeded sample for the large corpora) and at seeded random multi-cuts; the requests handed to "
                       "the generic callback (method, target, version, header list, body), the final response "
                       "statuses and the close are compared with the allowed set and must be identical across "
                       "segmentations; after the last octet the sender half-closes and nothing more may be delivered. "
                       "non-trivial = stream longer than 30 octets.")
    chk.assumptions += [
        "every generated request carries a Host field (its absence is not exercised)",
        "interim 100 Continue responses are ignored by the comparison",
        "trailer fields may be dropped or appended to the header list (libevent appends them)",
        "after Content-Length together with Transfer-Encoding both closing and continuing are accepted",
        "grammar violations without an explicit MUST (line without colon, empty field name, empty line before the "
        "request-line, bare LF) may be rejected or handled in the lenient way the RFC names",
        "an unimplemented method or unparseable request-line is expected to be refused without reaching the callback",
        "quiescence is decided from byte counters / kernel queue lengths, a 15 s watchdog is an infrastructure error",
    ]
    return chk.finish()
