"""C31 - WebSocket frames are decoded into exactly the sent messages (WsFrames.tla; binding V/G).

TLC decides the reference decoder itself (byte-level incremental decoder == frame-level reference under
every segmentation, nothing after close, no partial delivery) and generates frame sequences with their byte
encoding and the predicted deliveries; the driver feeds them to a real evhttp/evws server over loopback TCP
under every segmentation class and the observations are compared with the prediction."""
import random
import vkit
from checks import ws_common as ws

L = ws.LIMIT
SMALL = {(7, 0), (7, 5)}
ALL_LENS = {(7, 0), (7, 1), (7, 125), (16, 126), (16, 65535), (64, 65536),
            (16, 0), (16, 125), (64, 1), (64, 65535)}          # the last four: non-minimal encodings

# canonical scenarios of the known findings: <<fin, rsv, op, mk, lf, len, hi>>
CANON = [
    (ws.K1, "fragmented text message: TEXT(fin=0,'2 bytes') CONT(fin=1,'2 bytes')", ((0, 0, 1, 1, 7, 2, 0), (1, 0, 0, 1, 7, 2, 0)), False),
    (ws.K1, "fragmented binary message in three frames with a ping in between",
     ((0, 0, 2, 1, 7, 3, 0), (0, 0, 0, 1, 7, 0, 0), (1, 0, 9, 1, 7, 1, 0), (1, 0, 0, 1, 7, 3, 0)), False),
    (ws.K3, "TEXT(fin=0) followed by TEXT(fin=1): must close, nothing delivered", ((0, 0, 1, 1, 7, 2, 0), (1, 0, 1, 1, 7, 2, 0)), False),
    (ws.K3, "CONT(fin=0) with no message open followed by TEXT(fin=1)", ((0, 0, 0, 1, 7, 2, 0), (1, 0, 1, 1, 7, 2, 0)), False),
    (ws.K2, "CLOSE and TEXT(fin=1) in one write: nothing may be delivered after the close", ((1, 0, 8, 1, 7, 0, 0), (1, 0, 1, 1, 7, 1, 0)), True),
    (ws.K2, "reserved opcode 3 and BINARY(fin=1) in one write", ((1, 0, 3, 1, 7, 0, 0), (1, 0, 2, 1, 7, 4, 0)), True),
]


def run(tier, seed):
    q = tier == "quick"
    chk = vkit.Check("C31", tier, seed)
    rnd = random.Random(seed)
    exe = ws.driver()
    st = ws.finding_status(chk)
    avoid = {k for k, key in (("K1", ws.K1), ("K3", ws.K3)) if st.get(key) == "open"}
    k2_open = st.get(ws.K2) == "open"
    F = ws.fam

    # ---- 1. TLC decides the reference decoder (bounded, explicit bytes, every segmentation)
    dec_fams = [
        # fragmentation / control / reserved / oversize(3 > lim) interplay, pairs
        F(n=2, lim=2, ops=(0, 1, 2, 8, 9, 3), masks=(1,), lens=((7, 0), (7, 2)) if q else ((7, 0), (7, 2), (7, 3))),
        F(n=2, lim=2, ops=(0, 1, 9), masks=(1,), lens=((7, 1), (7, 3))),
        # RSV bits, unmasked frames
        F(n=2, lim=2, fins=(1,), rsvs=(0, 4), ops=(1, 9, 8), masks=(0, 1), lens=((7, 0), (7, 2))),
        # every length form incl. non-minimal, > 125 control, upper length bytes
        F(n=1, lim=130, fins=(1,), ops=(1, 9), masks=(0, 1), lens=((7, 1), (16, 126), (16, 2), (64, 3), (64, 131), (16, 131)), his=(0, 1, 2)),
    ]
    if not q:
        dec_fams += [F(n=2, lim=2, rsvs=(0, 4), ops=(0, 1, 2, 8, 9, 10, 3, 11), masks=(1,), lens=((7, 0), (7, 2)))]
    ws.model_check_decoder(chk, "C31_dec", ws.consts(dec_fams, Mode="dec", Pols={1, 8} if q else {1, 2, 3, 5}),
                           workers=8 if q else None)
    if not q:
        ws.model_check_decoder(chk, "C31_dec3", ws.consts([F(n=3, lim=2, ops=(0, 1, 2, 8, 9), masks=(1,), lens=((7, 0), (7, 2)))],
                                                          Mode="dec", Pols={1, 8}))

    # ---- 2. generated frame sequences, replayed on the real server
    plans = [
        # every opcode / FIN / RSV / mask combination, one frame
        dict(name="ops", f=F(n=1, ops=range(16), rsvs=(0, 1, 2, 4, 7), masks=(0, 1), lens=SMALL), singles=4 if q else None, multis=1),
        # every length class and length form, one frame
        dict(name="len", f=F(n=1, ops=(1, 2, 9, 8), fins=(1,), masks=(0, 1), lens=ALL_LENS), singles=8 if q else 40, multis=2),
        # around the size limit and with the upper length bytes set
        dict(name="big", f=F(n=1, ops=(1, 2), fins=(1,), masks=(1,) if q else (0, 1), lens=((64, L), (64, L + 1), (64, 70000)), his=(0, 1, 2, 3)),
             singles=2 if q else 12, multis=1),
        # pairs: interleaving, fragments + control frames, things after a terminating frame
        dict(name="pair", f=F(n=2, ops=(0, 1, 2, 8, 9, 10, 3), masks=(1,) if q else (0, 1), lens=SMALL), singles=4 if q else 10, multis=2),
        dict(name="pairlen", f=F(n=2, ops=(1, 2, 9), fins=(1,), masks=(0, 1), lens=((7, 1), (7, 125), (16, 126), (64, 65536)) if q else ALL_LENS),
             singles=4, multis=1),
        # longer sequences over a small alphabet
        dict(name="quad", f=F(n=4, ops=(1, 2, 9, 8) if q else (0, 1, 2, 9), fins=(1,) if q else (0, 1), masks=(1,), lens=((7, 3),)),
             singles=4 if q else 3, multis=2 if q else 1),
    ]
    if not q:
        plans += [
            dict(name="trip", f=F(n=3, ops=(0, 1, 2, 8, 9, 3), masks=(1,), lens=((7, 2),)), singles=4, multis=2),
            dict(name="pairrsv", f=F(n=2, ops=(1, 2, 8, 9), rsvs=(0, 4), masks=(1,), lens=((7, 1), (16, 126), (16, 5))), singles=3, multis=1),
        ]
    nplan = len(plans)
    canon_fams = [F(n=len(fixed), fixed=fixed) for (_k, _w, fixed, _wo) in CANON]
    recs = ws.generate(chk, "C31_gen", ws.consts([p["f"] for p in plans] + canon_fams, Avoid=avoid))
    if not q:
        # long random sequences (TLC simulation)
        sim = ws.generate(chk, "C31_sim", ws.consts([F(n=6, ops=(0, 1, 2, 9, 10, 8), masks=(0, 1),
                                                      lens=((7, 0), (7, 3), (7, 125), (16, 126), (16, 300)))], Avoid=avoid),
                          simulate=150, depth=9, seed=seed, workers=4)
        for r in sim:
            r["fam"] = nplan + len(CANON) + 1
        plans.append(dict(name="sim", singles=12, multis=2))
        recs += sim
    classes = {"delivered": 0, "closed": 0, "after_term": 0, "fragment_open": 0, "policy_open": 0}
    for i, p in enumerate(plans):
        fam_i = i + 1 if p["name"] != "sim" else nplan + len(CANON) + 1
        rs = [r for r in recs if r["fam"] == fam_i]
        if not rs:
            raise vkit.InfraError("family %s generated nothing" % p["name"])
        for r in rs:
            a0 = r["exp"][0]
            classes["delivered"] += bool(a0["msgs"])
            classes["closed"] += bool(a0["closed"])
            classes["after_term"] += 0 < r["term"] < len(r["fr"])
            classes["fragment_open"] += any(f["d"][0] == 0 and f["d"][2] in (1, 2) for f in r["fr"])
            classes["policy_open"] += len(r["exp"]) > 1
        for r in rs[:1]:
            chk.sample({"gen": p["name"], "frames": ws.describe(r), "wire_header_bytes": [f["h"] for f in r["fr"]],
                        "predicted": r["exp"]})
        n, nf = ws.run_records(chk, exe, rs, rnd, label="C31_" + p["name"], singles=p["singles"], multis=p["multis"], k2_open=k2_open)
        vkit.log("[C31] %s: %d sequences, %d runs, %d differ" % (p["name"], len(rs), n, nf))
    for k, v in classes.items():
        if v == 0:
            raise vkit.InfraError("vacuous corpus: no sequence of class %s" % k)
    chk.cov["sequence_classes"] = classes

    # ---- 3. canonical scenarios of the known findings (their triggers are excluded above)
    for j, (key, what, fixed, whole_only) in enumerate(CANON):
        rs = [r for r in recs if r["fam"] == nplan + 1 + j]
        if len(rs) != 1:
            raise vkit.InfraError("canonical scenario %d not generated" % j)
        is_open = st.get(key) == "open"
        k2o = k2_open and not whole_only     # the K2 scenarios need the frames in one write
        ws.run_records(chk, exe, rs, rnd, label="canonical[%s] %s" % (key, what), singles=0 if is_open else None,
                       multis=0, k2_open=k2o, bytewise=not is_open and not whole_only, key=key,
                       seg_filter=(lambda lab: lab == "whole") if is_open else None)

    chk.cov["rule"] = ("TLC: byte-level incremental RFC 6455 decoder over explicit wire bytes, all sequences of <=2 (thorough: 3) frames "
                       "over a small alphabet, every chunking into pieces of 1..64 bytes (FeedChunk(k) at every position) compared with the one-piece feed, policies lenient/strict: SegmentationIndependent, "
                       "MatchesTokenDecoder, NoPartialDelivery, NothingAfterClose, HdrOK. Replay: TLC-generated frame sequences (all "
                       "opcodes, FIN, RSV, masked/unmasked, 7/16/64-bit forms, lengths 0/1/125/126/65535/65536/limit/limit+1, upper "
                       "length bytes set, pairs exhaustively, triples/quadruples over small alphabets, 6 frames by TLC simulation in the thorough tier) are written by a raw TCP client to a real "
                       "evhttp+evws server whole, byte-wise, with every single cut (sampled for long streams: all header positions, "
                       "frame ends, 4096/16384 offsets) and seeded multi-cuts; message callbacks (type, length, crc32), close callback, "
                       "client EOF and bytes written back are compared with the reference. distinct = distinct (sequence, cuts).")
    chk.assumptions += [
        "payload bytes follow the spec's pattern PatByte (text-capable frames printable ASCII, so UTF-8 validity is never in question)",
        "RSV bits, control frames >125 bytes or with FIN=0, and non-minimal length encodings: the property statement does not name "
        "them, so both 'fail the connection' and 'accept' are allowed (policy alternatives of the reference)",
        "reply bytes are not fixed by the property: optional pongs echoing pings and at most one final close frame iff closing",
        "oversize frames put only their header on the wire",
        "the size limit is the implementation's WS_MAX_RECV_FRAME_SZ = 10485760",
        "known findings %s: their triggers are excluded from the general corpus (spec: KnownTrigger; forced cut after a "
        "terminating frame) and one canonical scenario each is run separately" % sorted(k for k in (ws.K1, ws.K2, ws.K3) if st.get(k) == "open"),
    ]
    return chk.finish()


def replay(case, seed):
    return ws.replay_c31(case, seed)
