"""C38 - asynchronous getaddrinfo returns exactly the addresses the sources provide (Gai.tla, binding G)."""
import socket
import vkit
from checks import dns_common as dc

INV = ["NoQueryFor", "HostsWin", "FamilyRespected", "PortEverywhere", "UnionOfAnswers", "CacheWithinTtl", "Emit"]
AI_PASSIVE, AI_CANONNAME, AI_NUMERICHOST, AI_NUMERICSERV = socket.AI_PASSIVE, socket.AI_CANONNAME, socket.AI_NUMERICHOST, socket.AI_NUMERICSERV
KEY_NUMERIC = "C38-numeric-host-of-other-family-is-queried"
KEY_TTL = "C38-cache-lifetime-is-ttl-of-first-answer"
KEY_FAMILY = "C38-cache-answers-families-it-never-asked"
KEY_CANON = "C38-cache-with-canonname-returns-first-address-only"
KEY_PORT = "C38-port-not-applied-to-udp-entry-of-hosts-or-cache-result"


def http_port(proto):
    try:
        return socket.getservbyname("http", proto) if proto else socket.getservbyname("http")
    except OSError:
        return 99999


def consts(**kw):
    c = {"HttpTcp": http_port("tcp"), "HttpUdp": http_port("udp"), "HttpAny": http_port(None),
         "NodeIdx": set(range(1, 16)), "ServIdx": {2}, "FamSet": {0, 2, 10}, "SockIdx": {2}, "FlagIdx": {1}, "CacheOn": False,
         "AgeSet": {5}, "Fam2Set": {0}}
    c.update({k: (set(v) if isinstance(v, (list, tuple, range, set)) else v) for k, v in kw.items()})
    return c


def gen(chk, name, c, timeout=900):
    cfg = vkit.write_cfg(name, c, invariants=INV)
    out, seen = [], set()

    def sink(v):
        k = repr((v["l"], v["age"]))
        if k not in seen:
            seen.add(k); out.append(v)
    res = vkit.tlc("Gai", cfg, print_sink=sink, timeout=timeout, workers=4)
    chk.add_tlc(name, res)
    if not out:
        raise vkit.InfraError("generator %s produced nothing\n%s" % (name, res.raw[-1500:]))
    return out


def reply(name, qtype, ans):
    """Concretisation of an answer token: the reply bytes (id / question case are patched by the fake nameserver)."""
    q = dc.plain_name(dc.labels(name)) + qtype.to_bytes(2, "big") + b"\0\1"
    rrs = []
    if ans["k"] == "ok":
        if ans["cname"]:
            rrs.append(b"\xc0\x0c" + (5).to_bytes(2, "big") + b"\0\1" + ans["ttl"].to_bytes(4, "big") +
                       len(dc.plain_name(dc.labels(ans["cname"]))).to_bytes(2, "big") + dc.plain_name(dc.labels(ans["cname"])))
        for a in ans["addrs"]:
            rd = socket.inet_pton(socket.AF_INET if qtype == 1 else socket.AF_INET6, a)
            rrs.append(b"\xc0\x0c" + qtype.to_bytes(2, "big") + b"\0\1" + ans["ttl"].to_bytes(4, "big") + len(rd).to_bytes(2, "big") + rd)
    rcode = 3 if ans["k"] == "nx" else 0
    auth = b""
    if ans.get("soa"):
        t = ans["soa"].to_bytes(4, "big")
        rd = b"\2ns\xc0\x0c" + b"\2hm\xc0\x0c" + (1).to_bytes(4, "big") + (3600).to_bytes(4, "big") + (600).to_bytes(4, "big") + (86400).to_bytes(4, "big") + t
        auth = b"\xc0\x0c" + (6).to_bytes(2, "big") + b"\0\1" + t + len(rd).to_bytes(2, "big") + rd
    return (b"\0\0" + bytes([0x81, 0x80 | rcode]) + b"\0\1" + len(rrs).to_bytes(2, "big") + (b"\0\1" if auth else b"\0\0") + b"\0\0" +
            q + b"".join(rrs) + auth).hex()


def zone_rules(zone):
    rules = []
    for z in zone:
        for key, t in (("a", 1), ("aaaa", 28)):
            if z[key]["k"] != "drop":
                rules.append({"n": z["n"], "t": t, "reply": reply(z["n"], t, z[key]), "fate": z[key]["k"]})
    rules.append({"n": "unknown.test", "t": 0, "reply": reply("unknown.test", 1, {"k": "nx"})[:0], "fate": "drop"})
    return rules


def lookup_json(l, zone, adv=0):
    fl = l["fl"]
    flags = (AI_PASSIVE if fl["passive"] else 0) | (AI_CANONNAME if fl["canon"] else 0) | (AI_NUMERICHOST if fl["numhost"] else 0) | \
        (AI_NUMERICSERV if fl["numserv"] else 0)
    return {"node": None if l["node"]["k"] == "null" else l["node"]["n"], "serv": None if l["serv"]["k"] == "null" else l["serv"]["s"],
            "family": l["fam"], "socktype": l["st"], "proto": l["pr"], "flags": flags, "zone": zone, "advance_ms": adv}


def scenario(s):
    zones = [zone_rules(z) for z in s["zones"]]
    lk = [lookup_json(s["l"][0], 0)]
    if len(s["l"]) == 2:
        lk.append(lookup_json(s["l"][1], 1, s["age"] * 1000))
    return {"mode": "gai", "dir": dc.TMP, "hosts": s["hosts"], "zones": zones, "lookups": lk}


def match(e, r, nq4, nq6, l):
    """Does the observed result r satisfy the admissible prediction e?  Returns None or the first difference."""
    if r["done"] != 1:
        return "callback invoked %d times" % r["done"]
    if l["serv"]["s"] == "65536" and not (nq4 or nq6):
        return None          # a numeric service beyond 65535: rejected by libevent's parser, wrapped to 0 by the C library (AI_NUMERICHOST path)
    if (nq4 > 0 and not e["q4"]) or (nq6 > 0 and not e["q6"]):
        return "%d A / %d AAAA queries sent although the sources need %s" % (nq4, nq6, "none" if not (e["q4"] or e["q6"]) else "only the other family")
    if e["k"] == "err":
        return None if r["err"] != 0 else "success %s where an error is due" % r["ai"]
    if r["err"] != 0:
        if e.get("mayerr"):
            return None
        return "error %d, expected %s" % (r["err"], sorted(e["ents"]))
    got = sorted([x["f"], x["a"], x["p"], x["st"], x["pr"]] for x in r["ai"])
    if l["st"] == 0 and l["pr"] == 0:
        # no socket type asked for: which types are listed per address is the resolver's choice (libevent: TCP+UDP, the C library
        # adds RAW); every address must be listed with the port, nothing else may be
        g3, e3 = sorted(set(tuple(x[:3]) for x in got)), sorted(set(tuple(x[:3]) for x in e["ents"]))
        if g3 != e3:
            return "addresses %s, the sources provide %s" % (g3, e3)
    elif got != sorted(e["ents"]):
        return "entries %s, the sources provide %s" % (got, sorted(e["ents"]))
    cn = r["ai"][0]["cn"] or ""
    if cn not in e["canon"]:
        return "canonical name %r not in %s" % (cn, e["canon"])
    if (e["q4"] and nq4 == 0) or (e["q6"] and nq6 == 0):
        return "no query although the answer must come from DNS"
    return None


def classify(s, i, diffs):
    """Keys of the known findings (each tied to its trigger)."""
    l = s["l"][i]
    d = " | ".join(diffs)
    if l["st"] == 0 and l["pr"] == 0 and l["serv"]["k"] != "null" and ", 0)" in d and "addresses" in d and \
            (i == 1 or l["node"]["n"] in ("hostv4", "hostboth")):
        return KEY_PORT
    if i == 0 and l["node"]["k"] in ("num4", "num6") and "queries sent" in d and not l["fl"]["numhost"]:
        return KEY_NUMERIC
    if i == 1:
        l1 = s["l"][0]
        ttl = {"dual.test": {2: 300, 10: 10}, "cn.test": {2: 120, 10: 120}, "neg6.test": {2: 20}, "neg4.test": {10: 20}}.get(l["node"]["n"], {})
        asked1 = [f for f in (2, 10) if l1["fam"] in (0, f)]
        asked2 = [f for f in (2, 10) if l["fam"] in (0, f)]
        fam_cover = all(f in asked1 for f in asked2)
        pos = [f for f in asked1 if f in ttl]                    # families that were answered positively
        within_all = bool(pos) and all(s["age"] < ttl[f] for f in pos)
        within_some = any(s["age"] < ttl[f] for f in pos)
        if within_some and not fam_cover:
            return KEY_FAMILY                 # cached data of another family shadows the question that was never asked
        if within_all and fam_cover and l["fl"]["canon"] and l1["fl"]["canon"] and ("entries" in d or "addresses" in d or "error -" in d):
            return KEY_CANON
        if fam_cover and within_some and not within_all:
            return KEY_TTL                    # between the smallest and the largest TTL of the first answer
    return None


def run(tier, seed):
    q = tier == "quick"
    chk = vkit.Check("C38", tier, seed)
    exe = dc.driver()
    gens = [
        # every node x family x (service, socktype/protocol, flags) slices of the product
        ("C38_product", consts(ServIdx={1, 2, 3} if q else range(1, 7), SockIdx={1, 2, 3} if q else range(1, 7),
                               FlagIdx={1, 2, 3, 4} if q else range(1, 7))),
        # cache: two lookups of the same name, zone changed in between, ages before / between / after the TTLs
        ("C38_cache", consts(CacheOn=True, NodeIdx={6, 8, 14, 15}, AgeSet={5, 60, 400}, Fam2Set={0, 2, 10})),
    ]
    if q:
        pass
    else:
        gens.insert(1, ("C38_serv", consts(NodeIdx={1, 2, 4, 6}, ServIdx=range(1, 7), SockIdx=range(1, 7), FlagIdx={1, 5, 6})))
    specs = []
    for name, c in gens:
        specs += gen(chk, name, c)
    scen = [scenario(s) for s in specs]
    outs = vkit.run_driver(exe, scen, timeout=900)
    kinds = {"ok": 0, "err": 0, "cached-alt": 0}
    for s, sc, o in zip(specs, scen, outs):
        chk.count_case(sc["lookups"], nontrivial=True)
        chk.cov["traces_validated_against_impl"] += 1
        if o is None or "crash" in o or o.get("leak"):
            chk.violation("C38: crash / sanitizer / leak: %s" % str(o)[:800], {"scenario": sc, "actual": o})
            continue
        # queries per lookup and type from the nameserver's log
        seg, cnt = -1, {}
        for ev in o["log"]:
            if ev["e"] == "lookup":
                seg = ev["i"]
            elif ev["e"] == "q":
                cnt[(seg, ev["t"])] = cnt.get((seg, ev["t"]), 0) + 1
        for i, (alts, r) in enumerate(zip(s["exp"], o["res"])):
            kinds[alts[0]["k"]] += 1
            kinds["cached-alt"] += len(alts) - 1
            diffs = [match(e, r, cnt.get((i, 1), 0), cnt.get((i, 28), 0), s["l"][i]) for e in alts]
            if all(diffs) and len(chk.violations) < 25:
                l = s["l"][i]
                chk.violation("C38 lookup %d (%s serv=%s fam=%d st=%d pr=%d flags=%s%s): %s" %
                              (i, l["node"]["n"] or "NULL", l["serv"]["s"] or "NULL", l["fam"], l["st"], l["pr"],
                               "".join(k[0] for k, v in l["fl"].items() if v) or "-", (" age=%ds" % s["age"]) if i else "", " | ".join(diffs)),
                              {"scenario": sc, "prediction": s["exp"], "actual": o}, key=classify(s, i, diffs))
    # --- fan-out timing: the A and AAAA sub-requests of one PF_UNSPEC lookup race with the getaddrinfo-allow-skew timer (3 s).
    # One family is answered at once, the answer of the other is held and released -- datagram readable, clock set -- just
    # before / exactly at / just after the skew deadline, optionally together with evdns_getaddrinfo_cancel.  Whatever wins,
    # the user callback runs exactly once, with the first family's addresses and possibly the second's.
    zone1 = specs[0]["zones"][0]
    dual = [z for z in zone1 if z["n"] == "dual.test"][0]
    fan, fexp = [], []
    for held, t in (("aaaa", 28), ("a", 1)):
        for rel in (2999, 3000, 3001, 1500):
            for cancel in (0, 1):
                rules = zone_rules(zone1)
                for r in rules:
                    if r["n"] == "dual.test" and r["t"] == t:
                        r["close_at"] = -2
                lk = {"node": "dual.test", "serv": "80", "family": 0, "socktype": 1, "proto": 0, "flags": 0, "zone": 0, "advance_ms": 0,
                      "release_ms": rel, "cancel": cancel}
                fan.append({"mode": "gai", "dir": dc.TMP, "hosts": "", "zones": [rules], "lookups": [lk], "base_flags": 0x10})   # EVDNS_BASE_NO_CACHE
                e4 = [[2, a, 80, 1, 6] for a in dual["a"]["addrs"]]
                e6 = [[10, a, 80, 1, 6] for a in dual["aaaa"]["addrs"]]
                first = e4 if held == "aaaa" else e6
                alts = [{"k": "ok", "ents": first, "canon": [""], "q4": True, "q6": True}, {"k": "ok", "ents": e4 + e6, "canon": [""], "q4": True, "q6": True}]
                if cancel:
                    alts.append({"k": "err", "q4": True, "q6": True})
                fexp.append(alts)
    fouts = vkit.run_driver(exe, fan, timeout=600)
    for sc, alts, o in zip(fan, fexp, fouts):
        chk.count_case(sc["lookups"], nontrivial=True)
        chk.cov["traces_validated_against_impl"] += 1
        lk = sc["lookups"][0]
        if o is None or "crash" in o or o.get("leak"):
            chk.violation("C38 fan-out (held answer released at %d ms, cancel=%d): crash / sanitizer / leak: %s" % (lk["release_ms"], lk["cancel"], str(o)[-900:]),
                          {"scenario": sc, "actual": o})
            continue
        r = o["res"][0]
        l0 = {"st": 1, "pr": 0, "serv": {"s": "80", "k": "num"}}
        diffs = [match(e, r, 1, 1, l0) for e in alts]
        if all(diffs):
            chk.violation("C38 fan-out (held answer released at %d ms, cancel=%d): %s" % (lk["release_ms"], lk["cancel"], " | ".join(diffs)),
                          {"scenario": sc, "admissible": alts, "actual": o})
    kinds["fan-out"] = len(fan)
    chk.cov["verdicts"] = kinds
    if not kinds["ok"] or not kinds["err"] or not kinds["cached-alt"] or not kinds["fan-out"]:
        raise vkit.InfraError("vacuous corpus %s" % kinds)
    for s in specs[:2] + specs[-1:]:
        chk.sample({"lookups": [lookup_json(l, 0) for l in s["l"]], "age_s": s["age"], "prediction": s["exp"]})
    chk.cov["rule"] = ("TLC enumerates lookups over 15 nodes (NULL, numeric v4/v6, hosts names, DNS names with A+AAAA / one family / CNAME / "
                       "NXDOMAIN / one family silent / one family negative with a long-lived SOA, a name in hosts and DNS) x services (NULL, numeric, named, bad, 65535, 65536) x family x "
                       "6 socktype/protocol hints x 6 flag sets, and two-lookup cache scenarios (families and AI_CANONNAME of both lookups, "
                       "ages 5/60/400 s against TTLs 10/120/300, zone changed in between); Gai!Expected gives the set of "
                       "(family, address, port, socktype, protocol), the admissible canonical names and whether A / AAAA may be asked; TLC "
                       "checks NoQueryFor, HostsWin, FamilyRespected, PortEverywhere, UnionOfAnswers, CacheWithinTtl.  Each scenario runs on a "
                       "real evdns_base with a hosts file and a scripted fake nameserver under the virtual clock; results are compared as "
                       "multisets, the callback count must be 1, queries are counted per type.")
    chk.assumptions += ["error codes are compared as 'some error' only", "the numeric service 65536 and AI_CANONNAME with a NULL node are left open (C library behaviour on the AI_NUMERICHOST path)", "the services database of the machine decides named services (read by the glue)",
                        "canonical name without a CNAME record: none or the node name", "a family that never answers is dropped after getaddrinfo-allow-skew"]
    return chk.finish()
