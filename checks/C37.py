"""C37 - the DNS server parses any incoming packet safely and faithfully (DnsMsg.tla / DnsMsgGen.tla, binding G)."""
import random
import vkit
from checks import dns_common as dc
from checks import C35 as enc

KEY_OPCODE = "C37-nonstandard-opcode-reaches-user-callback"
KEY_TAIL = "C37-malformed-record-sections-accepted"
SMALL = [enc.rec(0, "ab.cd", dc.T_A, 60, data=b"\1\2\3\4")]
BIG = [enc.rec(0, "ab.cd", dc.T_TXT, 60, data=b"t" * 100) for _ in range(9)]     # ~1030 bytes


def expected_cb(res):
    return [{"rd": res["rd"], "q": [{"n": dc.join_labels(q["n"]).hex(), "t": q["t"], "c": q["c"]} for q in res["q"]]}]


def actual_cb(o):
    return [{"rd": 1 if c["flags"] & 0x100 else 0, "q": c["q"]} for c in o.get("cb", [])]


def judge_one(m, o, recs):
    """Compare one UDP exchange with the reference verdict; returns (message, key) or None."""
    res = m["res"]
    k = res["k"]
    if o is None or "crash" in o:
        return "crash / sanitizer report: %s" % (o or {}).get("crash", "no output"), None
    if o.get("leak"):
        return "leak of %d allocations" % o["leak"], None
    cb = actual_cb(o)
    resp = [bytes.fromhex(r) for r in o.get("resp", [])]
    if k == "none":
        if not cb:
            return None
        unrepr = any(x in (0, 46) for qq in res.get("q", []) for l in qq["n"] for x in l)
        if res.get("why") == "rr" and (cb == expected_cb(res) or (unrepr and len(cb) == 1)):
            return "user callback invoked although the record sections after the questions are malformed " \
                   "(RDLENGTH past the end of the packet / announced records missing)", KEY_TAIL
        if res.get("why") == "opcode":
            return "non-standard opcode %d (malformed message) reached the user callback %s" % ((m["b"][2] >> 3) & 15, cb), KEY_OPCODE
        return "user callback invoked for a packet that is not a well-formed query (%s): %s" % (res.get("why"), cb), None
    if k == "notimpl":
        if cb:
            return "non-standard opcode %d reached the user callback %s instead of being answered NOTIMPL" % \
                   ((m["b"][2] >> 3) & 15, cb), KEY_OPCODE
        if len(resp) != 1 or len(resp[0]) < 12 or resp[0][3] & 15 != 4 or not resp[0][2] & 0x80 or resp[0][:2] != bytes(m["b"][:2]):
            return "non-standard opcode not answered with NOTIMPL: %s" % [r.hex()[:40] for r in resp], None
        return None
    if k == "open" and not cb:
        return None
    if not res["repr"]:      # a label with a NUL or '.' byte cannot be passed through the C-string API: nothing to compare
        return None
    exp = expected_cb(res)
    if cb != exp:
        return "user callback arguments differ: expected %s got %s" % (exp, cb), None
    if len(resp) != 1:
        return "expected one response, got %d" % len(resp), None
    r = resp[0]
    if r[:2] != bytes(m["b"][:2]) or not r[2] & 0x80:
        return "response id / QR wrong: %s" % r[:4].hex(), None
    limit = res["limit"]
    plain = 12 + sum(len(dc.plain_name(q["n"])) + 4 for q in res["q"]) + (11 if res["edns"] else 0) + \
        sum(len(dc.plain_name(dc.labels(x["name"]))) + 10 + len(x["data"]) // 2 for x in recs)
    tc = (r[2] >> 1) & 1
    if len(r) > limit:
        return "response of %d bytes exceeds the requestor's limit %d" % (len(r), limit), None
    if plain <= limit and tc:
        return "response truncated although it fits the requestor's limit %d (OPT size not honoured)" % limit, None
    if not tc and len(r) < 12:
        return "short response", None
    if tc == 0 and plain > limit + 400:
        return "response not truncated although it cannot fit %d" % limit, None
    return None


def run(tier, seed):
    q = tier == "quick"
    chk = vkit.Check("C37", tier, seed)
    exe = dc.driver()
    rng = random.Random(seed)
    gens = [("C37_flags", {"Mode": "request", "FlagIdx": range(1, 10), "QIdx": {1, 2}, "RRIdx": range(1, 4), "ArIdx": range(1, 6), "MaxAn": 1}),
            ("C37_shapes", {"Mode": "request", "FlagIdx": {1}, "QIdx": range(1, 12), "RRIdx": range(1, 4), "ArIdx": {1, 2, 5} if q else range(1, 6),
                            "CntIdx": range(1, 8), "CutSet": {0, 1, 5}, "MaxAn": 1 if q else 2})]
    if not q:
        gens.append(("C37_rand", {"Mode": "request", "FlagIdx": range(1, 10), "QIdx": range(1, 12), "RRIdx": range(1, 4), "ArIdx": range(1, 6),
                                  "CntIdx": range(1, 8), "CutSet": {0, 1, 2, 3, 5, 11, 17}, "MaxAn": 3, "Random": True, "RandomN": 6000}))
    msgs = []
    for name, c in gens:
        msgs += dc.gen_messages(chk, name, c, timeout=1500)
    kinds = {}
    for m in msgs:
        kinds[m["res"]["k"]] = kinds.get(m["res"]["k"], 0) + 1
    chk.cov["verdicts"] = kinds
    if any(kinds.get(k, 0) == 0 for k in ("none", "notimpl", "call", "open")):
        raise vkit.InfraError("vacuous message space: %s" % kinds)
    # --- UDP: one datagram per scenario
    scen = []
    for i, m in enumerate(msgs):
        recs = BIG if i % 2 else SMALL
        scen.append({"mode": "server", "tr": "udp", "msgs": [dc.hexb(m["b"])], "reply": {"err": 0, "recs": recs}})
    outs = vkit.run_driver(exe, scen, timeout=900)
    for m, sc, o in zip(msgs, scen, outs):
        chk.count_case([sc["msgs"], len(sc["reply"]["recs"])], nontrivial=len(m["b"]) > 12)
        chk.cov["traces_validated_against_impl"] += 1
        bad = judge_one(m, o, sc["reply"]["recs"])
        if bad and len(chk.violations) < 12:
            chk.violation("C37 udp %s: %s" % (m["tok"], bad[0]), {"scenario": sc, "verdict": m["res"], "actual": o}, key=bad[1])
    for m in msgs[:3]:
        chk.sample({"bytes": dc.hexb(m["b"]), "tokens": m["tok"], "reference_verdict": m["res"]})
    # --- TCP: streams of 1..3 messages with definite verdicts, under every segmentation class
    definite = [m for m in msgs if (m["res"]["k"] == "call" and m["res"]["repr"]) or
                (m["res"]["k"] == "none" and m["res"]["why"] in ("hdr", "q") and len(m["b"]) >= 1)]   # not the known-finding classes
    streams = []
    for _ in range(60 if q else 1500):
        ms = [rng.choice(definite) for _ in range(rng.randint(1, 3))]
        data = b"".join(len(m["b"]).to_bytes(2, "big") + bytes(m["b"]) for m in ms)
        cls = rng.choice(["whole", "bytes", "prefix", "bound", "rand"])
        if cls == "whole":
            segs = [len(data)]
        elif cls == "bytes":
            segs = [1] * min(len(data), 80)
        elif cls == "prefix":
            segs = [1, len(ms[0]["b"]) + 1 + 1]
        elif cls == "bound":
            segs = [len(m["b"]) + 2 for m in ms]
        else:
            segs = [rng.randint(1, 40) for _ in range(12)]
        streams.append((ms, {"mode": "server", "tr": "tcp", "stream": data.hex(), "segs": segs, "reply": {"err": 0, "recs": SMALL}}, cls))
    outs = vkit.run_driver(exe, [s for _, s, _ in streams], timeout=900)
    for (ms, sc, cls), o in zip(streams, outs):
        chk.count_case([sc["stream"], sc["segs"]], nontrivial=True)
        chk.cov["traces_validated_against_impl"] += 1
        if o is None or "crash" in o or o.get("leak"):
            chk.violation("C37 tcp (%s): crash / sanitizer / leak: %s" % (cls, str(o)[:500]), {"scenario": sc, "actual": o})
            continue
        exp = sum([expected_cb(m["res"]) for m in ms if m["res"]["k"] == "call"], [])
        if actual_cb(o) != exp:
            chk.violation("C37 tcp (%s, segments %s): callbacks %s, expected %s" % (cls, sc["segs"][:8], actual_cb(o), exp),
                          {"scenario": sc, "verdicts": [m["res"] for m in ms], "actual": o})
        elif len(o["resp"]) != len(exp) or o["rest"]:
            chk.violation("C37 tcp (%s): %d well-framed responses (+%d stray bytes) for %d answered requests" %
                          (cls, len(o["resp"]), o["rest"], len(exp)), {"scenario": sc, "actual": o})
    chk.cov["rule"] = ("TLC enumerates request messages from tokens (9 header variants incl. opcodes 1/5/15, QR, TC; 11 question shapes incl. "
                       "pointer loops, out-of-range / forward / mid-label pointers, 255/257-byte names, binary labels; extra RRs; 5 additional "
                       "sections incl. OPT sizes 100/1232/2000/4096; 7 count distortions; truncation after 1/5 bytes), checks the reference "
                       "decoder on each (decode o encode = id, totality) and emits bytes + verdict (none / NOTIMPL / callback with exactly "
                       "these questions and RD / open).  Each message is sent as a UDP datagram to a real evdns server port whose callback "
                       "answers with ~60 or ~1030 bytes: callback invocations, questions, flags, response id, NOTIMPL, size <= max(512, OPT) "
                       "and TC are compared.  TCP: streams of 1-3 messages under 5 segmentation classes.  non-trivial = longer than a header.")
    chk.assumptions += ["messages whose names use non-prior pointers, names over 255 bytes, zero questions, TC/RCODE set or trailing bytes "
                        "are 'open': the callback may or may not be invoked, but if it is, with exactly the decoded questions",
                        "allocation balance via event_set_mem_functions; memory safety via ASan"]
    return chk.finish()
