"""C13 - evbuffer change callbacks report exactly the changes that happened (Evbuffer.tla CbMode 1/2, binding G)."""
import vkit
from checks import evbuffer_common as ec

MUT = {"add", "prepend", "drain", "remove", "addbuf", "prependbuf", "rmbuf", "readln", "rescommit", "addiov", "printf",
       "addref", "addbufref", "addfile", "pullup", "freeze", "unfreeze"}
CB = {"cbadd", "cbdel", "cbflag"}
SMALL = {"add", "drain", "rmbuf", "addbuf", "readln", "prepend"}
SMALLQ = {"add", "drain", "rmbuf", "addbuf"}


def nodefer_key(h, k, msg):
    if ".cb" in msg and any(s["a"] == "cbflag" and s["f"] == 2 and s["v"] == 1 for s in h[:k + 1]):
        return "nodefer-cumulative-counts"
    return None


def run(tier, seed):
    q = tier == "quick"
    gen = [
        # immediate delivery: every history of 3 calls over callbacks + a small mutator family
        dict(name="C13_exh_imm", consts=ec.consts((SMALLQ if q else SMALL) | CB | {"nodefer"}, 3, wa=37, wb=1021, data=("bLa",) if q else ("a", "bLa"), nsel=(1, 9), cbmode=1),
             stride=4 if q else 1),
        # deferred delivery (event_base + event_base_loop(NONBLOCK))
        dict(name="C13_exh_def", consts=ec.consts((SMALLQ if q else SMALL) | CB | {"loop"}, 3, wa=37, wb=1021, data=("bLa",) if q else ("a", "bLa"), nsel=(1, 9), cbmode=2),
             stride=4 if q else 1),
        # one callback installed, then every 3-call history of moves (callbacks really fire in every history)
        # multi-chain start (3 forced adds), then every 2-call history: a callback installed on a buffer whose data spans chains
        dict(name="C13_warm_moves", consts=ec.consts({"add", "rmbuf", "addbuf", "cbadd"} | (set() if q else {"drain"}), 5, wa=509, wb=2048,
                                                    data=("a", "b"), nsel=(1, 2, 9), cbmode=1, warm=3)),
    ]
    # callbacks that modify the buffer they are registered on from inside the callback (drain everything / add one symbol,
    # armed for one invocation): every nested report is predicted; immediate and deferred delivery
    gen += [
        dict(name="C13_exh_script_imm", consts=ec.consts({"add", "drain", "cbadd", "cbscript"}, 4, wa=37, wb=1021, data=("bLa",), nsel=(9,), cbmode=1),
             stride=3 if q else 1),
        dict(name="C13_exh_script_def", consts=ec.consts({"add", "drain", "cbadd", "cbscript", "loop"}, 4, wa=37, wb=1021, data=("bLa",), nsel=(9,), cbmode=2),
             stride=4 if q else 1),
    ]
    for mode in (1, 2):
        for (wa, wb) in ([(37, 331)] if q else [(1, 1), (37, 331), (1021, 4099)]):
            gen.append(dict(name="C13_rand_m%d_%d_%d" % (mode, wa, wb),
                            consts=ec.consts(MUT | CB | {"cbscript"} | ({"nodefer"} if mode == 1 else {"loop"}), 18 if q else 30, wa=wa, wb=wb,
                                             data=("", "a", "b", "aCL", "L", "bLa"), nsel=(0, 1, 2, 5, 9), sizes=(0, 2000),
                                             maxlen=8, cbmode=mode),
                            simulate=8 if q else 60, depth=90))
    if not q:
        gen += [
            dict(name="C13_warm_moves_def", consts=ec.consts({"add", "drain", "rmbuf", "addbuf", "cbadd", "loop"}, 5, wa=1021, wb=4099,
                                                            data=("a", "b"), nsel=(1, 2, 9), cbmode=2, warm=3)),
        ]
    # open finding: NODEFER callbacks on a buffer with deferred callbacks (excluded above: "nodefer" not in Acts for mode 2)
    gen.append(dict(name="C13_known_nodefer",
                    consts=ec.consts({"add", "cbadd", "cbflag", "nodefer"}, 4, data=("a",), nsel=(1,), cbmode=2),
                    key_fn=nodefer_key))
    plan = {
        "mc": [("C13_mc_imm", ec.consts((SMALL if q else MUT) | CB | {"nodefer"}, 3, wa=2, wb=3, data=("a", "aCL"), nsel=(1, 9), sizes=(0,), cbmode=1)),
               ("C13_mc_def", ec.consts((SMALL if q else MUT) | CB | {"loop"}, 3, wa=2, wb=3, data=("a", "aCL"), nsel=(1, 9), sizes=(0,), cbmode=2))],
        "gen": gen,
        "need_ops": ["cbadd", "cbdel", "cbflag", "cbscript", "loop", "add", "drain", "rmbuf", "readln", "addbuf"],
        "need_hist": {
            # a scripted callback really re-entered: a call with >= 2 reports to the same callback
            "C13_exh_script_imm": lambda h: any(len(s["o"].get("cb", [])) >= 2 and s["a"] in ("add", "drain") for s in h) and any(s["a"] == "cbscript" for s in h),
            "C13_exh_script_def": lambda h: any(len(s["o"].get("cb", [])) >= 2 and s["a"] == "loop" for s in h) and any(s["a"] == "cbscript" for s in h),
            # remove_buffer from a multi-chain source taking at least the first chain but not everything, callback on the destination
            "C13_warm_moves": lambda h: [s["a"] for s in h[:3]] == ["add"] * 3 and h[3]["a"] == "cbadd" and h[3]["b"] == 2
            and h[4]["a"] == "rmbuf" and h[4]["b"] == 1 and h[4]["s"] == 2 and h[4]["n"] == 2 and len(h[4]["o"].get("cb", [])) == 1},
        "rule": "Up to 2 callbacks per buffer (2 buffers), added/removed/enabled/disabled (and NODEFER-flagged) at any point; "
                "every evbuffer_cb_info (orig_size, n_added, n_deleted) of every invocation, in invocation order, is compared "
                "with the specification after every call, for immediate delivery and for deferred delivery through a real "
                "event_base (event_base_loop(NONBLOCK) as the 'loop' call); each report must also satisfy "
                "orig+added-deleted = evbuffer_get_length at that moment. TLC decides LedgerExact / NothingPending / "
                "DisabledSilent / LoopFlushes / ReportConsistent on the bounded model.",
        "assumptions": ["a callback that modifies its buffer from inside (scripts drainall / adda, one invocation per arming) is the last one "
                        "in invocation order; callbacks never change the callback list or another buffer from inside",
                        "EVBUFFER_CB_NODEFER (internal flag value 2) is set through evbuffer_cb_set_flags"],
    }
    return ec.standard_run("C13", tier, seed, plan)
