"""Shared machinery for the Bev-based checks (C17 C18 C19 C20): specs/Bev.tla + harness/bev_drv.c."""
import json, os
import vkit

ALL_INV = ["TypeOK", "Conserved", "EofAfterAllData", "EofAtMostOnce", "ReadCbOnlyAboveLow", "InputNeverAboveHigh",
           "NoStall", "NothingAfterFree", "ConnectedOnceAndFirst", "TimeoutOnlyIfDue", "TimerIff", "TimerNotLate"]


def consts(kind, acts, D, *, sizes=(1, 2, 3), wms=((0, 0), (1, 2), (2, 2), (2, 1), (0, 1)), durs=(0, 1, 2),
           drains=(0, 1, 99), extras=("none",), defer=False, filtfn="id", maxcb=8, tend=5, rdcap=4096, wrcap=16384,
           conn="none", allow=(), xkinds=("r", "e"), script_until=2):
    return {"Kind": kind, "Acts": set(acts), "Sizes": set(sizes), "WMs": set(10 * w[0] + w[1] for w in wms),
            "Durs": set(durs), "D": D, "Drains": set(drains), "Extras": set(extras), "XKinds": set(xkinds), "ScriptUntil": script_until, "Defer": bool(defer),
            "FiltFn": filtfn, "MaxCb": maxcb, "TEnd": tend, "RdCap": rdcap, "WrCap": wrcap, "Conn": conn,
            "Allow": set(allow)}


def tla_val(v):
    if isinstance(v, tuple):
        return "<<" + ", ".join(tla_val(x) for x in v) + ">>"
    if isinstance(v, (set, frozenset)):
        return "{" + ", ".join(sorted(tla_val(x) for x in v)) + "}"
    return vkit.tla_val(v)


def write_cfg(name, c, *, invariants=(), constraint="GenConstraint", view=None):
    """vkit.write_cfg cannot print sets of tuples; same format otherwise."""
    d = os.path.join(vkit.OUT, "cfg")
    os.makedirs(d, exist_ok=True)
    p = os.path.join(d, name + ".cfg")
    L = ["CONSTANTS"] + ["  %s = %s" % (k, tla_val(v)) for k, v in c.items()] + ["INIT Init", "NEXT Next"]
    if constraint:
        L.append("CONSTRAINT " + constraint)
    if view:
        L.append("VIEW " + view)
    L += ["INVARIANT " + i for i in invariants] + ["CHECK_DEADLOCK FALSE"]
    with open(p, "w") as f:
        f.write("\n".join(L) + "\n")
    return p


def drv_cfg(c, *, unit=1, tick_ns=1000, tcp=0):
    return {"kind": c["Kind"], "unit": unit, "tick_ns": tick_ns, "maxcb": c["MaxCb"], "defer": int(c["Defer"]),
            "filtfn": c["FiltFn"], "conn": c["Conn"], "tcp": tcp}


def strip_obs(h):
    return [{k: v for k, v in s.items() if k != "o"} for s in h]


def model_check(chk, name, c, *, invariants=ALL_INV, timeout=1500, workers=None):
    """Decide the invariants on the bounded state graph (VIEW hides hist)."""
    cfg = write_cfg(name, c, invariants=invariants, view="StateView")
    res = vkit.tlc("Bev", cfg, want_prints=False, timeout=timeout, coverage=True, workers=workers)
    chk.add_tlc(name, res)
    return res


def generate(chk, name, c, *, simulate=None, depth=60, seed=None, invariants=ALL_INV, timeout=1200, max_hist=None,
             workers=None):
    cfg = write_cfg(name, c, invariants=list(invariants) + ["Emit"])
    hists, seen = [], set()

    def sink(v):
        k = hash(json.dumps(strip_obs(v), sort_keys=True))
        if k in seen:
            return
        seen.add(k)
        if max_hist is None or len(hists) < max_hist:
            hists.append(v)
    res = vkit.tlc("Bev", cfg, simulate=simulate, depth=depth if simulate else None, seed=seed, print_sink=sink,
                   timeout=timeout, workers=workers or (8 if simulate else vkit.NCPU))
    chk.add_tlc(name, res)
    return hists


# ---- projections: what each property fixes ---------------------------------------------------------
def _cb(e, keys):
    return {k: e[k] for k in keys if k in e}


def project(h, pid):
    """Reduce the predicted observations to what property `pid` fixes (everything else is left open)."""
    out = []
    for s in h:
        o = s["o"]
        if pid == "C17":      # bytes consumed + their content, buffer contents, EOF/error events in callback order
            cb = [_cb(e, ("e", "k", "f", "il", "d", "dead")) for e in o["cb"]]
            ep = [_cb(x, ("il", "ol", "rd", "bad", "w")) for x in o["ep"]]
        elif pid == "C18":    # every callback with the buffer lengths and watermarks it saw; input lengths
            cb = [_cb(e, ("e", "k", "il", "ol", "rl", "rh", "wl", "d")) for e in o["cb"]]
            ep = [_cb(x, ("il", "ol", "rd", "bad")) for x in o["ep"]]
        elif pid == "C19":    # the exact sequence of user callbacks with flags; enabled state
            cb = [_cb(e, ("e", "k", "f", "x", "dead")) for e in o["cb"]]
            ep = [_cb(x, ("il", "ol", "en")) for x in o["ep"]]
        else:                 # C20: event callbacks with virtual time stamps; enabled directions
            cb = [_cb(e, ("e", "k", "f", "t")) for e in o["cb"] if e["k"] == "e"]
            ep = [_cb(x, ("en",)) for x in o["ep"]]
            s2 = dict(s)
            s2["o"] = {"cbe": cb, "ep": ep, "now": o["now"]}
            out.append(s2)
            continue
        s2 = dict(s)
        s2["o"] = {"r": o["r"], "cb": cb, "ep": ep}
        out.append(s2)
    return out


def adapt_actual(outs, pid):
    """C20 compares only the event callbacks: give the driver output the same shape."""
    if pid != "C20":
        return outs
    res = []
    for o in outs:
        if not isinstance(o, dict) or "obs" not in o:
            res.append(o); continue
        res.append({"obs": [dict(x, cbe=[e for e in x.get("cb", []) if e.get("k") == "e"]) for x in o["obs"]],
                    "err": o.get("err")})
    return res


def replay(chk, exe, hists, c, pid, *, units=(1,), ticks=(1000,), tcp=0, label="", limit_fail=4, key_fn=None):
    exp = project_all(hists, pid)
    nfail = 0
    for unit in units:
        for tick in ticks:
            dc = drv_cfg(c, unit=unit, tick_ns=tick, tcp=tcp)
            outs = vkit.run_driver(exe, [{"cfg": dc, "h": h} for h in hists])
            fails = vkit.compare_histories(exp, adapt_actual(outs, pid))
            chk.cov["traces_validated_against_impl"] += len(hists)
            for (i, k, msg) in fails[:limit_fail]:
                key = key_fn(hists[i], k, msg) if key_fn else None
                chk.violation("%s unit=%d tick=%dns scenario %d step %d: %s" % (label, unit, tick, i, k, msg),
                              {"cfg": dc, "h": hists[i], "fail_step": k, "msg": msg, "actual": outs[i]}, key=key)
            nfail += len(fails)
            if fails:
                vkit.log("[replay] %s unit=%d tick=%d: %d/%d failed; first: scenario %d step %d %s" % (
                    label, unit, tick, len(fails), len(hists), fails[0][0], fails[0][1], fails[0][2][:400]))
    return nfail


def project_all(hists, pid):
    return [project(h, pid) for h in hists]


def op_histogram(hists):
    d = {}
    for h in hists:
        for s in h:
            k = s["a"]
            d[k] = d.get(k, 0) + 1
            for cb in s["o"].get("cb", []):
                kk = "cb:" + cb["k"] + (":f%d" % cb["f"] if cb["k"] == "e" else "")
                d[kk] = d.get(kk, 0) + 1
                if cb.get("x") == 9:
                    d["cb:guard"] = d.get("cb:guard", 0) + 1
    return d


def nontrivial(h):
    return sum(1 for s in h if s["a"] not in ("script",)) >= 2 and any(s["o"].get("cb") for s in h)


def standard_run(pid, tier, seed, plan):
    """plan: mc=[(name, consts, invariants)], gen=[dict(name, consts, simulate, depth, units, ticks, tcp, max_hist)],
    need=[histogram keys], need_actions=[...], rule, assumptions, known=[dict(name, consts, key, ...)]"""
    chk = vkit.Check(pid, tier, seed)
    exe = vkit.cc("bev_drv", ["bev_drv.c"], vclock=True)
    for name, c, invs in plan.get("mc", []):
        res = model_check(chk, name, c, invariants=invs)
        chk.check_coverage(res, plan.get("need_actions", ["Api", "Closing"]), name)
    total = {}
    for g in plan["gen"]:
        hs = generate(chk, g["name"], g["consts"], simulate=g.get("simulate"), depth=g.get("depth", 60),
                      seed=seed if g.get("simulate") else None, max_hist=g.get("max_hist"),
                      invariants=g.get("invariants", ALL_INV))
        if not hs:
            raise vkit.InfraError("generator %s produced no histories" % g["name"])
        for h in hs:
            chk.count_case(strip_obs(h), nontrivial(h))
        for h in hs[-1:]:
            chk.sample({"gen": g["name"], "history": strip_obs(h), "predicted": project(h, pid)[-2]["o"]})
        for k, v in op_histogram(hs).items():
            total[k] = total.get(k, 0) + v
        replay(chk, exe, hs, g["consts"], pid, units=g.get("units", (1,)), ticks=g.get("ticks", (1000,)),
               tcp=g.get("tcp", 0), label=g["name"])
    # canonical scenarios of open known findings: expected to fail; a pass means the finding is gone
    for kf in plan.get("known", []):
        hs = generate(chk, kf["name"], kf["consts"], simulate=kf.get("simulate"), depth=kf.get("depth", 60), seed=seed,
                      max_hist=kf.get("max_hist", 200), invariants=kf.get("invariants", ()))
        hs = [h for h in hs if kf["select"](h)][:kf.get("take", 20)]
        if not hs:
            raise vkit.InfraError("no canonical scenario generated for known finding %s" % kf["key"])
        n = replay(chk, exe, hs, kf["consts"], pid, label=kf["name"], key_fn=lambda h, k, m, _k=kf["key"]: _k)
        chk.cov.setdefault("known_finding_scenarios", {})[kf["key"]] = {"run": len(hs), "failing": n}
    chk.cov["op_histogram"] = total
    missing = [o for o in plan.get("need", []) if total.get(o, 0) == 0]
    if missing:
        raise vkit.InfraError("vacuous scenario corpus: never generated: %s" % missing)
    chk.cov["rule"] = plan.get("rule", "")
    chk.assumptions += plan.get("assumptions", [])
    return chk.finish()
