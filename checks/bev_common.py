"""Shared machinery for the Bev-based checks (C17 C18 C19 C20): specs/Bev.tla + harness/bev_drv.c."""
import json, os
import vkit

ALL_INV = ["TypeOK", "FilterRespectsUnderlyingHigh", "Conserved", "EofAfterAllData", "EofAtMostOnce", "ReadCbOnlyAboveLow", "InputNeverAboveHigh",
           "NoStall", "NothingAfterFree", "ConnectedOnceAndFirst", "TimeoutOnlyIfDue", "TimerIff", "TimerNotLate"]


def consts(kind, acts, D, *, sizes=(1, 2, 3), wms=((0, 0), (1, 2), (2, 2), (2, 1), (0, 1)), durs=(0, 1, 2),
           drains=(0, 1, 99), extras=("none",), defer=False, filtfn="id", maxcb=8, tend=5, rdcap=16384, wrcap=16384,
           conn="none", allow=(), xkinds=("r", "e"), script_until=2, oneway=False, wirecap=40, stall=False):
    return {"Kind": kind, "Acts": set(acts), "Sizes": set(sizes), "WMs": set(10 * w[0] + w[1] for w in wms),
            "Durs": set(durs), "D": D, "Drains": set(drains), "Extras": set(extras), "XKinds": set(xkinds), "ScriptUntil": script_until, "Defer": bool(defer),
            "FiltFn": filtfn, "MaxCb": maxcb, "TEnd": tend, "RdCap": rdcap, "WrCap": wrcap, "Conn": conn,
            "Allow": set(allow), "OneWay": bool(oneway), "WireCap": wirecap, "Stall": bool(stall)}


def tla_val(v):
    if isinstance(v, tuple):
        return "<<" + ", ".join(tla_val(x) for x in v) + ">>"
    if isinstance(v, (set, frozenset)):
        return "{" + ", ".join(sorted(tla_val(x) for x in v)) + "}"
    return vkit.tla_val(v)


def write_cfg(name, c, *, invariants=(), constraint="GenConstraint", view=None):
    """vkit.write_cfg cannot print sets of tuples; same format otherwise."""
    d = os.path.join(vkit.OUT, "cfg")
    os.makedirs(d, exist_ok=True)
    p = os.path.join(d, name + ".cfg")
    L = ["CONSTANTS"] + ["  %s = %s" % (k, tla_val(v)) for k, v in c.items()] + ["INIT Init", "NEXT Next"]
    if constraint:
        L.append("CONSTRAINT " + constraint)
    if view:
        L.append("VIEW " + view)
    L += ["INVARIANT " + i for i in invariants] + ["CHECK_DEADLOCK FALSE"]
    with open(p, "w") as f:
        f.write("\n".join(L) + "\n")
    return p


def drv_cfg(c, *, unit=1, tick_ns=1000, tcp=0):
    return {"kind": c["Kind"], "unit": unit, "tick_ns": tick_ns, "maxcb": c["MaxCb"], "defer": int(c["Defer"]),
            "filtfn": c["FiltFn"], "conn": c["Conn"], "tcp": tcp}


def strip_obs(h):
    return [{k: v for k, v in s.items() if k != "o"} for s in h]


def model_check(chk, name, c, *, invariants=ALL_INV, timeout=1500, workers=None):
    """Decide the invariants on the bounded state graph (VIEW hides hist)."""
    cfg = write_cfg(name, c, invariants=invariants, view="StateView")
    cap = int(os.environ.get("BEV_WORKERS", "0") or 0)
    res = vkit.tlc("Bev", cfg, want_prints=False, timeout=timeout, coverage=False, workers=workers or (cap or None))
    vkit.log("[mc] %s: %d distinct states, %.1fs" % (name, res.distinct, res.wall))
    chk.add_tlc(name, res)
    return res


def generate(chk, name, c, *, simulate=None, depth=60, seed=None, invariants=ALL_INV, timeout=1200, max_hist=None,
             workers=None):
    cfg = write_cfg(name, c, invariants=list(invariants) + ["Emit"])
    hists, seen = [], set()

    def sink(v):
        k = hash(json.dumps(strip_obs(v), sort_keys=True))
        if k in seen:
            return
        seen.add(k)
        if max_hist is None or len(hists) < max_hist:
            hists.append(v)
    cap = int(os.environ.get("BEV_WORKERS", "0") or 0)
    w = workers or (8 if simulate else min(vkit.NCPU, 8))      # simulate=N is per worker: w workers -> w*N histories
    res = vkit.tlc("Bev", cfg, simulate=simulate, depth=depth if simulate else None, seed=seed, print_sink=sink,
                   timeout=timeout, workers=min(w, cap) if cap and not simulate else w)
    vkit.log("[gen] %s: %d histories, %d states, %.1fs" % (name, len(hists), res.generated, res.wall))
    chk.add_tlc(name, res)
    return hists


def tla_rec(op):
    return "[" + ", ".join("%s |-> %s" % (k, ('"%s"' % v) if isinstance(v, str) else str(v)) for k, v in op.items()) + "]"


def generate_directed(chk, name, c, scripts, *, invariants=ALL_INV, timeout=600):
    """Directed family: TLC follows exactly the given op scripts (Forced <- ForcedScripts in a generated module that
    EXTENDS Bev) and still predicts every observation; returns one history per script (+ closing loop steps)."""
    import shutil
    d = os.path.join(vkit.OUT, "tmp", "bevdir_%s_%d" % (name, os.getpid()))
    shutil.rmtree(d, ignore_errors=True)
    os.makedirs(d)
    shutil.copy(os.path.join(vkit.SPECS, "Bev.tla"), os.path.join(d, "Bev.tla"))
    body = ",\n  ".join("<<" + ", ".join(tla_rec(op) for op in sc) + ">>" for sc in scripts)
    with open(os.path.join(d, "BevDir.tla"), "w") as f:
        f.write("---- MODULE BevDir ----\nEXTENDS Bev\nForcedScripts == <<\n  %s >>\n====\n" % body)
    cfg = os.path.join(d, "BevDir.cfg")
    L = ["CONSTANTS"] + ["  %s = %s" % (k, tla_val(v)) for k, v in c.items()] + ["  Forced <- ForcedScripts",
         "INIT Init", "NEXT Next", "CONSTRAINT GenConstraint"] + ["INVARIANT " + i for i in list(invariants) + ["Emit"]] + \
        ["CHECK_DEADLOCK FALSE"]
    open(cfg, "w").write("\n".join(L) + "\n")
    hists = []
    try:
        res = vkit.tlc(os.path.join(d, "BevDir.tla"), cfg, print_sink=hists.append, timeout=timeout, workers=2)
    finally:
        shutil.rmtree(d, ignore_errors=True)
    vkit.log("[gen] %s: %d directed histories of %d scripts, %d states, %.1fs" % (name, len(hists), len(scripts), res.generated, res.wall))
    chk.add_tlc(name, res)
    if len(hists) != len(scripts):
        raise vkit.InfraError("directed family %s: %d scripts but %d histories (a script is not a behaviour of the "
                              "specification, or meets an excluded trigger)" % (name, len(scripts), len(hists)))
    return hists


def sock_highmark_family():
    """Socket, reader = endpoint 2: L units are buffered unread, then the read high watermark is set to L-1 / L / L+1,
    then the peer writes more (no EOF while the peer is open; suspended at == high; resumes after a drain)."""
    out = []
    for dr in (0, 1):
        for L in (1, 2):
            for hi in (L - 1, L, L + 1):
                for lo in (0, 1):
                    for n in (1, 3):
                        if lo == 0 and hi == 0:
                            continue        # setting the watermarks a bufferevent already has is not a step
                        sc = [{"a": "script", "e": 2, "dr": dr, "xa": "none", "xk": "r"}] if dr else []
                        sc += [{"a": "enable", "e": 2, "m": 2}, {"a": "write", "e": 1, "n": L + dr},
                               {"a": "loop", "e": 1, "t": 0}, {"a": "loop", "e": 2, "t": 0},
                               {"a": "wm", "e": 2, "m": 2, "lo": lo, "hi": hi}, {"a": "write", "e": 1, "n": n},
                               {"a": "loop", "e": 1, "t": 0}, {"a": "loop", "e": 2, "t": 0}]
                        out.append(sc)
    return out


def wm_reset_family(kind):
    """Reader = endpoint 2: read high watermark set to H, cleared, set to H again; the peer writes more than H; the
    application drains from OUTSIDE the read callback; reading must resume as soon as it is below the mark."""
    out = []
    lp = (lambda: [{"a": "loop", "e": 1, "t": 0}]) if kind == "pair" else \
         (lambda: [{"a": "loop", "e": 1, "t": 0}, {"a": "loop", "e": 2, "t": 0}])
    wm = lambda hi: {"a": "wm", "e": 2, "m": 2, "lo": 0, "hi": hi}
    for H in (1, 2):
        for k in (1, 99):
            for first in (0, 1):
                for again in (1, 0):        # again = 0: the watermark is set only once (control)
                    wms = [wm(H), wm(0), wm(H)] if again else [wm(H)]
                    en = [{"a": "enable", "e": 2, "m": 2}]
                    # no callbacks on the reader: a read callback that does not drain is re-run by
                    # bufferevent_inbuf_wm_check for as long as the input is at the mark
                    sc = [{"a": "clr", "e": 2}] + (en + wms if first else wms + en) + [{"a": "write", "e": 1, "n": H + 2}] + lp() + \
                         [{"a": "read", "e": 2, "n": k}] + lp() + [{"a": "read", "e": 2, "n": 99}] + lp()
                    out.append(sc)
    return out


def conn_deferred_family():
    """Deferred client socket (endpoint 1) connecting to a listener whose accepted end (2) has already sent / hung up when
    the client's loop first runs: CONNECTED first, then read / write callbacks, then EOF, nothing lost; plus two
    bufferevent_trigger_event(DEFER) calls with different flags before one loop: both flags are delivered."""
    L1, L2 = {"a": "loop", "e": 1, "t": 0}, {"a": "loop", "e": 2, "t": 0}
    con, enr, w1 = {"a": "connect", "e": 1, "ok": 1}, {"a": "enable", "e": 1, "m": 2}, {"a": "write", "e": 1, "n": 1}
    shut = {"a": "shut", "e": 2}
    out = [[con, w1, enr, shut, L1, L2], [con, enr, w1, shut, L1, L2], [con, enr, shut, L1], [con, w1, shut, enr, L1],
           [con, enr, {"a": "write", "e": 2, "n": 2}, L2, shut, L1], [con, w1, enr, {"a": "write", "e": 2, "n": 1}, L2, shut, L1, L2]]
    for f1, f2 in ((65, 66), (66, 65), (33, 66), (65, 34)):
        out.append([con, L1, {"a": "trig", "e": 1, "f": f1}, {"a": "trig", "e": 1, "f": f2}, L1])
        out.append([con, {"a": "trig", "e": 1, "f": f1}, {"a": "trig", "e": 1, "f": f2}, L1])   # joins CONNECTED as well
    return out


def free_break_family(kind):
    """A bufferevent with deferred callbacks is released from inside its own callback, which also calls
    event_base_loopbreak (the finalizer stays pending); then event_base_free: every finalizer (the filter's free_context)
    runs exactly once, no callback afterwards; ASan watches the releases."""
    me, peer = (3, 2) if kind == "filt" else (1, 2)
    lp = (lambda: [{"a": "loop", "e": 1, "t": 0}]) if kind != "sock" else \
         (lambda: [{"a": "loop", "e": 2, "t": 0}, {"a": "loop", "e": 1, "t": 0}])
    bf = [{"a": "basefree"}]
    sc = lambda xk, dr=0: {"a": "script", "e": me, "dr": dr, "xa": "freebrk", "xk": xk}
    out = [
        [sc("r"), {"a": "enable", "e": me, "m": 2}, {"a": "write", "e": peer, "n": 1}] + lp() + bf,
        [sc("r", 99), {"a": "enable", "e": me, "m": 2}, {"a": "write", "e": peer, "n": 2}] + lp() + lp() + bf,
        [sc("w"), {"a": "enable", "e": peer, "m": 2}, {"a": "write", "e": me, "n": 1}] + lp()[::-1] + bf,
        [sc("r"), {"a": "enable", "e": me, "m": 2}, {"a": "write", "e": peer, "n": 1}, {"a": "write", "e": me, "n": 1}] + lp() + bf,
        [{"a": "write", "e": peer, "n": 1}] + lp() + bf,                       # nothing released before the base goes
    ]
    if kind != "sock":
        out.append([sc("e"), {"a": "flush", "e": peer, "m": 4, "md": 2}] + lp() + bf)
    return out


def flush_survivor_family():
    """Pair whose partner is already freed: bufferevent_flush(survivor, READ|WRITE, any mode) returns -1 and must not keep
    a reference: free(survivor) + event_base_free finalize it, observable as the cleanup of a chunk that was added to its
    output by reference running exactly once (rc in the last observation)."""
    out = []
    lp = {"a": "loop", "e": 1, "t": 0}
    for sv in (1, 2):
        pt = 3 - sv
        wr = {"a": "writeref", "e": sv, "n": 1}
        for md in (0, 1, 2):
            fl = {"a": "flush", "e": sv, "m": 6, "md": md}
            out.append([wr, {"a": "free", "e": pt}, lp, fl, {"a": "free", "e": sv}, lp, {"a": "basefree"}])
            out.append([{"a": "free", "e": pt}, lp, wr, fl, fl, {"a": "free", "e": sv}, {"a": "basefree"}])
        out.append([wr, {"a": "free", "e": pt}, lp, {"a": "free", "e": sv}, lp, {"a": "basefree"}])          # control
        out.append([wr, {"a": "enable", "e": pt, "m": 2}, lp, {"a": "basefree"}])                       # chunk travels to the partner
    return out


def conn_refused_family():
    """Refused connect -> ERROR; then the application re-arms writing on the same bufferevent: no CONNECTED may follow,
    the failed write is one ERROR|WRITING."""
    L1 = {"a": "loop", "e": 1, "t": 0}
    con, enw, w1 = {"a": "connect", "e": 1, "ok": 0}, {"a": "enable", "e": 1, "m": 4}, {"a": "write", "e": 1, "n": 1}
    return [[con, L1, enw, w1, L1], [con, L1, w1, enw, L1], [con, L1, enw, L1, w1, enw, L1], [con, L1, enw, w1, L1, L1]]


def pair_tmo_suspended_family(kind="pair"):
    """Reader with read high watermark H (low watermark above it, so no read callback runs) receives H units and is
    suspended; set_timeouts(read=T) DURING the suspension; T passes: no timeout; after the application drains (outside a
    callback) the interval starts: exactly one timeout T later."""
    out = []
    rd, wr = (2, 1) if kind == "pair" else (3, 2)
    lp = lambda t: {"a": "loop", "e": 1, "t": t}
    for H in (1, 2):
        for T in (1, 2):
            pre = [{"a": "wm", "e": rd, "m": 2, "lo": 3, "hi": H}, {"a": "enable", "e": rd, "m": 2}, {"a": "write", "e": wr, "n": H}]
            if kind != "pair":
                pre.append(lp(0))
            out.append(pre + [{"a": "tmo", "e": rd, "tr": T, "tw": 0}, lp(T), lp(1), {"a": "read", "e": rd, "n": 99}, lp(T - 1) if T > 1 else lp(0), lp(1), lp(T)])
            out.append(pre + [{"a": "tmo", "e": rd, "tr": T, "tw": 0}, lp(T + 1), {"a": "read", "e": rd, "n": 99}, lp(T)])
    return out


def sock_stall_family():
    """Socket writer (endpoint 1) with write timeout T, peer never reads, more queued than the kernel buffers hold (unit =
    256 KB): the first loop writes what fits, then nothing moves; the application keeps appending at intervals < T:
    TIMEOUT|WRITING fires T after the last successful transfer regardless of the appends."""
    out = []
    lp = lambda t: {"a": "loop", "e": 1, "t": t}
    w = lambda n: {"a": "write", "e": 1, "n": n}
    for T in (2, 3):
        out.append([{"a": "tmo", "e": 1, "tr": 0, "tw": T}, w(4), lp(0), lp(1), w(1), lp(1), w(1), lp(1), w(1), lp(1)])
        out.append([w(4), {"a": "tmo", "e": 1, "tr": 0, "tw": T}, lp(0), w(1), lp(1), w(1), lp(1), w(1), lp(1), lp(1)])
        out.append([{"a": "tmo", "e": 1, "tr": 0, "tw": T}, w(4), lp(0), lp(T - 1), w(1), lp(T - 1), w(1), lp(T - 1)])
    return out


def filt_under_high_family():
    """Filter (endpoint 3) over pair endpoint 1 whose partner does not read: the underlying write high watermark is W,
    the application writes more than W units: in normal mode the underlying output never exceeds W."""
    out = []
    for W in (1, 2, 3):
        for n in (W + 1, W + 2):
            out.append([{"a": "wm", "e": 1, "m": 4, "lo": 0, "hi": W}, {"a": "write", "e": 3, "n": n}, {"a": "loop", "e": 1, "t": 0},
                        {"a": "write", "e": 3, "n": 1}, {"a": "enable", "e": 2, "m": 2}, {"a": "loop", "e": 1, "t": 0}])
            out.append([{"a": "write", "e": 3, "n": 1}, {"a": "wm", "e": 1, "m": 4, "lo": 0, "hi": W}, {"a": "write", "e": 3, "n": n},
                        {"a": "loop", "e": 1, "t": 0}])
    return out


# ---- projections: what each property fixes ---------------------------------------------------------
def _cb(e, keys):
    return {k: e[k] for k in keys if k in e}


def project(h, pid):
    """Reduce the predicted observations to what property `pid` fixes (everything else is left open)."""
    out = []
    for s in h:
        o = s["o"]
        if pid == "C17":      # bytes consumed + their content, buffer contents, EOF/error events in callback order
            cb = [_cb(e, ("e", "k", "f", "il", "d", "dead")) for e in o["cb"]]
            ep = [_cb(x, ("il", "ol", "rd", "bad", "w")) for x in o["ep"]]
        elif pid == "C18":    # every callback with the buffer lengths and watermarks it saw; input lengths
            cb = [_cb(e, ("e", "k", "il", "ol", "rl", "rh", "wl", "d")) for e in o["cb"]]
            ep = [_cb(x, ("il", "ol", "rd", "bad")) for x in o["ep"]]
        elif pid == "C19":    # the exact sequence of user callbacks with flags; enabled state
            cb = [_cb(e, ("e", "k", "f", "x", "dead")) for e in o["cb"]]
            ep = [_cb(x, ("il", "ol", "en")) for x in o["ep"]]
        else:                 # C20: event callbacks with virtual time stamps; enabled directions
            cb = [_cb(e, ("e", "k", "f", "t")) for e in o["cb"] if e["k"] == "e"]
            ep = [_cb(x, ("en",)) for x in o["ep"]]
            s2 = dict(s)
            s2["o"] = {"cbe": cb, "ep": ep, "now": o["now"]}
            out.append(s2)
            continue
        s2 = dict(s)
        s2["o"] = {"r": o["r"], "cb": cb, "ep": ep}
        for k in ("fc", "rc"):
            if k in o:
                s2["o"][k] = o[k]
        out.append(s2)
    return out


def adapt_actual(outs, pid):
    """C20 compares only the event callbacks: give the driver output the same shape."""
    if pid != "C20":
        return outs
    res = []
    for o in outs:
        if not isinstance(o, dict) or "obs" not in o:
            res.append(o); continue
        res.append({"obs": [dict(x, cbe=[e for e in x.get("cb", []) if e.get("k") == "e"]) for x in o["obs"]],
                    "err": o.get("err")})
    return res


def replay(chk, exe, hists, c, pid, *, units=(1,), ticks=(1000,), tcp=0, label="", limit_fail=4, key_fn=None):
    exp = project_all(hists, pid)
    nfail = 0
    for unit in units:
        for tick in ticks:
            dc = drv_cfg(c, unit=unit, tick_ns=tick, tcp=tcp)
            outs = vkit.run_driver(exe, [{"cfg": dc, "h": for_driver(h)} for h in hists])
            fails = vkit.compare_histories(exp, adapt_actual(outs, pid))
            chk.cov["traces_validated_against_impl"] += len(hists)
            for (i, k, msg) in fails[:limit_fail]:
                key = key_fn(hists[i], k, msg) if key_fn else None
                chk.violation("%s unit=%d tick=%dns scenario %d step %d: %s" % (label, unit, tick, i, k, msg),
                              {"cfg": dc, "h": hists[i], "fail_step": k, "msg": msg, "actual": outs[i]}, key=key)
            nfail += len(fails)
            if fails:
                vkit.log("[replay] %s unit=%d tick=%d: %d/%d failed; first: scenario %d step %d %s" % (
                    label, unit, tick, len(fails), len(hists), fails[0][0], fails[0][1], fails[0][2][:400]))
    return nfail


def project_all(hists, pid):
    return [project(h, pid) for h in hists]


def op_histogram(hists):
    d = {}
    for h in hists:
        for s in h:
            k = s["a"]
            d[k] = d.get(k, 0) + 1
            for cb in s["o"].get("cb", []):
                kk = "cb:" + cb["k"] + (":f%d" % cb["f"] if cb["k"] == "e" else "")
                d[kk] = d.get(kk, 0) + 1
                if cb.get("x") == 9:
                    d["cb:guard"] = d.get("cb:guard", 0) + 1
    return d


def nontrivial(h):
    return sum(1 for s in h if s["a"] not in ("script",)) >= 2 and any(s["o"].get("cb") for s in h)


def for_driver(h):
    """The driver only needs the ops (plus, for TCP, the expected bytes on the wire to wait for delivery)."""
    out = []
    for s in h:
        d = {k: v for k, v in s.items() if k not in ("o", "kf")}
        if "o" in s and "ep" in s["o"]:
            d["o"] = {"ep": [{"w": x.get("w", 0)} if isinstance(x, dict) else {} for x in s["o"]["ep"]]}
        out.append(d)
    return out


def strip_all(h):
    return [{k: v for k, v in s.items() if k not in ("o", "kf")} for s in h]


def run_monitor(chk, monitor, hists, outs, dc, label, key=None):
    """Direct property monitors on the ACTUAL observations (independent of the model's prediction)."""
    n = 0
    if not monitor:
        return 0
    for i, (h, o) in enumerate(zip(hists, outs)):
        if not isinstance(o, dict) or "obs" not in o:
            continue
        for (k, msg) in monitor(h, o["obs"])[:1]:
            n += 1
            if n <= 4:
                chk.violation("%s monitor scenario %d step %d: %s" % (label, i, k, msg),
                              {"cfg": dc, "h": h, "fail_step": k, "msg": msg, "actual": o}, key=key)
    return n


def standard_run(pid, tier, seed, plan):
    """plan: mc=[(name, consts, invariants)], gen=[dict(name, consts, simulate, depth, units, ticks, tcp, max_hist)],
    need=[histogram keys], monitor=fn(h, actual_obs)->[(step,msg)], rule, assumptions,
    known=[dict(name, consts, key, simulate, take)] canonical scenarios of open known findings"""
    chk = vkit.Check(pid, tier, seed)
    exe = vkit.cc("bev_drv", ["bev_drv.c"], vclock=True)
    mon_of = lambda c: plan.get("monitor_by_kind", {}).get(c["Kind"]) or plan.get("monitor")
    for name, c, invs in plan.get("mc", []):
        res = model_check(chk, name, c, invariants=invs)
        if res.distinct < 1000 or res.depth < 4:      # vacuity guard (TLC's -coverage costs a factor of 10 here)
            raise vkit.InfraError("model run %s explored only %d states to depth %d" % (name, res.distinct, res.depth))
    total = {}
    for g in plan["gen"]:
        hs = generate_directed(chk, g["name"], g["consts"], g["scripts"], invariants=g.get("invariants", ALL_INV)) \
            if g.get("scripts") else \
            generate(chk, g["name"], g["consts"], simulate=g.get("simulate"), depth=g.get("depth", 40),
                      seed=seed if g.get("simulate") else None, max_hist=g.get("max_hist"),
                      invariants=g.get("invariants", ALL_INV),
                      workers=g.get("workers") or ((4 if tier == "quick" else 8) if g.get("simulate") else None))
        if not hs:
            raise vkit.InfraError("generator %s produced no histories" % g["name"])
        if g.get("known_keys"):
            # the generator admits known-finding triggers (Allow): histories that met one are the canonical
            # scenarios of that finding (expected to fail, reported under its key), the rest is general corpus
            kn = [h for h in hs if h[-1].get("kf", 0) > 0]
            hs = [h for h in hs if h[-1].get("kf", 0) == 0]
            dc = drv_cfg(g["consts"])
            for bit, key in g["known_keys"].items():
                sel = [h for h in kn if h[-1]["kf"] == bit][:g.get("take", 8)]
                if not sel:
                    raise vkit.InfraError("no canonical scenario generated for known finding %s" % key)
                outs = vkit.run_driver(exe, [{"cfg": dc, "h": for_driver(h)} for h in sel])
                fails = vkit.compare_histories(project_all(sel, pid), adapt_actual(outs, pid))
                for (i, k, msg) in fails[:2]:
                    chk.violation("%s scenario %d step %d: %s" % (key, i, k, msg),
                                  {"cfg": dc, "h": sel[i], "fail_step": k, "msg": msg, "actual": outs[i]}, key=key)
                nm = run_monitor(chk, mon_of(g["consts"]), sel, outs, dc, g["name"], key=key)
                chk.cov["traces_validated_against_impl"] += len(sel)
                chk.cov.setdefault("known_finding_scenarios", {})[key] = {"run": len(sel), "model_mismatch": len(fails),
                                                                         "monitor_flagged": nm}
            if not hs:
                raise vkit.InfraError("generator %s produced no general histories" % g["name"])
        if g.get("sample", 1) > 1:       # replay every k-th history of a large exhaustive family
            hs = hs[::g["sample"]]
        for h in hs:
            chk.count_case(strip_all(h), nontrivial(h))
        for h in hs[-1:]:
            chk.sample({"gen": g["name"], "history": strip_all(h), "predicted": project(h, pid)[-2]["o"]})
        for k, v in op_histogram(hs).items():
            total[k] = total.get(k, 0) + v
        exp = project_all(hs, pid)
        for unit in g.get("units", (1,)):
            for tick in g.get("ticks", (1000,)):
                dc = drv_cfg(g["consts"], unit=unit, tick_ns=tick, tcp=g.get("tcp", 0))
                outs = vkit.run_driver(exe, [{"cfg": dc, "h": for_driver(h)} for h in hs])
                fails = vkit.compare_histories(exp, adapt_actual(outs, pid))
                chk.cov["traces_validated_against_impl"] += len(hs)
                for (i, k, msg) in fails[:4]:
                    chk.violation("%s unit=%d tick=%dns scenario %d step %d: %s" % (g["name"], unit, tick, i, k, msg),
                                  {"cfg": dc, "h": hs[i], "fail_step": k, "msg": msg, "actual": outs[i]})
                if fails:
                    vkit.log("[replay] %s unit=%d tick=%d: %d/%d failed; first: scenario %d step %d %s" % (
                        g["name"], unit, tick, len(fails), len(hs), fails[0][0], fails[0][1], fails[0][2][:600]))
                nm = run_monitor(chk, mon_of(g["consts"]), hs, outs, dc, g["name"])
                if nm:
                    vkit.log("[monitor] %s unit=%d: %d scenarios flagged" % (g["name"], unit, nm))
    # canonical scenarios of open known findings: expected to fail; a pass means the finding is gone
    for kf in plan.get("known", []):
        hs = generate(chk, kf["name"], kf["consts"], simulate=kf.get("simulate"), depth=40, seed=seed,
                      invariants=("TypeOK",))
        hs = sorted([h for h in hs if h[-1].get("kf", 0) > 0], key=len)[:kf.get("take", 10)]
        if not hs:
            raise vkit.InfraError("no canonical scenario generated for known finding %s" % kf["key"])
        dc = drv_cfg(kf["consts"])
        outs = vkit.run_driver(exe, [{"cfg": dc, "h": for_driver(h)} for h in hs])
        fails = vkit.compare_histories(project_all(hs, pid), adapt_actual(outs, pid))
        for (i, k, msg) in fails[:2]:
            chk.violation("%s scenario %d step %d: %s" % (kf["name"], i, k, msg),
                          {"cfg": dc, "h": hs[i], "fail_step": k, "msg": msg, "actual": outs[i]}, key=kf["key"])
        nm = run_monitor(chk, mon_of(kf["consts"]), hs, outs, dc, kf["name"], key=kf["key"])
        chk.cov["traces_validated_against_impl"] += len(hs)
        chk.cov.setdefault("known_finding_scenarios", {})[kf["key"]] = {"run": len(hs), "model_mismatch": len(fails),
                                                                        "monitor_flagged": nm}
    # fixed canonical scenarios (no model prediction): only the direct monitor judges them
    for kf in plan.get("known_fixed", []):
        dc = drv_cfg(kf["consts"])
        outs = vkit.run_driver(exe, [{"cfg": dc, "h": kf["ops"]}])
        nm = run_monitor(chk, mon_of(kf["consts"]), [kf["ops"]], outs, dc, kf["name"], key=kf["key"])
        chk.cov["traces_validated_against_impl"] += 1
        chk.cov.setdefault("known_finding_scenarios", {})[kf["key"]] = {"run": 1, "monitor_flagged": nm}
    chk.cov["op_histogram"] = total
    missing = [o for o in plan.get("need", []) if total.get(o, 0) == 0]
    if missing:
        raise vkit.InfraError("vacuous scenario corpus: never generated: %s" % missing)
    chk.cov["rule"] = plan.get("rule", "")
    chk.assumptions += plan.get("assumptions", [])
    return chk.finish()


# ---- direct monitors ------------------------------------------------------------------------------
def far(kind, e):
    return (2 if e == 3 else 3) if kind == "filt" else 3 - e


def mon_c17(kind):
    def m(h, obs):
        out, eofs = [], {}
        for k, o in enumerate(obs):
            for i, x in enumerate(o["ep"]):
                if x.get("bad", 0) != 0:
                    out.append((k, "endpoint %d saw %d bytes that are not the next bytes of the numbered stream" % (i + 1, x["bad"])))
            for cb in o["cb"]:
                if cb["k"] == "e" and cb["f"] & 16:
                    eofs[cb["e"]] = eofs.get(cb["e"], 0) + 1
                    if eofs[cb["e"]] > 1:
                        out.append((k, "EOF reported twice to endpoint %d" % cb["e"]))
                    if cb["f"] & 1:
                        f = far(kind, cb["e"])
                        left = max(o["ep"][f - 1]["ol"], 0) + max(o["ep"][cb["e"] - 1].get("w", 0), 0)
                        if kind == "filt":
                            left += max(o["ep"][0]["il"], 0) if cb["e"] == 3 else max(o["ep"][0]["ol"], 0)
                        if left > 0:
                            out.append((k, "EOF reported to endpoint %d while %d units written before the shutdown are undelivered" % (cb["e"], left)))
        return out
    return m


def mon_c18(kind):
    def m(h, obs):
        out = []
        prev = None
        for k, (s, o) in enumerate(zip(h, obs)):
            for cb in o["cb"]:
                if cb["k"] == "r" and cb["il"] < cb["rl"]:
                    out.append((k, "read callback of endpoint %d ran with %d units buffered, low watermark %d" % (cb["e"], cb["il"], cb["rl"])))
                if cb["k"] == "r" and cb["rh"] > 0 and cb["il"] > cb["rh"] and s["a"] == "loop" and kind != "filt":
                    pass
            prev = o
        return out
    return m


def mon_c19(kind):
    def m(h, obs):
        out, conn, once = [], {}, {}
        for k, o in enumerate(obs):
            for cb in o["cb"]:
                e = cb["e"]
                if cb.get("dead"):
                    out.append((k, "callback %s of endpoint %d ran after bufferevent_free" % (cb["k"], e)))
                if cb["k"] == "e" and cb["f"] & 128:
                    conn[e] = conn.get(e, 0) + 1
                    if conn[e] > 1:
                        out.append((k, "CONNECTED reported twice to endpoint %d" % e))
                    if once.get((e, "io")):
                        out.append((k, "endpoint %d: read/write callback ran before BEV_EVENT_CONNECTED" % e))
                if cb["k"] in ("r", "w"):
                    once[(e, "io")] = True
                for bit, nm in ((16, "EOF"), (32, "ERROR")):
                    for dbit, dn in ((1, "reading"), (2, "writing")):
                        if cb["k"] == "e" and cb["f"] & bit and cb["f"] & dbit:
                            once[(e, nm, dn)] = once.get((e, nm, dn), 0) + 1
                            if once[(e, nm, dn)] > 1:
                                out.append((k, "%s/%s reported twice to endpoint %d" % (nm, dn, e)))
        return out
    return m


def mon_c20(kind):
    def m(h, obs):
        out = []
        en_before = None
        cfg = {}
        for k, o in enumerate(obs):
            if h[k]["a"] == "tmo":
                cfg[h[k]["e"]] = (h[k]["tr"], h[k]["tw"])
            for cb in o["cb"]:
                if cb["k"] == "e" and cb["f"] & 64:
                    e = cb["e"]
                    tr, tw = cfg.get(e, (0, 0))
                    if (cb["f"] & 1 and tr == 0) or (cb["f"] & 2 and tw == 0):
                        out.append((k, "timeout 0x%x reported to endpoint %d although no such timeout is configured" % (cb["f"], e)))
                    for dbit, enbit, dn in ((1, 2, "read"), (2, 4, "write")):
                        if cb["f"] & dbit and en_before is not None and en_before[e - 1] >= 0 and not (en_before[e - 1] & enbit) \
                                and h[k]["a"] == "loop" and len(o["cb"]) == 1:
                            out.append((k, "%s timeout reported to endpoint %d although the direction was disabled" % (dn, e)))
            en_before = [x["en"] for x in o["ep"]]
        return out
    return m
