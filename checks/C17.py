"""C17 - bufferevents deliver the written byte stream intact, in order, then EOF (Bev.tla, binding G).

Pair, filter-over-pair (identity / one-unit-per-call / needs-two-units filters) and socket bufferevents
(immediate and deferred callbacks) are driven through TLC-generated histories of write / enable /
disable / watermark / flush / shutdown / free / loop steps with scripted read callbacks; after every step
the real buffers' lengths, the bytes consumed so far and the content of every buffer (checked against the
numbered stream) are compared with the specification, and EOF must come after all data, once."""
from checks import bev_common as bc

DATA = {"write", "enable", "disable", "loop", "script"}


def run(tier, seed):
    q = tier == "quick"
    inv = ["TypeOK", "Conserved", "EofAfterAllData", "EofAtMostOnce", "NoStall"]
    P = lambda D, **kw: bc.consts("pair", DATA | {"wmr", "flush", "finish", "free"}, D, drains=(0, 1, 99),
                                  wms=((0, 0), (0, 2), (1, 1)), durs=(0,), **kw)
    F = lambda fn, D, **kw: bc.consts("filt", DATA | {"wmr", "wmu", "flush", "finish"}, D, drains=(0, 1, 99),
                                      wms=((0, 0), (0, 2), (1, 1)), durs=(0,), filtfn=fn, **kw)
    S = lambda df, D, **kw: bc.consts("sock", DATA | {"wmr", "shut", "free"}, D, drains=(0, 1, 99),
                                      wms=((0, 0), (0, 2)), durs=(0,), defer=df, **kw)
    fn = ("two", "one", "id")[seed % 3]          # quick: one filter function / one callback mode per run, by seed
    df = seed % 2 == 0
    known = dict(name="C17_known_eof", key="pair-eof-before-data",
                 consts=bc.consts("pair", {"write", "wmr", "flush", "finish"}, 3, sizes=(3,), wms=((0, 1),), durs=(0,),
                                  allow=("pair_eof_before_data",)))
    # directed family: L units buffered unread on a socket, read high watermark set to L-1 / L / L+1, then the peer
    # writes more: no EOF while the peer is open, suspended at == high, reading resumes after a drain
    HM = lambda d: dict(name="C17_sock_highmark_" + ("def" if d else "imm"), scripts=bc.sock_highmark_family(), units=(1, 512),
                        consts=bc.consts("sock", {"write", "enable", "loop", "script", "wmr"}, 9, sizes=(1, 2, 3, 4), durs=(0,),
                                         wms=[(lo, hi) for lo in (0, 1) for hi in (0, 1, 2, 3)], drains=(0, 1, 99), defer=d))
    quick_gen = [
        # every history of 3 steps of the data-path alphabet on a pair (TLC checks the invariants on every state of
        # every such history: this run is also the bounded model check of the quick tier); the histories that meet
        # the trigger of the known finding are its canonical scenarios
        dict(name="C17_pair_exh", consts=bc.consts("pair", {"write", "enable", "loop", "flush", "finish", "script", "wmr"}, 3,
                                                   sizes=(1, 3), drains=(0, 99), wms=((0, 0), (0, 1)), durs=(0,), script_until=1,
                                                   allow=("pair_eof_before_data",)),
             units=(5000,), known_keys={4: "pair-eof-before-data"}, invariants=inv),
        dict(name="C17_pair_rand", consts=P(10, extras=("none", "w1", "disR", "enR")), simulate=20, units=(1, 1000)),
        dict(name="C17_filt_" + fn, consts=F(fn, 9), simulate=15, units=(1, 3000)),
        dict(name="C17_sock_" + ("def" if df else "imm"), consts=S(df, 10, extras=("none", "w1")), simulate=20, units=(1, 512)),
        HM(df),
    ]
    plan = {
        "mc": [] if q else [("C17_mc_pair", bc.consts("pair", DATA | {"flush", "finish", "wmr"}, 6, sizes=(1, 2), drains=(0, 99),
                                                      wms=((0, 0), (0, 1)), durs=(0,), script_until=1), inv)],
        "gen": quick_gen if q else [
            dict(name="C17_pair_exh", consts=bc.consts("pair", {"write", "enable", "loop", "flush", "finish", "script"}, 4,
                                                       sizes=(1, 3), drains=(0, 99), wms=((0, 0),), durs=(0,), script_until=1),
                 units=(1, 5000)),
            dict(name="C17_pair_rand", consts=P(14, extras=("none", "w1", "disR", "enR")), simulate=400, units=(1, 1000, 70000)),
            dict(name="C17_filt_id", consts=F("id", 12), simulate=150, units=(1, 3000)),
            dict(name="C17_filt_one", consts=F("one", 12), simulate=150, units=(1, 3000)),
            dict(name="C17_filt_two", consts=F("two", 12), simulate=150, units=(1, 3000)),
            dict(name="C17_sock_imm", consts=S(False, 14, extras=("none", "w1")), simulate=250, units=(1, 512)),
            dict(name="C17_sock_def", consts=S(True, 14, extras=("none", "w1")), simulate=250, units=(1,)),
            # one read / write event moves at most 16384 bytes (max_single_read/write): unit = 4096
            dict(name="C17_sock_caps", consts=S(False, 12, rdcap=4, wrcap=4, sizes=(1, 3, 5), wirecap=8), simulate=150, units=(4096,)),
            dict(name="C17_sock_tcp", consts=S(False, 10, extras=("none", "w1")), simulate=60, units=(1, 512), tcp=1),
            HM(False), HM(True),
        ],
        "known": [] if q else [known],
        "need": ["write", "flush", "cb:r", "cb:e:f17", "free"] + ([] if q else ["shut"]),
        "rule": "TLC enumerates every history of the stated depth (pair_exh) or simulates random histories of the Bev "
                "specification for pair, filter-over-pair (3 filter functions) and socket bufferevents; each is replayed on "
                "the real library (several byte sizes per unit) and after every step the callbacks (kind, flags, input "
                "length, amount drained), all buffer lengths, bytes consumed, bytes in the socket and the content check "
                "of every buffer against the numbered stream are compared; a direct monitor checks content, EOF-after-data "
                "and EOF-once on the real observations. distinct = distinct op sequences; non-trivial = at least two "
                "state-changing calls and one callback.",
        "assumptions": ["TLS bufferevents are not covered (the build has neither OpenSSL nor mbedTLS)",
                        "socket endpoints live on separate event bases (callback order across descriptors is unspecified)",
                        "deviation FlushStopsAtHighWatermark: be_pair_transfer fills only up to the high watermark even when flushing",
                        "rate limits, BEV_OPT_UNLOCK_CALLBACKS/THREADSAFE and transport faults are not generated",
                        "socket histories keep the unread backlog below the kernel's socket buffer size (<= 32 KB)",
                        "applications read only inside read callbacks; callbacks are bounded by a harness guard (8 per loop call)"],
    }
    kinds = {"pair": bc.mon_c17("pair"), "filt": bc.mon_c17("filt"), "sock": bc.mon_c17("sock")}
    plan["monitor_by_kind"] = kinds
    return bc.standard_run("C17", tier, seed, plan)
