"""Shared machinery for the Evbuffer-based checks (C12 C13 C14 C15 C16)."""
import json, os, copy
import vkit

PATS = [["C", "L"], ["a", "b"], ["b"], ["L"], ["a", "a"]]      # must equal Pats in specs/Evbuffer.tla
# DataCat indices (1-based) of specs/Evbuffer.tla
DATA = {"": 1, "a": 2, "b": 3, "C": 4, "L": 5, "N": 6, "aCL": 7, "ab": 8, "CL": 9, "bLa": 10, "aa": 11, "LC": 12, "bNa": 13, "aC": 14,
        "bL": 15, "bCL": 16, "bCLC": 17, "bCLCL": 18, "bNaC": 19}

C12_ACTS = {"add", "addref", "prepend", "printf", "addiov", "rescommit", "addbuf", "prependbuf", "rmbuf", "addbufref",
            "addfile", "drain", "remove", "copyout", "pullup", "expand", "readln", "freeze", "unfreeze"}
CB_ACTS = {"cbadd", "cbdel", "cbflag"}

WIDTHS = [(1, 1), (37, 331), (1021, 4099), (331, 1021), (4099, 37), (509, 2048)]


def consts(acts, D, *, wa=37, wb=331, data=("", "a", "b", "aCL", "L", "N"), nsel=(0, 1, 2, 9), sizes=(0, 100, 2000),
           maxlen=6, cbmode=0, warm=0):
    return {"WA": wa, "WB": wb, "DataSel": frozenset(DATA[d] for d in data), "NSel": frozenset(nsel),
            "Sizes": frozenset(sizes), "Acts": frozenset(acts), "MaxLen": maxlen, "D": D, "CbMode": cbmode, "Warm": warm}


def drv_cfg(c, **kw):
    d = {"wa": c["WA"], "wb": c["WB"], "cbmode": c["CbMode"], "pats": PATS}
    d.update(kw)
    return d


def build():
    if os.environ.get("EVB_DRV_OVERRIDE"):      # mutation experiments: a driver linked with a modified buffer.c
        return os.environ["EVB_DRV_OVERRIDE"]
    return vkit.cc("evbuffer_drv", ["evbuffer_drv.c"], vclock=True,
                   extra=["-Wl,--wrap=readv,--wrap=writev,--wrap=sendfile,--wrap=read,--wrap=write"])


def _workers(dflt):
    """EVB_WORKERS caps the TLC worker count (shared machine while developing)."""
    return min(dflt, int(os.environ.get("EVB_WORKERS", dflt)))


def strip_obs(h):
    return [{k: v for k, v in s.items() if k != "o"} for s in h]


def generate(chk, name, c, *, simulate=None, depth=None, seed=None, invariants=("Emit",), properties=(),
             timeout=1200, max_hist=None, workers=None):
    cfg = vkit.write_cfg(name, c, invariants=invariants, properties=properties, constraint="GenConstraint")
    hists, seen = [], set()

    def sink(v):
        k = hash(json.dumps(strip_obs(v), sort_keys=True))
        if k in seen:
            return
        seen.add(k)
        if max_hist is None or len(hists) < max_hist:
            hists.append(v)
    res = vkit.tlc("Evbuffer", cfg, simulate=simulate, depth=depth, seed=seed, print_sink=sink, timeout=timeout,
                   workers=workers or _workers(8 if simulate else vkit.NCPU))
    chk.add_tlc(name, res)
    return hists


INV_LIST = ["TypeOK", "SearchSound", "EolSound", "MovesConserve", "FailureUnchanged", "CountsExact", "LedgerExact",
            "ReportConsistent", "NothingPending", "DisabledSilent", "LoopFlushes", "TagsParallel", "CleanupExactlyOnce",
            "ReadBackEqualsSource"]


def model_check(chk, name, c, *, timeout=1200, workers=None):
    """Decide the invariants / action properties on the bounded state graph (hist hidden by the VIEW is not
    possible here because the action properties read hist; the depth bound keeps it finite)."""
    cfg = vkit.write_cfg(name, c, invariants=INV_LIST, constraint="GenConstraint", view="StateView")
    res = vkit.tlc("Evbuffer", cfg, want_prints=False, timeout=timeout, workers=workers or _workers(vkit.NCPU))
    chk.add_tlc(name, res)
    return res


def side_conditions(act):
    """Conditions every observation must satisfy whatever the spec predicts: chain validator, reference checksums."""
    if act.get("inv"):
        return "chain structure invalid: " + act["inv"]
    if act.get("bad"):
        return "referenced memory modified or cleanup called twice (bad=%s)" % act["bad"]
    for rp in act.get("cb", []) or []:
        if rp["o"] + rp["a"] - rp["d"] != rp["l"]:
            return "callback report inconsistent with length: %r" % rp
    return None


def compare(hists, outs, *, extra=None, check_end=False):
    """Like vkit.compare_histories plus the side conditions.  Returns [(index, step, message)]."""
    fails = []
    for i, (h, o) in enumerate(zip(hists, outs)):
        if o is None:
            fails.append((i, -1, "no driver output")); continue
        if "crash" in o:
            fails.append((i, -1, "driver crashed: " + o["crash"])); continue
        steps = o["obs"]
        bad = None
        for k, st in enumerate(h):
            if k >= len(steps):
                bad = (k, "driver stopped early"); break
            d = vkit.deep_diff(st["o"], steps[k], "step%d(%s)" % (k, st.get("a")))
            if not d:
                d = side_conditions(steps[k])
            if not d and extra:
                d = extra(st, steps[k])
            if d:
                bad = (k, d); break
        if not bad and check_end:
            e = o.get("end", {})
            if e.get("bad") or e.get("notclean"):
                bad = (len(h) - 1, "teardown: cleanup callbacks not run exactly once: %r" % e)
        if bad:
            fails.append((i, bad[0], bad[1]))
    return fails


def op_histogram(hists):
    d = {}
    for h in hists:
        for s in h:
            d[s["a"]] = d.get(s["a"], 0) + 1
    return d


def nontrivial(h):
    return sum(1 for s in h if s["a"] not in ("copyout", "freeze", "unfreeze", "expand")) >= 2


def replay(chk, exe, hists, c, *, label="", extra_cfg=None, limit_fail=5, key_fn=None, extra=None, check_end=False):
    dc = drv_cfg(c, **(extra_cfg or {}))
    outs = vkit.run_driver(exe, [{"cfg": dc, "h": strip_obs(h)} for h in hists])
    fails = compare(hists, outs, extra=extra, check_end=check_end)
    chk.cov["traces_validated_against_impl"] += len(hists)
    for (i, k, msg) in fails[:limit_fail]:
        key = key_fn(hists[i], k, msg) if key_fn else None
        chk.violation("%s wa=%d wb=%d scenario %d step %d: %s" % (label, c["WA"], c["WB"], i, k, msg),
                      {"cfg": dc, "h": hists[i], "fail_step": k, "msg": msg}, key=key)
    if fails:
        vkit.log("[replay] %s: %d/%d failed; first: %s" % (label, len(fails), len(hists), fails[0][2][:600]))
        vkit.log("         ops: %s" % json.dumps(strip_obs(hists[fails[0][0]][:fails[0][1] + 1]))[:1500])
    return outs, fails


def standard_run(pid, tier, seed, plan):
    chk = vkit.Check(pid, tier, seed)
    exe = build()
    for name, c in plan.get("mc", []):
        model_check(chk, name, c)
    hist_total = {}
    for g in plan["gen"]:
        hs = generate(chk, g["name"], g["consts"], simulate=g.get("simulate"), depth=g.get("depth"),
                      seed=seed if g.get("simulate") else None, max_hist=g.get("max_hist"), timeout=g.get("timeout", 1200))
        if g.get("stride"):
            hs = hs[seed % g["stride"]::g["stride"]]
        if not hs:
            raise vkit.InfraError("generator %s produced no histories" % g["name"])
        pred = plan.get("need_hist", {}).get(g["name"])
        if pred and not any(pred(h) for h in hs):
            raise vkit.InfraError("vacuous corpus: generator %s lacks the required history" % g["name"])
        for h in hs:
            chk.count_case([g["consts"]["WA"], g["consts"]["WB"], strip_obs(h)], nontrivial(h))
        for h in hs[:1]:
            chk.sample({"gen": g["name"], "history": strip_obs(h), "predicted_last_obs": h[-1]["o"]}, limit=5)
        for k, v in op_histogram(hs).items():
            hist_total[k] = hist_total.get(k, 0) + v
        replay(chk, exe, hs, g["consts"], label=g["name"], extra_cfg=g.get("extra"), key_fn=g.get("key_fn"),
               check_end=plan.get("check_end", False))
    chk.cov["op_histogram"] = hist_total
    missing = [o for o in plan.get("need_ops", []) if hist_total.get(o, 0) == 0]
    if missing:
        raise vkit.InfraError("vacuous scenario corpus: ops never generated: %s" % missing)
    chk.cov["rule"] = plan.get("rule", "")
    chk.assumptions += plan.get("assumptions", [])
    return chk.finish()


# ---------------------------------------------------------------- C08 (lock discipline) corpus
class _NoChk:
    """generate() only needs add_tlc; spec-level problems still raise InfraError."""
    def add_tlc(self, name, res, expect_ok=True):
        if res.error or (expect_ok and res.violation):
            raise vkit.InfraError("TLC %s: %s %s\n%s" % (name, res.error, res.violation, res.raw[-2000:]))


LOCK_ACTS = {"add", "prepend", "addref", "addbufref", "addfile", "addfilebad", "rmbuf", "addbuf", "prependbuf", "drain", "remove",
             "pullup", "readln", "rescommit", "expand", "evwrite", "evread", "sfwrite", "cbadd", "cbdel", "cbscript"}


def lock_scenarios(seed, quick=True, workers=4):
    """Corpus for C08 (lock discipline of evbuffers).  Returns (exe, scenarios): exe = the evbuffer driver, scenarios =
    [{"cfg": {...}, "h": [call, ...]}, ...] ready for vkit.run_driver(exe, scenarios, env={"VERIF_LOCKTRACE": prefix}).
    With $VERIF_LOCKTRACE set the driver installs harness/lockrec.h, calls evbuffer_enable_locking(buf, NULL) on every
    evbuffer, emits Reset(cfg["sid"]) per scenario and Enter/Return(<call name>) around every call, "observe" around the
    query battery and "teardown" around the final frees.  cfg["lockcb"]=1 additionally brackets evbuffer change callbacks and
    reference / segment cleanup callbacks with CbEnter/CbExit (off by default: the library runs them under the evbuffer's own
    recursive lock by design, which Locks.tla's CallbackUnlocked rule rejects).
    Contents: exhaustive 2-call histories over file segments whose lazy materialisation fails (fd closed, write-only fd,
    truncated file; mmap and read paths), good segments, references, add_buffer_reference, remove_buffer; random histories
    over 21 call kinds with callbacks (incl. callbacks that modify their buffer); and, for a sample of histories, one run per
    n with the n-th allocation inside the library failing."""
    import random
    rnd = random.Random(seed)
    exe = build()
    nochk = _NoChk()
    scen = []
    c1 = consts({"addfilebad", "addfile", "addref", "addbufref", "rmbuf", "drain"}, 2, wa=37, wb=331, data=("bLa",), nsel=(1, 9))
    h1 = generate(nochk, "C08_evb_exh", c1, workers=workers)
    h1 = [h for h in h1 if any(s["a"] in ("addfilebad", "addfile") for s in h)]
    if len(h1) > (150 if quick else 600):
        h1 = rnd.sample(h1, 150 if quick else 600)
    scen += [{"cfg": drv_cfg(c1), "h": strip_obs(h)} for h in h1]
    c2 = consts(LOCK_ACTS, 14 if quick else 24, wa=331, wb=1021, data=("a", "aCL", "bLa"), nsel=(1, 2, 9), sizes=(0, 2000), maxlen=8, cbmode=1)
    h2 = generate(nochk, "C08_evb_rand", c2, simulate=(20 if quick else 150), depth=80, seed=seed, workers=workers)
    scen += [{"cfg": drv_cfg(c2), "h": strip_obs(h)} for h in h2]
    c3 = consts((LOCK_ACTS - {"cbscript"}) | {"loop"}, 12 if quick else 20, wa=37, wb=4099, data=("a", "bLa"), nsel=(1, 9), sizes=(2000,), maxlen=8, cbmode=2)
    h3 = generate(nochk, "C08_evb_rand_def", c3, simulate=(8 if quick else 60), depth=80, seed=seed + 1, workers=workers)
    scen += [{"cfg": drv_cfg(c3), "h": strip_obs(h)} for h in h3]
    if not any(s["a"] == "addfilebad" for sc in scen for s in sc["h"]):
        raise vkit.InfraError("lock corpus lacks failing segment materialisation")
    # allocation faults: count the allocations of a sample of scenarios (plain run), then one scenario per n (sampled)
    base = rnd.sample(scen, min(len(scen), 40 if quick else 300))
    outs = vkit.run_driver(exe, base)
    af = []
    for sc, o in zip(base, outs):
        n_alloc = int(o.get("allocs", 0)) if isinstance(o, dict) else 0
        ns = list(range(1, n_alloc + 1))
        if len(ns) > (6 if quick else 25):
            ns = sorted(rnd.sample(ns, 6 if quick else 25))
        for n in ns:
            af.append({"cfg": dict(sc["cfg"], failn=n), "h": sc["h"]})
    return exe, scen + af
