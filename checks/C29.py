"""C29 - URI escaping, query parsing and HTML escaping match their specifications (Escape.tla, binding G)."""
from checks import util_common as uc
import vkit

LAWS = ["RoundTrip", "EncAlphabet", "DecodeShrinks", "HtmlInverse", "QueryCarriesValue", "QueryLaws"]


def run(tier, seed):
    q = tier == "quick"
    chk = vkit.Check("C29", tier, seed)
    uc.driver()
    plan = [("esc", 3 if q else 4), ("qchar", 4 if q else 5), ("qpiece", 3 if q else 4)]
    for mode, n in plan:
        recs, res = uc.gen(chk, "Escape", "C29_%s" % mode, {"Mode": mode, "MaxLen": n}, LAWS)
        if mode == "esc":
            cases = [uc.esc_case(r) for r in recs]
            exp = [uc.esc_expected(r) for r in recs]
            outs = [uc.esc_normalise(o) for o in uc.drive(cases)]
        else:
            cases = [uc.query_case(r) for r in recs]
            exp = [uc.query_expected(r) for r in recs]
            outs = uc.drive(cases)
        uc.compare(chk, "C29/" + mode, cases, exp, outs, nontrivial=lambda c: len(c["i"]) >= 2)
        for r in recs[len(recs) // 2: len(recs) // 2 + 1]:
            chk.sample({"mode": mode, "reference_record": r})
        chk.cov.setdefault("corpus", {})[mode] = len(recs)
    chk.cov["exhaustive"] = True
    chk.cov["rule"] = ("TLC enumerates every word of <= MaxLen tokens over the alphabet defined in Escape.tla "
                       "(esc: unreserved/reserved/SP/+/%/%4/%zz/%41/%aF/0xC3/<>&\"'/NUL/%00; qchar: k j = & ; + %41 %zz v; "
                       "qpiece: 12 key/value pieces joined by &), decides the laws on the reference "
                       "(round trip in both + modes, output alphabet, |decode|<=|input|, html inverse, query laws) and "
                       "prints the reference results; the real evhttp_uriencode (length and NUL-terminated forms, "
                       "evhttp_encode_uri), evhttp_uridecode (+size_out, terminator), decode of the real encoding, "
                       "evhttp_htmlescape and evhttp_parse_query_str(_flags) under all four flag sets are compared "
                       "with them for every word. non-trivial = input of >= 2 bytes.")
    chk.assumptions += [
        "hex digit case of %XX produced by the encoder is not compared (normalised)",
        "named deviations modelled as the code behaves: a malformed escape is copied literally; a trailing '&' "
        "adds no empty piece; query keys are not percent-decoded; LAST_VAL keeps the last pair at its position",
        "query keys differing only in case and %00 inside query values are outside the corpus "
        "(C strings / case rule not fixed by the property)",
        "writes beyond strlen(input)+1 in the decoder are observed by AddressSanitizer on exact-size heap blocks",
    ]
    return chk.finish()


def replay(stored, seed):
    return uc.replay("C29", stored, uc.esc_normalise)
