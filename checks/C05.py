"""C05 - the OS interest set always equals the union of added I/O events.

Backend.tla models evmap counters, the changelist, epoll_apply_one_change with its fallbacks, the poll array, the
select sets and the kernel's epoll registrations (close removes them unless a dup keeps the file alive).  TLC decides
InterestOK on the bounded state graph per backend; TLC-generated histories (exhaustive short + random long) are replayed
on the real backends and the interest set the kernel is handed at every wait (fdinfo / pollfd array / fd_sets,
captured by link-time wrappers) is compared with the specification's."""
import json
import vkit
from checks import backend_common as bc

ACTIONS = ["EvAdd", "EvDel", "CloseFd", "ReopenFd", "Reinit", "Wait"]
KNOWN_KEY = "changelist-stale-et"
# canonical scenario of the open finding; the expectation is the property (union of added events, ET iff requested)
KNOWN_H = [{"a": "add", "e": 1, "fd": 1, "m": 1, "et": 1, "o": {"r": 0}},
           {"a": "wait", "o": {"r": 0, "k": [{"fd": 1, "r": 1, "w": 0, "c": 0, "et": 1, "x": 0}]}},
           {"a": "del", "e": 1, "o": {"r": 0}},
           {"a": "add", "e": 1, "fd": 1, "m": 2, "et": 0, "o": {"r": 0}},
           {"a": "wait", "o": {"r": 0, "k": [{"fd": 1, "r": 0, "w": 1, "c": 0, "et": 0, "x": 0}]}}]


def nontrivial(h):
    return sum(1 for s in h if s["a"] != "wait") >= 2


def run(tier, seed):
    q = tier == "quick"
    chk = vkit.Check("C05", tier, seed)
    exe = bc.build_driver()
    jobs = []
    plan = {}
    # quick: state-graph runs only for the two epoll variants (poll/select are decided on every history of the
    # exhaustive depth by their generation runs, and on the state graph in the thorough tier)
    mc_backends = ("epoll", "epollcl") if q else bc.BACKENDS
    for be in bc.BACKENDS:
        mc = bc.consts(be, 4 if q else 6, nev=2 if q else 3, masks=(1, 2, 3, 5), keeper=(2,))
        ex = bc.consts(be, 3 if q else 4, nev=2, keeper=(2,))
        rnd = bc.consts(be, 12 if q else 24, nfd=3, nev=3, keeper=(2,))
        plan[be] = (mc, ex, rnd)
        if be in mc_backends:
            jobs.append((("mc", be), lambda be=be, c=mc: bc.tlc_backend("C05_mc_" + be, c, mode="mc", timeout=1500)))
        jobs.append((("exh", be), lambda be=be, c=ex: bc.tlc_backend("C05_exh_" + be, c, mode="gen", timeout=1500)))
        jobs.append((("rnd", be), lambda be=be, c=rnd: bc.tlc_backend("C05_rnd_" + be, c, mode="gen", emit="EmitSim",
                                                                        simulate=20 if q else 600, depth=80, seed=seed,
                                                                        max_hist=200 if q else 6000, timeout=1500)))
    # deep, narrow exhaustive corpora (1 fd): every history of
    #  A: add/del/close/reopen/wait, 1 event, conditions {R, C}, depth 7 - contains "add wait del close reopen add wait"
    #     on a genuinely new open file (changelist: MOD -> ENOENT -> ADD must re-register the condition)
    #  B: add/del/wait, 2 events, conditions {R, W, C}, depth 6 (poll: 7) - contains "add(R|W) add(C) wait del wait [del wait]"
    #     (the fd must stay in the poll set with POLLRDHUP; later del returns 0) and "add(R,ET) add(W,ET) wait del wait"
    #     (the survivor stays edge-triggered)
    deep = {}
    for be in bc.BACKENDS:
        if q:   # quick: only where the fallbacks / the array / the ET flag of the changelist are at stake
            if be == "epollcl":
                deep[("deepA", be)] = bc.consts(be, 7, nfd=1, nev=1, masks=(1, 4), ets=(0,), acts=("add", "del", "close", "wait"))
                deep[("deepB", be)] = bc.consts(be, 6, nfd=1, nev=2, masks=(1, 2, 4), ets=(1,), acts=("add", "del", "wait"))
            if be == "poll":
                deep[("deepB", be)] = bc.consts(be, 7, nfd=1, nev=2, masks=(1, 4), acts=("add", "del", "wait"))
        else:
            deep[("deepA", be)] = bc.consts(be, 7, nfd=1, nev=1, masks=(1, 4), acts=("add", "del", "close", "wait"))
            deep[("deepB", be)] = bc.consts(be, 7, nfd=1, nev=2, masks=(1, 2, 4), acts=("add", "del", "wait"))
    for (kind, be), c in deep.items():
        jobs.append(((kind, be), lambda kind=kind, be=be, c=c: bc.tlc_backend("C05_%s_%s" % (kind, be), c, mode="gen", timeout=1500)))
    # the model of the code exhibits the open finding when its trigger is not excluded (thorough tier)
    wit = bc.consts("epollcl", 5, nev=2, masks=(1, 2), avoid=False)
    if not q:
        jobs.append((("wit", "epollcl"), lambda: bc.tlc_backend("C05_witness", wit, mode="mc", invariants=["InterestOK"], timeout=600)))
    results = bc.run_parallel(jobs, nthreads=5 if q else 4)

    ops = {}
    for be in bc.BACKENDS:
        mc, ex, rnd = plan[be]
        if ("mc", be) in results:
            res, _ = results[("mc", be)]
            chk.add_tlc("C05_mc_" + be, res)
            bc.check_taken(chk, res, ACTIONS, "C05_mc_" + be)
        kinds = [("exh", ex), ("rnd", rnd)] + [(k, c) for (k, b), c in deep.items() if b == be]
        for kind, c in kinds:
            res, hs = results[(kind, be)]
            name = "C05_%s_%s" % (kind, be)
            chk.add_tlc(name, res)
            if not hs:
                raise vkit.InfraError("generator %s produced no histories" % name)
            for h in hs:
                chk.count_case([be] + bc.strip_obs(h), nontrivial(h))
                for s in h:
                    ops[s["a"]] = ops.get(s["a"], 0) + 1
                    if s["a"] == "add" and s["et"]:
                        ops["add:et"] = ops.get("add:et", 0) + 1
                    if s["a"] == "add" and s["m"] >= 4:
                        ops["add:closed"] = ops.get("add:closed", 0) + 1
            chk.sample({"gen": name, "history": bc.strip_obs(hs[len(hs) // 2]),
                        "predicted_last_wait": hs[len(hs) // 2][-1]["o"]}, limit=6)
            variants = [(0, 0)] if q else [(0, 0), (1, 1), (0, 2)]
            bc.replay_c05(chk, exe, hs, c, label=name, variants=variants)
    # the directed shapes must be present (vacuity guard)
    def shape(h):
        return [x["a"] for x in h]
    for be in (("epollcl",) if q else ("epoll", "epollcl")):
        hsA = results[("deepA", be)][1]
        if not any(shape(h) == ["add", "wait", "del", "close", "reopen", "add", "wait"] and h[0]["m"] == h[5]["m"] for h in hsA):
            raise vkit.InfraError("deepA corpus of %s lacks add-wait-del-close-reopen-add-wait" % be)
        hsB = results[("deepB", be)][1]
        if not any(shape(h)[:5] == ["add", "add", "wait", "del", "wait"] and h[0]["et"] and h[1]["et"] and h[0]["m"] != h[1]["m"]
                   for h in hsB):
            raise vkit.InfraError("deepB corpus of %s lacks two ET events / del one / wait" % be)
    if not any(shape(h) == ["add", "add", "wait", "del", "wait", "del", "wait"] and h[0]["m"] in (1, 2) and h[1]["m"] == 4 and h[0]["fd"] == h[1]["fd"]
               and h[3]["e"] == 1 for h in results[("deepB", "poll")][1]):
        raise vkit.InfraError("deepB corpus of poll lacks add(R|W) add(C) wait del wait del wait")
    missing = [o for o in ("add", "del", "close", "reopen", "reinit", "wait", "add:et", "add:closed") if not ops.get(o)]
    if missing:
        raise vkit.InfraError("vacuous scenario corpus: ops never generated: %s" % missing)
    chk.cov["op_histogram"] = ops

    # open finding: model-level witness + canonical scenario on the real library
    if ("wit", "epollcl") in results:
        res, _ = results[("wit", "epollcl")]
        chk.add_tlc("C05_witness", res, expect_ok=False)
        chk.cov["known_finding_model_witness"] = res.violation
    cw = bc.consts("epollcl", 5, nfd=1, nev=1)
    dc = bc.drv_cfg(cw)
    outs = vkit.run_driver(exe, [{"cfg": dc, "h": bc.strip_obs(KNOWN_H)}])
    for (i, k, msg) in vkit.compare_histories([KNOWN_H], outs):
        chk.violation("changelist: stale ET flag of a pending delete: step %d: %s" % (k, msg),
                      {"cfg": dc, "h": KNOWN_H, "real": outs[0]}, key=KNOWN_KEY)
    # the same history must be right without the changelist
    dc2 = bc.drv_cfg(bc.consts("epoll", 5, nfd=1, nev=1))
    outs = vkit.run_driver(exe, [{"cfg": dc2, "h": bc.strip_obs(KNOWN_H)}])
    for (i, k, msg) in vkit.compare_histories([KNOWN_H], outs):
        chk.violation("epoll (no changelist) on the known-finding history: step %d: %s" % (k, msg),
                      {"cfg": dc2, "h": KNOWN_H, "real": outs[0]}, key="known-history-nochangelist")

    chk.cov["rule"] = ("per backend (epoll, epoll+changelist, poll, select): TLC decides InterestOK/CountsOK/PollArrayOK/"
                       "ChangelistOK on the bounded state graph; every history of the exhaustive depth and random long "
                       "histories (3 fds incl. one whose file is kept alive by a dup, 3 events, all interest masks, "
                       "ET/LT, close/reopen, event_reinit) are replayed on the real backend selected with event_config; at every wait "
                       "the interest set handed to the kernel (epoll: /proc/self/fdinfo of the epfd inside the wrapped "
                       "epoll_pwait2; poll: pollfd array; select: fd_sets up to nfds) and every return value are compared "
                       "with the specification. distinct = distinct (backend, op sequence); non-trivial = >= 2 "
                       "state-changing calls.")
    chk.assumptions += [
        "events on one fd are all edge-triggered or all level-triggered (libevent does not support mixing)",
        "an fd closed while events are added on it has all of them deleted before the next wait",
        "the loop does not wait while a closed-then-reopened dup'ed file still carries a registration whose events "
        "were deleted after the close (kernel keeps it; only the application can avoid that)",
        "EV_CLOSED is not used with select, EV_ET only with epoll (unsupported features)",
        "wait = event_base_loop(EVLOOP_ONCE|EVLOOP_NONBLOCK|EVLOOP_NO_EXIT_ON_EMPTY) with the wait call wrapped at link time",
    ]
    return chk.finish()


def replay(case, seed):
    """./check C05 --replay out/replay/C05/violation_N.json : re-execute the recorded history and compare again."""
    c = case.get("case", case)
    exe = bc.build_driver()
    outs = vkit.run_driver(exe, [{"cfg": c["cfg"], "h": bc.strip_obs(c["h"])}])
    fails = vkit.compare_histories([c["h"]], outs)
    for (i, k, msg) in fails:
        print("VIOLATION property=C05 replay: step %d: %s" % (k, msg))
    print(json.dumps(outs[0]))
    return 1 if fails else 0
