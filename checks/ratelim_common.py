"""Shared machinery for the rate-limiting / weak-random checks (C21 C46 C22).

Apalache helpers: run a theorem, keep the counterexample (ITF), and validate batches of
vectors observed on the compiled code against TLA+ operators ("single state, one definition
per vector": Apalache splits the conjunction into one state invariant per vector, so the
index of the violated invariant identifies the failing vector).
"""
import json, os, re, shutil, subprocess, tempfile, time
from concurrent.futures import ThreadPoolExecutor
import vkit

GEN = os.path.join(vkit.OUT, "gen")


def apalache(spec_path, *, inv, init="Init", next_="Next", length=0, timeout=900, workdir=None):
    """Run `apalache-mc check`; returns dict(ok, cex, rc, out, wall, violated, itf)."""
    if not os.path.isabs(spec_path):
        spec_path = os.path.join(vkit.SPECS, spec_path)
    if not spec_path.endswith(".tla"):
        spec_path += ".tla"
    run_dir = tempfile.mkdtemp(prefix="apa_", dir=vkit._scratch())
    cmd = ["apalache-mc", "check", "--out-dir=" + run_dir, "--length=%d" % length, "--inv=" + inv,
           "--init=" + init, "--next=" + next_, spec_path]
    t0 = time.time()
    e = dict(os.environ)
    e.setdefault("JVM_ARGS", "-Xmx3g")
    try:
        r = subprocess.run(cmd, capture_output=True, text=True, timeout=timeout, cwd=os.path.dirname(spec_path), env=e)
        out, rc = r.stdout + r.stderr, r.returncode
    except subprocess.TimeoutExpired as ex:
        out = ex.stdout.decode(errors="replace") if isinstance(ex.stdout, bytes) else (ex.stdout or "")
        rc = -9
    res = {"ok": rc == 0 and "The outcome is: NoError" in out,
           "cex": rc == 12 and "The outcome is: Error" in out,
           "rc": rc, "out": out, "wall": time.time() - t0, "violated": None, "itf": None}
    m = re.search(r"state invariant (\d+) violated", out)
    if m:
        res["violated"] = int(m.group(1))
    if res["cex"]:
        for root, _, files in os.walk(run_dir):
            if "violation1.itf.json" in files:
                try:
                    res["itf"] = json.load(open(os.path.join(root, "violation1.itf.json")))
                except Exception:
                    pass
    shutil.rmtree(run_dir, ignore_errors=True)
    return res


def itf_int(v):
    if isinstance(v, dict) and "#bigint" in v:
        return int(v["#bigint"])
    return v


def itf_state(itf, idx=-1):
    """Flatten one ITF state into {var: python value} (ints and records of ints)."""
    st = itf["states"][idx]
    out = {}
    for k, v in st.items():
        if k.startswith("#"):
            continue
        if isinstance(v, dict) and "#bigint" not in v:
            out[k] = {kk: itf_int(vv) for kk, vv in v.items()}
        else:
            out[k] = itf_int(v)
    return out


def prove(chk, spec, name, *, inv, init, next_, length, expect="ok", timeout=900):
    """Run a theorem with Apalache and record it in the evidence.  expect: "ok" | "any"."""
    r = apalache(spec, inv=inv, init=init, next_=next_, length=length, timeout=timeout)
    chk.cov.setdefault("apalache_runs", []).append(
        {"name": name, "inv": inv, "length": length, "outcome": "NoError" if r["ok"] else ("Error" if r["cex"] else "rc=%s" % r["rc"]),
         "wall_s": round(r["wall"], 1)})
    if not r["ok"] and not r["cex"]:
        raise vkit.InfraError("apalache %s (%s): rc=%s\n%s" % (name, inv, r["rc"], r["out"][-3000:]))
    if expect == "ok" and not r["ok"]:
        raise vkit.InfraError("apalache %s: the specification itself violates %s (spec bug)\n%s" %
                              (name, inv, r["out"][-3000:]))
    return r


def prove_many(chk, spec, items, parallel=6):
    """items: list of dict(name, inv, init, next_, length, expect?) - run concurrently; returns {name: result}."""
    with ThreadPoolExecutor(max_workers=parallel) as ex:
        futs = {it["name"]: ex.submit(prove, chk, spec, it["name"], inv=it["inv"], init=it["init"], next_=it["next_"],
                                      length=it["length"], expect=it.get("expect", "ok")) for it in items}
        return {k: f.result() for k, f in futs.items()}


VAR_HDR = {
    "TokenBucket": ('''EXTENDS Integers
VARIABLES
    \\* @type: Int;
    rl,
    \\* @type: Int;
    wl,
    \\* @type: Int;
    last,
    \\* @type: Int;
    rr,
    \\* @type: Int;
    rm,
    \\* @type: Int;
    wr,
    \\* @type: Int;
    wm,
    \\* @type: Int;
    cur,
    \\* @type: { rl: Int, wl: Int, last: Int, ret: Int };
    out,
    \\* @type: Int;
    phase
INSTANCE TokenBucket WITH M <- 18446744073709551616, NM <- 4294967296, KMS <- 1000
''', "InitFree", "Stutter"),
    "WeakRand": ('''EXTENDS Integers
VARIABLES
    \\* @type: Int;
    seed,
    \\* @type: Int;
    top,
    \\* @type: Int;
    res,
    \\* @type: Int;
    steps,
    \\* @type: Int;
    pc
INSTANCE WeakRand WITH MOD <- 2147483648, SMOD <- 4294967296, MULT <- 1103515245, INC <- 12345
''', "InitFree", "Stutter"),
}


def _write_vec_module(d, base, name, part):
    hdr, init, nxt = VAR_HDR[base]
    path = os.path.join(d, name + ".tla")
    with open(path, "w") as f:
        f.write("---- MODULE %s ----\n" % name)
        f.write(hdr)
        for j, e in enumerate(part):
            f.write("V%d == %s\n" % (j, e))
        f.write("VecOK ==\n" + "\n".join("  /\\ V%d" % j for j in range(len(part))) + "\n====\n")
    return path


def _vec_run(chk, base, path, n, timeout):
    hdr, init, nxt = VAR_HDR[base]
    r = apalache(path, inv="VecOK", init=init, next_=nxt, length=0, timeout=timeout)
    chk.cov.setdefault("apalache_runs", []).append(
        {"name": os.path.basename(path), "inv": "VecOK", "vectors": n,
         "outcome": "NoError" if r["ok"] else ("Error" if r["cex"] else "rc=%s" % r["rc"]),
         "wall_s": round(r["wall"], 1)})
    if not r["ok"] and not r["cex"]:
        raise vkit.InfraError("apalache vector batch %s: rc=%s\n%s" % (path, r["rc"], r["out"][-3000:]))
    return r["ok"]


def validate_vectors(chk, base, tag, exprs, *, chunk=120, parallel=3, timeout=900, bisect=True):
    """exprs: list of TLA+ boolean expressions (strings), one per vector, over the operators of
    specs/<base>.tla at the real word widths.  Every chunk is one Apalache run that evaluates the
    conjunction of its vectors in a single state.  Returns the index of one failing vector per
    failing chunk (found by bisection with further Apalache runs: the invariant index Apalache prints
    is not the position of the violated conjunct), or the chunk's first index if bisect=False."""
    d = os.path.join(GEN, chk.pid)
    os.makedirs(d, exist_ok=True)
    shutil.copy(os.path.join(vkit.SPECS, base + ".tla"), os.path.join(d, base + ".tla"))
    jobs = []
    for c0 in range(0, len(exprs), chunk):
        part = exprs[c0:c0 + chunk]
        name = "%s_Vec_%s_%d" % (base, tag, c0 // chunk)
        jobs.append((c0, len(part), _write_vec_module(d, base, name, part)))
    fails = []
    t0 = time.time()
    with ThreadPoolExecutor(max_workers=parallel) as ex:
        results = list(ex.map(lambda j: _vec_run(chk, base, j[2], j[1], timeout), jobs))
    for (c0, n, path), ok in zip(jobs, results):
        if ok:
            continue
        lo, hi = c0, c0 + n          # invariant: exprs[lo:hi] contains a failing vector
        step = 0
        while bisect and hi - lo > 1:
            mid = (lo + hi) // 2
            step += 1
            pth = _write_vec_module(d, base, "%s_Vec_%s_b%d_%d" % (base, tag, c0 // chunk, step), exprs[lo:mid])
            if _vec_run(chk, base, pth, mid - lo, timeout):
                lo = mid
            else:
                hi = mid
        fails.append(lo)
    vkit.log("[vectors] %s/%s: %d vectors in %d chunk(s), %.1fs, %d failing chunk(s)" %
             (base, tag, len(exprs), len(jobs), time.time() - t0, len(fails)))
    return fails


def tla_int(x):
    return str(int(x)) if int(x) >= 0 else "(%d)" % int(x)
