"""C35 - DNS server responses encode exactly the records that were added (DnsMsg.tla, binding V)."""
import random
import vkit
from checks import dns_common as dc

KEY_TRUNC = "C35-truncated-response-keeps-full-counts"
KEY_PTR16K = "C35-compression-pointer-beyond-16383"
NAMES = ["ab.cd", "x.ab.cd", "y.x.ab.cd", "cd", "ef.gh", "AB.cd", "x.ef.gh", "q.y.x.ab.cd", "long-label-%s.ab.cd" % ("l" * 40), "z"]


def rec(sec, name, typ, ttl, data=None, target=None):
    if target is not None:
        return {"sec": sec, "name": name, "type": typ, "class": 1, "ttl": ttl, "isname": 1, "data": target}
    return {"sec": sec, "name": name, "type": typ, "class": 1, "ttl": ttl, "isname": 0, "data": bytes(data).hex()}


def rand_rec(rng, sec, sizes):
    name = rng.choice(NAMES)
    ttl = rng.choice([0, 5, 300, 86400, 2147483647])
    k = rng.randrange(6)
    if k == 0:
        return rec(sec, name, dc.T_A, ttl, data=bytes(rng.randrange(256) for _ in range(4 * rng.randint(1, 3))))
    if k == 1:
        return rec(sec, name, dc.T_AAAA, ttl, data=bytes(rng.randrange(256) for _ in range(16 * rng.randint(1, 2))))
    if k == 2:
        return rec(sec, name, rng.choice([dc.T_CNAME, dc.T_PTR, dc.T_NS]), ttl, target=rng.choice(NAMES))
    return rec(sec, name, dc.T_TXT, ttl, data=bytes([rng.randrange(256)]) * rng.choice(sizes))


def query(qnames, opt=None, qid=0x1234):
    b = qid.to_bytes(2, "big") + b"\x01\x00" + len(qnames).to_bytes(2, "big") + b"\0\0\0\0" + (b"\0\1" if opt else b"\0\0")
    for n, t in qnames:
        b += dc.plain_name(dc.labels(n)) + t.to_bytes(2, "big") + b"\0\1"
    if opt:
        b += b"\0" + dc.T_OPT.to_bytes(2, "big") + opt.to_bytes(2, "big") + b"\0\0\0\0\0\0"
    return b


def scenario(qnames, recs, tr, opt=None):
    q = query(qnames, opt)
    sc = {"mode": "server", "tr": tr, "reply": {"err": 0, "recs": recs}}
    if tr == "udp":
        sc["msgs"] = [q.hex()]
    else:
        sc["stream"] = (len(q).to_bytes(2, "big") + q).hex()
    sc["_q"] = qnames
    sc["_limit"] = 0 if tr == "tcp" else max(512, opt or 0)
    sc["_opt"] = opt
    return sc


def view(r):
    nm = r["type"] in dc.NAME_TYPES and r["isname"]
    return {"n": dc.labels(r["name"]), "t": r["type"], "c": r["class"], "ttl": r["ttl"],
            "rd": [] if nm else list(bytes.fromhex(r["data"])), "rdn": dc.labels(r["data"]) if nm else []}


def vector(sc, resp):
    recs = sc["reply"]["recs"]
    exp = [[view(r) for r in recs if r["sec"] == s] for s in (0, 1, 2)]
    if sc["_opt"]:   # the server echoes an OPT record of its own before the callback's additional records
        exp[2].insert(0, {"n": [], "t": dc.T_OPT, "c": 512, "ttl": 0, "rd": [], "rdn": []})
    return {"kind": "encode", "b": list(bytes.fromhex(resp)), "limit": sc["_limit"], "boundary": 1 if sc.get("_boundary") else 0,
            "qs": [{"n": dc.labels(n), "t": t, "c": 1} for n, t in sc["_q"]], "exp": exp}


def plain_size(sc):
    n = 12 + sum(len(dc.plain_name(dc.labels(q))) + 4 for q, _ in sc["_q"]) + (11 if sc["_opt"] else 0)
    for r in sc["reply"]["recs"]:
        n += len(dc.plain_name(dc.labels(r["name"]))) + 10
        n += len(dc.plain_name(dc.labels(r["data"]))) if r["isname"] else len(r["data"]) // 2
    return n


def boundary_family():
    """Responses whose encoded length is limit-1 / limit / limit+1 for every limit the server honours over UDP.  The names share no
    suffix (question ab.cd, owners n0, n1, ...), so nothing can be compressed and the encoded length is exactly the plain length
    (DnsMsg!Incompressible / BoundaryOK): TC and a cut iff the length exceeds the limit."""
    out = []
    for opt in (None, 1232, 4096):
        limit = max(512, opt or 0)
        for delta in (-1, 0, 1):
            for shape in ("txt", "name"):
                target = limit + delta
                recs, i = [], 0
                sc = scenario([("ab.cd", 16)], recs, "udp", opt)
                while target - plain_size(sc) > 330:
                    recs.append(rec(0, "n%d" % i, dc.T_TXT, 5, data=b"p" * 200)); i += 1
                if shape == "txt":           # one last raw record sized to hit the target exactly
                    recs.append(rec(0, "n%d" % i, dc.T_TXT, 5, data=b""))
                    recs[-1] = rec(0, "n%d" % i, dc.T_TXT, 5, data=b"q" * (target - plain_size(sc)))
                else:                        # an A record, and a last owner name whose length pads to the target
                    recs.append(rec(0, "m%d" % i, dc.T_A, 5, data=b"\1\2\3\4"))
                    recs.append(rec(2, "k", dc.T_TXT, 5, data=b""))
                    missing = target - plain_size(sc)
                    lab = min(63, max(1, missing - 60))
                    recs[-1] = rec(2, "k" * lab, dc.T_TXT, 5, data=b"")
                    recs[-1] = rec(2, "k" * lab, dc.T_TXT, 5, data=b"r" * (target - plain_size(sc)))
                assert plain_size(sc) == target, (plain_size(sc), target)
                sc["_boundary"] = True
                out.append(sc)
    return out


def build_corpus(rng, n_general, n_trunc):
    general, trunc, big = [], [], []
    targets = [("udp", None, 512), ("udp", 1232, 1232), ("udp", 4096, 4096), ("tcp", None, 9000), ("tcp", None, 15000)]
    while len(general) < n_general or len(trunc) < n_trunc:
        tr, opt, lim = rng.choice(targets)
        qn = [(rng.choice(NAMES), rng.choice([1, 28, 12]))] + ([(rng.choice(NAMES), 1)] if rng.random() < 0.25 else [])
        recs = []
        goal = rng.choice([lim // 4, lim - rng.randint(1, 60), lim + rng.randint(1, 200)]) if tr == "udp" else rng.randint(200, lim)
        sc = scenario(qn, recs, tr, opt)
        while plain_size(sc) < goal and len(recs) < 150:
            left = goal - plain_size(sc)
            recs.append(rand_rec(rng, rng.choice([0, 0, 0, 1, 2]), [0, 1, 17, 100, 255, max(0, min(left - 20, 4000))]))
        fits = tr == "tcp" or plain_size(sc) <= sc["_limit"]
        if fits and len(general) < n_general:
            general.append(sc)
        elif not fits and len(trunc) < n_trunc:
            trunc.append(sc)
    # many distinct labels: the compression table (128 entries) fills up
    many = [rec(0, "n%d.m%d.zz" % (i, i % 7), dc.T_A, 5, data=b"\1\2\3\4") for i in range(150)] + \
           [rec(2, "n%d.m%d.zz" % (i, i % 7), dc.T_CNAME, 5, target="n%d.m%d.zz" % (149 - i, (149 - i) % 7)) for i in range(0, 150, 10)]
    general.append(scenario([("n0.m0.zz", 1)], many, "tcp"))
    # past 16 KiB: names first written beyond offset 16383 and used again
    for pad in (16300, 16384, 20000, 40000):
        recs = [rec(0, "ab.cd", dc.T_TXT, 1, data=b"p" * min(pad, 60000))] + \
               [rec(0, "late.name.example", dc.T_A, 2, data=b"\1\1\1\1"), rec(0, "late.name.example", dc.T_A, 3, data=b"\2\2\2\2"),
                rec(2, "www.late.name.example", dc.T_CNAME, 4, target="name.example")]
        big.append(scenario([("ab.cd", 16)], recs, "tcp"))
    # past 64 KiB over TCP
    trunc.append(scenario([("ab.cd", 16)], [rec(0, "ab.cd", dc.T_TXT, 1, data=b"q" * 30000) for _ in range(3)], "tcp"))
    return general, trunc, big


def run(tier, seed):
    q = tier == "quick"
    chk = vkit.Check("C35", tier, seed)
    exe = dc.driver()
    rng = random.Random(seed)
    # the reference decoder / encoder is checked for internal consistency on the request message space
    dc.gen_messages(chk, "C35_ref", {"Mode": "request", "FlagIdx": {1} if q else range(1, 4), "QIdx": range(1, 12), "RRIdx": range(1, 4),
                                     "ArIdx": range(1, 6), "CntIdx": {1, 2}, "CutSet": {0, 1}, "MaxAn": 1})
    general, trunc, big = build_corpus(rng, 120 if q else 1200, 25 if q else 150)
    bnd = boundary_family()
    trunc += bnd                      # judged in the same TLC run; only the limit+1 members may hit the truncation finding
    chk.cov["boundary_family"] = [[s["_limit"], plain_size(s)] for s in bnd]
    groups = [("general", general, None), ("truncated", trunc, KEY_TRUNC), ("beyond16k", big, KEY_PTR16K)]
    for gname, scen, key in groups:
        outs = vkit.run_driver(exe, [{k: v for k, v in s.items() if not k.startswith("_")} for s in scen], timeout=900)
        vecs, idx = [], []
        for i, (sc, o) in enumerate(zip(scen, outs)):
            chk.count_case({k: v for k, v in sc.items() if not k.startswith("_")}, nontrivial=len(sc["reply"]["recs"]) >= 1)
            if o is None or "crash" in o or o.get("leak") or len(o.get("resp", [])) != 1 or len(o.get("cb", [])) != 1 or \
                    any(a != 0 for a in o["cb"][0]["add"]):
                chk.violation("C35_%s: no single response / crash / leak: %s" % (gname, str(o)[:600]), {"scenario": sc, "actual": o})
                continue
            vecs.append(vector(sc, o["resp"][0])); idx.append(i)
        fails = dc.validate(chk, "C35_v_" + gname, vecs)
        for j, why in sorted(fails.items()):
            sc = scen[idx[j]]
            k = None
            if key == KEY_TRUNC and "counts describe" in why:
                k = key
            if key == KEY_PTR16K and ("pointer" in why or "counts describe" in why or "records differ" in why):
                k = key
            chk.violation("C35_%s: response is not a faithful encoding: %s (plain size %d, limit %d, %d records)" %
                          (gname, why, plain_size(sc), sc["_limit"], len(sc["reply"]["recs"])),
                          {"scenario": {k2: v for k2, v in sc.items()}, "response": outs[idx[j]]["resp"][0][:4000], "why": why}, key=k)
        if gname == "general":
            chk.sample({"group": gname, "questions": scen[0]["_q"], "records": scen[0]["reply"]["recs"][:3], "transport": scen[0]["tr"],
                        "response_hex": outs[0]["resp"][0][:200] if outs[0] and outs[0].get("resp") else None})
        vkit.log("[C35] %s: %d scenarios, %d rejected by the reference" % (gname, len(scen), len(fails)))
    chk.cov["rule"] = ("a fake client sends a query (UDP without / with OPT 1232 / 4096, or TCP) to a real evdns server port whose "
                       "callback adds a generated list of records (A/AAAA with several addresses, CNAME/PTR/NS name data, raw data of "
                       "0..40000 bytes, names sharing and not sharing suffixes, >128 distinct labels, sizes aimed just below / above each "
                       "limit); the bytes received are judged by TLC with DnsMsg!EncodeOK: decodes under the reference decoder into the "
                       "questions and exactly the added records in order, every pointer targets an earlier label of an earlier name, "
                       "TC only when the message cannot fit, counts never announce absent records.  A directed boundary family (names sharing no "
                       "suffix, so the encoded length is exactly computable: DnsMsg!BoundaryOK) has encoded length limit-1 / limit / limit+1 for "
                       "512 / 1232 / 4096: TC iff the length exceeds the limit.  non-trivial = at least one record.")
    chk.assumptions += ["the record lists are drawn by a seeded Python grammar (coverage device); the verdict on every response is TLC's",
                        "names handed to the server API are valid (labels 1..63 bytes, no empty labels)",
                        "over UDP the reply limit is max(512, OPT payload size of the request); the server's own OPT record (class 512) "
                        "is expected first in the additional section when the request had one"]
    return chk.finish()
