"""C28 - parsed URIs reassemble into URIs with identical components (Uri.tla, binding G)."""
from checks import util_common as uc
import vkit



def run(tier, seed):
    q = tier == "quick"
    chk = vkit.Check("C28", tier, seed)
    uc.driver()
    k = 2 if q else 3
    stats = {"parse_ok": 0, "parse_reject": 0, "set_joined": 0, "set_refused": 0, "set_unrepresentable": 0}
    recs, res = uc.gen(chk, "Uri", "C28_gen", {"K": k, "Bases": {"url", "rel", "unix"}}, ["All"], emit=None, need=(),
                       coverage=False, workers=vkit.NCPU)
    if not recs:
        raise vkit.InfraError("Uri generator printed nothing")
    # ---- parser: every (string, flag set)
    seen, cases, exp = set(), [], []
    for r in recs:
        for c, e in uc.uri_parse_cases(r["p"]):
            kk = (bytes(c["i"]), c["fl"])
            if kk not in seen:
                seen.add(kk); cases.append(c); exp.append(e)
    outs = uc.drive(cases)
    for e in exp:
        stats["parse_ok" if e["st"] == "ok" else "parse_reject"] += 1
    uc.compare(chk, "C28_parse", cases, exp, outs, known=uc.uri_known, limit=6, nontrivial=lambda c: len(c["i"]) >= 2)
    chk.sample({"gen": "parse", "case": cases[len(cases) // 3], "expected": exp[len(cases) // 3]})
    # ---- setters: distinct argument sets only (tuples differing in ignored tokens coincide)
    seen, uniq = set(), []
    for r in recs:
        for c, x in uc.uri_set_cases(r["s"]):
            kk = vkit.json.dumps([c["fl"], c["a"]], sort_keys=True)
            if kk not in seen:
                seen.add(kk); uniq.append((c, x))
    cases = [c for c, _ in uniq]
    outs = uc.drive(cases)
    exp = [uc.uri_set_expected(x, o) for (_, x), o in zip(uniq, outs)]
    for (_, x), o in zip(uniq, outs):
        if x["why"] != "ok":
            stats["set_unrepresentable"] += 1
        elif isinstance(o, dict) and o.get("jn") == 1:
            stats["set_joined"] += 1
        else:
            stats["set_refused"] += 1
    uc.compare(chk, "C28_set", cases, exp, outs, known=uc.uri_known, limit=6,
               nontrivial=lambda c: sum(1 for v in c["a"].values() if v != [-1] and v != -1) >= 2)
    chk.sample({"gen": "set", "case": cases[len(cases) // 3], "expected": exp[len(cases) // 3]})
    chk.cov["uri_stats"] = stats
    if stats["parse_ok"] < 100 or stats["parse_reject"] < 100 or stats["set_joined"] < 100:
        raise vkit.InfraError("vacuous URI corpus: %s" % stats)
    chk.cov["exhaustive"] = True
    chk.cov["rule"] = ("TLC enumerates every 7-component token tuple (scheme, userinfo, host incl. IP-literal/IPvFuture/"
                       "unix-socket authority, port, path, query, fragment; valid, invalid and structure-changing tokens) "
                       "that differs from a base tuple (absolute URL / relative reference / unix-socket URL) in at most K "
                       "components, decides RoundTrip, GrammarSound and SetterLaw on the byte-level RFC 3986 reference "
                       "parser and prints its result for all 8 flag sets; the real evhttp_uri_parse_with_flags result "
                       "(all getters), evhttp_uri_join (large and exact-size buffer) and the re-parse of the joined string "
                       "are compared for every (string, flags); setter-built URIs: every setter's return value, all "
                       "getters, and join-refuses-or-reparses-identically. non-trivial = input of >= 2 bytes.")
    chk.assumptions += [
        "named deviations: ports above 65535 rejected; an empty port equals an absent port; ports are numbers (0080 = 80)",
        "IPv6 literal validity inside brackets is a closed table in Uri.tla (decided by Inet.tla / C40)",
        "unix-socket authorities with text after the closing ':' (or without one) are left open; set_unixsocket only with "
        "EVHTTP_URI_UNIX_SOCKET and without host/port",
        "the joined string itself is not compared with the reference recomposition, only its re-parse",
    ]
    return chk.finish()


def replay(stored, seed):
    c = stored.get("case", stored)
    if c["case"].get("op") == "uriset":
        out = uc.drive([c["case"]])[0]
        exp = c["expected"]
        msg = vkit.deep_diff(exp, out, "")
        if msg:
            print("VIOLATION property=C28 replay=(stored case) %s" % msg[:1000]); return 1
        print("replayed case conforms to the specification's prediction"); return 0
    return uc.replay("C28", stored)
