"""C43 - RPC calls complete exactly once with the reply the server sent
(Rpc.tla, binding G: evrpc pool + evhttp/evrpc server on loopback in one loop, generated test RPC types,
virtual clock, hooks and faults scripted per call)."""
import json, os, shutil, subprocess
import vkit

KINDS = {"msg", "never", "junk", "norpc"}
HOOKS = {"co", "ci", "si", "so"}
HACTS = {"term", "pcont", "pterm"}
RAWK = {"valid", "junk", "empty", "get", "trunc", "wrongtype", "incomplete"}
ACTS = {"call", "resume", "adv", "late", "raw"}
INVS = ["TypeOK", "ExactlyOnce", "ReplyEqual", "HandlerOnlyWellFormed", "OneOnTheWire"]

# concrete request contents (index = content id of the specification - 1)
CONTENTS = [
    {"to": "tester", "how": "hand", "att": "", "nrun": 1, "nums": [1, 2], "big": 2 ** 40 + 5, "bytes": "00ff10"},
    {"to": "T" * 180, "how": "", "att": "feather", "nrun": 2, "nums": [0, 2 ** 31 + 7, 4294967295], "big": 2 ** 62 + 3,
     "bytes": "", "emptybytes": 1},
    {"to": "", "how": "h", "att": "x" * 130, "nrun": 0, "nums": []},
]


def expected_reply(k, c):
    """What the server handler (harness/rpc_drv.c: fill_reply) produces for call k with content c:
    a function of every field of the request, so request and reply marshalling are both covered."""
    ct = CONTENTS[c - 1]
    b = bytes.fromhex(ct.get("bytes", ""))
    has_bytes = len(b) > 0 or ct.get("emptybytes", 0)
    w = ct["how"] if ct["nrun"] > 0 else "norun"
    if ct["att"]:
        w += "|" + ct["att"]
    a = "%s|call-%d|" % (ct["to"], k)
    n = []
    for i in range(ct["nrun"]):
        if has_bytes:
            a += b.hex()
        a += "/"
        fixed = bytes(((b[x % len(b)] + x + i) & 0xff) if b else ((x + i) & 0xff) for x in range(24))
        a += fixed.hex() + ";"
        n += [(v + i) & 0xffffffff for v in ct["nums"]]
        if "big" in ct:
            big = ct["big"] + i
            n += [big & 0xffffffff, big >> 32]
        n.append(2 if i == 1 else 1)
    return {"w": w, "a": a, "n": n}


def consts(NC, D, masks, kinds=KINDS, hooks=HOOKS, hacts=HACTS, ncontent=1, raw=RAWK, acts=ACTS):
    return {"NC": NC, "D": D, "InitMasks": set(masks), "Kinds": set(kinds), "HookSel": set(hooks), "HookActs": set(hacts),
            "NContent": ncontent, "RawKinds": set(raw), "Acts": set(acts)}


def strip_obs(h):
    return [{k: v for k, v in s.items() if k != "o"} for s in h]


def build_driver():
    d = os.path.join(vkit.OUT, "tmp", "rpcgen_%d" % os.getpid())
    os.makedirs(d, exist_ok=True)
    shutil.copy(os.path.join(vkit.REPO, "test", "regress.rpc"), os.path.join(d, "regress.rpc"))
    r = subprocess.run(["python3", os.path.join(vkit.REPO, "event_rpcgen.py"), "--quiet", "regress.rpc"],
                       cwd=d, capture_output=True, text=True)
    if r.returncode != 0 or not os.path.exists(os.path.join(d, "regress.gen.c")):
        raise vkit.InfraError("event_rpcgen.py failed: %s" % (r.stderr[-2000:] or r.stdout[-2000:]))
    try:
        return vkit.cc("rpc_drv", ["rpc_drv.c", os.path.join(d, "regress.gen.c")], vclock=True, extra=["-I", d])
    finally:
        shutil.rmtree(d, ignore_errors=True)


def translate(h, out):
    """Project the driver's concrete observations onto the specification's abstract ones: a successful
    completion's reply fields become the content id when they equal what the handler produced for that
    call, -1 otherwise."""
    if not isinstance(out, dict) or "obs" not in out:
        return out
    cont = {s["k"]: s["c"] for s in h if s["a"] == "call"}
    obs = []
    for o in out["obs"]:
        o = dict(o)
        done = []
        for d in o.get("done", []):
            if d["e"]:
                rep = 0
            else:
                rep = cont.get(d["k"], 0) if {"w": d.get("w"), "a": d.get("a"), "n": d.get("n")} == \
                    expected_reply(d["k"], cont.get(d["k"], 1)) else -1
            done.append({"k": d["k"], "e": d["e"], "rep": rep})
        o["done"] = done
        obs.append(o)
    return {"obs": obs}


FINDING_KEY = "unstarted-abort-stalls-queue"


def avoid_known(h):
    """Open finding C43-unstarted-abort-stalls-queue: the specification models what evrpc.c does (named deviation
    NoRescheduleAfterUnstarted) and flags the resulting state; the general corpus stops before the first such
    step so that it neither masks other failures nor fails once the defect is fixed."""
    out = []
    for s in h:
        if s["o"].get("stall"):
            break
        s = dict(s)
        s["o"] = {k: v for k, v in s["o"].items() if k != "stall"}
        out.append(s)
    return out


def canonical_finding(chk, exe):
    """NeverReply call 1 occupies the connection, call 2 (aborted by its output hook) and call 3 are queued;
    the server answers call 1.  The property requires call 3 to complete."""
    nh = {"co": "cont", "ci": "cont", "si": "cont", "so": "cont"}
    h = [{"a": "init", "m": 4},
         {"a": "call", "k": 1, "kind": "never", "c": 1, "hk": nh},
         {"a": "call", "k": 2, "kind": "msg", "c": 1, "hk": dict(nh, co="term")},
         {"a": "call", "k": 3, "kind": "msg", "c": 1, "hk": nh},
         {"a": "late", "k": 1}, {"a": "adv", "t": 5}, {"a": "adv", "t": 5}]
    scen = {"cfg": {"nc": 3, "contents": CONTENTS}, "h": h}
    out = vkit.run_driver(exe, [scen])[0]
    chk.cov["traces_validated_against_impl"] += 1
    if not isinstance(out, dict) or "obs" not in out or len(out["obs"]) != len(h):
        chk.violation("canonical scenario of %s did not run: %s" % (FINDING_KEY, str(out)[:500]), {"scenario": scen, "driver": out})
        return
    comp = out["obs"][-1]["comp"]
    if comp[0] != 1 or comp[1] != 1:
        chk.violation("canonical scenario of %s: calls 1/2 completions %s (expected 1 each)" % (FINDING_KEY, comp),
                      {"scenario": scen, "driver": out})
    if comp[2] != 1:
        chk.violation("call 3 queued behind a call aborted by its output hook never completes (completions %s)" % comp,
                      {"scenario": scen, "driver": out}, key=FINDING_KEY)


def nontrivial(h):
    return sum(1 for s in h if s["a"] in ("call", "raw")) >= 1 and len(h) >= 3


def histogram(hists, outs, d, status):
    for h, o in zip(hists, outs):
        for i, s in enumerate(h):
            k = s["a"]
            if k == "call":
                k = "call:" + s["kind"]
                for hn, a in s["hk"].items():
                    if a != "cont":
                        d["hook:%s:%s" % (hn, a)] = d.get("hook:%s:%s" % (hn, a), 0) + 1
            if k == "raw":
                k = "raw:" + s["r"]
            d[k] = d.get(k, 0) + 1
            for c in s["o"]["done"]:
                kk = "completion:" + ("error" if c["e"] else "ok")
                d[kk] = d.get(kk, 0) + 1
        if isinstance(o, dict) and "obs" in o:
            for ob in o["obs"]:
                for c in ob.get("done", []):
                    status[str(c.get("st"))] = status.get(str(c.get("st")), 0) + 1


def run(tier, seed):
    q = tier == "quick"
    chk = vkit.Check("C43", tier, seed)
    exe = build_driver()

    # 1. the property on the reachable state graph of the bounded model
    mc = consts(2, 0, [5, 7] if q else range(0, 8), raw={"valid", "junk"}, acts=ACTS - {"raw"} if q else ACTS)
    cfg = vkit.write_cfg("C43_mc", mc, invariants=INVS, constraint="NoShare", view="StateView")
    res = vkit.tlc("Rpc", cfg, want_prints=False, coverage=True, workers=8, timeout=3000)
    chk.add_tlc("C43_mc", res)
    chk.check_coverage(res, ["Init0", "CallOp", "Resume", "Adv", "Late"] + ([] if q else ["Raw"]), "C43_mc")
    chk.cov["exhaustive"] = True

    gens = [
        # every request content through Message, with and without hooks installed: reply equality after marshalling
        dict(name="C43_exh_content", consts=consts(2, 3, [0, 4, 5], kinds={"msg"}, hooks=set(), ncontent=3, acts={"call"})),
        # every history: two calls of every kind, one deviating hook each, resumes, time, late replies
        dict(name="C43_exh_calls", consts=consts(2, 4 if q else 5, [0, 1, 5, 6, 7] if q else range(0, 8), raw=set(),
                                                 acts=ACTS - {"raw"})),
        # malformed / foreign requests sent straight to the Message RPC
        dict(name="C43_exh_raw", consts=consts(1, 4, [0, 4], kinds={"msg", "never"}, hooks={"si"}, hacts={"pcont"})),
        # long random histories
        dict(name="C43_rand", simulate=60 if q else 3000, depth=40,
             consts=consts(3, 10 if q else 14, range(0, 8), ncontent=3)),
    ]
    hg, status = {}, {}
    for g in gens:
        c = g["consts"]
        cfg = vkit.write_cfg(g["name"], c, invariants=INVS + ["Emit"], constraint="GenConstraint")
        hists, seen = [], set()

        def sink(v, hists=hists, seen=seen):
            v = avoid_known(v)
            if len(v) < 2:
                return
            k = hash(json.dumps(strip_obs(v), sort_keys=True))
            if k not in seen:
                seen.add(k)
                hists.append(v)
        res = vkit.tlc("Rpc", cfg, simulate=g.get("simulate"), depth=g.get("depth"),
                       seed=seed if g.get("simulate") else None, print_sink=sink,
                       workers=8 if g.get("simulate") else vkit.NCPU, timeout=3000)
        chk.add_tlc(g["name"], res)
        if not hists:
            raise vkit.InfraError("generator %s produced no histories" % g["name"])
        vkit.log("[C43] %s: %d histories" % (g["name"], len(hists)))
        scen = [{"cfg": {"nc": c["NC"], "contents": CONTENTS}, "h": strip_obs(h)} for h in hists]
        raw_outs = vkit.run_driver(exe, scen, timeout=900)
        # environment failures of the scenario set-up (no port) are retried, never compared
        bad = [i for i, o in enumerate(raw_outs) if isinstance(o, dict) and o.get("err")]
        if bad:
            again = vkit.run_driver(exe, [scen[i] for i in bad], shards=1, timeout=900)
            for i, o in zip(bad, again):
                if isinstance(o, dict) and o.get("err"):
                    raise vkit.InfraError("scenario set-up failed twice: %s" % o.get("err"))
                raw_outs[i] = o
            chk.cov["setup_retries"] = chk.cov.get("setup_retries", 0) + len(bad)
        outs = [translate(h, o) for h, o in zip(hists, raw_outs)]
        fails = vkit.compare_histories(hists, outs)
        chk.cov["traces_validated_against_impl"] += len(hists)
        for h in hists:
            chk.count_case(strip_obs(h), nontrivial(h))
        h = hists[len(hists) // 2]
        chk.sample({"gen": g["name"], "history": strip_obs(h), "predicted_obs": [s["o"] for s in h]})
        histogram(hists, raw_outs, hg, status)
        for (i, k, msg) in fails[:5]:
            key = json.dumps(strip_obs(hists[i][:k + 1]), sort_keys=True, separators=(",", ":"))
            chk.violation("%s scenario %d step %d: %s" % (g["name"], i, k, msg),
                          {"cfg": scen[i]["cfg"], "h": hists[i], "fail_step": k, "msg": msg,
                           "driver": raw_outs[i]}, key=key)
        if fails:
            vkit.log("[C43] %s: %d/%d failed; first: %s" % (g["name"], len(fails), len(hists), fails[0][2][:400]))
    canonical_finding(chk, exe)
    chk.cov["op_histogram"] = hg
    chk.cov["status_histogram"] = status
    need = ["call:msg", "call:never", "call:junk", "call:norpc", "resume", "adv", "late", "completion:ok", "completion:error",
            "raw:valid", "raw:junk", "raw:empty", "raw:get", "raw:trunc", "raw:wrongtype", "raw:incomplete"] + \
           ["hook:%s:%s" % (h, a) for h in sorted(HOOKS) for a in sorted(HACTS)]
    missing = [o for o in need if hg.get(o, 0) == 0]
    if missing:
        raise vkit.InfraError("vacuous scenario corpus: never generated: %s" % missing)
    chk.cov["rule"] = ("TLC decides ExactlyOnce / ReplyEqual / HandlerOnlyWellFormed on the reachable state graph of Rpc.tla; "
                       "TLC-generated histories (exhaustive at the stated depth, plus random long ones) are replayed on a real "
                       "evrpc_pool + evhttp/evrpc server (generated regress.rpc types) and after every step the completion "
                       "callbacks that ran (call, error or not, reply fields == what the handler produced for that request), "
                       "the per-call completion counts, the per-call handler invocation counts and the HTTP status of raw "
                       "requests are compared with the specification's prediction.")
    chk.assumptions += [
        "one pool connection, <= 3 calls; at most one deviating hook per call",
        "only the error/success class of the completion status is compared (the property fixes 'an error status'); exact codes are recorded in status_histogram",
        "named deviation TimeoutSkipsInputHooks (see Rpc.tla); NoRescheduleAfterUnstarted is the open finding "
        "unstarted-abort-stalls-queue: histories are cut before the first step that reaches the stalled state and the "
        "finding's canonical scenario is run separately",
        "not covered: connection failure at every byte of the exchange (only connection refused), two requests sharing one "
        "connection queue after a client-output pause (NoShare), changing the pool timeout between calls",
        "virtual clock (link-time wrapping); the loop is run with EVLOOP_NONBLOCK until quiescent after every step",
    ]
    return chk.finish()


def replay(case, seed):
    exe = build_driver()
    c = case["case"]
    if "scenario" in c:      # the canonical scenario of the open finding
        out = vkit.run_driver(exe, [c["scenario"]])[0]
        comp = out["obs"][-1]["comp"] if isinstance(out, dict) and out.get("obs") else None
        if comp != [1, 1, 1]:
            print("VIOLATION property=C43 replay=(replayed)")
            vkit.log("  completions %s, expected [1, 1, 1]" % comp)
            return 1
        return 0
    out = vkit.run_driver(exe, [{"cfg": c["cfg"], "h": strip_obs(c["h"])}])[0]
    fails = vkit.compare_histories([c["h"]], [translate(c["h"], out)])
    for f in fails:
        print("VIOLATION property=C43 replay=(replayed)")
        vkit.log("  step %d: %s" % (f[1], f[2]))
    return 1 if fails else 0
