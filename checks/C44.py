"""C44 - an evconnlistener hands every accepted connection to its callback exactly once
(Listener.tla, binding G: real listener on loopback, real clients, accept4 scripted at link time)."""
import json
import vkit

ACTS = {"connect", "loop", "enable", "disable", "setcb", "seterr", "free"}
FAILS = ["again", "intr", "abort", "emfile", "enfile", "nomem"]
FREE2 = {"disfree", "nullfree", "enfree", "disenfree"}     # two calls from one callback, the second being free
CBACTS = {"disable", "free", "setnull", "setfn2", "disen"} | FREE2
INVS = ["TypeOK", "DeliveredExactlyOnceOrClosed", "NoLeak", "QueueOK", "ArmedOK", "ErrorCbOnNonRetriable",
        "SocketClosedIffCloseOnFree"]
PROPS = ["NothingWhileDisabled"]


def ascripts(maxok, fails, oks=("ok",)):
    """k successful accepts (k <= maxok) followed by one failure; plus the empty script."""
    s = {()}
    for f in fails:
        s.add((f,))
        for o in oks:
            for k in range(1, maxok + 1):
                s.add(tuple([o] * k + [f]))
    return s


CODES = ["ok", "nosys", "zlen", "again", "intr", "abort", "emfile", "enfile", "nomem"]


def encode(script):
    n = 0
    for x in script:
        n = n * 10 + CODES.index(x) + 1
    return n


def consts(N, D, masks, acts=ACTS, ascr=((),), cbacts=CBACTS, cbpos=2, erracts=("none",)):
    return {"N": N, "D": D, "NewMasks": set(masks), "Acts": set(acts), "AScripts": set(encode(a) for a in ascr),
            "CbActs": set(cbacts), "CbPos": cbpos, "ErrActs": set(erracts)}


def strip_obs(h):
    return [{k: v for k, v in s.items() if k != "o"} for s in h]


def nontrivial(h):
    """at least one connection made and one loop step that ran a callback, closed a connection or saw an error,
    or a free/disable with a connection pending."""
    conn = any(s["a"] == "connect" for s in h)
    act = any(s["a"] == "loop" and (s["o"]["cb"] or s["o"]["err"] or s["as"]) for s in h) or \
        any(s["a"] in ("free", "disable", "setcb") for s in h)
    return conn and act


def generate(chk, name, c, *, simulate=None, depth=None, seed=None, workers=None, chunk=20000, consume=None):
    """Run TLC as history generator.  Histories are handed to consume(list) in chunks (memory stays bounded:
    TLC blocks on its output pipe while a chunk is being replayed); returns the number of distinct histories."""
    cfg = vkit.write_cfg(name, c, invariants=INVS + ["Emit"], constraint="GenConstraint")
    buf, seen = [], set()

    def sink(v):
        # the simulator re-evaluates the invariant on retried successors: dedupe
        k = hash(json.dumps(strip_obs(v), sort_keys=True))
        if k in seen:
            return
        seen.add(k)
        buf.append(v)
        if len(buf) >= chunk:
            consume(list(buf))
            del buf[:]
    res = vkit.tlc("Listener", cfg, simulate=simulate, depth=depth, seed=seed, print_sink=sink,
                   workers=workers or 4, timeout=3000)
    if buf:
        consume(list(buf))
    chk.add_tlc(name, res)
    if not seen:
        raise vkit.InfraError("generator %s produced no histories" % name)
    return len(seen)


def histogram(hists, d):
    for h in hists:
        for s in h:
            k = s["a"]
            d[k] = d.get(k, 0) + 1
            if k == "loop":
                for e in s["as"]:
                    d["accept:" + e] = d.get("accept:" + e, 0) + 1
                for e in s["cs"]:
                    if e != "none":
                        d["incb:" + e] = d.get("incb:" + e, 0) + 1
                if s["es"] != "none":
                    d["inerrcb:" + s["es"]] = d.get("inerrcb:" + s["es"], 0) + 1
                d["delivered"] = d.get("delivered", 0) + len(s["o"]["cb"])
                d["errcb"] = d.get("errcb", 0) + len(s["o"]["err"])
                if 2 in s["o"]["cs"]:
                    d["closed_seen"] = d.get("closed_seen", 0) + 1
    return d


def replay_corpus(chk, exe, hists, n, label, limit=5):
    scen = [{"cfg": {"n": n}, "h": strip_obs(h)} for h in hists]
    outs = vkit.run_driver(exe, scen, timeout=900, shards=8)
    fails = vkit.compare_histories(hists, outs)
    if fails:
        # a mismatch must repeat to count (loopback delivery of FIN/RST is the only asynchronous element)
        idx = sorted(set(i for (i, _, _) in fails))
        outs2 = vkit.run_driver(exe, [scen[i] for i in idx], shards=1, timeout=900)
        fails2 = vkit.compare_histories([hists[i] for i in idx], outs2)
        again = {idx[j]: (k, m) for (j, k, m) in fails2}
        flaky = [i for i in idx if i not in again]
        if flaky:
            chk.cov["flaky_not_repeated"] = chk.cov.get("flaky_not_repeated", 0) + len(flaky)
        fails = [(i, k, m) for (i, k, m) in fails if i in again]
    chk.cov["traces_validated_against_impl"] += len(hists)
    for (i, k, msg) in fails[:limit]:
        key = json.dumps(strip_obs(hists[i][:k + 1]), sort_keys=True, separators=(",", ":"))
        chk.violation("%s scenario %d step %d: %s" % (label, i, k, msg),
                      {"cfg": {"n": n}, "h": hists[i], "fail_step": k, "msg": msg}, key=key)
    if fails:
        vkit.log("[replay] %s: %d/%d failed; first: %s" % (label, len(fails), len(hists), fails[0][2][:400]))
    return len(fails)


def run(tier, seed):
    q = tier == "quick"
    chk = vkit.Check("C44", tier, seed)
    exe = vkit.cc("listener_drv", ["listener_drv.c"], extra=["-Wl,--wrap=accept4"])

    # 1. the property on the complete reachable state graph of the bounded model (hist hidden by the VIEW)
    full_as = ascripts(2, FAILS, oks=("ok", "nosys", "zlen")) | {("zlen",), ("nosys",), ("zlen", "zlen")}
    quick_as = ascripts(1, FAILS, oks=("ok", "nosys", "zlen")) | {("zlen",), ("nosys",)}
    mc = consts(3 if q else 4, 0, range(0, 8), ascr=quick_as if q else full_as, cbpos=2 if q else 3,
                erracts=("none", "disable", "free", "disfree"))
    cfg = vkit.write_cfg("C44_mc", mc, invariants=INVS, properties=PROPS, view="StateView")
    res = vkit.tlc("Listener", cfg, want_prints=False, coverage=True, workers=4)
    chk.add_tlc("C44_mc", res)
    chk.check_coverage(res, ["New", "Connect", "Enable", "Disable", "SetCb", "SetErr", "Free", "Loop"], "C44_mc")
    chk.cov["exhaustive"] = True

    # 2. generated histories replayed on the real listener
    fault_scripts = {("zlen",), ("nosys",), ("ok", "zlen"), ("zlen", "emfile"), ("nosys", "nomem")}
    gens = [
        # every history of the core API (no accept faults), callbacks doing every re-entrant call
        dict(name="C44_exh_core", n=3,
             consts=consts(3, 5 if q else 6, [0, 1, 2, 3, 6, 7], acts=ACTS - {"seterr"})),
        # two calls from one callback invocation ending in free (accept callback and error callback), every creation
        # variant that matters for it: the socket must be closed iff CLOSE_ON_FREE and nothing may leak
        dict(name="C44_exh_free2", n=2,
             consts=consts(2, 5, [2, 3, 7, 3 + 32], acts={"connect", "loop", "seterr"}, ascr=((), ("emfile",), ("ok", "nomem")),
                           cbacts=FREE2 | {"free"}, cbpos=2, erracts=("none", "free", "disfree"))),
        # accept faults: every script position x every failure, error callback doing nothing / disable / free
        dict(name="C44_exh_faults", n=3,
             consts=consts(3, 5, [3] if q else [2, 3], acts={"connect", "loop", "seterr", "free"},
                           ascr=(ascripts(1, ["again", "emfile"]) | {("zlen",), ("nosys",), ("zlen", "emfile")}) if q
                           else (ascripts(1, FAILS) | fault_scripts),
                           cbacts={"free", "disable"}, cbpos=1, erracts=("none", "disable", "free"))),
        # accepted-socket flags and the locking variant
        dict(name="C44_exh_flags", n=2,
             consts=consts(2, 4 if q else 6, [2 + 8 + 16 + 32, 3 + 16, 7 + 32 + 8] if q else
                           [2 + 8, 3 + 16, 2 + 8 + 16 + 32, 3 + 32, 1 + 32, 7 + 32 + 8],
                           acts=ACTS - {"seterr"}, ascr=((), ("nosys",)), cbacts={"free", "setfn2"}, cbpos=2)),
        # long random histories with everything at once
        dict(name="C44_rand", n=4, simulate=40 if q else 6000, depth=40,
             consts=consts(4, 16 if q else 22, list(range(0, 8)) + [10, 19, 35, 39, 63], ascr=quick_as if q else full_as,
                           cbpos=2 if q else 3,
                           erracts=("none", "disable", "free", "disfree"))),
    ] + ([] if q else [
        # one step deeper for the two most common creation variants, and two-accept fault scripts
        dict(name="C44_exh_core7", n=3, consts=consts(3, 7, [2, 3], acts=ACTS - {"seterr"})),
        dict(name="C44_exh_faults2", n=3,
             consts=consts(3, 5, [2, 3], acts={"connect", "loop", "seterr", "free"},
                           ascr=ascripts(2, FAILS) | fault_scripts, cbacts={"free", "disable"}, cbpos=2,
                           erracts=("none", "disable", "free"))),
    ])
    hg = {}
    for g in gens:
        sampled = []

        def consume(hs, g=g, sampled=sampled):
            for h in hs:
                chk.count_case(strip_obs(h), nontrivial(h))
            if not sampled:
                h = hs[len(hs) // 2]
                chk.sample({"gen": g["name"], "history": strip_obs(h), "predicted_obs": [s["o"] for s in h]})
                sampled.append(1)
            histogram(hs, hg)
            replay_corpus(chk, exe, hs, g["n"], g["name"])
        n = generate(chk, g["name"], g["consts"], simulate=g.get("simulate"), depth=g.get("depth"),
                     seed=seed if g.get("simulate") else None, consume=consume)
        vkit.log("[C44] %s: %d histories" % (g["name"], n))
    chk.cov["op_histogram"] = hg
    need = ["connect", "loop", "enable", "disable", "setcb", "seterr", "free", "delivered", "errcb", "closed_seen",
            "incb:free", "incb:disable", "incb:setnull", "incb:setfn2", "inerrcb:free", "inerrcb:disable",
            "incb:disfree", "incb:nullfree", "incb:enfree", "incb:disenfree", "inerrcb:disfree",
            "accept:zlen", "accept:nosys"] + ["accept:" + f for f in (["again", "emfile", "nomem"] if q else FAILS)]
    missing = [o for o in need if hg.get(o, 0) == 0]
    if missing:
        raise vkit.InfraError("vacuous scenario corpus: never generated: %s" % missing)
    chk.cov["rule"] = ("TLC decides the invariants and NothingWhileDisabled on the complete reachable state graph of "
                       "Listener.tla for N connections; TLC then enumerates every API history of the stated depth "
                       "(exhaustive configs) and simulates long random ones; each history is replayed on a real "
                       "evconnlistener (127.0.0.1:0, real clients, accept4 answering from the script) and after every "
                       "step return value, fds owned by the listener (probe of the process fd table), listening socket open or not, "
                       "what every client sees, and per loop step the accept-callback log (connection identified by "
                       "peer port, callback identity, O_NONBLOCK/FD_CLOEXEC of the fd, address == getpeername) and the "
                       "error-callback log (errno) are compared. distinct = distinct op sequences; non-trivial = a "
                       "connection was made and a callback/closing/failing loop step or free/disable/set_cb happened.")
    chk.assumptions += [
        "event-based listener (listener.c without IOCP), epoll backend, IPv4 loopback",
        "named deviation DropOneWhenNoCb: armed with cb == NULL one run of the read callback accepts and closes exactly one connection",
        "named deviation NotArmedWithoutCb: enabled with cb == NULL nothing is accepted until a callback is set",
        "injected ECONNABORTED/EINTR/EAGAIN leave the kernel queue untouched (the wrapper fails before the syscall)",
        "the kernel resets connections still queued when the listening socket is closed (Linux behaviour, observed by the clients)",
        "a mismatch is re-run once and only reported if it repeats (FIN/RST delivery on loopback)",
    ]
    return chk.finish()


def replay(case, seed):
    exe = vkit.cc("listener_drv", ["listener_drv.c"], extra=["-Wl,--wrap=accept4"])
    c = case["case"]
    outs = vkit.run_driver(exe, [{"cfg": c["cfg"], "h": strip_obs(c["h"])}])
    fails = vkit.compare_histories([c["h"]], outs)
    for f in fails:
        print("VIOLATION property=C44 replay=%s" % "(replayed)")
        vkit.log("  step %d: %s" % (f[1], f[2]))
    return 1 if fails else 0

