"""C19 - bufferevent callbacks follow a well-formed life-cycle (Bev.tla, binding G).

Socket bufferevents connecting to a listening / refusing loopback port (immediate and deferred
callbacks), and pair / filter / socket bufferevents that are freed, or have their callbacks cleared, from
outside and from inside their own or their partner's callbacks: the exact sequence of user callbacks
with their event flags is compared with the specification after every step (ASan watches the frees)."""
from checks import bev_common as bc

LIFE = {"write", "enable", "disable", "loop", "script", "free", "clr"}
EX = ("none", "free", "freep", "clr", "disR", "w1")


def run(tier, seed):
    q = tier == "quick"
    inv = ["TypeOK", "NothingAfterFree", "ConnectedOnceAndFirst", "EofAtMostOnce"]
    C = lambda cm, df, D: bc.consts("sock", {"write", "enable", "disable", "loop", "script", "connect", "free", "clr", "shut"}, D,
                                    sizes=(1, 2), durs=(0,), drains=(0, 99), defer=df, wms=((0, 0),), conn=cm,
                                    extras=("none", "free", "w1", "clr"), xkinds=("r", "w", "e"))
    df = seed % 2 == 0
    known = dict(name="C19_known_conn", key="sock-cb-before-connected", take=6,
                 consts=bc.consts("sock", {"write", "enable", "loop", "connect"}, 5, sizes=(1,), durs=(0,), drains=(0,),
                                  wms=((0, 0),), conn="ok", allow=("sock_cb_before_connected",)))
    PF = lambda D: bc.consts("pair", LIFE | {"flush", "finish"}, D, sizes=(1, 2), drains=(0, 1, 99), wms=((0, 0),), durs=(0,),
                             extras=EX, xkinds=("r", "w", "e"), script_until=3)
    FF = lambda D: bc.consts("filt", LIFE, D, sizes=(1, 2), drains=(0, 99), wms=((0, 0),), durs=(0,),
                             extras=("none", "free", "freep", "clr"), xkinds=("r", "w"), script_until=3)
    SF = lambda D: bc.consts("sock", LIFE | {"shut"}, D, sizes=(1, 2), drains=(0, 99), wms=((0, 0),), durs=(0,),
                             extras=("none", "free", "clr", "w1"), xkinds=("r", "w", "e"), script_until=3)
    DIRA = {"write", "enable", "loop", "connect", "shut", "trig", "script", "free", "clr"}
    # directed: deferred connect whose peer already sent / hung up when the client's loop first runs, and two
    # trigger_event(DEFER) calls before one loop (several event conditions coalesce into one deferred run: none is lost)
    CDEF = dict(name="C19_conn_deferred", scripts=bc.conn_deferred_family(),
                consts=bc.consts("sock", DIRA, 9, sizes=(1, 2), wms=((0, 0),), durs=(0,), drains=(0, 99), conn="ok", defer=True))
    # directed: refused connect, then the application re-arms writing: no CONNECTED, one ERROR|WRITING
    CREF = lambda d: dict(name="C19_refused_rearm_" + ("def" if d else "imm"), scripts=bc.conn_refused_family(),
                          consts=bc.consts("sock", DIRA, 9, sizes=(1, 2), wms=((0, 0),), durs=(0,), drains=(0, 99),
                                           conn="refused", defer=d))
    # directed (C10's bufferevent clause): released from inside its own callback + event_base_loopbreak, then
    # event_base_free: every finalizer / free_context exactly once, nothing afterwards (ASan watches the releases)
    FB = lambda k: dict(name="C19_free_break_" + k, scripts=bc.free_break_family(k),
                        consts=bc.consts(k, {"write", "enable", "loop", "script", "flush", "finish", "basefree"}, 9, sizes=(1, 2),
                                         wms=((0, 0),), durs=(0,), drains=(0, 99), extras=("none", "freebrk"),
                                         xkinds=("r", "w", "e"), defer=(k == "sock")))
    # directed: flush on a pair endpoint whose partner is already freed keeps no reference: the survivor is finalized
    # exactly once (cleanup count of a by-reference chunk in its output, observed at event_base_free)
    FSV = dict(name="C19_flush_survivor", scripts=bc.flush_survivor_family(),
               consts=bc.consts("pair", {"write", "writeref", "enable", "loop", "flush", "finish", "free", "basefree"}, 9, sizes=(1, 2),
                                wms=((0, 0),), durs=(0,), drains=(0, 99)))
    quick_gen = [
        # every 5-step history of connect / enable / write / loop on a connecting socket (immediate callbacks): the bounded
        # model check of the quick tier (every 4th history is replayed); the histories that meet the known finding's trigger are its canonical scenarios
        dict(name="C19_conn_exh", consts=known["consts"], known_keys={8: "sock-cb-before-connected"}, take=6, invariants=inv, sample=4),
        dict(name="C19_conn_refused_" + ("def" if df else "imm"), consts=C("refused", df, 6), simulate=12),
        dict(name="C19_pair_free", consts=PF(9), simulate=40),
        dict(name="C19_sock_free", consts=SF(9), simulate=20) if seed % 2 else dict(name="C19_filt_free", consts=FF(9), simulate=20),
        CDEF, CREF(df), FB("pair"), FB("filt"), FB("sock"), FSV,
    ]
    plan = {
        "mc": [] if q else [("C19_mc_pair", bc.consts("pair", LIFE | {"flush", "finish"}, 5, sizes=(1,), drains=(0, 99), wms=((0, 0),),
                                                      durs=(0,), extras=("none", "free", "freep"), xkinds=("r", "e"), script_until=2), inv)],
        "gen": quick_gen if q else [
            dict(name="C19_conn_ok_imm", consts=C("ok", False, 11), simulate=200),
            dict(name="C19_conn_ok_def", consts=C("ok", True, 11), simulate=200),
            dict(name="C19_conn_refused_imm", consts=C("refused", False, 8), simulate=100),
            dict(name="C19_conn_refused_def", consts=C("refused", True, 8), simulate=100),
            dict(name="C19_pair_free", consts=PF(12), simulate=400),
            dict(name="C19_filt_free", consts=FF(12), simulate=200),
            dict(name="C19_sock_free", consts=SF(12), simulate=300),
            CDEF, CREF(False), CREF(True), FB("pair"), FB("filt"), FB("sock"), FSV,
        ],
        "known": [] if q else [known],
        "monitor_by_kind": {k: bc.mon_c19(k) for k in ("pair", "filt", "sock")},
        "need": ["connect", "free", "clr", "cb:e:f128", "cb:e:f32", "cb:e:f17", "cb:r", "cb:w"],
        "rule": "TLC simulates histories of the Bev specification: bufferevent_socket_connect to a listening / refusing "
                "loopback port with data in both directions, and free / setcb(NULL) of pair, filter and socket bufferevents "
                "from outside and from inside read/write/event callbacks (own and partner); each is replayed on the real "
                "library (ASan build) and the exact callback sequence with flags, plus buffer lengths and enabled state, is "
                "compared after every step; a direct monitor checks CONNECTED once and first, no callback after free, "
                "EOF/ERROR once per direction on the real callback log.",
        "assumptions": ["hostname connects (evdns) and base free are not generated; TLS is out of scope (no TLS build)",
                        "after a refused connect only free / setcb are applied to the bufferevent; its enabled state is left open "
                        "(it depends on whether the kernel reports the refusal synchronously)",
                        "reading is not re-enabled after EOF was reported",
                        "socket endpoints live on separate event bases; descriptors stay open until teardown",
                        "the reference count is internal: its non-negativity is observed through EVUTIL_ASSERT/ASan only"],
    }
    return bc.standard_run("C19", tier, seed, plan)
