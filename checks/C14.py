"""C14 - failed evbuffer operations (allocation failure) leave the buffer unchanged (Evbuffer.tla, binding G with
fault injection): every scenario is re-run once per n with the n-th allocation made by the library failing."""
import json
import vkit
from checks import evbuffer_common as ec

EMPTY_Q = {"n": 0, "c": "", "co": "", "sf": [""], "pk": [""], "pa": [-1], "se": [[-1]] * 5, "sr": [], "el": [[[-1, 0]]] * 5,
           "fr": [0, 0]}
ACTS = {"add", "addref", "prepend", "printf", "rescommit", "addbuf", "prependbuf", "rmbuf", "addbufref", "addfile",
        "drain", "remove", "pullup", "expand", "readln"}
CB = {"cbadd", "cbdel", "cbflag"}
# open findings, keyed by the operation whose allocation failed
KNOWN = {"rmbuf": "allocfail-remove-buffer-loses-bytes", "addbufref": "allocfail-add-buffer-reference-silent",
         "prepend": "allocfail-prepend-partial"}


absorbed = []      # set by judge(): the faulted call matched the success prediction (the failure was absorbed)


def failure_alternatives(st, prev_q, cbmode):
    """Observations the property allows for step `st` when an allocation failed inside it, besides full success:
    the call reports failure and both buffers (and the callbacks) are exactly as before."""
    a = st["a"]
    unchanged = {"q": prev_q}
    if cbmode:
        unchanged["cb"] = []
    alts = []
    if a in ("add", "addref", "prepend", "printf", "rescommit", "expand", "addfile", "addbuf", "prependbuf", "rmbuf",
             "addbufref", "cbadd"):
        alts.append(dict(unchanged, r=-1))
    if a == "addiov":      # returns the number of bytes added: nothing, or exactly the first vector
        alts.append(dict(unchanged, r=0))
    if a == "readln":
        alts.append(dict(unchanged, r=0, d="", nr=0))
    if a == "pullup":
        alts.append(dict(unchanged, r=0, d=""))
    return alts


def judge(h, out, cbmode, stopfault=False):
    """Returns None or (step, message, op-name-of-faulted-step)."""
    if out is None:
        return (-1, "no driver output", None)
    if "crash" in out:
        return (-1, "driver crashed: " + out["crash"], None)
    steps = out["obs"]
    del absorbed[:]
    prev_q = [EMPTY_Q, EMPTY_Q]
    prev_af = 0
    diverged = False
    for k, st in enumerate(h):
        if k >= len(steps):
            if diverged or (stopfault and prev_af):
                break
            return (k, "driver stopped early", None)
        act = steps[k]
        sc = ec.side_conditions(act)
        if sc:
            return (k, sc, h[k]["a"] if act["af"] != prev_af or diverged else None)
        if diverged:
            continue            # after a reported failure the pre-computed history no longer applies: side conditions only
        faulted = act["af"] != prev_af
        prev_af = act["af"]
        d = vkit.deep_diff(st["o"], act, "step%d(%s)" % (k, st["a"]))
        if d is None:
            prev_q = st["o"]["q"]
            if faulted and stopfault:
                absorbed.append(True)
            continue
        if not faulted:
            return (k, d, None)
        for alt in failure_alternatives(st, prev_q, cbmode):
            if vkit.deep_diff(alt, act, "") is None:
                diverged = True
                break
        else:
            return (k, "allocation failed inside %s: neither the full effect nor (failure, unchanged): %s; got r=%r lengths=%r contents=%r"
                    % (st["a"], d, act.get("r"), [x["n"] for x in act["q"]], [x["c"] for x in act["q"]]), st["a"])
    e = out.get("end", {})
    if e.get("leak"):
        return (len(h) - 1, "memory leaked after an allocation failure: %r" % e, "leak")
    return None


def run(tier, seed):
    q = tier == "quick"
    chk = vkit.Check("C14", tier, seed)
    exe = ec.build()
    assert ec.PATS and len(EMPTY_Q["se"]) == len(ec.PATS)
    ec.model_check(chk, "C14_mc", ec.consts(ACTS, 2, wa=2, wb=3, data=("a", "aCL"), nsel=(1, 9), sizes=(0,)))
    gens = [
        dict(name="C14_exh2", consts=ec.consts(ACTS - {"addiov", "printf"}, 2, wa=1021, wb=4099, data=("a", "bLa"), nsel=(1, 9),
                                               sizes=(5000,)), max_hist=None if not q else 4000, stride=18 if q else 2),
        # prepend into a first chain with some, but not enough, misalign space (add, drain part, prepend more)
        dict(name="C14_exh_prepend", consts=ec.consts({"add", "drain", "prepend"}, 3, wa=1021, wb=4099, data=("bLa",), nsel=(1,))),
        dict(name="C14_rand", consts=ec.consts(ACTS, 12 if q else 20, wa=331, wb=1021, data=("", "a", "b", "aCL", "bLa"),
                                               nsel=(0, 1, 2, 9), sizes=(0, 2000, 5000), maxlen=8),
             simulate=3 if q else 30, depth=60),
        dict(name="C14_rand_cb", consts=ec.consts(ACTS | CB, 12 if q else 20, wa=37, wb=4099, data=("a", "b", "aCL"),
                                                  nsel=(1, 2, 9), sizes=(2000,), maxlen=8, cbmode=1),
             simulate=3 if q else 30, depth=60),
    ]
    nfault = 0
    faulted_ops = {}
    for g in gens:
        c = g["consts"]
        hs = ec.generate(chk, g["name"], c, simulate=g.get("simulate"), depth=g.get("depth"), seed=seed if g.get("simulate") else None)
        if g.get("stride"):
            hs = hs[seed % g["stride"]::g["stride"]]
        if not hs:
            raise vkit.InfraError("generator %s produced no histories" % g["name"])
        # pass 0: no fault; must conform completely, yields the number of allocations per scenario
        outs, fails = ec.replay(chk, exe, hs, c, label=g["name"] + "/nofault")
        scen, idx = [], []
        for i, (h, o) in enumerate(zip(hs, outs)):
            if not o or "crash" in o:
                continue
            for n in range(1, int(o.get("allocs", 0)) + 1):
                scen.append({"cfg": ec.drv_cfg(c, failn=n, stopfault=1), "h": ec.strip_obs(h)})
                idx.append((i, n))
        outs2 = vkit.run_driver(exe, scen)
        chk.cov["traces_validated_against_impl"] += len(scen)
        nfault += len(scen)
        reported = 0
        verdicts, again = {}, []
        for j, ((i, n), o) in enumerate(zip(idx, outs2)):
            h = hs[i]
            chk.count_case([c["WA"], c["WB"], n, ec.strip_obs(h)], True)
            if o and "obs" in o:
                af = 0
                for k, s in enumerate(o["obs"]):
                    if s["af"] != af:
                        faulted_ops[h[k]["a"]] = faulted_ops.get(h[k]["a"], 0) + 1
                        break
            v = judge(h, o, c["CbMode"], stopfault=True)
            if not v and absorbed:
                again.append(j)      # the library absorbed the failure: the rest of the history must still conform exactly
            verdicts[j] = v
        outs3 = vkit.run_driver(exe, [{"cfg": ec.drv_cfg(c, failn=idx[j][1]), "h": ec.strip_obs(hs[idx[j][0]])} for j in again])
        chk.cov["traces_validated_against_impl"] += len(again)
        for j, o2 in zip(again, outs3):
            verdicts[j] = judge(hs[idx[j][0]], o2, c["CbMode"])
        for j, (i, n) in enumerate(idx):
            v, h = verdicts[j], hs[i]
            if v:
                k, msg, opname = v
                key = KNOWN.get(opname)
                if key or reported < 5:
                    chk.violation("%s failn=%d scenario %d step %d: %s" % (g["name"], n, i, k, msg),
                                  {"cfg": ec.drv_cfg(c, failn=n), "h": h, "fail_step": k, "msg": msg}, key=key)
                if not key:
                    reported += 1
                    if reported <= 3:
                        vkit.log("[C14] %s failn=%d step %d: %s\n   ops=%s" % (g["name"], n, k, msg[:700], json.dumps(ec.strip_obs(h[:k + 1]))[:900]))
        chk.sample({"gen": g["name"], "history": ec.strip_obs(hs[0]), "fault_positions": "1..allocs"}, limit=5)
    if nfault == 0:
        raise vkit.InfraError("no fault-injection runs")
    chk.cov["faulted_ops"] = faulted_ops
    need = ["add", "prepend", "rescommit", "expand", "rmbuf", "addbufref", "addref", "addfile", "readln"]
    missing = [o for o in need if not faulted_ops.get(o)]
    if missing:
        raise vkit.InfraError("vacuous fault corpus: no allocation failure ever hit inside: %s" % missing)
    chk.cov["rule"] = ("every generated history is first replayed without faults (full C12 oracle), then once per n = 1..N with the "
                       "n-th allocation the library makes (event_set_mem_functions counting allocator, armed only inside the calls) "
                       "failing. The step in which the failure happened must match either the specification's success observation "
                       "or (failure return value, both buffers' complete query battery identical to the previous step, no callback); "
                       "steps before it must match the specification exactly; teardown must not leak (allocation counter) or trip "
                       "ASan. faulted_ops = calls in which a failure was injected.")
    chk.assumptions += ["allocations are failed one at a time (single fault per run)",
                        "after a reported failure (buffers verified unchanged) the history stops and the buffers are torn down; when the library absorbs the failure the whole history is replayed and compared",
                        "evbuffer_add_iovec (may legitimately add a prefix of its vectors) is exercised by C12 only"]
    return chk.finish()
