"""C46 - random choices used for fairness stay within range (WeakRand.tla).

 1. Apalache decides InRange, SeedOK, DivisorOK, AcceptRegion, AcceptHalf, HullDobell for the real
    constants (all 2^32 seed register values and all 1 <= top <= 2^31-1, symbolically, one loop iteration
    from an arbitrary state = inductive step).
 2. TLC decides the same invariants plus StepBound and termination (<>returned under WF) exhaustively on a
    small analogue of the generator (MOD 2^7 / 2^8, same multiplier and increment reduced mod 2*MOD).
 3. Binding: the compiled evutil_weakrand_, evutil_weakrand_range_ and the poll/select dispatch are run on
    boundary + seeded random vectors; Apalache evaluates VecStep / VecRange / VecDisp on every observation.
"""
import random
from concurrent.futures import ThreadPoolExecutor
import vkit
from checks import ratelim_common as rc

MOD = 2 ** 31
MAXR = MOD - 1


def lcg(s):
    return ((s * 1103515245 + 12345) % 2 ** 32) % MOD


def rejections(s, top):
    """number of rejected values before the first accepted one (used to *select* vectors only)"""
    d = MAXR // top
    k = 0
    while True:
        s = lcg(s)
        if s // d < top:
            return k
        k += 1


def run(tier, seed):
    q = tier == "quick"
    chk = vkit.Check("C46", tier, seed)
    rng = random.Random(seed)
    exe = vkit.cc("weakrand_drv", ["weakrand_drv.c"])
    pool = ThreadPoolExecutor(max_workers=4)

    small_mod = 128 if q else 256
    small = {"MOD": small_mod, "SMOD": 2 * small_mod, "MULT": 1103515245 % (2 * small_mod), "INC": 12345 % (2 * small_mod)}
    invs = ["InRange", "SeedOK", "DivisorOK", "AcceptRegion", "AcceptHalf", "HullDobell", "StepBound"]
    cfg = vkit.write_cfg("C46_small", small, invariants=invs, properties=["Terminates"], spec="Spec")
    f_tlc = pool.submit(vkit.tlc, "WeakRand", cfg, want_prints=False, coverage=True, workers=4)

    th = [dict(name=n + "31", inv=n, init="InitSym", next_="Next", length=1)
          for n in ("InRange", "SeedOK", "DivisorOK", "AcceptRegion", "AcceptHalf", "HullDobell")]
    rc.prove_many(chk, "WeakRand_A31", th)

    # ---- vectors
    seeds = [0, 1, 2, 12345, MOD - 1, MOD, MOD + 1, 2 ** 32 - 1, 2 ** 32 - 2, 0x7fffffff, 0x80000000]
    steps = [(s,) for s in seeds] + [(rng.getrandbits(32),) for _ in range(30 if q else 300)]
    tops = [1, 2, 3, 5, 7, 16, 1000, 65536, 2 ** 30 - 1, 2 ** 30, 2 ** 30 + 1, MAXR // 2, MAXR // 2 + 1, MAXR // 2 + 2,
            MAXR // 3, MAXR // 3 + 1, MAXR - 1, MAXR]
    ranges = [(s, t) for s in seeds[:6] for t in tops]
    rng.shuffle(ranges)
    ranges = ranges[:60 if q else 108]
    # seeds whose first values are rejected 1..7 times (the loop really loops), per awkward top
    want = {}
    for t in (2 ** 30 + 1, MAXR // 2 + 1, MAXR // 3 + 1, 1431655766, MAXR - 1):
        tries = 0
        while tries < 20000 and len([1 for (tt, k) in want if tt == t]) < 6:
            s = rng.getrandbits(32); tries += 1
            k = rejections(s, t)
            if 1 <= k <= 7 and (t, k) not in want:
                want[(t, k)] = s
    ranges += [(s, t) for (t, k), s in want.items()]
    # seeds whose successor is exactly at the edge of the acceptance region [0, top*divisor): last accepted value,
    # first rejected value (quotient == top), and the largest value (the LCG is inverted to *select* the seed)
    ainv = pow(1103515245, -1, MOD)
    edge = []
    for t in tops + [4, 6, 10, 100, 12345]:
        d = MAXR // t
        for target in (t * d - 1, t * d, t * d + 1, MAXR):
            if 0 <= target < MOD:
                s0 = ((target - 12345) * ainv) % MOD
                edge.append((s0 + rng.choice((0, MOD)), t))
    rng.shuffle(edge)
    ranges += edge[:40 if q else len(edge)]
    ranges += [(rng.getrandbits(32), max(1, min(MAXR, rng.getrandbits(rng.randrange(1, 32))))) for _ in range(40 if q else 400)]
    disps = [(b, s, n) for b in (0, 1) for n in (1, 2, 3, 5, 8, 13) for s in (1, rng.getrandbits(32), rng.getrandbits(32))]
    if not q:
        disps += [(rng.randrange(2), rng.getrandbits(32), rng.randrange(1, 17)) for _ in range(150)]

    def S(v):
        return [str(x) for x in v]
    outs = vkit.run_driver(exe, [{"k": "step", "v": [S(v) for v in steps]}, {"k": "range", "v": [S(v) for v in ranges]},
                                 {"k": "disp", "v": [S(v) for v in disps]}], shards=1)
    for o in outs:
        if o is None or "crash" in o:
            chk.violation("driver crashed on a vector batch: %s" % (o or {}).get("crash", "no output"), {"outs": str(o)[:3000]})
            return chk.finish()
    o_step, o_range, o_disp = ([[int(x) for x in row] for row in o["o"]] for o in outs)
    I = rc.tla_int
    e_step = ["VecStep(%s, %s, %s)" % (I(v[0]), I(o[0]), I(o[1])) for v, o in zip(steps, o_step)]
    e_range = ["VecRange(%s, %s, %s, %s, %s)" % (I(v[0]), I(v[1]), I(o[0]), I(o[1]), I(o[2])) for v, o in zip(ranges, o_range)]
    e_disp = ["VecDisp(%s, %s, %s, %s, <<%s>>)" % (I(v[1]), I(o[0]), I(o[1]), I(o[2]), ", ".join(I(x) for x in o[3:]))
              for v, o in zip(disps, o_disp)]
    looped = sum(1 for o in o_range if 2 <= o[2] <= 8)
    if looped < 5:
        raise vkit.InfraError("vacuous corpus: only %d range vectors made the rejection loop iterate" % looped)
    for v, o in zip(disps, o_disp):
        if len(o) - 3 != v[2]:
            chk.violation("dispatch with %d ready descriptors ran %d callbacks (backend %s, seed %d)" % (v[2], len(o) - 3, ("poll", "select")[v[0]], v[1]),
                          {"kind": "disp", "vector": S(v), "observed": S(o)})
    chk.cov["range_vectors_with_rejections"] = looped
    for v in steps: chk.count_case(["step", v], nontrivial=False)
    for v, o in zip(ranges, o_range): chk.count_case(["range", v], nontrivial=True)
    for v in disps: chk.count_case(["disp", v], nontrivial=v[2] >= 2)
    chk.sample({"range": S(ranges[0]), "out": S(o_range[0])}); chk.sample({"range": S(ranges[-1]), "out": S(o_range[-1])})
    chk.sample({"disp": S(disps[5]), "out": S(o_disp[5])}); chk.sample({"step": S(steps[0]), "out": S(o_step[0])})

    fams = (("step", steps, o_step, e_step), ("range", ranges, o_range, e_range), ("disp", disps, o_disp, e_disp))
    futs = [pool.submit(rc.validate_vectors, chk, "WeakRand", tag, exprs, chunk=100 if q else 150, parallel=2) for tag, _, _, exprs in fams]
    for (tag, vecs, obs, exprs), f in zip(fams, futs):
        for i in f.result():
            chk.violation("%s vector %s -> compiled code gave %s; specification (WeakRand.tla %s) disagrees" %
                          (tag, S(vecs[i]), S(obs[i]), exprs[i].split("(")[0]),
                          {"kind": tag, "vector": S(vecs[i]), "observed": S(obs[i]), "tla": exprs[i]})
        chk.cov["traces_validated_against_impl"] += len(exprs)
    res = f_tlc.result()
    chk.add_tlc("C46_small", res)
    chk.check_coverage(res, ["Iter"], "C46_small")
    chk.cov["exhaustive"] = True
    pool.shutdown()
    chk.cov["rule"] = ("Apalache: one loop iteration from every generator state and every valid top (inductive step). TLC: every (seed, top) "
                       "of the MOD=%d analogue to termination. Vectors: return value, generator state after the call and number of generator "
                       "steps consumed (measured with the real evutil_weakrand_) are checked by Apalache against VecRange; for poll/select "
                       "the complete callback order of all-ready descriptors must be the cyclic order starting after the index the "
                       "specification computes from the base's generator state. non-trivial = range/dispatch vectors." % small_mod)
    chk.assumptions += ["evutil_secure_rng_get_bytes filling its buffer is outside the technique (delegates to arc4random_buf/getrandom; no model)",
                        "'all 2^31 generator states ... in bounded time' is decided symbolically for one iteration (acceptance region > half of "
                        "the states) + the Hull-Dobell full-period conditions + exhaustively on the small analogue; no brute force over 2^31 states",
                        "range vectors that need more than 8 generator steps only have 0 <= result < top checked",
                        "poll/select callers pass top >= 1 (poll returns before the choice when nfds == 0; select uses maxfd+1 >= 1)"]
    return chk.finish()
