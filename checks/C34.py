"""C34 - every DNS request reports its outcome exactly once (DnsClient.tla; TLC-generated fault scripts, binding V)."""
import json, os, random
import vkit
from checks import dns_common as dc

KEY_STUCK = "C34-follow-up-request-stuck-in-waiting-queue-at-inflight-limit"
KEY_PROBE_UAF = "C34-shutdown-callback-of-probe-request-uses-freed-nameserver"
INV = ["CallbackAtMostOnce", "TxidUniqueInflight", "InflightLimit", "NoCallbackAfterFree", "Bounded"]
FATES = {"ok", "nx", "drop", "servfail", "refused", "tc", "bad"}
TCPF = {"ok", "drop", "close"}
ERR = {0: "ok", 67: "timeout", 68: "shutdown", 69: "cancel"}
SEARCH = ["d1.test", "d2.test"]


def consts(mode, **kw):
    c = {"Reqs": {1, 2, 3}, "NS": {1, 2}, "TxIds": {1, 2, 3, 4}, "MaxInflight": 2, "Attempts": 2, "SearchLens": {1, 3},
         "Fates": FATES, "TcpFates": TCPF, "D": 14, "Mode": mode}
    c.update(kw)
    return c


def names_of(r, sn):
    return ["r%d.test" % r] if sn == 1 else ["r%d.%s" % (r, d) for d in SEARCH[:sn - 1]] + ["r%d" % r]


def reply(name, fate, r):
    q = dc.plain_name(dc.labels(name)) + b"\0\1\0\1"
    if fate == "ok":
        rr = b"\xc0\x0c\0\1\0\1\0\0\0\x3c\0\4" + bytes([10, 1, 1, r])
        return (b"\0\0\x81\x80\0\1\0\1\0\0\0\0" + q + rr).hex()
    if fate == "tc":
        return (b"\0\0\x83\x80\0\1\0\0\0\0\0\0" + q).hex()
    if fate == "bad":      # a reply whose question is for another name
        return (b"\0\0\x81\x80\0\1\0\0\0\0\0\0" + dc.plain_name(dc.labels("zz.invalid")) + b"\0\1\0\1").hex()
    rcode = {"nx": 3, "servfail": 2, "refused": 5}[fate]
    return (b"\0\0" + bytes([0x81, 0x80 | rcode]) + b"\0\1\0\0\0\0\0\0" + q).hex()


def scenario(h, maxinf):
    """Turn a generated behaviour (Make / Send with fates / Cancel / Free / Complete) into a driver scenario."""
    sn = {e["r"]: e["sn"] for e in h if e["e"] == "make"}
    reqs = []
    for r in (1, 2, 3):
        s = sn.get(r, 1)
        reqs.append({"name_hex": (("r%d.test" % r) if s == 1 else "r%d" % r).encode().hex(), "flags": 1 if s == 1 else 0, "sn": s})
    rules, seen, hooks = [], {}, []
    nq, prev = 0, None
    for e in h:
        if e["e"] == "send":
            nm = names_of(e["r"], sn.get(e["r"], 1))[e["name"] - 1]
            seen[nm] = seen.get(nm, 0) + 1
            rule = {"n": nm, "t": 1, "k": seen[nm], "fate": e["fate"], "reply": ""}
            if e["fate"] == "close":
                rule.update(reply=reply(nm, "ok", e["r"]), close_at=7)
            elif e["fate"] != "drop":
                rule.update(reply=reply(nm, e["fate"], e["r"]))
                if e["fate"] == "bad":
                    rule["noecho"] = 1
            rules.append(rule)
            nq += 1
        elif e["e"] in ("make", "cancel", "free"):
            act = {"a": e["e"], "req": e.get("r", 0), "fail": 1 if e.get("mode") == "fail" else 0}
            if prev is not None and prev["e"] == "cb":
                hooks.append({"on": "cb", "key": prev["r"], "fired": 0, "do": [act]})
            elif nq == 0:
                hooks.append({"on": "start", "key": 0, "fired": 0, "do": [act]})
            else:
                hooks.append({"on": "q", "key": nq, "fired": 0, "do": [act]})
        if e["e"] != "send" or True:
            prev = e if e["e"] in ("cb", "send", "make", "cancel", "free") else prev
    # hooks of one trigger run in the order of the behaviour: merge them
    merged = {}
    for hk in hooks:
        merged.setdefault((hk["on"], hk["key"]), {"on": hk["on"], "key": hk["key"], "fired": 0, "do": []})["do"] += hk["do"]
    return {"mode": "c34", "dir": dc.TMP, "nns": 2, "conf": "search %s\noptions ndots:1\n" % " ".join(SEARCH),
            "opts": [["attempts", "2"], ["timeout", "1"], ["max-inflight", str(maxinf)], ["randomize-case", "0"]],
            "reqs": reqs, "rules": rules, "hooks": list(merged.values()), "iterations": 200, "_max": maxinf}


def trace_of(sc, o):
    """Driver log -> trace events of DnsClient!TraceNext."""
    owner = {}
    for i, rq in enumerate(sc["reqs"]):
        for k, nm in enumerate(names_of(i + 1, rq["sn"])):
            owner[nm] = (i + 1, k + 1)
    tr = [{"e": "cfg", "max": sc["_max"]}]
    over, lastfate = set(), {}
    for ev in o["log"]:
        e = ev["e"]
        if e == "q" and ev["tr"] == "tcp" and ev["n"] in owner and owner[ev["n"]][0] in over:
            continue      # TCP queries are logged when the nameserver reads them: one that was flushed before a cancel / free is not an event of its own
        if e in ("cb", "cancel"):
            over.add(ev["r"])
        if e == "free":
            over.update(range(1, 4))
        if e == "make":
            tr.append({"e": "make", "r": ev["r"], "sn": sc["reqs"][ev["r"] - 1]["sn"]})
        elif e == "q":
            if ev["n"] not in owner or ev["t"] != 1:
                tr.append({"e": "probe", "ns": ev["ns"]})
            else:
                r, k = owner[ev["n"]]
                lastfate[r] = ev["fate"]
                tr.append({"e": "q", "r": r, "ns": ev["ns"], "id": ev["id"], "fate": "drop" if ev["fate"] in ("norule", "?") else ev["fate"],
                           "tcp": 1 if ev["tr"] == "tcp" else 0, "name": k})
        elif e == "a":
            # a reply cut off by closing the TCP connection is not an answer
            if ev["n"] in owner and lastfate.get(owner[ev["n"]][0]) != "close":
                tr.append({"e": "a", "r": owner[ev["n"]][0]})
        elif e == "cb":
            tr.append({"e": "cb", "r": ev["r"], "res": ERR.get(ev["err"], "err")})
        elif e == "cancel":
            tr.append({"e": "cancel", "r": ev["r"]})
        elif e == "free":
            tr.append({"e": "free", "mode": "fail" if ev["fail"] else "silent"})
        elif e == "quiesce":
            tr.append({"e": "quiesce"})
    return tr


def validate(chk, name, traces, timeout=1500, workers=4):
    path = os.path.join(dc.TMP, "c34trace_%s_%d.json" % (name, os.getpid()))
    json.dump(traces, open(path, "w"))
    cfg = vkit.write_cfg(name, consts("trace"), invariants=INV + ["TraceReport"], init="TraceInit", next_="TraceNext")
    best, acc = {}, set()

    def sink(v):
        if isinstance(v, dict) and "t" in v:
            best[v["t"] - 1] = max(best.get(v["t"] - 1, 0), v["at"])
            if v["acc"]:
                acc.add(v["t"] - 1)
    res = vkit.tlc("DnsClient", cfg, env={"C34TRACE": path}, print_sink=sink, timeout=timeout, workers=workers)
    chk.add_tlc(name, res)
    os.unlink(path)
    if len(best) != len(traces):
        raise vkit.InfraError("%s: TLC looked at %d of %d traces\n%s" % (name, len(best), len(traces), res.raw[-2000:]))
    return acc, best


def run(tier, seed):
    q = tier == "quick"
    chk = vkit.Check("C34", tier, seed)
    exe = dc.driver()
    # 1. the model itself: safety invariants and "every request eventually reports" under fairness
    mcc = consts("mc", Reqs={1, 2}, TxIds={1, 2}, MaxInflight=1, SearchLens={1} if q else {1, 2}, Fates={"ok", "nx", "drop", "refused", "tc"},
                 TcpFates={"ok", "close"}, D=0)
    cfg = vkit.write_cfg("C34_mc", mcc, invariants=INV, properties=["EventuallyReported"], spec="FairSpec")
    res = vkit.tlc("DnsClient", cfg, want_prints=False, timeout=1500, workers=4)
    chk.add_tlc("C34_mc", res)
    if res.distinct < 1000:
        raise vkit.InfraError("vacuous model run C34_mc: %d states" % res.distinct)
    # 2. fault scripts: random behaviours of the model (fates of every transmission, cancels and frees at every point)
    hists, seen = [], set()

    def sink(h):
        k = json.dumps(h, sort_keys=True)
        if k not in seen and any(e["e"] == "send" for e in h):
            seen.add(k); hists.append(h)
    cfg = vkit.write_cfg("C34_gen", consts("gen", D=10 if q else 16), invariants=INV + ["EmitHist"])
    res = vkit.tlc("DnsClient", cfg, simulate=40 if q else 500, depth=40, seed=seed, print_sink=sink, timeout=900, workers=4)
    chk.add_tlc("C34_gen", res)
    if len(hists) < 20:
        raise vkit.InfraError("generator produced %d scripts" % len(hists))
    rng = random.Random(seed)
    hists = hists[:150 if q else 2500]
    scen = [scenario(h, rng.choice([1, 1, 2, 64])) for h in hists]
    # the canonical scenario of the known finding: search list, inflight limit 1, first candidate NXDOMAIN
    canon = [{"e": "make", "r": 1, "sn": 3}, {"e": "send", "r": 1, "name": 1, "fate": "nx", "why": "first", "tcp": False},
             {"e": "send", "r": 1, "name": 2, "fate": "ok", "why": "first", "tcp": False}]
    scen.append(scenario(canon, 1))
    outs = vkit.run_driver(exe, [{k: v for k, v in s.items() if not k.startswith("_")} for s in scen], timeout=900)
    traces, idx = [], []
    for i, (sc, o) in enumerate(zip(scen, outs)):
        chk.count_case([sc["rules"], sc["hooks"], sc["_max"]], nontrivial=len(sc["rules"]) >= 2)
        if o is None or "crash" in o or o.get("leak"):
            txt = str(o)
            uaf = "heap-use-after-free" in txt and "nameserver_probe_callback" in txt and any(a["a"] == "free" and a["fail"] for hk in sc["hooks"] for a in hk["do"])
            chk.violation("C34: crash / sanitizer report / leak: %s" % txt[-1500:], {"scenario": sc, "actual": o}, key=KEY_PROBE_UAF if uaf else None)
            continue
        traces.append(trace_of(sc, o)); idx.append(i)
    acc, best = validate(chk, "C34_trace", traces)
    # a rejection is re-validated on its own (single worker: no interleaved output) before it is reported
    rej = [j for j in range(len(traces)) if j not in acc]
    if rej:
        acc2, best2 = validate(chk, "C34_trace_recheck", [traces[j] for j in rej], workers=1)
        for k, j in enumerate(rej):
            best[j] = best2[k]
            if k in acc2:
                acc.add(j)
    chk.cov["traces_validated_against_impl"] += len(traces)
    nrej = 0
    for j, t in enumerate(traces):
        if j in acc:
            continue
        nrej += 1
        at = best[j]
        ev = t[at - 1] if at - 1 < len(t) else {"e": "end"}
        sc, o = scen[idx[j]], outs[idx[j]]
        never = [r for r, d in enumerate(o["done"], 1) if d == 0]
        key = None
        if ev["e"] == "quiesce" and never:
            last = {r: [x for x in t[:at] if x.get("r") == r][-1] for r in never}
            if all(l["e"] == "a" for l in last.values()) and sc["_max"] <= 2:
                key = KEY_STUCK
        msg = ("the recorded behaviour is not a behaviour of DnsClient: event %d %s cannot happen%s" %
               (at, json.dumps(ev), (" - requests %s never reported although every timeout has elapsed" % never) if never and ev["e"] == "quiesce" else ""))
        if len(chk.violations) < 12 or key:
            chk.violation("C34 (max-inflight %d): %s" % (sc["_max"], msg), {"scenario": sc, "trace": t, "rejected_at": at, "actual": o}, key=key)
    vkit.log("[C34] %d traces, %d rejected" % (len(traces), nrej))
    chk.sample({"script": hists[0], "trace": traces[0][:12]})
    chk.cov["rule"] = ("DnsClient.tla models the request life-cycle (waiting / inflight / tcp / between / answered / cancelled / shutdown / dropped / done, "
                       "transaction ids, transmissions, re-issue, search candidates) with the fate of every transmission chosen by the environment; TLC "
                       "decides CallbackAtMostOnce, TxidUniqueInflight, InflightLimit, NoCallbackAfterFree and EventuallyReported (under weak fairness). "
                       "Random behaviours of the model give fault scripts (per transmission: ok / NXDOMAIN / drop / SERVFAIL / REFUSED / TC -> TCP / "
                       "malformed / TCP close; cancels and evdns_base_free(0|1) after any query, at start, or inside callbacks; requests made inside "
                       "callbacks); they run on a real evdns_base against two scripted nameservers (UDP+TCP) under the virtual clock with "
                       "max-inflight 1 / 2 / 64; the recorded events (make, query with txid and nameserver, answer, callback, cancel, free, probe, "
                       "quiesce after every timeout has elapsed) are validated as a behaviour of the same specification by TLC.")
    chk.assumptions += ["attempts:2 timeout:1; 3 requests, 2 search domains, 2 nameservers", "whether a cancel / free races with an already pending "
                        "callback cannot be observed: both orders are admitted", "result codes are classed ok / err / timeout / cancel / shutdown"]
    return chk.finish()
