"""C25 - HTTP size limits are never exceeded (specs/HttpLimits.tla).

TLC enumerates messages built from size parameters (one long field line / many short lines, Content-Length /
chunked / close-delimited bodies) with header and body limits placed relative to the message's own sizes
(0, small, one below / at / one above the smallest and the largest measure of the size, unlimited), decides the
reference verdict (deliver / refuse / either) and the buffering bound, and checks monotonicity.  Every scenario
runs against a real evhttp server (and, for responses, a real evhttp_connection) under each segmentation class.
"""
import json, random
import vkit
from checks import http_common as hc

QUANTUM = 16384   # bufferevent's default max_single_read: one read may overshoot a limit by at most this much


def gen(chk, name, c, workers=4, timeout=900):
    d = dict(c); d["Quantum"] = QUANTUM
    cfg = vkit.write_cfg(name, d, invariants=["NeverDeliverOversize", "RefuseIsJustified", "BoundOK", "Emit"],
                         properties=["Monotone"])
    out, seen = [], set()

    def sink(v):
        k = json.dumps(v["p"], sort_keys=True)
        if k not in seen:
            seen.add(k); out.append(v)
    res = vkit.tlc("HttpLimits", cfg, print_sink=sink, workers=workers, timeout=timeout)
    chk.add_tlc(name, res)
    if not out:
        raise vkit.InfraError("vacuous HttpLimits run %s: %r" % (name, res))
    return out


def judge(view, s, o):
    """None when observation o is allowed by scenario s."""
    if view == "server":
        nd = len(o["d"]); st = hc.final_statuses(o["st"])
        delivered = nd == 1 and o["d"][0]["b"] == s["body"] and st[:1] == [200]
        refused = nd == 0 and (o["closed"] or any(x >= 400 for x in st)) and not o["d_eof"]
        pending = nd == 0 and not o["closed"] and not st
    else:
        cb = o["cb"]
        delivered = len(cb) >= 1 and not cb[0].get("fail") and cb[0].get("b") == s["body"] and cb[0].get("code") == 200
        refused = len(cb) >= 1 and bool(cb[0].get("fail"))
        pending = not cb
    v = s["verdict"]
    if v == "deliver" and not delivered:
        return "message within both limits under every measure was not delivered intact"
    if v == "refuse" and not refused:
        return "oversize message (%s) was %s" % (
            "header %d > %d" % (s["hmin"], s["max_hdr"]) if 0 <= s["max_hdr"] < s["hmin"] else "body %d > %d" % (s["bmin"], s["max_body"]),
            "delivered" if not pending else "neither refused nor closed")
    if v == "either" and not (delivered or refused):
        return "message neither delivered intact nor refused"
    return None


def run_view(chk, exe, view, scen, rng, q, extra_cfg=None):
    jobs, meta = [], []
    for s in scen:
        n = len(s["bytes"])
        segs = hc.segmentations(n, rng, single=3 if q else 8, nrand=1 if q else 4)
        if n > 600:   # octet-at-a-time on long messages is replaced by 16-octet reads
            segs[1] = list(range(16, n, 16))
        cfg = {"max_hdr": s["max_hdr"], "max_body": s["max_body"]}
        cfg.update(extra_cfg or {})
        j = {"mode": view, "cfg": cfg, "bytes": s["bytes"], "segs": segs, "eof": 1}
        if view == "client":
            j["reqs"] = ["GET"]
        jobs.append(j); meta.append(segs)
    outs = vkit.run_driver(exe, jobs, timeout=3000)
    nfail = 0
    for s, segs, j, o in zip(scen, meta, jobs, outs):
        chk.cov["traces_validated_against_impl"] += len(segs)
        msg = None
        if o is None or "crash" in o:
            if o and o.get("hang"):
                raise vkit.InfraError("driver hang on %s" % json.dumps(s["p"]))
            msg = "driver crashed: %s" % (o or {}).get("crash", "no output")
        elif o.get("hang"):
            raise vkit.InfraError("driver watchdog on %s" % json.dumps(s["p"]))
        else:
            for r in o["runs"]:
                m = judge(view, s, r["o"])
                if m:
                    msg = "segmentation %s: %s; observed %s" % (str(segs[r["segs"][0]])[:80], m, json.dumps(r["o"])[:600])
                    break
            if msg is None and s["bound"] >= 0 and o["maxbuf"] > s["bound"]:
                msg = "input buffer grew to %d octets, bound %d (limits %d / %d + one read)" % (
                    o["maxbuf"], s["bound"], s["max_hdr"], s["max_body"])
        if msg:
            nfail += 1
            if nfail <= 6:
                chk.violation("%s %s limits hdr=%d body=%d sizes hdr=%d..%d body=%d..%d verdict=%s: %s" % (
                    view, json.dumps(s["p"]), s["max_hdr"], s["max_body"], s["hmin"], s["hfull"], s["bmin"], s["bfull"],
                    s["verdict"], msg), {"scenario": j, "expect": {k: s[k] for k in s if k != "bytes"}, "observed": o})
    return nfail


def run(tier, seed):
    q = tier == "quick"
    chk = vkit.Check("C25", tier, seed)
    exe = vkit.cc("http_drv", ["http_drv.c"])
    rng = random.Random(seed)
    RH = {"zero", "small", "min-1", "min", "min+1", "full-1", "full", "full+1", "inf"}
    RB = {"zero", "small", "min-1", "min", "min+1", "full-1", "full", "full+1", "inf"}
    verd = {}
    for view in ("server", "client"):
        bks = {"none", "cl", "chunked"} | ({"close"} if view == "client" else set())
        c = {"View": view, "Shapes": {"oneline", "many", "fold"}, "HNs": {0, 40} if q else {0, 1, 3, 40, 300},
             "BKs": bks, "BNs": {0, 5, 20} if q else {0, 1, 5, 9, 20, 100}, "RHs": RH if not q else {"zero", "min-1", "min", "full", "full+1", "inf"},
             "RBs": RB if not q else {"zero", "min-1", "min", "full", "inf"}}
        scen = gen(chk, "C25_%s" % view, c, workers=8)
        # a message far larger than its limit: buffering must stay bounded (long single line, many lines, big bodies)
        big = {"View": view, "Shapes": {"oneline", "many", "fold"}, "HNs": {20000} if q else {20000, 100000}, "BKs": {"none"}, "BNs": {0},
               "RHs": {"small", "inf"}, "RBs": {"zero"}}
        scen += gen(chk, "C25_%s_bighdr" % view, big)
        bigb = {"View": view, "Shapes": {"oneline"}, "HNs": {0}, "BKs": bks - {"none"}, "BNs": {60000} if q else {60000, 200000},
                "RHs": {"full+1"}, "RBs": {"small", "inf"}}
        scen += gen(chk, "C25_%s_bigbody" % view, bigb)
        for s in scen:
            chk.count_case([view, s["p"]], nontrivial=True)
            verd[s["verdict"]] = verd.get(s["verdict"], 0) + 1
        chk.sample({"view": view, "scenario": scen[0]["p"], "limits": [scen[0]["max_hdr"], scen[0]["max_body"]],
                    "verdict": scen[0]["verdict"], "bound": scen[0]["bound"]})
        run_view(chk, exe, view, scen, rng, q)
        if view == "server":
            sub = [s for s in scen if s["p"]["bk"] != "none"][:: (3 if q else 1)]
            run_view(chk, exe, view, sub, rng, q, extra_cfg={"lingering": 1})
        vkit.log("[C25] %s: %d scenarios" % (view, len(scen)))
    chk.cov["verdicts"] = verd
    if min(verd.get(k, 0) for k in ("deliver", "refuse", "either")) == 0:
        raise vkit.InfraError("vacuous corpus: verdicts %s" % verd)
    chk.cov["rule"] = ("TLC enumerates messages (long single field line / many short lines; no body, Content-Length, chunked, "
                       "close-delimited) with header and body limits placed relative to the message's own sizes and decides "
                       "deliver / refuse / either plus the buffering bound; each scenario runs against a real evhttp server "
                       "(also with lingering close) and a real evhttp_connection on loopback TCP in one piece, octet by octet "
                       "(16-octet reads for long messages), at sampled single cuts and random multi-cuts: a 'refuse' message "
                       "must never reach the callback and must be answered >=400 / closed / failed, a 'deliver' message must "
                       "arrive intact, and the input evbuffer must never hold more than max(limits) + one read quantum.")
    chk.assumptions += [
        "header size measures: libevent counts line octets without terminators; a message is only required to be refused "
        "when it exceeds the limit without terminators and only required to be delivered when it fits with them",
        "body size measures: content octets vs octets on the wire (chunk framing) - same treatment",
        "one read quantum = 16384 octets (default max_single_read)",
    ]
    return chk.finish()
