"""Shared machinery for the EventCore-based checks (C01 C02 C03 C10 C45)."""
import json, os, random
import vkit

ALL_ACTS = {"add", "del", "rmt", "act", "prio", "loop", "feed", "drain", "raise", "adv", "later"}


def consts(pool, acts, D, *, nprio=3, durs=(0, 1, 2), maxiter=4, maxcb=0, limitprio=1, scriptops=(), prealloc=True):
    return {"Pool": set(pool), "NPrio": nprio, "Durs": set(durs), "Acts": set(acts), "D": D,
            "MaxIter": maxiter, "MaxCb": maxcb, "LimitPrio": limitprio, "ScriptOps": set(scriptops),
            "PreAlloc": prealloc}


def drv_cfg(c, tick_ns=1000, backend="epoll", **kw):
    d = {"tick_ns": tick_ns, "nprio": c["NPrio"], "maxiter": c["MaxIter"], "maxcb": c["MaxCb"],
         "limitprio": c["LimitPrio"], "backend": backend,
         "prealloc": sorted(c["Pool"]) if c["PreAlloc"] else []}
    d.update(kw)
    return d


def generate(chk, name, c, *, simulate=None, depth=None, seed=None, invariants=("Inv", "Emit"),
             properties=(), timeout=1200, max_hist=None):
    """Run TLC on EventCore with constants c; returns list of histories."""
    cfg = vkit.write_cfg(name, c, invariants=invariants, properties=properties, constraint="GenConstraint")
    hists = []
    seen = set()
    def sink(v):
        # the simulator re-evaluates the invariant on retried successors: dedupe
        k = hash(json.dumps(strip_obs(v), sort_keys=True))
        if k in seen:
            return
        seen.add(k)
        if max_hist is None or len(hists) < max_hist:
            hists.append(v)
    res = vkit.tlc("EventCore", cfg, simulate=simulate, depth=depth, seed=seed, print_sink=sink, timeout=timeout,
                   workers=vkit.NCPU if not simulate else 8)
    chk.add_tlc(name, res)
    return hists


def nontrivial(h):
    """>= 2 state-changing API calls, one of them a loop that ran a callback or an op on a pending event."""
    n = sum(1 for s in h if s["a"] not in ("adv", "maxclr"))
    return n >= 2


def replay(chk, exe, hists, c, *, ticks=(1000,), backends=("epoll",), label="", extra_cfg=None, limit_fail=5):
    """Replay every history under each (tick, backend); report mismatches."""
    total = 0
    for backend in backends:
        for tick in ticks:
            dc = drv_cfg(c, tick, backend, **(extra_cfg or {}))
            scen = [{"cfg": dc, "h": h} for h in hists]
            outs = vkit.run_driver(exe, scen)
            fails = vkit.compare_histories(hists, outs)
            total += len(hists)
            chk.cov["traces_validated_against_impl"] += len(hists)
            for (i, k, msg) in fails[:limit_fail]:
                key = json.dumps([s for s in strip_obs(hists[i][:k + 1])], sort_keys=True, separators=(",", ":"))
                chk.violation("%s backend=%s tick=%dns scenario %d step %d: %s" % (label, backend, tick, i, k, msg),
                              {"cfg": dc, "h": hists[i], "fail_step": k, "msg": msg}, key=key)
            if fails:
                vkit.log("[replay] %s %s tick=%d: %d/%d failed; first: %s" % (label, backend, tick, len(fails), len(hists), fails[0][2][:500]))
    return total


def strip_obs(h):
    return [{k: v for k, v in s.items() if k != "o"} for s in h]
