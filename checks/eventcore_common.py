"""Shared machinery for the EventCore-based checks (C01 C02 C03 C10 C45)."""
import json, os, random
import vkit

ALL_ACTS = {"add", "del", "rmt", "act", "prio", "loop", "feed", "drain", "raise", "adv", "later"}


def consts(pool, acts, D, *, nprio=3, durs=(0, 1, 2), maxiter=4, maxcb=0, limitprio=1, scriptops=(), prealloc=True, nx=0, nd=0, maxintv=-1):
    acts = set(acts) | ({"intv%d" % maxintv} if maxintv >= 0 else set())   # MaxIntv is selected through Acts (see the spec)
    return {"Pool": set(pool), "NPrio": nprio, "Durs": set(durs), "Acts": acts, "D": D,
            "MaxIter": maxiter, "MaxCb": maxcb, "LimitPrio": limitprio, "ScriptOps": set(scriptops),
            "PreAlloc": prealloc, "NX": nx, "ND": nd}


def maxintv_of(c):
    return next((int(a[4:]) for a in c["Acts"] if a.startswith("intv")), -1)


def drv_cfg(c, tick_ns=1000, backend="epoll", **kw):
    d = {"tick_ns": tick_ns, "nprio": c["NPrio"], "maxiter": c["MaxIter"], "maxcb": c["MaxCb"],
         "limitprio": c["LimitPrio"], "backend": backend,
         "prealloc": sorted(c["Pool"]) if c["PreAlloc"] else [], "nx": c.get("NX", 0), "nd": c.get("ND", 0), "maxintv": maxintv_of(c)}
    d.update(kw)
    return d


def generate(chk, name, c, *, simulate=None, depth=None, seed=None, invariants=("Inv", "Emit"),
             properties=(), timeout=1200, max_hist=None, constraint="GenConstraint"):
    """Run TLC on EventCore with constants c; returns list of histories."""
    emit = {"GenConstraint": "Emit", "GenConstraintNT": "EmitNT", "GenConstraintHeap": "EmitHeap"}[constraint]
    invariants = [emit if i == "Emit" else i for i in invariants]
    cfg = vkit.write_cfg(name, c, invariants=invariants, properties=properties, constraint=constraint)
    hists = []
    seen = set()
    def sink(v):
        # the simulator re-evaluates the invariant on retried successors: dedupe
        k = hash(json.dumps(strip_obs(v), sort_keys=True))
        if k in seen:
            return
        seen.add(k)
        if max_hist is None or len(hists) < max_hist:
            hists.append(v)
    res = vkit.tlc("EventCore", cfg, simulate=simulate, depth=depth, seed=seed, print_sink=sink, timeout=timeout,
                   workers=vkit.NCPU if not simulate else 8)
    chk.add_tlc(name, res)
    return hists


def nontrivial(h):
    """>= 2 state-changing API calls, one of them a loop that ran a callback or an op on a pending event."""
    n = sum(1 for s in h if s["a"] not in ("adv", "maxclr"))
    return n >= 2


def replay(chk, exe, hists, c, *, ticks=(1000,), backends=("epoll",), label="", extra_cfg=None, limit_fail=5):
    """Replay every history under each (tick, backend); report mismatches."""
    total = 0
    for backend in backends:
        for tick in ticks:
            dc = drv_cfg(c, tick, backend, **(extra_cfg or {}))
            scen = [{"cfg": dc, "h": h} for h in hists]
            outs = vkit.run_driver(exe, scen)
            fails = vkit.compare_histories(hists, outs)
            if chk.pid == "C10":
                # resource balance (C10, last sentence): once the events are released and the base is freed, no block
                # from the library's allocator and no descriptor remains (judged unless an allocation fault fired)
                for i, o in enumerate(outs):
                    lk = (o or {}).get("leak") if isinstance(o, dict) else None
                    if lk and lk.get("judged") and (lk.get("m") or lk.get("fd")):
                        fails.append((i, len(hists[i]) - 1, "after releasing every event and freeing the base %d allocator block(s) and "
                                      "%d descriptor(s) of the library remain" % (lk.get("m", 0), lk.get("fd", 0))))
                    chk.cov["leak_judged"] = chk.cov.get("leak_judged", 0) + (1 if lk and lk.get("judged") else 0)
            total += len(hists)
            chk.cov["traces_validated_against_impl"] += len(hists)
            for (i, k, msg) in fails[:limit_fail]:
                key = json.dumps([s for s in strip_obs(hists[i][:k + 1])], sort_keys=True, separators=(",", ":"))
                chk.violation("%s backend=%s tick=%dns scenario %d step %d: %s" % (label, backend, tick, i, k, msg),
                              {"cfg": dc, "h": hists[i], "fail_step": k, "msg": msg}, key=key)
            if fails:
                vkit.log("[replay] %s %s tick=%d: %d/%d failed; first: %s" % (label, backend, tick, len(fails), len(hists), fails[0][2][:500]))
    return total


def strip_obs(h):
    return [{k: v for k, v in s.items() if k != "o"} for s in h]


INV_LIST = ["TypeOK", "QueueFlagOK", "CountOK", "MaxOK", "CommonQueueOK", "OnlyAllocQueued", "NotLate", "NoEarly",
            "PrioOrderInv"]
PROPS = ["BreakStops", "LaterPromoted"]


def model_check(chk, name, c, *, timeout=1500):
    """Decide the invariants/action properties on the bounded state graph (VIEW hides hist)."""
    cfg = vkit.write_cfg(name, c, invariants=INV_LIST, properties=PROPS, constraint="GenConstraint", view="StateView")
    res = vkit.tlc("EventCore", cfg, want_prints=False, timeout=timeout, coverage=True)
    chk.add_tlc(name, res)
    return res


def op_histogram(hists):
    d = {}
    for h in hists:
        for s in h:
            k = s["a"]
            if k == "script":
                k = "script:" + s["s"]["a"]
            d[k] = d.get(k, 0) + 1
            if k == "loop":
                for cb in s["o"].get("cb", []):
                    kk = "cb:" + cb["k"]
                    d[kk] = d.get(kk, 0) + 1
    return d


def standard_run(pid, tier, seed, plan, level_text=None):
    """plan: dict(mc=[(name, consts)], gen=[dict(name, consts, simulate, depth, nt, ticks, backends, extra)],
                   need_ops=[...], rule=str, assumptions=[...])"""
    chk = vkit.Check(pid, tier, seed)
    exe = vkit.cc("eventcore_drv", ["eventcore_drv.c"], vclock=True)
    for name, c in plan.get("mc", []):
        res = model_check(chk, name, c)
        need = plan.get("need_actions", ["Api", "ApiLoop", "IterTop", "Wait", "TimeoutProcess", "RunCallback", "LoopReturn"])
        chk.check_coverage(res, need, name)
    hist_total = {}
    for g in plan["gen"]:
        hs = generate(chk, g["name"], g["consts"], simulate=g.get("simulate"), depth=g.get("depth", 400),
                      seed=seed if g.get("simulate") else None,
                      invariants=INV_LIST + ["Emit"], properties=(),
                      timeout=g.get("timeout", 1200 if tier == "quick" else 3000), max_hist=g.get("max_hist"),
                      constraint=g.get("constraint", "GenConstraint"))
        if not hs:
            raise vkit.InfraError("generator %s produced no histories" % g["name"])
        for h in hs:
            chk.count_case(strip_obs(h), nontrivial(h))
        for h in hs[:2]:
            chk.sample({"gen": g["name"], "history": strip_obs(h), "predicted_last_obs": h[-1]["o"]})
        oh = op_histogram(hs)
        for k, v in oh.items():
            hist_total[k] = hist_total.get(k, 0) + v
        replay(chk, exe, hs, g["consts"], ticks=g.get("ticks", (1000,)), backends=g.get("backends", ("epoll",)),
               label=g["name"], extra_cfg=g.get("extra"))
    chk.cov["op_histogram"] = hist_total
    missing = [o for o in plan.get("need_ops", []) if hist_total.get(o, 0) == 0]
    if missing:
        raise vkit.InfraError("vacuous scenario corpus: ops never generated: %s" % missing)
    chk.cov["rule"] = plan.get("rule", "")
    chk.assumptions += plan.get("assumptions", [])
    return chk.finish()


def replay_case(pid, case, seed):
    """./check <ID> --replay <violation file>: re-run the stored scenario and report whether it still fails."""
    c = case.get("case", case)
    exe = vkit.cc("eventcore_drv", ["eventcore_drv.c"], vclock=True)
    outs = vkit.run_driver(exe, [{"cfg": c["cfg"], "h": c["h"]}], shards=1)
    fails = vkit.compare_histories([c["h"]], outs)
    if fails:
        print("VIOLATION property=%s replay=%s" % (pid, "(replayed)"))
        vkit.log("  step %d: %s" % (fails[0][1], fails[0][2]))
        return 1
    print("replay: scenario conforms to the specification")
    return 0
