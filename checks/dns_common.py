"""Shared machinery for the DNS checks (C39 C35 C37 C36 C33): TLC generation helpers, the driver,
and the comparison of driver observations with the specification's predictions."""
import json, os, random, socket, hashlib
import vkit

TMP = os.path.join(vkit.OUT, "tmp")


def driver():
    return vkit.cc("dns_drv", ["dns_drv.c"], vclock=True, extra=["-Wl,--wrap=sendto"])


def host_domain():
    h = socket.gethostname()
    return h.split(".", 1)[1] if "." in h else ""


def tlc_histories(chk, spec, name, consts, *, invariants, properties=(), simulate=None, depth=None, seed=None,
                  timeout=900, workers=4, key=None, max_hist=None, coverage=False):
    """Run TLC; collect the distinct printed values (the simulator re-prints retried successors)."""
    cfg = vkit.write_cfg(name, consts, invariants=invariants, properties=properties, constraint="GenConstraint")
    out, seen = [], set()

    def sink(v):
        k = hashlib.sha1(json.dumps(key(v) if key else v, sort_keys=True).encode()).digest()[:12]
        if k in seen:
            return
        seen.add(k)
        if max_hist is None or len(out) < max_hist:
            out.append(v)
    res = vkit.tlc(spec, cfg, simulate=simulate, depth=depth, seed=seed, print_sink=sink, timeout=timeout,
                   workers=workers, coverage=coverage)
    chk.add_tlc(name, res)
    return out, res


# ------------------------------------------------------------------ C39
RC_ALL = {"conf", "confmissing", "hosts", "hostsnull", "clearhosts", "opt"}
LOOKUPS = ["alpha", "beta", "gamma", "delta", "eps", "zeta", "mixedcase", "localhost", "nosuch"]
PROBES = ["p", "p.q", "p.q.r.s"]
N_CONF, N_HOST, N_OPT = 38, 19, 38


def rc_consts(D, *, maxlines=2, conf=None, host=None, opt=None, flags=(7,), acts=RC_ALL, known=True, rnd=False, nl=(1,)):
    return {"D": D, "MaxLines": maxlines, "ConfIdx": set(conf or range(1, N_CONF + 1)),
            "HostIdx": set(host or range(1, N_HOST + 1)), "OptIdx": set(opt or range(1, N_OPT + 1)),
            "FlagSet": set(flags), "Acts": set(acts), "KnownNdotsReset": known, "RandomFiles": rnd,
            "NlSet": set(nl), "HostDomain": host_domain()}


def rc_strip(h):
    return [{k: v for k, v in s.items() if k not in ("o", "lines")} for s in h]


def rc_scenario(h, probe=True):
    ops = []
    for s in h:
        op = {k: v for k, v in s.items() if k not in ("o", "lines", "ls", "nl")}
        if "lines" in s:
            op["text"] = "\n".join(s["lines"]) + ("\n" if s.get("nl") else "")
        ops.append(op)
    return {"mode": "resolvconf", "dir": TMP, "probe": 1 if probe else 0, "lookups": LOOKUPS, "probes": PROBES,
            "inflight_probe": 70, "h": ops}


def rc_expected(h, probe=True):
    """The specification's prediction in deep_diff form."""
    obs = []
    for s in h:
        o = s["o"]
        obs.append({"r": {"_oneof": o["r"]}, "nsset": sorted(o["ns"]), "oob": -1,
                    "hosts": [{"_perm": a} for a in o["hosts"]]})
    exp = {"obs": obs, "leak": 0}
    if probe:
        p = h[-1]["o"]["probe"]
        exp["probe"] = {
            "q": [{"err": 3, "names": {"_oneof": alts}} for alts in p["q"]],
            "randcase": {"_oneof": p["randcase"]}, "edns": {"_oneof": p["edns"]}, "inflight": {"_oneof": p["inflight"]},
            "txt": {"_oneof": [[a, a * t * 1000] for a in p["attempts"] for t in p["timeout"]]}, "terr": 67}
    return exp


def rc_actual(o):
    """Project the driver output on what the property fixes."""
    if not isinstance(o, dict) or "obs" not in o:
        return o
    a = {"obs": [{"r": x["r"], "nsset": sorted(set(x["ns"])), "oob": x["oob"], "hosts": x["hosts"]} for x in o["obs"]],
         "leak": o.get("leak")}
    if "probe" in o:
        p = o["probe"]
        a["probe"] = {"q": p["q"], "randcase": p["randcase"], "edns": p["edns"], "inflight": p["inflight"],
                      "txt": [p["tx"], p["elapsed_ms"]], "terr": p["terr"]}
    return a


def rc_replay(chk, exe, hists, label, *, probe=True, key_fn=None, limit=5):
    scen = [rc_scenario(h, probe) for h in hists]
    outs = vkit.run_driver(exe, scen, timeout=900)
    nfail = 0
    for h, sc, o in zip(hists, scen, outs):
        chk.cov["traces_validated_against_impl"] += 1
        if o is None or (isinstance(o, dict) and "crash" in o):
            d = "driver crashed or sanitizer report: %s" % (o or {}).get("crash", "no output")
        else:
            d = vkit.deep_diff(rc_expected(h, probe), rc_actual(o))
        if d:
            nfail += 1
            if nfail <= limit:
                chk.violation("%s: %s" % (label, d), {"scenario": sc, "history": rc_strip(h), "expected": rc_expected(h, probe),
                                                      "actual": o, "msg": d},
                              key=key_fn(h, d) if key_fn else None)
    if nfail:
        vkit.log("[dns] %s: %d/%d scenarios failed" % (label, nfail, len(hists)))
    return outs


def rc_fuzz_texts(rng, n):
    """Mutated / random file contents (sanitizer side condition only)."""
    seeds = ["nameserver 10.0.0.1\nsearch a.example b.example\noptions ndots:2 timeout:3 attempts:2\n",
             "domain x.example\nnameserver [2001:db8::1]:53\noptions edns-udp-size:1232 randomize-case:0\n",
             "10.1.1.1 alpha beta # c\n::1 localhost\n2001:db8::5\tdelta\n"]
    outs = []
    for _ in range(n):
        b = bytearray(rng.choice(seeds).encode() * rng.choice([1, 1, 2, 40]))
        for _ in range(rng.randint(1, 12)):
            k = rng.randint(0, 4)
            pos = rng.randrange(len(b) + 1)
            if k == 0 and b:
                b[pos % len(b)] = rng.randrange(256)
            elif k == 1:
                b[pos:pos] = bytes(rng.randrange(256) for _ in range(rng.randint(1, 8)))
            elif k == 2 and b:
                del b[pos % len(b):pos % len(b) + rng.randint(1, 20)]
            elif k == 3:
                b[pos:pos] = rng.choice([b":", b"#", b" ", b"\t", b"\n", b"options ", b"nameserver ", b"search ",
                                         b"ndots:", b"99999999999999999999", b"-1", b"::", b"[", b"]", b"." * 300])
            else:
                b[pos:pos] = bytes([rng.choice([0, 0x80, 0xff, 0x0d])]) * rng.randint(1, 3)
        outs.append(b.decode("latin-1"))
    return outs


# ------------------------------------------------------------------ DnsMsg: helpers shared by C33 C35 C36 C37
T_A, T_NS, T_CNAME, T_PTR, T_TXT, T_AAAA, T_OPT = 1, 2, 5, 12, 16, 28, 41
NAME_TYPES = (T_NS, T_CNAME, T_PTR)


def labels(name):
    """Text name -> list of labels as byte lists (trailing dot dropped)."""
    if isinstance(name, str):
        name = name.encode("latin-1")
    if name.endswith(b"."):
        name = name[:-1]
    return [list(l) for l in name.split(b".")] if name else []


def join_labels(ls):
    return b".".join(bytes(l) for l in ls)


def plain_name(ls):
    return b"".join(bytes([len(l)]) + bytes(l) for l in ls) + b"\0"


def validate(chk, name, vectors, *, timeout=1500, workers=4):
    """Binding V: judge implementation-produced bytes with the reference (DnsMsgV.tla).  Returns {index: why}."""
    if not vectors:
        return {}
    path = os.path.join(TMP, "dnsvec_%s_%d.json" % (name, os.getpid()))
    with open(path, "w") as f:
        json.dump(vectors, f)
    cfg = vkit.write_cfg(name, {}, invariants=["NonEmpty", "Report"])
    fails = {}

    def sink(v):
        if isinstance(v, dict) and "fail" in v:
            fails[v["fail"] - 1] = v["why"]
    res = vkit.tlc("DnsMsgV", cfg, env={"DNSVEC": path, "JAVA_TOOL_OPTIONS": "-Xss64m"}, print_sink=sink, timeout=timeout, workers=workers)
    chk.add_tlc(name, res)
    if res.distinct != len(vectors):
        raise vkit.InfraError("%s: TLC judged %d of %d vectors\n%s" % (name, res.distinct, len(vectors), res.raw[-2000:]))
    os.unlink(path)
    chk.cov["traces_validated_against_impl"] += len(vectors)
    return fails


def gen_messages(chk, name, consts, *, timeout=900, workers=4):
    """Enumerate the adversarial message space with TLC (DnsMsgGen.tla); the reference's invariants are checked on each."""
    base = {"Mode": "reply", "QTypes": {1}, "FlagIdx": {1}, "QIdx": {1}, "RRIdx": {1}, "NsIdx": {1}, "ArIdx": {1},
            "CntIdx": {1}, "CutSet": {0}, "IdSet": {0}, "MaxAn": 1, "Random": False, "RandomN": 0}
    base.update(consts)
    for k, v in list(base.items()):
        if isinstance(v, (list, tuple, range)):
            base[k] = set(v)
    cfg = vkit.write_cfg(name, base, invariants=["Bytes", "Total", "CaseMonotone", "OkSound", "ReEncode", "Emit"])
    out, seen = [], set()

    def sink(v):
        k = bytes(v["b"]) + bytes([v["qt"]])
        if k not in seen:
            seen.add(k)
            out.append(v)
    res = vkit.tlc("DnsMsgGen", cfg, env={"JAVA_TOOL_OPTIONS": "-Xss64m"}, print_sink=sink, timeout=timeout, workers=workers)
    chk.add_tlc(name, res)
    if not out:
        raise vkit.InfraError("generator %s produced nothing\n%s" % (name, res.raw[-1500:]))
    return out


def hexb(b):
    return bytes(b).hex()
