"""C26 - HTTP messages written by evhttp carry exactly the caller's content (specs/HttpWrite.tla).

The real API is driven with concrete arguments (reply styles send_reply / send_error / send_reply_start+chunk*+end
answering GET / HEAD / POST requests of HTTP/1.1 and 1.0 with close / keep-alive; evhttp_make_request with methods,
targets, header sets, bodies) over adversarial value tokens (CR, LF, CRLF + "X-Inj: 1", high octets, empty, long,
message-like bodies).  The octets the peer received are handed to TLC as a trace: for every event TLC decides that
(model) the specification's writer followed by the RFC 9112 reference parser of HttpFraming.tla is the identity on
acceptable arguments and is not on injecting ones, and (impl) the reference parser applied to the captured octets
yields exactly the one message the caller supplied plus the automatic header fields, with every injecting argument
refused.
"""
import json, os, random, itertools
import vkit
from checks import http_common as hc

K_REASON = "C26-reason-phrase-not-validated"
K_TARGET = "C26-request-target-not-validated"
K_BODILESS = "C26-body-written-for-bodiless-message"
K_STREAM10 = "C26-streamed-reply-http10-keepalive"
K_BLANK = "C26-header-value-blank-line-accepted"
BREAKS = {"crlf": "\r\n", "lf": "\n", "cr": "\r"}
FOLLOW = {"sp": " ", "ht": "\t", "letter": "b", "end": ""}


def linebreak_values():
    """header values with 1 and 2 line breaks in every combination of break kind x what follows, plus two adjacent breaks"""
    vs = []
    for b1 in BREAKS.values():
        for f1 in FOLLOW.values():
            vs.append("a" + b1 + f1 + ("x" if f1 in (" ", "\t") else ""))
            if f1 == "":
                continue
            for b2 in BREAKS.values():
                for f2k, f2 in FOLLOW.items():
                    vs.append("a" + b1 + f1 + "x" + b2 + (f2 + "Injected: y" if f2k == "letter" else f2 + ("z" if f2 else "")))
        for b2 in BREAKS.values():
            vs.append("a" + b1 + b2 + " x")          # an empty line inside the value
    return vs

INJ = "a\r\nX-Inj: 1"
VALS = {"plain": "v1", "empty": "", "cr": "a\rb", "lf": "a\nb", "crlfhdr": INJ, "high": "caféÿ", "long": "x" * 300,
        "colon": "a: b"}
NAMES = {"plain": "X-A", "empty": "", "crlf": "X\r\nY", "lf": "X\nY", "ctype": "Content-Type", "date": "Date", "clen": None}
REASONS = {"plain": "OK", "empty": "", "crlfhdr": "Not\r\nX-Inj: 1", "lf": "a\nb", "high": "café", "long": "r" * 200}
URIS = {"plain": "/p", "query": "/p?q=1&r=%20", "crlfhdr": "/a HTTP/1.1\r\nX-Inj: 1\r\nY: z", "space": "/a b", "lf": "/a\nb",
        "high": "/café", "long": "/" + "u" * 400, "empty": ""}
BODIES = {"none": "", "text": "hello", "msg": "a\r\n\r\nHTTP/1.1 200 OK\r\nContent-Length: 0\r\n\r\nGET /x HTTP/1.1\r\n\r\n",
          "high": "ÿþ\u0001z", "long": "b" * 5000}


DCTS = {"lib": ["lib"], "null": ["null"], "valid": ["set", "text/plain"], "crlf": ["set", "text/plain\r\nSet-Cookie: session=attacker"],
        "lf": ["set", "text/plain\nX-Inj: 1"], "cr": ["set", "text/plain\rX-Inj: 1"]}


def bad(s):
    return "\r" in s or "\n" in s


def key_of(e):
    import re

    def blank_line_accepted(v):      # two adjacent line breaks, and every run of breaks is followed by SP / HTAB (libevent accepts it)
        t = v.replace("\r\n", "\0").replace("\r", "\0").replace("\n", "\0")
        return "\0\0" in t and re.fullmatch(r"(?:[^\0]|\0+[ \t])*", t) is not None
    if e.get("style") != "error" and any(blank_line_accepted(h[1]) for h in e["hdrs"]):
        return K_BLANK
    if e["kind"] == "resp":
        needbody = e["code"] not in (204, 304) and e["rmethod"] != "HEAD"
        if bad(e["reason"]):
            return K_REASON
        if e["style"] == "reply" and not needbody and e["body"]:
            return K_BODILESS
        if e["style"] == "chunked" and e["rver"] == [1, 0] and e["rconn"] == "keep-alive" and needbody and any(e["chunks"]):
            return K_STREAM10
    else:
        if bad(e["uri"]) or " " in e["uri"] or e["uri"] == "":
            return K_TARGET
        if e["method"] == "HEAD" and e["body"]:
            return K_BODILESS
    return None


def mk_hdrs(rng, n, host):
    hs = [["Host", "h"]] if host else []
    for _ in range(n):
        nm = rng.choice(list(NAMES))
        if nm == "clen":
            continue
        v = rng.choice(list(VALS))
        hs.append([NAMES[nm], "Thu, 01 Jan 1970 00:00:00 GMT" if nm == "date" and v == "plain" else VALS[v]])
    return hs


def corpus(rng, q):
    ev = []
    ctxs = [(m, v, c) for m in ("GET", "HEAD", "POST") for v in ([1, 1], [1, 0]) for c in ("", "close", "keep-alive")]
    # responses: every (style, code) x request context x reason token, random header set / body
    for style, codes in (("reply", (200, 204, 304, 404)), ("error", (404, 500)), ("chunked", (200, 204))):
        for code in codes:
            for (m, v, c) in ctxs:
                for rk in (REASONS if not q else ("plain", "crlfhdr", "high", "empty")):
                    for rep in range(1 if q else 3):
                        bk = rng.choice(list(BODIES))
                        chunks = [rng.choice(["abc", "", "0\r\n\r\n", "é" * 20, "z" * 300]) for _ in range(rng.randint(0, 3))]
                        ev.append({"kind": "resp", "rmethod": m, "rver": v, "rconn": c, "style": style, "code": code,
                                   "reason": REASONS[rk], "hdrs": mk_hdrs(rng, rng.randint(0, 3), False),
                                   "body": BODIES[bk] if style == "reply" else "", "chunks": chunks if style == "chunked" else [],
                                   "dct": DCTS[rng.choice(list(DCTS))]})
    # every header name / value token once in an otherwise plain reply
    for nk, vk in itertools.product(NAMES, VALS):
        if NAMES[nk] is not None:
            ev.append({"kind": "resp", "rmethod": "GET", "rver": [1, 1], "rconn": "", "style": "reply", "code": 200, "reason": "OK",
                       "hdrs": [["X-First", "1"], [NAMES[nk], VALS[vk]], ["X-Last", "2"]], "body": "hello", "chunks": [], "dct": ["lib"]})
    ev.append({"kind": "resp", "rmethod": "GET", "rver": [1, 1], "rconn": "", "style": "reply", "code": 200, "reason": "OK",
               "hdrs": [["Content-Length", "5"]], "body": "hello", "chunks": [], "dct": ["lib"]})
    # every default-Content-Type value: handler sets no / its own Content-Type; body / bodiless; plain and streamed replies
    for dk in DCTS:
        for hdrs in ([], [["X-A", "v1"]], [["Content-Type", "app/own"]]):
            for (m, v, c) in (("GET", [1, 1], ""), ("POST", [1, 0], "keep-alive"), ("GET", [1, 1], "close")):
                for style, code in (("reply", 200), ("reply", 404), ("chunked", 200), ("reply", 204), ("error", 500)):
                    ev.append({"kind": "resp", "rmethod": m, "rver": v, "rconn": c, "style": style, "code": code, "reason": "OK",
                               "hdrs": hdrs, "body": "hello" if style == "reply" and code != 204 else "",
                               "chunks": ["abc", "de"] if style == "chunked" else [], "dct": DCTS[dk]})
    for v in linebreak_values():
        ev.append({"kind": "resp", "rmethod": "GET", "rver": [1, 1], "rconn": "", "style": "reply", "code": 200, "reason": "OK",
                   "hdrs": [["X-First", "1"], ["X-V", v], ["X-Last", "2"]], "body": "hello", "chunks": [], "dct": ["lib"]})
        ev.append({"kind": "req", "method": "POST", "uri": "/p", "hdrs": [["Host", "h"], ["X-V", v], ["X-Last", "2"]], "body": "pp"})
    # requests
    for m in ("GET", "POST", "PUT", "DELETE", "HEAD"):
        for uk in URIS:
            for bk in (BODIES if not q else ("none", "text", "msg")):
                ev.append({"kind": "req", "method": m, "uri": URIS[uk], "hdrs": mk_hdrs(rng, rng.randint(0, 3), True), "body": BODIES[bk]})
    for nk, vk in itertools.product(NAMES, VALS):
        if NAMES[nk] is not None:
            ev.append({"kind": "req", "method": "POST", "uri": "/p", "hdrs": [["Host", "h"], [NAMES[nk], VALS[vk]], ["X-Last", "2"]], "body": "pp"})
    return ev


def scenario(e):
    if e["kind"] == "resp":
        req = "%s /a HTTP/%d.%d\r\nHost: h\r\n" % (e["rmethod"], e["rver"][0], e["rver"][1])
        if e["rconn"]:
            req += "Connection: %s\r\n" % e["rconn"]
        if e["rmethod"] == "POST":
            req += "Content-Length: 2\r\n\r\npp"
        else:
            req += "\r\n"
        return {"mode": "server", "cfg": {}, "bytes": req, "segs": [[]], "eof": 0,
                "reply": dict({k: e[k] for k in ("style", "code", "reason", "hdrs", "body", "chunks")},
                              **({} if e["dct"][0] == "lib" else {"dct": e["dct"][1] if e["dct"][0] == "set" else None}))}
    return {"mode": "client", "cfg": {}, "bytes": "", "segs": [[]], "eof": 0,
            "reqs": [{"m": e["method"], "uri": e["uri"], "hdrs": e["hdrs"], "body": e["body"]}]}


def judge(chk, name, view, events):
    """One TLC run: HttpWrite decides model and impl for every event of the trace."""
    d = os.path.join(vkit.OUT, "tmp"); os.makedirs(d, exist_ok=True)
    tr = os.path.join(d, "%s_%d.ndjson" % (name, os.getpid()))
    with open(tr, "w") as f:
        for e in events:
            f.write(json.dumps(e) + "\n")
    c = hc.consts(view, ["get"], ["xa"], ["none"], 0, 0)
    cfgp = hc.write_cfg(name, c, invariants=["Judge"])
    txt = open(cfgp).read().replace("INIT Init", "INIT WInit").replace("NEXT Next", "NEXT WNext")
    open(cfgp, "w").write(txt)
    verdicts = {}
    res = vkit.tlc("HttpWrite", cfgp, env={"TRACE": tr}, workers=1, print_sink=lambda v: verdicts.__setitem__(v["i"], v), timeout=1500)
    chk.add_tlc(name, res)
    os.unlink(tr)
    if len(verdicts) != len(events):
        raise vkit.InfraError("%s: TLC judged %d of %d events\n%s" % (name, len(verdicts), len(events), res.raw[-3000:]))
    return [verdicts[i + 1] for i in range(len(events))]


def run(tier, seed):
    q = tier == "quick"
    chk = vkit.Check("C26", tier, seed)
    exe = vkit.cc("http_drv", ["http_drv.c"])
    rng = random.Random(seed)
    ev = corpus(rng, q)
    # triggers of the open findings are probed by a few events each; the general corpus is everything else
    trig, seen = [], {}
    for e in ev:
        k = key_of(e)
        if k:
            seen[k] = seen.get(k, 0) + 1
            if seen[k] <= 12:
                trig.append(e)
    ev = [e for e in ev if not key_of(e)] + trig
    outs = vkit.run_driver(exe, [scenario(e) for e in ev], timeout=900)
    for e, o in zip(ev, outs):
        if o is None or "crash" in o or o.get("hang") or len(o["runs"]) != 1:
            if o and o.get("hang"):
                raise vkit.InfraError("driver hang on %s" % json.dumps(e)[:300])
            e["crash"] = (o or {}).get("crash", "no output")
            e["rc"], e["raw"], e["closed"] = [0] * (len(e["hdrs"]) + 1), "", False
            continue
        ob = o["runs"][0]["o"]
        e["rc"], e["raw"], e["closed"] = ob.get("rc", []), ob.get("raw", ""), bool(ob["closed"])
        if e["kind"] == "resp" and len(ob["d"]) != 1:
            raise vkit.InfraError("request was not delivered to the replying callback: %s" % json.dumps(ob)[:300])
    nfail = 0
    for view, kind in (("client", "resp"), ("server", "req")):
        sub = [e for e in ev if e["kind"] == kind]
        vs = judge(chk, "C26_%s" % kind, view, sub)
        chk.cov["traces_validated_against_impl"] += len(sub)
        for e, v in zip(sub, vs):
            k = key_of(e)
            chk.count_case({x: e[x] for x in e if x not in ("raw", "rc", "closed")}, nontrivial=True)
            chk.cov.setdefault("judged", {"model_ok": 0, "impl_ok": 0, "refused_args": 0})
            chk.cov["judged"]["model_ok"] += bool(v["model"]); chk.cov["judged"]["impl_ok"] += bool(v["impl"])
            chk.cov["judged"]["refused_args"] += sum(1 for r in e["rc"] if r != 0)
            if not v["model"]:
                raise vkit.InfraError("specification's own writer is not the identity on %s" % json.dumps(e)[:600])
            if e.get("crash"):
                chk.violation("driver crashed on %s: %s" % (json.dumps(e)[:400], e["crash"]), e)
            elif not v["impl"]:
                nfail += 0 if k else 1        # keyed (open finding) failures do not use up the report budget
                if k or nfail <= 8:
                    chk.violation("%s: written octets %r (refusals %s, closed=%s) do not parse as exactly the caller's message; "
                                  "reference parse: %s; arguments %s" % (
                                      kind, e["raw"][:400], e["rc"], e["closed"], json.dumps(v["parsed"])[:700],
                                      json.dumps({x: e[x] for x in e if x not in ("raw", "rc", "closed")})[:500]),
                                  {"event": e, "verdict": v}, key=k)
            elif k:
                pass  # a trigger of an open finding that no longer fails
        for e in sub[:2]:
            chk.sample({"arguments": {x: e[x] for x in e if x not in ("raw", "rc", "closed")}, "written": e["raw"][:300], "refusals": e["rc"]})
    chk.cov["rule"] = ("each event = one use of the real API with concrete (adversarial) arguments; the octets the peer received are "
                       "parsed by the RFC 9112 reference parser inside TLC (HttpWrite.tla Judge) and must be exactly one message "
                       "with the caller's start line, header multiset (+ Date, Content-Length, Transfer-Encoding, Connection, "
                       "Content-Type as documented) and body; CR / LF (target: also SP, empty) arguments must be refused; TLC also "
                       "decides on every event that the specification's own writer composed with the parser is the identity and "
                       "that the injecting arguments really inject.")
    chk.assumptions += ["optional whitespace around header values, ':' / SP inside header names and obs-fold (CRLF SP) inside values are "
                        "not exercised", "the generated error page body of evhttp_send_error is not compared (only its framing)",
                        "Expect: 100-continue requests are not exercised"]
    return chk.finish()
