"""C36 - queries on the wire are well-formed and ask for the requested name (DnsMsgQ.tla + DnsMsg!QueryOK, bindings G and V)."""
import vkit
from checks import dns_common as dc

KEY_EMPTY = "C36-empty-or-oversized-label-names-transmitted-malformed"
TYPES = {1: "a", 28: "aaaa"}


def gen(chk, name, c, timeout=900):
    base = {"NameIdx": set(range(1, 23)), "SearchIdx": {1}, "NdotsSet": {1}, "TypeSet": {1}, "FlagSet": {0}, "CaseSet": {1}, "EdnsSet": {0}}
    base.update({k: set(v) for k, v in c.items()})
    cfg = vkit.write_cfg(name, base, invariants=["PredictionsEncodable", "SelfConsistent", "Emit"])
    out, seen = [], set()

    def sink(v):
        k = repr(sorted((a, repr(b)) for a, b in v.items() if a != "res"))
        if k not in seen:
            seen.add(k); out.append(v)
    res = vkit.tlc("DnsMsgQ", cfg, print_sink=sink, timeout=timeout, workers=4, env={"JAVA_TOOL_OPTIONS": "-Xss64m"})
    chk.add_tlc(name, res)
    if not out:
        raise vkit.InfraError("generator %s produced nothing\n%s" % (name, res.raw[-1500:]))
    return out


def text_of(nm):
    return b".".join(bytes(l) for l in nm["ls"]) + (b"." if nm["trail"] else b"")


def scenario(s):
    conf = ""
    if s["search"]:
        conf += "search " + " ".join(dc.join_labels(d).decode() for d in s["search"]) + "\n"
    conf += "options ndots:%d\n" % s["ndots"]
    opts = [["randomize-case", str(s["randcase"])]]
    if s["edns"]:
        opts.append(["edns-udp-size", str(s["edns"])])
    return {"mode": "query", "dir": dc.TMP, "type": TYPES[s["type"]], "name_hex": text_of(s["name"]).hex(), "flags": s["flags"],
            "conf": conf, "opts": opts}


def run(tier, seed):
    q = tier == "quick"
    chk = vkit.Check("C36", tier, seed)
    exe = dc.driver()
    if q:
        specs = gen(chk, "C36_names", {"SearchIdx": {1, 2}, "NdotsSet": {1, 2}, "FlagSet": {0, 1}}) + \
                gen(chk, "C36_opts", {"NameIdx": {1, 4, 9, 11, 18}, "SearchIdx": {2, 3}, "TypeSet": {1, 28}, "CaseSet": {0, 1}, "EdnsSet": {0, 1232, 4096}})
    else:
        specs = gen(chk, "C36_all", {"SearchIdx": {1, 2, 3}, "NdotsSet": {1, 2, 4}, "TypeSet": {1, 28}, "FlagSet": {0, 1}, "CaseSet": {0, 1},
                                     "EdnsSet": {0, 1232}}, timeout=1800)
    scen = [scenario(s) for s in specs]
    # reverse lookups: the name is derived from the address by the library
    ptr = [("ptr4", b"1.2.3.4", "4.3.2.1.in-addr.arpa"),
           ("ptr6", b"2001:db8::1", ".".join("1000000000000000000000008bd01002") + ".ip6.arpa")]
    for t, a, n in ptr:
        scen.append({"mode": "query", "dir": dc.TMP, "type": t, "name_hex": a.hex(), "flags": 0, "conf": "options ndots:1\n",
                     "opts": [["randomize-case", "1"]]})
        specs.append({"name": {"ls": dc.labels(n), "trail": False}, "type": 12, "randcase": 1, "edns": 0, "ptr": True,
                      "res": {"k": "seq", "names": [dc.labels(n)]}, "search": [], "ndots": 1, "flags": 0})
    outs = vkit.run_driver(exe, scen, timeout=900)
    vecs, owner = [], []
    kinds = {}
    for i, (s, sc, o) in enumerate(zip(specs, scen, outs)):
        res = s["res"]
        kinds[res["k"]] = kinds.get(res["k"], 0) + 1
        chk.count_case(sc, nontrivial=True)
        if o is None or "crash" in o or o.get("leak"):
            chk.violation("C36: crash / sanitizer report / leak: %s" % str(o)[:600], {"scenario": sc, "actual": o})
            continue
        pk = o["pkts"]
        errs = [c["err"] for c in o["cb"]]
        if res["k"] == "fail":
            if pk:
                chk.violation("C36: a name that cannot be encoded as valid labels (%r) was transmitted: %s" % (text_of(s["name"])[:40], pk[0][:120]),
                              {"scenario": sc, "prediction": res, "actual": o},
                              key=KEY_EMPTY if s.get("ni") in (5, 6, 7, 8, 12, 13) else None)   # the known finding: empty labels / 254-255 characters
            elif o["ret"] and (not errs or errs[0] == 0):
                chk.violation("C36: request for an unencodable name neither failed nor reported an error", {"scenario": sc, "actual": o})
            continue
        if not o["ret"] or not pk:
            if res["k"] == "first" and not pk and (not res["names"][0] or res.get("mayfail")):
                continue        # the root name / an over-long search candidate: refusing the request is acceptable
            chk.violation("C36: request for a valid name failed / nothing transmitted (%r)" % text_of(s["name"])[:40],
                          {"scenario": sc, "prediction": res, "actual": o})
            continue
        if res["k"] == "seq" and len(pk) != len(res["names"]):
            chk.violation("C36: %d queries transmitted, the search order predicts %d (%s)" % (len(pk), len(res["names"]),
                          [dc.join_labels(n).decode("latin-1") for n in res["names"]]), {"scenario": sc, "prediction": res, "actual": o})
            continue
        if res["k"] == "seq" and errs != [3]:
            chk.violation("C36: callbacks %s, expected one NXDOMAIN" % errs, {"scenario": sc, "actual": o})
            continue
        for j, p in enumerate(pk):
            names = [res["names"][j]] if (res["k"] == "seq" or (j == 0 and res["k"] == "first")) else res["names"]
            vecs.append({"kind": "query", "b": list(bytes.fromhex(p)), "names": names, "type": s["type"], "randcase": s["randcase"], "edns": s["edns"]})
            owner.append((i, j))
    chk.cov["verdicts"] = kinds
    if not kinds.get("fail") or not kinds.get("seq"):
        raise vkit.InfraError("vacuous corpus %s" % kinds)
    fails = dc.validate(chk, "C36_v", vecs)
    for v, why in sorted(fails.items()):
        i, j = owner[v]
        s = specs[i]
        root = s["res"]["names"] and not s["res"]["names"][0]
        chk.violation("C36: query %d for %r is not the well-formed query the reference demands: %s (%s)" %
                      (j, text_of(s["name"])[:50], why, outs[i]["pkts"][j][:160]),
                      {"scenario": scen[i], "prediction": s["res"], "actual": outs[i]}, key=KEY_EMPTY if root else None)
    for s in specs[:3]:
        chk.sample({"name": text_of(s["name"]).decode("latin-1"), "search": [dc.join_labels(d).decode() for d in s["search"]], "ndots": s["ndots"],
                    "prediction": {"k": s["res"]["k"], "names": [dc.join_labels(n).decode("latin-1") for n in s["res"]["names"]]}})
    chk.cov["rule"] = ("TLC enumerates requests over 22 name tokens (plain, mixed case, empty labels, leading / trailing / double dots, 63/64-byte "
                       "labels, 253/254/255-character names, non-ASCII, backslash) x search lists x ndots x A/AAAA x DNS_QUERY_NO_SEARCH x "
                       "randomize-case x edns-udp-size and predicts with DnsMsgQ!QueryFor either failure or the exact sequence of question "
                       "names (every answer is NXDOMAIN).  The real resolver is configured through a resolv.conf + set_option, a fake "
                       "nameserver captures every datagram; the number/order of queries is compared and every captured datagram is judged "
                       "by TLC with DnsMsg!QueryOK (one question, name equal (0x20-insensitive when on), type/class, RD, OPT iff EDNS).")
    chk.assumptions += ["absolute names (trailing dot), the root and search candidates longer than 255 bytes: only the first query and the "
                        "well-formedness of the others are demanded (undocumented)",
                        "PTR names are derived from two fixed addresses by the glue"]
    return chk.finish()
