"""Shared machinery for the I/O backend checks (C04 C05 C06): EpollTable.tla / Backend.tla."""
import json, os, subprocess, re
import vkit

WORK = os.path.join(vkit.OUT, "backend")


def workdir():
    os.makedirs(WORK, exist_ok=True)
    return WORK


def run_tool(exe, args, what, timeout=120):
    """Run a harness program that prints ndjson; returns the parsed records."""
    e = dict(os.environ)
    e.setdefault("ASAN_OPTIONS", "detect_leaks=0:abort_on_error=0:exitcode=97")
    r = subprocess.run([exe] + list(args), capture_output=True, text=True, env=e, timeout=timeout)
    if r.returncode != 0:
        raise vkit.InfraError("%s failed rc=%s: %s" % (what, r.returncode, r.stderr[-2000:]))
    return r.stdout, [json.loads(l) for l in r.stdout.split("\n") if l.startswith("{")]


def tlc_state_of_violation(raw):
    """The state TLC prints for an invariant violation (for the message)."""
    m = re.search(r"is violated[^\n]*\n(.*?)(?:\n\d+ states generated|\Z)", raw, re.S)
    return (m.group(1) if m else raw[-1500:]).strip()[:1500]
