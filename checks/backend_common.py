"""Shared machinery for the I/O backend checks (C04 C05 C06): EpollTable.tla / Backend.tla."""
import json, os, subprocess, re
import vkit

WORK = os.path.join(vkit.OUT, "backend")


def workdir():
    os.makedirs(WORK, exist_ok=True)
    return WORK


def run_tool(exe, args, what, timeout=120):
    """Run a harness program that prints ndjson; returns the parsed records."""
    e = dict(os.environ)
    e.setdefault("ASAN_OPTIONS", "detect_leaks=0:abort_on_error=0:exitcode=97")
    r = subprocess.run([exe] + list(args), capture_output=True, text=True, env=e, timeout=timeout)
    if r.returncode != 0:
        raise vkit.InfraError("%s failed rc=%s: %s" % (what, r.returncode, r.stderr[-2000:]))
    return r.stdout, [json.loads(l) for l in r.stdout.split("\n") if l.startswith("{")]


def tlc_state_of_violation(raw):
    """The state TLC prints for an invariant violation (for the message)."""
    m = re.search(r"is violated[^\n]*\n(.*?)(?:\n\d+ states generated|\Z)", raw, re.S)
    return (m.group(1) if m else raw[-1500:]).strip()[:1500]


# ---------------------------------------------------------------- Backend.tla (C05, C04)
BACKENDS = ("epoll", "epollcl", "poll", "select")
C05_INVS = ["TypeOK", "InterestOK", "CountsOK", "PollArrayOK", "ChangelistOK"]


def consts(backend, D, *, nfd=2, nev=3, masks=(1, 2, 3, 4, 5, 6, 7), ets=(0, 1), keeper=(), acts=("add", "del", "close", "wait", "reinit"),
           avoid=True, kinds=None):
    if backend == "select":
        masks = [m for m in masks if m < 4]
    if not backend.startswith("epoll"):
        ets = (0,)
    return {"Backend": backend, "NFd": nfd, "NEv": nev, "Masks": set(masks), "ETs": set(ets), "Keeper": set(keeper),
            "K1": (list(kinds or []) + ["sp"] * 3)[0], "K2": (list(kinds or []) + ["sp"] * 3)[1],
            "K3": (list(kinds or []) + ["sp"] * 3)[2],
            "Acts": set(acts), "D": D, "AvoidKnown": avoid}


def strip_obs(h):
    return [{k: v for k, v in s.items() if k != "o"} for s in h]


def tlc_backend(name, c, *, mode, invariants=C05_INVS, simulate=None, depth=None, seed=None, workers=4, timeout=1200,
                max_hist=None, spec="Backend", env=None, emit="Emit"):
    """mode 'mc': state graph (VIEW hides hist), invariants only; 'gen': histories (Emit)."""
    hists, seen = [], set()

    def sink(v):
        k = json.dumps(strip_obs(v), sort_keys=True)
        if k in seen:
            return
        seen.add(k)
        if max_hist is None or len(hists) < max_hist:
            hists.append(v)
    if mode == "mc":
        cfg = vkit.write_cfg(name, c, invariants=invariants, constraint="GenConstraint", view="StateView")
        res = vkit.tlc(spec, cfg, want_prints=False, workers=workers, timeout=timeout, coverage=True, env=env)
    else:
        cfg = vkit.write_cfg(name, c, invariants=list(invariants) + [emit], constraint="GenConstraint")
        res = vkit.tlc(spec, cfg, simulate=simulate, depth=depth, seed=seed, print_sink=sink, workers=workers,
                       timeout=timeout, env=env)
    return res, hists


def run_parallel(jobs, nthreads=4):
    """jobs: list of (key, callable) -> dict key -> result (exceptions re-raised)."""
    from concurrent.futures import ThreadPoolExecutor
    out = {}
    with ThreadPoolExecutor(max_workers=nthreads) as ex:
        futs = [(k, ex.submit(f)) for k, f in jobs]
        for k, f in futs:
            out[k] = f.result()
    return out


FDMAPS = ([21, 70, 33], [150, 22, 64], [63, 65, 300])


def drv_cfg(c, *, mode="snap", sigfd=0, fdmap=0, kinds=None):
    n = c["NFd"]
    return {"backend": c["Backend"], "sigfd": sigfd, "mode": mode, "fdnum": FDMAPS[fdmap % len(FDMAPS)][:n],
            "kind": list(kinds or [c["K1"], c["K2"], c["K3"]][:n]), "keeper": sorted(c["Keeper"])}


def build_driver():
    return vkit.cc("backend_drv", ["backend_drv.c"],
                   extra=["-Wl,--wrap=poll,--wrap=select,--wrap=epoll_wait,--wrap=epoll_pwait2"])


def replay_c05(chk, exe, hists, c, *, label, variants, limit_fail=3):
    """Replay histories on the real backend; compare every observation (return values, interest set at waits)."""
    nfail = 0
    for (sigfd, fdmap) in variants:
        dc = drv_cfg(c, mode="snap", sigfd=sigfd, fdmap=fdmap)
        outs = vkit.run_driver(exe, [{"cfg": dc, "h": strip_obs(h)} for h in hists], timeout=300)
        for o in outs:
            want = "epoll" if c["Backend"].startswith("epoll") else c["Backend"]
            if isinstance(o, dict) and "method" in o and not o["method"].startswith(want):
                raise vkit.InfraError("backend %s not selected (got %s)" % (c["Backend"], o["method"]))
        fails = vkit.compare_histories(hists, outs)
        chk.cov["traces_validated_against_impl"] += len(hists)
        for (i, k, msg) in fails[:limit_fail]:
            chk.violation("%s backend=%s sigfd=%d fdnum=%s scenario %d step %d: %s\n  history: %s" %
                          (label, c["Backend"], sigfd, dc["fdnum"], i, k, msg, json.dumps(strip_obs(hists[i][:k + 1]))),
                          {"cfg": dc, "h": hists[i], "fail_step": k, "msg": msg, "real": outs[i]},
                          key=json.dumps(strip_obs(hists[i][:k + 1]), sort_keys=True))
        if fails:
            vkit.log("[replay] %s %s: %d/%d failed; first: %s" % (label, c["Backend"], len(fails), len(hists), fails[0][2][:400]))
        nfail += len(fails)
    return nfail


# ---------------------------------------------------------------- C04 (binding V)
ENV_OPS = ("pw", "drain", "fill", "pdrain", "pshut", "pclose", "prst")


def run_real(exe, hists, c, backend, sigfd, fdmap=0):
    dc = dict(drv_cfg(c, mode="real", sigfd=sigfd, fdmap=fdmap), backend=backend)
    outs = vkit.run_driver(exe, [{"cfg": dc, "h": strip_obs(h)} for h in hists], timeout=300)
    return dc, outs


def trace_events(h, out, n):
    """ndjson events of one execution (scenario number n)."""
    ev = [{"e": "reset", "n": n}]
    obs = out["obs"]
    for s, o in zip(h, obs):
        a = s["a"]
        if a == "add":
            ev.append({"e": "add", "ev": s["e"], "fd": s["fd"], "m": s["m"], "et": s["et"]})
        elif a == "del":
            ev.append({"e": "del", "ev": s["e"]})
        elif a in ("close", "reopen"):
            ev.append({"e": a, "fd": s["fd"]})
        elif a == "reinit":
            ev.append({"e": "reinit"})
        elif a == "wait":
            ev.append({"e": "wait", "p": o["p"], "p2": o["p2"], "rep": [{"fd": r["fd"], "p": r["p"]} for r in o["rep"]],
                       "cb": [{"e": x["e"], "w": x["w"]} for x in o["cb"]]})
        else:
            ev.append({"e": "env", "a": a, "fd": s["fd"]})
    return ev


def validate_trace(name, c, events, timeout=1200):
    """Run Backend_Trace on the events; returns (TLCResult, verdict records, done?)."""
    path = os.path.join(workdir(), name + ".ndjson")
    with open(path, "w") as f:
        for e in events:
            f.write(json.dumps(e, separators=(",", ":")) + "\n")
    cfg = vkit.write_cfg(name, c, invariants=["TraceInv"], init="TInit", next_="TNext")
    prints = []
    res = vkit.tlc("Backend_Trace", cfg, env={"TRACE": path}, print_sink=prints.append, workers=1, timeout=timeout)
    verdicts = [p for p in prints if isinstance(p, dict) and "verdict" in p]
    done = any(isinstance(p, dict) and "done" in p for p in prints)
    return res, verdicts, done


def check_taken(chk, res, required, name):
    """Vacuity guard on the number of times an action was *taken* (event_reinit usually leads to an already known
    abstract state, so the distinct-state count vkit.Check.check_coverage looks at is legitimately 0 for it)."""
    missing = [a for a in required if res.coverage.get(a, (0, 0))[1] == 0]
    if missing:
        raise vkit.InfraError("vacuous model run %s: actions never taken: %s" % (name, missing))
    chk.cov.setdefault("action_coverage", {}).update({name + ":" + a: res.coverage[a][1] for a in required})
