"""Shared glue for the pure-function modules Escape (C29), Uri (C28), Evtag (C42), Ascii (C41), Inet (C40).

Pattern: a TLA+ module defines the reference function over a token alphabet *with its bytes*; TLC
enumerates the token product, decides the reference's own laws as invariants and prints one record
per input (input bytes + reference results).  harness/util_drv.c calls the real function on the same
bytes; the records are compared field by field (vkit.deep_diff)."""
import json, os, re
import vkit

DRV = None


def driver():
    global DRV
    if DRV is None:
        DRV = vkit.cc("util_drv", ["util_drv.c"])
    return DRV


def gen(chk, module, name, consts, invariants, *, emit="Emit", workers=None, timeout=1200, need=(),
        dedupe=True, coverage=False, constraint=None):
    """Run TLC on specs/<module>.tla: decide `invariants`, collect the records printed by `emit`."""
    cfg = vkit.write_cfg(name, consts, invariants=list(invariants) + ([emit] if emit else []), constraint=constraint)
    recs, seen = [], set()

    def sink(v):
        if dedupe:
            k = json.dumps(v, sort_keys=True, separators=(",", ":"))
            if k in seen:
                return
            seen.add(k)
        recs.append(v)
    res = vkit.tlc(module, cfg, print_sink=sink, coverage=coverage, workers=min(workers or 8, int(os.environ.get('VERIF_WORKERS', vkit.NCPU))),
                   timeout=timeout)
    chk.add_tlc(name, res)
    if coverage and need:
        chk.check_coverage(res, list(need), name)
    if emit is not None and not recs:
        raise vkit.InfraError("generator %s printed no records" % name)
    return recs, res


def drive(cases, **kw):
    """cases: list of dicts with "op"; returns driver outputs (or {"crash":..})."""
    return vkit.run_driver(driver(), cases, **kw)


def s2b(s):
    return list(s.encode("latin-1"))


def b2s(b):
    if b is None:
        return None
    return bytes(b).decode("latin-1")


def compare(chk, label, cases, expected, outs, *, key_of=None, limit=8, nontrivial=None, known=None):
    """expected[i] is compared with outs[i] by deep_diff; reports at most `limit` violations.
    known: optional callable(case, msg) -> key of an open known finding or None."""
    nfail = nnew = 0
    for i, (c, e, o) in enumerate(zip(cases, expected, outs)):
        chk.count_case(c, nontrivial(c) if nontrivial else True)
        chk.cov["traces_validated_against_impl"] += 1
        if o is None:
            msg = "no driver output"
        elif isinstance(o, dict) and "crash" in o:
            summ = [l for l in o["crash"].split("\n") if l.startswith("SUMMARY: ")]
            msg = "driver crashed (sanitizer report or abort): %s ... %s" % (" ".join(summ), o["crash"][-1200:])
        else:
            msg = vkit.deep_diff(e, o, "")
        if msg:
            nfail += 1
            k = known(c, msg) if known else None
            if k is None:
                nnew += 1
            if k is not None or nnew <= limit:
                chk.violation("%s case %s: %s" % (label, json.dumps(c)[:600], msg),
                              {"case": c, "expected": e, "actual": o, "msg": msg},
                              key=k if k is not None else (key_of(c) if key_of else json.dumps(c, sort_keys=True)))
    if nfail:
        vkit.log("[%s] %d/%d cases differ (%d not attributed to a known finding)" % (label, nfail, len(cases), nnew))
    return nfail


# ------------------------------------------------------------------ C29
_PCT = re.compile(r"%([0-9a-fA-F]{2})")


def upper_hex(b):
    """normalise the case of the hex digits of %XX escapes (the property leaves it open)"""
    if b is None:
        return None
    return s2b(_PCT.sub(lambda m: "%" + m.group(1).upper(), b2s(b)))


def esc_case(r):
    return {"op": "esc", "i": r["i"], "nul": r["nul"]}


def esc_expected(r):
    rt = {"b": r["i"], "z": 1}
    e = {"e0": r["e0"], "e1": r["e1"], "rt00": rt, "rt11": rt, "rt01": rt}
    if not r["nul"]:
        e.update({"e0n": r["e0"], "e1n": r["e1"], "e0d": r["e0"],
                  "d0": {"b": r["d0"], "z": 1}, "d1": {"b": r["d1"], "z": 1}, "h": r["h"]})
    return e


def esc_normalise(o):
    if isinstance(o, dict) and "crash" not in o:
        for k in ("e0", "e1", "e0n", "e1n", "e0d"):
            if k in o:
                o[k] = upper_hex(o[k])
    return o


def query_case(r):
    return {"op": "query", "i": r["i"]}


def query_expected(r):
    return {"q": r["q"], "plain": r["q"][0]}


# ------------------------------------------------------------------ replay of one stored violation
def replay(pid, stored, normalise=None):
    """./check <ID> --replay <file>: re-run the stored case on the current tree and compare with the stored
    specification prediction.  exit 1 (VIOLATION) if it still differs, 0 otherwise."""
    c = stored.get("case", stored)
    case, exp = c["case"], c["expected"]
    out = drive([case])[0]
    if normalise:
        out = normalise(out)
    if isinstance(out, dict) and "crash" in out:
        msg = "driver crashed: " + out["crash"][-1500:]
    else:
        msg = vkit.deep_diff(exp, out, "")
    if msg:
        print("VIOLATION property=%s replay=(stored case) %s" % (pid, msg[:1000]))
        return 1
    print("replayed case conforms to the specification's prediction")
    return 0


# ------------------------------------------------------------------ C28
KEY_UNIX = "uri-unix-socket-path-reused-as-path"
KEY_JOIN = "uri-join-accepts-unrepresentable-components"
JOIN_FAMILY = {"no-scheme-colon", "no-authority-double-slash", "userinfo-or-port-without-host", "port-range",
               "unix-relative-path"}


def uri_parse_cases(rec):
    """one reference record (8 flag sets) -> [(case, expected)]"""
    out = []
    for fl, r in zip(rec["fl"], rec["r"]):
        case = {"op": "uri", "i": rec["i"], "fl": fl, "_tag": "unix-slash" if r.get("slash") else ""}
        if r["st"] == "open":
            continue                                  # the reference leaves the input open: nothing to compare
        if r["st"] == "reject":
            exp = {"st": "reject"}
        else:
            exp = {"st": "ok", "c": r["c"], "jn": 1, "je": 1, "rp": {"st": "ok", "c": r["c"]}}
        out.append((case, exp))
    return out


def uri_set_cases(rec):
    out = []
    for r in rec:
        if r["fl"] < 0:
            continue
        tag = "unix-slash" if r.get("slash") else (r["why"] if r["why"] in JOIN_FAMILY else "")
        out.append(({"op": "uriset", "fl": r["fl"], "a": r["a"], "_tag": tag}, r))
    return out


def uri_set_expected(r, o):
    """The property lets join refuse; what it fixes: setter results, getters, and - if join returned a
    string - that the string parses back to the components (impossible when unrepresentable)."""
    rc = dict(r["rc"]); rc["_"] = 0
    e = {"rc": rc, "c": r["c"]}
    if r["why"] == "ok":
        if isinstance(o, dict) and o.get("jn") == 1:
            e["je"] = 1
            e["rp"] = {"st": "ok", "c": r["rp"]}
    else:
        e["jn"] = 0
    return e


def uri_known(case, msg):
    if case.get("_tag") == "unix-slash":
        return KEY_UNIX
    if case.get("_tag") in JOIN_FAMILY and ".jn" in msg:
        return KEY_JOIN
    return None


# ------------------------------------------------------------------ C42
def tag_rt_case(r):
    return {"op": "tagrt", "items": r["items"]}


def tag_rt_expected(r):
    return {"wire": r["wire"], "steps": r["steps"], "splitdiff": 0}


def tag_dec_case(r):
    return {"op": "tagdec", "b": r["b"]}


def tag_dec_expected(r):
    e = {k: v for k, v in r.items() if k != "b"}
    if e.get("tot") == -1:
        e["tot"] = {"_any": True}      # fails, or a length >= 2^24 whose sum the model does not compute
    return {"r": e, "splitdiff": 0}


# ------------------------------------------------------------------ C41
def _sign_exp(v):
    return {"_oneof": [-1, 1]} if v == 2 else v


def str_case(r):
    return {"op": "str", "a": r["a"], "b": r["b"]}


def str_expected(r):
    return {"cmp": _sign_exp(r["cmp"]), "ncmp": [_sign_exp(v) for v in r["ncmp"]], "str": r["str"],
            "rtrim": r["rtrim"], "snp": r["snp"]}


# ------------------------------------------------------------------ C40
def pton_case(r, af):
    return {"op": "pton", "af": af, "t": r["t"]}


def pton_check_platform(recs, outs, what):
    """reference vs platform inet_pton: a disagreement is an error of the specification (exit 2),
    except where the property itself allows more than the platform (IPv4 leading zeros)."""
    for r, o in zip(recs, outs):
        if r["st"] == "open" or r.get("lz") or not isinstance(o, dict) or "pl" not in o:
            continue
        want = 1 if r["st"] == "ok" else 0
        if o["pl"]["rc"] != want or (want and o["pl"]["a"] != r["a"]):
            raise vkit.InfraError("%s: the reference disagrees with the platform's inet_pton on %r: reference %s %s, "
                                  "platform %s (specification error, not a finding)"
                                  % (what, b2s(r["t"]), r["st"], r["a"], o["pl"]))


def pton_expected(r):
    if r["st"] == "ok":
        return {"le": {"rc": 1, "a": r["a"]}}
    return {"le": {"rc": 0}}
