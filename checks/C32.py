"""C32 - WebSocket handshake answer and outgoing frames are RFC 6455 conformant (WsFrames.tla "enc" mode; binding G).

TLC decides the encoder reference (EncHdrOK: single unmasked FIN frame, right opcode, minimal length form, the header
parses back to the length; EncDecodeOK: the reference decoder decodes Encode(m) to exactly m; CloseOK: the close frame
carries the status code) and enumerates API histories open -> send_text/send_binary* -> close with the predicted bytes.
The driver performs them on a real evhttp+evws server and a raw TCP client captures the 101 response and every byte
written; both are compared with the prediction.  The SHA-1/base64 digest is known-answer only."""
import json, random, zlib
import vkit
from checks import ws_common as ws

RFC_KEY, RFC_ACCEPT = "dGhlIHNhbXBsZSBub25jZQ==", "s3pPLMBiTxaQ9kYGzzhZRbK+xOo="     # RFC 6455 section 1.3
KAT_KEYS = [RFC_KEY, "x3JJHMbDL1EzLkh9GBhXDw==", "AQIDBAUGBwgJCgsMDQ4PEA=="]


def extra_keys(rnd, n_random):
    """known-answer vectors beyond the ones carried as spec constants: lengths 0..987 and arbitrary bytes
    (no CR/LF/NUL, no leading/trailing whitespace: those never reach the application as part of a header value)"""
    ks = [b"", b"a", b"+/==", b"key with inner spaces", bytes(range(0x80, 0x100)), bytes(range(0x21, 0x7f)),
          b"k" * 55, b"k" * 56, b"k" * 63, b"k" * 64, b"k" * 119, b"k" * 120, b"Z" * 500, b"y" * 986, b"y" * 987]
    for _ in range(n_random):
        ln = rnd.choice([16, 24, 27, 28, 64, 200, rnd.randint(1, 987)])
        k = bytes(rnd.choice([c for c in range(0x21, 0x100) if c != 0x7f]) for _ in range(ln))
        ks.append(k)
    return ks


def expected_wire(o):
    return bytes(o["wb"]["h"]) + ws.pat_bytes(o["wb"]["p"])


def compare_step(step, obs, accept=None):
    a = step["a"]
    if "err" in obs:
        return "driver: %s" % obs["err"]
    if obs.get("wd"):
        raise vkit.InfraError("driver watchdog expired")
    if a == "open":
        st, hdrs = ws.parse_head(obs.get("head", ""))
        if st != step["o"]["status"] or obs.get("sess") != 1:
            return "upgrade answered with status %r (session created: %r), expected %d" % (st, obs.get("sess"), step["o"]["status"])
        got = hdrs.get("sec-websocket-accept", [])
        want = accept if accept is not None else step["o"]["accept"]
        if got != [want]:
            return "Sec-WebSocket-Accept %r, expected %r" % (got, want)
        if obs.get("rest"):
            return "%d unexpected bytes after the 101 response" % obs["rest"]
        return None
    exp = expected_wire(step["o"])
    wb = obs["wb"]
    if wb["n"] != len(exp) or wb["crc"] != (zlib.crc32(exp) & 0xffffffff) or wb["hex"] != exp[:96].hex():
        return "bytes written for %s(len %s): %d bytes starting %s, expected %d bytes starting %s" % (
            a, step.get("p", [step.get("code")])[0], wb["n"], wb["hex"][:28], len(exp), exp[:14].hex())
    if obs["msgs"]:
        return "message callback invoked while only sending"
    if obs["closed"] != step["o"]["closed"] or obs["eof"] != step["o"]["closed"]:
        return "after %s: close callbacks %d, client EOF %d, expected %d" % (a, obs["closed"], obs["eof"], step["o"]["closed"])
    return None


def to_scenario(h, key_bytes=None):
    ops = []
    for s in h:
        if s["a"] == "open":
            ops.append({"a": "open", "req": ws.upgrade_request(key_bytes if key_bytes is not None else s["key"].encode())})
        elif s["a"] == "close":
            ops.append({"a": "close", "code": s["code"]})
        else:
            ops.append({"a": s["a"], "p": s["p"]})
    return {"h": ops}


def run_hists(chk, exe, items, label, key=None, limit_fail=5):
    """items: (history, key_bytes or None, accept or None)"""
    scen = [to_scenario(h, kb) for (h, kb, acc) in items]
    outs = vkit.run_driver(exe, scen, timeout=3000)
    nfail = 0
    for (h, kb, acc), sc, o in zip(items, scen, outs):
        chk.cov["traces_validated_against_impl"] += 1
        chk.count_case({"h": [{k: v for k, v in s.items() if k != "o"} for s in h], "key": kb.hex() if kb is not None else None},
                       nontrivial=True)
        msg = None
        if isinstance(o, dict) and o.get("hang"):
            raise vkit.InfraError("driver shard timed out (machine overloaded?)")
        if not isinstance(o, dict) or "obs" not in o:
            msg = "driver: %s" % (o.get("crash") if isinstance(o, dict) else o)
        else:
            for k, s in enumerate(h):
                if k >= len(o["obs"]):
                    msg = "driver stopped early"
                    break
                m = compare_step(s, o["obs"][k], acc)
                if m:
                    msg = "step %d (%s): %s" % (k, s["a"], m)
                    break
        if msg:
            nfail += 1
            if nfail <= limit_fail:
                what = [(s["a"], s.get("p", [s.get("code", "")])[0] if s["a"] != "open" else (len(kb) if kb is not None else s["key"])) for s in h]
                chk.violation("%s %s: %s" % (label, what, msg), {"h": h, "key": kb.hex() if kb is not None else None,
                                                                "accept": acc, "scenario": sc, "driver": o, "msg": msg}, key=key)
    if nfail:
        vkit.log("[%s] %d/%d histories differ" % (label, nfail, len(items)))
    return nfail


def run(tier, seed):
    q = tier == "quick"
    chk = vkit.Check("C32", tier, seed)
    rnd = random.Random(seed)
    exe = ws.driver()
    st = ws.finding_status(chk)
    if ws.accept_of(RFC_KEY.encode()) != RFC_ACCEPT:
        raise vkit.InfraError("known-answer oracle disagrees with RFC 6455 section 1.3")
    kat = tuple((k, RFC_ACCEPT if k == RFC_KEY else ws.accept_of(k.encode())) for k in KAT_KEYS)
    lens = {0, 1, 2, 125, 126, 127, 65535, 65536, 65537, 1048577}
    if not q:
        lens |= {124, 128, 255, 256, 257, 65534, 131072, 16777217}
    codes = {0, 1000, 1001, 1002, 1009, 255, 256, 4999, 65535}
    c = ws.consts(Mode="enc", KAT=kat, EncLens=lens, Codes=codes, D=3)

    # one TLC run: decides the encoder invariants in every state and emits every maximal history
    hists = ws.generate(chk, "C32_enc", c, invariants=("EncHdrOK", "EncDecodeOK", "CloseOK", "Emit"), timeout=1500)
    # the very large sends (1 MiB+1, 16 MiB+1) are kept only next to a tiny send or a close: pairing them with
    # every other length adds volume, not behaviour
    def keep(h):
        sz = [s["p"][0] for s in h if "p" in s]
        return not any(x > 1000000 for x in sz) or all(x > 1000000 or x <= 1 for x in sz)
    hists = [h for h in hists if keep(h)]
    ops = {}
    for h in hists:
        for s in h:
            ops[s["a"]] = ops.get(s["a"], 0) + 1
    for need in ("open", "text", "bin", "close"):
        if not ops.get(need):
            raise vkit.InfraError("vacuous corpus: no %s step" % need)
    chk.cov["op_histogram"] = ops
    for h in hists[:1] + hists[-2:]:
        chk.sample({"history": [{k: v for k, v in s.items() if k != "o"} for s in h],
                    "predicted_header_bytes": [s["o"]["wb"]["h"] for s in h if "wb" in s["o"]], "accept": h[0]["o"]["accept"]})
    run_hists(chk, exe, [(h, None, None) for h in hists], "C32_enc")
    vkit.log("[C32] %d API histories replayed" % len(hists))

    # known-answer handshakes with further keys (digest clause), each followed by one short send and a close
    tmpl = next(h for h in hists if [s["a"] for s in h] == ["open", "text", "close"] and h[1]["p"][0] == 1)
    items = []
    for kb in extra_keys(rnd, 40 if q else 400):
        items.append((tmpl, kb, ws.accept_of(kb)))
    run_hists(chk, exe, items, "C32_kat")
    chk.cov["known_answer_keys"] = len(items) + len(kat)

    # known finding: keys longer than 987 bytes (excluded above)
    longkeys = [b"A" * 1000] + ([] if st.get(ws.K4) == "open" else [b"y" * 988, b"B" * 4000])
    run_hists(chk, exe, [(tmpl, kb, ws.accept_of(kb)) for kb in longkeys], "canonical[%s] key of %d bytes" % (ws.K4, len(longkeys[0])), key=ws.K4)

    chk.cov["rule"] = ("TLC (enc mode): EncHdrOK / EncDecodeOK / CloseOK hold for every send length and close code of the configuration; "
                       "every maximal history open(key) -> (send_text|send_binary)(len)* -> close(code) up to the depth bound is emitted "
                       "with the predicted wire bytes; the driver executes it with evws_new_session / evws_send_text / "
                       "evws_send_binary / evws_close on a real evhttp server and the raw client's view (101 response, every byte "
                       "written, close callback, EOF) is compared after every step (length, crc32, first 96 bytes). "
                       "Lengths: %s. Close codes: %s." % (sorted(lens), sorted(codes)))
    chk.assumptions += [
        "digest clause (SHA-1 + base64) is known-answer only: RFC 6455 section 1.3 vector plus %d keys whose expected value is "
        "computed with python hashlib (lengths 0..987, bytes 0x21..0xff incl. non-ASCII)" % (len(items) + 2),
        "keys contain no CR/LF/NUL and no leading/trailing whitespace",
        "payload lengths >= 2^32 are not exercised (largest: %d bytes)" % max(lens),
        "text payloads are printable ASCII without NUL (evws_send_text takes a C string)",
    ] + (["known finding %s: keys longer than 987 bytes are excluded from the general corpus; one canonical 1000-byte key is run separately" % ws.K4]
         if st.get(ws.K4) == "open" else [])
    return chk.finish()


def replay(case, seed):
    exe = ws.driver()
    c = case["case"]
    o = vkit.run_driver(exe, [c["scenario"]])[0]
    print(json.dumps(o)[:2000])
    for k, s in enumerate(c["h"]):
        m = compare_step(s, o["obs"][k], c.get("accept"))
        if m:
            print("step %d: %s" % (k, m))
            return 1
    return 0
