"""C16 - evbuffer socket I/O moves exactly the bytes the system call reports (Evbuffer.tla, binding G with scripted
read/readv/write/writev/sendfile via link-time --wrap)."""
import vkit
from checks import evbuffer_common as ec

IO = {"evread", "evwrite", "sfwrite"}
SHAPE = {"add", "prepend", "addref", "addfile", "rmbuf", "drain"}


def run(tier, seed):
    q = tier == "quick"
    gen = [
        # every 2-call history of read/write with every script (short result, EINTR, EAGAIN, ECONNRESET/EPIPE)
        dict(name="C16_exh_rw", consts=ec.consts({"evread", "evwrite"}, 2, wa=37, wb=331, data=("bLa",) if q else ("a", "bLa"), nsel=(1, 9) if q else (0, 1, 2, 9))),
        # directed: chain A filled exactly (976 bytes), a read that fills the next chain exactly (976) or not (575/576/977),
        # drain part of A, small add: last_with_datap must follow the bytes read (validator) and the add must land after them
        dict(name="C16_dir_readfill", consts=ec.consts({"add", "evread", "drain", "dir_rd"}, 4, wa=400, wb=575, data=("bNa", "bNaC", "C", "a"),
                                                      nsel=(1, 2, 3, 9))),
        # every sendfile write (offset, howmuch, script) on a DRAINS_TO_FD buffer, incl. howmuch < segment length with an
        # unlimited system call (fixed finding d2d0371: exactly min(howmuch, k) bytes must move)
        dict(name="C16_exh_sf", consts=ec.consts({"sfwrite"}, 1, wa=1021, wb=4099, nsel=(0,))),
        dict(name="C16_exh_sf2", consts=ec.consts({"sfwrite"}, 1, wa=37, wb=331, nsel=(0,))),
        # buffer shapes: 3 forced adds (separate chains with big widths) then shape ops, then I/O
        (dict(name="C16_shapes", consts=ec.consts({"add", "prepend", "addref", "evwrite"}, 5, wa=509, wb=2048, data=("a", "bLa"), nsel=(1, 2, 9), warm=3), stride=3)
         if q else
         dict(name="C16_shapes", consts=ec.consts(SHAPE | {"evwrite", "evread"}, 5, wa=509, wb=2048, data=("a", "bLa"), nsel=(1, 2, 9), warm=3), stride=4)),
    ]
    for (wa, wb) in ([(37, 331)] if q else [(1, 1), (37, 331), (331, 37), (509, 1021)]):
        gen.append(dict(name="C16_rand_%d_%d" % (wa, wb),
                        consts=ec.consts(ec.C12_ACTS | IO | ec.CB_ACTS, 18 if q else 30, wa=wa, wb=wb, data=("", "a", "b", "aCL", "bLa"),
                                         nsel=(0, 1, 2, 3, 9), sizes=(0, 2000), maxlen=8, cbmode=1),
                        simulate=8 if q else 60, depth=90))
    plan = {
        "mc": [("C16_mc", ec.consts(IO | {"add", "drain", "freeze", "unfreeze"}, 2 if q else 3, wa=2, wb=3, data=("a", "aCL"), nsel=(0, 1, 9), sizes=(0,)))],
        "gen": gen,
        "need_ops": ["evread", "evwrite", "sfwrite", "addref", "addfile"],
        "rule": "evbuffer_read / evbuffer_write / evbuffer_write_atmost run on a socketpair whose read/readv/write/writev/sendfile "
                "calls are intercepted (link-time --wrap) and made to transfer at most k bytes or to fail with EINTR/EAGAIN/"
                "ECONNRESET/EPIPE as the scenario says; the return value, the bytes that arrived on the wire, the bytes left "
                "in the socket (next read), and the complete query battery of both buffers are compared with the specification "
                "after every call. Buffers are shaped by add/prepend/add_reference/add_file_segment(mmap,read)/remove_buffer "
                "(many chains), a sendfile segment is written from a DRAINS_TO_FD buffer. TLC decides CountsExact (read "
                "conserves socket+buffer, r <= howmuch, r <= what the system call moved) and FailureUnchanged on the model.",
        "need_hist": {"C16_dir_readfill": lambda h: h[1]["o"]["r"] == 976 and h[2]["nb"] == 575 and h[3]["d"] == ["C"],
                      "C16_exh_sf2": lambda h: h[0]["a"] == "sfwrite" and h[0]["e"] == 0 and h[0]["k"] < 0 and 0 < h[0]["hm"] < h[0]["o"]["rest"] + h[0]["o"]["r"]},
        "assumptions": ["at most 4096 bytes wait in the socket (evbuffer_read's default max_read)",
                        "fewer than 128 chains per buffer (one writev)",
                        "writing an empty buffer / howmuch 0 returns -1 without a system call (named deviation)"],
    }
    return ec.standard_run("C16", tier, seed, plan)
