"""C08 - every call returns with all internal locks released (Locks.tla, binding V).

Scenarios come from the EventCore specification (TLC-generated API histories incl.
callback scripts, finalizers, watchers, once-events); the driver runs them with
recording lock callbacks installed and (a) as they are, (b) with calls the API is
coded to reject or that fail in the backend inserted at random points, (c) with the
n-th allocation failing for every n the scenario reaches.  The recorded lock/API
trace is validated by TLC against the monitor specification Locks.tla."""
import json, os, random, glob, re, shutil
import vkit
from checks import eventcore_common as ec

A = ec.ALL_ACTS | {"new", "free", "fin", "once", "exit", "break", "cont", "script", "wnew", "wfree", "flags", "addc", "initc", "maxclr"}
S = {"break", "cont", "exit", "act", "later", "del", "add", "free", "fin"}
NBAD = 12


def validate(chk, trace_path, label):
    res = vkit.tlc("Locks", "Locks_Trace", env={"VERIF_TRACE": trace_path}, workers=1, want_prints=False, timeout=1200, xmx="6g")
    chk.cov["states"] += res.distinct
    chk.cov["transitions"] += res.generated
    chk.cov["tlc_runs"].append({"name": label, "distinct": res.distinct, "generated": res.generated, "wall_s": round(res.wall, 1),
                                "violation": res.violation})
    if res.error:
        raise vkit.InfraError("trace validation %s: %s\n%s" % (label, res.error, res.raw[-3000:]))
    if res.violation:
        raise vkit.InfraError("trace validation %s: unexpected %s\n%s" % (label, res.violation, res.raw[-3000:]))
    if "TRACE-ACCEPTED" not in res.raw:
        raise vkit.InfraError("trace validation %s: trace not consumed\n%s" % (label, res.raw[-3000:]))
    return [(int(a), b, c) for a, b, c in re.findall(r'<<"BAD", (\d+), "([^"]+)", "([^"]*)">>', res.raw)]


def run_batch(chk, exe, scen, label):
    """Run scenarios with lock recording; validate; returns nothing, records violations."""
    d = os.path.join(vkit.OUT, "tmp", "locks_%s_%d" % (label, os.getpid()))
    shutil.rmtree(d, ignore_errors=True)
    os.makedirs(d)
    for i, s in enumerate(scen):
        s["cfg"]["sid"] = str(i)
    outs = vkit.run_driver(exe, scen, env={"VERIF_LOCKTRACE": os.path.join(d, "t")})
    for i, o in enumerate(outs):
        if isinstance(o, dict) and "crash" in o:
            if o.get("hang"):
                chk.violation("%s scenario %d: driver hung (a call never returned)" % (label, i), scen[i], key=None)
            else:
                chk.violation("%s scenario %d: %s" % (label, i, o["crash"][:1500]), scen[i], key=None)
    files = sorted(glob.glob(os.path.join(d, "t.*")))
    # concatenate into chunks of bounded size and validate each chunk
    chunk, size, nchunk, nev = [], 0, 0, 0
    def flush():
        nonlocal chunk, size, nchunk
        if not chunk:
            return
        path = os.path.join(d, "chunk%d.ndjson" % nchunk)
        with open(path, "w") as f:
            f.writelines(chunk)
        for (pos, why, name) in validate(chk, path, "%s_chunk%d" % (label, nchunk)):
            sid = None
            for ln in chunk[:pos][::-1]:
                if '"Reset"' in ln:
                    sid = int(json.loads(ln)["n"]); break
            ctx = [json.loads(x) for x in chunk[max(0, pos - 12):pos]]
            sc = scen[sid] if sid is not None else None
            key = "%s:%s" % (why, name)
            if name == "oncebad" and sc:
                # identify which rejected call it was: the last 'oncebad' step's argument is in the scenario, find via Enter count
                key = "%s:%s" % (why, name)
            chk.violation("%s: lock discipline violated at trace event %d: %s in API call '%s' (scenario %s); last events: %s"
                          % (label, pos, why, name, sid, json.dumps(ctx)[-900:]),
                          {"scenario": sc, "why": why, "api": name, "events": ctx}, key=key)
        chunk, size = [], 0
        nchunk += 1
    for f in files:
        lines = [x for x in open(f).readlines() if x.startswith("{") and x.endswith("}\n")]  # a crashed driver may leave a cut last line
        nev += len(lines)
        chunk += lines
        size += len(lines)
        if size > 400000:
            flush()
    flush()
    shutil.rmtree(d, ignore_errors=True)
    chk.cov["traces_validated_against_impl"] += len(scen)
    chk.cov["trace_events"] = chk.cov.get("trace_events", 0) + nev
    return outs


def run(tier, seed):
    q = tier == "quick"
    rnd = random.Random(seed)
    chk = vkit.Check("C08", tier, seed)
    exe = vkit.cc("eventcore_drv", ["eventcore_drv.c"], vclock=True)
    c = ec.consts({1, 2, 3, 4, 5}, A, 14 if q else 22, scriptops=S, prealloc=False, durs=(0, 1, 2))
    hs = ec.generate(chk, "C08_gen", c, simulate=40 if q else 300, depth=500, seed=seed, invariants=ec.INV_LIST + ["Emit"],
                     constraint="GenConstraintNT", max_hist=1500 if q else 8000)
    if len(hs) < 50:
        raise vkit.InfraError("too few histories")
    dc = ec.drv_cfg(c)
    plain = [{"cfg": dict(dc), "h": ec.strip_obs(h)} for h in hs]
    for s in plain:
        chk.count_case(s["h"], ec.nontrivial(s["h"]))
    chk.sample({"kind": "plain", "history": plain[0]["h"]})
    # (a) as generated
    outs = run_batch(chk, exe, plain, "plain")
    # (b) rejected / failing calls inserted
    bad = []
    for s in plain[: (800 if q else 4000)]:
        h = list(s["h"])
        for _ in range(rnd.randint(1, 3)):
            h.insert(rnd.randint(0, len(h)), {"a": "oncebad", "n": rnd.randrange(NBAD)})
        # case 11 runs a (non-blocking) loop call of its own: callbacks and finalizers may run there which the generated
        # history does not account for, so the history ends with it (the lock discipline is judged up to and including it)
        for i, st_ in enumerate(h):
            if st_["a"] == "oncebad" and st_["n"] == 11:
                h = h[:i + 1]
                break
        bad.append({"cfg": dict(dc), "h": h})
    for s in bad:
        chk.count_case(s["h"], True)
    chk.sample({"kind": "rejected-calls", "history": bad[0]["h"]})
    run_batch(chk, exe, bad, "badargs")
    # the same rejected / failing calls under the poll and select backends (their dispatch error paths differ)
    for be in ("select", "poll"):
        sub = []
        for s in bad[: (250 if q else 1000)]:
            cfg = dict(s["cfg"]); cfg["backend"] = be; cfg["tick_ns"] = 1000000
            sub.append({"cfg": cfg, "h": s["h"]})
        run_batch(chk, exe, sub, "badargs_" + be)
    # (c) n-th allocation fails, for every n reached
    af = []
    pick = rnd.sample(range(len(plain)), min(len(plain), 40 if q else 200))
    for i in pick:
        n_alloc = outs[i].get("allocs", 0) if isinstance(outs[i], dict) else 0
        for n in range(1, min(n_alloc, 80) + 1):
            cfg = dict(dc); cfg["allocfail0"] = n
            af.append({"cfg": cfg, "h": plain[i]["h"]})
    for s in af:
        chk.count_case([s["cfg"]["allocfail0"]] + s["h"], True)
    if af:
        chk.sample({"kind": "alloc-fault", "fail_nth_allocation": af[0]["cfg"]["allocfail0"], "history": af[0]["h"]})
    run_batch(chk, exe, af, "allocfail")
    # (d) the evbuffer API with locking enabled on every buffer (Evbuffer.tla histories: file segments whose lazy
    #     materialisation fails, references, buffer references, moves, callbacks, n-th allocation failing)
    from checks import evbuffer_common as evb
    exe2, sc2 = evb.lock_scenarios(seed, q)
    if len(sc2) < 50:
        raise vkit.InfraError("too few evbuffer lock scenarios")
    for s in sc2:
        chk.count_case(["evbuffer", s["cfg"].get("failn", 0)] + s["h"], True)
    chk.sample({"kind": "evbuffer", "history": sc2[0]["h"]})
    run_batch(chk, exe2, sc2, "evbuffer")
    chk.cov["fault_runs"] = {"plain": len(plain), "rejected_calls": len(bad), "alloc_faults": len(af), "evbuffer": len(sc2)}
    chk.cov["rule"] = ("EventCore histories (TLC simulation) executed with recording lock callbacks: as generated, with calls the API rejects / "
                       "that fail in the backend inserted (regular-file fd -> epoll EPERM, bad fd, EV_SIGNAL|EV_READ, EV_PERSIST once-events, NULL "
                       "base), and with the n-th allocation failing for every n; each recorded trace (lock/unlock/trylock/condwait, API "
                       "enter/return, callback enter/exit) is validated by TLC against Locks.tla. distinct = distinct (fault, history) pairs.")
    chk.assumptions += ["single thread: the discipline is checked per call, blocking of other threads follows from a leaked lock",
                        "API calls of the reactor core (EventCore driver) and of evbuffer (Evbuffer driver) are bracketed; evbuffer callbacks run under the buffer lock by design and are not bracketed",
                        "invalid arguments are limited to ones the API is coded to reject (no undefined behaviour)"]
    return chk.finish()
