"""C45 - prepare/check watchers (EventCore.tla, binding G, ASan)."""
from checks import eventcore_common as ec

A = {"wnew", "wfree", "add", "act", "loop", "flags", "adv", "feed", "del"}


def run(tier, seed):
    q = tier == "quick"
    plan = {
        "mc": [("C45_mc", ec.consts({3}, {"wnew", "wfree", "add", "loop"}, 3 if q else 4, durs=(0, 1)))],
        "need_actions": ["Api", "ApiLoop", "IterTop", "RunWatcher", "Wait", "LoopReturn"],
        "gen": [
            dict(name="C45_exh", consts=ec.consts({3}, {"wnew", "wfree", "add", "loop"}, 3 if q else 4, durs=(1,))),
            dict(name="C45_rand", consts=ec.consts({1, 3, 4}, A, 14 if q else 24, durs=(0, 1, 2)),
                 simulate=100 if q else 400, depth=600),
            # watchers that touch the base (add a 1-tick timer, activate an event, delete a timer) from the prepare / check phase:
            # the loop still waits with the timeout the prepare watchers were told
            dict(name="C45_rand_scr", consts=ec.consts({1, 3, 4}, {"wnew", "wfree", "wscr", "add", "loop", "flags", "adv", "del"}, 12 if q else 18,
                                                       durs=(0, 2, 3)),
                 simulate=60 if q else 300, depth=600, constraint="GenConstraintNT"),
        ],
        "need_ops": ["wnew", "wfree", "loop", "cb:prep", "cb:check", "cb:cb"],
        "rule": "histories of watcher creation/free (incl. from inside watcher callbacks: free self, free next, free previous, "
                "create new; adding a timer, activating or deleting an event) interleaved with events and loop iterations; the callback log of every loop call (which watcher ran, "
                "in which order relative to the wait and to event callbacks, and the timeout a prepare watcher was told) is "
                "compared with the model; ASan build catches use of freed watchers.",
        "assumptions": ["a watcher created from inside a watcher callback of the same kind runs in the same iteration (as the "
                        "code does; the property does not say)"],
    }
    return ec.standard_run("C45", tier, seed, plan)


def replay(case, seed):
    return ec.replay_case("C45", case, seed)
